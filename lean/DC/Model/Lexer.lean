import DC.Prelude.Utf8
import DC.Gen.Unicode
import DC.Gen.Tokens

/-!
# Model of `/repo/lexer/lexer.go` (every function, rune for rune)

The reader is the *pure* reader over the not-yet-delivered bytes `rest`:
`ReadRune` = `utf8.DecodeRune rest` (error iff `rest = []`), `Peek n` = the first `min n 4096` bytes of
`rest` (bufio's buffer holds 4096 bytes, so `Peek(8192)` never answers more than 4096 bytes).
The pure reader never fails, so the `err` field / `recordErr` / `peek` wrapper / `Err()` of lexer.go:66-83
are not modelled here (the bufio/fault component models them); `l.peek(n)` is `l.reader.Peek(n)`.

Go's order of functions is kept wherever Lean's define-before-use rule allows it; the pure character
predicates (`isHexDigit`, `hexValue`, `isIdentStart`, `isIdentChar`, `isClickHouseWhitespace`,
`isIdentContinueByte`) come first, `nextToken` comes after the scanners it calls. Every definition quotes
its Go line range (line numbers of the tree with commit af45d9d41).

Values are accumulated in *reversed* byte lists (`acc`), reversed once when the token is built.
All loops are total (well-founded recursion on `LState.measure`): their acceptance by Lean is the
statement that no scanner loop can hang. The only exception is the outer `Tokenize` loop, which runs on explicit fuel
(outcome `PanicSite.tokenizeStuck` when it runs out, proved unreachable in `DC.Props.C12`).
-/
namespace DC.Lexer
open DC.Utf8 DC.Gen.Tokens DC.Gen.Unicode

/-! ## Unicode predicates (tables generated from Go's `unicode` package) -/

/-- membership in a list of inclusive ranges (structural, so `decide` can evaluate it). -/
def inRanges (rs : List (Nat × Nat)) (r : Nat) : Bool := rs.any (fun p => p.1 ≤ r && r ≤ p.2)

/-- `unicode.IsLetter`. -/
def isLetter (r : Nat) : Bool := if r < 128 then isLetterAscii.testBit r else inRanges isLetterRanges r
/-- `unicode.IsDigit`. -/
def isDigit (r : Nat) : Bool := if r < 128 then isDigitAscii.testBit r else inRanges isDigitRanges r
/-- `unicode.IsSpace`. -/
def isSpace (r : Nat) : Bool := if r < 128 then isSpaceAscii.testBit r else inRanges isSpaceRanges r

/-- `unicode.ToUpper`, exact only where the image is ASCII (all that `token.Lookup` can observe):
a–z ↦ A–Z, the runes of `toUpperAscii` ↦ their ASCII image, every other rune is left alone. -/
def toUpperRune (r : Nat) : Nat :=
  if 97 ≤ r ∧ r ≤ 122 then r - 32
  else match toUpperAscii.lookup r with
    | some u => u
    | none => r

/-- lexer.go:1197-1199 `isHexDigit`. -/
def isHexDigit (ch : Nat) : Bool := isDigit ch || (97 ≤ ch && ch ≤ 102) || (65 ≤ ch && ch ≤ 70)

/-- lexer.go:1201-1212 `hexValue`. -/
def hexValue (ch : Nat) : Nat :=
  if 48 ≤ ch ∧ ch ≤ 57 then ch - 48
  else if 97 ≤ ch ∧ ch ≤ 102 then ch - 97 + 10
  else if 65 ≤ ch ∧ ch ≤ 70 then ch - 65 + 10
  else 0

/-- lexer.go:1255-1257 `isIdentStart`. -/
def isIdentStart (ch : Nat) : Bool := ch = 95 || isLetter ch

/-- lexer.go:1259-1261 `isIdentChar`. -/
def isIdentChar (ch : Nat) : Bool := ch = 95 || ch = 36 || isLetter ch || isDigit ch

/-- lexer.go:171-173 `isIdentContinueByte`. -/
def isIdentContinueByte (b : UInt8) : Bool :=
  (97 ≤ b.toNat && b.toNat ≤ 122) || (65 ≤ b.toNat && b.toNat ≤ 90) || (48 ≤ b.toNat && b.toNat ≤ 57) || b.toNat = 95

/-- lexer.go:177-193 `isClickHouseWhitespace`: U+FEFF, U+180E, U+200B, U+200C, U+200D, U+2060. -/
def isClickHouseWhitespace (ch : Nat) : Bool :=
  ch = 0xFEFF || ch = 0x180E || ch = 0x200B || ch = 0x200C || ch = 0x200D || ch = 0x2060

theorem isLetter_zero : isLetter 0 = false := by decide
theorem isDigit_zero : isDigit 0 = false := by decide
theorem isSpace_zero : isSpace 0 = false := by decide
theorem isHexDigit_zero : isHexDigit 0 = false := by decide
theorem isIdentStart_zero : isIdentStart 0 = false := by decide
theorem isIdentChar_zero : isIdentChar 0 = false := by decide
theorem isClickHouseWhitespace_zero : isClickHouseWhitespace 0 = false := by decide

/-! ## `token.Lookup ∘ strings.ToUpper` -/

/-- the keyword table with spellings as rune lists (computed once). -/
def keywordRunes : List (List Nat × Nat) := keywords.map (fun p => (p.1.toList.map Char.toNat, p.2))

/-- does `strings.ToUpper(ident)` spell `kw`? (rune-wise; `kw` is ASCII). -/
def upperMatches : Bytes → List Nat → Bool
  | [], [] => true
  | [], _ :: _ => false
  | _ :: _, [] => false
  | b :: bs, k :: ks =>
    let d := decodeRune (b :: bs)
    toUpperRune d.1 = k && upperMatches ((b :: bs).drop d.2) ks

/-- `token.Lookup(strings.ToUpper(ident))` (token.go:434-439). -/
def lookupIdent (ident : Bytes) : Nat :=
  match keywordRunes.find? (fun p => upperMatches ident p.1) with
  | some p => p.2
  | none => tIDENT

/-! ## State, tokens, outcomes -/

/-- `Lexer` (lexer.go:15-21) over the pure reader: `rest` = bytes not yet handed out by `ReadRune`. -/
structure LState where
  rest : Bytes
  ch : Nat
  off : Nat
  line : Nat
  col : Nat
  eof : Bool
deriving Repr, DecidableEq

/-- `Item` (lexer.go:24-29); `off line col` = `Pos`. -/
structure Tok where
  kind : Nat
  val : Bytes
  off : Nat
  line : Nat
  col : Nat
  quoted : Bool
deriving Repr, DecidableEq

/-- the places where the Go code indexes a slice/string with a computed index (a run-time panic if out of
range), plus the progress guard of the model's `Tokenize` loop (not a Go panic: it would be a hang). -/
inductive PanicSite where
  | bitsIndex          -- readBinaryString `bits[i+j]` (lexer.go:621)
  | dollarTagIndex     -- tryReadDollarTag `bytes[i+j]` (lexer.go:839)
  | closingDelimIndex  -- readDollarQuotedString `closingDelim[i]` (lexer.go:886)
  | tokenizeStuck      -- Tokenize: a non-EOF token that consumed nothing (would loop forever)
deriving Repr, DecidableEq

/-- `Item{Token: kind, Value: val, Pos: l.pos, Quoted: q}` with `l.pos` read in state `s`. -/
def tokAt (s : LState) (kind : Nat) (val : Bytes) (q : Bool := false) : Tok :=
  { kind := kind, val := val, off := s.off, line := s.line, col := s.col, quoted := q }

/-- termination measure: two units per undelivered byte, two for a live current character, one for a
stale non-zero `ch` at EOF (a state the lexer never reaches, but the definitions must be total on it). -/
def LState.measure (s : LState) : Nat :=
  2 * s.rest.length + (if s.eof then (if s.ch ≠ 0 then 1 else 0) else 2)

/-! ## Reading and peeking -/

/-- lexer.go:41-63 `readChar`. `ReadRune` of the pure reader fails iff `rest = []` (with io.EOF only). -/
def readChar (s : LState) : LState :=
  if s.eof then { s with ch := 0 }
  else if s.rest.isEmpty then { s with ch := 0, eof := true }
  else
    let d := decodeRune s.rest
    { rest := s.rest.drop d.2, ch := d.1, off := s.off + d.2,
      line := if s.ch = 10 then s.line + 1 else s.line,
      col := if s.ch = 10 then 1 else s.col + 1,
      eof := false }

/-- lexer.go:32-39 `New`. -/
def new (b : Bytes) : LState :=
  readChar { rest := b, ch := 0, off := 0, line := 1, col := 0, eof := false }

theorem readChar_measure_le (s : LState) : (readChar s).measure ≤ s.measure := by
  unfold readChar LState.measure
  split
  · rename_i h; simp [h]
  · rename_i h
    split
    · rename_i h2; simp at h h2; simp [h2]
    · simp at h
      simp [h]
      have := decodeRune_size_le_length s.rest
      omega

theorem readChar_measure_lt (s : LState) (h : ¬(s.eof = true ∧ s.ch = 0)) :
    (readChar s).measure < s.measure := by
  unfold readChar LState.measure
  split
  · rename_i he; simp [he] at h ⊢; simp [h]
  · rename_i he
    split
    · rename_i h2; simp at he h2; simp [he, h2]
    · rename_i h2
      simp at he
      simp [he]
      cases hr : s.rest with
      | nil => simp [hr] at h2
      | cons b t =>
        have h1 := decodeRune_size_pos b t
        have h3 := decodeRune_size_le_length (b :: t)
        simp at h3 ⊢
        omega

theorem readChar_measure_lt_of_not_eof (s : LState) (h : s.eof = false) :
    (readChar s).measure < s.measure :=
  readChar_measure_lt s (by simp [h])

theorem readChar_measure_lt_of_ch (s : LState) (h : s.ch ≠ 0) :
    (readChar s).measure < s.measure :=
  readChar_measure_lt s (by simp [h])

/-- `n` times `l.readChar()`. -/
def iterRC : Nat → LState → LState
  | 0, s => s
  | n + 1, s => iterRC n (readChar s)

theorem iterRC_measure_le (n : Nat) (s : LState) : (iterRC n s).measure ≤ s.measure := by
  induction n generalizing s with
  | zero => exact Nat.le_refl _
  | succ n ih => exact Nat.le_trans (ih _) (readChar_measure_le s)

/-- `l.reader.Peek(n)` on the pure reader behind a 4096-byte bufio buffer. -/
def peekBytes (s : LState) (n : Nat) : Bytes := s.rest.take (min n 4096)

/-- lexer.go:85-95 `peekChar`: `Peek(1)` then `DecodeRune` of that ONE byte, so any byte ≥ 0x80 peeks as U+FFFD. -/
def peekChar (s : LState) : Nat :=
  if s.eof then 0
  else match s.rest with
    | [] => 0
    | b :: _ => (decodeRune [b]).1

/-- loop of `peekCharN` (lexer.go:108-114): `k = n-1-i` iterations remain before the wanted rune,
`bytes` = `bytes[offset:]`. -/
def peekCharNLoop : Nat → Bytes → Nat
  | _, [] => 0
  | 0, b :: t => (decodeRune (b :: t)).1
  | k + 1, b :: t => peekCharNLoop k ((b :: t).drop (decodeRune (b :: t)).2)

/-- lexer.go:98-116 `peekCharN`. -/
def peekCharN (s : LState) (n : Nat) : Nat :=
  if s.eof || n < 1 then 0
  else peekCharNLoop (n - 1) (peekBytes s (n * 4))

/-- the shape shared by most scanner loops: `for cond(l) { sb.WriteRune(l.ch); l.readChar() }`.
`hp` says that the condition fails in the terminal state (EOF reached and `ch = 0`). -/
def scanWhile (p : LState → Bool) (hp : ∀ s, p s = true → ¬(s.eof = true ∧ s.ch = 0))
    (s : LState) (acc : Bytes) : LState × Bytes :=
  if h : p s = true then scanWhile p hp (readChar s) (pushRune acc s.ch) else (s, acc)
termination_by s.measure
decreasing_by exact readChar_measure_lt s (hp s h)

theorem scanWhile_measure_le (p hp) (s : LState) (acc : Bytes) :
    (scanWhile p hp s acc).1.measure ≤ s.measure := by
  fun_induction scanWhile p hp s acc with
  | case1 s acc h ih => exact Nat.le_trans ih (readChar_measure_le s)
  | case2 s acc h => exact Nat.le_refl _

/-- conditions on `l.ch` only: `cond 0 = false` gives the terminal-state property. -/
theorem chCond_ok (c : Nat → Bool) (h0 : c 0 = false) :
    ∀ s : LState, c s.ch = true → ¬(s.eof = true ∧ s.ch = 0) := by
  intro s h ⟨_, hz⟩
  rw [hz, h0] at h
  cases h

/-- conditions containing `!l.eof`. -/
theorem notEofCond_ok (c : LState → Bool) (h0 : ∀ s, c s = true → s.eof = false) :
    ∀ s : LState, c s = true → ¬(s.eof = true ∧ s.ch = 0) := by
  intro s h ⟨he, _⟩
  rw [h0 s h] at he
  cases he

/-- lexer.go:118-124 `skipWhitespace`. -/
def skipWhitespace (s : LState) : LState :=
  if h : (isSpace s.ch || isClickHouseWhitespace s.ch) = true then skipWhitespace (readChar s) else s
termination_by s.measure
decreasing_by
  apply readChar_measure_lt_of_ch
  intro hz
  rw [hz] at h
  simp [isSpace_zero, isClickHouseWhitespace_zero] at h

theorem skipWhitespace_measure_le (s : LState) : (skipWhitespace s).measure ≤ s.measure := by
  fun_induction skipWhitespace s with
  | case1 s h ih => exact Nat.le_trans ih (readChar_measure_le s)
  | case2 s h => exact Nat.le_refl _

/-- lexer.go:129-168 `isIdentifierAfterDot` (byte-level logic on a 32-byte window; note that `idx++` after an
underscore persists when the byte after it is not an identifier byte). -/
def isIdentifierAfterDot (s : LState) : Bool :=
  let bytes := peekBytes s 32
  if bytes.isEmpty then false
  else
    let idx := (bytes.takeWhile (fun b => 48 ≤ b.toNat && b.toNat ≤ 57)).length
    if idx = 0 then false
    else
      let us := bytes[idx]? == some 95
      if us && (match bytes[idx + 1]? with | some b => isIdentContinueByte b | none => false) then true
      else
        let idx1 := if us then idx + 1 else idx
        let tail := bytes.drop idx1
        if tail.isEmpty then false
        else
          let ch := (decodeRune tail).1
          if isLetter ch then
            if ch = 101 || ch = 69 then
              match bytes[idx1 + 1]? with
              | some next =>
                if (48 ≤ next.toNat && next.toNat ≤ 57) || next.toNat = 43 || next.toNat = 45 then false else true
              | none => true
            else true
          else false

/-! ## Comments -/

/-- `l.ch != '\n' && l.ch != 0 && !l.eof` (lexer.go:405, 421). -/
def lineCommentCond (s : LState) : Bool := s.ch ≠ 10 && s.ch ≠ 0 && !s.eof
theorem lineCommentCond_ok : ∀ s, lineCommentCond s = true → ¬(s.eof = true ∧ s.ch = 0) := by
  intro s h; simp [lineCommentCond] at h; simp [h]

/-- `strings.TrimRight(text, ";")` on a reversed buffer. -/
def trimRightSemis (acc : Bytes) : Bytes := acc.dropWhile (fun b => b == 59)

/-- lexer.go:396-412 `readLineComment`. -/
def readLineComment (s : LState) : Tok × LState :=
  let acc := pushRune [] s.ch
  let s1 := readChar s
  let acc := pushRune acc s1.ch
  let s2 := readChar s1
  let r := scanWhile lineCommentCond lineCommentCond_ok s2 acc
  (tokAt s tLINE_COMMENT (trimRightSemis r.2).reverse, r.1)

/-- lexer.go:414-428 `readHashComment`. -/
def readHashComment (s : LState) : Tok × LState :=
  let acc := pushRune [] s.ch
  let s1 := readChar s
  let r := scanWhile lineCommentCond lineCommentCond_ok s1 acc
  (tokAt s tLINE_COMMENT (trimRightSemis r.2).reverse, r.1)

/-- `l.ch != '\n' && l.ch != ';' && l.ch != 0 && !l.eof` (lexer.go:439). -/
def minusCommentCond (s : LState) : Bool := s.ch ≠ 10 && s.ch ≠ 59 && s.ch ≠ 0 && !s.eof
theorem minusCommentCond_ok : ∀ s, minusCommentCond s = true → ¬(s.eof = true ∧ s.ch = 0) := by
  intro s h; simp [minusCommentCond] at h; simp [h]

/-- lexer.go:432-444 `readUnicodeMinusComment`. -/
def readUnicodeMinusComment (s : LState) : Tok × LState :=
  let acc := pushRune [] s.ch
  let s1 := readChar s
  let r := scanWhile minusCommentCond minusCommentCond_ok s1 acc
  (tokAt s tLINE_COMMENT r.2.reverse, r.1)

/-- loop of `readBlockComment` (lexer.go:458-475). -/
def blockCommentLoop (s : LState) (acc : Bytes) (nesting : Nat) : LState × Bytes :=
  if h : s.eof = false ∧ nesting > 0 then
    if s.ch = 42 ∧ peekChar s = 47 then
      blockCommentLoop (readChar (readChar s)) (pushRune (pushRune acc s.ch) (readChar s).ch) (nesting - 1)
    else if s.ch = 47 ∧ peekChar s = 42 then
      blockCommentLoop (readChar (readChar s)) (pushRune (pushRune acc s.ch) (readChar s).ch) (nesting + 1)
    else
      blockCommentLoop (readChar s) (pushRune acc s.ch) nesting
  else (s, acc)
termination_by s.measure
decreasing_by
  all_goals first
    | exact readChar_measure_lt_of_not_eof s h.1
    | exact Nat.lt_of_le_of_lt (readChar_measure_le _) (readChar_measure_lt_of_not_eof s h.1)

/-- lexer.go:446-477 `readBlockComment`. -/
def readBlockComment (s : LState) : Tok × LState :=
  let acc := pushRune [] s.ch
  let s1 := readChar s
  let acc := pushRune acc s1.ch
  let s2 := readChar s1
  let r := blockCommentLoop s2 acc 1
  (tokAt s tLINE_COMMENT r.2.reverse, r.1)

/-! ## Strings -/

/-- the single-rune escapes of the `switch l.ch` in `readString` (lexer.go:502-526) and, with
`bt = true`, of `readBacktickIdentifier` (lexer.go:729-755, which adds the back-tick case). -/
def simpleEscape (bt : Bool) (c : Nat) : Option Nat :=
  if c = 39 then some 39          -- \'
  else if c = 34 then some 34     -- \"
  else if c = 92 then some 92     -- \\
  else if c = 96 ∧ bt = true then some 96  -- \` (back-tick identifiers only)
  else if c = 110 then some 10    -- \n
  else if c = 116 then some 9     -- \t
  else if c = 114 then some 13    -- \r
  else if c = 48 then some 0      -- \0
  else if c = 97 then some 7      -- \a
  else if c = 98 then some 8      -- \b
  else if c = 102 then some 12    -- \f
  else if c = 118 then some 11    -- \v
  else if c = 101 then some 27    -- \e
  else none

/-- `sb.WriteByte(byte(val))` on a reversed buffer. -/
def pushByte (acc : Bytes) (val : Nat) : Bytes := (val % 256).toUInt8 :: acc

/-- the `for !l.eof` loop of `readString(quote)` (lexer.go:484-553) and of `readBacktickIdentifier`
(lexer.go:711-782; the two Go loops are the same text except for the extra `` case '`' `` of the latter,
selected by `bt`). Note the `\x` paths: `break` inside the `switch` leaves the switch only, so the trailing
`l.readChar(); continue` still runs; the `continue` after `\xH<EOF>` skips it. -/
def quotedLoop (bt : Bool) (quote : Nat) (s : LState) (acc : Bytes) : LState × Bytes :=
  if h : s.eof = false then
    if s.ch = quote then
      if peekChar s = quote then
        quotedLoop bt quote (readChar (readChar s)) (pushRune acc quote)   -- '' → '
      else (readChar s, acc)                                                -- closing quote; break
    else if s.ch = 92 then
      let s1 := readChar s                                                  -- consume backslash
      if s1.eof then (s1, acc)                                              -- break (loop)
      else if s1.ch = 120 then                                              -- \x
        let s2 := readChar s1
        if s2.eof then quotedLoop bt quote (readChar s2) acc                -- break (switch); readChar; continue
        else
          let s3 := readChar s2
          if s3.eof then quotedLoop bt quote s3 (pushRune acc (hexValue s2.ch))   -- WriteRune(rune(hexValue(hex1))); continue
          else quotedLoop bt quote (readChar s3) (pushByte acc (hexValue s2.ch * 16 + hexValue s3.ch))
      else
        match simpleEscape bt s1.ch with
        | some r => quotedLoop bt quote (readChar s1) (pushRune acc r)
        | none => quotedLoop bt quote (readChar s1) (pushRune (pushRune acc 92) s1.ch)
    else quotedLoop bt quote (readChar s) (pushRune acc s.ch)
  else (s, acc)
termination_by s.measure
decreasing_by
  all_goals first
    | exact readChar_measure_lt_of_not_eof s h
    | exact Nat.lt_of_le_of_lt (readChar_measure_le _) (readChar_measure_lt_of_not_eof s h)
    | exact Nat.lt_of_le_of_lt (readChar_measure_le _)
        (Nat.lt_of_le_of_lt (readChar_measure_le _) (readChar_measure_lt_of_not_eof s h))
    | exact Nat.lt_of_le_of_lt (readChar_measure_le _) (Nat.lt_of_le_of_lt (readChar_measure_le _)
        (Nat.lt_of_le_of_lt (readChar_measure_le _) (readChar_measure_lt_of_not_eof s h)))

/-- lexer.go:479-555 `readString` (only ever called with `quote = '\''`). -/
def readString (quote : Nat) (s : LState) : Tok × LState :=
  let r := quotedLoop false quote (readChar s) []
  (tokAt s tSTRING r.2.reverse, r.1)

/-- loop of `readHexString` (lexer.go:562-582). -/
def hexStringLoop (s : LState) (acc : Bytes) : LState × Bytes :=
  if h : s.eof = false then
    if s.ch = 39 then (readChar s, acc)
    else
      let s1 := readChar s
      if s1.eof = true ∨ s1.ch = 39 then
        (if s1.ch = 39 then readChar s1 else s1, pushByte acc (hexValue s.ch))
      else hexStringLoop (readChar s1) (pushByte acc (hexValue s.ch * 16 + hexValue s1.ch))
  else (s, acc)
termination_by s.measure
decreasing_by
  exact Nat.lt_of_le_of_lt (readChar_measure_le _) (readChar_measure_lt_of_not_eof s h)

/-- lexer.go:557-584 `readHexString`. -/
def readHexString (s : LState) : Tok × LState :=
  let r := hexStringLoop (readChar s) []
  (tokAt s tSTRING r.2.reverse, r.1)

/-- first loop of `readBinaryString` (lexer.go:593-602): collect the bits. -/
def binaryCollect (s : LState) (bits : Array UInt8) : LState × Array UInt8 :=
  if h : s.eof = false then
    if s.ch = 39 then (readChar s, bits)
    else binaryCollect (readChar s) (if s.ch = 48 ∨ s.ch = 49 then bits.push (s.ch - 48).toUInt8 else bits)
  else (s, bits)
termination_by s.measure
decreasing_by exact readChar_measure_lt_of_not_eof s h

/-- inner loop `for j := 0; j < 8; j++ { byteVal = byteVal<<1 | bits[i+j] }` (lexer.go:620-622) with the
index checked: out of range is the Go run-time panic. `k = 8 - j`. -/
def binaryByte (bits : Array UInt8) (i : Nat) : Nat → Nat → UInt8 → Except PanicSite UInt8
  | 0, _, v => .ok v
  | k + 1, j, v =>
    match bits[i + j]? with
    | none => .error .bitsIndex
    | some b => binaryByte bits i k (j + 1) (v <<< 1 ||| b)

/-- outer loop `for i := 0; i < len(bits); i += 8` (lexer.go:618-624). -/
def binaryGroups (bits : Array UInt8) (i : Nat) (acc : Bytes) : Except PanicSite Bytes :=
  if h : i < bits.size then
    match binaryByte bits i 8 0 0 with
    | .error e => .error e
    | .ok v => binaryGroups bits (i + 8) (v :: acc)
  else .ok acc
termination_by bits.size - i
decreasing_by omega

/-- lexer.go:607-625: pad on the left to a multiple of 8, then convert. Result reversed. -/
def binaryConvert (bits : Array UInt8) : Except PanicSite Bytes :=
  if bits.size > 0 then
    let remainder := bits.size % 8
    let bits := if remainder ≠ 0 then Array.replicate (8 - remainder) 0 ++ bits else bits
    binaryGroups bits 0 []
  else .ok []

/-- lexer.go:586-628 `readBinaryString`. -/
def readBinaryString (s : LState) : Except PanicSite (Tok × LState) :=
  let r := binaryCollect (readChar s) #[]
  match binaryConvert r.2 with
  | .error e => .error e
  | .ok v => .ok (tokAt s tSTRING v.reverse, r.1)

/-- loop of `readQuotedIdentifier` (lexer.go:635-658). -/
def quotedIdentLoop (s : LState) (acc : Bytes) : LState × Bytes :=
  if h : s.eof = false then
    if s.ch = 34 then
      let s1 := readChar s
      if s1.ch = 34 then quotedIdentLoop (readChar s1) (pushRune acc 34)   -- "" → "
      else (s1, acc)                                                       -- break
    else if s.ch = 92 then
      let s1 := readChar s
      if s1.eof = false then quotedIdentLoop (readChar s1) (pushRune acc s1.ch)
      else quotedIdentLoop s1 acc                                          -- continue (the loop then ends)
    else quotedIdentLoop (readChar s) (pushRune acc s.ch)
  else (s, acc)
termination_by s.measure
decreasing_by
  all_goals first
    | exact readChar_measure_lt_of_not_eof s h
    | exact Nat.lt_of_le_of_lt (readChar_measure_le _) (readChar_measure_lt_of_not_eof s h)

/-- lexer.go:630-660 `readQuotedIdentifier`. -/
def readQuotedIdentifier (s : LState) : Tok × LState :=
  let r := quotedIdentLoop (readChar s) []
  (tokAt s tIDENT r.2.reverse true, r.1)

/-- `!l.eof && l.ch != q` (lexer.go:674, 696, 1245). -/
def untilCond (q : Nat) (s : LState) : Bool := !s.eof && s.ch ≠ q
theorem untilCond_ok (q : Nat) : ∀ s, untilCond q s = true → ¬(s.eof = true ∧ s.ch = 0) := by
  intro s h; simp [untilCond] at h; simp [h]

/-- body shared by `readUnicodeString`, `readUnicodeQuotedIdentifier`, `readParameter`:
skip the opener, read up to `close` or EOF, skip `close` if it is there. -/
def readUntil (close : Nat) (s : LState) : LState × Bytes :=
  let r := scanWhile (untilCond close) (untilCond_ok close) (readChar s) []
  (if r.1.ch = close then readChar r.1 else r.1, r.2)

/-- lexer.go:663-682 `readUnicodeString`: the closing quote is U+2019 whatever the opening quote was
(both branches of the Go `if` assign U+2019). -/
def readUnicodeString (_openQuote : Nat) (s : LState) : Tok × LState :=
  let r := readUntil 0x2019 s
  (tokAt s tSTRING r.2.reverse, r.1)

/-- lexer.go:685-704 `readUnicodeQuotedIdentifier`: closing quote always U+201D. -/
def readUnicodeQuotedIdentifier (_openQuote : Nat) (s : LState) : Tok × LState :=
  let r := readUntil 0x201D s
  (tokAt s tIDENT r.2.reverse true, r.1)

/-- lexer.go:706-784 `readBacktickIdentifier`. -/
def readBacktickIdentifier (s : LState) : Tok × LState :=
  let r := quotedLoop true 96 (readChar s) []
  (tokAt s tIDENT r.2.reverse, r.1)

/-! ## Dollar quoting

`tryReadDollarTag` works on the window `bytes = Peek(8192)` = the first `min 4096 |rest|` bytes of `rest`.
The model does not materialise the window: a position in it is a pair `(cur, k)` = (suffix of `rest`
starting at `offset`, number of window bytes left = `4096 - offset`), so that `bytes[offset:]` is
`cur.take k` and `offset < len(bytes)` is `k ≠ 0 ∧ cur ≠ []`. -/

/-- `utf8.DecodeRune(bytes[offset:])` at window position `(cur, k)` (DecodeRune looks at ≤ 4 bytes). -/
def winDecode (cur : Bytes) (k : Nat) : Nat × Nat := decodeRune (cur.take (min k 4))

theorem winDecode_size_pos (cur : Bytes) (k : Nat) (hk : k ≠ 0) (hc : cur ≠ []) : 0 < (winDecode cur k).2 := by
  unfold winDecode
  cases cur with
  | nil => exact absurd rfl hc
  | cons b t =>
    have : min k 4 = (min k 4 - 1) + 1 := by omega
    rw [this, List.take_succ_cons]
    exact decodeRune_size_pos _ _

theorem winDecode_size_le (cur : Bytes) (k : Nat) : (winDecode cur k).2 ≤ k := by
  unfold winDecode
  have := decodeRune_size_le_length (cur.take (min k 4))
  simp at this
  omega

/-- tag-name loop (lexer.go:809-817): `tag` reversed. Returns the position where it stopped. -/
def tagScan (cur : Bytes) (k : Nat) (tag : Bytes) : Bytes × Nat × Bytes :=
  if h : k = 0 ∨ cur = [] then (cur, k, tag)
  else
    let d := winDecode cur k
    if isLetter d.1 || isDigit d.1 || d.1 = 95 then tagScan (cur.drop d.2) (k - d.2) (pushRune tag d.1)
    else (cur, k, tag)
termination_by k
decreasing_by
  have := winDecode_size_pos cur k (by omega) (by intro hc; exact h (Or.inr hc))
  omega

/-- does `l` have at least `n` elements? -/
def lenGe : Bytes → Nat → Bool
  | _, 0 => true
  | [], _ + 1 => false
  | _ :: t, n + 1 => lenGe t n

/-- checked `bytes[i+j]` where `(cur, k)` is window position `i`. -/
def winGet (cur : Bytes) (k : Nat) (j : Nat) : Option UInt8 := if j < k then cur[j]? else none

/-- inner comparison loop (lexer.go:838-843) over the not yet compared part of `closingTagBytes`. -/
def matchAt (cur : Bytes) (k : Nat) : Bytes → Nat → Except PanicSite Bool
  | [], _ => .ok true
  | c :: cs, j =>
    match winGet cur k j with
    | none => .error .dollarTagIndex
    | some b => if b != c then .ok false else matchAt cur k cs (j + 1)

/-- search loop `for i := openingTagEnd; i <= len(bytes)-len(closingTagBytes); i++` (lexer.go:836-849);
`m = len(closingTagBytes)`; the guard is "at least `m` window bytes from here". -/
def findClosing (closing : Bytes) (m : Nat) : Bytes → Nat → Except PanicSite Bool
  | cur, k =>
    if m ≤ k && lenGe cur m then
      match matchAt cur k closing 0 with
      | .error e => .error e
      | .ok true => .ok true
      | .ok false =>
        match cur with
        | [] => .ok false
        | _ :: t => findClosing closing m t (k - 1)
    else .ok false

/-- lexer.go:789-863 `tryReadDollarTag`. Answers the tag (`[]` = "not a dollar-quoted string") and the new
state. The consuming loop `for i := 0; i < tag.Len(); i++ { l.readChar() }` counts BYTES of the tag but
reads RUNES (mirrored as is). -/
def tryReadDollarTag (s : LState) : Except PanicSite (Bytes × LState) :=
  let k0 := 4096
  if s.rest.isEmpty then .ok ([], s)
  else
    let d := winDecode s.rest k0
    if !isLetter d.1 && d.1 ≠ 95 then .ok ([], s)
    else
      let (cur, k, tagRev) := tagScan (s.rest.drop d.2) (k0 - d.2) (pushRune [] d.1)
      if k = 0 ∨ cur = [] then .ok ([], s)
      else
        let d2 := winDecode cur k
        if d2.1 ≠ 36 then .ok ([], s)
        else
          let tag := tagRev.reverse
          let closing := 36 :: (tag ++ [36])
          match findClosing closing closing.length (cur.drop d2.2) (k - d2.2) with
          | .error e => .error e
          | .ok false => .ok ([], s)
          | .ok true => .ok (tag, readChar (iterRC tag.length (readChar s)))

/-- `for i := 1; i < len(closingDelim) && match; i++ { if l.peekCharN(i) != rune(closingDelim[i]) … }`
(lexer.go:885-889): `closingDelim[i]` is a BYTE of the delimiter converted to a rune; checked index. -/
def delimMatch (s : LState) (closing : Bytes) (i : Nat) : Except PanicSite Bool :=
  if h : i < closing.length then
    match closing[i]? with
    | none => .error .closingDelimIndex
    | some c => if peekCharN s i ≠ c.toNat then .ok false else delimMatch s closing (i + 1)
  else .ok true
termination_by closing.length - i
decreasing_by omega

/-- loop of `readDollarQuotedString` (lexer.go:880-900). -/
def dollarBodyLoop (closing : Bytes) (s : LState) (acc : Bytes) : Except PanicSite (LState × Bytes) :=
  if h : s.eof = false then
    if s.ch = 36 then
      match delimMatch s closing 1 with
      | .error e => .error e
      | .ok true => .ok (iterRC closing.length s, acc)
      | .ok false => dollarBodyLoop closing (readChar s) (pushRune acc s.ch)
    else dollarBodyLoop closing (readChar s) (pushRune acc s.ch)
  else .ok (s, acc)
termination_by s.measure
decreasing_by all_goals exact readChar_measure_lt_of_not_eof s h

/-- lexer.go:866-902 `readDollarQuotedString`. -/
def readDollarQuotedString (tag : Bytes) (s : LState) : Except PanicSite (Tok × LState) :=
  let s0 := if tag.isEmpty then readChar (readChar s) else s
  let closing := 36 :: (tag ++ [36])
  match dollarBodyLoop closing s0 [] with
  | .error e => .error e
  | .ok r => .ok (tokAt s tSTRING r.2.reverse, r.1)

/-- `isIdentChar(l.ch) || l.ch == '$'` (lexer.go:913). -/
def dollarIdentCond (s : LState) : Bool := isIdentChar s.ch || s.ch = 36
theorem dollarIdentCond_ok : ∀ s, dollarIdentCond s = true → ¬(s.eof = true ∧ s.ch = 0) :=
  chCond_ok (fun c => isIdentChar c || c = 36) (by decide)

/-- lexer.go:905-919 `readDollarIdentifier`. -/
def readDollarIdentifier (s : LState) : Tok × LState :=
  let r := scanWhile dollarIdentCond dollarIdentCond_ok (readChar s) (pushRune [] s.ch)
  (tokAt s tIDENT r.2.reverse, r.1)

/-! ## Numbers -/

def identCharCond (s : LState) : Bool := isIdentChar s.ch
theorem identCharCond_ok : ∀ s, identCharCond s = true → ¬(s.eof = true ∧ s.ch = 0) :=
  chCond_ok isIdentChar isIdentChar_zero

def digitCond (s : LState) : Bool := isDigit s.ch
theorem digitCond_ok : ∀ s, digitCond s = true → ¬(s.eof = true ∧ s.ch = 0) :=
  chCond_ok isDigit isDigit_zero

def hexDigitCond (s : LState) : Bool := isHexDigit s.ch
theorem hexDigitCond_ok : ∀ s, hexDigitCond s = true → ¬(s.eof = true ∧ s.ch = 0) :=
  chCond_ok isHexDigit isHexDigit_zero

/-- `isHexDigit(l.ch) || l.ch == '_'`. -/
def hexDigitUsCond (s : LState) : Bool := isHexDigit s.ch || s.ch = 95
theorem hexDigitUsCond_ok : ∀ s, hexDigitUsCond s = true → ¬(s.eof = true ∧ s.ch = 0) :=
  chCond_ok (fun c => isHexDigit c || c = 95) (by decide)

/-- `l.ch == '0' || l.ch == '1' || l.ch == '_'`. -/
def binDigitCond (s : LState) : Bool := s.ch = 48 || s.ch = 49 || s.ch = 95
theorem binDigitCond_ok : ∀ s, binDigitCond s = true → ¬(s.eof = true ∧ s.ch = 0) :=
  chCond_ok (fun c => c = 48 || c = 49 || c = 95) (by decide)

/-- `(l.ch >= '0' && l.ch <= '7') || l.ch == '_'`. -/
def octDigitCond (s : LState) : Bool := (48 ≤ s.ch && s.ch ≤ 55) || s.ch = 95
theorem octDigitCond_ok : ∀ s, octDigitCond s = true → ¬(s.eof = true ∧ s.ch = 0) :=
  chCond_ok (fun c => (48 ≤ c && c ≤ 55) || c = 95) (by decide)

/-- `for l.ch == '_' && unicode.IsDigit(l.peekChar()) { l.readChar() }`. -/
def skipUnderscores (s : LState) : LState :=
  if h : (s.ch = 95 && isDigit (peekChar s)) = true then skipUnderscores (readChar s) else s
termination_by s.measure
decreasing_by
  apply readChar_measure_lt_of_ch
  simp at h; omega

theorem skipUnderscores_measure_le (s : LState) : (skipUnderscores s).measure ≤ s.measure := by
  fun_induction skipUnderscores s with
  | case1 s h ih => exact Nat.le_trans ih (readChar_measure_le s)
  | case2 s h => exact Nat.le_refl _

/-- `for unicode.IsDigit(l.ch) { sb.WriteRune(l.ch); l.readChar(); for l.ch == '_' && IsDigit(peek) { l.readChar() } }`. -/
def digitsUs (s : LState) (acc : Bytes) : LState × Bytes :=
  if h : isDigit s.ch = true then digitsUs (skipUnderscores (readChar s)) (pushRune acc s.ch) else (s, acc)
termination_by s.measure
decreasing_by
  apply Nat.lt_of_le_of_lt (skipUnderscores_measure_le _)
  apply readChar_measure_lt_of_ch
  intro hz; rw [hz, isDigit_zero] at h; cases h

/-- `if l.ch == c1 || l.ch == c2 { sb.WriteRune(l.ch); l.readChar() }`. -/
def optChar2 (c1 c2 : Nat) (p : LState × Bytes) : LState × Bytes :=
  if p.1.ch = c1 ∨ p.1.ch = c2 then (readChar p.1, pushRune p.2 p.1.ch) else p

/-- `sb.WriteRune(l.ch); l.readChar()`. -/
def takeChar (p : LState × Bytes) : LState × Bytes := (readChar p.1, pushRune p.2 p.1.ch)

/-- hex literal tail after `0`, at `x`/`X` (lexer.go:938-966 = 1140-1168). -/
def hexTail (p : LState × Bytes) : LState × Bytes :=
  let p := takeChar p                                                   -- x
  let p := scanWhile hexDigitUsCond hexDigitUsCond_ok p.1 p.2
  let p := if p.1.ch = 46 then
      let p := takeChar p
      scanWhile hexDigitCond hexDigitCond_ok p.1 p.2
    else p
  if p.1.ch = 112 ∨ p.1.ch = 80 then
    let p := takeChar p
    let p := optChar2 43 45 p
    scanWhile digitCond digitCond_ok p.1 p.2
  else p

/-- decimal point part (lexer.go:1000-1016 = 1102-1117). -/
def fracPart (p : LState × Bytes) : LState × Bytes :=
  if p.1.ch = 46 then
    let nextCh := peekChar p.1
    if isDigit nextCh || (!isIdentStart nextCh && nextCh ≠ 46) then
      let p := takeChar p
      digitsUs p.1 p.2
    else p
  else p

/-- exponent part (lexer.go:1019-1034 = 1120-1134). -/
def expPart (p : LState × Bytes) : LState × Bytes :=
  if p.1.ch = 101 ∨ p.1.ch = 69 then
    let p := takeChar p
    let p := optChar2 43 45 p
    digitsUs p.1 p.2
  else p

/-- integer, fraction and exponent parts of `readNumber` (lexer.go:989-1036). -/
def decimalTail (s : LState) (p : LState × Bytes) : Tok × LState :=
  let p := digitsUs p.1 p.2
  let p := fracPart p
  let p := expPart p
  (tokAt s tNUMBER p.2.reverse, p.1)

/-- the `if l.ch == '0'` block of `readNumber` (lexer.go:932-987), entered at the `0`. -/
def zeroPrefix (s : LState) (p : LState × Bytes) : Tok × LState :=
  let p := takeChar p
  if p.1.ch = 120 ∨ p.1.ch = 88 then
    let p := hexTail p
    (tokAt s tNUMBER p.2.reverse, p.1)
  else if p.1.ch = 98 ∨ p.1.ch = 66 then
    let p := takeChar p
    let p := scanWhile binDigitCond binDigitCond_ok p.1 p.2
    (tokAt s tNUMBER p.2.reverse, p.1)
  else if p.1.ch = 111 ∨ p.1.ch = 79 then
    let p := takeChar p
    let p := scanWhile octDigitCond octDigitCond_ok p.1 p.2
    (tokAt s tNUMBER p.2.reverse, p.1)
  else decimalTail s p

/-- lexer.go:921-1037 `readNumber`. -/
def readNumber (s : LState) : Tok × LState :=
  let p : LState × Bytes := (s, [])
  let p := if p.1.ch = 46 then takeChar p else p
  if p.1.ch = 48 then zeroPrefix s p else decimalTail s p

/-- `for l.ch == '_' && IsDigit(peek) { l.readChar(); for IsDigit(l.ch) { write; readChar } }` (lexer.go:1093-1099). -/
def usDigitGroups (s : LState) (acc : Bytes) : LState × Bytes :=
  if h : (s.ch = 95 && isDigit (peekChar s)) = true then
    let r := scanWhile digitCond digitCond_ok (readChar s) acc
    usDigitGroups r.1 r.2
  else (s, acc)
termination_by s.measure
decreasing_by
  apply Nat.lt_of_le_of_lt (scanWhile_measure_le _ _ _ _)
  apply readChar_measure_lt_of_ch
  simp at h; omega

/-- lexer.go:1138-1177: `val := sb.String()`; `0x…` and `0b…` after a lone `0`. -/
def baseTail (p : LState × Bytes) : LState × Bytes :=
  let isZero : Bool := p.2 == [48]                                       -- val == "0"
  if isZero ∧ (p.1.ch = 120 ∨ p.1.ch = 88) then hexTail p
  else if isZero ∧ (p.1.ch = 98 ∨ p.1.ch = 66) ∧ (peekChar p.1 = 48 ∨ peekChar p.1 = 49) then
    let p := takeChar p
    scanWhile binDigitCond binDigitCond_ok p.1 p.2
  else p

/-- lexer.go:1181-1192: `0o…` when `startCh == '0' && len(sb.String()) == 1`. -/
def octTail (startCh : Nat) (p : LState × Bytes) : LState × Bytes :=
  if startCh = 48 ∧ lenGe p.2 1 ∧ !lenGe p.2 2 then                    -- len(sb.String()) == 1
    if p.1.ch = 111 ∨ p.1.ch = 79 then
      let p := takeChar p
      scanWhile octDigitCond octDigitCond_ok p.1 p.2
    else p
  else p

/-- the part of `readNumberOrIdent` after the identifier checks (lexer.go:1090-1194). -/
def numberTail (startCh : Nat) (s : LState) (p : LState × Bytes) : Tok × LState :=
  let p := usDigitGroups p.1 p.2
  let p := fracPart p
  let p := expPart p
  let p := baseTail p
  let p := octTail startCh p
  (tokAt s tNUMBER p.2.reverse, p.1)

/-- lexer.go:1042-1195 `readNumberOrIdent`. -/
def readNumberOrIdent (s : LState) : Tok × LState :=
  let startCh := s.ch
  let p := scanWhile digitCond digitCond_ok s []
  if p.1.ch = 95 ∧ (isLetter (peekChar p.1) ∨ peekChar p.1 = 95) then
    let p := takeChar p
    let p := scanWhile identCharCond identCharCond_ok p.1 p.2
    (tokAt s tIDENT p.2.reverse, p.1)
  else
    let c := p.1.ch
    let pk := peekChar p.1
    let isExponent : Bool := (c = 101 || c = 69) && (isDigit pk || pk = 43 || pk = 45)
    let isBasePrefix : Bool := p.2 == [48] && (c = 120 || c = 88 || c = 98 || c = 66 || c = 111 || c = 79)
    if isLetter c ∧ !isExponent ∧ !isBasePrefix then
      let p := scanWhile identCharCond identCharCond_ok p.1 p.2
      (tokAt s tIDENT p.2.reverse, p.1)
    else numberTail startCh s p

/-- lexer.go:1214-1238 `readIdentifier`. -/
def readIdentifier (s : LState) : Except PanicSite (Tok × LState) :=
  if (s.ch = 120 ∨ s.ch = 88) ∧ peekChar s = 39 then .ok (readHexString (readChar s))
  else if (s.ch = 98 ∨ s.ch = 66) ∧ peekChar s = 39 then readBinaryString (readChar s)
  else
    let p := scanWhile identCharCond identCharCond_ok s []
    let ident := p.2.reverse
    .ok (tokAt s (lookupIdent ident) ident, p.1)

/-- lexer.go:1240-1253 `readParameter`. -/
def readParameter (s : LState) : Tok × LState :=
  let r := readUntil 125 s
  (tokAt s tPARAM r.2.reverse, r.1)

/-! ## NextToken -/

/-- the cases of `switch l.ch` that are `l.readChar(); return Item{Token: T, Value: string(ch), Pos: pos}`
for a fixed `T` (lexer.go:222-241, 299-304, 313-318, 331-339): `+ * / % ( ) [ ] } , ; ? ^`. -/
def singleCharKind (c : Nat) : Option Nat :=
  if c = 43 then some tPLUS
  else if c = 42 then some tASTERISK
  else if c = 47 then some tSLASH
  else if c = 37 then some tPERCENT
  else if c = 40 then some tLPAREN
  else if c = 41 then some tRPAREN
  else if c = 91 then some tLBRACKET
  else if c = 93 then some tRBRACKET
  else if c = 125 then some tRBRACE
  else if c = 44 then some tCOMMA
  else if c = 59 then some tSEMICOLON
  else if c = 63 then some tQUESTION
  else if c = 94 then some tCARET
  else none

/-- `case '@'` (lexer.go:361-380). -/
def readAt (s : LState) : Tok × LState :=
  if peekChar s = 64 then
    let s2 := readChar (readChar s)
    if isIdentStart s2.ch || isDigit s2.ch then
      let r := scanWhile identCharCond identCharCond_ok s2 [64, 64]
      (tokAt s tIDENT r.2.reverse, r.1)
    else (tokAt s tIDENT [64, 64], s2)
  else (tokAt s tIDENT [64], readChar s)

/-- `case '$'` (lexer.go:340-350). -/
def readDollar (s : LState) : Except PanicSite (Tok × LState) :=
  if peekChar s = 36 then readDollarQuotedString [] s
  else
    match tryReadDollarTag s with
    | .error e => .error e
    | .ok (tag, s1) =>
      if tag ≠ [] then readDollarQuotedString tag s1
      else .ok (readDollarIdentifier s)

/-- the operator cases with look-ahead: `- = ! < > | :` (lexer.go:225-232, 242-298). -/
def readOperator (s : LState) : Option (Tok × LState) :=
  let c := s.ch
  if c = 45 then
    if peekChar s = 62 then some (tokAt s tARROW [45, 62], readChar (readChar s))
    else some (tokAt s tMINUS [45], readChar s)
  else if c = 61 then
    let s1 := readChar s
    if s1.ch = 61 then some (tokAt s tEQ [61, 61], readChar s1) else some (tokAt s tEQ [61], s1)
  else if c = 33 then
    if peekChar s = 61 then some (tokAt s tNEQ [33, 61], readChar (readChar s))
    else some (tokAt s tILLEGAL [33], readChar s)
  else if c = 60 then
    if peekChar s = 61 then
      let s2 := readChar (readChar s)
      if s2.ch = 62 then some (tokAt s tNULL_SAFE_EQ [60, 61, 62], readChar s2)
      else some (tokAt s tLTE [60, 61], s2)
    else if peekChar s = 62 then some (tokAt s tNEQ [60, 62], readChar (readChar s))
    else some (tokAt s tLT [60], readChar s)
  else if c = 62 then
    if peekChar s = 61 then some (tokAt s tGTE [62, 61], readChar (readChar s))
    else some (tokAt s tGT [62], readChar s)
  else if c = 124 then
    if peekChar s = 124 then some (tokAt s tCONCAT [124, 124], readChar (readChar s))
    else some (tokAt s tILLEGAL [124], readChar s)
  else if c = 58 then
    if peekChar s = 58 then some (tokAt s tCOLONCOLON [58, 58], readChar (readChar s))
    else some (tokAt s tCOLON [58], readChar s)
  else none

/-- `case '.'` (lexer.go:319-330). -/
def readDot (s : LState) : Tok × LState :=
  if isDigit (peekChar s) then
    if isIdentifierAfterDot s then (tokAt s tDOT [46], readChar s)
    else readNumber s
  else (tokAt s tDOT [46], readChar s)

/-- the `switch l.ch` of `NextToken` (lexer.go:221-393); all case labels are distinct constants, so the
order of the tests is immaterial. -/
def nextTokenSwitch (s : LState) : Except PanicSite (Tok × LState) :=
  match singleCharKind s.ch with
  | some k => .ok (tokAt s k (encodeRune s.ch), readChar s)
  | none =>
    match readOperator s with
    | some r => .ok r
    | none =>
      if s.ch = 123 then .ok (readParameter s)
      else if s.ch = 46 then .ok (readDot s)
      else if s.ch = 36 then readDollar s
      else if s.ch = 39 then .ok (readString 39 s)
      else if s.ch = 0x2018 ∨ s.ch = 0x2019 then .ok (readUnicodeString s.ch s)
      else if s.ch = 34 then .ok (readQuotedIdentifier s)
      else if s.ch = 0x201C ∨ s.ch = 0x201D then .ok (readUnicodeQuotedIdentifier s.ch s)
      else if s.ch = 96 then .ok (readBacktickIdentifier s)
      else if s.ch = 64 then .ok (readAt s)
      else if isDigit s.ch then .ok (readNumberOrIdent s)
      else if isIdentStart s.ch then readIdentifier s
      else .ok (tokAt s tILLEGAL (encodeRune s.ch), readChar s)        -- Value: string(ch)

/-- lexer.go:196-394 `NextToken`. -/
def nextTokenE (s0 : LState) : Except PanicSite (Tok × LState) :=
  let s := skipWhitespace s0
  if s.eof = true ∨ s.ch = 0 then .ok (tokAt s tEOF [], s)
  else if s.ch = 45 ∧ peekChar s = 45 then .ok (readLineComment s)
  else if s.ch = 35 then .ok (readHashComment s)
  else if s.ch = 47 ∧ peekChar s = 42 then .ok (readBlockComment s)
  else if s.ch = 0x2212 then .ok (readUnicodeMinusComment s)
  else nextTokenSwitch s

/-- the `for` loop of `Tokenize` (lexer.go:1267-1273); `acc` reversed. The Go loop is unbounded; the model
gives it `fuel` iterations and answers `tokenizeStuck` when they run out. `lexOutcome` supplies
`measure + 1` iterations, and `C12.nextToken_progress` (every non-EOF token strictly decreases the measure)
proves that this is always enough, i.e. that the outcome `tokenizeStuck` (= the Go loop would not have
ended) is impossible. (A guard `s'.measure < s.measure` evaluated at run time would cost a list traversal per
token.) -/
def tokenizeLoop : Nat → LState → List Tok → Except PanicSite (List Tok)
  | 0, _, _ => .error .tokenizeStuck
  | fuel + 1, s, acc =>
    match nextTokenE s with
    | .error e => .error e
    | .ok (t, s') =>
      if t.kind = tEOF then .ok (t :: acc).reverse
      else tokenizeLoop fuel s' (t :: acc)

/-- lexer.go:1264-1275 `Tokenize` with panics made explicit. -/
def lexOutcome (b : Bytes) : Except PanicSite (List Tok) :=
  let s := new b
  tokenizeLoop (s.measure + 1) s []

/-- `Tokenize` (the plain result; `C12.lex_no_panic : lexOutcome b = .ok (lex b)`). -/
def lex (b : Bytes) : List Tok :=
  match lexOutcome b with
  | .ok l => l
  | .error _ => []

/-- `NextToken` as a plain function (`C12.nextToken_no_panic : nextTokenE s = .ok (nextToken s)`). -/
def nextToken (s : LState) : Tok × LState :=
  match nextTokenE s with
  | .ok r => r
  | .error _ => (tokAt s tEOF [], s)

/-! ## Driver -/

def tokCanon (t : Tok) : String :=
  s!"{t.kind},{Hex.encode t.val},{t.off},{t.line},{t.col},{if t.quoted then 1 else 0}"

def canon (l : List Tok) : String := ";".intercalate (l.map tokCanon)

def b2n (b : Bool) : Nat := if b then 1 else 0

def handle (op : String) (args : List String) : Option String :=
  if op == "lex" then
    match args with
    | [h] =>
      match Hex.decode h with
      | some b =>
        match lexOutcome b with
        | .ok l => some (canon l)
        | .error _ => some "panic"
      | none => some "bad-arg"
    | _ => some "bad-arg"
  else if op == "uni" then
    match args with
    | [d] =>
      match d.toNat? with
      | some r => some s!"{b2n (isLetter r)} {b2n (isDigit r)} {b2n (isSpace r)} {toUpperRune r}"
      | none => some "bad-arg"
    | _ => some "bad-arg"
  else none

end DC.Lexer
