import DC.Prelude.Hex

/-!
# C07 / C10 / C11 — the UNION regrouping of the EXPLAIN printer

`explainSelectWithUnionQuery` (internal/explain/select.go:307) does not print `n.Selects` as they are: it passes them through
`simplifyUnionSelects` (identity, select.go:658), `expandNestedUnions` (select.go:667) and `groupSelectsByUnionMode`
(select.go:759), prints `ExpressionList (children len(grouped))` and renders each grouped element with `Node`, which for an
element that is itself a `*ast.SelectWithUnionQuery` (one kept by `expandNestedUnions`, or one CREATED by
`groupSelectsByUnionMode`) runs the same three steps again.

This file models those functions over

    inductive U | sel (id : Nat) | union (kids : List U) (modes : List Mode)

as PURE functions: they take lists and return new lists. That is the point for C10/C11/C07: the Go functions read
`n.Selects` / `n.UnionModes` of the caller's AST and must not write into these slices (`result := make(…)`, the nested node of
`groupSelectsByUnionMode` only RE-SLICES `selects[:k]`, `unionModes[:k]` and never appends to them). That they do not is not
proved here — it is the regenerated write inventory of C10/C11 (`DC.Gen.Writes.astWrites`, `aliasAppends`; seeded change
C07-3 `result := selects[:0]` is caught there and by the history run). Given purity, the rendering of a union is the
function `render` below of the parsed shape alone.

Quirks kept as written:
* mode strings come in two spellings, `"UNION ALL" / "UNION DISTINCT" / "UNION "` (parseSelectWithUnion and friends) and
  `"ALL" / "DISTINCT" / ""` (parseParenthesizedSelect, parser.go:8026); `normalizeMode` strips the prefix only if
  `len(mode) > 6`, so a bare `"UNION "` stays `"UNION "` — neither form is `"ALL"`, which is all both functions test;
* `groupSelectsByUnionMode` returns its input unless `len(selects) >= 3 && len(unionModes) >= 2`, looks for the LAST
  index `i ≥ 1` with `modes[i] = ALL ≠ modes[i-1]`, and wraps `selects[:i+1]` / `modes[:i]`; the result carries no modes;
* `expandNestedUnions`: a nested union with exactly one select is replaced by that select (not re-expanded); one whose
  modes are all ALL (vacuously: no modes) is flattened recursively; otherwise it is grouped and, if that gave more than one
  element, replaced by them with `"UNION ALL"` between them — else kept as it is. The mode of operand `i` is
  `unionModes[i-1]` if that index exists (the parser's lists can be SHORTER than `len(selects)-1`: a parenthesised first
  operand is flattened into the outer list and its modes are dropped, parser.go:697).
* Go slices: `selects[:i+1]` with `i+1 > len(selects)` panics (or silently reads past `len` up to `cap`); the total model uses
  `take`/`drop` and `groupPanics` says when Go would not (only if there are more modes than selects).
-/
namespace DC.Model.UnionGroup

/-- the normal form of a union mode string as far as the two functions can tell: `ALL`, `DISTINCT`, anything else -/
inductive Mode
  | all
  | distinct
  | bare
  deriving DecidableEq, Repr, Inhabited

/-- statements of a union: a leaf (`*ast.SelectQuery`, or anything that is not a `*ast.SelectWithUnionQuery`) or a union -/
inductive U
  | sel (id : Nat)
  | union (kids : List U) (modes : List Mode)
  deriving Repr, Inhabited

/-! decidable equality (the deriving handler does not cover nested inductives) -/

mutual
def U.beq : U → U → Bool
  | .sel a, .sel b => a == b
  | .union k1 m1, .union k2 m2 => beqL k1 k2 && m1 == m2
  | .sel _, .union _ _ => false
  | .union _ _, .sel _ => false
def beqL : List U → List U → Bool
  | [], [] => true
  | a :: as, b :: bs => a.beq b && beqL as bs
  | [], _ :: _ => false
  | _ :: _, [] => false
end

mutual
theorem U.eq_of_beq : ∀ (a b : U), a.beq b = true → a = b
  | .sel a, .sel b, h => by simp [U.beq] at h; rw [h]
  | .union k1 m1, .union k2 m2, h => by
    simp only [U.beq, Bool.and_eq_true, beq_iff_eq] at h
    rw [eq_of_beqL k1 k2 h.1, h.2]
  | .sel _, .union _ _, h => by simp [U.beq] at h
  | .union _ _, .sel _, h => by simp [U.beq] at h
theorem eq_of_beqL : ∀ (a b : List U), beqL a b = true → a = b
  | [], [], _ => rfl
  | a :: as, b :: bs, h => by
    simp only [beqL, Bool.and_eq_true] at h
    rw [U.eq_of_beq a b h.1, eq_of_beqL as bs h.2]
  | [], _ :: _, h => by simp [beqL] at h
  | _ :: _, [], h => by simp [beqL] at h
end

mutual
theorem U.beq_refl : ∀ (a : U), a.beq a = true
  | .sel a => by simp [U.beq]
  | .union k m => by simp [U.beq, beqL_refl k]
theorem beqL_refl : ∀ (a : List U), beqL a a = true
  | [] => by simp [beqL]
  | a :: as => by simp [beqL, U.beq_refl a, beqL_refl as]
end

instance : DecidableEq U := fun a b =>
  decidable_of_iff (a.beq b = true) ⟨U.eq_of_beq a b, fun h => h ▸ U.beq_refl a⟩

/-! ## mode strings -/

def bytesOf (s : String) : List UInt8 := s.toList.map (fun c => c.toNat.toUInt8)

/-- `normalizeMode` (select.go:765; the same three lines inside `allModesAreAll`, select.go:674):
`if len(mode) > 6 && mode[:6] == "UNION " { return mode[6:] }; return mode` -/
def normalizeMode (m : List UInt8) : List UInt8 :=
  if m.length > 6 && m.take 6 == bytesOf "UNION " then m.drop 6 else m

def Mode.ofBytes (m : List UInt8) : Mode :=
  let n := normalizeMode m
  if n == bytesOf "ALL" then .all else if n == bytesOf "DISTINCT" then .distinct else .bare

/-! ## groupSelectsByUnionMode (select.go:759) -/

/-- the loop `for i := 1; i < len(unionModes); i++ { if curr == "ALL" && prev != "ALL" { modeChangeIdx = i } }` -/
def scanTransitions : Nat → Mode → List Mode → Option Nat → Option Nat
  | _, _, [], acc => acc
  | i, prev, cur :: rest, acc =>
    scanTransitions (i + 1) cur rest (if cur == .all && prev != .all then some i else acc)

/-- `modeChangeIdx` (`none` = -1) -/
def lastTransition : List Mode → Option Nat
  | [] => none
  | m0 :: rest => scanTransitions 1 m0 rest none

/-- the early return `len(selects) < 3 || len(unionModes) < 2` -/
def tooShort (sels : List U) (modes : List Mode) : Bool := sels.length < 3 || modes.length < 2

def group (sels : List U) (modes : List Mode) : List U :=
  if tooShort sels modes then sels
  else match lastTransition modes with
    | none => sels
    | some idx => .union (sels.take (idx + 1)) (modes.take idx) :: sels.drop (idx + 1)

/-- Go evaluates `selects[:idx+1]` and `selects[idx+1:]`; the second panics iff `idx+1 > len(selects)` -/
def groupPanics (sels : List U) (modes : List Mode) : Bool :=
  !tooShort sels modes && match lastTransition modes with
    | none => false
    | some idx => idx + 1 > sels.length

/-- the modes that belong to `group`'s result (Go does not return them; `expandNestedUnions` substitutes `"UNION ALL"`):
the operator before `selects[idx+1]` is `modes[idx]`, and so on -/
def groupModes (sels : List U) (modes : List Mode) : List Mode :=
  if tooShort sels modes then modes
  else match lastTransition modes with
    | none => modes
    | some idx => modes.drop idx

/-! ## expandNestedUnions (select.go:667) -/

/-- `allModesAreAll` (select.go:672): every mode normalises to "ALL" (a bare UNION and "" both answer false) -/
def allModesAreAll (modes : List Mode) : Bool := modes.all (· == .all)

/-- `if i > 0 && i-1 < len(unionModes) { resultModes = append(resultModes, unionModes[i-1]) }` -/
def outerMode (modes : List Mode) (i : Nat) : List Mode :=
  if i > 0 then (modes[i - 1]?).toList else []

mutual
/-- the body of the loop for one operand, without the outer mode: what it appends to `result` and to `resultModes` -/
def expandOne : U → List U × List Mode
  | .sel id => ([.sel id], [])
  | .union kids kmodes =>
    if kids.length == 1 then
      -- "Single select in parentheses - flatten it": `nested.Selects[0]`, not expanded any further
      (kids, [])
    else if allModesAreAll kmodes then
      -- flatten completely (recursively); `if len(nested.Selects) > 0` is the empty case of the recursion
      let e := expandFrom kmodes 0 kids
      (e.1, e.2.take e.1.length)
    else
      let g := group kids kmodes
      if g.length > 1 then
        -- "Grouping produced multiple elements - expand them", `"UNION ALL"` between them
        (g, List.replicate (g.length - 1) Mode.all)
      else
        -- "No grouping, keep as-is"
        ([.union kids kmodes], [])
  termination_by structural u => u
/-- the loop `for i, sel := range selects` from index `i` on; returns `(result, resultModes)`.
In every branch the outer mode `unionModes[i-1]` (if any) is appended before the operand's own modes. -/
def expandFrom (modes : List Mode) : Nat → List U → List U × List Mode
  | _, [] => ([], [])
  | i, u :: rest =>
    let o := expandOne u
    let r := expandFrom modes (i + 1) rest
    (o.1 ++ r.1, outerMode modes i ++ o.2 ++ r.2)
  termination_by structural _ l => l
end

def expand (sels : List U) (modes : List Mode) : List U × List Mode := expandFrom modes 0 sels

mutual
/-- would Go panic while handling this operand inside `expandNestedUnions`? (only in a `groupSelectsByUnionMode` it calls) -/
def expandOnePanics : U → Bool
  | .sel _ => false
  | .union kids kmodes =>
    if kids.length == 1 then false
    else if allModesAreAll kmodes then expandPanics kids
    else groupPanics kids kmodes
  termination_by structural u => u
def expandPanics : List U → Bool
  | [] => false
  | u :: rest => expandOnePanics u || expandPanics rest
  termination_by structural l => l
end

/-! ## the rendering: explainSelectWithUnionQuery → Node → explainSelectWithUnionQuery … -/

/-- the nesting of `SelectWithUnionQuery` / `SelectQuery` lines of the EXPLAIN text -/
inductive Shape
  | leaf (id : Nat)
  | node (kids : List Shape)
  deriving Repr, Inhabited

mutual
def Shape.beq : Shape → Shape → Bool
  | .leaf a, .leaf b => a == b
  | .node k1, .node k2 => shapeBeqL k1 k2
  | .leaf _, .node _ => false
  | .node _, .leaf _ => false
def shapeBeqL : List Shape → List Shape → Bool
  | [], [] => true
  | a :: as, b :: bs => a.beq b && shapeBeqL as bs
  | [], _ :: _ => false
  | _ :: _, [] => false
end

mutual
theorem Shape.eq_of_beq : ∀ (a b : Shape), a.beq b = true → a = b
  | .leaf a, .leaf b, h => by simp [Shape.beq] at h; rw [h]
  | .node k1, .node k2, h => by
    simp only [Shape.beq] at h
    rw [eq_of_shapeBeqL k1 k2 h]
  | .leaf _, .node _, h => by simp [Shape.beq] at h
  | .node _, .leaf _, h => by simp [Shape.beq] at h
theorem eq_of_shapeBeqL : ∀ (a b : List Shape), shapeBeqL a b = true → a = b
  | [], [], _ => rfl
  | a :: as, b :: bs, h => by
    simp only [shapeBeqL, Bool.and_eq_true] at h
    rw [Shape.eq_of_beq a b h.1, eq_of_shapeBeqL as bs h.2]
  | [], _ :: _, h => by simp [shapeBeqL] at h
  | _ :: _, [], h => by simp [shapeBeqL] at h
end

mutual
theorem Shape.beq_refl : ∀ (a : Shape), a.beq a = true
  | .leaf a => by simp [Shape.beq]
  | .node k => by simp [Shape.beq, shapeBeqL_refl k]
theorem shapeBeqL_refl : ∀ (a : List Shape), shapeBeqL a a = true
  | [] => by simp [shapeBeqL]
  | a :: as => by simp [shapeBeqL, Shape.beq_refl a, shapeBeqL_refl as]
end

instance : DecidableEq Shape := fun a b =>
  decidable_of_iff (a.beq b = true) ⟨Shape.eq_of_beq a b, fun h => h ▸ Shape.beq_refl a⟩

inductive Rendered
  | ok (s : Shape)
  | panic       -- a slice expression of groupSelectsByUnionMode out of range
  | fuel        -- the model ran out of fuel
  deriving Repr, Inhabited, DecidableEq

/-- the elements of one ExpressionList -/
inductive RenderedL
  | ok (ss : List Shape)
  | panic
  | fuel
  deriving Repr, Inhabited

def consR : Rendered → RenderedL → RenderedL
  | .ok s, .ok ss => .ok (s :: ss)
  | .ok _, .panic => .panic
  | .ok _, .fuel => .fuel
  | .panic, _ => .panic
  | .fuel, _ => .fuel

def sequence : List Rendered → RenderedL
  | [] => .ok []
  | r :: rs => consR r (sequence rs)

def wrap : RenderedL → Rendered
  | .ok ss => .ok (.node ss)
  | .panic => .panic
  | .fuel => .fuel

/-- `Node(sb, stmt, depth)` for a select / union: select.go:315–341 without WITH inheritance, FORMAT, SETTINGS.
The elements of `grouped` are rendered by the same function (they may be unions the grouping just made). -/
def render : Nat → U → Rendered
  | 0, _ => .fuel
  | _ + 1, .sel id => .ok (.leaf id)
  | f + 1, .union kids modes =>
    let selects := kids                       -- simplifyUnionSelects
    let e := expand selects modes             -- expandNestedUnions(selects, n.UnionModes)
    if expandPanics selects || groupPanics e.1 e.2 then .panic
    else wrap (sequence ((group e.1 e.2).map (render f)))

mutual
def U.size : U → Nat
  | .sel _ => 1
  | .union kids modes => 2 + modes.length + sizeL kids
def sizeL : List U → Nat
  | [] => 0
  | u :: us => u.size + sizeL us
end

/-- the rendering with generous fuel. That it suffices for every shape is NOT proved (each level re-runs expand/group on
strictly smaller material, but the mode lists can grow); `fuel` is an explicit answer that the correspondence run would
report as a disagreement — it never occurred. -/
def explainShape (u : U) : Rendered := render (2 * u.size + 2) u

/-! ## leaves -/

mutual
def U.leaves : U → List Nat
  | .sel id => [id]
  | .union kids _ => leavesL kids
def leavesL : List U → List Nat
  | [] => []
  | u :: us => u.leaves ++ leavesL us
end

mutual
def Shape.leaves : Shape → List Nat
  | .leaf id => [id]
  | .node kids => shapeLeavesL kids
def shapeLeavesL : List Shape → List Nat
  | [] => []
  | s :: ss => s.leaves ++ shapeLeavesL ss
end

/-! ## driver: `uniongroup <prefix encoding of U>` → `U(U(S2,S3),S1)` | `panic` | `fuel`

encoding (space separated): `s <id>` | `u <k> <kid>*k <j> <mode>*j`, a mode being the hex of the Go string (`-` = empty). -/

def parseU : Nat → List String → Option (U × List String)
  | 0, _ => none
  | _ + 1, "s" :: n :: rest => n.toNat?.map (fun id => (.sel id, rest))
  | f + 1, "u" :: k :: rest => do
    let k ← k.toNat?
    let (kids, rest) ← parseKids f k rest
    match rest with
    | j :: rest => do
      let j ← j.toNat?
      if rest.length < j then none
      let ms ← (rest.take j).mapM (fun h => (DC.Hex.decode h).map Mode.ofBytes)
      some (.union kids ms, rest.drop j)
    | [] => none
  | _, _ => none
where
  parseKids (f : Nat) : Nat → List String → Option (List U × List String)
    | 0, rest => some ([], rest)
    | k + 1, rest => do
      let (u, rest) ← parseU f rest
      let (us, rest) ← parseKids f k rest
      some (u :: us, rest)

mutual
def Shape.show : Shape → String
  | .leaf id => "S" ++ toString id
  | .node kids => "U(" ++ ",".intercalate (showL kids) ++ ")"
def showL : List Shape → List String
  | [] => []
  | s :: ss => s.show :: showL ss
end

def handle (op : String) (args : List String) : Option String :=
  if op == "uniongroup" then
    some <| match parseU (args.length + 1) args with
      | some (u, []) =>
        match explainShape u with
        | .ok s => s.show
        | .panic => "panic"
        | .fuel => "fuel"
      | _ => "bad-arg"
  else none

end DC.Model.UnionGroup
