import DC.Gen.Tokens
import DC.Gen.Prec
import DC.Gen.OpFn
import DC.Prelude.Hex

/-!
# C08 model: the Pratt expression parser and the EXPLAIN printer, restricted to the C08 fragment

Token-level model of `parser/expression.go`
(`precedence`, `precedenceForCurrent`, `parseExpression`, `parsePrefixExpression`, `parseInfixExpression`,
`parseIdentifierOrFunction`, `parseNumber`, `parseUnaryMinus`, `parseNot`, `parseGroupedOrTuple`,
`parseBinaryExpression`) and of `internal/explain` (`Node`, `explainIdentifier`, `explainLiteral`/`FormatLiteral`,
`OperatorToFunction`, `explainBinaryExpr`, `collectConcatOperands`, `collectLogicalOperands`,
`UnaryOperatorToFunction`, `explainUnaryExpr`).

Fragment tokens: IDENT, NUMBER (unsigned decimal integer), `(`, `)`, NOT, and the binary operator tokens
OR AND = == != <> < <= > >= <=> || + - * / % DIV MOD (`-` is also the prefix minus). Every other token is
`Tok.other kind`. The precedence numbers come from `DC.Gen.Prec` (generated from the Go source) and the operator →
function-name tables from `DC.Gen.OpFn`; nothing numeric is hard-wired here.

Result convention: `none` means "not a fragment expression": the real parser either records an error
(`expected )`), builds a node with a nil child (`SELECT 1 +`, `SELECT -` are accepted by the real code and print a
`Function tuple` for the nil child), or leaves the fragment (function call, qualified name, tuple, cast, unary plus,
LIKE/IN/BETWEEN/IS/ternary/alias/array access, …). Inside the fragment the model is exact, including the quirks
(`NOT (` binds like a function call, an infix `NOT` that is not followed by IN/LIKE/ILIKE/REGEXP/BETWEEN is silently
dropped, `Parenthesized` is set on BinaryExpr/Identifier/Literal but not on UnaryExpr, `||` chains are flattened even
through parentheses).

Identifier tokens are assumed to be plain unquoted non-keyword names `[A-Za-z_][A-Za-z0-9_]*`
(`escapeIdentifierPart` is the identity on them and `parseIdentifierOrFunction`'s `@@`/typed-literal paths are not taken).
-/
namespace DC.Model.Pratt
open DC.Gen

/-! ## tokens -/

/-- the binary operator spellings of the fragment (one constructor per `BinaryExpr.Op` string) -/
inductive BinOp
  | or | and
  | eq | eq2 | neq | neq2 | lt | le | gt | ge | nseq
  | concat
  | plus | minus
  | mul | div | pct | kwDiv | kwMod
deriving DecidableEq, Repr, Inhabited

def BinOp.all : List BinOp :=
  [.or, .and, .eq, .eq2, .neq, .neq2, .lt, .le, .gt, .ge, .nseq, .concat, .plus, .minus, .mul, .div, .pct, .kwDiv, .kwMod]

/-- the lexer's token for the operator (lexer.go: `==`→EQ, `<>`→NEQ, `<=>`→NULL_SAFE_EQ; keywords by `token.Lookup`) -/
def BinOp.kind : BinOp → Nat
  | .or => Tokens.tOR | .and => Tokens.tAND
  | .eq | .eq2 => Tokens.tEQ | .neq | .neq2 => Tokens.tNEQ
  | .lt => Tokens.tLT | .le => Tokens.tLTE | .gt => Tokens.tGT | .ge => Tokens.tGTE
  | .nseq => Tokens.tNULL_SAFE_EQ
  | .concat => Tokens.tCONCAT
  | .plus => Tokens.tPLUS | .minus => Tokens.tMINUS
  | .mul => Tokens.tASTERISK | .div => Tokens.tSLASH | .pct => Tokens.tPERCENT
  | .kwDiv => Tokens.tDIV | .kwMod => Tokens.tMOD

/-- `BinaryExpr.Op` as `parseBinaryExpression` stores it (expression.go:2020-2028): the token's `Value`,
upper-cased for keyword tokens. -/
def BinOp.text : BinOp → String
  | .or => "OR" | .and => "AND"
  | .eq => "=" | .eq2 => "==" | .neq => "!=" | .neq2 => "<>"
  | .lt => "<" | .le => "<=" | .gt => ">" | .ge => ">=" | .nseq => "<=>"
  | .concat => "||"
  | .plus => "+" | .minus => "-"
  | .mul => "*" | .div => "/" | .pct => "%" | .kwDiv => "DIV" | .kwMod => "MOD"

inductive Tok
  | ident (s : String)
  /-- NUMBER whose text is an unsigned decimal digit string with value `n` -/
  | number (n : Nat)
  | lparen | rparen
  | not
  | op (o : BinOp)
  /-- any other token, by its `token.Token` number -/
  | other (kind : Nat)
deriving DecidableEq, Repr

def Tok.kind : Tok → Nat
  | .ident _ => Tokens.tIDENT | .number _ => Tokens.tNUMBER
  | .lparen => Tokens.tLPAREN | .rparen => Tokens.tRPAREN
  | .not => Tokens.tNOT | .op o => o.kind | .other k => k

/-! ## AST (ast.BinaryExpr / UnaryExpr / Identifier / Literal with their `Parenthesized` marks) -/

/-- `Literal.Value` as `parseNumber` (expression.go:1036-1071) leaves it for an unsigned decimal digit string:
`ParseInt` succeeds (int64), else `ParseUint` succeeds (uint64), else `ParseFloat` (float64; value = nearest double of `n`). -/
inductive Lit
  | int64 (n : Nat) | uint64 (n : Nat) | float (n : Nat)
deriving DecidableEq, Repr

inductive UnOp | neg | not
deriving DecidableEq, Repr

/-- `UnaryExpr.Op` (expression.go:1186, 1214) -/
def UnOp.text : UnOp → String
  | .neg => "-" | .not => "NOT"

inductive Ast
  | ident (name : String) (par : Bool)
  | lit (v : Lit) (par : Bool)
  | unary (op : UnOp) (operand : Ast)
  | binary (op : BinOp) (left right : Ast) (par : Bool)
deriving DecidableEq, Repr

/-! ## precedence (expression.go:47-103) -/

/-- `precedence(tok)`: the generated switch table, `default:` otherwise -/
def precedence (kind : Nat) : Nat :=
  (Prec.precTable.lookup kind).getD Prec.precDefault

/-- `(Tokens.keywords.lookup "REGEXP")`: REGEXP has no named constant in `DC.Gen.Tokens` -/
def tREGEXP : Nat := (Tokens.keywords.lookup "REGEXP").getD 0

/-- `p.peekIs(BETWEEN) || p.peekIs(IN) || p.peekIs(LIKE) || p.peekIs(ILIKE) || p.peekIs(REGEXP)` (expression.go:97-98) -/
def notInfixFollower (k : Nat) : Bool :=
  k == Tokens.tBETWEEN || k == Tokens.tIN || k == Tokens.tLIKE || k == Tokens.tILIKE || k == tREGEXP

/-- `precedenceForCurrent()` on the remaining tokens (current = head, peek = second). A NUMBER of the fragment never
starts with "." so the tuple-access branch (line 91) is not taken. The empty list is EOF (`precedence(EOF)` = default). -/
def precedenceForCurrent : List Tok → Nat
  | .not :: .other k :: _ => if notInfixFollower k then Prec.COMPARE else precedence Tokens.tNOT
  | t :: _ => precedence t.kind
  | [] => precedence Tokens.tEOF

/-! ## parser -/

/-- `parseNumber` (expression.go:978-1075), integer path, base 10 -/
def litOf (n : Nat) : Lit :=
  if n < 2 ^ 63 then .int64 n else if n < 2 ^ 64 then .uint64 n else .float n

/-- `parseGroupedOrTuple`'s marks (expression.go:1295-1318): BinaryExpr, Identifier and Literal get
`Parenthesized = true`; a UnaryExpr has no such field and stays as it is. -/
def Ast.markPar : Ast → Ast
  | .ident s _ => .ident s true
  | .lit v _ => .lit v true
  | .binary o l r _ => .binary o l r true
  | .unary o e => .unary o e

/-- `p.currentIs(token.LPAREN)` after the NOT was consumed (expression.go:1221) -/
def notThreshold : List Tok → Nat
  | .lparen :: _ => Prec.UNARY
  | _ => Prec.NOT_PREC

/-- `p.currentIs(token.NUMBER) && p.peekIs(token.COLONCOLON)` (expression.go:1138): the signed-literal cast path -/
def castFollows : List Tok → Bool
  | .number _ :: .other k :: _ => k == Tokens.tCOLONCOLON
  | _ => false

/-- after an identifier: `(` starts a function call (expression.go:712), `.` a qualified name (718),
a STRING after DATE/TIMESTAMP/TIME a typed literal (660) — all outside the fragment -/
def identLeavesFragment : List Tok → Bool
  | .lparen :: _ => true
  | .other k :: _ => k == Tokens.tDOT || k == Tokens.tSTRING
  | _ => false

/-- `p.currentIs(token.RPAREN)` right after the `(` (expression.go:1234) -/
def emptyTupleFollows : List Tok → Bool
  | .rparen :: _ => true
  | _ => false

mutual
/-- `parseExpression(precedence)` (expression.go:426-446) -/
def parseExpr (fuel : Nat) (prec : Nat) (ts : List Tok) : Option (Ast × List Tok) :=
  match fuel with
  | 0 => none
  | fuel+1 =>
    match parsePrefix fuel ts with
    | none => none
    | some (l, rest) => infixLoop fuel prec l rest

/-- the loop `for !p.currentIs(token.EOF) && precedence < p.precedenceForCurrent()` (expression.go:432-443) with
`parseInfixExpression` (534-650) and `parseBinaryExpression` (2019-2077) inlined per token -/
def infixLoop (fuel : Nat) (prec : Nat) (left : Ast) (ts : List Tok) : Option (Ast × List Tok) :=
  match fuel with
  | 0 => none
  | fuel+1 =>
    match ts with
    | [] => some (left, [])                       -- EOF
    | t :: rest =>
      if prec < precedenceForCurrent (t :: rest) then
        match t with
        | .op o =>
          -- parseBinaryExpression: `prec := p.precedence(p.current.Token)`, `expr.Right = p.parseExpression(prec)`;
          -- a nil Right is "not a fragment expression". (ANY/ALL after a comparison: `other` token, same outcome.)
          match parseExpr fuel (precedence o.kind) rest with
          | none => none
          | some (r, rest') => infixLoop fuel prec (.binary o left r false) rest'
        | .not =>
          -- case token.NOT (548-565): `p.nextToken()`, then IN/LIKE/ILIKE/REGEXP/BETWEEN leave the fragment,
          -- `default: return left` — the NOT is consumed and dropped, the position advanced, the loop goes on.
          match rest with
          | .other k :: _ => if notInfixFollower k then none else infixLoop fuel prec left rest
          | _ => infixLoop fuel prec left rest
        | .lparen =>
          -- case token.LPAREN (588-597): a call on an Identifier leaves the fragment; otherwise `return left`
          -- without consuming anything, and the loop breaks on `p.current.Pos == startPos`.
          match left with
          | .ident _ _ => none
          | _ => some (left, t :: rest)
        | .ident _ | .number _ | .rparen =>
          -- `default: return left` / `case token.NUMBER` without a leading "." : nothing consumed, loop breaks
          some (left, t :: rest)
        | .other _ => none                        -- AS, ?, LIKE, IN, BETWEEN, IS, [, ., ::, ->, … : outside the fragment
      else some (left, t :: rest)

/-- `parsePrefixExpression` (expression.go:448-532) with the prefix parsers it dispatches to -/
def parsePrefix (fuel : Nat) (ts : List Tok) : Option (Ast × List Tok) :=
  match fuel with
  | 0 => none
  | fuel+1 =>
    match ts with
    | .ident s :: rest =>
      -- parseIdentifierOrFunction (652-768)
      if identLeavesFragment rest then none else some (.ident s false, rest)
    | .number n :: rest =>
      some (.lit (litOf n) false, rest)
    | .op .minus :: rest =>
      -- parseUnaryMinus (1122-1190); `-Inf` is an `other` token and fails in parsePrefix below
      if castFollows rest then none
      else
        match parseExpr fuel Prec.UNARY rest with
        | none => none                            -- UnaryExpr with nil Operand
        | some (e, rest') => some (.unary .neg e, rest')
    | .not :: rest =>
      -- parseNot (1211-1227)
      match parseExpr fuel (notThreshold rest) rest with
      | none => none
      | some (e, rest') => some (.unary .not e, rest')
    | .lparen :: rest =>
      -- parseGroupedOrTuple (1229-1321)
      if emptyTupleFollows rest then none         -- `()` : empty tuple
      else
        match parseExpr fuel Prec.LOWEST rest with
        | some (e, .rparen :: rest') => some (e.markPar, rest')
        | _ => none                               -- nil first / tuple comma / `expected )`
    | _ => none                                   -- `)`, other binary operators (unary plus, `*`), other tokens, EOF
end

/-- the expression of `SELECT <tokens>`: `parseExpressionList` calls `parseExpression(LOWEST)` (expression.go:112);
the whole token list must be consumed. -/
def parse (ts : List Tok) : Option Ast :=
  match parseExpr (2 * ts.length + 2) Prec.LOWEST ts with
  | some (a, []) => some a
  | _ => none

/-! ## EXPLAIN printer -/

/-- `strings.Repeat(" ", depth)` -/
def indent (depth : Nat) : String := String.ofList (List.replicate depth ' ')

/-- `strings.ToLower` on the ASCII strings that occur here -/
def toLowerAscii (s : String) : String := s.map Char.toLower

/-- `OperatorToFunction` (format.go:476-513) -/
def operatorToFunction (op : String) : String :=
  (OpFn.binOpFn.lookup op).getD (toLowerAscii op)

/-- `UnaryOperatorToFunction` (format.go:516-525) -/
def unaryOperatorToFunction (op : String) : String :=
  (OpFn.unaryOpFn.lookup op).getD (toLowerAscii op)

/-- `FormatFloat(±float64(n))` is C09's business; here it is kept symbolic (never produced for literals below 2^63,
and for negated literals up to 2^63). -/
def floatSym (neg : Bool) (n : Nat) : String :=
  "{FormatFloat(" ++ (if neg then "-" else "") ++ toString n ++ ")}"

/-- `FormatLiteral` (format.go:108-125), integer and float cases; an int64 from a digit string is never negative -/
def formatLiteral : Lit → String
  | .int64 n => "UInt64_" ++ toString n
  | .uint64 n => "UInt64_" ++ toString n
  | .float n => "Float64_" ++ floatSym false n

/-- the folded literal of `explainUnaryExpr` (expressions.go:529-566) for `-` applied to an unparenthesised numeric literal -/
def negatedLiteral : Lit → String
  | .int64 n => if n = 0 then "UInt64_0" else "Int64_-" ++ toString n            -- negVal == 0 / negVal < 0 (`%d` of -n)
  | .uint64 n =>
    if n = 0 then "UInt64_0"
    else if n ≤ 9223372036854775808 then "Int64_-" ++ toString n
    else "Float64_" ++ floatSym true n
  | .float n => "Float64_" ++ floatSym true n

def Ast.size : Ast → Nat
  | .ident _ _ => 1
  | .lit _ _ => 1
  | .unary _ e => e.size + 1
  | .binary _ l r _ => l.size + r.size + 1

/-- `left, ok := n.Left.(*ast.BinaryExpr); ok && left.Op == "||"` -/
def isConcat : Ast → Bool
  | .binary o _ _ _ => o.text == "||"
  | _ => false

/-- `collectConcatOperands` (expressions.go:481-499); only called on BinaryExpr nodes -/
def collectConcatOperands : Ast → List Ast
  | .binary _ l r _ =>
    (if isConcat l then collectConcatOperands l else [l]) ++
    (if isConcat r then collectConcatOperands r else [r])
  | a => [a]

/-- `x, ok := e.(*ast.BinaryExpr); ok && x.Op == n.Op && !x.Parenthesized` -/
def sameOpUnpar (op : BinOp) : Ast → Bool
  | .binary o _ _ p => o.text == op.text && !p
  | _ => false

/-- `collectLogicalOperands` (expressions.go:505-524); only called on BinaryExpr nodes -/
def collectLogicalOperands : Ast → List Ast
  | .binary o l r _ =>
    (if sameOpUnpar o l then collectLogicalOperands l else [l]) ++
    (if sameOpUnpar o r then collectLogicalOperands r else [r])
  | a => [a]

theorem collectConcatOperands_size (a : Ast) : ∀ x ∈ collectConcatOperands a, x.size ≤ a.size := by
  induction a with
  | binary o l r p ihl ihr =>
    intro x hx
    simp only [collectConcatOperands, List.mem_append] at hx
    simp only [Ast.size]
    rcases hx with hx | hx
    · split at hx
      · have := ihl x hx; omega
      · simp at hx; subst hx; omega
    · split at hx
      · have := ihr x hx; omega
      · simp at hx; subst hx; omega
  | _ => intro x hx; simp [collectConcatOperands] at hx; subst hx; exact Nat.le_refl _

theorem collectLogicalOperands_size (a : Ast) : ∀ x ∈ collectLogicalOperands a, x.size ≤ a.size := by
  induction a with
  | binary o l r p ihl ihr =>
    intro x hx
    simp only [collectLogicalOperands, List.mem_append] at hx
    simp only [Ast.size]
    rcases hx with hx | hx
    · split at hx
      · have := ihl x hx; omega
      · simp at hx; subst hx; omega
    · split at hx
      · have := ihr x hx; omega
      · simp at hx; subst hx; omega
  | _ => intro x hx; simp [collectLogicalOperands] at hx; subst hx; exact Nat.le_refl _

theorem collectConcatOperands_lt (o : BinOp) (l r : Ast) (p : Bool) :
    ∀ x ∈ collectConcatOperands (.binary o l r p), x.size < (Ast.binary o l r p).size := by
  intro x hx
  simp only [collectConcatOperands, List.mem_append] at hx
  simp only [Ast.size]
  rcases hx with hx | hx
  · split at hx
    · have := collectConcatOperands_size l x hx; omega
    · simp at hx; subst hx; omega
  · split at hx
    · have := collectConcatOperands_size r x hx; omega
    · simp at hx; subst hx; omega

theorem collectLogicalOperands_lt (o : BinOp) (l r : Ast) (p : Bool) :
    ∀ x ∈ collectLogicalOperands (.binary o l r p), x.size < (Ast.binary o l r p).size := by
  intro x hx
  simp only [collectLogicalOperands, List.mem_append] at hx
  simp only [Ast.size]
  rcases hx with hx | hx
  · split at hx
    · have := collectLogicalOperands_size l x hx; omega
    · simp at hx; subst hx; omega
  · split at hx
    · have := collectLogicalOperands_size r x hx; omega
    · simp at hx; subst hx; omega

/-- the two header lines every function node prints -/
def fnHeader (depth : Nat) (fn : String) (n : Nat) : List String :=
  [indent depth ++ "Function " ++ fn ++ " (children 1)",
   indent depth ++ " ExpressionList (children " ++ toString n ++ ")"]

/-- `Node` (explain.go:106) for the four node types, with `explainIdentifier` (expressions.go:57),
`explainLiteral` (96/246), `explainBinaryExpr` (447-478) and `explainUnaryExpr` (526-588). One list element per line. -/
def node (a : Ast) (depth : Nat) : List String :=
  match a with
  | .ident s _ => [indent depth ++ "Identifier " ++ s]
  | .lit v _ => [indent depth ++ "Literal " ++ formatLiteral v]
  | .binary o l r p =>
    let fn := operatorToFunction o.text
    if o.text == "||" then
      let operands := collectConcatOperands (.binary o l r p)
      fnHeader depth fn operands.length ++
        operands.attach.flatMap (fun x => have := collectConcatOperands_lt o l r p x.1 x.2; node x.1 (depth + 2))
    else if o.text == "OR" || o.text == "AND" then
      let operands := collectLogicalOperands (.binary o l r p)
      fnHeader depth fn operands.length ++
        operands.attach.flatMap (fun x => have := collectLogicalOperands_lt o l r p x.1 x.2; node x.1 (depth + 2))
    else
      fnHeader depth fn 2 ++ node l (depth + 2) ++ node r (depth + 2)
  | .unary o e =>
    match o, e with
    | .neg, .lit v false => [indent depth ++ "Literal " ++ negatedLiteral v]
    | o, e => fnHeader depth (unaryOperatorToFunction o.text) 1 ++ node e (depth + 2)
termination_by a.size
decreasing_by
  all_goals simp only [Ast.size] at *
  all_goals omega

/-- the lines EXPLAIN prints for the expression at depth 0 (in `SELECT <expr>` they appear four levels deep) -/
def explainModel (a : Ast) : List String := node a 0

/-! ## driver: `c08model <hex of space-separated tokens>` -/

def isIdentStart (c : Char) : Bool := c.isAlpha || c == '_'
def isIdentChar (c : Char) : Bool := c.isAlphanum || c == '_'

/-- one whitespace-separated word of the harness's token string → token. Keywords are upper-case in the harness. -/
def tokOfWord (w : String) : Option Tok :=
  match w with
  | "(" => some .lparen | ")" => some .rparen | "NOT" => some .not
  | "OR" => some (.op .or) | "AND" => some (.op .and)
  | "=" => some (.op .eq) | "==" => some (.op .eq2) | "!=" => some (.op .neq) | "<>" => some (.op .neq2)
  | "<" => some (.op .lt) | "<=" => some (.op .le) | ">" => some (.op .gt) | ">=" => some (.op .ge)
  | "<=>" => some (.op .nseq) | "||" => some (.op .concat)
  | "+" => some (.op .plus) | "-" => some (.op .minus)
  | "*" => some (.op .mul) | "/" => some (.op .div) | "%" => some (.op .pct)
  | "DIV" => some (.op .kwDiv) | "MOD" => some (.op .kwMod)
  | _ =>
    match w.toList with
    | [] => none
    | c :: cs =>
      if c.isDigit && cs.all Char.isDigit then some (.number w.toNat!)
      else if isIdentStart c && cs.all isIdentChar && (Tokens.keywords.lookup w.toUpper).isNone then some (.ident w)
      else none

def decodeTokens (hex : String) : Option (List Tok) :=
  match DC.Hex.decode hex with
  | none => none
  | some bs =>
    match String.fromUTF8? (ByteArray.mk bs.toArray) with
    | none => none
    | some s => (s.splitOn " ").filter (· ≠ "") |>.mapM tokOfWord

end DC.Model.Pratt
