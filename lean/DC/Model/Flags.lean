/-!
# C10 / C11: shared state and interleavings

`Sys` is an abstract model of concurrent API calls (Parse / Explain / ExplainStatements / json.Marshal):
every call owns a local state and may *read* a shared state; a step of call `i` is
`step i : S → L → L`. Nothing in the signature lets a step change `S` or another call's local state —
that is exactly the hypothesis "the library writes no package-level variable and does not write
through the caller's AST", which is discharged on the real code by the regenerated inventory
`DC.Gen.Writes` (see `DC.Props.C10.no_shared_writes`).

`FlagSys` is the model of the code *before* the repair (commit "remove package-level context flags"):
steps may write one shared Boolean, as `explainCreateQuery` did with `inCreateQueryContext`
around the rendering of `AS SELECT`, and `countSelectUnionChildren` / `explainSelectWithUnionQuery`
read it. It yields the concrete two-call interleaving with a wrong child count.
-/
namespace DC.Model.Flags

/-- A system of calls sharing read-only state `S`; call `i` has local state `L`. -/
structure Sys (S L : Type) where
  step : Nat → S → L → L

variable {S L : Type}

/-- run a schedule (a list of call indices, one step of that call each) from the local states `ls`. -/
def Sys.run (sys : Sys S L) (σ : S) : (Nat → L) → List Nat → (Nat → L)
  | ls, [] => ls
  | ls, i :: rest => sys.run σ (fun j => if j = i then sys.step i σ (ls i) else ls j) rest

/-- run call `i` alone for `n` steps. -/
def Sys.alone (sys : Sys S L) (σ : S) (i : Nat) : Nat → L → L
  | 0, l => l
  | n + 1, l => sys.alone σ i n (sys.step i σ l)

/-- number of steps call `i` takes in schedule `sched`. -/
def steps (i : Nat) (sched : List Nat) : Nat := sched.count i

/-! ## the pre-repair model: a shared flag written by one call and read by another -/

/-- what a union-level node prints: child count as computed by `countSelectUnionChildren`
and the children actually emitted by `explainSelectWithUnionQuery` (both read the flag, at different times). -/
structure UnionOut where
  counted : Nat
  emitted : Nat
  deriving DecidableEq, Repr

/-- program counter of a call of the pre-repair code. -/
inductive Pc | start | counted (n : Nat) | done (o : UnionOut)
  deriving DecidableEq, Repr

/-- kinds of calls: rendering `CREATE VIEW … AS SELECT … FORMAT` sets the flag, renders, clears it;
rendering a top-level `SELECT … FORMAT` counts its children (reading the flag), then emits them (reading it again). -/
inductive Kind | createView | selectFormat
  deriving DecidableEq

/-- one step of the pre-repair code on the shared flag. -/
def flagStep (k : Kind) (flag : Bool) (pc : Pc) : Bool × Pc :=
  match k, pc with
  | .createView, .start => (true, .counted 0)          -- inCreateQueryContext = true
  | .createView, .counted _ => (false, .done ⟨0, 0⟩)    -- … render …; inCreateQueryContext = false
  | .selectFormat, .start => (flag, .counted (if flag then 1 else 2))          -- countSelectUnionChildren
  | .selectFormat, .counted n => (flag, .done ⟨n, if flag then 1 else 2⟩)      -- explainSelectWithUnionQuery
  | _, .done o => (flag, .done o)

/-- run a schedule of the two-call system (call 0 = createView, call 1 = selectFormat). -/
def flagRun : Bool → Pc → Pc → List Nat → Bool × Pc × Pc
  | f, a, b, [] => (f, a, b)
  | f, a, b, 0 :: rest => let (f', a') := flagStep .createView f a; flagRun f' a' b rest
  | f, a, b, _ :: rest => let (f', b') := flagStep .selectFormat f b; flagRun f' a b' rest

end DC.Model.Flags
