/-!
# C03 — `json.Marshal` of a parsed statement: the decision structure of `(*ast.Literal).MarshalJSON`

Property text (C03): "… json.Marshal of each statement succeeds …".

encoding/json fails on a finite tree of structs only through (1) a custom marshaller that returns an error, (2) a
float32/float64 that is NaN / +Inf / -Inf reaching the default float encoder (`UnsupportedValueError`), (3) a kind it
cannot encode. `DC.Gen.Marshalers` (regenerated) shows that package ast has exactly one custom marshaller,
`(*Literal).MarshalJSON` (ast/ast.go:1374), exactly one field that can hold a float at all, `Literal.Value interface{}`,
and no field of an unsupported kind (obligations in `DC/Props/C03Json.lean`). So the whole question is what happens to
`Literal.Value`, and this file models exactly that:

* `LitVal` — the dynamic values the parser stores in `Literal.Value` (`literal_values_typed` in C01Sites ties the list to
  the source): int64, uint64, float64 (finite / NaN / +Inf / -Inf), string, bool, nil, `[]ast.Expression`.
* `encValue` — encoding/json's DEFAULT encoder on such a value: the three non-finite floats are `unsupportedValue`,
  a slice of expressions encodes each element (a `*Literal` element goes through its MarshalJSON because the pointer is in
  the method set; any other node is a plain struct whose children are encoded the same way).
* `marshalLiteral` — MarshalJSON as written: the type test `l.Value.(float64)`, the three `math.IsNaN/IsInf` branches that
  marshal a wrapper `struct{ *literalAlias; Value string "json:\"value\"" }`, and the fall-through
  `json.Marshal((*literalAlias)(l))`. The wrapper works only because of encoding/json's dominant-field rule (the
  depth-0 field named "value" hides the embedded depth-1 field of the same name, so the float never reaches the default
  encoder); that rule is modelled (`dominant`) instead of assumed, and `wrapper_needs_same_name` shows the model can fail.
-/
namespace DC.Model.Marshal

inductive Outcome
  | ok
  | unsupportedValue   -- json: unsupported value: NaN / +Inf / -Inf
  deriving DecidableEq, Repr

/-- first error wins (encoding/json aborts at the first error) -/
def Outcome.and : Outcome → Outcome → Outcome
  | .ok, o => o
  | .unsupportedValue, _ => .unsupportedValue

/-- `ast.LiteralType` (ast/ast.go:1410); a string type: always encodable -/
inductive LitType
  | string | integer | float | boolean | null | array | tuple
  deriving DecidableEq, Repr

mutual
/-- the dynamic value of `Literal.Value interface{}` (ast/ast.go:1360) -/
inductive LitVal
  | int (i : Int)             -- int64
  | uint (n : Nat)            -- uint64
  | finiteFloat (bits : Nat)  -- float64, finite
  | nan                       -- float64 NaN          (parseSpecialNumber)
  | posInf                    -- float64 +Inf         (parseSpecialNumber, parseUnaryPlus, parseHexToFloat overflow)
  | negInf                    -- float64 -Inf         (parseUnaryMinus: `-inf`, and `-1e999::T` where ParseFloat's error is dropped)
  | str (s : String)
  | bool (b : Bool)
  | null                      -- nil interface
  | list (elems : List Node)  -- []ast.Expression (array / tuple literal)
/-- an element of `[]ast.Expression` -/
inductive Node
  | lit (l : Lit)             -- *ast.Literal stored in the interface: json finds MarshalJSON (pointer receiver, pointer value)
  | nilNode                   -- nil interface element: `null`
  | other (kids : List Node)  -- any other ast node (FunctionCall, CastExpr, UnaryExpr, AliasedExpr, Subquery …): a struct with no
                              -- custom marshaller and no float-capable field; its expression-typed fields/slices are `kids`
/-- `ast.Literal` without Position (`json:"-"`) -/
inductive Lit
  | mk (type : LitType) (value : LitVal) (source : String)
       (negative parenthesized spacedCommas spacedBrackets isBigInt : Bool)
end

def Lit.value : Lit → LitVal
  | .mk _ v _ _ _ _ _ _ => v

/-! ## encoding/json's view of a struct: fields with json name, embedding depth, and how the default encoder treats them -/

inductive FKind
  | str          -- string / named string: cannot fail
  | bool         -- bool: cannot fail
  | ifaceValue   -- the `Value interface{}` field of the literal: the default encoder encodes the DYNAMIC value
  deriving DecidableEq, Repr

structure Field where
  name : String
  depth : Nat
  kind : FKind
  deriving DecidableEq, Repr

/-- `literalAlias` = the fields of `ast.Literal` that have a json name (Position is `json:"-"`), in declaration order.
`DC.Props.C03Json.literal_fields_modelled` compares this list with the regenerated `DC.Gen.Marshalers.literalFields`. -/
def aliasFields : List Field := [
  ⟨"type", 0, .str⟩, ⟨"value", 0, .ifaceValue⟩, ⟨"source", 0, .str⟩, ⟨"negative", 0, .bool⟩, ⟨"parenthesized", 0, .bool⟩,
  ⟨"spaced_commas", 0, .bool⟩, ⟨"spaced_brackets", 0, .bool⟩, ⟨"is_big_int", 0, .bool⟩]

/-- `struct { *literalAlias; <outer> string "json:\"<outerName>\"" }` (ast/ast.go:1379, 1388, 1397): the embedded pointer's
fields are promoted at depth 1, the outer field sits at depth 0. -/
def wrapperFieldsNamed (outerName : String) : List Field :=
  aliasFields.map (fun f => { f with depth := f.depth + 1 }) ++ [⟨outerName, 0, .str⟩]

def wrapperFields : List Field := wrapperFieldsNamed "value"

/-- encoding/json `typeFields` / `dominantField`: among the fields with one json name the shallowest wins if it is the
only one at that depth; otherwise the name is dropped. (All fields here are tagged, so the tagged-beats-untagged tie-break
does not arise.) -/
def dominant (fs : List Field) : List Field :=
  fs.filter (fun f =>
    fs.all (fun g => g.name != f.name || f.depth ≤ g.depth) &&
    (fs.filter (fun g => g.name == f.name && g.depth == f.depth)).length == 1)

/-- does the default encoder get to see the literal's dynamic `Value`? -/
def reachesDefault (fs : List Field) : Bool := (dominant fs).any (fun f => f.kind == .ifaceValue)

/-- `if f, ok := l.Value.(float64); ok { if math.IsNaN(f) … if math.IsInf(f, 1) … if math.IsInf(f, -1) … }`
(ast/ast.go:1377–1405): the replacement text of the branch taken, `none` = fall through to line 1406. -/
def specialBranch : LitVal → Option String
  | .nan => some "NaN"
  | .posInf => some "+Inf"
  | .negInf => some "-Inf"
  | _ => none

mutual
/-- encoding/json's default encoder on the dynamic value of an `interface{}` (floatEncoder rejects non-finite values;
sliceEncoder → interfaceEncoder per element). -/
def encValue : LitVal → Outcome
  | .nan => .unsupportedValue
  | .posInf => .unsupportedValue
  | .negInf => .unsupportedValue
  | .list elems => encNodes elems
  | .int _ => .ok
  | .uint _ => .ok
  | .finiteFloat _ => .ok
  | .str _ => .ok
  | .bool _ => .ok
  | .null => .ok
/-- one `ast.Expression` element -/
def encNode : Node → Outcome
  | .lit l => marshalLiteral l      -- marshalerEncoder: calls (*Literal).MarshalJSON, then compacts its (valid) output
  | .nilNode => .ok
  | .other kids => encNodes kids
def encNodes : List Node → Outcome
  | [] => .ok
  | n :: ns => (encNode n).and (encNodes ns)
/-- `(*Literal).MarshalJSON` (ast/ast.go:1374). -/
def marshalLiteral : Lit → Outcome
  | .mk _ v _ _ _ _ _ _ =>
    match specialBranch v with
    | some _ =>
      -- json.Marshal(&struct{ *literalAlias; Value string `json:"value"` }{…}): every dominant field is a string or a bool,
      -- unless the embedded interface field is still visible
      if reachesDefault wrapperFields then encValue v else .ok
    | none =>
      -- json.Marshal((*literalAlias)(l)): the default struct encoder, which encodes the dynamic Value
      if reachesDefault aliasFields then encValue v else .ok
end

/-- What MarshalJSON would do if the wrapper's outer field had another json name (the embedded `value` stays dominant). -/
def marshalLiteralNamed (outerName : String) : Lit → Outcome
  | .mk _ v _ _ _ _ _ _ =>
    match specialBranch v with
    | some _ => if reachesDefault (wrapperFieldsNamed outerName) then encValue v else .ok
    | none => if reachesDefault aliasFields then encValue v else .ok

/-- The default struct encoder applied to a literal directly (what a `Literal` held BY VALUE in an interface would get:
the pointer-receiver method is not in the method set of a non-addressable value). -/
def encLiteralDefault : Lit → Outcome
  | .mk _ v _ _ _ _ _ _ => if reachesDefault aliasFields then encValue v else .ok

end DC.Model.Marshal
