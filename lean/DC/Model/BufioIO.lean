import DC.Model.Bufio

/-!
Driver ops of the `bufio` component (line protocol, see `Main.lean`):

* `bufio <script> <ops>` — `bufio.NewReader` (4096) over the scripted reader, run the ops, print the results;
* `bufion <size> <script> <ops>` — the same with `bufio.NewReaderSize(_, size)`;
* `bufiopure <size> <hexbytes> <err> <ops>` — the pure reader;
* `utf8b <hexbytes>` — `rune/size/fullRune` of `utf8.DecodeRune`, `utf8.FullRune`.

`<script>` = `-` (empty) or `ev,ev,…`, `ev` = `<hexdata>:<err>[*<count>]`, `<hexdata>` = lower-case hex or `-`,
`<err>` = `n` (nil) | `e` (io.EOF) | `x<id>` | `g` (io.ErrNoProgress) | `f` (bufio.ErrBufferFull).
`<ops>` = `-` or `op,op,…`, `op` = `r` (ReadRune) | `p<n>` (Peek n).
Answer: `res,res,…` (`-` if none), `res` = `r<rune>/<size>/<err>` | `p<hexbytes>/<err>`; `!panic` appended if `fill` panicked.
-/
namespace DC.Bufio.IO
open DC DC.Bufio

def parseErr (s : String) : Option (Option Err) :=
  if s == "n" then some none
  else if s == "e" then some (some .eof)
  else if s == "g" then some (some .noProgress)
  else if s == "f" then some (some .bufferFull)
  else match s.toList with
    | 'x' :: ds => (String.ofList ds).toNat?.map (fun n => some (.other n))
    | _ => none

def showErr : Option Err → String
  | none => "n"
  | some .eof => "e"
  | some .noProgress => "g"
  | some .bufferFull => "f"
  | some (.other n) => "x" ++ toString n

def parseEv (s : String) : Option (List Ev) :=
  let (body, cnt) := match s.splitOn "*" with
    | [b] => (b, some 1)
    | [b, c] => (b, c.toNat?)
    | _ => (s, none)
  match cnt, body.splitOn ":" with
  | some k, [d, e] =>
    match Hex.decode d, parseErr e with
    | some bs, some er => some (List.replicate k { data := bs, err := er })
    | _, _ => none
  | _, _ => none

def parseScript (s : String) : Option Script :=
  if s == "-" then some []
  else (s.splitOn ",").foldr (fun e acc => match parseEv e, acc with
    | some evs, some r => some (evs ++ r)
    | _, _ => none) (some [])

def parseOp (s : String) : Option Op :=
  if s == "r" then some .readRune
  else match s.toList with
    | 'p' :: ds => (String.ofList ds).toNat?.map Op.peek
    | _ => none

def parseOps (s : String) : Option (List Op) :=
  if s == "-" then some []
  else (s.splitOn ",").foldr (fun e acc => match parseOp e, acc with
    | some o, some r => some (o :: r)
    | _, _ => none) (some [])

def showRes : Res → String
  | .rune r => "r" ++ toString r.rune ++ "/" ++ toString r.size ++ "/" ++ showErr r.err
  | .bytes bs e => "p" ++ Hex.encode bs ++ "/" ++ showErr e

def showResults (rs : List Res) : String :=
  if rs.isEmpty then "-" else ",".intercalate (rs.map showRes)

def runBufio (size : Nat) (script : Script) (ops : List Op) : String :=
  let r := run ops (newReaderSize script size)
  showResults r.1 ++ (if r.2.panicked then "!panic" else "")

def handle (op : String) (args : List String) : Option String :=
  if op == "bufio" then
    some (match args with
      | [s, o] => (match parseScript s, parseOps o with
        | some sc, some ops => runBufio defaultBufSize sc ops
        | _, _ => "bad-arg")
      | _ => "bad-arg")
  else if op == "bufion" then
    some (match args with
      | [n, s, o] => (match n.toNat?, parseScript s, parseOps o with
        | some k, some sc, some ops => runBufio k sc ops
        | _, _, _ => "bad-arg")
      | _ => "bad-arg")
  else if op == "bufiopure" then
    some (match args with
      | [n, d, e, o] => (match n.toNat?, Hex.decode d, parseErr e, parseOps o with
        | some k, some bs, some (some er), some ops =>
          showResults (Pure.run ops { rest := bs, fin := er, cap := max k minReadBufferSize }).1
        | _, _, _, _ => "bad-arg")
      | _ => "bad-arg")
  else if op == "utf8b" then
    some (match args with
      | [d] => (match Hex.decode d with
        | some bs => let r := Utf8B.decodeRune bs
          toString r.1 ++ "/" ++ toString r.2 ++ "/" ++ (if Utf8B.fullRune bs then "1" else "0")
        | none => "bad-arg")
      | _ => "bad-arg")
  else none

end DC.Bufio.IO
