import DC.Gen.Tokens

/-!
# Model of `Parser.ParseStatements` (parser/parser.go:152-195)

The statement loop of the Go parser, mirrored line by line over

* an abstract, already *pumped* token stream (`List Tok`: the tokens `Parser.nextToken`
  (parser.go:59-71) lets through, i.e. without WHITESPACE / LINE_COMMENT; the `EOF` item that the
  lexer returns for ever after the end of input is modelled by `none`, so "EOF is last and sticky"
  holds by construction);
* the three-token window `current / peek / peekPeek` of `Parser` (parser.go:38-45) and `nextToken`;
* an abstract element parser `parseStmt : Window → ParseRes` (the Go `parseStatement`,
  parser.go:227-368) which is a *parameter* of everything below;
* a context oracle `done : Nat → Bool` — what `select { case <-ctx.Done(): … default: }`
  (parser.go:157-161) observes in outer-loop iteration `i` (one sample per iteration);
* the reader-error flag `p.lexer.Err()` (parser.go:187) as an input `readErr : Option ε`.

Core only, executable (`dcmodel` links it).

Token kinds are the numeric codes of `token.Token`, taken from the regenerated table
`DC.Gen.Tokens` (`tSEMICOLON`, `tPARALLEL`, `tWITH`). A stream element whose kind is `tEOF` does not
occur in a real pumped stream (the lexer never produces anything after EOF); the model would treat
it as an ordinary token and the driver rejects it.
-/

namespace DC.Model.StmtLoop

open DC.Gen.Tokens (tSEMICOLON tPARALLEL tWITH tEOF tILLEGAL)

/-- A `lexer.Item` other than EOF: its `token.Token` code and an identity standing for
value + position. -/
structure Tok where
  kind : Nat
  id : Nat
deriving DecidableEq, Repr

/-- `Parser.current`, `Parser.peek`, `Parser.peekPeek` (parser.go:40-42; `none` = the EOF item)
and what `p.lexer` will still deliver through the pump (`rest`; after it EOF for ever). -/
structure Window where
  current : Option Tok
  peek : Option Tok
  peekPeek : Option Tok
  rest : List Tok
deriving DecidableEq, Repr

/-- `Parser.nextToken` (parser.go:59-71) on the pumped stream: shift the window by one and pull the
next token (`p.lexer.NextToken()` returns EOF = `none` once `rest` is exhausted). -/
def Window.nextToken (w : Window) : Window :=
  { current := w.peek, peek := w.peekPeek, peekPeek := w.rest.head?, rest := w.rest.tail }

/-- `parser.New` (parser.go:48-57): a zero `Parser` (zero-valued items have `Token == ILLEGAL`),
then three `nextToken` calls. -/
def Window.new (ts : List Tok) : Window :=
  let zero : Option Tok := some ⟨tILLEGAL, 0⟩
  (Window.nextToken (Window.nextToken (Window.nextToken
    { current := zero, peek := zero, peekPeek := zero, rest := ts })))

/-- The window that looks at the stream `l` (closed form of `Window.new`, see `new_eq_ofList`). -/
def Window.ofList (l : List Tok) : Window :=
  { current := l[0]?, peek := l[1]?, peekPeek := l[2]?, rest := l.drop 3 }

/-- number of non-EOF tokens still visible or to come -/
def Window.size (w : Window) : Nat :=
  w.current.toList.length + w.peek.toList.length + w.peekPeek.toList.length + w.rest.length

def kindIs (t : Option Tok) (k : Nat) : Bool :=
  match t with
  | some t => t.kind == k
  | none => false

/-- `p.currentIs(token.EOF)` -/
def Window.atEOF (w : Window) : Bool := w.current.isNone
/-- `p.currentIs(k)` for a non-EOF kind `k` -/
def Window.currentIs (w : Window) (k : Nat) : Bool := kindIs w.current k
/-- `p.peekIs(k)` for a non-EOF kind `k` -/
def Window.peekIs (w : Window) (k : Nat) : Bool := kindIs w.peek k

theorem Window.nextToken_size_lt (w : Window) (h : w.current.isSome) :
    w.nextToken.size < w.size := by
  cases w with
  | mk c p pp r =>
    cases c with
    | none => simp at h
    | some c =>
      cases r <;> simp [Window.nextToken, Window.size] <;> omega

set_option linter.unusedVariables false in
/-- `for p.currentIs(token.SEMICOLON) { p.nextToken() }` (parser.go:164-166 and 181-183). -/
def skipSemis (w : Window) : Window :=
  if h : w.currentIs tSEMICOLON = true then skipSemis w.nextToken else w
termination_by w.size
decreasing_by
  apply Window.nextToken_size_lt
  unfold Window.currentIs kindIs at h
  split at h <;> simp_all

/-- What one call of `parseStatement` does, as far as `ParseStatements` can observe it:
`stmt = none` models a nil interface *or* a typed nil pointer (`isNilStatement`, parser.go:200-206),
`after` is the window it leaves behind, `errs` is what it appended to `p.errors`. -/
structure ParseRes (σ ε : Type) where
  stmt : Option σ
  after : Window
  errs : List ε

/-- the abstract `parseStatement` -/
abbrev StmtParser (σ ε : Type) := Window → ParseRes σ ε

/-- The fields of `*Parser` that `ParseStatements` touches, plus a ghost log of the
`parseStatement` calls: (outer-loop iteration, window the call started from). -/
structure PState (ε : Type) where
  w : Window
  errors : List ε
  log : List (Nat × Window)

/-- one `p.parseStatement()` call made during outer iteration `i` -/
def callStmt {σ ε : Type} (ps : StmtParser σ ε) (i : Nat) (p : PState ε) : Option σ × PState ε :=
  let r := ps p.w
  (r.stmt, { w := r.after, errors := p.errors ++ r.errs, log := p.log ++ [(i, p.w)] })

def PState.skipSemis {ε : Type} (p : PState ε) : PState ε := { p with w := StmtLoop.skipSemis p.w }

/-- `if !isNilStatement(stmt) { list = append(list, stmt) }` -/
def appendNonNil {σ : Type} (acc : List σ) (st : Option σ) : List σ :=
  match st with
  | some s => acc ++ [s]
  | none => acc

/-- `p.currentIs(token.PARALLEL) && p.peekIs(token.WITH)` (parser.go:174 and 215) -/
def Window.isParallelWith (w : Window) : Bool := w.currentIs tPARALLEL && w.peekIs tWITH

/-- The loop of `parseParallelWith` (parser.go:215-222); `acc` is `parallel.Statements`.
`none` = fuel exhausted (impossible under `Progress`, see `Proofs/StmtLoop`). -/
def parWithLoop {σ ε : Type} (ps : StmtParser σ ε) (i : Nat) :
    Nat → List σ → PState ε → Option (List σ × PState ε)
  | 0, _, _ => none
  | fuel + 1, acc, p =>
    if p.w.isParallelWith then
      let p1 : PState ε := { p with w := p.w.nextToken.nextToken }   -- skip PARALLEL, skip WITH
      let (st, p2) := callStmt ps i p1                              -- stmt := p.parseStatement()
      parWithLoop ps i fuel (appendNonNil acc st) p2
    else some (acc, p)

/-- `parseParallelWith(first)` (parser.go:209-225): `mkPar` builds the `*ast.ParallelWithQuery`
from `parallel.Statements`. -/
def parseParallelWith {σ ε : Type} (ps : StmtParser σ ε) (mkPar : List σ → σ) (i : Nat)
    (first : σ) (p : PState ε) : Option (σ × PState ε) :=
  match parWithLoop ps i (p.w.size + 1) [first] p with
  | some (ss, p') => some (mkPar ss, p')
  | none => none

/-- parser.go:171-178: `stmt := p.parseStatement(); if !isNilStatement(stmt) { if PARALLEL WITH
{ stmt = p.parseParallelWith(stmt) }; statements = append(statements, stmt) }`. -/
def parseAndAppend {σ ε : Type} (ps : StmtParser σ ε) (mkPar : List σ → σ) (i : Nat)
    (stmts : List σ) (p : PState ε) : Option (List σ × PState ε) :=
  match callStmt ps i p with
  | (none, p2) => some (stmts, p2)
  | (some st, p2) =>
    if p2.w.isParallelWith then
      match parseParallelWith ps mkPar i st p2 with
      | some (st', p3) => some (stmts ++ [st'], p3)
      | none => none
    else some (stmts ++ [st], p2)

/-- Why and where the outer loop stopped. -/
structure LoopOut (σ ε : Type) where
  stmts : List σ
  p : PState ε
  /-- how many times `ctx.Done()` was sampled -/
  iters : Nat
  /-- left through `return statements, ctx.Err()` (parser.go:159) -/
  cancelled : Bool
  /-- the model's fuel ran out (never under `Progress`) -/
  fuelOut : Bool

/-- The outer loop `for !p.currentIs(token.EOF) { … }` (parser.go:156-184), iteration `i`. -/
def loop {σ ε : Type} (ps : StmtParser σ ε) (mkPar : List σ → σ) (done : Nat → Bool) :
    Nat → Nat → List σ → PState ε → LoopOut σ ε
  | 0, i, stmts, p => ⟨stmts, p, i, false, true⟩
  | fuel + 1, i, stmts, p =>
    if p.w.atEOF then ⟨stmts, p, i, false, false⟩                    -- :156 condition false
    else if done i then ⟨stmts, p, i + 1, true, false⟩               -- :157-159 return statements, ctx.Err()
    else
      let p1 := p.skipSemis                                          -- :164-166
      if p1.w.atEOF then ⟨stmts, p1, i + 1, false, false⟩            -- :167-169 break
      else
        match parseAndAppend ps mkPar i stmts p1 with                -- :171-178
        | none => ⟨stmts, p1, i + 1, false, true⟩
        | some (stmts', p3) =>
          loop ps mkPar done fuel (i + 1) stmts' p3.skipSemis        -- :181-183, next iteration

/-- The error `ParseStatements` returns, in the priority order of the Go code. -/
inductive ErrKind (ε : Type) where
  /-- `return statements, nil` (parser.go:194) -/
  | none
  /-- `return statements, ctx.Err()` (parser.go:159) -/
  | ctx
  /-- `fmt.Errorf("read error: %w", err)` (parser.go:187-189) -/
  | read (e : ε)
  /-- `fmt.Errorf("parse errors: %v", p.errors)` (parser.go:191-193) -/
  | syntax (es : List ε)
deriving DecidableEq, Repr

/-- Everything observable about one `Parse` call. -/
structure Run (σ ε : Type) where
  stmts : List σ
  err : ErrKind ε
  /-- the window when `ParseStatements` returned -/
  final : Window
  /-- ghost: the `parseStatement` calls, (iteration, start window) -/
  log : List (Nat × Window)
  iters : Nat
  fuelOut : Bool

/-- parser.go:186-194 (after the loop) and :159 (inside). -/
def finish {σ ε : Type} (readErr : Option ε) (o : LoopOut σ ε) : Run σ ε :=
  { stmts := o.stmts
    err :=
      if o.cancelled then .ctx
      else match readErr with
        | some e => .read e
        | none => if o.p.errors.isEmpty then .none else .syntax o.p.errors
    final := o.p.w, log := o.p.log, iters := o.iters, fuelOut := o.fuelOut }

/-- `parser.Parse(ctx, r)` (parser.go:147-150) on the pumped token stream `ts` of `r`.
Fuel `ts.length + 1` is never exhausted if `parseStmt` makes progress (`fuel_sufficient`). -/
def run {σ ε : Type} (ps : StmtParser σ ε) (mkPar : List σ → σ) (readErr : Option ε)
    (done : Nat → Bool) (ts : List Tok) : Run σ ε :=
  finish readErr (loop ps mkPar done (ts.length + 1) 0 [] ⟨Window.new ts, [], []⟩)

/-- a context that is never cancelled -/
def noCancel : Nat → Bool := fun _ => false

/-! ## Hypotheses about the element parser, and the shape of scripts (used by C16 / C06) -/

/-- `parseStatement` moves the window only by `nextToken` calls (so it leaves a suffix of the
stream it started on), and makes at least one unless it starts at EOF. The real `parseStatement`
has this property on its `default:` branch by parser.go:365 (`p.nextToken()`); for the statement
parsers it dispatches to, it is the progress certificate of C02. It is a HYPOTHESIS here. -/
def Progress {σ ε : Type} (ps : StmtParser σ ε) : Prop :=
  ∀ l : List Tok, ∃ n, (ps (Window.ofList l)).after = Window.ofList (l.drop n) ∧ (l ≠ [] → 1 ≤ n)

/-- the context oracle never goes back from done to not done (`ctx.Done()` stays closed) -/
def Monotone (done : Nat → Bool) : Prop := ∀ i, done i = true → done (i + 1) = true

def isSemi (t : Tok) : Bool := t.kind == tSEMICOLON
def dropSemis (l : List Tok) : List Tok := l.dropWhile isSemi
/-- a run of SEMICOLON tokens (any number, any identities) -/
def AllSemis (l : List Tok) : Prop := ∀ t ∈ l, isSemi t = true
/-- `rest` is what may follow a statement in a script: the end of input, or a `;` and anything -/
def Boundary (rest : List Tok) : Prop := rest = [] ∨ ∃ t r, rest = t :: r ∧ isSemi t = true
/-- `s` begins with a token other than `;` -/
def StartsStmt (s : List Tok) : Prop := ∃ t r, s = t :: r ∧ isSemi t = false

/-- `parseStmt` is *self-contained* on the token sequence `s` with result `st`: started on `s`
followed by any continuation that is empty or begins with `;`, it returns `st`, stops exactly in
front of the continuation, and reports no error — whatever the continuation contains (in particular
whatever the third look-ahead token shows when `s` is short). -/
def SelfContained {σ ε : Type} (ps : StmtParser σ ε) (s : List Tok) (st : σ) : Prop :=
  ∀ rest, Boundary rest →
    ps (Window.ofList (s ++ rest)) = { stmt := some st, after := Window.ofList rest, errs := [] }

/-- One script element: the tokens of a statement, its parse result, and the semicolons after it. -/
structure Item (σ : Type) where
  toks : List Tok
  st : σ
  sep : List Tok

/-- `s₁ sep₁ s₂ sep₂ … sₙ sepₙ` -/
def joinScript {σ : Type} : List (Item σ) → List Tok
  | [] => []
  | it :: r => it.toks ++ it.sep ++ joinScript r

/-- every separator consists of SEMICOLON tokens only, and all but the last are non-empty -/
def WellSeparated {σ : Type} : List (Item σ) → Prop
  | [] => True
  | [it] => AllSemis it.sep
  | it :: it' :: r => AllSemis it.sep ∧ it.sep ≠ [] ∧ WellSeparated (it' :: r)

/-! ## A concrete toy element parser (driver + non-vacuity examples)

`toyParse` treats a statement as "everything up to the next top-level `;`, EOF or `PARALLEL WITH`".
A token of kind `tBAD`, or a statement that would start with `;`, EOF or `PARALLEL`, takes the
`default:` branch of `parseStatement` (parser.go:362-367): one error, one `nextToken`, nil. -/

/-- a token kind no statement can start with (the toy's stand-in; ILLEGAL in the real table) -/
def tBAD : Nat := tILLEGAL

/-- a toy statement: the ids of the first tokens of its `PARALLEL WITH` members -/
structure ToyStmt where
  ids : List Nat
deriving DecidableEq, Repr

def toyMkPar (ss : List ToyStmt) : ToyStmt := ⟨ss.flatMap (·.ids)⟩

/-- a toy error: the id of the unexpected token (`none` = EOF) -/
abbrev ToyErr := Option Nat

def Window.stopsToy (w : Window) : Bool :=
  w.atEOF || w.currentIs tSEMICOLON || w.isParallelWith

set_option linter.unusedVariables false in
def toyBody (w : Window) : Window :=
  if h : w.stopsToy = true then w else toyBody w.nextToken
termination_by w.size
decreasing_by
  apply Window.nextToken_size_lt
  cases hc : w.current with
  | none => simp [Window.stopsToy, Window.atEOF, hc] at h
  | some _ => rfl

def toyParse : StmtParser ToyStmt ToyErr := fun w =>
  match w.current with
  | none => ⟨none, w.nextToken, [none]⟩
  | some t =>
    if t.kind == tSEMICOLON || t.kind == tPARALLEL || t.kind == tBAD then
      ⟨none, w.nextToken, [some t.id]⟩
    else ⟨some ⟨[t.id]⟩, toyBody w.nextToken, []⟩

/-! ## Driver op

`stmtloop <kinds> <doneFrom> <readErr>`: `kinds` = comma-separated token codes of the pumped stream
without EOF ("-" = empty), token ids are the positions; `doneFrom` = first outer iteration at which
`ctx.Done()` is closed ("-" = never); `readErr` = 0/1.
Answer: `<k> <err> <iters> <calls> <final> <stmts>` with err ∈ none|ctx|read|syntax:<n>,
`final` = E (EOF) or the id of `current`, `stmts` = `id+id…,id…` ("-" = none). -/

def parseNat? (s : String) : Option Nat :=
  if s.isEmpty then none else
  s.toList.foldl (fun acc c => match acc with
    | none => none
    | some n => if '0' ≤ c ∧ c ≤ '9' then some (n * 10 + (c.toNat - '0'.toNat)) else none) (some 0)

def parseKinds (s : String) : Option (List Tok) :=
  if s == "-" then some [] else
  let parts := s.splitOn ","
  let ks := parts.map parseNat?
  if ks.all (fun k => match k with | some k => k != tEOF | none => false) then
    some ((ks.filterMap id).zipIdx.map (fun (k, i) => ⟨k, i⟩))
  else none

def showErr (e : ErrKind ToyErr) : String :=
  match e with
  | .none => "none"
  | .ctx => "ctx"
  | .read _ => "read"
  | .syntax es => "syntax:" ++ toString es.length

def showStmts (ss : List ToyStmt) : String :=
  if ss.isEmpty then "-" else
  ",".intercalate (ss.map (fun s => "+".intercalate (s.ids.map toString)))

def handle (op : String) (args : List String) : Option String :=
  if op != "stmtloop" then none else
  match args with
  | [ks, df, re] =>
    match parseKinds ks with
    | none => some "bad-arg"
    | some ts =>
      let done? : Option (Nat → Bool) :=
        if df == "-" then some noCancel
        else match parseNat? df with
          | some n => some (fun i => decide (n ≤ i))
          | none => none
      let re? : Option (Option ToyErr) :=
        if re == "0" then some none else if re == "1" then some (some none) else none
      match done?, re? with
      | some done, some readErr =>
        let r := run toyParse toyMkPar readErr done ts
        if r.fuelOut then some "fuel-out" else
        let fin := match r.final.current with
          | none => "E"
          | some t => toString t.id
        some (s!"{r.stmts.length} {showErr r.err} {r.iters} {r.log.length} {fin} {showStmts r.stmts}")
      | _, _ => some "bad-arg"
  | _ => some "bad-arg"

end DC.Model.StmtLoop
