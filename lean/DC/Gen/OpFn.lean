-- GENERATED from /repo/internal/explain/format.go (`OperatorToFunction`, `UnaryOperatorToFunction`). Do not edit.
-- (Hand-made placeholder until the translator emits it.)
namespace DC.Gen.OpFn

/-- every `case "op", …: return "fn"` of `OperatorToFunction`, in source order, as (op, fn);
the `default:` branch is `strings.ToLower(op)`. -/
def binOpFn : List (String × String) := [
  ("+", "plus"),
  ("-", "minus"),
  ("*", "multiply"),
  ("/", "divide"),
  ("DIV", "intDiv"),
  ("%", "modulo"),
  ("MOD", "modulo"),
  ("=", "equals"),
  ("==", "equals"),
  ("!=", "notEquals"),
  ("<>", "notEquals"),
  ("<", "less"),
  (">", "greater"),
  ("<=", "lessOrEquals"),
  (">=", "greaterOrEquals"),
  ("<=>", "isNotDistinctFrom"),
  ("AND", "and"),
  ("OR", "or"),
  ("||", "concat")
]

/-- every case of `UnaryOperatorToFunction`; the `default:` branch is `strings.ToLower(op)`. -/
def unaryOpFn : List (String × String) := [
  ("-", "negate"),
  ("NOT", "not")
]

end DC.Gen.OpFn
