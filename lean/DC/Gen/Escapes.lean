-- HAND-WRITTEN PLACEHOLDER in the format the extractor is to regenerate from /repo (see the C09 report). Do not edit by hand afterwards.
namespace DC.Gen.Escapes

/-- `lexer.go` readString, the `switch l.ch` after a backslash (lexer.go:502-526): one pair
`(code point of the case label, code point passed to sb.WriteRune)` per single-rune case, in source order.
The `case 'x'` arm (hex escape) and the `default` arm (keep backslash and rune) are structural and not listed. -/
def readStringEscapes : List (Nat × Nat) := [
  (39, 39),
  (34, 34),
  (92, 92),
  (110, 10),
  (116, 9),
  (114, 13),
  (48, 0),
  (97, 7),
  (98, 8),
  (102, 12),
  (118, 11),
  (101, 27)
]

/-- `internal/explain/format.go` escapeStringLiteral, the `switch b` (format.go:53-69): one pair
`(byte value of the case label, bytes of the string literal passed to sb.WriteString)` per case, in source order.
The `default` arm (sb.WriteByte(b)) is structural and not listed. -/
def explainEscapes : List (Nat × List Nat) := [
  (92, [92, 92, 92, 92]),
  (39, [92, 92, 92, 39]),
  (10, [92, 92, 110]),
  (9, [92, 92, 116]),
  (13, [92, 92, 114]),
  (0, [92, 92, 48]),
  (8, [92, 92, 98]),
  (12, [92, 92, 102])
]

/-- FormatLiteral, `case ast.LiteralString` (format.go:130): the bytes written before and after the escaped value
(`fmt.Sprintf("\\'%s\\'", s)`). -/
def explainStringOpen : List Nat := [92, 39]
def explainStringClose : List Nat := [92, 39]

end DC.Gen.Escapes
