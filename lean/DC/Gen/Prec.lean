-- GENERATED from /repo/parser/expression.go (the `iota` block "Operator precedence levels" and the
-- switch of `func (p *Parser) precedence`). Do not edit. (Hand-made placeholder until the translator emits it.)
namespace DC.Gen.Prec

-- the iota block, one `def` per constant with its value
def LOWEST : Nat := 0
def ALIAS_PREC : Nat := 1
def TERNARY_PREC : Nat := 2
def OR_PREC : Nat := 3
def AND_PREC : Nat := 4
def NOT_PREC : Nat := 5
def COMPARE : Nat := 6
def CONCAT_PREC : Nat := 7
def ADD_PREC : Nat := 8
def MUL_PREC : Nat := 9
def UNARY : Nat := 10
def CALL : Nat := 11
def HIGHEST : Nat := 12

/-- every `case token.X, …: return P` of `precedence()`, in source order, as (token number, value of P);
the `default:` branch is `precDefault`. -/
def precTable : List (Nat × Nat) := [
  (45, 1),    -- AS → ALIAS_PREC
  (135, 3),   -- OR → OR_PREC
  (40, 4),    -- AND → AND_PREC
  (129, 5),   -- NOT → NOT_PREC
  (13, 6),    -- EQ → COMPARE
  (14, 6),    -- NEQ → COMPARE
  (15, 6),    -- LT → COMPARE
  (16, 6),    -- GT → COMPARE
  (17, 6),    -- LTE → COMPARE
  (18, 6),    -- GTE → COMPARE
  (119, 6),   -- LIKE → COMPARE
  (103, 6),   -- ILIKE → COMPARE
  (147, 6),   -- REGEXP → COMPARE
  (104, 6),   -- IN → COMPARE
  (51, 6),    -- BETWEEN → COMPARE
  (113, 6),   -- IS → COMPARE
  (22, 6),    -- NULL_SAFE_EQ → COMPARE
  (97, 6),    -- GLOBAL → COMPARE
  (34, 2),    -- QUESTION → TERNARY_PREC
  (19, 7),    -- CONCAT → CONCAT_PREC
  (8, 8),     -- PLUS → ADD_PREC
  (9, 8),     -- MINUS → ADD_PREC
  (10, 9),    -- ASTERISK → MUL_PREC
  (11, 9),    -- SLASH → MUL_PREC
  (12, 9),    -- PERCENT → MUL_PREC
  (76, 9),    -- DIV → MUL_PREC
  (125, 9),   -- MOD → MUL_PREC
  (24, 11),   -- LPAREN → CALL
  (26, 11),   -- LBRACKET → CALL
  (81, 11),   -- EXCEPT → CALL
  (149, 11),  -- REPLACE → CALL
  (43, 11),   -- APPLY → CALL
  (21, 11),   -- COLONCOLON → CALL
  (31, 12),   -- DOT → HIGHEST
  (20, 3),    -- ARROW → OR_PREC
  (5, 0)      -- NUMBER → LOWEST
]

/-- the `default:` branch of `precedence()` -/
def precDefault : Nat := 0

end DC.Gen.Prec
