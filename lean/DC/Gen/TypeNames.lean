-- GENERATED from /repo/parser/parser.go (func (p *Parser) isDataTypeName). Do not edit.
-- (hand-written placeholder in the format the translator must regenerate: the string literals of the
--  `types := []string{…}` composite literal inside isDataTypeName, in source order, verbatim.)
namespace DC.Gen.TypeNames

/-- the upper-case names `isDataTypeName` compares `strings.ToUpper(name)` with. -/
def names : List String := [
  "INT", "INT8", "INT16", "INT32", "INT64", "INT128", "INT256",
  "UINT8", "UINT16", "UINT32", "UINT64", "UINT128", "UINT256",
  "FLOAT32", "FLOAT64", "FLOAT", "DOUBLE", "BFLOAT16",
  "DECIMAL", "DECIMAL32", "DECIMAL64", "DECIMAL128", "DECIMAL256", "DEC",
  "STRING", "FIXEDSTRING",
  "UUID", "DATE", "DATE32", "DATETIME", "DATETIME64",
  "ENUM", "ENUM8", "ENUM16",
  "ARRAY", "TUPLE", "MAP", "NESTED",
  "NULLABLE", "LOWCARDINALITY",
  "BOOL", "BOOLEAN",
  "IPV4", "IPV6",
  "NOTHING", "INTERVAL",
  "JSON", "OBJECT", "VARIANT",
  "AGGREGATEFUNCTION", "SIMPLEAGGREGATEFUNCTION",
  "POINT", "RING", "POLYGON", "MULTIPOLYGON",
  "TIME64", "TIME",
  "DYNAMIC",
  "QBIT"
]

end DC.Gen.TypeNames
