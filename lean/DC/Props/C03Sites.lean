import DC.Gen.NilReturns
import DC.Spec.AssumedNilReturns

/-!
# C03 — accepted input yields a usable AST: the regenerated nil-return obligations

Property text: "Whenever Parse returns a nil error for an input nested at most 1000 levels deep, every returned statement
is a real node: no returned statement is nil, no interface-typed field or list element anywhere in the tree holds a
typed-nil pointer, json.Marshal of each statement succeeds, and Explain/ExplainStatements return non-empty text without
panicking."

`DC.Gen.NilReturns` (regenerated from /repo by /verif/extract/nilreturns.go) lists every literal `return nil` of package
parser inside a function returning a pointer to an ast struct or an ast interface, classified `dominated-by-error`
(an error was recorded on the way: then Parse returns err ≠ nil and C03 says nothing), `propagates-nil` (a callee
returned nil; the callee's own returns are in the list) or `silent`.
* `silent_returns_reviewed`: the silent returns are exactly the hand-reviewed ones — a new bare `return nil`
  (the RENAME / EXCHANGE defect repaired in c58c9748a was two of these) breaks this theorem;
* `classes_known`, `fail_recorders`: the classification vocabulary and the helpers recognised as recording an error.
The Explain side of C03 (index / slice / assertion sites of internal/explain) is `DC.Props.C01Sites`.
TRUSTED: the translator's syntactic reading (header of nilreturns.go). Not covered: nil values other than literal
`return nil`, call sites that store a pointer result in an interface without a check (searched by `harness run --prop=C03`).
-/
namespace DC.Props.C03Sites
open DC.Gen.NilReturns

theorem classes_known :
    returns.all (fun r => ["dominated-by-error", "propagates-nil", "silent"].contains r.cls) = true := by decide +kernel

/-- the bool helpers whose `false` result is always preceded by `p.errors = append(p.errors, …)` -/
theorem fail_recorders : failRecorders = ["expect", "expectPeek"] := by decide

/-- The `return nil`s without a recorded error or a failed callee are exactly the reviewed ones. -/
theorem silent_returns_reviewed : silent.map (·.key) = DC.Spec.AssumedNilReturns.reviewed := by decide +kernel

/-- The pointer-returning parse functions that can return a literal nil are exactly the reviewed ones. -/
theorem pointer_nil_returns_reviewed :
    (returns.filter (fun r => r.result.startsWith "*")).map (·.func) = DC.Spec.AssumedNilReturns.pointerNil := by decide +kernel

/-! non-vacuity and the expectation tests of the translator -/

example : returns.length ≥ 40 := by decide +kernel
example : (returns.filter (fun r => r.cls == "dominated-by-error")).length ≥ 20 := by decide +kernel
/-- the two returns of the repaired defect (c58c9748a) are now dominated by a recorded error -/
example : (returns.filter (fun r => r.func == "parser.Parser.parseRename")).map (·.cls) = ["dominated-by-error"] := by
  decide +kernel
example : (returns.filter (fun r => r.func == "parser.Parser.parseExchange")).map (·.cls) =
    ["dominated-by-error", "dominated-by-error"] := by decide +kernel

end DC.Props.C03Sites
