import DC.Spec.KeywordTable

/-!
# C17 — keywords stay usable as names, and the keyword table is consistent

Property text (table half): "Every keyword token has a unique, non-empty upper-case spelling, is found by Lookup from that
spelling (and from no other), and is classified by IsKeyword".

The table `DC.Gen.Tokens` is regenerated from the running `token` package on every check, so the theorems below are
re-decided by the kernel (`decide +kernel`, no `native_decide`) for whatever the table says today — including keywords
added later. The lifted statements quantify over *all* token numbers and *all* strings.
The naming half ("accepted as a column name after a dot, as a column alias after AS and as a table alias after AS, and appears
with the user's spelling in EXPLAIN") is decided exhaustively over the same table × letter-case variants on the real parser
(harness p_c17.go); its lexer part is `DC.Props.C17Lex` (keyword_case) once the lexer model is in place.
-/
namespace DC.Props.C17
set_option maxRecDepth 100000
open DC.Gen.Tokens DC.Spec.KeywordTable

theorem keywords_interval : isInterval kwLo kwHi = true := by decide +kernel

/-- Lifted: `IsKeyword k ↔ keyword_beg < k < keyword_end` for every token number of the table. -/
theorem isKeyword_iff (k : Nat) (hk : k < count) : isKeyword k = true ↔ kwLo < k ∧ k < kwHi := by
  have h := List.all_eq_true.mp keywords_interval k (List.mem_range.mpr hk)
  simp only [beq_iff_eq] at h
  rw [h]; simp

theorem spellings_ok : spellingsOk = true := by decide +kernel
theorem spellings_distinct : spellingsDistinct = true := by decide +kernel
theorem lookup_finds : lookupFinds = true := by decide +kernel
theorem lookup_agrees_with_code : lookupAgrees = true := by decide +kernel
theorem map_exact : mapExact = true := by decide +kernel

theorem tbl_size : isKeywordTbl.size = count := by decide +kernel

/-- token numbers outside the table are not keywords (`IsKeyword` is false above `keyword_end`). -/
theorem isKeyword_lt (k : Nat) (hk : isKeyword k = true) : k < count := by
  by_cases h : k < count
  · exact h
  · have h' : isKeywordTbl.size ≤ k := by rw [tbl_size]; omega
    have : isKeyword k = false := by
      unfold isKeyword
      rw [Array.getD_eq_getD_getElem?, Array.getElem?_eq_none h']
      rfl
    rw [this] at hk
    cases hk

/-- Lifted: every keyword token (any number) has a non-empty upper-case spelling and `Lookup` of it returns the token. -/
theorem keyword_spelling (k : Nat) (hk : isKeyword k = true) :
    spellingOf k ≠ "" ∧ isUpperSpelling (spellingOf k) = true ∧ lookup (spellingOf k) = k := by
  have hlt : k < count := isKeyword_lt k hk
  have hmem : k ∈ keywordTokens := by
    simp [keywordTokens, List.mem_filter, List.mem_range, hlt, hk]
  have h1 := List.all_eq_true.mp spellings_ok k hmem
  have h2 := List.all_eq_true.mp lookup_finds k hmem
  simp only [Bool.and_eq_true, bne_iff_ne, ne_eq, beq_iff_eq] at h1 h2
  exact ⟨h1.1, h1.2, h2⟩

/-- Lifted: `Lookup` returns a keyword only for that keyword's own spelling ("and from no other"), for every string. -/
theorem lookup_only_spelling (s : String) (hk : isKeyword (lookup s) = true) : s = spellingOf (lookup s) := by
  unfold lookup at hk ⊢
  cases hf : keywords.find? (fun p => p.1 == s) with
  | none =>
    rw [hf] at hk
    have : isKeyword tIDENT = false := by decide +kernel
    simp [this] at hk
  | some p =>
    have hp := List.find?_some hf
    have hmem := List.mem_of_find?_eq_some hf
    have hme := List.all_eq_true.mp (by
      have := map_exact
      simp only [mapExact, Bool.and_eq_true] at this
      exact this.1.1) p hmem
    simp only [Bool.and_eq_true, beq_iff_eq] at hme hp
    simp [hme.2, ← hp]

/-- Lifted: two keywords with the same spelling are the same token. -/
theorem spelling_injective (a b : Nat) (ha : isKeyword a = true) (hb : isKeyword b = true)
    (h : spellingOf a = spellingOf b) : a = b := by
  have := (keyword_spelling a ha).2.2
  rw [h, (keyword_spelling b hb).2.2] at this
  exact this.symm

/-- non-vacuity: SELECT is a keyword of today's table, `select` (lower case) is not a spelling. -/
example : isKeyword tSELECT = true ∧ spellingOf tSELECT = "SELECT" ∧ lookup "SELECT" = tSELECT ∧ lookup "select" = tIDENT := by
  decide +kernel

end DC.Props.C17
