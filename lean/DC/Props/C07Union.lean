import DC.Proofs.UnionGroup

/-!
# C07 (with C10 / C11) — the UNION regrouping of the EXPLAIN printer

Property text (C07): "The EXPLAIN rendering of a query is the same, up to indentation, wherever the query is embedded …".
Property text (C11): "Explain … does not modify the AST it is given; explaining the same AST again gives the same text".

`DC.Model.UnionGroup` models `expandNestedUnions`, `groupSelectsByUnionMode`, `simplifyUnionSelects` and their use in
`explainSelectWithUnionQuery` (internal/explain/select.go) as PURE functions of the parsed shape
`U = sel id | union kids modes`. Purity itself — the Go functions never write into `n.Selects` / `n.UnionModes` or into a
slice sharing their array — is the regenerated write / alias-append inventory of C10/C11 (`no_shared_writes`,
`explain_writes_nothing`), not a theorem of this file. Under it:

* `group_preserves_selects`, `expand_preserves_selects`, `regroup_preserves_selects`: regrouping never drops,
  duplicates or reorders a SELECT — for ALL shapes and mode lists (also ill-formed ones).
* `group_idempotent`: regrouping the result of `groupSelectsByUnionMode` under the modes that belong to it changes
  nothing (the LAST non-ALL→ALL step is consumed, none is left). `expand_not_idempotent`: `expandNestedUnions` is NOT
  idempotent (a decided counterexample) — which is why `render` has to re-run it on every nested node as the Go code does.
* `expand_all_flat`, `render_all_flat`: if every nested union has only ALL modes (and one-operand parentheses hold plain
  selects), the result is the flat list of leaves; `expand_all_flat_needs_no_singleton` shows the side condition is needed.
* `group_no_panic`: with at most as many modes as selects (what the parser builds) no slice expression is out of range.
* `known_finding_pinned_to_parser`: the recorded finding `embed@nested-union-first-operand`. The text
  `(SELECT 2 UNION DISTINCT SELECT 3) UNION ALL SELECT 1` has TWO parse shapes: `parseParenthesizedSelect` (statement
  level, parser.go:7919) copies the inner selects and KEEPS the inner modes, `parseSelectWithUnion` (inside parentheses /
  FROM / EXISTS / views, parser.go:697) copies the inner selects and DROPS the inner modes. The model renders the first
  nested and the second flat, and renders the faithful shape (inner union kept as an operand) like the first: the
  difference is made by the parser's two shapes, the printer is a function of the shape.

Tie to the code: pins on the three Go functions + `explainSelectWithUnionQuery`; correspondence `uniongroup`
(harness `c07UnionCorrespondence`: random union statements, nested parentheses to depth 3, the PARSED Selects/UnionModes are
encoded for the model and the model's shape is compared with the nesting of the real `parser.Explain` text).
-/
namespace DC.Props.C07Union
open DC.Model.UnionGroup

/-! ## (a) no SELECT is dropped, duplicated or reordered -/

theorem group_preserves_selects (sels : List U) (modes : List Mode) :
    leavesL (group sels modes) = leavesL sels := leavesL_group sels modes

theorem expand_preserves_selects (sels : List U) (modes : List Mode) :
    leavesL (expand sels modes).1 = leavesL sels := leavesL_expandFrom modes 0 sels

/-- the whole regrouped rendering (expand, group, and again inside every nested node, to any depth) -/
theorem regroup_preserves_selects (f : Nat) (u : U) (sh : Shape) (h : render f u = .ok sh) :
    sh.leaves = u.leaves := render_leaves f u sh h

example : (group [.sel 1, .sel 2, .sel 3, .sel 4] [.distinct, .all, .all]).length = 3 := by decide
example : leavesL (group [.sel 1, .sel 2, .sel 3, .sel 4] [.distinct, .all, .all]) = [1, 2, 3, 4] := by decide

/-! ## (b) stability -/

/-- `groupSelectsByUnionMode` applied to its own result, with the modes that stand between the result's elements
(`groupModes`: the operator before `selects[idx+1]` is `modes[idx]` …), returns it unchanged. -/
theorem group_idempotent (sels : List U) (modes : List Mode) :
    group (group sels modes) (groupModes sels modes) = group sels modes := group_groupModes sels modes

/-- non-vacuous: a case where the first application does regroup -/
example : group [.sel 1, .sel 2, .sel 3, .sel 4] [.bare, .all, .distinct] =
    [.union [.sel 1, .sel 2] [.bare], .sel 3, .sel 4] ∧
    groupModes [.sel 1, .sel 2, .sel 3, .sel 4] [.bare, .all, .distinct] = [.all, .distinct] := by decide

/-- only the LAST step is grouped by one call; the earlier one is found when the nested node is rendered -/
example : explainShape (.union [.sel 1, .sel 2, .sel 3, .sel 4, .sel 5] [.distinct, .all, .distinct, .all]) =
    .ok (.node [.node [.node [.leaf 1, .leaf 2], .leaf 3, .leaf 4], .leaf 5]) := by decide

/-- what an element is: `id + 1` for a select, 0 for a union -/
def tagU : U → Nat
  | .sel id => id + 1
  | .union _ _ => 0

/-- `expandNestedUnions` is not idempotent: it dissolves `(S1 ∪D S2 ∪A S3)` into `[(S1 ∪D S2), S3]`, and a second pass
dissolves the two-operand union too (a nested non-ALL union with fewer than 3 operands "groups" into its own operands,
`len(grouped) > 1`, select.go:722). -/
theorem expand_not_idempotent :
    let e1 := expand [.union [.sel 1, .sel 2, .sel 3] [.distinct, .all]] []
    let e2 := expand e1.1 e1.2
    e1.1.map tagU = [0, 4] ∧ e2.1.map tagU = [2, 3, 4] := by decide

/-! ## (c) all-ALL unions flatten -/

/-- If every nested union has only ALL modes (and a one-operand union holds a plain select), `expandNestedUnions` returns
the flat list of leaves — whatever the outer modes are. -/
theorem expand_all_flat (sels : List U) (modes : List Mode) (h : flattenableL sels = true) :
    (expand sels modes).1 = (leavesL sels).map U.sel := expandFrom_flat modes 0 sels h

/-- … and the rendering of such a union whose own modes are all ALL too is ONE flat ExpressionList of its selects
(`SELECT 1 UNION ALL (SELECT 2 UNION ALL (SELECT 3 …))` renders like the unparenthesised chain), for any fuel ≥ 2. -/
theorem render_all_flat (f : Nat) (kids : List U) (modes : List Mode) (hm : allModesAreAll modes = true)
    (hk : flattenableL kids = true) :
    render (f + 2) (.union kids modes) = .ok (.node ((leavesL kids).map Shape.leaf)) := render_flat f kids modes hm hk

theorem expand_all_flat_no_panic (sels : List U) (h : flattenableL sels = true) : expandPanics sels = false :=
  expandPanics_flat sels h

/-- the side condition is needed: `((S1 ∪A S2))` as a one-operand union is replaced by its operand, unexpanded -/
theorem expand_all_flat_needs_no_singleton :
    (expand [.union [.union [.sel 1, .sel 2] [.all]] []] []).1 = [.union [.sel 1, .sel 2] [.all]] := by decide

example : flattenableL [.sel 1, .union [.sel 2, .union [.sel 3, .sel 4] [.all], .union [.sel 5] []] [.all, .all]] = true := by decide
example : (expand [.sel 1, .union [.sel 2, .union [.sel 3, .sel 4] [.all], .union [.sel 5] []] [.all, .all]] [.distinct]).1
    = [.sel 1, .sel 2, .sel 3, .sel 4, .sel 5] := by decide

/-! ## no panic on the parser's shapes -/

theorem group_no_panic (sels : List U) (modes : List Mode) (h : modes.length ≤ sels.length) :
    groupPanics sels modes = false := groupPanics_false_of_le sels modes h

/-- the model's panic outcome is reachable only with more modes than selects -/
example : groupPanics [.sel 1, .sel 2, .sel 3] [.all, .all, .distinct, .all] = true := by decide

/-! ## (d) the known finding, pinned to the parser's two shapes -/

/-- mode strings as the parser writes them -/
def mode (s : String) : Mode := Mode.ofBytes (bytesOf s)

example : [mode "UNION ALL", mode "UNION DISTINCT", mode "UNION ", mode "ALL", mode "DISTINCT", mode "",
    mode "EXCEPT ALL", mode "INTERSECT ALL", mode "EXCEPT ", mode "UNION ALLX"] =
    [.all, .distinct, .bare, .all, .distinct, .bare, .bare, .bare, .bare, .bare] := by decide

/-- `(SELECT 2 UNION DISTINCT SELECT 3) UNION ALL SELECT 1` as `parseParenthesizedSelect` builds it (statement level):
`query.Selects = inner.Selects…`, `query.UnionModes = inner.UnionModes` then `append(…, "ALL")` -/
def shapeStatementLevel : U := .union [.sel 2, .sel 3, .sel 1] [mode "UNION DISTINCT", mode "ALL"]

/-- the same text as `parseSelectWithUnion` builds it (inside parentheses, FROM (…), EXISTS, CREATE VIEW …):
`firstWasParenthesized` copies `nested.Selects` and forgets `nested.UnionModes`; then `"UNION ALL"` is appended -/
def shapeInParentheses : U := .union [.sel 2, .sel 3, .sel 1] [mode "UNION ALL"]

/-- the shape that keeps what was written (the inner union as an operand) -/
def shapeFaithful : U := .union [.union [.sel 2, .sel 3] [mode "UNION DISTINCT"], .sel 1] [mode "UNION ALL"]

theorem known_finding_pinned_to_parser :
    explainShape shapeStatementLevel = .ok (.node [.node [.leaf 2, .leaf 3], .leaf 1]) ∧
    explainShape shapeInParentheses = .ok (.node [.leaf 2, .leaf 3, .leaf 1]) ∧
    shapeStatementLevel.leaves = shapeInParentheses.leaves := by decide

/-- … while a mixed-mode union as a LATER operand (kept nested by every parse function) is dissolved by
`expandNestedUnions` in both contexts alike -/
example : explainShape (.union [.sel 1, .union [.sel 2, .sel 3] [mode "UNION DISTINCT"]] [mode "UNION ALL"]) =
    .ok (.node [.leaf 1, .leaf 2, .leaf 3]) := by decide

/-- the printer on the faithful shape: also flat. So on this text the statement-level rendering (nested) is the odd one
out, and it is produced by the statement-level parse shape alone. -/
example : explainShape shapeFaithful = .ok (.node [.leaf 2, .leaf 3, .leaf 1]) := by decide

end DC.Props.C07Union
