import DC.Props.C02
import DC.Proofs.SkelCost
set_option maxRecDepth 100000

/-!
# C02 — the LINEAR bound for the skeleton program (item (1) of "NOT proved" in `DC/Props/C02.lean`)

Property text (fixed): "… Parse returns after a number of parser steps bounded by a fixed multiple of the number of
tokens in the input …".

## What is proved

`DC.Model.Skel.ExecN` (in `DC/Proofs/SkelCost.lean`) is the big-step semantics `Exec` of the skeleton language with a
step counter `n` — one unit per skeleton command executed: every `next` (cursor advance), every `assume` (primitive
test), every call (`callF`, and `call` for code not looked into), every `seq`/`alt`/`block`/`guard` node, every
`cont`/`ret`/`jump`, and one unit per loop iteration (each back edge, and the iteration that leaves) — and a second
counter `s`: the number of STUCK iterations (back edge reached with the cursor where it was when the iteration began) of
the loops in `takenFinite`.  `ExecN` has exactly the runs of `Exec` (`counted_runs_are_the_runs`).

* `steps_charged`: EVERY run of EVERY function of the skeleton program `DC.Gen.Loops.prog`, from token index `i` to
  token index `j`, satisfies `n ≤ stepsPerToken · (j - i) + stepsPerFrame · (s + 1)`, where
  `stepsPerFrame = Mc prog maxRank` and `stepsPerToken = (maxRank + 2) · stepsPerFrame` are closed terms evaluated
  from the regenerated data (values below).  No hypothesis about the run: the stuck iterations of the `takenFinite`
  loops are counted, not assumed away.  Certified loops contribute nothing to `s` (`loop_progress`).
* `steps_charged_cmd`: the same for any sub-command activation (one loop activation, one call, one branch) inside a
  function body: `n ≤ stepsPerToken · (tokens it consumes) + b1 c + stepsPerFrame · s` with `b1 (loop c) = 2·b1 c + 2`,
  `b1 (callF g) = Dn g + 1` — "a loop activation costs (bound of its body) × (tokens it consumes + 1)", with calls.
* `linear_steps_partial`: hence, for a run in which the `takenFinite` loops perform at most `K` stuck iterations per
  (token consumed + 1), `n ≤ stepsPerToken · (K + 1) · (j - i + 1)`: linear in the tokens consumed.
* `linear_steps_from_partial`: with `terminates_partial`: from every index `i ≤ ks.length` every function terminates
  and every run ends at some `j ≤ ks.length` after `n ≤ stepsPerToken · (ks.length - i + 1 + s)` steps.

The proof is the charging argument announced in `DC/Props/C02.lean`, by induction on the counted derivation (module
comment of `DC/Proofs/SkelCost.lean`): a loop iteration that reaches the back edge has advanced (`loop_progress`) and is
paid by a token it consumed; a call entered before the caller advanced goes down in rank (`all_ranks_check`), so the
first token consumed in a frame is shared by at most `maxRank + 1` callers entered at the same index
(`nonadvancing_depth_bounded`) plus the current frame — hence the factor `maxRank + 2`; a call that does not advance
costs at most the table `Dtab prog r` of its rank level.  It uses only the kernel-evaluated facts of `DC/Props/C02.lean`
(`all_contracts_check`, `all_ranks_check`, `all_function_loops_covered`) and `ranks_le_maxRank` below.

## What is assumed (assumptions about Go, not consequences of the model)

* The same as in `terminates_partial`, stated the same way: the parameter `fun c => isTakenFinite c = true` — the 8
  `range`, 3 `counted`, 3 `counter` and 2 reviewed loops have no progress certificate over the token stream.  Their
  iterations that do consume a token are charged like any other; those that do not are what `s` counts.
* `hK` of `linear_steps_partial`: a bound on `s`.  The skeleton does not know slice lengths, so nothing in the model
  bounds the trip count of `for … range x`.  A bound "trip count ≤ n + 1 per activation" would NOT give a linear total
  (a loop activated once per token could then cost `n²`); what the charging argument needs, and what holds in the Go
  code for a reason outside the model, is a bound on the TOTAL number of non-consuming iterations: the slices ranged
  over (`Selects`, `TTL.Elements`, lambda parameters, …) were filled while consuming at least one token per element,
  the constant tables (`isDataTypeName`) have fixed length and are consulted a bounded number of times per token, the
  reviewed parenthesis-depth loop has at most one such iteration per activation.  `steps_charged` itself needs no such
  assumption.
* `call` (code of other packages, `verifTick`) is taken to terminate and to cost one unit; the lexer pump inside
  `nextToken` is not part of the count (`next` is one unit; the pump is the reviewed loop of `DC.Spec.AssumedLoops`,
  linear by C12).

## What remains

(3) the memory half of the property; (4) the two reviewed loops; (5) the correspondence skeleton ↔ Go source (by
construction of the translator, validated dynamically, not proved) — so "parser steps" here are skeleton commands, and
one skeleton command stands for a bounded amount of straight-line Go code.  The constant is what the proof yields, not
a calibrated one (the search side measures the real steps per token).
-/

namespace DC.Props.C02Cost
open DC.Model.Skel DC.Gen.Loops DC.Props.C02

/-- OBLIGATION (regenerated, kernel-evaluated): no rank exceeds `maxRank` -/
theorem ranks_le_maxRank : ranksLe ranks maxRank = true := by decide +kernel

/-- what one frame can spend per token: the largest cost bound `b1` of a function body, a call of `g` counted with the
    bound `Dn prog maxRank g` of a call that does not advance -/
def stepsPerFrame : Nat := Mc prog maxRank

/-- **the constant** `c`: skeleton commands per token, `(maxRank + 2) · stepsPerFrame` -/
def stepsPerToken : Nat := Ac prog maxRank

theorem stepsPerToken_eq : stepsPerToken = (maxRank + 2) * stepsPerFrame := by
  unfold stepsPerToken stepsPerFrame Ac; exact rfl

-- values for the current data: `(maxRank, stepsPerFrame, stepsPerToken)`
#eval (maxRank, stepsPerFrame, stepsPerToken)

/-- the cost semantics has exactly the runs of the skeleton semantics -/
theorem counted_runs_are_the_runs {ks : List Nat} {c i o j} :
    Exec prog ks c i o j ↔ ∃ n s, ExecN prog ks (fun c => isTakenFinite c = true) c i o j n s :=
  ⟨fun h => h.execN _, fun ⟨_, _, h⟩ => h.exec⟩

/-- **Charging theorem.**  Every run of every parser function's skeleton from token index `i` to `j` executes at most
    `stepsPerToken` commands per token consumed, plus `stepsPerFrame` per stuck iteration of a `takenFinite` loop, plus
    `stepsPerFrame`. -/
theorem steps_charged {ks : List Nat} (hks : WF ks) {f i o j n s}
    (h : ExecN prog ks (fun c => isTakenFinite c = true) (prog.body f) i o j n s) :
    n ≤ stepsPerToken * (j - i) + stepsPerFrame * (s + 1) :=
  cost_fun contracts_checked hks ranks_checked (loopsCert_all all_function_loops_covered) ranks_le_maxRank h

/-- the same for one activation of a sub-command `c` of the body of `f` (a loop, a call, a branch): `st` is the abstract
    state of the analysis at `c` relative to the entry `i0` of `f`, as in `term_cmd` -/
theorem steps_charged_cmd {ks : List Nat} (hks : WF ks) {c j o k n s}
    (h : ExecN prog ks (fun c => isTakenFinite c = true) c j o k n s)
    {f i0 st} (hd : Desc ks i0 j st) (hlc : loopsCert prog isTakenFinite c = true)
    (hs : ∀ p ∈ sites prog c st, siteOK ranks f p = true) (hM : b1 (Dn prog maxRank) c ≤ stepsPerFrame) :
    n ≤ stepsPerToken * (k - j) + b1 (Dn prog maxRank) c + stepsPerFrame * s :=
  cost_cmd_simple contracts_checked hks ranks_checked (loopsCert_all all_function_loops_covered) ranks_le_maxRank
    h hd hlc hs hM

/-- **Linear bound (partial w.r.t. the property: see the module comment).**  A run of a parser function's skeleton from
    token index `i` to `j` in which the `takenFinite` loops perform at most `K` stuck iterations per (token consumed + 1)
    — `hK`, an assumption about Go — costs at most `stepsPerToken · (K + 1)` commands per (token consumed + 1).

    Full statement wanted by the property (not proved): the same for the Go function `Parse`, counting Go steps, without
    `hK`, and with the memory bound. -/
theorem linear_steps_partial {ks : List Nat} (hks : WF ks) {f i o j n s} (K : Nat)
    (h : ExecN prog ks (fun c => isTakenFinite c = true) (prog.body f) i o j n s)
    (hK : s ≤ K * (j - i + 1)) :
    n ≤ stepsPerToken * (K + 1) * (j - i + 1) := by
  have h1 := cost_fun' contracts_checked hks ranks_checked (loopsCert_all all_function_loops_covered)
    ranks_le_maxRank h
  have h2 : j - i + 1 + s ≤ (K + 1) * (j - i + 1) := by
    rw [Nat.add_mul, Nat.one_mul]; omega
  calc n ≤ Ac prog maxRank * (j - i + 1 + s) := h1
    _ ≤ Ac prog maxRank * ((K + 1) * (j - i + 1)) := Nat.mul_le_mul_left _ h2
    _ = stepsPerToken * (K + 1) * (j - i + 1) := by rw [Nat.mul_assoc]; rfl

/-- **Termination with a step bound in the length of the input.**  From every token index `i` of a stream of
    `ks.length` tokens every function terminates (`terminates_partial`), and every run ends at an index `j ≤ ks.length`
    having executed at most `stepsPerToken · (ks.length - i + 1 + s)` commands, `s` the number of stuck iterations of the
    `takenFinite` loops in that run. -/
theorem linear_steps_from_partial {ks : List Nat} (hks : WF ks) (f i : Nat) (hi : i ≤ ks.length) :
    Term prog ks (fun c => isTakenFinite c = true) (prog.body f) i ∧
    ∀ o j n s, ExecN prog ks (fun c => isTakenFinite c = true) (prog.body f) i o j n s →
      j ≤ ks.length ∧ n ≤ stepsPerToken * (ks.length - i + 1 + s) := by
  refine ⟨terminates_partial hks f i hi, ?_⟩
  intro o j n s h
  have hj := exec_le_len h.exec hi
  refine ⟨hj, ?_⟩
  have h1 := cost_fun' contracts_checked hks ranks_checked (loopsCert_all all_function_loops_covered)
    ranks_le_maxRank h
  exact Nat.le_trans h1 (Nat.mul_le_mul_left _ (by omega))

/-! ## non-vacuity -/

/-- the constant is not zero (every command executed costs one unit, so a zero constant would be a vacuous theorem) -/
example : 0 < stepsPerFrame ∧ stepsPerFrame ≤ stepsPerToken := ⟨Mc_pos _, Mc_le_Ac _⟩

/-- A small skeleton program satisfying every hypothesis of the general theorem `cost_fun`:
    `F0 = for cur == COMMA { next }` (certified), `F1 = F0(); for range … { }` (a loop with no certificate, in `isA0`). -/
def P0 : Prog where
  funs := #[.block 1 (.loop (.alt (.seq (.assume (mk [DC.Gen.Tokens.tCOMMA])) .next) (.jump 1))),
            .seq (.callF 0 .unk) (.block 2 (.loop (.alt .skip (.jump 2))))]
  adv := #[0, 0]
  tset := #[ALL, ALL]
  fset := #[ALL, ALL]

def ranks0 : Array RankTbl := #[[(ALL, 0)], [(ALL, 1)]]
def isA0 (c : Cmd) : Bool := c == .alt .skip (.jump 2)

theorem P0_contracts : progOK P0 = true ∧ P0.sized = true := by decide +kernel
theorem P0_ranks : (List.range P0.funs.size).all (rankOK P0 ranks0) = true := by decide +kernel
theorem P0_loops : (List.range P0.funs.size).all (fun f => loopsCert P0 isA0 (P0.body f)) = true := by decide +kernel
theorem P0_rankBound : ranksLe ranks0 1 = true := by decide +kernel

/-- a concrete run of `F1` on the stream `,`: 18 commands, one token consumed, one stuck iteration of the uncertified loop -/
theorem P0_run : ExecN P0 [DC.Gen.Tokens.tCOMMA] (fun c => isA0 c = true) (P0.body 1) 0 .norm 1 18 1 :=
  ExecN.cast
    (.seqN
      (.callF (v := .unk) (.blockJ (.loopIter (.altL (.seqN (.assume (by decide +kernel)) .next)) (Or.inl rfl)
        (Or.inl (by decide)) (.loopExit (.altR .jump) (by simp) (by simp)))) trivial)
      (.blockJ (.loopStuck (.altL .skip) (Or.inl rfl) (by decide) (.loopExit (.altR .jump) (by simp) (by simp)))))
    rfl rfl

/-- … and what the theorem says about it: `18 ≤ Ac · 1 + Mc · 2` with `Mc P0 1 = 15`, `Ac P0 1 = 45` -/
example : (18 : Nat) ≤ Ac P0 1 * (1 - 0) + Mc P0 1 * (1 + 1) :=
  cost_fun (progOK_all P0_contracts.2 P0_contracts.1) (by intro k hk; simp at hk; subst hk; decide)
    (rankOK_all P0_ranks) (loopsCert_all P0_loops) P0_rankBound P0_run

example : Mc P0 1 = 15 ∧ Ac P0 1 = 45 := by decide +kernel

/-- the hypotheses of `steps_charged` are satisfiable for the regenerated program itself: a well-formed stream and a run
    of a function body with positive cost (the body of an index out of range is `skip`; runs of real bodies exist by
    `counted_runs_are_the_runs` wherever `Exec` has one) -/
example : ∃ f o j n s, ExecN prog [] (fun c => isTakenFinite c = true) (prog.body f) 0 o j n s ∧ 0 < n := by
  refine ⟨prog.funs.size, .norm, 0, 1, 0, ?_, by decide⟩
  have hb : prog.body prog.funs.size = .skip := by
    unfold Prog.body; rw [Array.getD_eq_getD_getElem?, Array.getElem?_eq_none (Nat.le_refl _)]; rfl
  rw [hb]; exact .skip

/-- `s` is not idle: without counting the stuck iterations no bound in the tokens alone can hold for an uncertified
    loop — `for range … { }` runs any number of iterations on the empty stream -/
example : ∀ m, ∃ n s, ExecN P0 [] (fun c => isA0 c = true) (.loop (.alt .skip (.jump 2))) 0 (.jump 2) 0 n s ∧ m ≤ s := by
  intro m
  induction m with
  | zero => exact ⟨_, _, .loopExit (.altR .jump) (by simp) (by simp), Nat.le_refl _⟩
  | succ m ih =>
    obtain ⟨n, s, h, hs⟩ := ih
    exact ⟨_, _, .loopStuck (.altL .skip) (Or.inl rfl) (by decide) h, by omega⟩

end DC.Props.C02Cost
