import DC.Gen.ReaderUse
import DC.Gen.Writes
import DC.Proofs.StmtLoopToy

/-!
# C06 — statements in a script are independent

> Parsing a script 's1; s2; ...; sn' of valid statements yields exactly the statements obtained by
> parsing each si on its own, in the same order and with identical EXPLAIN output; nothing carries
> over from one statement to the next. Semicolons inside string literals, quoted identifiers and
> comments never split a statement, and empty statements between semicolons are ignored.

What is proved (over `DC.Model.StmtLoop`, the line-by-line model of `ParseStatements`,
parser/parser.go:152-195, with an ABSTRACT element parser `parseStmt`):

* `script_independent`: if every `sᵢ` is *self-contained* for `parseStmt` with result `stᵢ`
  (`SelfContained`: started on `sᵢ` followed by the end of input or by a `;` and ANYTHING, it
  returns `stᵢ`, stops exactly in front of that continuation and reports no error), then the
  loop run on `lead s₁ sep₁ s₂ sep₂ … sₙ sepₙ` — `lead`, `sepₙ` any number (also zero) of `;`
  tokens, `sep₁ … sepₙ₋₁` one or more — returns exactly `[st₁, …, stₙ]`, no error, and stops at
  EOF; for every `n ≥ 0`. The loop itself keeps no state between statements except the window.
* `single_statement`: the case n = 1 without separators — "parsing `sᵢ` on its own" gives `[stᵢ]`,
  so the script's result is the concatenation of the single results.
* `empty_statements_ignored`: two scripts with the same statements and different numbers of
  semicolons before / between / after them give the same statements.
* `leading_semicolons_ignored`: for ANY element parser with `Progress` (self-contained or not),
  semicolons in front of a script change nothing. (Semicolons *between* statements are skipped by
  the same loop, but whether the statement in front of them is parsed the same way with one or
  with three `;` behind it is a fact about `parseStmt` — hence `SelfContained` above.)

What is NOT proved here, and why:

* that the real `parseStatement` is self-contained on valid statements. Its window holds a THIRD
  look-ahead token (`peekPeek`, parser.go:42) which, when `sᵢ` ends within two tokens of the `;`,
  shows the first token of `sᵢ₊₁`; and the lexer looks at raw bytes past the `;`
  (`Peek(32)`, `Peek(8192)`). The hypothesis `SelfContained` isolates exactly that. It is covered
  by the search `p_c06.go` (real `Parse` on joined scripts vs each statement alone: count, order,
  `Explain` text), not by proof.
* that `;` inside string literals / quoted identifiers / comments yields no SEMICOLON token: that
  is a lexer fact (lemmas `string_body_opaque`, `quoted_ident_opaque`, `comment_opaque` of the
  lexer model) and is part of the same search.
* `Explain` is a function of the statement value (`stᵢ`) — equal statements explain equally; that
  Explain reads no other state is C11's subject.
-/

namespace DC.Props.C06

open DC.Model.StmtLoop

variable {σ ε : Type} (ps : StmtParser σ ε) (mkPar : List σ → σ)

/-- **Scripts of self-contained statements.** -/
theorem script_independent (items : List (Item σ)) (lead : List Tok) (hlead : AllSemis lead)
    (hitems : ∀ it ∈ items, StartsStmt it.toks ∧ SelfContained ps it.toks it.st)
    (hsep : WellSeparated items) :
    (run ps mkPar none noCancel (lead ++ joinScript items)).stmts = items.map (·.st) ∧
    (run ps mkPar none noCancel (lead ++ joinScript items)).err = ErrKind.none ∧
    (run ps mkPar none noCancel (lead ++ joinScript items)).final.current = none ∧
    (run ps mkPar none noCancel (lead ++ joinScript items)).fuelOut = false := by
  have hn := nscript_join ps items hitems hsep
  have hd : dropSemis (lead ++ joinScript items) = joinScript items := by
    rw [dropSemis_append_allSemis _ _ hlead, NScript.dropSemis_eq ps hn]
  have hlen : (items.map (·.st)).length < (lead ++ joinScript items).length + 1 := by
    have := NScript.length_le ps hn
    simp at this ⊢; omega
  have h := loop_script ps mkPar (l := lead ++ joinScript items) (by rw [hd]; exact hn)
    ((lead ++ joinScript items).length + 1) 0 [] ([] : List ε) [] hlen
  obtain ⟨h1, h2, h3, h4, h5⟩ := h
  unfold run
  rw [new_eq_ofList]
  refine ⟨by simpa [finish] using h1, ?_, by simpa [finish, Window.atEOF] using h5,
    by simpa [finish] using h4⟩
  simp only [finish]
  rw [h3, h2]
  rfl

/-- A self-contained statement parsed on its own. -/
theorem single_statement (s : List Tok) (st : σ) (hs : StartsStmt s) (hsc : SelfContained ps s st) :
    (run ps mkPar none noCancel s).stmts = [st] ∧ (run ps mkPar none noCancel s).err = ErrKind.none := by
  have h := script_independent ps mkPar [⟨s, st, []⟩] [] (by intro t ht; cases ht)
    (by intro it hit; simp at hit; subst hit; exact ⟨hs, hsc⟩) (by intro t ht; cases ht)
  simp only [joinScript, List.append_nil, List.nil_append, List.map_cons, List.map_nil] at h
  exact ⟨h.1, h.2.1⟩

/-- The script's result is the concatenation, in order, of the results of its statements parsed
alone (what the property says literally). -/
theorem script_is_concat_of_singles (items : List (Item σ)) (lead : List Tok) (hlead : AllSemis lead)
    (hitems : ∀ it ∈ items, StartsStmt it.toks ∧ SelfContained ps it.toks it.st)
    (hsep : WellSeparated items) :
    (run ps mkPar none noCancel (lead ++ joinScript items)).stmts =
      items.flatMap (fun it => (run ps mkPar none noCancel it.toks).stmts) := by
  rw [(script_independent ps mkPar items lead hlead hitems hsep).1]
  induction items with
  | nil => rfl
  | cons it r ih =>
    have h1 := (single_statement ps mkPar it.toks it.st (hitems it (by simp)).1 (hitems it (by simp)).2).1
    have hsep' : WellSeparated r := by
      cases r with
      | nil => trivial
      | cons it' r' => exact hsep.2.2
    rw [List.map_cons, List.flatMap_cons, h1, ih (fun x hx => hitems x (by simp [hx])) hsep']
    rfl

/-- **Empty statements are ignored**: the number of `;` before, between and after the statements
does not matter (as long as consecutive statements are separated by at least one). -/
theorem empty_statements_ignored (items items' : List (Item σ)) (lead lead' : List Tok)
    (hsame : items.map (fun it => (it.toks, it.st)) = items'.map (fun it => (it.toks, it.st)))
    (hlead : AllSemis lead) (hlead' : AllSemis lead')
    (hitems : ∀ it ∈ items, StartsStmt it.toks ∧ SelfContained ps it.toks it.st)
    (hsep : WellSeparated items) (hsep' : WellSeparated items') :
    (run ps mkPar none noCancel (lead ++ joinScript items)).stmts =
      (run ps mkPar none noCancel (lead' ++ joinScript items')).stmts := by
  have hitems' : ∀ it ∈ items', StartsStmt it.toks ∧ SelfContained ps it.toks it.st := by
    intro it hit
    have : (it.toks, it.st) ∈ items'.map (fun it => (it.toks, it.st)) := List.mem_map.mpr ⟨it, hit, rfl⟩
    rw [← hsame] at this
    obtain ⟨it0, hit0, heq⟩ := List.mem_map.mp this
    have h := hitems it0 hit0
    simp only [Prod.mk.injEq] at heq
    rw [← heq.1, ← heq.2]; exact h
  rw [(script_independent ps mkPar items lead hlead hitems hsep).1,
    (script_independent ps mkPar items' lead' hlead' hitems' hsep').1]
  have := congrArg (List.map Prod.snd) hsame
  simpa [List.map_map, Function.comp_def] using this

/-- **Leading empty statements are ignored**, whatever the element parser does (only `Progress`). -/
theorem leading_semicolons_ignored (readErr : Option ε) (hp : Progress ps) (lead l : List Tok)
    (hlead : AllSemis lead) :
    (run ps mkPar readErr noCancel (lead ++ l)).stmts = (run ps mkPar readErr noCancel l).stmts ∧
    (run ps mkPar readErr noCancel (lead ++ l)).err = (run ps mkPar readErr noCancel l).err :=
  ⟨(run_leading_semis ps mkPar readErr hp lead l hlead).1,
   (run_leading_semis ps mkPar readErr hp lead l hlead).2.1⟩

/-! ## Non-vacuity (toy element parser of the driver: a statement is everything up to the next `;`) -/

def sel (i : Nat) : Tok := ⟨DC.Gen.Tokens.tSELECT, i⟩
def semi (i : Nat) : Tok := ⟨DC.Gen.Tokens.tSEMICOLON, i⟩

theorem sel_ordinary (i : Nat) : Ordinary (sel i) := by
  simp [Ordinary, sel, tBAD, DC.Gen.Tokens.tSELECT, DC.Gen.Tokens.tSEMICOLON,
    DC.Gen.Tokens.tPARALLEL, DC.Gen.Tokens.tILLEGAL]

theorem sel_starts (i : Nat) : StartsStmt [sel i] :=
  ⟨sel i, [], rfl, by simp [isSemi, sel, DC.Gen.Tokens.tSELECT, DC.Gen.Tokens.tSEMICOLON]⟩

theorem semi_isSemi (i : Nat) : isSemi (semi i) = true := by simp [isSemi, semi]

/-- the hypotheses of `script_independent` are satisfiable: `;; SELECT ;;; SELECT ; SELECT ;`
for the toy parser gives the three statements. -/
example :
    (run toyParse toyMkPar none noCancel
      ([semi 0, semi 1] ++ joinScript
        [⟨[sel 2], (⟨[2]⟩ : ToyStmt), [semi 3, semi 4, semi 5]⟩, ⟨[sel 6], ⟨[6]⟩, [semi 7]⟩,
         ⟨[sel 8], ⟨[8]⟩, [semi 9]⟩])).stmts = [⟨[2]⟩, ⟨[6]⟩, ⟨[8]⟩] := by
  refine (script_independent toyParse toyMkPar _ _ ?_ ?_ ?_).1
  · intro t ht
    simp at ht
    rcases ht with rfl | rfl <;> exact semi_isSemi _
  · intro it hit
    simp at hit
    rcases hit with rfl | rfl | rfl <;>
      exact ⟨sel_starts _, toy_selfContained_single _ (sel_ordinary _)⟩
  · refine ⟨?_, by simp, ?_, by simp, ?_⟩ <;>
      (intro t ht; simp at ht; rcases ht with rfl | rfl | rfl <;> exact semi_isSemi _)

/-- and the toy parser is NOT self-contained on a statement that is followed by a non-`;` token
it swallows — the hypothesis is not trivially true: `SELECT` `SELECT` is one toy statement. -/
example : ¬ (∀ rest, toyParse (Window.ofList ([sel 0] ++ rest)) =
    { stmt := some ⟨[0]⟩, after := Window.ofList rest, errs := [] }) := by
  intro h
  have := h [sel 1]
  simp only [List.cons_append, List.nil_append] at this
  rw [toyParse_ofList_cons] at this
  simp [toyRest, sel, tBAD, DC.Gen.Tokens.tSELECT, DC.Gen.Tokens.tSEMICOLON,
    DC.Gen.Tokens.tPARALLEL, DC.Gen.Tokens.tILLEGAL, Window.ofList, kindIs] at this

/-- Regenerated obligation: the only state a `Parser` carries from one statement to the next is its lexer, the
three-token window and the error list (plus the empty / step-counting `verif` hook field), and the library packages
have no package-level variable that is written outside `init`. So "nothing carries over" can only fail through the
look-ahead window, which is what `SelfContained` isolates, or through the lexer's own state (C12/C14). A new field or
a new written global makes this theorem fail to re-check. -/
theorem parser_state_is_window_and_errors :
    DC.Gen.ReaderUse.parserFields =
      ["lexer *lexer.Lexer", "current lexer.Item", "peek lexer.Item", "peekPeek lexer.Item", "errors []error", "verif verifState"] ∧
    DC.Gen.ReaderUse.lexerFields = ["reader *bufio.Reader", "ch rune", "pos token.Position", "eof bool", "err error"] ∧
    DC.Gen.Writes.globalWrites = [] := by decide

end DC.Props.C06
