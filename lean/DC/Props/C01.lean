import DC.Proofs.SetOps

/-!
# C01 — Parse never panics (proved core: the INTERSECT / EXCEPT tree builder)

Property text: "For every byte string of at most 1 MiB handed to Parse (or to a Parser built with New), the call
returns normally with a (statements, error) pair; it never panics …"

C01 as a whole is not a single theorem (the parser is ~8000 lines of Go). It is carried by
(i) `DC.Props.C12.lex_no_panic` (the lexer), (ii) this file — the one place of the parser whose index arithmetic
depends on an invariant across two slices, (iii) `DC/Props/C01Sites.lean` — the regenerated inventory of every
index / slice / unchecked-assertion site with its guard obligation, and (iv) the search (`harness run --prop=C01`).

What is proved here about `buildIntersectExceptTree` (parser.go:989-1060, model `DC.Model.SetOps.build`, every
index and slice expression checked, every loop fuel-bounded):
* `tree_total` / `tree_returns`: for ALL `stmts ≠ []` and ALL `ops` (any lengths, thanks to the truncation at its top)
  the function returns a statement: no index or slice expression is out of range and every loop ends;
* `tree_empty_panics`: the hypothesis `stmts ≠ []` is needed (`ops[:len(stmts)-1]` is `ops[:-1]`); all four callers
  start from `stmts := []ast.Statement{first}` and only append — `collect_stmts_nonempty`;
* `collect_invariant`: the collecting loops (ops appended BEFORE the operand is parsed, `break` when it is nil)
  maintain `len ops ≤ len stmts`, with equality exactly when the loop was left by `break`; otherwise `len ops + 1 = len stmts`;
* `collect_build_total`: collecting loop followed by the tree builder never panics, for every run of the loop;
* `old_panics` / `replay_72cec636a`: on the code before commit 72cec636a the run
  "operand, op, operand, op, <operand fails>" (`SELECT 1 EXCEPT SELECT 2 EXCEPT`) panics — the replay of the repaired defect.
Not modelled here: that the Go operand parsers return (C02) and what the operands are.
-/
namespace DC.Props.C01
open DC.Model.SetOps

/-- `buildIntersectExceptTree(stmts, ops)` returns a statement for every non-empty `stmts` and every `ops`. -/
theorem tree_returns (stmts : List Stmt) (ops : List Op) (h : stmts ≠ []) : ∃ t, build stmts ops = .ok t :=
  build_ok stmts ops h

/-- … in particular it does not panic … -/
theorem tree_total (stmts : List Stmt) (ops : List Op) (h : stmts ≠ []) : build stmts ops ≠ .panic := by
  obtain ⟨t, ht⟩ := build_ok stmts ops h
  rw [ht]; intro h'; cases h'

/-- … and its loops terminate (the model's fuel is never exhausted). -/
theorem tree_terminates (stmts : List Stmt) (ops : List Op) (h : stmts ≠ []) : build stmts ops ≠ .nofuel := by
  obtain ⟨t, ht⟩ := build_ok stmts ops h
  rw [ht]; intro h'; cases h'

/-- With no statement at all the repair line itself slices `ops[:-1]`: the precondition of `tree_total` is needed. -/
theorem tree_empty_panics (ops : List Op) : build [] ops = .panic := by
  unfold build sliceTo
  simp only [List.length_nil]
  rw [if_pos (by omega), if_neg (by omega)]

/-- The collecting loops: `len ops ≤ len stmts`; equality exactly when the last operand failed (`break`);
otherwise one operator less than operands. -/
theorem collect_invariant (first : Stmt) (its : List (Op × Option Stmt)) :
    (collect first its).ops.length ≤ (collect first its).stmts.length ∧
    ((collect first its).ops.length = (collect first its).stmts.length ↔ (collect first its).broke = true) ∧
    ((collect first its).broke = false → (collect first its).ops.length + 1 = (collect first its).stmts.length) := by
  obtain ⟨_, h1, h2⟩ := collect_inv first its
  cases hb : (collect first its).broke with
  | true => have := h2 hb; exact ⟨by omega, ⟨fun _ => rfl, fun _ => this⟩, by intro h; cases h⟩
  | false => have := h1 hb; exact ⟨by omega, ⟨fun h => by omega, fun h => by cases h⟩, fun _ => this⟩

theorem collect_stmts_nonempty (first : Stmt) (its : List (Op × Option Stmt)) : (collect first its).stmts ≠ [] :=
  (collect_inv first its).1

/-- Every run of a collecting loop followed by `buildIntersectExceptTree` returns a statement. -/
theorem collect_build_total (first : Stmt) (its : List (Op × Option Stmt)) :
    build (collect first its).stmts (collect first its).ops ≠ .panic :=
  tree_total _ _ (collect_stmts_nonempty first its)

/-- Pre-repair code (before 72cec636a): two operands with two operators panic, whatever the operator. -/
theorem old_panics (op : Op) : (buildOld [.leaf 1, .leaf 2] [op, op]).isPanic = true := by
  cases op <;> decide

/-- Replay of the repaired defect: `SELECT 1 EXCEPT SELECT 2 EXCEPT` — the second operand parser returns nil.
The loop leaves `len ops = len stmts = 2`; the old tree builder panics, the current one returns
`SELECT 1 EXCEPT SELECT 2`. -/
theorem replay_72cec636a :
    let st := collect (.leaf 1) [(.except, some (.leaf 2)), (.except, none)]
    st.stmts.length = 2 ∧ st.ops.length = 2 ∧ st.broke = true ∧
    (buildOld st.stmts st.ops).isPanic = true ∧ (build st.stmts st.ops).isPanic = false := by
  decide

/-- same with INTERSECT (`SELECT 1 INTERSECT SELECT 2 INTERSECT x`, DESIGN.md §6 C01): old code indexes `stmts[2]` -/
theorem replay_intersect :
    let st := collect (.leaf 1) [(.intersect, some (.leaf 2)), (.intersect, none)]
    (buildOld st.stmts st.ops).isPanic = true ∧ (build st.stmts st.ops).isPanic = false := by
  decide

/-! non-vacuity: concrete runs -/

/-- `a EXCEPT b INTERSECT c` becomes `a EXCEPT (b INTERSECT c)` -/
example : build [.leaf 0, .leaf 1, .leaf 2] [.except, .intersect] =
    .ok (.setop [.leaf 0, .setop [.leaf 1, .leaf 2] [.intersect]] [.except]) := by rfl

/-- `a EXCEPT b EXCEPT c` becomes `(a EXCEPT b) EXCEPT c` -/
example : build [.leaf 0, .leaf 1, .leaf 2] [.except, .exceptAll] =
    .ok (.setop [.setop [.leaf 0, .leaf 1] [.except], .leaf 2] [.exceptAll]) := by rfl

/-- the repaired case: the trailing operator is dropped -/
example : build [.leaf 0, .leaf 1] [.intersect, .except] = .ok (.setop [.leaf 0, .leaf 1] [.intersect]) := by rfl

/-- too FEW operators (not produced by the callers) is also fine: the "shouldn't happen" arm parser.go:1036-1038 -/
example : build [.leaf 0, .leaf 1, .leaf 2] [] = .ok (.leaf 0) := by rfl

/-- a collecting run without a failure satisfies `len ops + 1 = len stmts` -/
example : (collect (.leaf 0) [(.except, some (.leaf 1)), (.intersectAll, some (.leaf 2))]).ops.length + 1 =
    (collect (.leaf 0) [(.except, some (.leaf 1)), (.intersectAll, some (.leaf 2))]).stmts.length := by decide

end DC.Props.C01
