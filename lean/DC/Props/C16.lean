import DC.Proofs.StmtLoopToy

/-!
# C16 — cancellation between statements

> If the context passed to Parse is already cancelled or is cancelled while a script is being
> parsed, Parse stops at the next statement boundary and returns the context's error together with
> a prefix of the statements it would otherwise have returned; it never returns a nil error for
> input it has not finished, and a context that is never cancelled never causes an error.

Model: `DC.Model.StmtLoop.run parseStmt mkPar readErr done ts` mirrors `parser.Parse` /
`ParseStatements` (parser/parser.go:147-195) over the pumped token stream `ts`, an ABSTRACT element
parser `parseStmt` (the Go `parseStatement`), and the context oracle `done i` = "`ctx.Done()` is
closed when sampled in outer iteration `i`".

All theorems hold for ALL streams, ALL oracles `done` (monotone or not) and ALL element parsers;
only `nil_err_finished` and `fuel_sufficient` need the hypothesis `Progress parseStmt`
(`parseStatement` advances the window by ≥ 1 `nextToken` unless at EOF), which is what makes the
model's fuel `ts.length + 1` sufficient, i.e. the Go loop terminate.

What is NOT proved here: that the real `parseStatement` satisfies `Progress` (that is C02's
progress certificate), and that `ctx.Done()` observed by the Go `select` behaves like a function of
the iteration index (it is sampled exactly once per iteration, parser.go:157-161; the harness
`p_c16.go` compares the real `Parse` with this model for every iteration index and every
cancellation byte offset).
-/

namespace DC.Props.C16

open DC.Model.StmtLoop

variable {σ ε : Type} (ps : StmtParser σ ε) (mkPar : List σ → σ) (readErr : Option ε)

/-- The model's fuel is never exhausted: under `Progress` the loop of `ParseStatements` terminates
within `ts.length + 1` iterations. -/
theorem fuel_sufficient (hp : Progress ps) (done : Nat → Bool) (ts : List Tok) :
    (run ps mkPar readErr done ts).fuelOut = false := by
  unfold run finish
  rw [new_eq_ofList]
  exact loop_fuelOut_false ps mkPar hp done _ _ _ _ _ _ (Nat.lt_succ_self _)

/-- A context that is never cancelled behaves exactly like no context at all, and the error is
not the context's. -/
theorem never_cancelled (done : Nat → Bool) (hd : ∀ i, done i = false) (ts : List Tok) :
    run ps mkPar readErr done ts = run ps mkPar readErr noCancel ts ∧
    (run ps mkPar readErr done ts).err ≠ ErrKind.ctx := by
  have hdone : done = noCancel := funext hd
  refine ⟨by rw [hdone], ?_⟩
  intro h
  unfold run at h
  rw [finish_err_ctx_iff] at h
  rw [loop_not_cancelled ps mkPar done hd] at h
  cases h

/-- If `Parse` returns the context's error, the statements it returns are a prefix of those of the
uncancelled parse (so is the log of `parseStatement` calls), and there is a first iteration `j` at
which `done` held: `ctx.Done()` was sampled exactly `j + 1` times and every `parseStatement` call
was made in an iteration before `j` — the iteration that observes the cancellation parses nothing. -/
theorem cancel_prefix (done : Nat → Bool) (ts : List Tok)
    (h : (run ps mkPar readErr done ts).err = ErrKind.ctx) :
    (run ps mkPar readErr done ts).stmts <+: (run ps mkPar readErr noCancel ts).stmts ∧
    (run ps mkPar readErr done ts).log <+: (run ps mkPar readErr noCancel ts).log ∧
    ∃ j, done j = true ∧ (∀ k, k < j → done k = false) ∧
      (run ps mkPar readErr done ts).iters = j + 1 ∧
      ∀ e ∈ (run ps mkPar readErr done ts).log, e.1 < j := by
  unfold run at h ⊢
  rw [finish_err_ctx_iff] at h
  obtain ⟨h1, h2⟩ := (loop_vs_noCancel ps mkPar done _ _ _ _).2 h
  refine ⟨h1, h2, ?_⟩
  obtain ⟨j, _, hj2, hj3, hj4, ext, hext, hmem⟩ := loop_cancelled ps mkPar done _ _ _ _ h
  refine ⟨j, hj2, fun k hk => hj3 k (Nat.zero_le _) hk, hj4, ?_⟩
  intro e he
  simp only [finish] at he
  rw [hext] at he
  simp only [List.nil_append] at he
  exact (hmem e he).2

/-- `Parse` never returns a nil error for input it has not finished: with a nil error the window
is at EOF, and the result is the complete uncancelled result. -/
theorem nil_err_finished (hp : Progress ps) (done : Nat → Bool) (ts : List Tok)
    (h : (run ps mkPar readErr done ts).err = ErrKind.none) :
    (run ps mkPar readErr done ts).final.current = none ∧
    (run ps mkPar readErr done ts).stmts = (run ps mkPar readErr noCancel ts).stmts ∧
    run ps mkPar readErr done ts = run ps mkPar readErr noCancel ts := by
  have hfo := fuel_sufficient ps mkPar readErr hp done ts
  unfold run at h hfo ⊢
  have hc : (loop ps mkPar done (ts.length + 1) 0 [] ⟨Window.new ts, [], []⟩).cancelled = false := by
    cases hcc : (loop ps mkPar done (ts.length + 1) 0 [] ⟨Window.new ts, [], []⟩).cancelled with
    | false => rfl
    | true => rw [(finish_err_ctx_iff readErr _).mpr hcc] at h; cases h
  have heq := (loop_vs_noCancel ps mkPar done _ _ _ _).1 hc
  have heof := loop_exit_atEOF ps mkPar done _ _ _ _ hc hfo
  refine ⟨?_, by rw [heq], by rw [heq]⟩
  simpa [finish, Window.atEOF] using heof

/-- the first token is not EOF iff the pumped stream is not empty -/
theorem first_token_not_eof (ts : List Tok) : (Window.new ts).atEOF = false ↔ ts ≠ [] := by
  rw [new_eq_ofList, ofList_atEOF]; simp

/-- A context that is already cancelled, on input whose first token is not EOF: no statement, the
context's error, and `parseStatement` is never called. -/
theorem precancelled_nonempty (done : Nat → Bool) (h0 : done 0 = true) (ts : List Tok)
    (hne : ts ≠ []) :
    (run ps mkPar readErr done ts).stmts = [] ∧ (run ps mkPar readErr done ts).err = ErrKind.ctx ∧
    (run ps mkPar readErr done ts).log = [] := by
  have hw : (Window.new ts).atEOF = false := (first_token_not_eof ts).mpr hne
  simp [run, loop, hw, h0, finish]

/-- DESIGN §7: on input without tokens the loop body never runs, whatever the context: the result
is `(nil, nil)` — or the reader's error if the reader failed. -/
theorem precancelled_empty (done : Nat → Bool) :
    (run ps mkPar readErr done []).stmts = [] ∧
    (run ps mkPar readErr done []).err =
      (match readErr with | some e => ErrKind.read e | none => ErrKind.none) ∧
    (run ps mkPar readErr done []).iters = 0 := by
  have hw : (Window.new []).atEOF = true := by rw [new_eq_ofList, ofList_atEOF]; rfl
  cases readErr <;> simp [run, loop, hw, finish]

/-! ## Non-vacuity -/

/-- the hypothesis `Progress` is satisfiable: the toy parser of the driver has it -/
example : Progress toyParse := toyParse_progress

def sel (i : Nat) : Tok := ⟨DC.Gen.Tokens.tSELECT, i⟩
def num (i : Nat) : Tok := ⟨DC.Gen.Tokens.tNUMBER, i⟩
def semi (i : Nat) : Tok := ⟨DC.Gen.Tokens.tSEMICOLON, i⟩

/-- `SELECT 1 ; SELECT 2` -/
def twoStmts : List Tok := [sel 0, num 1, semi 2, sel 3, num 4]

/-- uncancelled: both statements, nil error, EOF -/
example : (run toyParse toyMkPar none noCancel twoStmts).stmts = [⟨[0]⟩, ⟨[3]⟩] ∧
    (run toyParse toyMkPar none noCancel twoStmts).err = ErrKind.none := by
  simp [run, twoStmts, new_eq_ofList, loop, ofList_atEOF, noCancel, PState.skipSemis,
    skipSemis_ofList, dropSemis, isSemi, sel, num, semi, parseAndAppend, callStmt,
    toyParse_ofList_cons, toyRest, finish, Window.isParallelWith, ofList_currentIs_cons,
    ofList_currentIs_nil, tBAD, DC.Gen.Tokens.tSELECT, DC.Gen.Tokens.tNUMBER,
    DC.Gen.Tokens.tSEMICOLON, DC.Gen.Tokens.tPARALLEL, DC.Gen.Tokens.tILLEGAL, kindIs]

/-- cancelled before the second statement: the first statement and the context's error — the
hypothesis of `cancel_prefix` is satisfiable with a non-trivial prefix -/
example : (run toyParse toyMkPar none (fun i => decide (1 ≤ i)) twoStmts).stmts = [⟨[0]⟩] ∧
    (run toyParse toyMkPar none (fun i => decide (1 ≤ i)) twoStmts).err = ErrKind.ctx ∧
    (run toyParse toyMkPar none (fun i => decide (1 ≤ i)) twoStmts).iters = 2 := by
  simp [run, twoStmts, new_eq_ofList, loop, ofList_atEOF, PState.skipSemis,
    skipSemis_ofList, dropSemis, isSemi, sel, num, semi, parseAndAppend, callStmt,
    toyParse_ofList_cons, toyRest, finish, Window.isParallelWith, ofList_currentIs_cons,
    tBAD, DC.Gen.Tokens.tSELECT, DC.Gen.Tokens.tNUMBER,
    DC.Gen.Tokens.tSEMICOLON, DC.Gen.Tokens.tPARALLEL, DC.Gen.Tokens.tILLEGAL, kindIs]

/-- pre-cancelled -/
example : (run toyParse toyMkPar none (fun _ => true) twoStmts).stmts = [] ∧
    (run toyParse toyMkPar none (fun _ => true) twoStmts).err = ErrKind.ctx ∧
    (run toyParse toyMkPar none (fun _ => true) twoStmts).log = [] :=
  precancelled_nonempty toyParse toyMkPar none (fun _ => true) rfl twoStmts (by simp [twoStmts])

end DC.Props.C16
