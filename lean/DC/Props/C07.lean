import DC.Spec.Embed

/-!
# C07 — a query renders the same wherever it is embedded  (partial: verified monitor + search)

> The EXPLAIN text of a SELECT query (starting with SELECT or WITH, without its own
> FORMAT/SETTINGS/INTO OUTFILE tail) appears verbatim, merely indented, inside the EXPLAIN text of any
> statement that embeds it as a FROM subquery, IN/EXISTS/scalar subquery, CTE body, JOIN operand,
> CREATE VIEW ... AS, INSERT ... SELECT or EXPLAIN target, and wrapping the whole query in parentheses
> at statement level changes nothing. Rendering a query never depends on what surrounds it or on what
> was rendered before it.

FULL STATEMENT (not a theorem; decided by search with the verified monitor, `harness/p_c07.go`):
`∀ q ctx, (embedded (lines (Explain q)) (lines (Explain (ctx q)))).isSome`, `Explain (q) = Explain ((q))`,
and `Explain q` after any history = `Explain q`.

What IS proved: the monitor the harness uses means exactly "contiguous, uniformly indented block".
The design's `depth_shift` / `embedding` theorems over a model of the printer are NOT done (no
`ExplainCore` model); the package-level flags the `flags_*` theorems were about no longer exist in /repo.
-/
namespace DC.Props.C07
open DC DC.Spec.Tree DC.Spec.Embed

/-- The monitor answers "found" iff `inner`, every line prefixed by the same `d` spaces, is a contiguous
block of `outer`. -/
theorem monitor_iff_partial (inner outer : List Line) :
    (embedded inner outer).isSome = true ↔
      ∃ d pre post, outer = pre ++ inner.map (indent d) ++ post :=
  embedded_isSome_iff inner outer

/-- Exactly which occurrence and indentation it reports. -/
theorem monitor_exact (inner outer : List Line) (d : Nat) :
    embedded inner outer = some d ↔
      ∃ pre post, outer = pre ++ inner.map (indent d) ++ post ∧ (inner = [] → d = 0) ∧
        ∀ pre' d' post', outer = pre' ++ inner.map (indent d') ++ post' → pre.length ≤ pre'.length :=
  embedded_eq_some_iff inner outer d

example : embedded [[65], [32, 66]] [[88], [32, 32, 65], [32, 32, 32, 66], [32, 67]] = some 2 := by decide
example : embedded [[65], [32, 66]] [[88], [32, 32, 65], [32, 32, 32, 32, 66]] = none := by decide

end DC.Props.C07
