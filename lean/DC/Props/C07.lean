import DC.Spec.Embed
import DC.Proofs.TreeEmbed

/-!
# C07 — a query renders the same wherever it is embedded  (partial: verified monitor + search)

> The EXPLAIN text of a SELECT query (starting with SELECT or WITH, without its own
> FORMAT/SETTINGS/INTO OUTFILE tail) appears verbatim, merely indented, inside the EXPLAIN text of any
> statement that embeds it as a FROM subquery, IN/EXISTS/scalar subquery, CTE body, JOIN operand,
> CREATE VIEW ... AS, INSERT ... SELECT or EXPLAIN target, and wrapping the whole query in parentheses
> at statement level changes nothing. Rendering a query never depends on what surrounds it or on what
> was rendered before it.

FULL STATEMENT (not a theorem; decided by search with the verified monitor, `harness/p_c07.go`):
`∀ q ctx, (embedded (lines (Explain q)) (lines (Explain (ctx q)))).isSome`, `Explain (q) = Explain ((q))`,
and `Explain q` after any history = `Explain q`.

What IS proved: the monitor the harness uses means exactly "contiguous, uniformly indented block"
(`monitor_iff_partial`, `monitor_exact`), and — second half of this file, section "model level" — the
design's `depth_shift` / `embedding` theorems for ANY compositional printer (`explain lab`, a printer whose
line for a node is a function of that node alone): `render_shift`, `subtree_embedded`,
`explain_depth_shift`, `explain_embedding`, `explain_context_free`, `explain_history_free`, and the converse on
well-formed texts `embedded_subtree` (what the monitor finds is a subtree, at exactly the reported depth).
There is still no function-by-function model of `internal/explain` (no `ExplainCore`), so that the real
printer IS such an `explain lab` is not proved: that is what the search checks.  The package-level flags the
`flags_*` theorems were about no longer exist in /repo.
-/
namespace DC.Props.C07
open DC DC.Spec.Tree DC.Spec.Embed

/-- The monitor answers "found" iff `inner`, every line prefixed by the same `d` spaces, is a contiguous
block of `outer`. -/
theorem monitor_iff_partial (inner outer : List Line) :
    (embedded inner outer).isSome = true ↔
      ∃ d pre post, outer = pre ++ inner.map (indent d) ++ post :=
  embedded_isSome_iff inner outer

/-- Exactly which occurrence and indentation it reports. -/
theorem monitor_exact (inner outer : List Line) (d : Nat) :
    embedded inner outer = some d ↔
      ∃ pre post, outer = pre ++ inner.map (indent d) ++ post ∧ (inner = [] → d = 0) ∧
        ∀ pre' d' post', outer = pre' ++ inner.map (indent d') ++ post' → pre.length ≤ pre'.length :=
  embedded_eq_some_iff inner outer d

example : embedded [[65], [32, 66]] [[88], [32, 32, 65], [32, 32, 32, 66], [32, 67]] = some 2 := by decide
example : embedded [[65], [32, 66]] [[88], [32, 32, 65], [32, 32, 32, 32, 66]] = none := by decide

/-! ## model level: a compositional printer

MODELLING ASSUMPTION (this, and nothing else, is what separates the theorems below from the real printer).
`explain lab a d := render (toTree lab a) d`: the text of a node is its own line — `lab` of the node's payload,
a function of the node ALONE — followed by the texts of its children one level deeper.  A printer is
compositional exactly when its output for a node is such a function of the node alone: no argument for the
enclosing statement, no printer state.  Under that assumption `explain_context_free` / `explain_history_free`
hold by definition (the context and the history are simply not arguments of `explain`), which is the point:
the property can only fail where the real printer is NOT of this shape, namely
* printer state that survives a call or is shared between calls — excluded for the code as it is now by the
  regenerated obligation `DC.Props.C10.no_shared_writes` (re-checked on every build);
* per-context special cases of the real printer (a FORMAT / SETTINGS / INTO OUTFILE tail of an inner SELECT
  is printed as a child of the ENCLOSING statement — exactly the queries the property text excludes; any
  other place where `internal/explain` looks at the parent to decide what a child prints) — these are what
  the search (`harness/p_c07.go`, with the verified monitor above) checks.
"Wrapping the whole query in parentheses at statement level changes nothing" has no content at this level:
parentheses are not nodes of the syntax tree, so `q` and `(q)` are the same `Ast`; that the real parser
produces the same AST for both is again checked by the search.
-/

open DC.Proofs.TreeEmbed

/-- **depth_shift.** The depth at which a tree is rendered only shifts the indentation: rendering `k` levels
deeper prefixes every line with `k` spaces. -/
theorem render_shift (t : Tree) (d k : Nat) : render t (d + k) = (render t d).map (indent k) :=
  DC.Proofs.TreeEmbed.render_shift t d k

theorem renderList_shift (ts : List Tree) (d k : Nat) :
    renderList ts (d + k) = (renderList ts d).map (indent k) :=
  DC.Proofs.TreeEmbed.renderList_shift ts d k

/-- a rendering is never empty (so the `inner = [] → d = 0` corner of the monitor never applies) -/
theorem render_ne_nil (t : Tree) (d : Nat) : render t d ≠ [] :=
  DC.Proofs.TreeEmbed.render_ne_nil t d

/-- **embedding (trees).** `Sub s t k`: `s` is `t` (`k = 0`) or occurs at relative depth `k'` inside the `i`-th child
of `t` (`k = k' + 1`).  The text of a subtree is a contiguous block of the text of the tree, every line prefixed
by `k` spaces. -/
theorem subtree_embedded {s t : Tree} {k : Nat} (h : Sub s t k) :
    ∃ pre post, render t 0 = pre ++ (render s 0).map (indent k) ++ post :=
  DC.Proofs.TreeEmbed.subtree_embedded h

/-- … hence the C07 monitor finds it. -/
theorem subtree_embedded_isSome {s t : Tree} {k : Nat} (h : Sub s t k) :
    (embedded (render s 0) (render t 0)).isSome = true :=
  DC.Proofs.TreeEmbed.subtree_embedded_isSome h

variable {α : Type}

/-- **depth_shift (printer).** -/
theorem explain_depth_shift (lab : α → Bytes × Bool) (a : Ast α) (d k : Nat) :
    explain lab a (d + k) = (explain lab a d).map (indent k) :=
  DC.Proofs.TreeEmbed.explain_depth_shift lab a d k

/-- **embedding (printer).** The text of a query `s` occurs, merely indented, in the text of every
statement `a` that contains `s` as a subtree (at any depth `k`, in any child position). -/
theorem explain_embedding (lab : α → Bytes × Bool) {s a : Ast α} {k : Nat} (h : SubAst s a k) :
    (embedded (explain lab s 0) (explain lab a 0)).isSome = true :=
  DC.Proofs.TreeEmbed.explain_embedding lab h

/-- **context-free.** `explain lab s d` is a function of `lab`, `s`, `d` only (by definition — the modelling
assumption above); consequently the SAME block `explain lab s 0` sits in the texts of any two statements
that contain `s`, whatever surrounds it there. -/
theorem explain_context_free (lab : α → Bytes × Bool) {s a₁ a₂ : Ast α} {k₁ k₂ : Nat}
    (h₁ : SubAst s a₁ k₁) (h₂ : SubAst s a₂ k₂) :
    ∃ pre₁ post₁ pre₂ post₂,
      explain lab a₁ 0 = pre₁ ++ (explain lab s 0).map (indent k₁) ++ post₁ ∧
      explain lab a₂ 0 = pre₂ ++ (explain lab s 0).map (indent k₂) ++ post₂ :=
  DC.Proofs.TreeEmbed.explain_context_free lab h₁ h₂

/-- **history-free.** After any sequence of earlier calls the text of a call is the text of that call alone
(again by definition: `explainSeq` threads no state). -/
theorem explain_history_free (lab : α → Bytes × Bool) (hist : List (Ast α × Nat)) (s : Ast α) (d : Nat) :
    (explainSeq lab (hist ++ [(s, d)])).getLast? = some (explain lab s d) :=
  DC.Proofs.TreeEmbed.explain_history_free lab hist s d

/-- **Converse (trees).** For good trees, "occurs as a block indented by `d`" and "is a subtree `d` levels down"
are the same thing. -/
theorem sub_iff_block {s t : Tree} (hs : s.good = true) (ht : t.good = true) (d : Nat) :
    Sub s t d ↔ ∃ pre post, render t 0 = pre ++ (render s 0).map (indent d) ++ post :=
  DC.Proofs.TreeEmbed.Sub_iff_block hs ht d

/-- **Converse (texts).** If both texts pass the C04 monitor and the C07 monitor answers `some d`, the
(unique) tree of `inner` is a subtree of the (unique) tree of `outer`, exactly `d` levels below its root: a hit
of the monitor is never an accidental alignment of lines across subtree boundaries.
(`check inner = true` already gives `inner ≠ []`.) -/
theorem embedded_subtree {inner outer : List Line} {d : Nat}
    (hi : check inner = true) (ho : check outer = true) (he : embedded inner outer = some d) :
    ∃ ti to, render ti 0 = inner ∧ render to 0 = outer ∧ ti.good = true ∧ to.good = true ∧ Sub ti to d :=
  DC.Proofs.TreeEmbed.embedded_subtree hi ho he

/-! ### non-vacuity -/

/-- `S (children 1)` / ` L` -/
def exS : Tree := .node [83] true [.node [76] false []]
/-- `Q (children 2)` / ` A` / ` S (children 1)` / `  L` -/
def exQ : Tree := .node [81] true [.node [65] false [], exS]

/-- the same two as syntax trees with payload `Nat`, and a second statement `I` embedding `S` two levels down -/
def exLab (n : Nat) : Bytes × Bool := ([n.toUInt8], n % 2 == 1)
def aS : Ast Nat := .node 83 [.node 76 []]
def aQ : Ast Nat := .node 81 [.node 66 [], aS]
def aI : Ast Nat := .node 73 [.node 87 [aS], .node 66 []]

example : render exS 2 = [[32, 32] ++ [83] ++ suffix [49], [32, 32, 32, 76]] := by decide +kernel
example : render exS (0 + 2) = (render exS 0).map (indent 2) := by decide +kernel
example : render exS 0 ≠ [] := by decide +kernel
example : Sub exS exQ 1 := Sub.child _ _ _ 1 rfl (Sub.refl _)
example : embedded (render exS 0) (render exQ 0) = some 1 := by decide +kernel
example : exS.good = true ∧ exQ.good = true := by decide
example : check (render exS 0) = true ∧ check (render exQ 0) = true := by decide +kernel
/-- without `check inner` the converse is false: ` A` / ` S (children 1)` is a block of `exQ` but no subtree -/
example : embedded [[32, 65], [32, 83] ++ suffix [49]] (render exQ 0) = some 0 ∧
    check [[32, 65], [32, 83] ++ suffix [49]] = false := by decide +kernel
example : toTree exLab aS = exS := rfl
example : SubAst aS aQ 1 := SubAst.child _ _ 1 rfl (SubAst.refl _)
example : SubAst aS aI 2 := SubAst.child _ _ 0 rfl (SubAst.child _ _ 0 rfl (SubAst.refl _))
example : explain exLab aS (1 + 2) = (explain exLab aS 1).map (indent 2) := by decide +kernel
example : embedded (explain exLab aS 0) (explain exLab aQ 0) = some 1 := by decide +kernel
example : embedded (explain exLab aS 0) (explain exLab aI 0) = some 2 := by decide +kernel
example : explainSeq exLab [(aQ, 0), (aI, 3), (aS, 0)] =
    [explain exLab aQ 0, explain exLab aI 3, explain exLab aS 0] := by decide +kernel

end DC.Props.C07
