import DC.Proofs.BufioRefine
import DC.Proofs.BufioEval
import DC.Gen.ReaderUse

/-!
# C14 — parsing is independent of how the `io.Reader` delivers the bytes (the `bufio` part)

"Parsing the same byte stream gives the same statements, EXPLAIN text and error whether the io.Reader returns
everything at once, one byte per Read, short reads that split multi-byte characters, or the last bytes together
with io.EOF."

The lexer touches its input only through `bufio.Reader.ReadRune` and `bufio.Reader.Peek` (obligation
`Gen.ReaderUse`). This file proves, on the model `DC.Model.Bufio` of `bufio.Reader` (validated op by op against the
real one by `/verif/harness/p_c14.go`, part (a)), that whatever these two operations return is a function of the byte
stream alone: for every script of `Read` answers, of any length, with any chunk sizes (including chunks larger than the
buffer, chunks that cut a rune at any position, up to 99 consecutive empty reads, EOF with the last data or
after it), and every client — a fixed operation sequence, an adaptive strategy, or the lexer's own
`readChar`/`peek` wrappers — the results are those of the pure reader over the concatenated bytes.

`lex_chunking` (the lexer over `bufio` = the lexer over the bytes) follows by instantiating `bufio_refines_pure_adaptive`
with the lexer model's strategy; it is stated with the lexer model, not here.

Hypotheses, exactly:
* `Clean script fin` — no event carries an error except possibly the last one, which carries `fin`; if no event
  carries an error, `fin = io.EOF` (an exhausted reader answers `(0, io.EOF)`);
* `NoStall script` — never 100 consecutive `(0, nil)` answers (`bufio` would stop with `io.ErrNoProgress`; such a
  reader violates the `io.Reader` contract's discouragement and is not a chunking of the stream).
-/
namespace DC.Props.C14
open DC DC.Bufio

/-- **The model's interface is the code's** (obligation over the regenerated `DC.Gen.ReaderUse`, extracted from `/repo`
with go/types on every check): the field `Lexer.reader` is used at exactly three places, the receivers of
`ReadRune` (in `readChar`, lexer.go:47), `Peek` (in `peek`, lexer.go:74) and `Size` (in `peek`, lexer.go:78); it is
assigned only in the composite literal of `New` and never passed anywhere. `Size()` (bufio.go:67) is a pure getter of
`len(b.buf)` — modelled as `BR.size`, it neither reads nor changes reader state (trusted base: that one-line body).
So every way the lexer, and through it `Parse`/`Explain`, depends on the `io.Reader` goes through `Op.readRune` and
`Op.peek`. If the lexer starts calling another method this theorem stops compiling. -/
theorem reader_use_ok :
    DC.Gen.ReaderUse.readerMethodCalls = ["ReadRune", "Peek", "Size"] ∧ DC.Gen.ReaderUse.readerFieldUses = 3 := by
  decide

/-- For every clean, non-stalling script, every buffer size and every operation sequence, `bufio.Reader` returns
op for op what the pure reader over the concatenated bytes returns. -/
theorem bufio_refines_pure (script : Script) (fin : Err) (size : Nat) (ops : List Op)
    (hc : Clean script fin) (hn : NoStall script) :
    (run ops (newReaderSize script size)).1 =
      (Pure.run ops { rest := pending script, fin := fin, cap := max size minReadBufferSize }).1 :=
  run_refines ops _ _ (sim_init script size fin hc hn)

/-- the instance the lexer uses: `bufio.NewReader` (4096 bytes), stream ending in `io.EOF` -/
theorem bufio_refines_pure_lexer (script : Script) (ops : List Op) (hc : Clean script .eof) (hn : NoStall script) :
    (run ops (newReader script)).1 = (Pure.run ops { rest := pending script, fin := .eof, cap := 4096 }).1 :=
  bufio_refines_pure script .eof defaultBufSize ops hc hn

/-- the same for clients that choose each operation from the results so far (a lexer) -/
theorem bufio_refines_pure_adaptive (script : Script) (fin : Err) (size : Nat) (strat : Strategy) (fuel : Nat)
    (hc : Clean script fin) (hn : NoStall script) :
    runAdaptive strat fuel [] (newReaderSize script size) =
      Pure.runAdaptive strat fuel [] { rest := pending script, fin := fin, cap := max size minReadBufferSize } :=
  adaptive_refines strat fuel [] _ _ (sim_init script size fin hc hn)

/-- the same for the lexer's wrappers (`readChar`'s eof rule, `recordErr`): every result the lexer sees, its `eof`
flag and its recorded error -/
theorem lexer_client_refines_pure (script : Script) (fin : Err) (ops : List Op)
    (hc : Clean script fin) (hn : NoStall script) :
    let q : PClient := { p := { rest := pending script, fin := fin, cap := 4096 }, eof := false, err := none }
    (Client.trace ops (Client.new script)).1 = (PClient.run ops q).1 ∧
    (Client.run ops (Client.new script)).eof = (PClient.run ops q).2.eof ∧
    (Client.run ops (Client.new script)).err = (PClient.run ops q).2.err := by
  intro q
  have h : CSim (Client.new script) q := ⟨sim_init script defaultBufSize fin hc hn, rfl, rfl⟩
  have := client_trace_refines ops _ _ h
  rw [client_trace_state] at this
  exact this

/-- **Chunking independence.** Two scripts that deliver the same bytes and end the same way give identical results,
operation by operation. -/
theorem chunking_independent (s₁ s₂ : Script) (fin : Err) (size : Nat) (ops : List Op)
    (h₁ : Clean s₁ fin) (n₁ : NoStall s₁) (h₂ : Clean s₂ fin) (n₂ : NoStall s₂) (hb : pending s₁ = pending s₂) :
    (run ops (newReaderSize s₁ size)).1 = (run ops (newReaderSize s₂ size)).1 := by
  rw [bufio_refines_pure s₁ fin size ops h₁ n₁, bufio_refines_pure s₂ fin size ops h₂ n₂, hb]

theorem chunking_independent_adaptive (s₁ s₂ : Script) (fin : Err) (size : Nat) (strat : Strategy) (fuel : Nat)
    (h₁ : Clean s₁ fin) (n₁ : NoStall s₁) (h₂ : Clean s₂ fin) (n₂ : NoStall s₂) (hb : pending s₁ = pending s₂) :
    runAdaptive strat fuel [] (newReaderSize s₁ size) = runAdaptive strat fuel [] (newReaderSize s₂ size) := by
  rw [bufio_refines_pure_adaptive s₁ fin size strat fuel h₁ n₁, bufio_refines_pure_adaptive s₂ fin size strat fuel h₂ n₂, hb]

/-- what the lexer sees and remembers does not depend on the chunking -/
theorem chunking_independent_lexer_client (s₁ s₂ : Script) (ops : List Op)
    (h₁ : Clean s₁ .eof) (n₁ : NoStall s₁) (h₂ : Clean s₂ .eof) (n₂ : NoStall s₂) (hb : pending s₁ = pending s₂) :
    (Client.trace ops (Client.new s₁)).1 = (Client.trace ops (Client.new s₂)).1 ∧
    (Client.run ops (Client.new s₁)).eof = (Client.run ops (Client.new s₂)).eof ∧
    (Client.run ops (Client.new s₁)).err = (Client.run ops (Client.new s₂)).err := by
  have a := lexer_client_refines_pure s₁ .eof ops h₁ n₁
  have b := lexer_client_refines_pure s₂ .eof ops h₂ n₂
  simp only [hb] at a
  simp only [] at b
  exact ⟨a.1.trans b.1.symm, a.2.1.trans b.2.1.symm, a.2.2.trans b.2.2.symm⟩

/-- `fill` never reaches `panic("bufio: tried to fill full buffer")`, for any script at all -/
theorem bufio_never_panics (script : Script) (size : Nat) (ops : List Op) :
    (run ops (newReaderSize script size)).2.panicked = false := by
  obtain ⟨_, h, _⟩ := run_inv script ops [] _ (inv0_init script size)
  exact h.ok

/-! ### the four deliveries named by the property are instances -/

/-- "é1" = C3 A9 31 -/
def sample : Bytes := [0xC3, 0xA9, 0x31]

def allAtOnce : Script := [⟨sample, none⟩]
def oneBytePerRead : Script := [⟨[0xC3], none⟩, ⟨[0xA9], none⟩, ⟨[0x31], none⟩]
def splitRuneWithEmptyReads : Script := [⟨[0xC3], none⟩, ⟨[], none⟩, ⟨[], none⟩, ⟨[0xA9, 0x31], none⟩, ⟨[], some .eof⟩]
def lastBytesWithEOF : Script := [⟨[0xC3, 0xA9], none⟩, ⟨[0x31], some .eof⟩]

theorem sample_scripts_ok :
    (Clean allAtOnce .eof ∧ NoStall allAtOnce ∧ pending allAtOnce = sample) ∧
    (Clean oneBytePerRead .eof ∧ NoStall oneBytePerRead ∧ pending oneBytePerRead = sample) ∧
    (Clean splitRuneWithEmptyReads .eof ∧ NoStall splitRuneWithEmptyReads ∧ pending splitRuneWithEmptyReads = sample) ∧
    (Clean lastBytesWithEOF .eof ∧ NoStall lastBytesWithEOF ∧ pending lastBytesWithEOF = sample) := by
  simp [Clean, NoStall, leadEmpty, pending, allAtOnce, oneBytePerRead, splitRuneWithEmptyReads, lastBytesWithEOF, sample,
    maxConsecutiveEmptyReads]

def sampleOps : List Op := [.peek 1, .peek 8, .readRune, .peek 32, .readRune, .readRune, .peek 1, .readRune]

/-- non-vacuity: the hypotheses hold for the four deliveries, and the common answer is the expected one
(`é` = U+00E9 of size 2; the short peeks end with `io.EOF`) -/
example :
    (run sampleOps (newReader oneBytePerRead)).1 = (run sampleOps (newReader lastBytesWithEOF)).1 ∧
    (run sampleOps (newReader splitRuneWithEmptyReads)).1 = (run sampleOps (newReader allAtOnce)).1 ∧
    (run sampleOps (newReader oneBytePerRead)).1 =
      [.bytes [0xC3] none, .bytes sample (some .eof), .rune ⟨0xE9, 2, none⟩, .bytes [0x31] (some .eof),
       .rune ⟨0x31, 1, none⟩, .rune ⟨0, 0, some .eof⟩, .bytes [] (some .eof), .rune ⟨0, 0, some .eof⟩] := by
  obtain ⟨⟨a1, a2, a3⟩, ⟨b1, b2, b3⟩, ⟨c1, c2, c3⟩, ⟨d1, d2, d3⟩⟩ := sample_scripts_ok
  refine ⟨?_, ?_, ?_⟩
  · exact chunking_independent _ _ .eof defaultBufSize sampleOps b1 b2 d1 d2 (b3.trans d3.symm)
  · exact chunking_independent _ _ .eof defaultBufSize sampleOps c1 c2 a1 a2 (c3.trans a3.symm)
  · rw [newReader, bufio_refines_pure _ .eof _ _ b1 b2, b3]
    decide

/-- the same evaluated directly on the `bufio` model (no theorem involved): the model really does split-rune
refills, and really returns these values -/
example :
    (run sampleOps (newReader splitRuneWithEmptyReads)).1 =
      [.bytes [0xC3] none, .bytes sample (some .eof), .rune ⟨0xE9, 2, none⟩, .bytes [0x31] (some .eof),
       .rune ⟨0x31, 1, none⟩, .rune ⟨0, 0, some .eof⟩, .bytes [] (some .eof), .rune ⟨0, 0, some .eof⟩] := by
  rw [run_eqE]
  decide

/-- `NoStall` cannot be dropped: after 100 empty reads `bufio` answers `io.ErrNoProgress` although a byte follows -/
example :
    (run [.readRune] (newReader (List.replicate 100 ⟨[], none⟩ ++ [⟨[0x31], none⟩]))).1 = [.rune ⟨0, 0, some .noProgress⟩] ∧
    (run [.readRune] (newReader (List.replicate 99 ⟨[], none⟩ ++ [⟨[0x31], none⟩]))).1 = [.rune ⟨0x31, 1, none⟩] := by
  rw [run_eqE, run_eqE]
  decide

end DC.Props.C14
