import DC.Proofs.LexerLayoutEnds

/-!
# C05 — layout does not matter (lexer-level part)

> Two texts that differ only in the amount and kind of whitespace between tokens, in comments (--, #, /* */
> including nested), in the letter case of SQL keywords used as keywords, or in leading/trailing semicolons
> parse to statements with identical EXPLAIN output. …

EXPLAIN = `explain ∘ parse ∘ pump ∘ lex`. This file is about `pump ∘ lex` on the lexer model `DC.Lexer`
(`DC/Model/Lexer.lean`, validated zero-diff against `/repo/lexer/lexer.go`). `pumpedFrom s` is the list of
`(kind, value, quoted)` of the tokens the parser's pump (`parser.nextToken`, parser.go:59-71) lets through, from
lexer state `s`; all comment kinds lex to `LINE_COMMENT`, which the pump drops together with `WHITESPACE`.

What is proved (all theorems for every input, no bound on lengths):

1. `lex_pos_irrelevant`, `lex_pos_irrelevant_stream`: the position fields `off line col` of the lexer state are
   write-only: `NextToken` (and every scanner: the `…_core` lemmas of `DC/Proofs/LexerLayoutCore/Scan/Pos.lean`)
   yields the same `(kind, value, quoted)` and the same reader state `(rest, ch, eof)` from two states that agree
   on `(rest, ch, eof)`. So layout can influence the token sequence only through the bytes.
2. `skipWhitespace_run`, `gap_whitespace_invariance`: a run of white space is skipped up to the first rune that is
   not white space, and two runs are interchangeable.
3. `gap_comment_invariance_*`: a `--…\n`, `#…\n` or (nested) `/*…*/` comment is invisible after the pump.
   Side conditions, exactly: line-comment bodies contain no `\n` and no NUL rune (`lineBodyOk`; a NUL ends the
   comment AND makes the lexer report EOF, DESIGN §7) and are followed by `\n`; the text after `/*` closes the
   comment exactly at its end when `*/` and `/*` are paired greedily from the left (`closesExactly 1`); the
   non-nested special case `closesExactly_simple`: body without `/*`, `*/` that does not end in `/`.
4. `gap_invariance_partial`: FROM A STATE AT THE GAP, any gap (sequence of white-space runes and comments of the
   three forms, `Gap`) can be replaced by any other, even by the empty one.
5. `keyword_case`: every ASCII letter-case variant of a keyword's spelling lexes to that keyword with the value
   exactly as written.

6. `token_ends_at_ws_ident`, `token_ends_at_ws_int`, `token_ends_at_ws_op`: for identifiers/keywords (any Unicode
   identifier), ASCII decimal integers and every operator / punctuation token, a white-space rune after the
   token's text ends the token and nothing after that rune is looked at.
7. `gap_invariance_simple_tokens`: hence, for texts built from those tokens, each followed by a gap that begins
   with a white-space rune, the gaps can be exchanged at will (`SameTokens`): the full statement on that fragment.

What is NOT proved (the full lexer-level statement, kept here as a comment):

```
theorem gap_invariance (pre g₁ g₂ rest : Bytes) (h₁ : WsGap g₁) (h₂ : WsGap g₂)   -- gaps beginning with white space
    (hpre : the last token of `pre` is not `$`-initial) :
    pumpedFrom (stateAt (pre ++ g₁ ++ rest)) = pumpedFrom (stateAt (pre ++ g₂ ++ rest))
```

`gap_invariance_partial` is this statement with `pre = []` — more generally for any state that has consumed `pre`
and stands on the first rune of the gap — and then it holds for ALL gaps, also empty ones and ones beginning with
a comment. `gap_invariance_simple_tokens` is the statement for `pre` (and `rest`) made of identifiers, keywords,
decimal integers, operators and punctuation. What is missing for the general statement is `token_ends_at_ws` for
the remaining scanners — numbers with fraction / exponent / base prefix / underscores, strings, quoted identifiers,
`{…}` parameters, `@`-names — i.e. per scanner "a white-space character ends the token and the scanner looks at
most one character past it"; `$`-initial tokens look 4096 bytes ahead (`tryReadDollarTag`) and are outside any
such statement (search only). Likewise not covered: a token followed by a gap in one text and directly by EOF in
the other (a token directly before EOF in BOTH texts is part of the common tail of `SameTokens`); an EMPTY gap versus
a non-empty one between two tokens (that changes the token sequence in general); a comment directly after a token without white space; line comments ended by EOF instead of `\n`; the
U+2212 "comment"; bodies that are not sequences of valid UTF-8 pieces (`Spells`).
The parser-level part of C05 (`Gen.PosUses`, semicolons) is not in this file.
-/

namespace DC.Props.C05

open DC DC.Lexer DC.Gen.Tokens DC.Spec.KeywordTable

/-! ## 1. positions are irrelevant -/

/-- `LState.core s = (s.rest, s.ch, s.eof)`; `Tok.kvq t = (t.kind, t.val, t.quoted)`. -/
theorem lex_pos_irrelevant (s s' : LState) (h : s.core = s'.core) :
    (nextToken s).1.kvq = (nextToken s').1.kvq ∧ (nextToken s).2.core = (nextToken s').2.core := by
  have := nextToken_core (coreEq_iff.2 h)
  exact ⟨this.1, coreEq_iff.1 this.2⟩

/-- the whole token stream, and what the parser sees of it. -/
theorem lex_pos_irrelevant_stream (s s' : LState) (h : s.core = s'.core) :
    (lexFrom s).map Tok.kvq = (lexFrom s').map Tok.kvq ∧ pumpedFrom s = pumpedFrom s' :=
  ⟨lexFrom_core (coreEq_iff.2 h), pumpedFrom_core (coreEq_iff.2 h)⟩

/-- the same for the individual scanners (`REq`: equal `(kind, value, quoted)` and equal reader part of the state;
`EEq REq`: the same under the explicit panic outcome, with equal panics). The complete list — every function of
the model — is the family of `…_core` lemmas in `DC/Proofs/LexerLayoutScan.lean` and `LexerLayoutPos.lean`. -/
theorem scanners_pos_irrelevant (s s' : LState) (h : s.core = s'.core) :
    CoreEq (skipWhitespace s) (skipWhitespace s') ∧
    REq (readLineComment s) (readLineComment s') ∧ REq (readHashComment s) (readHashComment s') ∧
    REq (readBlockComment s) (readBlockComment s') ∧ REq (readString 39 s) (readString 39 s') ∧
    REq (readQuotedIdentifier s) (readQuotedIdentifier s') ∧ REq (readBacktickIdentifier s) (readBacktickIdentifier s') ∧
    REq (readNumber s) (readNumber s') ∧ REq (readNumberOrIdent s) (readNumberOrIdent s') ∧
    REq (readParameter s) (readParameter s') ∧ REq (readAt s) (readAt s') ∧ REq (readDot s) (readDot s') ∧
    EEq REq (readIdentifier s) (readIdentifier s') ∧ EEq REq (readDollar s) (readDollar s') ∧
    EEq REq (nextTokenSwitch s) (nextTokenSwitch s') ∧ EEq REq (nextTokenE s) (nextTokenE s') := by
  have c := coreEq_iff.2 h
  exact ⟨skipWhitespace_core c, readLineComment_core c, readHashComment_core c, readBlockComment_core c,
    readString_core 39 c, readQuotedIdentifier_core c, readBacktickIdentifier_core c, readNumber_core c,
    readNumberOrIdent_core c, readParameter_core c, readAt_core c, readDot_core c, readIdentifier_core c,
    readDollar_core c, nextTokenSwitch_core c, nextTokenE_core c⟩

/-- `lexFrom` from `New(input)` is `Tokenize(input)`. -/
theorem lexFrom_stateAt (b : Bytes) : lexFrom (stateAt b) = lex b := rfl

/-! ## 2. white space -/

/-- from a state standing on the first rune of `w ++ rest`, where `w` spells white-space runes only and the first
rune of `rest` is not white space, `skipWhitespace` lands on the first rune of `rest`. -/
theorem skipWhitespace_run (w : Bytes) (ws : List Nat) (hw : Spells w ws) (hall : ∀ r ∈ ws, isWs r = true)
    (rest : Bytes) (hrest : isWs (firstRune rest) = false) (s : LState) (hs : Ent s (w ++ rest)) :
    Ent (skipWhitespace s) rest :=
  DC.Lexer.skipWhitespace_run hw hall hrest hs

/-- … hence two runs land in states with the same reader part. -/
theorem skipWhitespace_run_core (w₁ w₂ : Bytes) (ws₁ ws₂ : List Nat) (h₁ : Spells w₁ ws₁) (h₂ : Spells w₂ ws₂)
    (a₁ : ∀ r ∈ ws₁, isWs r = true) (a₂ : ∀ r ∈ ws₂, isWs r = true)
    (rest : Bytes) (hrest : isWs (firstRune rest) = false) :
    (skipWhitespace (stateAt (w₁ ++ rest))).core = (skipWhitespace (stateAt (w₂ ++ rest))).core :=
  (DC.Lexer.skipWhitespace_run h₁ a₁ hrest (ent_stateAt _)).trans
    (DC.Lexer.skipWhitespace_run h₂ a₂ hrest (ent_stateAt _)).symm

/-- any two runs of white space (UTF-8 encodings of runes satisfying `isSpace ∨ isClickHouseWhitespace`; also
empty ones, and whatever `rest` starts with) give the parser the same stream. -/
theorem gap_whitespace_invariance (ws₁ ws₂ : List Nat) (v₁ : ∀ r ∈ ws₁, ValidRune r) (v₂ : ∀ r ∈ ws₂, ValidRune r)
    (a₁ : ∀ r ∈ ws₁, isWs r = true) (a₂ : ∀ r ∈ ws₂, isWs r = true) (rest : Bytes) :
    pumpedFrom (stateAt (enc ws₁ ++ rest)) = pumpedFrom (stateAt (enc ws₂ ++ rest)) :=
  (gap_trivia (Gap.ofWs (spells_enc v₁) a₁) rest (ent_stateAt _) (ent_stateAt rest)).trans
    (gap_trivia (Gap.ofWs (spells_enc v₂) a₂) rest (ent_stateAt _) (ent_stateAt rest)).symm

/-! ## 3. comments -/

/-- `--body\n` (body: valid UTF-8 pieces spelling `rs`, no `\n`, no NUL) is invisible. The state `s` is any state
standing on the first `-`; `x` any state standing on the first rune of `rest`. -/
theorem gap_comment_invariance_dash (body : Bytes) (rs : List Nat) (hb : Spells body rs) (hok : lineBodyOk rs)
    (rest : Bytes) (s x : LState) (hs : Ent s (45 :: 45 :: body ++ [10] ++ rest)) (hx : Ent x rest) :
    pumpedFrom s = pumpedFrom x :=
  gap_trivia (Gap.item (GapItem.dash hb hok)) rest hs hx

/-- `#body\n`. -/
theorem gap_comment_invariance_hash (body : Bytes) (rs : List Nat) (hb : Spells body rs) (hok : lineBodyOk rs)
    (rest : Bytes) (s x : LState) (hs : Ent s (35 :: body ++ [10] ++ rest)) (hx : Ent x rest) :
    pumpedFrom s = pumpedFrom x :=
  gap_trivia (Gap.item (GapItem.hash hb hok)) rest hs hx

/-- `/*text` where `text` (including the final `*/`) closes the comment exactly at its end; nesting allowed. -/
theorem gap_comment_invariance_block (text : Bytes) (rs : List Nat) (hb : Spells text rs)
    (hc : closesExactly 1 rs = true)
    (rest : Bytes) (s x : LState) (hs : Ent s (47 :: 42 :: text ++ rest)) (hx : Ent x rest) :
    pumpedFrom s = pumpedFrom x :=
  gap_trivia (Gap.item (GapItem.block hb hc)) rest hs hx

/-- the non-nested case with explicit side conditions: `/*` body `*/` where the body (as runes) contains
neither `/*` nor `*/` and does not end in `/`. -/
theorem gap_comment_invariance_block_simple (body : List Nat) (hv : ∀ r ∈ body, ValidRune r)
    (hp : hasCommentPair (body ++ [42]) = false)
    (rest : Bytes) (s x : LState) (hs : Ent s (47 :: 42 :: (enc body ++ [42, 47]) ++ rest)) (hx : Ent x rest) :
    pumpedFrom s = pumpedFrom x := by
  have hsp : Spells (enc body ++ [42, 47]) (body ++ [42, 47]) :=
    (spells_enc hv).append (spells_ascii (bs := [42, 47]) (by decide))
  exact gap_trivia (Gap.item (GapItem.block hsp (closesExactly_simple body hp))) rest hs hx

/-- inserting, after white space, a comment followed by white space: nothing changes. -/
theorem gap_comment_invariance (w c w' : Bytes) (ws ws' : List Nat) (hw : Spells w ws) (hw' : Spells w' ws')
    (a : ∀ r ∈ ws, isWs r = true) (a' : ∀ r ∈ ws', isWs r = true) (hc : GapItem c) (rest : Bytes) :
    pumpedFrom (stateAt (w ++ c ++ w' ++ rest)) = pumpedFrom (stateAt (w ++ rest)) :=
  (gap_trivia (((Gap.ofWs hw a).append (Gap.item hc)).append (Gap.ofWs hw' a')) rest (ent_stateAt _)
      (ent_stateAt rest)).trans
    (gap_trivia (Gap.ofWs hw a) rest (ent_stateAt _) (ent_stateAt rest)).symm

/-! ## 4. gaps -/

/-- from a state at the gap, a gap is invisible … -/
theorem gap_trivia (g : Bytes) (hg : Gap g) (rest : Bytes) (s x : LState) (hs : Ent s (g ++ rest)) (hx : Ent x rest) :
    pumpedFrom s = pumpedFrom x :=
  DC.Lexer.gap_trivia hg rest hs hx

/-- … so any two gaps are interchangeable (statement for states: `s₁`, `s₂` stand on the first rune of
`g₁ ++ rest` resp. `g₂ ++ rest`, wherever they are in their inputs and whatever their positions). -/
theorem gap_invariance_partial (g₁ g₂ : Bytes) (h₁ : Gap g₁) (h₂ : Gap g₂) (rest : Bytes) (s₁ s₂ : LState)
    (e₁ : Ent s₁ (g₁ ++ rest)) (e₂ : Ent s₂ (g₂ ++ rest)) :
    pumpedFrom s₁ = pumpedFrom s₂ :=
  (DC.Lexer.gap_trivia h₁ rest e₁ (ent_stateAt rest)).trans (DC.Lexer.gap_trivia h₂ rest e₂ (ent_stateAt rest)).symm

/-- the same for whole inputs that begin with the gap. -/
theorem gap_invariance_partial_input (g₁ g₂ : Bytes) (h₁ : Gap g₁) (h₂ : Gap g₂) (rest : Bytes) :
    pumpedFrom (stateAt (g₁ ++ rest)) = pumpedFrom (stateAt (g₂ ++ rest)) :=
  gap_invariance_partial g₁ g₂ h₁ h₂ rest _ _ (ent_stateAt _) (ent_stateAt _)

/-! ## 5. keyword case -/

/-- `CaseVariant c k`: upper-casing the bytes of `c` (ASCII `a-z` ↦ `A-Z`) gives the code points of
`Token(k).String()`. For every keyword `k` of the regenerated table, from a state standing on the first byte of
`c ++ rest` (first rune of `rest` not an identifier character; for a one-letter `c` also not `'`, because
`x'…'`/`b'…'` are string literals), `readIdentifier` answers kind `k`, the value `c` exactly as written, and the
lexer stands on the first rune of `rest`. -/
theorem keyword_case (k : Nat) (hk : isKeyword k = true) (c : Bytes) (hv : CaseVariant c k)
    (rest : Bytes) (hrest : isIdentChar (firstRune rest) = false) (hq : c.length = 1 → firstRune rest ≠ 39)
    (s : LState) (hs : Ent s (c ++ rest)) :
    ∃ r, readIdentifier s = .ok r ∧ r.1.kvq = (k, c, false) ∧ Ent r.2 rest :=
  readIdentifier_keyword k hk c hv rest hrest hq hs

/-- the same through `NextToken`. -/
theorem keyword_case_nextToken (k : Nat) (hk : isKeyword k = true) (c : Bytes) (hv : CaseVariant c k)
    (rest : Bytes) (hrest : isIdentChar (firstRune rest) = false) (hq : c.length = 1 → firstRune rest ≠ 39)
    (s : LState) (hs : Ent s (c ++ rest)) :
    (nextToken s).1.kvq = (k, c, false) ∧ Ent (nextToken s).2 rest :=
  keyword_tok k hk c hv rest hrest hq hs

/-- two case variants of the same keyword, each followed by the same `rest`: same kind, and the parser sees the
same continuation. -/
theorem keyword_case_same_kind (k : Nat) (hk : isKeyword k = true) (c₁ c₂ : Bytes) (v₁ : CaseVariant c₁ k)
    (v₂ : CaseVariant c₂ k) (rest : Bytes) (hrest : isIdentChar (firstRune rest) = false)
    (hq : firstRune rest ≠ 39) :
    (nextToken (stateAt (c₁ ++ rest))).1.kind = (nextToken (stateAt (c₂ ++ rest))).1.kind ∧
      pumpedFrom (nextToken (stateAt (c₁ ++ rest))).2 = pumpedFrom (nextToken (stateAt (c₂ ++ rest))).2 := by
  obtain ⟨a1, a2⟩ := keyword_tok k hk c₁ v₁ rest hrest (fun _ => hq) (ent_stateAt _)
  obtain ⟨b1, b2⟩ := keyword_tok k hk c₂ v₂ rest hrest (fun _ => hq) (ent_stateAt _)
  exact ⟨by rw [kind_of_kvq a1, kind_of_kvq b1], pumpedFrom_core (a2.coreEq b2)⟩

/-! ## 6. a white-space rune ends the token before it -/

/-- identifiers and keywords: `body` spells the runes `r0 :: rs` (first one `isIdentStart`, all `isIdentChar`),
then a white-space rune (`w`), then anything. -/
theorem token_ends_at_ws_ident (body : Bytes) (r0 : Nat) (rs : List Nat) (hb : Spells body (r0 :: rs))
    (h0 : isIdentStart r0 = true) (hall : ∀ r ∈ r0 :: rs, isIdentChar r = true)
    (w : Bytes) (r : Nat) (hw : Dec w r) (hr : isWs r = true) (rest : Bytes)
    (s : LState) (hs : Ent s (body ++ (w ++ rest))) :
    (nextToken s).1.kvq = (lookupIdent (enc (r0 :: rs)), enc (r0 :: rs), false) ∧ Ent (nextToken s).2 (w ++ rest) :=
  ident_ends_at_ws hb h0 hall hw hr rest hs

/-- ASCII decimal integers. -/
theorem token_ends_at_ws_int (ds : Bytes) (hne : ds ≠ []) (hds : ∀ b ∈ ds, 48 ≤ b.toNat ∧ b.toNat ≤ 57)
    (w : Bytes) (r : Nat) (hw : Dec w r) (hr : isWs r = true) (rest : Bytes)
    (s : LState) (hs : Ent s (ds ++ (w ++ rest))) :
    (nextToken s).1.kvq = (tNUMBER, ds, false) ∧ Ent (nextToken s).2 (w ++ rest) :=
  int_ends_at_ws hne hds hw hr rest hs

/-- the 30 operator / punctuation spellings of `opTable`
(`+ * / % ( ) [ ] } , ; ? ^ - = ! < > | : . -> == != <= <> >= || :: <=>`). -/
theorem token_ends_at_ws_op (e : Bytes × Nat) (hmem : e ∈ opTable)
    (w : Bytes) (r : Nat) (hw : Dec w r) (hr : isWs r = true) (rest : Bytes)
    (s : LState) (hs : Ent s (e.1 ++ (w ++ rest))) :
    (nextToken s).1.kvq = (e.2, e.1, false) ∧ Ent (nextToken s).2 (w ++ rest) :=
  op_ends_at_ws e hmem hw hr rest hs

/-! ## 7. the full statement on the simple-token fragment -/

/-- `SameTokens a b`: `a` and `b` consist of the same simple tokens (`SimpleTok`: identifiers/keywords, decimal
integers, operators/punctuation), each followed by a gap that begins with a white-space rune — possibly different
gaps in `a` and `b` — with arbitrary gaps where no token precedes, and a common tail. The parser sees the same
stream. -/
theorem gap_invariance_simple_tokens (a b : Bytes) (h : SameTokens a b) :
    pumpedFrom (stateAt a) = pumpedFrom (stateAt b) :=
  h.pumped (ent_stateAt a) (ent_stateAt b)

/-! ## non-vacuity -/

/-- `x1 \n` … : identifier `x1` before a newline. -/
example (rest : Bytes) : (nextToken (stateAt ([120, 49] ++ ([10] ++ rest)))).1.kvq = (tIDENT, [120, 49], false) := by
  have := (token_ends_at_ws_ident [120, 49] 120 [49] (spells_ascii (bs := [120, 49]) (by decide)) (by decide)
    (by decide) [10] 10 dec10 (by decide) rest _ (ent_stateAt _)).1
  rw [this]
  decide +kernel

example (rest : Bytes) : (nextToken (stateAt ([52, 50] ++ ([32] ++ rest)))).1.kvq = (tNUMBER, [52, 50], false) :=
  (token_ends_at_ws_int [52, 50] (by decide) (by decide) [32] 32 (dec_ascii (b := 32) (by decide)) (by decide) rest _
    (ent_stateAt _)).1

example (rest : Bytes) : (nextToken (stateAt ([60, 61] ++ ([9] ++ rest)))).1.kvq = (tLTE, [60, 61], false) :=
  (token_ends_at_ws_op ([60, 61], tLTE) (by decide) [9] 9 (dec_ascii (b := 9) (by decide)) (by decide) rest _
    (ent_stateAt _)).1

/-- `a + 1 ` with single blanks versus `a\t/*c*/+\n1 -- x\n`, common tail arbitrary. -/
example (rest : Bytes) :
    pumpedFrom (stateAt ([97] ++ ([32] ++ ([43] ++ ([32] ++ ([49] ++ ([32] ++ rest))))))) =
    pumpedFrom (stateAt ([97] ++ (([9] ++ (47 :: 42 :: [99, 42, 47])) ++ ([43] ++ ([10] ++ ([49] ++
      (([32] ++ (45 :: 45 :: [32, 120] ++ [10])) ++ rest))))))) := by
  apply gap_invariance_simple_tokens
  have wsg : ∀ b : UInt8, b.toNat < 128 → isWs b.toNat = true → ∀ g', Gap g' → WsGap ([b] ++ g') :=
    fun b hb hw g' hg => ⟨[b], b.toNat, g', rfl, dec_ascii hb, hw, hg⟩
  have sp : WsGap [32] := wsg 32 (by decide) (by decide) [] Gap.nil
  have nl : WsGap [10] := wsg 10 (by decide) (by decide) [] Gap.nil
  have tA : SimpleTok [97] _ := SimpleTok.ident (r0 := 97) (rs := []) (spells_ascii (bs := [97]) (by decide)) (by decide) (by decide)
  have tP : SimpleTok [43] _ := SimpleTok.op (e := ([43], tPLUS)) (by decide)
  have t1 : SimpleTok [49] (tNUMBER, [49], false) := SimpleTok.int (by decide) (by decide)
  refine SameTokens.tok tA sp (wsg 9 (by decide) (by decide) _
      (Gap.item (GapItem.block (rs := [99, 42, 47]) (spells_ascii (bs := [99, 42, 47]) (by decide)) (by simp [closesExactly]))))
    (SameTokens.tok tP sp nl (SameTokens.tok t1 sp (wsg 32 (by decide) (by decide) _
      (Gap.item (GapItem.dash (rs := [32, 120]) (spells_ascii (bs := [32, 120]) (by decide)) (by unfold lineBodyOk; decide))))
      (SameTokens.tail rest)))


/-- two states that differ in all three position fields only. -/
example :
    let s : LState := { rest := [32, 49], ch := 97, off := 1, line := 1, col := 1, eof := false }
    let s' : LState := { rest := [32, 49], ch := 97, off := 77, line := 5, col := 9, eof := false }
    (nextToken s).1.kvq = (nextToken s').1.kvq ∧ (nextToken s).2.core = (nextToken s').2.core :=
  lex_pos_irrelevant _ _ rfl

#guard
  let s : LState := { rest := [32, 49], ch := 97, off := 1, line := 1, col := 1, eof := false }
  (nextToken s).1.kvq == (tIDENT, [97], false) && (nextToken s).2.core == ([49], 32, false)

/-- `" \t"` and `"\n"` (and U+00A0, U+FEFF) before `1`. -/
example : pumpedFrom (stateAt (enc [32, 9] ++ [49])) = pumpedFrom (stateAt (enc [10, 0xA0, 0xFEFF] ++ [49])) :=
  gap_whitespace_invariance [32, 9] [10, 0xA0, 0xFEFF] (by decide) (by decide) (by decide) (by decide) [49]

example : Ent (skipWhitespace (stateAt ([32, 9] ++ [49]))) [49] :=
  skipWhitespace_run [32, 9] [32, 9] (spells_ascii (by decide)) (by decide) [49] (by decide) _ (ent_stateAt _)

/-- the gap `" --c;\n/*;/*n*/*/\t#x\n"`. -/
def exGap : Bytes :=
  [32] ++ ((45 :: 45 :: [99, 59] ++ [10]) ++ ((47 :: 42 :: [59, 47, 42, 110, 42, 47, 42, 47]) ++ ([9] ++
    ((35 :: [120] ++ [10]) ++ []))))

theorem exGap_gap : Gap exGap :=
  Gap.cons (GapItem.ws (r := 32) (dec_ascii (b := 32) (by decide)) (by decide))
  (Gap.cons (GapItem.dash (rs := [99, 59]) (spells_ascii (bs := [99, 59]) (by decide)) (by unfold lineBodyOk; decide))
  (Gap.cons (GapItem.block (rs := [59, 47, 42, 110, 42, 47, 42, 47])
      (spells_ascii (bs := [59, 47, 42, 110, 42, 47, 42, 47]) (by decide)) (by simp [closesExactly]))
  (Gap.cons (GapItem.ws (r := 9) (dec_ascii (b := 9) (by decide)) (by decide))
  (Gap.cons (GapItem.hash (rs := [120]) (spells_ascii (bs := [120]) (by decide)) (by unfold lineBodyOk; decide))
  Gap.nil))))

/-- that gap versus a single blank, in front of `SELECT 1` (`rest` arbitrary). -/
example (rest : Bytes) : pumpedFrom (stateAt (exGap ++ rest)) = pumpedFrom (stateAt ([32] ++ rest)) :=
  gap_invariance_partial_input exGap [32] exGap_gap
    (Gap.item (GapItem.ws (r := 32) (dec_ascii (b := 32) (by decide)) (by decide))) rest

#guard pumpedFrom (stateAt (exGap ++ strBytes "SELECT 1")) ==
  [(tSELECT, strBytes "SELECT", false), (tNUMBER, strBytes "1", false), (tEOF, [], false)]
-- evaluated instances of the part that is NOT proved in general (token before the gap):
#guard pumpedFrom (stateAt (strBytes "SELECT" ++ exGap ++ strBytes "1")) == pumpedFrom (stateAt (strBytes "SELECT 1"))
#guard pumpedFrom (stateAt (strBytes "a /* x */ + -- y\n b")) == pumpedFrom (stateAt (strBytes "a\t+\nb"))

/-- a simple block comment body `" ; * x "`. -/
example (rest : Bytes) (x : LState) (hx : Ent x rest) :
    pumpedFrom (stateAt (47 :: 42 :: (enc [32, 59, 42, 120] ++ [42, 47]) ++ rest)) = pumpedFrom x :=
  gap_comment_invariance_block_simple [32, 59, 42, 120] (by decide) (by decide) rest _ x (ent_stateAt _) hx

/-- `sElEcT` is a case variant of SELECT, a keyword of today's table. -/
theorem ex_variant : CaseVariant [115, 69, 108, 69, 99, 84] tSELECT := by unfold CaseVariant; decide +kernel

example : (nextToken (stateAt ([115, 69, 108, 69, 99, 84] ++ [32, 49]))).1.kvq =
    (tSELECT, [115, 69, 108, 69, 99, 84], false) :=
  (keyword_case_nextToken tSELECT (by decide +kernel) _ ex_variant [32, 49] (by decide) (by decide) _
    (ent_stateAt _)).1

#guard (lex (strBytes "sElEcT 1")).map Tok.kvq ==
  [(tSELECT, strBytes "sElEcT", false), (tNUMBER, strBytes "1", false), (tEOF, [], false)]

end DC.Props.C05
