import DC.Proofs.LexerLayoutEnds2

/-!
# C05 — layout does not matter (lexer-level part): `token_ends_at_ws` for the remaining scanners

Continuation of `DC/Props/C05.lean` §6-7 (`token_ends_at_ws_ident/_int/_op`, `gap_invariance_simple_tokens`).
Every theorem `token_ends_at_ws_X` has the same shape: the lexer state `s` stands on the first rune of
`text ++ (w ++ rest)` (`Ent`), `w` is the encoding of a white-space rune `r` (`Dec w r`, `isWs r`), `rest` is arbitrary;
then `NextToken` answers the stated `(kind, value, quoted)` and stands on `w` — nothing after the white-space rune was
looked at, and it does not matter which white-space rune it is.

Classes covered here (`WsTok`, in addition to identifiers/keywords, ASCII integers, the 30 operator spellings):

* `'…'` with plain runes, `''`, `\c` (table and non-table escapes), `\xHH`; `"…"` with `""`, `\c`; `` `…` `` like `'…'`;
  `{…}`; `‘…’`, `“…”` (closed by U+2019 / U+201D). These end at the closing delimiter whatever follows (`'`, `"`,
  `` ` ``: whatever but the same quote): `token_closed_*`.
* `@`, `@@`, `@@name`.
* numbers through `readNumberOrIdent`: `D+(_D+)*` then nothing / `.` / `.D+(_D+)*` / `(e|E)[+-]D+(_D+)*` / fraction
  and exponent (value without the `_`); `0x` + hex digits and `_` (possibly none) + optional `.hex*` + optional
  `(p|P)[+-]D*`; `0b` + `0|1` + `(0|1|_)*`; `0o` + `(0-7|_)*` (values as written). ASCII digits only.
* numbers through `readDot`/`readNumber`: `.D+` + optional exponent, AT MOST 28 DIGITS (`isIdentifierAfterDot`'s
  32-byte window must contain the digits, the exponent letter and the character after it, or the whole white-space
  rune; `.` + 31 digits + `e5` really lexes as `DOT`, see the `#guard` below).
* digit-initial identifiers: `D+_x…` (`x` ASCII letter or `_`), `D+x…` (`x` any letter; if it is `e`/`E` the rune
  after it is not an ASCII digit — `1e`, `1ex` are identifiers, `1e5` is a number; not a base-prefix letter
  `x X b B o O` after a lone `0`).
* `$`-initial identifiers for which `tryReadDollarTag` answers "no tag" WITHOUT its 4096-byte search: `$`, `$1…`
  (rune after `$` not a letter / `_`), `$name` (tag characters only, ≤ 4092 bytes, followed by the white space).

NOT covered:
* `$tag$…` identifiers such as `$alias$name$`: there `tryReadDollarTag` searches the next 4096 bytes for a closing
  `$tag$`, looks past the gap, and the statement is FALSE for them — a comment that contains `$a$` turns the identifier
  `$a$` into a here-document (`#guard`s below; the real lexer does the same); here-documents `$$…$$`, `$tag$…$tag$`;
* `x'…'` / `b'…'` strings; numbers with non-ASCII (Unicode `Nd`) digits; `.D+` with more than 28 digits;
* number spellings that the lexer accepts although a digit is missing (`1e+`, `1.5e`, `1_0e`: one NUMBER each, they
  do end at the white space, but no theorem here); `0b` not followed by `0`/`1` (two tokens);
* the `ILLEGAL` single runes;
* tokens NOT followed by white space (`f(x)`, `a,b`, `'a'--c`): there the gap is empty or begins with a comment, and
  "empty versus non-empty gap" changes the token sequence in general (`a b` / `ab`). For the closed tokens
  (`token_closed_*`: strings, quoted identifiers, `{…}`, `‘…’`, `“…”`) the token itself is proved to end at its closing
  delimiter whatever follows, but `SameToks` does not use that.

The fully general statement, still open (same as in `DC/Props/C05.lean`):

```
theorem gap_invariance (pre g₁ g₂ rest : Bytes) (h₁ : WsGap g₁) (h₂ : WsGap g₂)
    (hpre : `pre` ends in a complete token that is not `$tag$…`-shaped) :
    pumpedFrom (stateAt (pre ++ g₁ ++ rest)) = pumpedFrom (stateAt (pre ++ g₂ ++ rest))
```

`gap_invariance_tokens` is this statement for `pre` (and `rest`, up to a common tail) made of `WsTok` tokens each
followed by a gap that begins with white space. Missing for the general one: the classes listed under "NOT covered",
and a locality theorem for tokens inside `pre` that are directly followed by another token (no gap at all in both
texts: their scanners' look-ahead — `peekChar`, the 32-byte window, the 4096-byte window — stays inside `pre`).
-/

namespace DC.Props.C05Ends

open DC DC.Lexer DC.Utf8 DC.Gen.Tokens

/-! ## 1. strings -/

/-- `'body'` closed, followed by any rune but `'`: the token ends at the closing quote. -/
theorem token_closed_string (body val : Bytes) (hb : QBody false 39 [39] body val) (rest : Bytes)
    (hrest : firstRune rest ≠ 39) (s : LState) (hs : Ent s (39 :: body ++ 39 :: rest)) :
    (nextToken s).1.kvq = (tSTRING, val, false) ∧ Ent (nextToken s).2 rest :=
  string_tok_esc hb rest hrest hs

theorem token_ends_at_ws_string (body val : Bytes) (hb : QBody false 39 [39] body val)
    (w : Bytes) (r : Nat) (hw : Dec w r) (hr : isWs r = true) (rest : Bytes)
    (s : LState) (hs : Ent s ((39 :: body ++ [39]) ++ (w ++ rest))) :
    (nextToken s).1.kvq = (tSTRING, val, false) ∧ Ent (nextToken s).2 (w ++ rest) :=
  string_ends_at_ws hb hw hr rest hs

/-! ## 2. quoted identifiers -/

theorem token_closed_dquote (body val : Bytes) (hb : DBody body val) (rest : Bytes)
    (hrest : firstRune rest ≠ 34) (s : LState) (hs : Ent s (34 :: body ++ 34 :: rest)) :
    (nextToken s).1.kvq = (tIDENT, val, true) ∧ Ent (nextToken s).2 rest :=
  dquote_tok_esc hb rest hrest hs

theorem token_ends_at_ws_dquote (body val : Bytes) (hb : DBody body val)
    (w : Bytes) (r : Nat) (hw : Dec w r) (hr : isWs r = true) (rest : Bytes)
    (s : LState) (hs : Ent s ((34 :: body ++ [34]) ++ (w ++ rest))) :
    (nextToken s).1.kvq = (tIDENT, val, true) ∧ Ent (nextToken s).2 (w ++ rest) :=
  dquote_ends_at_ws hb hw hr rest hs

theorem token_closed_backtick (body val : Bytes) (hb : QBody true 96 [96] body val) (rest : Bytes)
    (hrest : firstRune rest ≠ 96) (s : LState) (hs : Ent s (96 :: body ++ 96 :: rest)) :
    (nextToken s).1.kvq = (tIDENT, val, false) ∧ Ent (nextToken s).2 rest :=
  backtick_tok_esc hb rest hrest hs

theorem token_ends_at_ws_backtick (body val : Bytes) (hb : QBody true 96 [96] body val)
    (w : Bytes) (r : Nat) (hw : Dec w r) (hr : isWs r = true) (rest : Bytes)
    (s : LState) (hs : Ent s ((96 :: body ++ [96]) ++ (w ++ rest))) :
    (nextToken s).1.kvq = (tIDENT, val, false) ∧ Ent (nextToken s).2 (w ++ rest) :=
  backtick_ends_at_ws hb hw hr rest hs

/-! ## 3. `{…}`, `‘…’`, `“…”`: closed by their delimiter, whatever follows -/

theorem token_closed_param (body : Bytes) (rs : List Nat) (hb : Spells body rs) (hno : ∀ x ∈ rs, x ≠ 125)
    (rest : Bytes) (s : LState) (hs : Ent s ((123 :: body ++ [125]) ++ rest)) :
    (nextToken s).1.kvq = (tPARAM, enc rs, false) ∧ Ent (nextToken s).2 rest :=
  param_tok hb hno rest hs

theorem token_closed_ustring (op qb body : Bytes) (o : Nat) (rs : List Nat) (ho : Dec op o)
    (ho' : o = 0x2018 ∨ o = 0x2019) (hq : Dec qb 0x2019) (hb : Spells body rs) (hno : ∀ x ∈ rs, x ≠ 0x2019)
    (rest : Bytes) (s : LState) (hs : Ent s ((op ++ body ++ qb) ++ rest)) :
    (nextToken s).1.kvq = (tSTRING, enc rs, false) ∧ Ent (nextToken s).2 rest :=
  ustring_tok ho ho' hq hb hno rest hs

theorem token_closed_uquoted (op qb body : Bytes) (o : Nat) (rs : List Nat) (ho : Dec op o)
    (ho' : o = 0x201C ∨ o = 0x201D) (hq : Dec qb 0x201D) (hb : Spells body rs) (hno : ∀ x ∈ rs, x ≠ 0x201D)
    (rest : Bytes) (s : LState) (hs : Ent s ((op ++ body ++ qb) ++ rest)) :
    (nextToken s).1.kvq = (tIDENT, enc rs, true) ∧ Ent (nextToken s).2 rest :=
  uquoted_tok ho ho' hq hb hno rest hs

/-! ## 4. `@`, `@@`, `@@name` (`?`, `^`, `::` and all other two-character operators are already in `opTable`) -/

theorem token_ends_at_ws_at (w : Bytes) (r : Nat) (hw : Dec w r) (hr : isWs r = true) (rest : Bytes)
    (s : LState) (hs : Ent s ([64] ++ (w ++ rest))) :
    (nextToken s).1.kvq = (tIDENT, [64], false) ∧ Ent (nextToken s).2 (w ++ rest) :=
  at_ends_at_ws hw hr rest hs

theorem token_ends_at_ws_atat (w : Bytes) (r : Nat) (hw : Dec w r) (hr : isWs r = true) (rest : Bytes)
    (s : LState) (hs : Ent s ([64, 64] ++ (w ++ rest))) :
    (nextToken s).1.kvq = (tIDENT, [64, 64], false) ∧ Ent (nextToken s).2 (w ++ rest) :=
  atat_ends_at_ws hw hr rest hs

theorem token_ends_at_ws_atname (body : Bytes) (r0 : Nat) (rs : List Nat) (hb : Spells body (r0 :: rs))
    (h0 : (isIdentStart r0 || isDigit r0) = true) (hall : ∀ x ∈ r0 :: rs, isIdentChar x = true)
    (w : Bytes) (r : Nat) (hw : Dec w r) (hr : isWs r = true) (rest : Bytes)
    (s : LState) (hs : Ent s ((64 :: 64 :: body) ++ (w ++ rest))) :
    (nextToken s).1.kvq = (tIDENT, 64 :: 64 :: enc (r0 :: rs), false) ∧ Ent (nextToken s).2 (w ++ rest) :=
  atname_ends_at_ws hb h0 hall hw hr rest hs

/-! ## 5. numbers

`Digs ds`: ASCII digits. `UsGroups g gv`: `g = (_ D+)*`, `gv` its digits. `DigUs t v`: `t = D+(_D+)*`, `v` its digits.
`Exp e ev`: `e = (e|E)[+-] DigUs`. `FracExp fe fv`: `fe` is empty, `.`, `. DigUs`, `Exp`, or `. DigUs Exp`.
`HexFrac`: empty or `.` + hex digits. `HexExp`: empty or `(p|P)[+-]D*`. `ExpOpt`: empty or `Exp`. -/

theorem token_ends_at_ws_dec (ds g gv fe fv : Bytes) (hne : ds ≠ []) (hd : Digs ds) (hg : UsGroups g gv)
    (hf : FracExp fe fv) (w : Bytes) (r : Nat) (hw : Dec w r) (hr : isWs r = true) (rest : Bytes)
    (s : LState) (hs : Ent s ((ds ++ g ++ fe) ++ (w ++ rest))) :
    (nextToken s).1.kvq = (tNUMBER, ds ++ gv ++ fv, false) ∧ Ent (nextToken s).2 (w ++ rest) :=
  dec_ends_at_ws hne hd hg hf hw hr rest hs

theorem token_ends_at_ws_hex (c : UInt8) (hc : c = 120 ∨ c = 88) (h fr ex : Bytes) (hh : ∀ b ∈ h, HexB b ∨ b = 95)
    (hfr : HexFrac fr) (hex : HexExp ex) (w : Bytes) (r : Nat) (hw : Dec w r) (hr : isWs r = true) (rest : Bytes)
    (s : LState) (hs : Ent s ((48 :: c :: (h ++ fr ++ ex)) ++ (w ++ rest))) :
    (nextToken s).1.kvq = (tNUMBER, 48 :: c :: (h ++ fr ++ ex), false) ∧ Ent (nextToken s).2 (w ++ rest) :=
  hex_ends_at_ws hc hh hfr hex hw hr rest hs

theorem token_ends_at_ws_bin (c d : UInt8) (hc : c = 98 ∨ c = 66) (hd : d = 48 ∨ d = 49) (bs : Bytes)
    (hbs : ∀ b ∈ bs, b = 48 ∨ b = 49 ∨ b = 95) (w : Bytes) (r : Nat) (hw : Dec w r) (hr : isWs r = true)
    (rest : Bytes) (s : LState) (hs : Ent s ((48 :: c :: d :: bs) ++ (w ++ rest))) :
    (nextToken s).1.kvq = (tNUMBER, 48 :: c :: d :: bs, false) ∧ Ent (nextToken s).2 (w ++ rest) :=
  bin_ends_at_ws hc hd hbs hw hr rest hs

theorem token_ends_at_ws_oct (c : UInt8) (hc : c = 111 ∨ c = 79) (os : Bytes)
    (hos : ∀ b ∈ os, (48 ≤ b.toNat ∧ b.toNat ≤ 55) ∨ b = 95) (w : Bytes) (r : Nat) (hw : Dec w r)
    (hr : isWs r = true) (rest : Bytes) (s : LState) (hs : Ent s ((48 :: c :: os) ++ (w ++ rest))) :
    (nextToken s).1.kvq = (tNUMBER, 48 :: c :: os, false) ∧ Ent (nextToken s).2 (w ++ rest) :=
  oct_ends_at_ws hc hos hw hr rest hs

/-- `.D+` + optional exponent; at most 28 digits (the 32-byte window of `isIdentifierAfterDot`). -/
theorem token_ends_at_ws_dotnum (ds e ev : Bytes) (hne : ds ≠ []) (hd : Digs ds) (hn : ds.length ≤ 28)
    (hexp : ExpOpt e ev) (w : Bytes) (r : Nat) (hw : Dec w r) (hr : isWs r = true) (rest : Bytes)
    (s : LState) (hs : Ent s ((46 :: ds ++ e) ++ (w ++ rest))) :
    (nextToken s).1.kvq = (tNUMBER, 46 :: ds ++ ev, false) ∧ Ent (nextToken s).2 (w ++ rest) :=
  dotnum_ends_at_ws hne hd hn hexp hw hr rest hs

/-! ## 6. digit-initial identifiers -/

theorem token_ends_at_ws_digident_us (ds body : Bytes) (r0 : Nat) (rs : List Nat) (hne : ds ≠ []) (hd : Digs ds)
    (hb : Spells body (r0 :: rs)) (h0lt : r0 < 128) (h0 : isLetter r0 = true ∨ r0 = 95)
    (hall : ∀ x ∈ r0 :: rs, isIdentChar x = true)
    (w : Bytes) (r : Nat) (hw : Dec w r) (hr : isWs r = true) (rest : Bytes)
    (s : LState) (hs : Ent s ((ds ++ 95 :: body) ++ (w ++ rest))) :
    (nextToken s).1.kvq = (tIDENT, ds ++ 95 :: enc (r0 :: rs), false) ∧ Ent (nextToken s).2 (w ++ rest) :=
  digIdentUs_ends_at_ws hne hd hb h0lt h0 hall hw hr rest hs

theorem token_ends_at_ws_digident (ds body : Bytes) (r0 : Nat) (rs : List Nat) (hne : ds ≠ []) (hd : Digs ds)
    (hb : Spells body (r0 :: rs)) (h0 : isLetter r0 = true)
    (hexp : (r0 = 101 ∨ r0 = 69) → ∀ r1 rs', rs = r1 :: rs' → ¬(48 ≤ r1 ∧ r1 ≤ 57))
    (hbase : ds = [48] → r0 ≠ 120 ∧ r0 ≠ 88 ∧ r0 ≠ 98 ∧ r0 ≠ 66 ∧ r0 ≠ 111 ∧ r0 ≠ 79)
    (hall : ∀ x ∈ r0 :: rs, isIdentChar x = true)
    (w : Bytes) (r : Nat) (hw : Dec w r) (hr : isWs r = true) (rest : Bytes)
    (s : LState) (hs : Ent s ((ds ++ body) ++ (w ++ rest))) :
    (nextToken s).1.kvq = (tIDENT, ds ++ enc (r0 :: rs), false) ∧ Ent (nextToken s).2 (w ++ rest) :=
  digIdent_ends_at_ws hne hd hb h0 hexp hbase hall hw hr rest hs

/-! ## 7. `$`-initial identifiers without a tag search -/

/-- `$` alone (`rs = []`) or `$` + digit + identifier characters. -/
theorem token_ends_at_ws_dollar_digit (body : Bytes) (rs : List Nat) (hb : Spells body rs)
    (h0 : ∀ r0 rs', rs = r0 :: rs' → isDigit r0 = true) (hall : ∀ x ∈ rs, isIdentChar x = true)
    (w : Bytes) (r : Nat) (hw : Dec w r) (hr : isWs r = true) (rest : Bytes)
    (s : LState) (hs : Ent s ((36 :: body) ++ (w ++ rest))) :
    (nextToken s).1.kvq = (tIDENT, 36 :: enc rs, false) ∧ Ent (nextToken s).2 (w ++ rest) :=
  dollarDigit_ends_at_ws hb h0 hall hw hr rest hs

/-- `$name`, `name` made of tag characters (letters, digits, `_`), at most 4092 bytes. -/
theorem token_ends_at_ws_dollar_name (body : Bytes) (r0 : Nat) (rs : List Nat) (hb : Spells body (r0 :: rs))
    (h0 : isLetter r0 = true ∨ r0 = 95) (hall : ∀ x ∈ r0 :: rs, isTagChar x = true) (hlen : body.length ≤ 4092)
    (w : Bytes) (r : Nat) (hw : Dec w r) (hr : isWs r = true) (rest : Bytes)
    (s : LState) (hs : Ent s ((36 :: body) ++ (w ++ rest))) :
    (nextToken s).1.kvq = (tIDENT, 36 :: enc (r0 :: rs), false) ∧ Ent (nextToken s).2 (w ++ rest) :=
  dollarName_ends_at_ws hb h0 hall hlen hw hr rest hs

/-! ## 8. all classes at once, and the gap-exchange theorem -/

/-- `WsTok t T`: `t` is the text of a token of one of the classes above (or a `SimpleTok`), `T` its
`(kind, value, quoted)`. -/
theorem token_ends_at_ws (t : Bytes) (T : Nat × Bytes × Bool) (h : WsTok t T)
    (w : Bytes) (r : Nat) (hw : Dec w r) (hr : isWs r = true) (rest : Bytes)
    (s : LState) (hs : Ent s (t ++ (w ++ rest))) :
    (nextToken s).1.kvq = T ∧ Ent (nextToken s).2 (w ++ rest) :=
  h.ends_at_ws hw hr rest hs

/-- `SameToks a b`: `a` and `b` consist of the same `WsTok` tokens, each followed by a gap that begins with a
white-space rune — possibly different gaps (`Gap`: white space, `--…\n`, `#…\n`, nested `/*…*/`) in `a` and `b` — with
arbitrary gaps where no token precedes, and a common tail. The parser sees the same `(kind, value, quoted)` stream. -/
theorem gap_invariance_tokens (a b : Bytes) (h : SameToks a b) :
    pumpedFrom (stateAt a) = pumpedFrom (stateAt b) :=
  h.pumped (ent_stateAt a) (ent_stateAt b)

/-- the statement of `DC/Props/C05.lean` is the special case. -/
theorem gap_invariance_simple_tokens' (a b : Bytes) (h : SameTokens a b) :
    pumpedFrom (stateAt a) = pumpedFrom (stateAt b) :=
  gap_invariance_tokens a b h.toSameToks

/-! ## non-vacuity: every theorem on concrete bytes -/

theorem sp : Dec [32] 32 := dec_ascii (b := 32) (by decide)
theorem tb : Dec [9] 9 := dec_ascii (b := 9) (by decide)
/-- U+00A0 NO-BREAK SPACE, `C2 A0`. -/
theorem nbsp : Dec (encodeRune 0xA0) 0xA0 := dec_encodeRune (by decide)

/-- an ordinary ASCII character inside `'…'` / `` `…` ``. -/
theorem qplain (bt : Bool) (q : Nat) (qb : Bytes) (b : UInt8) (h : b.toNat < 128) (h1 : b.toNat ≠ q)
    (h2 : b.toNat ≠ 92) : QItem bt q qb [b] [b] := by
  have := QItem.plain (bt := bt) (q := q) (qb := qb) (dec_ascii h) h1 h2
  rwa [encodeRune_ascii b h] at this

/-- `it''s` ↦ `it's`. -/
theorem ex_its : QBody false 39 [39] [105, 116, 39, 39, 115] [105, 116, 39, 115] :=
  QBody.cons (i := [105]) (v := [105]) (qplain _ _ _ 105 (by decide) (by decide) (by decide))
    (QBody.cons (i := [116]) (v := [116]) (qplain _ _ _ 116 (by decide) (by decide) (by decide))
      (QBody.cons (i := [39, 39]) (v := [39]) QItem.dbl
        (QBody.cons (i := [115]) (v := [115]) (qplain _ _ _ 115 (by decide) (by decide) (by decide)) QBody.nil)))

/-- `a\nb\x41\q` ↦ `a`, LF, `b`, `A`, `\q`. -/
theorem ex_esc : QBody false 39 [39] [97, 92, 110, 98, 92, 120, 52, 49, 92, 113] [97, 10, 98, 65, 92, 113] :=
  QBody.cons (i := [97]) (v := [97]) (qplain _ _ _ 97 (by decide) (by decide) (by decide))
    (QBody.cons (i := [92, 110]) (v := [10])
      (QItem.esc (p := [110]) (c := 110) (u := 10) (dec_ascii (b := 110) (by decide)) (by decide) (by decide))
      (QBody.cons (i := [98]) (v := [98]) (qplain _ _ _ 98 (by decide) (by decide) (by decide))
        (QBody.cons (i := [92, 120, 52, 49]) (v := [65])
          (QItem.hex (p1 := [52]) (p2 := [49]) (h1 := 52) (h2 := 49) (dec_ascii (b := 52) (by decide))
            (dec_ascii (b := 49) (by decide)))
          (QBody.cons (i := [92, 113]) (v := [92, 113])
            (QItem.keep (p := [113]) (c := 113) (dec_ascii (b := 113) (by decide)) (by decide) (by decide))
            QBody.nil))))

/-- `'it''s'` before a newline. -/
example (rest : Bytes) :
    (nextToken (stateAt ((39 :: [105, 116, 39, 39, 115] ++ [39]) ++ ([10] ++ rest)))).1.kvq =
      (tSTRING, [105, 116, 39, 115], false) :=
  (token_ends_at_ws_string _ _ ex_its [10] 10 dec10 (by decide) rest _ (ent_stateAt _)).1

/-- `'a\nb\x41\q'` before U+00A0; and directly before `)`. -/
example (rest : Bytes) :
    (nextToken (stateAt ((39 :: [97, 92, 110, 98, 92, 120, 52, 49, 92, 113] ++ [39]) ++ (encodeRune 0xA0 ++ rest)))).1.kvq =
      (tSTRING, [97, 10, 98, 65, 92, 113], false) :=
  (token_ends_at_ws_string _ _ ex_esc _ 0xA0 nbsp (by decide) rest _ (ent_stateAt _)).1

example (rest : Bytes) :
    (nextToken (stateAt (39 :: [105, 116, 39, 39, 115] ++ 39 :: (41 :: rest)))).1.kvq =
      (tSTRING, [105, 116, 39, 115], false) :=
  (token_closed_string _ _ ex_its (41 :: rest) (by rw [firstRune_cons_ascii 41 rest (by decide)]; decide) _
    (ent_stateAt _)).1

/-- `"a""b\c"` ↦ `a"bc`, quoted. -/
theorem ex_dq : DBody [97, 34, 34, 98, 92, 99] [97, 34, 98, 99] :=
  DBody.cons (i := [97]) (v := [97]) (DItem.plain (p := [97]) (r := 97) (dec_ascii (b := 97) (by decide)) (by decide) (by decide))
    (DBody.cons (i := [34, 34]) (v := [34]) DItem.dbl
      (DBody.cons (i := [98]) (v := [98]) (DItem.plain (p := [98]) (r := 98) (dec_ascii (b := 98) (by decide)) (by decide) (by decide))
        (DBody.cons (i := [92, 99]) (v := [99]) (DItem.esc (p := [99]) (c := 99) (dec_ascii (b := 99) (by decide)))
          DBody.nil)))

example (rest : Bytes) :
    (nextToken (stateAt ((34 :: [97, 34, 34, 98, 92, 99] ++ [34]) ++ ([9] ++ rest)))).1.kvq =
      (tIDENT, [97, 34, 98, 99], true) :=
  (token_ends_at_ws_dquote _ _ ex_dq [9] 9 tb (by decide) rest _ (ent_stateAt _)).1

example (rest : Bytes) :
    (nextToken (stateAt (34 :: [97, 34, 34, 98, 92, 99] ++ 34 :: (46 :: rest)))).1.kvq = (tIDENT, [97, 34, 98, 99], true) :=
  (token_closed_dquote _ _ ex_dq (46 :: rest) (by rw [firstRune_cons_ascii 46 rest (by decide)]; decide) _
    (ent_stateAt _)).1

/-- `` `a\`b` `` ↦ ``a`b``, not flagged quoted (lexer.go:783). -/
theorem ex_bt : QBody true 96 [96] [97, 92, 96, 98] [97, 96, 98] :=
  QBody.cons (i := [97]) (v := [97]) (qplain _ _ _ 97 (by decide) (by decide) (by decide))
    (QBody.cons (i := [92, 96]) (v := [96])
      (QItem.esc (p := [96]) (c := 96) (u := 96) (dec_ascii (b := 96) (by decide)) (by decide) (by decide))
      (QBody.cons (i := [98]) (v := [98]) (qplain _ _ _ 98 (by decide) (by decide) (by decide)) QBody.nil))

example (rest : Bytes) :
    (nextToken (stateAt ((96 :: [97, 92, 96, 98] ++ [96]) ++ ([32] ++ rest)))).1.kvq = (tIDENT, [97, 96, 98], false) :=
  (token_ends_at_ws_backtick _ _ ex_bt [32] 32 sp (by decide) rest _ (ent_stateAt _)).1

example (rest : Bytes) :
    (nextToken (stateAt (96 :: [97, 92, 96, 98] ++ 96 :: (44 :: rest)))).1.kvq = (tIDENT, [97, 96, 98], false) :=
  (token_closed_backtick _ _ ex_bt (44 :: rest) (by rw [firstRune_cons_ascii 44 rest (by decide)]; decide) _
    (ent_stateAt _)).1

/-- `{x:UInt8}` followed by anything. -/
example (rest : Bytes) :
    (nextToken (stateAt ((123 :: [120, 58, 85, 73, 110, 116, 56] ++ [125]) ++ rest))).1.kvq =
      (tPARAM, [120, 58, 85, 73, 110, 116, 56], false) := by
  have := (token_closed_param [120, 58, 85, 73, 110, 116, 56] _
    (spells_ascii (bs := [120, 58, 85, 73, 110, 116, 56]) (by decide)) (by decide) rest _ (ent_stateAt _)).1
  rwa [enc_ascii (by decide)] at this

/-- `‘a;’` and `“a b”` followed by anything. -/
example (rest : Bytes) :
    (nextToken (stateAt ((encodeRune 0x2018 ++ [97, 59] ++ encodeRune 0x2019) ++ rest))).1.kvq =
      (tSTRING, [97, 59], false) := by
  have := (token_closed_ustring _ _ [97, 59] 0x2018 _ (dec_encodeRune (by decide)) (Or.inl rfl)
    (dec_encodeRune (by decide)) (spells_ascii (bs := [97, 59]) (by decide)) (by decide) rest _ (ent_stateAt _)).1
  rwa [enc_ascii (by decide)] at this

example (rest : Bytes) :
    (nextToken (stateAt ((encodeRune 0x201C ++ [97, 32, 98] ++ encodeRune 0x201D) ++ rest))).1.kvq =
      (tIDENT, [97, 32, 98], true) := by
  have := (token_closed_uquoted _ _ [97, 32, 98] 0x201C _ (dec_encodeRune (by decide)) (Or.inl rfl)
    (dec_encodeRune (by decide)) (spells_ascii (bs := [97, 32, 98]) (by decide)) (by decide) rest _ (ent_stateAt _)).1
  rwa [enc_ascii (by decide)] at this

/-- `@ `, `@@\n`, `@@version `. -/
example (rest : Bytes) : (nextToken (stateAt ([64] ++ ([32] ++ rest)))).1.kvq = (tIDENT, [64], false) :=
  (token_ends_at_ws_at [32] 32 sp (by decide) rest _ (ent_stateAt _)).1

example (rest : Bytes) : (nextToken (stateAt ([64, 64] ++ ([10] ++ rest)))).1.kvq = (tIDENT, [64, 64], false) :=
  (token_ends_at_ws_atat [10] 10 dec10 (by decide) rest _ (ent_stateAt _)).1

example (rest : Bytes) :
    (nextToken (stateAt ((64 :: 64 :: [118, 101, 114]) ++ ([32] ++ rest)))).1.kvq =
      (tIDENT, 64 :: 64 :: [118, 101, 114], false) := by
  have := (token_ends_at_ws_atname [118, 101, 114] 118 [101, 114] (spells_ascii (bs := [118, 101, 114]) (by decide))
    (by decide) (by decide) [32] 32 sp (by decide) rest _ (ent_stateAt _)).1
  rwa [show enc (118 :: [101, 114]) = [118, 101, 114] from enc_ascii (bs := [118, 101, 114]) (by decide)] at this

/-! ### numbers -/

theorem dg (ds : Bytes) (h : ds.all (fun b => decide (48 ≤ b.toNat) && decide (b.toNat ≤ 57)) = true) : Digs ds := by
  intro b hb
  have := List.all_eq_true.1 h b hb
  simpa using this

/-- `000` as a further `_` group. -/
theorem ex_g : UsGroups (95 :: [48, 48, 48] ++ []) ([48, 48, 48] ++ []) :=
  UsGroups.cons (by decide) (dg _ (by decide)) UsGroups.nil

theorem du (ds : Bytes) (hne : ds ≠ []) (h : Digs ds) : DigUs (ds ++ []) (ds ++ []) := DigUs.mk hne h UsGroups.nil

/-- `e-3`. -/
theorem ex_exp : Exp (101 :: [45] ++ ([51] ++ [])) (101 :: [45] ++ ([51] ++ [])) :=
  Exp.mk (Or.inl rfl) Sign.minus (du [51] (by decide) (dg _ (by decide)))

/-- `1_000.5e-3 ` ↦ `1000.5e-3`. -/
example (rest : Bytes) :
    (nextToken (stateAt (([49] ++ (95 :: [48, 48, 48] ++ []) ++ (46 :: ([53] ++ []) ++ (101 :: [45] ++ ([51] ++ [])))) ++
      ([32] ++ rest)))).1.kvq = (tNUMBER, [49, 48, 48, 48, 46, 53, 101, 45, 51], false) :=
  (token_ends_at_ws_dec [49] _ _ _ _ (by decide) (dg _ (by decide)) ex_g
    (FracExp.fracExp (du [53] (by decide) (dg _ (by decide))) ex_exp) [32] 32 sp (by decide) rest _ (ent_stateAt _)).1

/-- `007\n`, `1.\t`, `1.5 `, `1E+5 ` (`E+5` = `69 :: [43] ++ [53]`). -/
example (rest : Bytes) :
    (nextToken (stateAt (([48, 48, 55] ++ [] ++ []) ++ ([10] ++ rest)))).1.kvq = (tNUMBER, [48, 48, 55], false) :=
  (token_ends_at_ws_dec [48, 48, 55] _ _ _ _ (by decide) (dg _ (by decide)) UsGroups.nil FracExp.none [10] 10 dec10
    (by decide) rest _ (ent_stateAt _)).1

example (rest : Bytes) :
    (nextToken (stateAt (([49] ++ [] ++ [46]) ++ ([9] ++ rest)))).1.kvq = (tNUMBER, [49, 46], false) :=
  (token_ends_at_ws_dec [49] _ _ _ _ (by decide) (dg _ (by decide)) UsGroups.nil FracExp.dot [9] 9 tb
    (by decide) rest _ (ent_stateAt _)).1

example (rest : Bytes) :
    (nextToken (stateAt (([49] ++ [] ++ (46 :: ([53] ++ []))) ++ (encodeRune 0xA0 ++ rest)))).1.kvq =
      (tNUMBER, [49, 46, 53], false) :=
  (token_ends_at_ws_dec [49] _ _ _ _ (by decide) (dg _ (by decide)) UsGroups.nil
    (FracExp.frac (du [53] (by decide) (dg _ (by decide)))) _ 0xA0 nbsp (by decide) rest _ (ent_stateAt _)).1

example (rest : Bytes) :
    (nextToken (stateAt (([49] ++ [] ++ (69 :: [43] ++ ([53] ++ []))) ++ ([32] ++ rest)))).1.kvq =
      (tNUMBER, [49, 69, 43, 53], false) :=
  (token_ends_at_ws_dec [49] _ _ _ _ (by decide) (dg _ (by decide)) UsGroups.nil
    (FracExp.exp (Exp.mk (Or.inr rfl) Sign.plus (du [53] (by decide) (dg _ (by decide))))) [32] 32 sp (by decide) rest _
    (ent_stateAt _)).1

/-- `0x1F_a.8p3 `, `0X `, `0b101_1 `, `0o17 `. -/
example (rest : Bytes) :
    (nextToken (stateAt ((48 :: 120 :: ([49, 70, 95, 97] ++ (46 :: [56]) ++ (112 :: [] ++ [51]))) ++ ([32] ++ rest)))).1.kvq =
      (tNUMBER, [48, 120, 49, 70, 95, 97, 46, 56, 112, 51], false) :=
  (token_ends_at_ws_hex 120 (Or.inl rfl) [49, 70, 95, 97] _ _ (by unfold HexB; decide)
    (HexFrac.some (h := [56]) (by unfold HexB; decide)) (HexExp.some (c := 112) (sg := []) (ds := [51]) (Or.inl rfl)
      Sign.none (dg _ (by decide))) [32] 32 sp (by decide) rest _ (ent_stateAt _)).1

example (rest : Bytes) :
    (nextToken (stateAt ((48 :: 88 :: ([] ++ [] ++ [])) ++ ([32] ++ rest)))).1.kvq = (tNUMBER, [48, 88], false) :=
  (token_ends_at_ws_hex 88 (Or.inr rfl) [] _ _ (by intro b hb; cases hb) HexFrac.none HexExp.none [32] 32 sp (by decide) rest _
    (ent_stateAt _)).1

example (rest : Bytes) :
    (nextToken (stateAt ((48 :: 98 :: 49 :: [48, 49, 95, 49]) ++ ([32] ++ rest)))).1.kvq =
      (tNUMBER, [48, 98, 49, 48, 49, 95, 49], false) :=
  (token_ends_at_ws_bin 98 49 (Or.inl rfl) (Or.inr rfl) [48, 49, 95, 49] (by decide) [32] 32 sp (by decide) rest _
    (ent_stateAt _)).1

example (rest : Bytes) :
    (nextToken (stateAt ((48 :: 111 :: [49, 55]) ++ ([32] ++ rest)))).1.kvq = (tNUMBER, [48, 111, 49, 55], false) :=
  (token_ends_at_ws_oct 111 (Or.inl rfl) [49, 55] (by decide) [32] 32 sp (by decide) rest _ (ent_stateAt _)).1

/-- `.5 `, `.05E+3\n`. -/
example (rest : Bytes) :
    (nextToken (stateAt ((46 :: [53] ++ []) ++ ([32] ++ rest)))).1.kvq = (tNUMBER, [46, 53], false) :=
  (token_ends_at_ws_dotnum [53] _ _ (by decide) (dg _ (by decide)) (by decide) ExpOpt.none [32] 32 sp (by decide) rest _
    (ent_stateAt _)).1

example (rest : Bytes) :
    (nextToken (stateAt ((46 :: [48, 53] ++ (69 :: [43] ++ ([51] ++ []))) ++ ([10] ++ rest)))).1.kvq =
      (tNUMBER, [46, 48, 53, 69, 43, 51], false) :=
  (token_ends_at_ws_dotnum [48, 53] _ _ (by decide) (dg _ (by decide)) (by decide)
    (ExpOpt.some (Exp.mk (Or.inr rfl) Sign.plus (du [51] (by decide) (dg _ (by decide))))) [10] 10 dec10 (by decide)
    rest _ (ent_stateAt _)).1

-- the window quirk that bounds `token_ends_at_ws_dotnum`: `.` + 31 digits + `e5` is `DOT`, then a number;
-- with 30 digits it is one NUMBER.
#guard ((lex (strBytes ".1234567890123456789012345678901e5 ")).map Tok.kvq).take 1 == [(tDOT, [46], false)]
#guard ((lex (strBytes ".123456789012345678901234567890e5 ")).map Tok.kvq).take 1 ==
  [(tNUMBER, strBytes ".123456789012345678901234567890e5", false)]

/-! ### digit-initial and `$`-initial identifiers -/

/-- `02422_data `. -/
example (rest : Bytes) :
    (nextToken (stateAt (([48, 50, 52, 50, 50] ++ 95 :: [100, 97, 116, 97]) ++ ([32] ++ rest)))).1.kvq =
      (tIDENT, [48, 50, 52, 50, 50] ++ 95 :: [100, 97, 116, 97], false) := by
  have := (token_ends_at_ws_digident_us [48, 50, 52, 50, 50] [100, 97, 116, 97] 100 [97, 116, 97] (by decide)
    (dg _ (by decide)) (spells_ascii (bs := [100, 97, 116, 97]) (by decide)) (by decide) (Or.inl (by decide)) (by decide)
    [32] 32 sp (by decide) rest _ (ent_stateAt _)).1
  rwa [show enc (100 :: [97, 116, 97]) = [100, 97, 116, 97] from enc_ascii (bs := [100, 97, 116, 97]) (by decide)] at this

/-- `1a `. -/
example (rest : Bytes) :
    (nextToken (stateAt (([49] ++ [97]) ++ ([32] ++ rest)))).1.kvq = (tIDENT, [49] ++ [97], false) := by
  have := (token_ends_at_ws_digident [49] [97] 97 [] (by decide) (dg _ (by decide))
    (spells_ascii (bs := [97]) (by decide)) (by decide) (by intro h; omega) (by decide) (by decide)
    [32] 32 sp (by decide) rest _ (ent_stateAt _)).1
  rwa [show enc (97 :: []) = [97] from enc_ascii (bs := [97]) (by decide)] at this

/-- `1e `, `2ex\n`: identifiers, not exponents. -/
example (rest : Bytes) :
    (nextToken (stateAt (([49] ++ [101]) ++ ([32] ++ rest)))).1.kvq = (tIDENT, [49] ++ [101], false) := by
  have := (token_ends_at_ws_digident [49] [101] 101 [] (by decide) (dg _ (by decide))
    (spells_ascii (bs := [101]) (by decide)) (by decide) (by intro _ r1 rs' h; cases h) (by decide) (by decide)
    [32] 32 sp (by decide) rest _ (ent_stateAt _)).1
  rwa [show enc (101 :: []) = [101] from enc_ascii (bs := [101]) (by decide)] at this

example (rest : Bytes) :
    (nextToken (stateAt (([50] ++ [101, 120]) ++ ([10] ++ rest)))).1.kvq = (tIDENT, [50] ++ [101, 120], false) := by
  have := (token_ends_at_ws_digident [50] [101, 120] 101 [120] (by decide) (dg _ (by decide))
    (spells_ascii (bs := [101, 120]) (by decide)) (by decide) (by intro _ r1 rs' h; cases h; omega) (by decide) (by decide)
    [10] 10 dec10 (by decide) rest _ (ent_stateAt _)).1
  rwa [show enc (101 :: [120]) = [101, 120] from enc_ascii (bs := [101, 120]) (by decide)] at this

/-- `$ `, `$1$x `, `$abc\n`. -/
example (rest : Bytes) : (nextToken (stateAt ((36 :: []) ++ ([32] ++ rest)))).1.kvq = (tIDENT, [36], false) :=
  (token_ends_at_ws_dollar_digit [] [] Spells.nil (by intro _ _ h; cases h) (by decide) [32] 32 sp (by decide) rest _
    (ent_stateAt _)).1

example (rest : Bytes) :
    (nextToken (stateAt ((36 :: [49, 36, 120]) ++ ([32] ++ rest)))).1.kvq = (tIDENT, 36 :: [49, 36, 120], false) := by
  have := (token_ends_at_ws_dollar_digit [49, 36, 120] _ (spells_ascii (bs := [49, 36, 120]) (by decide))
    (by intro r0 rs' h; cases h; decide) (by decide) [32] 32 sp (by decide) rest _ (ent_stateAt _)).1
  rwa [enc_ascii (by decide)] at this

example (rest : Bytes) :
    (nextToken (stateAt ((36 :: [97, 98, 99]) ++ ([10] ++ rest)))).1.kvq = (tIDENT, 36 :: [97, 98, 99], false) := by
  have := (token_ends_at_ws_dollar_name [97, 98, 99] 97 [98, 99] (spells_ascii (bs := [97, 98, 99]) (by decide))
    (Or.inl (by decide)) (by decide) (by decide) [10] 10 dec10 (by decide) rest _ (ent_stateAt _)).1
  rwa [show enc (97 :: [98, 99]) = [97, 98, 99] from enc_ascii (bs := [97, 98, 99]) (by decide)] at this

-- why `$tag$…` identifiers are excluded: `tryReadDollarTag` searches 4096 bytes ahead, so a COMMENT that contains
-- `$a$` turns the identifier `$a$` into a here-document — the two texts differ only in a comment and lex differently.
#guard pumpedFrom (stateAt (strBytes "$a$ \n1")) == [(tIDENT, strBytes "$a$", false), (tNUMBER, strBytes "1", false), (tEOF, [], false)]
#guard pumpedFrom (stateAt (strBytes "$a$ --$a$\n1")) == [(tSTRING, strBytes " --", false), (tNUMBER, strBytes "1", false), (tEOF, [], false)]

/-! ### the gap-exchange theorem -/

theorem wsg (b : UInt8) (hb : b.toNat < 128) (hw : isWs b.toNat = true) (g' : Bytes) (hg : Gap g') : WsGap ([b] ++ g') :=
  ⟨[b], b.toNat, g', rfl, dec_ascii hb, hw, hg⟩

/-- `'it''s'  /*c*/ x ` versus `'it''s'\n x\t` (common tail arbitrary). -/
example (rest : Bytes) :
    pumpedFrom (stateAt ((39 :: [105, 116, 39, 39, 115] ++ [39]) ++ (([32] ++ ([32] ++ ((47 :: 42 :: [99, 42, 47]) ++ ([32] ++ [])))) ++
      ([120] ++ (([32] ++ []) ++ rest))))) =
    pumpedFrom (stateAt ((39 :: [105, 116, 39, 39, 115] ++ [39]) ++ (([10] ++ ([32] ++ [])) ++
      ([120] ++ (([9] ++ []) ++ rest))))) := by
  apply gap_invariance_tokens
  have w32 : GapItem [32] := GapItem.ws (r := 32) sp (by decide)
  have cmt : GapItem (47 :: 42 :: [99, 42, 47]) :=
    GapItem.block (rs := [99, 42, 47]) (spells_ascii (bs := [99, 42, 47]) (by decide)) (by simp [closesExactly])
  have tX : SimpleTok [120] _ :=
    SimpleTok.ident (r0 := 120) (rs := []) (spells_ascii (bs := [120]) (by decide)) (by decide) (by decide)
  exact SameToks.tok (WsTok.str ex_its)
    (wsg 32 (by decide) (by decide) _ (Gap.cons w32 (Gap.cons cmt (Gap.cons w32 Gap.nil))))
    (wsg 10 (by decide) (by decide) _ (Gap.cons w32 Gap.nil))
    (SameToks.tok (WsTok.simple tX) (wsg 32 (by decide) (by decide) _ Gap.nil) (wsg 9 (by decide) (by decide) _ Gap.nil)
      (SameToks.tail rest))

/-- `0x1F /*h*/ .5e-3 {p} ` versus `0x1F\n.5e-3\t{p}\n`. -/
example (rest : Bytes) :
    pumpedFrom (stateAt ((48 :: 120 :: ([49, 70] ++ [] ++ [])) ++ (([32] ++ ((47 :: 42 :: [104, 42, 47]) ++ ([32] ++ []))) ++
      ((46 :: [53] ++ (101 :: [45] ++ ([51] ++ []))) ++ (([32] ++ []) ++
      ((123 :: [112] ++ [125]) ++ (([32] ++ []) ++ rest))))))) =
    pumpedFrom (stateAt ((48 :: 120 :: ([49, 70] ++ [] ++ [])) ++ (([10] ++ []) ++
      ((46 :: [53] ++ (101 :: [45] ++ ([51] ++ []))) ++ (([9] ++ []) ++
      ((123 :: [112] ++ [125]) ++ (([10] ++ []) ++ rest))))))) := by
  apply gap_invariance_tokens
  have w32 : GapItem [32] := GapItem.ws (r := 32) sp (by decide)
  have cmt : GapItem (47 :: 42 :: [104, 42, 47]) :=
    GapItem.block (rs := [104, 42, 47]) (spells_ascii (bs := [104, 42, 47]) (by decide)) (by simp [closesExactly])
  have tH : WsTok (48 :: 120 :: ([49, 70] ++ [] ++ [])) _ :=
    WsTok.hex (c := 120) (h := [49, 70]) (Or.inl rfl) (by unfold HexB; decide) HexFrac.none HexExp.none
  have tD : WsTok (46 :: [53] ++ (101 :: [45] ++ ([51] ++ []))) _ :=
    WsTok.dotnum (ds := [53]) (by decide) (dg _ (by decide)) (by decide) (ExpOpt.some ex_exp)
  have tP : WsTok (123 :: [112] ++ [125]) _ :=
    WsTok.param (rs := [112]) (spells_ascii (bs := [112]) (by decide)) (by decide)
  exact SameToks.tok tH (wsg 32 (by decide) (by decide) _ (Gap.cons cmt (Gap.cons w32 Gap.nil)))
      (wsg 10 (by decide) (by decide) _ Gap.nil)
    (SameToks.tok tD (wsg 32 (by decide) (by decide) _ Gap.nil) (wsg 9 (by decide) (by decide) _ Gap.nil)
      (SameToks.tok tP (wsg 32 (by decide) (by decide) _ Gap.nil) (wsg 10 (by decide) (by decide) _ Gap.nil)
        (SameToks.tail rest)))

-- the same instances, evaluated (and a few of the excluded shapes, where the model happens to agree):
#guard pumpedFrom (stateAt (strBytes "'it''s'  /*c*/ x ")) == pumpedFrom (stateAt (strBytes "'it''s'\n x\t"))
#guard pumpedFrom (stateAt (strBytes "0x1F /*h*/ .5e-3 {p} 1_000.5E+3 02422_data $1 @@v `a``b` ;")) ==
  pumpedFrom (stateAt (strBytes "0x1F\n.5e-3\t{p}\n1_000.5E+3 -- c\n02422_data #x\n $1\n@@v\t`a``b`\n;"))

end DC.Props.C05Ends
