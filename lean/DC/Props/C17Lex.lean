import DC.Proofs.LexerLayoutKeyword

/-!
# C17 — keywords stay usable as names: the lexer part (`keyword_case`)

> … every keyword, in any letter case, is accepted … and appears with the user's spelling in the EXPLAIN output.

Over the lexer model `DC.Lexer` and the regenerated table `DC.Gen.Tokens`: for EVERY token number `k` with
`IsKeyword k` and EVERY ASCII letter-case variant `c` of `Token(k).String()`, `Tokenize(c)` is the keyword token —
kind `k`, value `c` exactly as written, not quoted — followed by `EOF`. The quantification over keywords is lifted
from kernel-decided facts about the table as it is today (`DC.Props.C17`: `keyword_spelling`, `map_exact`,
`spelling_injective`; here: `keyword_start_ok`, `toUpperAscii_high`); keywords added later are covered when the
table is regenerated, or the build of these facts fails.

`CaseVariant c k` : `c.map (asciiUpper ∘ toNat) = code points of spellingOf k`, `asciiUpper` = `a-z ↦ A-Z`.
Non-ASCII variants (`ſ` for `S`, `ı` for `I`, which `strings.ToUpper` also maps into ASCII) are not covered.
-/

namespace DC.Props.C17Lex

open DC DC.Lexer DC.Gen.Tokens DC.Spec.KeywordTable

/-- `∀ k casing, lex (casing (spelling k)) = [⟨k, casing…⟩, EOF]` (tokens compared as `(kind, value, quoted)`). -/
theorem keyword_case_lex (k : Nat) (hk : isKeyword k = true) (c : Bytes) (hv : CaseVariant c k) :
    (lex c).map Tok.kvq = [(k, c, false), (tEOF, [], false)] :=
  keyword_lex k hk c hv

/-- inside a longer input: the keyword variant followed by anything that does not continue an identifier. -/
theorem keyword_case (k : Nat) (hk : isKeyword k = true) (c : Bytes) (hv : CaseVariant c k)
    (rest : Bytes) (hrest : isIdentChar (firstRune rest) = false) (hq : c.length = 1 → firstRune rest ≠ 39)
    (s : LState) (hs : Ent s (c ++ rest)) :
    (nextToken s).1.kvq = (k, c, false) ∧ Ent (nextToken s).2 rest :=
  keyword_tok k hk c hv rest hrest hq hs

/-- the model's `Lookup ∘ ToUpper` on a case variant. -/
theorem lookup_case (k : Nat) (hk : isKeyword k = true) (c : Bytes) (hv : CaseVariant c k) : lookupIdent c = k :=
  lookupIdent_caseVariant k hk c (fun b hb => identShape_lt (caseVariant_bytes hk hv b hb)) hv

/-- every keyword has at least the variants "as spelled" and "all lower case" (so the theorems are not vacuous for
any keyword): the upper-case spelling itself is a variant. -/
theorem spelling_is_variant (k : Nat) (hk : isKeyword k = true) :
    CaseVariant ((spellingRunes k).map Nat.toUInt8) k := by
  unfold CaseVariant
  rw [List.map_map]
  have hsh := spellingRunes_shape k hk
  have : ∀ n ∈ spellingRunes k, ((fun b : UInt8 => asciiUpper b.toNat) ∘ Nat.toUInt8) n = n := by
    intro n hn
    have h := hsh n hn
    unfold upperShape at h
    simp only [Function.comp]
    have e : n.toUInt8.toNat = n := by simp; omega
    rw [e]
    unfold asciiUpper
    rw [if_neg (by omega)]
  conv => rhs; rw [← List.map_id (spellingRunes k)]
  exact List.map_congr_left this

/-! ## non-vacuity -/

theorem select_kw : isKeyword tSELECT = true := by decide +kernel

/-- `SeLeCt`. -/
theorem ex_variant : CaseVariant [83, 101, 76, 101, 67, 116] tSELECT := by unfold CaseVariant; decide +kernel

example : (lex [83, 101, 76, 101, 67, 116]).map Tok.kvq =
    [(tSELECT, [83, 101, 76, 101, 67, 116], false), (tEOF, [], false)] :=
  keyword_case_lex tSELECT select_kw _ ex_variant

example : CaseVariant ((spellingRunes tSELECT).map Nat.toUInt8) tSELECT := spelling_is_variant tSELECT select_kw

#guard (lex (strBytes "SeLeCt")).map Tok.kvq == [(tSELECT, strBytes "SeLeCt", false), (tEOF, [], false)]
#guard (lex (strBytes "select")).map Tok.kvq == [(tSELECT, strBytes "select", false), (tEOF, [], false)]

end DC.Props.C17Lex
