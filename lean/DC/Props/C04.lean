import DC.Spec.Tree
import DC.Model.ExplainSelect

/-!
# C04 — the EXPLAIN text is a well-formed tree  (partial)

> For every syntactically valid statement, the text returned by Explain is a single rooted tree in
> ClickHouse's EXPLAIN AST layout: each line is one node, indented by exactly one space per level, the
> first word of every line is a node kind that ClickHouse itself prints, a node's '(children N)' suffix
> equals the number of nodes printed directly beneath it (absent means zero), and no line contains Go
> formatting artefacts such as '%!', '<nil>', '*ast.' or '&{'.

FULL STATEMENT (not a theorem: there is no Go semantics in Lean; decided by the verified monitor below
run over the real `Explain` by `harness/p_c04.go`):
`∀ stmt, Parse accepts stmt → check (lines (Explain stmt)) ∧ kindsKnown nodeKinds … ∧ noArtefacts …`.

What IS proved:
* `monitor_iff` — the monitor `DC.Spec.Tree.check` the harness runs on every output accepts exactly the
  renderings of single good trees (both directions, all inputs), and the tree is unique;
* `text_lines` — the text ↔ lines conversion used by the driver loses nothing;
* `select_pair`, `select_inherited_pair`, `union_pair` — for the SELECT core, header count = number of
  children printed, for every combination of clauses; the SELECT pair under the AST invariant `WfSel`
  (checked by the harness on every AST `Parse` returns, never violated; the `_needs_` theorems show it is
  necessary), the union pair unconditionally.  Two defects found through these theorems' hypotheses were
  repaired in /repo: DISTINCT ON under an inherited WITH (6d65b7e79) and doubled union-level SETTINGS
  (7b64ed643, replayed by `union_old_count_defect`).
-/
namespace DC.Props.C04
open DC DC.Spec.Tree DC.Model.ExplainSelect

/-- The monitor is sound and complete for "is the rendering of one tree whose counts are right". -/
theorem monitor_iff (ls : List Line) :
    check ls = true ↔ ∃ t : Tree, render t 0 = ls ∧ t.good = true :=
  check_iff ls

/-- … and that tree is unique. -/
theorem monitor_tree_unique (t u : Tree) (ht : t.good = true) (hu : u.good = true)
    (h : render t 0 = render u 0) : t = u :=
  render_injective t u ht hu h

/-- The printed count denotes the number of children: `showDec` is a decimal numeral of its argument. -/
theorem count_numeral (n : Nat) : decValRev (showDec n).reverse = n := by
  simp [showDec, decValRev_showDecRev]

/-- Splitting a text whose lines are each terminated by a line feed recovers the lines. -/
theorem text_lines (ls : List Line) (h : ∀ l ∈ ls, (10 : UInt8) ∉ l) :
    splitLines (joinLines ls) = some ls :=
  splitLines_joinLines ls h

/-- `hasInfix` (the artefact scan) is list infix. -/
theorem artefact_scan (pat text : Bytes) : hasInfix pat text = true ↔ pat <:+: text :=
  hasInfix_iff pat text

/-- SELECT: `countSelectQueryChildren` = number of nodes `explainSelectQuery` prints beneath the header. -/
theorem select_pair (n : SelShape) (h : WfSel n = true) : countSel n = (emitSel n).length :=
  count_eq_emit_select n h

/-- SELECT printed by `explainSelectQueryWithInheritedWith` (the branch for a SELECT without its own WITH). -/
theorem select_inherited_pair (n : SelShape) (h : WfSel n = true) (hw : n.withN = 0) :
    countSel n + 1 = (emitSelInherited n).length :=
  count_eq_emit_select_inherited n h hw

/-- SelectWithUnionQuery: `countSelectUnionChildren` = number of nodes printed beneath the header. -/
theorem union_pair (u : UnionShape) : countUnion u = (emitUnion u).length :=
  count_eq_emit_union u

/-- Replay of the defect repaired by /repo 7b64ed643: the former count announced 3 children where 4 are
printed, on a shape `Parse` produces (`SELECT 1 SETTINGS a=1 SETTINGS b=2 FORMAT JSON SETTINGS c=3`). -/
theorem union_old_count_defect : countUnionOld badUnion1 = 3 ∧ (emitUnion badUnion1).length = 4 :=
  old_union_needs_one_side

/-- non-vacuity: a two-line tree is accepted, a child below a count-less line is not -/
example : check [[65] ++ suffix [49], [32, 66]] = true := by
  rw [check_iff]
  refine ⟨.node [65] true [.node [66] false []], ?_, by decide⟩
  simp [render, renderList, line, showDec, showDecRev, sp]
example : check [[65], [32, 66]] = false := by decide
example : ∃ n, WfSel n = true ∧ countSel n = 6 :=
  ⟨⟨0, true, false, false, true, 1, false, false, false, 0, 1, 0, false, false, true, 0, false, 0, false, false, 0⟩, by decide⟩
example : countUnion badUnion1 = 4 := by decide

end DC.Props.C04
