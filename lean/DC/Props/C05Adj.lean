import DC.Proofs.LexerLayoutAdj

/-!
# C05 — layout does not matter (lexer-level part): DIRECTLY ADJACENT tokens and comment-initial gaps

Continuation of `DC/Props/C05.lean` and `DC/Props/C05Ends.lean`. There: a token followed by a WHITE-SPACE rune is lexed
to its `(kind, value, quoted)` and the lexer stops on that rune (`token_ends_at_ws`), hence texts made of the same tokens,
each followed by a gap that BEGINS WITH WHITE SPACE, give the parser the same stream (`gap_invariance_tokens`). Open there:
tokens that are directly adjacent (`f(x)`, `a,b`, `1+2`, `t.c`, `a::T`, `x->y`) and gaps that begin with a comment
(`a/*c*/b`, `a--c\nb`). This file closes both for every token class of `WsTok`.

## 1. Look-ahead locality (`token_ends_at_stop_*`, `token_ends_at_stop`)

Every theorem has the shape: the lexer state `s` stands on the first rune of `text ++ tail` (`Ent`), where `tail : Bytes`
is ARBITRARY (any bytes, valid UTF-8 or not; `[]` = end of input) and only its first rune `f = firstRune tail` (`0` at the
end of input) is constrained to lie in the STOP CLASS of the token; then `NextToken` answers the stated
`(kind, value, quoted)` and stands on the first rune of `tail`. Because nothing else of `tail` occurs in the hypotheses,
the token and the state after it depend on at most ONE rune beyond the token (`k_t = 1`; `k_t = 0` for `{…}`, `‘…’`, `“…”`,
`<=>`, the single-character punctuation `+ * % ( ) [ ] } , ; ? ^` and the two-character operators other than `<=`).
`peekChar` decodes ONE byte (lexer.go:85-95), so a non-ASCII follower peeks as U+FFFD: `peekOf f`.

The stop classes (`stopOk : Cls → Nat → Bool`, `Compatible c f := stopOk c f = true`, decidable), `f` the follower:

| class `Cls`                         | tokens                                              | `stopOk c f`                                                       |
|-------------------------------------|-----------------------------------------------------|--------------------------------------------------------------------|
| `ident xb`                          | identifiers / keywords; `xb`: a lone `x X b B`      | `¬isIdentChar f`, and `f ≠ '` if `xb` (`x'41'` is a hex string)    |
| `identLike`                         | `@@name`, `D+_x…`, `D+x…`, `$`, `$1…`, `$name`      | `¬isIdentChar f` (`isIdentChar`: letter, digit, `_`, `$`)          |
| `digIdentE`                         | `D+e`, `D+E`                                        | `¬isIdentChar f`, `f ≠ +`, `f ≠ -` (`1e+` is a NUMBER)             |
| `num int`                           | `D+`, `.D+`                                         | `¬isDigit f`, `¬isLetter f`, `f ≠ _`, `f ≠ .`                      |
| `num grp`                           | `D+(_D+)+`                                          | `¬isDigit f`, `f ∉ {_ . e E}`                                      |
| `num dot`                           | `D+(_D+)*.`                                         | `¬isDigit f`, `¬isIdentStart (peekOf f)`, `f ≠ .`                  |
| `num frac`                          | `….D+(_D+)*`                                        | `¬isDigit f`, `f ∉ {_ e E}`                                        |
| `num exp`                           | `…(e|E)[+-]D+(_D+)*`, `.D+(e|E)…`                   | `¬isDigit f`, `f ≠ _`                                              |
| `hex digits / frac / exp / expBare` | `0x…`                                               | `hexStop`                                                          |
| `bin`, `oct`                        | `0b…`, `0o…`                                        | `f ∉ {0 1 _}`, `f ∉ {0…7 _}`                                       |
| `op sp`                             | the 30 spellings of `opTable`                       | `opStop sp f` (below)                                              |
| `quoted q`                          | `'…'`, `"…"`, `` `…` ``                             | `f ≠ q` (the quote doubles)                                        |
| `closed`                            | `{…}`, `‘…’`, `“…”`                                 | anything                                                           |
| `atSign`, `atAt`                    | `@`, `@@`                                           | `f ≠ @`; `¬isIdentStart f`, `¬isDigit f`                           |

`opStop`: `/`: `f ≠ *`; `-`: `f ∉ {- >}`; `=`: `f ≠ =`; `!`: `f ≠ =`; `<`: `f ∉ {= >}`; `>`: `f ≠ =`; `|`: `f ≠ |`;
`:`: `f ≠ :`; `.`: `¬isDigit (peekOf f)`; `<=`: `f ≠ >`; every other spelling: anything.

Where a follower changes the token, the stop class excludes it; §4 has, for every exclusion, an evaluated counter-example
(`#guard` on the model) whose expected value is the REAL lexer's answer (`/verif/bin/harness tool lexdump`).
The closed tokens were already proved for arbitrary followers (`token_closed_*` in `C05Ends.lean`).

## 2. Comment-initial gaps (`gap_after_token`, `comment_gap_after_token`)

A gap that directly follows a token — empty, beginning with `/*`, `--`, `#`, or with white space — is invisible provided
its first rune (the next token's first rune if the gap is empty) is `Compatible` with the token's class. `/`, `-`, `#` are
stop runes not consumed by look-ahead for every class (`commentOk`) EXCEPT the operator `-` (`---c` is one comment),
`D+e` (`1e--c`: exponent sign) and `0x…p` (likewise); counter-examples in §4.

## 3. The general theorem (`gap_invariance_adjacent`)

`SameToksAdj a b`: `a` and `b` consist of the same `AdjTok` tokens; the gap after a token in `a` and the corresponding
gap in `b` are arbitrary gaps (`Gap`: white-space runes, `--…\n`, `#…\n`, nested `/*…*/`, POSSIBLY EMPTY, possibly
comment-initial, possibly different), subject to ONE side condition, in each text: the rune that directly follows the
token is `Compatible` with the token's class. `sameToksAdj_of_next` gives the side condition in the form "the next
token's first rune is compatible and the class allows comment openers" (then both gaps are completely arbitrary),
`sameToksAdj_of_ws` drops it for gaps that begin with white space, and `gap_invariance_tokens'` re-derives the theorem of
`C05Ends.lean` as a corollary.

## What remains for the fully general lexer-level statement

```
theorem gap_invariance (pre g₁ g₂ rest : Bytes) (h₁ : Gap g₁) (h₂ : Gap g₂)
    (hpre : `pre` ends in a complete token `t`) (h : both `firstRune (g₁ ++ rest)` and `firstRune (g₂ ++ rest)` are stop
            runes of `t`) :
    pumpedFrom (stateAt (pre ++ g₁ ++ rest)) = pumpedFrom (stateAt (pre ++ g₂ ++ rest))
```

`gap_invariance_adjacent` is this statement for `pre` made of `AdjTok` tokens separated by compatible gaps. Missing:
* token classes outside `AdjTok` (same list as in `C05Ends.lean`): `$tag$…` identifiers and here-documents (the 4096-byte
  search of `tryReadDollarTag` looks past any gap; the statement is false for them), `x'…'` / `b'…'` strings, numbers with
  non-ASCII digits, `.D+` with more than 28 digits (32-byte window), spellings with a missing digit (`1e+`, `1.5e`, `0b`),
  the `ILLEGAL` single runes, the U+2212 comment;
* line comments ended by the end of input instead of `\n`, gap bodies that are not sequences of valid UTF-8 pieces;
* `Compatible` is proved SUFFICIENT; necessity is shown by one counter-example per excluded rune or rune class (§4), not
  by a theorem "for every excluded follower the token changes" (false as it stands: the excluded followers `_` after a
  fraction or `.` after `1` change the token only together with the rune after them — they are excluded because they are
  part of a two-rune look-ahead).
-/

namespace DC.Props.C05Adj

open DC DC.Lexer DC.Utf8 DC.Gen.Tokens

/-! ## 1. look-ahead locality, scanner by scanner -/

/-- identifiers and keywords: followed by a rune that is not an identifier character (after a lone `x X b B`: and not
`'`). -/
theorem token_ends_at_stop_ident (body : Bytes) (r0 : Nat) (rs : List Nat) (hb : Spells body (r0 :: rs))
    (h0 : isIdentStart r0 = true) (hall : ∀ r ∈ r0 :: rs, isIdentChar r = true)
    (tail : Bytes) (hstop : isIdentChar (firstRune tail) = false) (hq : isXB r0 rs = true → firstRune tail ≠ 39)
    (s : LState) (hs : Ent s (body ++ tail)) :
    (nextToken s).1.kvq = (lookupIdent (enc (r0 :: rs)), enc (r0 :: rs), false) ∧ Ent (nextToken s).2 tail :=
  ident_ends_at_stop hb h0 hall tail hstop hq hs

/-- the 30 operator / punctuation spellings, each with its stop class `opStop`. -/
theorem token_ends_at_stop_op (e : Bytes × Nat) (hmem : e ∈ opTable) (tail : Bytes)
    (hstop : opStop e.1 (firstRune tail) = true) (s : LState) (hs : Ent s (e.1 ++ tail)) :
    (nextToken s).1.kvq = (e.2, e.1, false) ∧ Ent (nextToken s).2 tail :=
  op_ends_at_stop e hmem tail hstop hs

/-- `@`, `@@`, `@@name`. -/
theorem token_ends_at_stop_at (tail : Bytes) (hstop : firstRune tail ≠ 64) (s : LState) (hs : Ent s ([64] ++ tail)) :
    (nextToken s).1.kvq = (tIDENT, [64], false) ∧ Ent (nextToken s).2 tail :=
  at_ends_at_stop tail hstop hs

theorem token_ends_at_stop_atat (tail : Bytes) (h1 : isIdentStart (firstRune tail) = false)
    (h2 : isDigit (firstRune tail) = false) (s : LState) (hs : Ent s ([64, 64] ++ tail)) :
    (nextToken s).1.kvq = (tIDENT, [64, 64], false) ∧ Ent (nextToken s).2 tail :=
  atat_ends_at_stop tail h1 h2 hs

theorem token_ends_at_stop_atname (body : Bytes) (r0 : Nat) (rs : List Nat) (hb : Spells body (r0 :: rs))
    (h0 : (isIdentStart r0 || isDigit r0) = true) (hall : ∀ x ∈ r0 :: rs, isIdentChar x = true)
    (tail : Bytes) (hstop : isIdentChar (firstRune tail) = false) (s : LState) (hs : Ent s ((64 :: 64 :: body) ++ tail)) :
    (nextToken s).1.kvq = (tIDENT, 64 :: 64 :: enc (r0 :: rs), false) ∧ Ent (nextToken s).2 tail :=
  atname_ends_at_stop hb h0 hall tail hstop hs

/-- decimal numbers through `readNumberOrIdent`; `k` = the part read last (`NumShape`), `numStop k` its stop class. -/
theorem token_ends_at_stop_dec (ds g gv fe fv : Bytes) (k : NumEnd) (hne : ds ≠ []) (hd : Digs ds)
    (hg : UsGroups g gv) (hf : NumShape g fe fv k) (tail : Bytes) (hstop : numStop k (firstRune tail) = true)
    (s : LState) (hs : Ent s ((ds ++ g ++ fe) ++ tail)) :
    (nextToken s).1.kvq = (tNUMBER, ds ++ gv ++ fv, false) ∧ Ent (nextToken s).2 tail :=
  dec_ends_at_stop hne hd hg hf tail hstop hs

theorem token_ends_at_stop_hex (c : UInt8) (hc : c = 120 ∨ c = 88) (h fr ex : Bytes) (k : HexEnd)
    (hh : ∀ b ∈ h, HexB b ∨ b = 95) (hsh : HexShape fr ex k) (tail : Bytes) (hstop : hexStop k (firstRune tail) = true)
    (s : LState) (hs : Ent s ((48 :: c :: (h ++ fr ++ ex)) ++ tail)) :
    (nextToken s).1.kvq = (tNUMBER, 48 :: c :: (h ++ fr ++ ex), false) ∧ Ent (nextToken s).2 tail :=
  hex_ends_at_stop hc hh hsh tail hstop hs

theorem token_ends_at_stop_bin (c d : UInt8) (hc : c = 98 ∨ c = 66) (hd : d = 48 ∨ d = 49) (bs : Bytes)
    (hbs : ∀ b ∈ bs, b = 48 ∨ b = 49 ∨ b = 95) (tail : Bytes)
    (hstop : firstRune tail ≠ 48 ∧ firstRune tail ≠ 49 ∧ firstRune tail ≠ 95)
    (s : LState) (hs : Ent s ((48 :: c :: d :: bs) ++ tail)) :
    (nextToken s).1.kvq = (tNUMBER, 48 :: c :: d :: bs, false) ∧ Ent (nextToken s).2 tail :=
  bin_ends_at_stop hc hd hbs tail hstop hs

theorem token_ends_at_stop_oct (c : UInt8) (hc : c = 111 ∨ c = 79) (os : Bytes)
    (hos : ∀ b ∈ os, (48 ≤ b.toNat ∧ b.toNat ≤ 55) ∨ b = 95) (tail : Bytes)
    (hstop : ¬(48 ≤ firstRune tail ∧ firstRune tail ≤ 55) ∧ firstRune tail ≠ 95)
    (s : LState) (hs : Ent s ((48 :: c :: os) ++ tail)) :
    (nextToken s).1.kvq = (tNUMBER, 48 :: c :: os, false) ∧ Ent (nextToken s).2 tail :=
  oct_ends_at_stop hc hos tail hstop hs

/-- `.D+` (at most 28 digits) + optional exponent: `k = int` without, `k = exp` with the exponent. -/
theorem token_ends_at_stop_dotnum (ds e ev : Bytes) (k : NumEnd) (hne : ds ≠ []) (hd : Digs ds) (hn : ds.length ≤ 28)
    (hexp : DotShape e ev k) (tail : Bytes) (hstop : numStop k (firstRune tail) = true)
    (s : LState) (hs : Ent s ((46 :: ds ++ e) ++ tail)) :
    (nextToken s).1.kvq = (tNUMBER, 46 :: ds ++ ev, false) ∧ Ent (nextToken s).2 tail :=
  dotnum_ends_at_stop hne hd hn hexp tail hstop hs

theorem token_ends_at_stop_digident_us (ds body : Bytes) (r0 : Nat) (rs : List Nat) (hne : ds ≠ []) (hd : Digs ds)
    (hb : Spells body (r0 :: rs)) (h0lt : r0 < 128) (h0 : isLetter r0 = true ∨ r0 = 95)
    (hall : ∀ x ∈ r0 :: rs, isIdentChar x = true) (tail : Bytes) (hstop : isIdentChar (firstRune tail) = false)
    (s : LState) (hs : Ent s ((ds ++ 95 :: body) ++ tail)) :
    (nextToken s).1.kvq = (tIDENT, ds ++ 95 :: enc (r0 :: rs), false) ∧ Ent (nextToken s).2 tail :=
  digIdentUs_ends_at_stop hne hd hb h0lt h0 hall tail hstop hs

theorem token_ends_at_stop_digident (ds body : Bytes) (r0 : Nat) (rs : List Nat) (hne : ds ≠ []) (hd : Digs ds)
    (hb : Spells body (r0 :: rs)) (h0 : isLetter r0 = true)
    (hexp : (r0 = 101 ∨ r0 = 69) → ∀ r1 rs', rs = r1 :: rs' → ¬(48 ≤ r1 ∧ r1 ≤ 57))
    (hbase : ds = [48] → r0 ≠ 120 ∧ r0 ≠ 88 ∧ r0 ≠ 98 ∧ r0 ≠ 66 ∧ r0 ≠ 111 ∧ r0 ≠ 79)
    (hall : ∀ x ∈ r0 :: rs, isIdentChar x = true) (tail : Bytes) (hstop : isIdentChar (firstRune tail) = false)
    (hsign : (r0 = 101 ∨ r0 = 69) → rs = [] → firstRune tail ≠ 43 ∧ firstRune tail ≠ 45)
    (s : LState) (hs : Ent s ((ds ++ body) ++ tail)) :
    (nextToken s).1.kvq = (tIDENT, ds ++ enc (r0 :: rs), false) ∧ Ent (nextToken s).2 tail :=
  digIdent_ends_at_stop hne hd hb h0 hexp hbase hall tail hstop hsign hs

theorem token_ends_at_stop_dollar_digit (body : Bytes) (rs : List Nat) (hb : Spells body rs)
    (h0 : ∀ r0 rs', rs = r0 :: rs' → isDigit r0 = true) (hall : ∀ x ∈ rs, isIdentChar x = true)
    (tail : Bytes) (hstop : isIdentChar (firstRune tail) = false) (s : LState) (hs : Ent s ((36 :: body) ++ tail)) :
    (nextToken s).1.kvq = (tIDENT, 36 :: enc rs, false) ∧ Ent (nextToken s).2 tail :=
  dollarDigit_ends_at_stop hb h0 hall tail hstop hs

theorem token_ends_at_stop_dollar_name (body : Bytes) (r0 : Nat) (rs : List Nat) (hb : Spells body (r0 :: rs))
    (h0 : isLetter r0 = true ∨ r0 = 95) (hall : ∀ x ∈ r0 :: rs, isTagChar x = true) (hlen : body.length ≤ 4092)
    (tail : Bytes) (hstop : isIdentChar (firstRune tail) = false) (s : LState) (hs : Ent s ((36 :: body) ++ tail)) :
    (nextToken s).1.kvq = (tIDENT, 36 :: enc (r0 :: rs), false) ∧ Ent (nextToken s).2 tail :=
  dollarName_ends_at_stop hb h0 hall hlen tail hstop hs

/-- all classes at once: `AdjTok t T c` — `t` is the text of a token of class `c` with `(kind, value, quoted) = T`. -/
theorem token_ends_at_stop (t : Bytes) (T : Nat × Bytes × Bool) (c : Cls) (h : AdjTok t T c) (tail : Bytes)
    (hstop : Compatible c (firstRune tail)) (s : LState) (hs : Ent s (t ++ tail)) :
    (nextToken s).1.kvq = T ∧ Ent (nextToken s).2 tail :=
  h.ends_at_stop tail hstop hs

/-- a white-space rune is a stop rune of every class (so `token_ends_at_ws` is the special case), … -/
theorem compatible_ws (t : Bytes) (T : Nat × Bytes × Bool) (c : Cls) (h : AdjTok t T c) (f : Nat) (hf : isWs f = true) :
    Compatible c f :=
  h.stopOk_ws hf

/-- … and every class of `WsTok` is covered. -/
theorem wsTok_covered (t : Bytes) (T : Nat × Bytes × Bool) (h : WsTok t T) : ∃ c, AdjTok t T c := h.adj

/-! ## 2. gaps directly after a token -/

/-- a token followed by ANY gap (empty, comment-initial, white-space-initial) whose first rune — the first rune of
`rest` if the gap is empty — is compatible with the token's class: the parser sees the token, then what it sees from
`rest` (`pumpOne T` = `[T]`, or `[]` for trivia kinds). -/
theorem gap_after_token (t : Bytes) (T : Nat × Bytes × Bool) (c : Cls) (ht : AdjTok t T c) (g : Bytes) (hg : Gap g)
    (rest : Bytes) (hok : Compatible c (firstRune (g ++ rest))) (s x : LState) (hs : Ent s (t ++ (g ++ rest)))
    (hx : Ent x rest) : pumpedFrom s = pumpOne T ++ pumpedFrom x :=
  adjTok_then_gap ht hg rest hok hs hx

/-- a non-empty gap — in particular one that begins with `/*`, `--` or `#` — directly after a token of a class for which
`/`, `-`, `#` are stop runes (`commentOk`): skipped like a white-space gap, whatever follows. -/
theorem comment_gap_after_token (t : Bytes) (T : Nat × Bytes × Bool) (c : Cls) (ht : AdjTok t T c)
    (hc : commentOk c = true) (g : Bytes) (hg : Gap g) (hne : g ≠ []) (rest : Bytes) (s x : LState)
    (hs : Ent s (t ++ (g ++ rest))) (hx : Ent x rest) : pumpedFrom s = pumpOne T ++ pumpedFrom x :=
  adjTok_then_comment_gap ht hc hg hne rest hs hx

/-- `commentOk` fails for exactly three classes: the operator `-`, `D+e` / `D+E`, `0x…p`. -/
theorem commentOk_fails (t : Bytes) (T : Nat × Bytes × Bool) (c : Cls) (h : AdjTok t T c) (hc : commentOk c = false) :
    c = .op [45] ∨ c = .digIdentE ∨ c = .hex .expBare :=
  h.commentOk_fails hc

example : commentOk (.op [45]) = false ∧ commentOk .digIdentE = false ∧ commentOk (.hex .expBare) = false := by decide
example : commentOk (.ident true) = true ∧ commentOk (.num .int) = true ∧ commentOk (.num .dot) = true ∧
    commentOk (.op [47]) = true ∧ commentOk (.quoted 39) = true ∧ commentOk .closed = true ∧ commentOk .atAt = true := by
  decide

/-! ## 3. the general theorem -/

/-- two texts with the same tokens whose gaps — possibly EMPTY, possibly beginning with a comment, possibly different —
satisfy the one side condition `Compatible` (`SameToksAdj`) give the parser the same stream. -/
theorem gap_invariance_adjacent (a b : Bytes) (h : SameToksAdj a b) :
    pumpedFrom (stateAt a) = pumpedFrom (stateAt b) :=
  h.pumped (ent_stateAt a) (ent_stateAt b)

/-- the side condition on the NEXT TOKEN's first rune: if it is compatible with the class of the previous token and the
class allows comment openers, the two gaps are arbitrary. -/
theorem sameToksAdj_of_next (t : Bytes) (T : Nat × Bytes × Bool) (c : Cls) (g₁ g₂ a b : Bytes) (ht : AdjTok t T c)
    (h₁ : Gap g₁) (h₂ : Gap g₂) (hc : commentOk c = true) (ca : Compatible c (firstRune a))
    (cb : Compatible c (firstRune b)) (h : SameToksAdj a b) : SameToksAdj (t ++ (g₁ ++ a)) (t ++ (g₂ ++ b)) :=
  SameToksAdj.tok_next ht h₁ h₂ hc ca cb h

/-- gaps that begin with white space need no side condition. -/
theorem sameToksAdj_of_ws (t : Bytes) (T : Nat × Bytes × Bool) (c : Cls) (g₁ g₂ a b : Bytes) (ht : AdjTok t T c)
    (h₁ : WsGap g₁) (h₂ : WsGap g₂) (h : SameToksAdj a b) : SameToksAdj (t ++ (g₁ ++ a)) (t ++ (g₂ ++ b)) :=
  SameToksAdj.tok_ws ht h₁ h₂ h

/-- `gap_invariance_tokens` of `C05Ends.lean` as a corollary. -/
theorem gap_invariance_tokens' (a b : Bytes) (h : SameToks a b) : pumpedFrom (stateAt a) = pumpedFrom (stateAt b) :=
  gap_invariance_adjacent a b h.adj

/-! ## non-vacuity: every theorem on concrete bytes (`rest` arbitrary) -/

/-- rewrite `firstRune (b :: T)` to `b` for an ASCII literal `b`, then decide. -/
macro "frd " b:term : tactic => `(tactic| (rw [firstRune_cons_ascii $b _ (by decide)]; decide))

/-- an ASCII follower is compatible if `stopOk` says so. -/
theorem compat_ascii (c : Cls) (b : UInt8) (T : Bytes) (hb : b.toNat < 128) (h : stopOk c b.toNat = true) :
    Compatible c (firstRune (b :: T)) := by
  unfold Compatible; rw [firstRune_cons_ascii b T hb]; exact h

theorem dg (ds : Bytes) (h : ds.all (fun b => decide (48 ≤ b.toNat) && decide (b.toNat ≤ 57)) = true) : Digs ds := by
  intro b hb
  have := List.all_eq_true.1 h b hb
  simpa using this

theorem du (ds : Bytes) (hne : ds ≠ []) (h : Digs ds) : DigUs (ds ++ []) (ds ++ []) := DigUs.mk hne h UsGroups.nil

/-- `f(`: the identifier ends at the parenthesis; `x(`: also for a lone `x` (the follower is not `'`). -/
example (rest : Bytes) :
    (nextToken (stateAt ([102] ++ (40 :: rest)))).1.kvq = (lookupIdent (enc [102]), enc [102], false) ∧
      Ent (nextToken (stateAt ([102] ++ (40 :: rest)))).2 (40 :: rest) :=
  token_ends_at_stop_ident [102] 102 [] (spells_ascii (bs := [102]) (by decide)) (by decide) (by decide) (40 :: rest)
    (by frd 40) (by intro h; exact absurd h (by decide)) _ (ent_stateAt _)

example (rest : Bytes) :
    (nextToken (stateAt ([120] ++ (40 :: rest)))).1.kvq = (lookupIdent (enc [120]), enc [120], false) :=
  (token_ends_at_stop_ident [120] 120 [] (spells_ascii (bs := [120]) (by decide)) (by decide) (by decide) (40 :: rest)
    (by frd 40) (by intro _; frd 40) _ (ent_stateAt _)).1

/-- `(x`, `-1`, `.c`, `<=1`, `::T`, `->y`, `/ ` … -/
example (rest : Bytes) : (nextToken (stateAt ([40] ++ (120 :: rest)))).1.kvq = (tLPAREN, [40], false) :=
  (token_ends_at_stop_op ([40], tLPAREN) (by decide) (120 :: rest) (by frd 120) _ (ent_stateAt _)).1

example (rest : Bytes) : (nextToken (stateAt ([45] ++ (49 :: rest)))).1.kvq = (tMINUS, [45], false) :=
  (token_ends_at_stop_op ([45], tMINUS) (by decide) (49 :: rest) (by frd 49) _ (ent_stateAt _)).1

example (rest : Bytes) : (nextToken (stateAt ([46] ++ (99 :: rest)))).1.kvq = (tDOT, [46], false) :=
  (token_ends_at_stop_op ([46], tDOT) (by decide) (99 :: rest) (by frd 99) _ (ent_stateAt _)).1

example (rest : Bytes) : (nextToken (stateAt ([60, 61] ++ (49 :: rest)))).1.kvq = (tLTE, [60, 61], false) :=
  (token_ends_at_stop_op ([60, 61], tLTE) (by decide) (49 :: rest) (by frd 49) _ (ent_stateAt _)).1

/-- `::` and `->` in front of ANYTHING (no condition on `tail`). -/
example (tail : Bytes) : (nextToken (stateAt ([58, 58] ++ tail))).1.kvq = (tCOLONCOLON, [58, 58], false) ∧
    Ent (nextToken (stateAt ([58, 58] ++ tail))).2 tail :=
  token_ends_at_stop_op ([58, 58], tCOLONCOLON) (by decide) tail (by simp [opStop]) _ (ent_stateAt _)

example (tail : Bytes) : (nextToken (stateAt ([45, 62] ++ tail))).1.kvq = (tARROW, [45, 62], false) :=
  (token_ends_at_stop_op ([45, 62], tARROW) (by decide) tail (by simp [opStop]) _ (ent_stateAt _)).1

/-- `@x`, `@@(`, `@@v,`. -/
example (rest : Bytes) : (nextToken (stateAt ([64] ++ (120 :: rest)))).1.kvq = (tIDENT, [64], false) :=
  (token_ends_at_stop_at (120 :: rest) (by frd 120) _ (ent_stateAt _)).1

example (rest : Bytes) : (nextToken (stateAt ([64, 64] ++ (40 :: rest)))).1.kvq = (tIDENT, [64, 64], false) :=
  (token_ends_at_stop_atat (40 :: rest) (by frd 40) (by frd 40) _ (ent_stateAt _)).1

example (rest : Bytes) :
    (nextToken (stateAt ((64 :: 64 :: [118]) ++ (44 :: rest)))).1.kvq = (tIDENT, 64 :: 64 :: enc [118], false) :=
  (token_ends_at_stop_atname [118] 118 [] (spells_ascii (bs := [118]) (by decide)) (by decide) (by decide)
    (44 :: rest) (by frd 44) _ (ent_stateAt _)).1

/-- `1+`, `1_000;`, `1.)`, `1.5)`, `1e5,`. -/
example (rest : Bytes) :
    (nextToken (stateAt (([49] ++ [] ++ []) ++ (43 :: rest)))).1.kvq = (tNUMBER, [49] ++ [] ++ [], false) ∧
      Ent (nextToken (stateAt (([49] ++ [] ++ []) ++ (43 :: rest)))).2 (43 :: rest) :=
  token_ends_at_stop_dec [49] [] [] [] [] .int (by decide) (dg _ (by decide)) UsGroups.nil NumShape.int (43 :: rest)
    (by frd 43) _ (ent_stateAt _)

example (rest : Bytes) :
    (nextToken (stateAt (([49] ++ (95 :: [48, 48, 48] ++ []) ++ []) ++ (59 :: rest)))).1.kvq =
      (tNUMBER, [49] ++ ([48, 48, 48] ++ []) ++ [], false) :=
  (token_ends_at_stop_dec [49] _ _ [] [] .grp (by decide) (dg _ (by decide))
    (UsGroups.cons (by decide) (dg _ (by decide)) UsGroups.nil) (NumShape.grp (by simp)) (59 :: rest)
    (by frd 59) _ (ent_stateAt _)).1

example (rest : Bytes) :
    (nextToken (stateAt (([49] ++ [] ++ [46]) ++ (41 :: rest)))).1.kvq = (tNUMBER, [49] ++ [] ++ [46], false) :=
  (token_ends_at_stop_dec [49] [] [] _ _ .dot (by decide) (dg _ (by decide)) UsGroups.nil NumShape.dot (41 :: rest)
    (by frd 41) _ (ent_stateAt _)).1

/-- the `peekChar` quirk: `1.é` keeps the dot (the `é` peeks as U+FFFD, which starts no identifier) — `1.a` does not. -/
example (rest : Bytes) :
    (nextToken (stateAt (([49] ++ [] ++ [46]) ++ (encodeRune 0xE9 ++ rest)))).1.kvq = (tNUMBER, [49] ++ [] ++ [46], false) :=
  (token_ends_at_stop_dec [49] [] [] _ _ .dot (by decide) (dg _ (by decide)) UsGroups.nil NumShape.dot
    (encodeRune 0xE9 ++ rest) (by rw [firstRune_dec (dec_encodeRune (by decide))]; decide +kernel) _ (ent_stateAt _)).1

example (rest : Bytes) :
    (nextToken (stateAt (([49] ++ [] ++ (46 :: ([53] ++ []))) ++ (41 :: rest)))).1.kvq =
      (tNUMBER, [49] ++ [] ++ (46 :: ([53] ++ [])), false) :=
  (token_ends_at_stop_dec [49] [] [] _ _ .frac (by decide) (dg _ (by decide)) UsGroups.nil
    (NumShape.frac (du [53] (by decide) (dg _ (by decide)))) (41 :: rest) (by frd 41) _ (ent_stateAt _)).1

/-- `1e5` in front of a LETTER: still the number (letters are stop runes after an exponent). -/
example (rest : Bytes) :
    (nextToken (stateAt (([49] ++ [] ++ (101 :: [] ++ ([53] ++ []))) ++ (97 :: rest)))).1.kvq =
      (tNUMBER, [49] ++ [] ++ (101 :: [] ++ ([53] ++ [])), false) :=
  (token_ends_at_stop_dec [49] [] [] _ _ .exp (by decide) (dg _ (by decide)) UsGroups.nil
    (NumShape.exp (Exp.mk (Or.inl rfl) Sign.none (du [53] (by decide) (dg _ (by decide))))) (97 :: rest)
    (by frd 97) _ (ent_stateAt _)).1

/-- `0x1F+`, `0x1p` in front of `)`, `0b1)`, `0o7,`. -/
example (rest : Bytes) :
    (nextToken (stateAt ((48 :: 120 :: ([49, 70] ++ [] ++ [])) ++ (43 :: rest)))).1.kvq =
      (tNUMBER, 48 :: 120 :: ([49, 70] ++ [] ++ []), false) :=
  (token_ends_at_stop_hex 120 (Or.inl rfl) [49, 70] [] [] .digits (by unfold HexB; decide) HexShape.digits (43 :: rest)
    (by frd 43) _ (ent_stateAt _)).1

example (rest : Bytes) :
    (nextToken (stateAt ((48 :: 120 :: ([49] ++ [] ++ [112])) ++ (41 :: rest)))).1.kvq =
      (tNUMBER, 48 :: 120 :: ([49] ++ [] ++ [112]), false) :=
  (token_ends_at_stop_hex 120 (Or.inl rfl) [49] [] [112] .expBare (by unfold HexB; decide)
    (HexShape.expBare HexFrac.none (Or.inl rfl)) (41 :: rest) (by frd 41) _ (ent_stateAt _)).1

example (rest : Bytes) :
    (nextToken (stateAt ((48 :: 98 :: 49 :: []) ++ (41 :: rest)))).1.kvq = (tNUMBER, 48 :: 98 :: 49 :: [], false) :=
  (token_ends_at_stop_bin 98 49 (Or.inl rfl) (Or.inr rfl) [] (by decide) (41 :: rest) (by frd 41) _
    (ent_stateAt _)).1

example (rest : Bytes) :
    (nextToken (stateAt ((48 :: 111 :: [55]) ++ (44 :: rest)))).1.kvq = (tNUMBER, 48 :: 111 :: [55], false) :=
  (token_ends_at_stop_oct 111 (Or.inl rfl) [55] (by decide) (44 :: rest) (by frd 44) _ (ent_stateAt _)).1

/-- `.5)`, `.5e3,`. -/
example (rest : Bytes) :
    (nextToken (stateAt ((46 :: [53] ++ []) ++ (41 :: rest)))).1.kvq = (tNUMBER, 46 :: [53] ++ [], false) :=
  (token_ends_at_stop_dotnum [53] [] [] .int (by decide) (dg _ (by decide)) (by decide) DotShape.none (41 :: rest)
    (by frd 41) _ (ent_stateAt _)).1

example (rest : Bytes) :
    (nextToken (stateAt ((46 :: [53] ++ (101 :: [] ++ ([51] ++ []))) ++ (44 :: rest)))).1.kvq =
      (tNUMBER, 46 :: [53] ++ (101 :: [] ++ ([51] ++ [])), false) :=
  (token_ends_at_stop_dotnum [53] _ _ .exp (by decide) (dg _ (by decide)) (by decide)
    (DotShape.some (Exp.mk (Or.inl rfl) Sign.none (du [51] (by decide) (dg _ (by decide))))) (44 :: rest)
    (by frd 44) _ (ent_stateAt _)).1

/-- `1_a)`, `1a)`, `1e,` (but not `1e+`, see §4). -/
example (rest : Bytes) :
    (nextToken (stateAt (([49] ++ 95 :: [97]) ++ (41 :: rest)))).1.kvq = (tIDENT, [49] ++ 95 :: enc [97], false) :=
  (token_ends_at_stop_digident_us [49] [97] 97 [] (by decide) (dg _ (by decide)) (spells_ascii (bs := [97]) (by decide))
    (by decide) (Or.inl (by decide)) (by decide) (41 :: rest) (by frd 41) _ (ent_stateAt _)).1

example (rest : Bytes) :
    (nextToken (stateAt (([49] ++ [97]) ++ (41 :: rest)))).1.kvq = (tIDENT, [49] ++ enc [97], false) :=
  (token_ends_at_stop_digident [49] [97] 97 [] (by decide) (dg _ (by decide)) (spells_ascii (bs := [97]) (by decide))
    (by decide) (by intro h; omega) (by decide) (by decide) (41 :: rest) (by frd 41) (by intro h; omega) _
    (ent_stateAt _)).1

example (rest : Bytes) :
    (nextToken (stateAt (([49] ++ [101]) ++ (44 :: rest)))).1.kvq = (tIDENT, [49] ++ enc [101], false) :=
  (token_ends_at_stop_digident [49] [101] 101 [] (by decide) (dg _ (by decide)) (spells_ascii (bs := [101]) (by decide))
    (by decide) (by intro _ r1 rs' h; cases h) (by decide) (by decide) (44 :: rest) (by frd 44)
    (by intro _ _; frd 44) _ (ent_stateAt _)).1

/-- `$(`, `$1,`, `$a)`. -/
example (rest : Bytes) : (nextToken (stateAt ((36 :: []) ++ (40 :: rest)))).1.kvq = (tIDENT, 36 :: enc [], false) :=
  (token_ends_at_stop_dollar_digit [] [] Spells.nil (by intro _ _ h; cases h) (by decide) (40 :: rest)
    (by frd 40) _ (ent_stateAt _)).1

example (rest : Bytes) :
    (nextToken (stateAt ((36 :: [49]) ++ (44 :: rest)))).1.kvq = (tIDENT, 36 :: enc [49], false) :=
  (token_ends_at_stop_dollar_digit [49] [49] (spells_ascii (bs := [49]) (by decide))
    (by intro r0 rs' h; cases h; decide) (by decide) (44 :: rest) (by frd 44) _ (ent_stateAt _)).1

example (rest : Bytes) :
    (nextToken (stateAt ((36 :: [97]) ++ (41 :: rest)))).1.kvq = (tIDENT, 36 :: enc [97], false) :=
  (token_ends_at_stop_dollar_name [97] 97 [] (spells_ascii (bs := [97]) (by decide)) (Or.inl (by decide)) (by decide)
    (by decide) (41 :: rest) (by frd 41) _ (ent_stateAt _)).1

/-- the uniform statement on `{p}` directly followed by anything, and on `"a"` directly followed by `.`. -/
example (tail : Bytes) :
    (nextToken (stateAt ((123 :: [112] ++ [125]) ++ tail))).1.kvq = (tPARAM, enc [112], false) ∧
      Ent (nextToken (stateAt ((123 :: [112] ++ [125]) ++ tail))).2 tail :=
  token_ends_at_stop _ _ _ (AdjTok.param (rs := [112]) (spells_ascii (bs := [112]) (by decide)) (by decide)) tail rfl _
    (ent_stateAt _)

theorem ex_dq : DBody ([97] ++ []) (encodeRune 97 ++ []) :=
  DBody.cons (DItem.plain (p := [97]) (r := 97) (dec_ascii (b := 97) (by decide)) (by decide) (by decide)) DBody.nil

example (rest : Bytes) :
    (nextToken (stateAt ((34 :: ([97] ++ []) ++ [34]) ++ (46 :: rest)))).1.kvq = (tIDENT, encodeRune 97 ++ [], true) :=
  (token_ends_at_stop _ _ _ (AdjTok.dquote ex_dq) (46 :: rest) (compat_ascii _ 46 rest (by decide) (by decide)) _
    (ent_stateAt _)).1

/-- white space is compatible with everything; every `WsTok` is covered. -/
example : Compatible (.num .dot) 0xA0 :=
  compatible_ws _ _ _ (AdjTok.dec (ds := [49]) (by decide) (dg _ (by decide)) UsGroups.nil NumShape.dot) 0xA0 (by decide)

example : ∃ c, AdjTok [64, 64] (tIDENT, [64, 64], false) c := wsTok_covered _ _ WsTok.atat

/-! ### gaps and the gap-exchange theorem -/

theorem sp : Dec [32] 32 := dec_ascii (b := 32) (by decide)
theorem w32 : GapItem [32] := GapItem.ws (r := 32) sp (by decide)
theorem w10 : GapItem [10] := GapItem.ws (r := 10) dec10 (by decide)
/-- `/*c*/` -/
def cmt : Bytes := 47 :: 42 :: [99, 42, 47]
theorem cmt_item : GapItem cmt :=
  GapItem.block (rs := [99, 42, 47]) (spells_ascii (bs := [99, 42, 47]) (by decide)) (by simp [closesExactly])
/-- `--z\n` -/
def dsh : Bytes := 45 :: 45 :: [122] ++ [10]
theorem dsh_item : GapItem dsh :=
  GapItem.dash (rs := [122]) (spells_ascii (bs := [122]) (by decide)) (by unfold lineBodyOk; decide)

theorem idTok (b : UInt8) (h1 : b.toNat < 128) (h2 : isIdentStart b.toNat = true) (h3 : isIdentChar b.toNat = true) :
    AdjTok [b] (lookupIdent (enc [b.toNat]), enc [b.toNat], false) (.ident (isXB b.toNat [])) :=
  AdjTok.ident (r0 := b.toNat) (rs := []) (spells_ascii (bs := [b]) (by simpa using h1)) h2 (by simpa using h3)

theorem int1 (b : UInt8) (h : 48 ≤ b.toNat ∧ b.toNat ≤ 57) :
    AdjTok ([b] ++ [] ++ []) (tNUMBER, [b] ++ [] ++ [], false) (.num .int) :=
  AdjTok.dec (by simp) (by intro x hx; simp at hx; subst hx; exact h) UsGroups.nil NumShape.int

/-- `x/*c*/…` and `x…` (empty gap, next rune `,`): the parser sees `x`, then the rest. -/
example (rest : Bytes) (x : LState) (hx : Ent x (44 :: rest)) :
    pumpedFrom (stateAt ([120] ++ (cmt ++ (44 :: rest)))) =
      pumpOne (lookupIdent (enc [120]), enc [120], false) ++ pumpedFrom x :=
  gap_after_token _ _ _ (idTok 120 (by decide) (by decide) (by decide)) cmt (Gap.item cmt_item) (44 :: rest)
    (compat_ascii _ 47 _ (by decide) (by decide)) _ x (ent_stateAt _) hx

example (rest : Bytes) (x : LState) (hx : Ent x (44 :: rest)) :
    pumpedFrom (stateAt ([120] ++ ([] ++ (44 :: rest)))) =
      pumpOne (lookupIdent (enc [120]), enc [120], false) ++ pumpedFrom x :=
  gap_after_token _ _ _ (idTok 120 (by decide) (by decide) (by decide)) [] Gap.nil (44 :: rest)
    (compat_ascii _ 44 _ (by decide) (by decide)) _ x (ent_stateAt _) hx

/-- `1--z\n…`: a line comment directly after a number, whatever follows it. -/
example (rest : Bytes) (x : LState) (hx : Ent x rest) :
    pumpedFrom (stateAt (([49] ++ [] ++ []) ++ (dsh ++ rest))) = pumpOne (tNUMBER, [49] ++ [] ++ [], false) ++ pumpedFrom x :=
  comment_gap_after_token _ _ _ (int1 49 (by decide)) (by decide) dsh (Gap.item dsh_item) (by simp [dsh]) rest _ x
    (ent_stateAt _) hx

/-- `f(x,1)\n` versus `f ( x , 1 ) ` (common tail arbitrary): all gaps of the first text are EMPTY. -/
example (rest : Bytes) :
    pumpedFrom (stateAt ([102] ++ ([] ++ ([40] ++ ([] ++ ([120] ++ ([] ++ ([44] ++ ([] ++ (([49] ++ [] ++ []) ++ ([] ++
      ([41] ++ ([10] ++ rest))))))))))))) =
    pumpedFrom (stateAt ([102] ++ ([32] ++ ([40] ++ ([32] ++ ([120] ++ ([32] ++ ([44] ++ ([32] ++ (([49] ++ [] ++ []) ++
      ([32] ++ ([41] ++ ([32] ++ rest))))))))))))) := by
  apply gap_invariance_adjacent
  have g0 : Gap [] := Gap.nil
  have g1 : Gap [32] := Gap.item w32
  have op : ∀ (sp : Bytes) (k : Nat), (sp, k) ∈ opTable → AdjTok sp (k, sp, false) (.op sp) :=
    fun sp k h => AdjTok.op (e := (sp, k)) h
  refine SameToksAdj.tok (idTok 102 (by decide) (by decide) (by decide)) g0 g1
    (compat_ascii _ 40 _ (by decide) (by decide)) (compat_ascii _ 32 _ (by decide) (by decide)) ?_
  refine SameToksAdj.tok (op [40] tLPAREN (by decide)) g0 g1
    (compat_ascii _ 120 _ (by decide) (by decide)) (compat_ascii _ 32 _ (by decide) (by decide)) ?_
  refine SameToksAdj.tok (idTok 120 (by decide) (by decide) (by decide)) g0 g1
    (compat_ascii _ 44 _ (by decide) (by decide)) (compat_ascii _ 32 _ (by decide) (by decide)) ?_
  refine SameToksAdj.tok (op [44] tCOMMA (by decide)) g0 g1
    (compat_ascii _ 49 _ (by decide) (by decide)) (compat_ascii _ 32 _ (by decide) (by decide)) ?_
  refine SameToksAdj.tok (int1 49 (by decide)) g0 g1
    (compat_ascii _ 41 _ (by decide) (by decide)) (compat_ascii _ 32 _ (by decide) (by decide)) ?_
  exact SameToksAdj.tok (op [41] tRPAREN (by decide)) (Gap.item w10) g1
    (compat_ascii _ 10 _ (by decide) (by decide)) (compat_ascii _ 32 _ (by decide) (by decide)) (SameToksAdj.tail rest)

/-- `t.c::T` `/*c*/` `->y--z\n+1 ` versus `t . c :: T -> y + 1\n`: empty gaps, a block comment directly after an identifier,
a line comment directly after an identifier. -/
example (rest : Bytes) :
    pumpedFrom (stateAt ([116] ++ ([] ++ ([46] ++ ([] ++ ([99] ++ ([] ++ ([58, 58] ++ ([] ++ ([84] ++ (cmt ++
      ([45, 62] ++ ([] ++ ([121] ++ (dsh ++ ([43] ++ ([] ++ (([49] ++ [] ++ []) ++ ([32] ++ rest))))))))))))))))))) =
    pumpedFrom (stateAt ([116] ++ ([32] ++ ([46] ++ ([32] ++ ([99] ++ ([32] ++ ([58, 58] ++ ([32] ++ ([84] ++ ([32] ++
      ([45, 62] ++ ([32] ++ ([121] ++ ([32] ++ ([43] ++ ([32] ++ (([49] ++ [] ++ []) ++ ([10] ++ rest))))))))))))))))))) := by
  apply gap_invariance_adjacent
  have g0 : Gap [] := Gap.nil
  have g1 : Gap [32] := Gap.item w32
  have op : ∀ (sp : Bytes) (k : Nat), (sp, k) ∈ opTable → AdjTok sp (k, sp, false) (.op sp) :=
    fun sp k h => AdjTok.op (e := (sp, k)) h
  refine SameToksAdj.tok (idTok 116 (by decide) (by decide) (by decide)) g0 g1
    (compat_ascii _ 46 _ (by decide) (by decide)) (compat_ascii _ 32 _ (by decide) (by decide)) ?_
  refine SameToksAdj.tok (op [46] tDOT (by decide)) g0 g1
    (compat_ascii _ 99 _ (by decide) (by decide)) (compat_ascii _ 32 _ (by decide) (by decide)) ?_
  refine SameToksAdj.tok (idTok 99 (by decide) (by decide) (by decide)) g0 g1
    (compat_ascii _ 58 _ (by decide) (by decide)) (compat_ascii _ 32 _ (by decide) (by decide)) ?_
  refine SameToksAdj.tok (op [58, 58] tCOLONCOLON (by decide)) g0 g1
    (compat_ascii _ 84 _ (by decide) (by decide)) (compat_ascii _ 32 _ (by decide) (by decide)) ?_
  refine SameToksAdj.tok (idTok 84 (by decide) (by decide) (by decide)) (Gap.item cmt_item) g1
    (compat_ascii _ 47 _ (by decide) (by decide)) (compat_ascii _ 32 _ (by decide) (by decide)) ?_
  refine SameToksAdj.tok (op [45, 62] tARROW (by decide)) g0 g1
    (compat_ascii _ 121 _ (by decide) (by decide)) (compat_ascii _ 32 _ (by decide) (by decide)) ?_
  refine SameToksAdj.tok (idTok 121 (by decide) (by decide) (by decide)) (Gap.item dsh_item) g1
    (compat_ascii _ 45 _ (by decide) (by decide)) (compat_ascii _ 32 _ (by decide) (by decide)) ?_
  refine SameToksAdj.tok (op [43] tPLUS (by decide)) g0 g1
    (compat_ascii _ 49 _ (by decide) (by decide)) (compat_ascii _ 32 _ (by decide) (by decide)) ?_
  exact SameToksAdj.tok (int1 49 (by decide)) g1 (Gap.item w10)
    (compat_ascii _ 32 _ (by decide) (by decide)) (compat_ascii _ 10 _ (by decide) (by decide)) (SameToksAdj.tail rest)

/-- the side condition on the next token's first rune: `a` + ANY two gaps + `,…`. -/
example (g₁ g₂ : Bytes) (h₁ : Gap g₁) (h₂ : Gap g₂) (rest : Bytes) :
    pumpedFrom (stateAt ([97] ++ (g₁ ++ (44 :: rest)))) = pumpedFrom (stateAt ([97] ++ (g₂ ++ (44 :: rest)))) :=
  gap_invariance_adjacent _ _ (sameToksAdj_of_next _ _ _ g₁ g₂ _ _ (idTok 97 (by decide) (by decide) (by decide)) h₁ h₂
    (by decide) (compat_ascii _ 44 _ (by decide) (by decide)) (compat_ascii _ 44 _ (by decide) (by decide))
    (SameToksAdj.tail _))

/-- white-space-initial gaps after `-` (for which comment-initial gaps are NOT allowed). -/
example (rest : Bytes) :
    pumpedFrom (stateAt ([45] ++ (([32] ++ dsh) ++ rest))) = pumpedFrom (stateAt ([45] ++ (([10] ++ []) ++ rest))) :=
  gap_invariance_adjacent _ _ (sameToksAdj_of_ws _ _ _ _ _ _ _ (AdjTok.op (e := ([45], tMINUS)) (by decide))
    ⟨[32], 32, dsh, rfl, sp, by decide, Gap.item dsh_item⟩ ⟨[10], 10, [], rfl, dec10, by decide, Gap.nil⟩
    (SameToksAdj.tail rest))

/-- the corollary on an instance of `SameToks`. -/
example (rest : Bytes) :
    pumpedFrom (stateAt ([64, 64] ++ (([32] ++ []) ++ rest))) = pumpedFrom (stateAt ([64, 64] ++ (([10] ++ cmt) ++ rest))) :=
  gap_invariance_tokens' _ _ (SameToks.tok WsTok.atat ⟨[32], 32, [], rfl, sp, by decide, Gap.nil⟩
    ⟨[10], 10, cmt, rfl, dec10, by decide, Gap.item cmt_item⟩ (SameToks.tail rest))

-- the same instances, evaluated on the model:
#guard pumpedFrom (stateAt (strBytes "f(x,1)\n;")) == pumpedFrom (stateAt (strBytes "f ( x , 1 ) ;"))
#guard pumpedFrom (stateAt (strBytes "t.c::T/*c*/->y--z\n+1 ;")) == pumpedFrom (stateAt (strBytes "t . c :: T -> y + 1\n;"))

/-! ## 4. counter-examples: every exclusion of a stop class is necessary

`toks s` = the model's `(kind, value)` stream for the text `s`. Each pair of `#guard`s shows the token directly followed
by an excluded rune (first line: the token is NOT the one its class promises, or the follower's successor decides) and
the same two pieces separated by a blank (second line). The expected values were produced by the REAL lexer
(`printf '<hex>\n' | /verif/bin/harness tool lexdump`, generated mechanically from its output), so each `#guard` is at
the same time a model-versus-implementation check on that input. -/

/-- the model's token stream as `(kind, value)` pairs. -/
def toks (s : String) : List (Nat × Bytes) := (lex (strBytes s)).map (fun t => (t.kind, t.val))

-- `ident`: an identifier character continues the identifier; `'` after a lone `x X b B` starts a hex / binary string
#guard toks "ab" == [(tIDENT, strBytes "ab"), (tEOF, [])]
#guard toks "a b" == [(tIDENT, strBytes "a"), (tIDENT, strBytes "b"), (tEOF, [])]
#guard toks "x'41'" == [(tSTRING, strBytes "A"), (tEOF, [])]
#guard toks "x '41'" == [(tIDENT, strBytes "x"), (tSTRING, strBytes "41"), (tEOF, [])]
#guard toks "b'01'" == [(tSTRING, strBytes "\x01"), (tEOF, [])]
#guard toks "b '01'" == [(tIDENT, strBytes "b"), (tSTRING, strBytes "01"), (tEOF, [])]

-- `identLike`: `@@a`, `1_a`, `1a`, `$a` + identifier character (for `$a` + `$` the tag search starts: `$a$`)
#guard toks "@@ab" == [(tIDENT, strBytes "@@ab"), (tEOF, [])]
#guard toks "@@a b" == [(tIDENT, strBytes "@@a"), (tIDENT, strBytes "b"), (tEOF, [])]
#guard toks "1_ab" == [(tIDENT, strBytes "1_ab"), (tEOF, [])]
#guard toks "1_a b" == [(tIDENT, strBytes "1_a"), (tIDENT, strBytes "b"), (tEOF, [])]
#guard toks "1ab" == [(tIDENT, strBytes "1ab"), (tEOF, [])]
#guard toks "1a b" == [(tIDENT, strBytes "1a"), (tIDENT, strBytes "b"), (tEOF, [])]
#guard toks "$a$" == [(tIDENT, strBytes "$a$"), (tEOF, [])]
#guard toks "$a $" == [(tIDENT, strBytes "$a"), (tIDENT, strBytes "$"), (tEOF, [])]
#guard toks "$1a" == [(tIDENT, strBytes "$1a"), (tEOF, [])]
#guard toks "$1 a" == [(tIDENT, strBytes "$1"), (tIDENT, strBytes "a"), (tEOF, [])]

-- `digIdentE`: `1e` + sign is a NUMBER
#guard toks "1e+" == [(tNUMBER, strBytes "1e+"), (tEOF, [])]
#guard toks "1e +" == [(tIDENT, strBytes "1e"), (tPLUS, strBytes "+"), (tEOF, [])]
#guard toks "1e-" == [(tNUMBER, strBytes "1e-"), (tEOF, [])]
#guard toks "1e -" == [(tIDENT, strBytes "1e"), (tMINUS, strBytes "-"), (tEOF, [])]

-- `num int`: letter (identifier / exponent / base prefix), `_` (+ digit: group; + letter: identifier), `.` (fraction dot)
#guard toks "1a" == [(tIDENT, strBytes "1a"), (tEOF, [])]
#guard toks "1 a" == [(tNUMBER, strBytes "1"), (tIDENT, strBytes "a"), (tEOF, [])]
#guard toks "1e5" == [(tNUMBER, strBytes "1e5"), (tEOF, [])]
#guard toks "1 e5" == [(tNUMBER, strBytes "1"), (tIDENT, strBytes "e5"), (tEOF, [])]
#guard toks "0x1" == [(tNUMBER, strBytes "0x1"), (tEOF, [])]
#guard toks "0 x1" == [(tNUMBER, strBytes "0"), (tIDENT, strBytes "x1"), (tEOF, [])]
#guard toks "1_0" == [(tNUMBER, strBytes "10"), (tEOF, [])]
#guard toks "1 _0" == [(tNUMBER, strBytes "1"), (tIDENT, strBytes "_0"), (tEOF, [])]
#guard toks "1_a" == [(tIDENT, strBytes "1_a"), (tEOF, [])]
#guard toks "1 _a" == [(tNUMBER, strBytes "1"), (tIDENT, strBytes "_a"), (tEOF, [])]
#guard toks "1." == [(tNUMBER, strBytes "1."), (tEOF, [])]
#guard toks "1 ." == [(tNUMBER, strBytes "1"), (tDOT, strBytes "."), (tEOF, [])]
#guard toks ".5a" == [(tDOT, strBytes "."), (tIDENT, strBytes "5a"), (tEOF, [])]
#guard toks ".5 a" == [(tNUMBER, strBytes ".5"), (tIDENT, strBytes "a"), (tEOF, [])]
#guard toks ".5_a" == [(tDOT, strBytes "."), (tIDENT, strBytes "5_a"), (tEOF, [])]
#guard toks ".5 _a" == [(tNUMBER, strBytes ".5"), (tIDENT, strBytes "_a"), (tEOF, [])]
#guard toks ".5." == [(tNUMBER, strBytes ".5."), (tEOF, [])]
#guard toks ".5 ." == [(tNUMBER, strBytes ".5"), (tDOT, strBytes "."), (tEOF, [])]
#guard toks ".5.6" == [(tNUMBER, strBytes ".5.6"), (tEOF, [])]
#guard toks ".5 .6" == [(tNUMBER, strBytes ".5"), (tNUMBER, strBytes ".6"), (tEOF, [])]

-- `num grp`: `.`, `e`, `_` + digit
#guard toks "1_0." == [(tNUMBER, strBytes "10."), (tEOF, [])]
#guard toks "1_0 ." == [(tNUMBER, strBytes "10"), (tDOT, strBytes "."), (tEOF, [])]
#guard toks "1_0e" == [(tNUMBER, strBytes "10e"), (tEOF, [])]
#guard toks "1_0 e" == [(tNUMBER, strBytes "10"), (tIDENT, strBytes "e"), (tEOF, [])]
#guard toks "1_0_0" == [(tNUMBER, strBytes "100"), (tEOF, [])]
#guard toks "1_0 _0" == [(tNUMBER, strBytes "10"), (tIDENT, strBytes "_0"), (tEOF, [])]

-- `num dot`: digit; identifier start or `.` as seen by `peekChar` gives the dot back — but `1.é` keeps it
#guard toks "1.5" == [(tNUMBER, strBytes "1.5"), (tEOF, [])]
#guard toks "1. 5" == [(tNUMBER, strBytes "1."), (tNUMBER, strBytes "5"), (tEOF, [])]
#guard toks "1.a" == [(tNUMBER, strBytes "1"), (tDOT, strBytes "."), (tIDENT, strBytes "a"), (tEOF, [])]
#guard toks "1. a" == [(tNUMBER, strBytes "1."), (tIDENT, strBytes "a"), (tEOF, [])]
#guard toks "1._" == [(tNUMBER, strBytes "1"), (tDOT, strBytes "."), (tIDENT, strBytes "_"), (tEOF, [])]
#guard toks "1. _" == [(tNUMBER, strBytes "1."), (tIDENT, strBytes "_"), (tEOF, [])]
#guard toks "1..2" == [(tNUMBER, strBytes "1"), (tDOT, strBytes "."), (tNUMBER, strBytes ".2"), (tEOF, [])]
#guard toks "1. .2" == [(tNUMBER, strBytes "1."), (tNUMBER, strBytes ".2"), (tEOF, [])]
#guard toks "1.é" == [(tNUMBER, strBytes "1."), (tIDENT, strBytes "é"), (tEOF, [])]
#guard toks "1. é" == [(tNUMBER, strBytes "1."), (tIDENT, strBytes "é"), (tEOF, [])]

-- `num frac`: `_` + digit, `e`
#guard toks "1.5_0" == [(tNUMBER, strBytes "1.50"), (tEOF, [])]
#guard toks "1.5 _0" == [(tNUMBER, strBytes "1.5"), (tIDENT, strBytes "_0"), (tEOF, [])]
#guard toks "1.5e" == [(tNUMBER, strBytes "1.5e"), (tEOF, [])]
#guard toks "1.5 e" == [(tNUMBER, strBytes "1.5"), (tIDENT, strBytes "e"), (tEOF, [])]

-- `num exp`: `_` + digit
#guard toks "1e5_0" == [(tNUMBER, strBytes "1e50"), (tEOF, [])]
#guard toks "1e5 _0" == [(tNUMBER, strBytes "1e5"), (tIDENT, strBytes "_0"), (tEOF, [])]
#guard toks ".5e3_0" == [(tNUMBER, strBytes ".5e30"), (tEOF, [])]
#guard toks ".5e3 _0" == [(tNUMBER, strBytes ".5e3"), (tIDENT, strBytes "_0"), (tEOF, [])]

-- `hex`: `.`, `p`, `_` after the digits; `p` after the fraction; a sign after a bare `p`
#guard toks "0x1." == [(tNUMBER, strBytes "0x1."), (tEOF, [])]
#guard toks "0x1 ." == [(tNUMBER, strBytes "0x1"), (tDOT, strBytes "."), (tEOF, [])]
#guard toks "0x1p" == [(tNUMBER, strBytes "0x1p"), (tEOF, [])]
#guard toks "0x1 p" == [(tNUMBER, strBytes "0x1"), (tIDENT, strBytes "p"), (tEOF, [])]
#guard toks "0x1_" == [(tNUMBER, strBytes "0x1_"), (tEOF, [])]
#guard toks "0x1 _" == [(tNUMBER, strBytes "0x1"), (tIDENT, strBytes "_"), (tEOF, [])]
#guard toks "0x1.8p" == [(tNUMBER, strBytes "0x1.8p"), (tEOF, [])]
#guard toks "0x1.8 p" == [(tNUMBER, strBytes "0x1.8"), (tIDENT, strBytes "p"), (tEOF, [])]
#guard toks "0x1p+" == [(tNUMBER, strBytes "0x1p+"), (tEOF, [])]
#guard toks "0x1p +" == [(tNUMBER, strBytes "0x1p"), (tPLUS, strBytes "+"), (tEOF, [])]
#guard toks "0x1p-" == [(tNUMBER, strBytes "0x1p-"), (tEOF, [])]
#guard toks "0x1p -" == [(tNUMBER, strBytes "0x1p"), (tMINUS, strBytes "-"), (tEOF, [])]

-- `bin`, `oct`: `_` and further digits
#guard toks "0b1_" == [(tNUMBER, strBytes "0b1_"), (tEOF, [])]
#guard toks "0b1 _" == [(tNUMBER, strBytes "0b1"), (tIDENT, strBytes "_"), (tEOF, [])]
#guard toks "0b10" == [(tNUMBER, strBytes "0b10"), (tEOF, [])]
#guard toks "0b1 0" == [(tNUMBER, strBytes "0b1"), (tNUMBER, strBytes "0"), (tEOF, [])]
#guard toks "0o7_" == [(tNUMBER, strBytes "0o7_"), (tEOF, [])]
#guard toks "0o7 _" == [(tNUMBER, strBytes "0o7"), (tIDENT, strBytes "_"), (tEOF, [])]
#guard toks "0o71" == [(tNUMBER, strBytes "0o71"), (tEOF, [])]
#guard toks "0o7 1" == [(tNUMBER, strBytes "0o7"), (tNUMBER, strBytes "1"), (tEOF, [])]

-- `op`: every exclusion of `opStop`
#guard toks "/*c*/" == [(tLINE_COMMENT, strBytes "/*c*/"), (tEOF, [])]
#guard toks "/ *c*/" == [(tSLASH, strBytes "/"), (tASTERISK, strBytes "*"), (tIDENT, strBytes "c"), (tASTERISK, strBytes "*"), (tSLASH, strBytes "/"), (tEOF, [])]
#guard toks "--c" == [(tLINE_COMMENT, strBytes "--c"), (tEOF, [])]
#guard toks "- -c" == [(tMINUS, strBytes "-"), (tMINUS, strBytes "-"), (tIDENT, strBytes "c"), (tEOF, [])]
#guard toks "->" == [(tARROW, strBytes "->"), (tEOF, [])]
#guard toks "- >" == [(tMINUS, strBytes "-"), (tGT, strBytes ">"), (tEOF, [])]
#guard toks "==" == [(tEQ, strBytes "=="), (tEOF, [])]
#guard toks "= =" == [(tEQ, strBytes "="), (tEQ, strBytes "="), (tEOF, [])]
#guard toks "!=" == [(tNEQ, strBytes "!="), (tEOF, [])]
#guard toks "! =" == [(tILLEGAL, strBytes "!"), (tEQ, strBytes "="), (tEOF, [])]
#guard toks "<=" == [(tLTE, strBytes "<="), (tEOF, [])]
#guard toks "< =" == [(tLT, strBytes "<"), (tEQ, strBytes "="), (tEOF, [])]
#guard toks "<>" == [(tNEQ, strBytes "<>"), (tEOF, [])]
#guard toks "< >" == [(tLT, strBytes "<"), (tGT, strBytes ">"), (tEOF, [])]
#guard toks ">=" == [(tGTE, strBytes ">="), (tEOF, [])]
#guard toks "> =" == [(tGT, strBytes ">"), (tEQ, strBytes "="), (tEOF, [])]
#guard toks "||" == [(tCONCAT, strBytes "||"), (tEOF, [])]
#guard toks "| |" == [(tILLEGAL, strBytes "|"), (tILLEGAL, strBytes "|"), (tEOF, [])]
#guard toks "::" == [(tCOLONCOLON, strBytes "::"), (tEOF, [])]
#guard toks ": :" == [(tCOLON, strBytes ":"), (tCOLON, strBytes ":"), (tEOF, [])]
#guard toks ".5" == [(tNUMBER, strBytes ".5"), (tEOF, [])]
#guard toks ". 5" == [(tDOT, strBytes "."), (tNUMBER, strBytes "5"), (tEOF, [])]
#guard toks "<=>" == [(tNULL_SAFE_EQ, strBytes "<=>"), (tEOF, [])]
#guard toks "<= >" == [(tLTE, strBytes "<="), (tGT, strBytes ">"), (tEOF, [])]

-- `quoted`: the same quote doubles
#guard toks "'a''b'" == [(tSTRING, strBytes "a'b"), (tEOF, [])]
#guard toks "'a' 'b'" == [(tSTRING, strBytes "a"), (tSTRING, strBytes "b"), (tEOF, [])]
#guard toks "\"a\"\"b\"" == [(tIDENT, strBytes "a\"b"), (tEOF, [])]
#guard toks "\"a\" \"b\"" == [(tIDENT, strBytes "a"), (tIDENT, strBytes "b"), (tEOF, [])]
#guard toks "`a``b`" == [(tIDENT, strBytes "a`b"), (tEOF, [])]
#guard toks "`a` `b`" == [(tIDENT, strBytes "a"), (tIDENT, strBytes "b"), (tEOF, [])]

-- `atSign`, `atAt`
#guard toks "@@" == [(tIDENT, strBytes "@@"), (tEOF, [])]
#guard toks "@ @" == [(tIDENT, strBytes "@"), (tIDENT, strBytes "@"), (tEOF, [])]
#guard toks "@@a" == [(tIDENT, strBytes "@@a"), (tEOF, [])]
#guard toks "@@ a" == [(tIDENT, strBytes "@@"), (tIDENT, strBytes "a"), (tEOF, [])]
#guard toks "@@1" == [(tIDENT, strBytes "@@1"), (tEOF, [])]
#guard toks "@@ 1" == [(tIDENT, strBytes "@@"), (tNUMBER, strBytes "1"), (tEOF, [])]

-- `commentOk` fails for the operator `-`, for `D+e` and for `0x…p`: a comment directly after them is not a comment
#guard toks "a---c\nb" == [(tIDENT, strBytes "a"), (tLINE_COMMENT, strBytes "---c"), (tIDENT, strBytes "b"), (tEOF, [])]
#guard toks "a- --c\nb" == [(tIDENT, strBytes "a"), (tMINUS, strBytes "-"), (tLINE_COMMENT, strBytes "--c"), (tIDENT, strBytes "b"), (tEOF, [])]
#guard toks "1e--c\n" == [(tNUMBER, strBytes "1e-"), (tMINUS, strBytes "-"), (tIDENT, strBytes "c"), (tEOF, [])]
#guard toks "1e --c\n" == [(tIDENT, strBytes "1e"), (tLINE_COMMENT, strBytes "--c"), (tEOF, [])]
#guard toks "0x1p--c\n" == [(tNUMBER, strBytes "0x1p-"), (tMINUS, strBytes "-"), (tIDENT, strBytes "c"), (tEOF, [])]
#guard toks "0x1p --c\n" == [(tNUMBER, strBytes "0x1p"), (tLINE_COMMENT, strBytes "--c"), (tEOF, [])]

-- … while it is one after every other class: `a--c`, `1--c`, `1.--c`, `'s'--c`, `)/*c*/`, `//*c*/`, `x#c`
#guard toks "a--c\nb" == [(tIDENT, strBytes "a"), (tLINE_COMMENT, strBytes "--c"), (tIDENT, strBytes "b"), (tEOF, [])]
#guard toks "a --c\nb" == [(tIDENT, strBytes "a"), (tLINE_COMMENT, strBytes "--c"), (tIDENT, strBytes "b"), (tEOF, [])]
#guard toks "1--c\n2" == [(tNUMBER, strBytes "1"), (tLINE_COMMENT, strBytes "--c"), (tNUMBER, strBytes "2"), (tEOF, [])]
#guard toks "1 --c\n2" == [(tNUMBER, strBytes "1"), (tLINE_COMMENT, strBytes "--c"), (tNUMBER, strBytes "2"), (tEOF, [])]
#guard toks "1.--c\n2" == [(tNUMBER, strBytes "1."), (tLINE_COMMENT, strBytes "--c"), (tNUMBER, strBytes "2"), (tEOF, [])]
#guard toks "1. --c\n2" == [(tNUMBER, strBytes "1."), (tLINE_COMMENT, strBytes "--c"), (tNUMBER, strBytes "2"), (tEOF, [])]
#guard toks "'s'--c\n2" == [(tSTRING, strBytes "s"), (tLINE_COMMENT, strBytes "--c"), (tNUMBER, strBytes "2"), (tEOF, [])]
#guard toks "'s' --c\n2" == [(tSTRING, strBytes "s"), (tLINE_COMMENT, strBytes "--c"), (tNUMBER, strBytes "2"), (tEOF, [])]
#guard toks ")/*c*/(" == [(tRPAREN, strBytes ")"), (tLINE_COMMENT, strBytes "/*c*/"), (tLPAREN, strBytes "("), (tEOF, [])]
#guard toks ") /*c*/(" == [(tRPAREN, strBytes ")"), (tLINE_COMMENT, strBytes "/*c*/"), (tLPAREN, strBytes "("), (tEOF, [])]
#guard toks "//*c*/2" == [(tSLASH, strBytes "/"), (tLINE_COMMENT, strBytes "/*c*/"), (tNUMBER, strBytes "2"), (tEOF, [])]
#guard toks "/ /*c*/2" == [(tSLASH, strBytes "/"), (tLINE_COMMENT, strBytes "/*c*/"), (tNUMBER, strBytes "2"), (tEOF, [])]
#guard toks "x#c\n2" == [(tIDENT, strBytes "x"), (tLINE_COMMENT, strBytes "#c"), (tNUMBER, strBytes "2"), (tEOF, [])]
#guard toks "x #c\n2" == [(tIDENT, strBytes "x"), (tLINE_COMMENT, strBytes "#c"), (tNUMBER, strBytes "2"), (tEOF, [])]

-- empty versus non-empty gap where the next token's first rune is NOT compatible: different streams
#guard toks "a.1" == [(tIDENT, strBytes "a"), (tNUMBER, strBytes ".1"), (tEOF, [])]
#guard toks "a . 1" == [(tIDENT, strBytes "a"), (tDOT, strBytes "."), (tNUMBER, strBytes "1"), (tEOF, [])]
#guard toks "1.e5" == [(tNUMBER, strBytes "1"), (tDOT, strBytes "."), (tIDENT, strBytes "e5"), (tEOF, [])]
#guard toks "1. e5" == [(tNUMBER, strBytes "1."), (tIDENT, strBytes "e5"), (tEOF, [])]
#guard toks "a-->b" == [(tIDENT, strBytes "a"), (tLINE_COMMENT, strBytes "-->b"), (tEOF, [])]
#guard toks "a- ->b" == [(tIDENT, strBytes "a"), (tMINUS, strBytes "-"), (tARROW, strBytes "->"), (tIDENT, strBytes "b"), (tEOF, [])]

-- the 32-byte window of `isIdentifierAfterDot`: `.` + 30 digits + `e5` is one NUMBER, `.` + 31 digits + `e5` is `DOT` …
-- (`#guard`s in `DC/Props/C05Ends.lean`); `token_ends_at_stop_dotnum` asks for at most 28 digits (sufficient: the window
-- then shows at least four bytes of the follower, all that `utf8.DecodeRune` looks at).

end DC.Props.C05Adj
