import DC.Proofs.LexerRdRefine
import DC.Proofs.LexerRdTokenize

/-!
# C14 — the token stream does not depend on how the `io.Reader` delivers the bytes (`lex_chunking`)

"Parsing the same byte stream gives the same statements, EXPLAIN text and error whether the io.Reader returns
everything at once, one byte per Read, short reads that split multi-byte characters, or the last bytes together
with io.EOF."

`DC.Props.C14` proves that `bufio.Reader` answers every `ReadRune`/`Peek` as the pure reader over the concatenated
bytes does. This file composes that with the lexer: `DC.Model.LexerRd` is lexer.go written against the reader
*interface* (the two calls it really makes, obligation `C14.reader_use_ok`), `lexOverBufio script` runs it on top of
the `bufio` model on top of a scripted `io.Reader`, and

  `lex_chunking : Clean script .eof → NoStall script → lexOverBufio script = .ok (lex (pending script))`

says: whatever the chunking, the tokens (kinds, values, positions) are those of the pure lexer model `DC.Lexer.lex`
(the model of C12/C13, tied to the code by pins and the token-stream correspondence) on the concatenated bytes; no
panic, no fuel exhaustion. Everything downstream of the token stream (`Parse`, `Explain`, the error) reads tokens only.

The two halves: `RdM.runBufio_eq_runL` (every program over the reader interface, by induction on the program, from
`readRune_refines`/`peek_refines`) and `tokenizeM_pure` (the interface lexer run over the bytes IS `lex`, function by
function). Executable tie: driver op `lexbufio` = `lexOverBufio`, compared with the real
`lexer.Tokenize(chunked reader)` by `/verif/harness/p_c14.go` (`c14LexOverBufio`).

Hypotheses, exactly (as in `DC.Props.C14`): `Clean script .eof` — no event carries an error except that the last one
may carry `io.EOF`; `NoStall script` — never 100 consecutive `(0, nil)` answers.
-/
namespace DC.Props.C14Lex
open DC DC.Bufio DC.Lexer DC.LexerRd DC.Rd

theorem scriptBytes_eq_pending (script : Script) : scriptBytes script = pending script := by
  induction script with
  | nil => rfl
  | cons ev rest ih => simp only [scriptBytes, pending, ih]

/-- **Any program over the reader interface** (any client that only calls `ReadRune` and `Peek`, adaptively) returns
over `bufio.NewReader` on any clean, non-stalling chunking what it returns over the concatenated bytes. -/
theorem reader_program_chunking {ε α : Type} (prog : RdM ε α) (script : Script)
    (hc : Clean script .eof) (hn : NoStall script) :
    (RdM.runBufio prog (newReader script)).1 = (RdM.runL prog (pending script)).1 :=
  RdM.runBufio_eq_runL prog script hc hn

/-- **The interface lexer over the bytes is the pure lexer model** (for every fuel above `2·|b|`). -/
theorem interface_lexer_is_lex (b : Bytes) (fuel : Nat) (hf : 2 * b.length < fuel) :
    (RdM.runL (tokenizeM fuel) b).1 = .ok (lex b) :=
  tokenizeM_pure b fuel hf

/-- **`lex_chunking`**, with the fuel of the model loops explicit: every value above `2·|bytes|` gives the same,
correct, result — so the fuel is not observable. -/
theorem lex_chunking_fuel (script : Script) (hc : Clean script .eof) (hn : NoStall script)
    (fuel : Nat) (hf : 2 * (pending script).length < fuel) :
    lexOverBufioFuel fuel script = .ok (lex (pending script)) := by
  unfold lexOverBufioFuel
  rw [reader_program_chunking _ script hc hn]
  exact tokenizeM_pure _ fuel hf

/-- **`lex_chunking`.** The lexer running on top of `bufio.Reader` over ANY chunking of a byte stream produces the
token stream of the pure lexer on the concatenated bytes. -/
theorem lex_chunking (script : Script) (hc : Clean script .eof) (hn : NoStall script) :
    lexOverBufio script = .ok (lex (pending script)) := by
  unfold lexOverBufio
  rw [scriptBytes_eq_pending]
  exact lex_chunking_fuel script hc hn _ (by omega)

/-- two deliveries of the same bytes give the same tokens -/
theorem lex_chunking_independent (s₁ s₂ : Script) (h₁ : Clean s₁ .eof) (n₁ : NoStall s₁)
    (h₂ : Clean s₂ .eof) (n₂ : NoStall s₂) (hb : pending s₁ = pending s₂) :
    lexOverBufio s₁ = lexOverBufio s₂ := by
  rw [lex_chunking s₁ h₁ n₁, lex_chunking s₂ h₂ n₂, hb]

/-- over any chunking: the last token is EOF, no earlier one is, at most `|bytes| + 1` tokens (C12's statements,
transported to the lexer over `bufio`) -/
theorem lex_chunking_eof_last (script : Script) (hc : Clean script .eof) (hn : NoStall script) :
    ∃ l, lexOverBufio script = .ok l ∧ l.getLast?.map (·.kind) = some DC.Gen.Tokens.tEOF ∧
      (∀ t ∈ l.dropLast, t.kind ≠ DC.Gen.Tokens.tEOF) := by
  refine ⟨_, lex_chunking script hc hn, ?_⟩
  exact (lex_trace (pending script)).eof_last

/-! ### non-vacuity: `SELECT 'é'` delivered one byte per `Read` (the two bytes of `é` in different reads) -/

/-- `SELECT 'é'` -/
def sample : Bytes := [0x53, 0x45, 0x4C, 0x45, 0x43, 0x54, 0x20, 0x27, 0xC3, 0xA9, 0x27]

def oneBytePerRead : Script := sample.map (fun b => { data := [b], err := none })
/-- split inside `é`, empty reads in between, `io.EOF` with the last byte -/
def splitWithEOF : Script :=
  [⟨sample.take 9, none⟩, ⟨[], none⟩, ⟨[], none⟩, ⟨[0xA9], none⟩, ⟨[0x27], some .eof⟩]
def allAtOnce : Script := [⟨sample, none⟩]

def sampleTokens : List Tok :=
  [{ kind := 156, val := [83, 69, 76, 69, 67, 84], off := 1, line := 1, col := 1, quoted := false },
   { kind := 6, val := [0xC3, 0xA9], off := 8, line := 1, col := 8, quoted := false },
   { kind := 1, val := [], off := 11, line := 1, col := 10, quoted := false }]

theorem sample_scripts_ok :
    (Clean oneBytePerRead .eof ∧ NoStall oneBytePerRead ∧ pending oneBytePerRead = sample) ∧
    (Clean splitWithEOF .eof ∧ NoStall splitWithEOF ∧ pending splitWithEOF = sample) ∧
    (Clean allAtOnce .eof ∧ NoStall allAtOnce ∧ pending allAtOnce = sample) := by
  simp [Clean, NoStall, leadEmpty, pending, oneBytePerRead, splitWithEOF, allAtOnce, sample, maxConsecutiveEmptyReads]

/-- `Except` has no `DecidableEq`; the evaluated examples go through `toOption` -/
theorem ok_of_toOption {x : Except Fail (List Tok)} {l : List Tok} (h : x.toOption = some l) : x = .ok l := by
  cases x with
  | error e => cases h
  | ok a => simp only [Except.toOption, Option.some.injEq] at h; rw [h]

/-- evaluated directly on the models (no theorem involved): the interface lexer on the `bufio` model, one byte per
`Read`, really produces SELECT, the string `é`, EOF -/
theorem sample_oneByte : lexOverBufio oneBytePerRead = .ok sampleTokens := by
  apply ok_of_toOption
  unfold lexOverBufio lexOverBufioFuel
  rw [RdM.runBufio_eqE]
  decide +kernel

theorem sample_split : lexOverBufio splitWithEOF = .ok sampleTokens := by
  apply ok_of_toOption
  unfold lexOverBufio lexOverBufioFuel
  rw [RdM.runBufio_eqE]
  decide +kernel

/-- the hypotheses of `lex_chunking` hold for these scripts, and its conclusion is the expected one: hence the pure
lexer's answer on `SELECT 'é'` -/
example : lex sample = sampleTokens := by
  obtain ⟨⟨a1, a2, a3⟩, _, _⟩ := sample_scripts_ok
  have h := lex_chunking oneBytePerRead a1 a2
  rw [a3] at h
  rw [sample_oneByte] at h
  exact (Except.ok.inj h).symm

example : lexOverBufio oneBytePerRead = lexOverBufio splitWithEOF ∧ lexOverBufio splitWithEOF = lexOverBufio allAtOnce := by
  obtain ⟨⟨a1, a2, a3⟩, ⟨b1, b2, b3⟩, ⟨c1, c2, c3⟩⟩ := sample_scripts_ok
  exact ⟨lex_chunking_independent _ _ a1 a2 b1 b2 (a3.trans b3.symm),
    lex_chunking_independent _ _ b1 b2 c1 c2 (b3.trans c3.symm)⟩

/-- `NoStall` cannot be dropped: after 100 empty reads the lexer over `bufio` sees the end of input
(`io.ErrNoProgress`) although the byte `1` follows; without them it lexes the number. -/
example :
    lexOverBufio (List.replicate 100 ⟨[], none⟩ ++ [⟨[0x31], none⟩]) =
      .ok [{ kind := 1, val := [], off := 0, line := 1, col := 0, quoted := false }] ∧
    lexOverBufio [⟨[0x31], none⟩] =
      .ok [{ kind := 5, val := [0x31], off := 1, line := 1, col := 1, quoted := false },
           { kind := 1, val := [], off := 1, line := 1, col := 1, quoted := false }] := by
  refine ⟨?_, ?_⟩ <;>
  · apply ok_of_toOption
    unfold lexOverBufio lexOverBufioFuel
    rw [RdM.runBufio_eqE]
    decide +kernel

end DC.Props.C14Lex
