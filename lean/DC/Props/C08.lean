import DC.Proofs.PrattRoundtrip
import DC.Proofs.PrattExplain

/-!
# C08 — operator precedence and associativity

"For expressions built from identifiers, unsigned integer literals, parentheses, unary NOT and unary minus, and the
binary operators OR, AND, =, ==, !=, <>, <, <=, >, >=, <=>, ||, +, -, *, /, %, DIV, MOD, the function tree printed by
EXPLAIN is the one obtained by the standard precedence climb OR < AND < NOT < comparison < || < additive <
multiplicative < unary minus with left associativity, each operator mapped to its ClickHouse function name, and
unparenthesised AND/OR/|| chains flattened into one n-ary call."

* model: `DC.Model.Pratt` (`parse`, `explainModel`), precedences from `DC.Gen.Prec`, names from `DC.Gen.OpFn`;
* specification: `DC.Spec.PrecSpec` (`E`, `render`, `erase`, `WellPar`, `refExplain`), independent of the generated tables;
* `prec_table_ok` and `op_names_ok` are the only places where the generated data is inspected (`decide`).
-/
namespace DC.Props.C08
open DC.Model.Pratt DC.Spec.PrecSpec DC.Proofs.Pratt

/-- The generated precedence table is the declarative one: LOWEST < OR < AND < NOT < COMPARE < CONCAT < ADD < MUL < UNARY,
every operator token of the fragment has the constant of its class, `)` has LOWEST. A changed constant breaks this. -/
theorem prec_table_ok : tableWellOrdered genTable := by decide

/-- `OperatorToFunction` / `UnaryOperatorToFunction` give every operator of the fragment the property's function name. -/
theorem op_names_ok : namesOk := by decide

/-- Every well-parenthesised tree, of any depth, re-parses to itself (with the `Parenthesized` marks of its parentheses). -/
theorem pratt_roundtrip (e : E) (hw : WellPar e) : parse (render e) = some (erase e) :=
  roundtrip prec_table_ok e hw

/-- The model's EXPLAIN of the tree's AST is the reference: one function per operator with its ClickHouse name, maximal
unparenthesised AND/OR/|| chains n-ary, `-literal` folded. (`WellPar` is not needed for this half; it is kept in the
statement because only for well-parenthesised trees is `erase e` what the text of `e` parses to.) -/
theorem explain_is_reference (e : E) (_hw : WellPar e) (hn : noParConcatUnderConcat e) (hr : litsInRange e) :
    explainModel (erase e) = refExplain e :=
  explain_eq_ref op_names_ok e hr hn

/-- C08 for the model: the text of a well-parenthesised tree parses, and EXPLAIN prints the tree the table dictates. -/
theorem c08_model (e : E) (hw : WellPar e) (hn : noParConcatUnderConcat e) (hr : litsInRange e) :
    (parse (render e)).map explainModel = some (refExplain e) := by
  rw [pratt_roundtrip e hw, Option.map_some, explain_is_reference e hw hn hr]

/-- Unique reading: two well-parenthesised trees with the same text denote the same AST — the precedence climb leaves no
text of the fragment with two readings (a corollary of the round trip, for trees of any depth). `erase` itself is not
injective (`( ( a ) )` and `( a )` carry the same single `Parenthesized` mark), so equality is of the denoted ASTs. -/
theorem wellpar_unambiguous (e₁ e₂ : E) (h₁ : WellPar e₁) (h₂ : WellPar e₂) (ht : render e₁ = render e₂) :
    erase e₁ = erase e₂ := by
  have a := pratt_roundtrip e₁ h₁
  rw [ht, pratt_roundtrip e₂ h₂] at a
  exact (Option.some.inj a).symm

/-- … and therefore print the same reference tree: EXPLAIN is a function of the text, not of the tree one had in mind. -/
theorem explain_of_text (e₁ e₂ : E) (h₁ : WellPar e₁) (h₂ : WellPar e₂)
    (n₁ : noParConcatUnderConcat e₁) (n₂ : noParConcatUnderConcat e₂) (r₁ : litsInRange e₁) (r₂ : litsInRange e₂)
    (ht : render e₁ = render e₂) : refExplain e₁ = refExplain e₂ := by
  have a := c08_model e₁ h₁ n₁ r₁
  rw [ht, c08_model e₂ h₂ n₂ r₂] at a
  exact (Option.some.inj a).symm


/-
`parse_only_wellpar : parse ts = some a → ∃ e, WellPar e ∧ render e = ts ∧ erase e = a`
is FALSE for the faithful model (and for the real parser), hence not stated: `parseInfixExpression`'s `case token.NOT`
consumes an infix NOT that is not followed by IN/LIKE/ILIKE/REGEXP/BETWEEN and returns `left` (expression.go:548-565).
So `SELECT a NOT` is accepted and prints `Identifier a` (`parse [.ident "a", .not] = some (.ident "a" false)`, no tree
renders to `a NOT`), and even the weaker "every parsed AST is `erase e` of a well-parenthesised `e`" fails:
`SELECT a + b NOT * c` is accepted and prints `multiply(plus(a, b), c)` — the right operand of `+` stops at the NOT
(ADD ≥ NOT_PREC), the outer loop drops the NOT and then takes `*`. These texts are outside C08's fragment (an infix
NOT is not a unary NOT). What the converse is meant to guard — that `WellPar` has no superfluous side condition — is
checked exhaustively by the harness instead: on every enumerated tree, `parse (render e) = some (erase e) ↔ WellPar e`
(p_c08.go, obligation "parse_only_wellpar").
-/

/-! ## non-vacuity -/

/-- `a + 1 * - 2` -/
def ex1 : E := .bin .plus (.id "a") (.bin .mul (.num 1) (.neg (.num 2)))
/-- `NOT ( a ) + 1 = b OR c OR ( d OR a )` -/
def ex2 : E :=
  .bin .or (.bin .or (.bin .eq (.bin .plus (.not (.par (.id "a"))) (.num 1)) (.id "b")) (.id "c"))
    (.par (.bin .or (.id "d") (.id "a")))

example : WellPar ex1 ∧ noParConcatUnderConcat ex1 ∧ litsInRange ex1 := by decide
example : WellPar ex2 ∧ noParConcatUnderConcat ex2 ∧ litsInRange ex2 := by decide
/-- `( a + b ) * c` written without its parentheses is not well-parenthesised … -/
example : ¬ WellPar (.bin .mul (.bin .plus (.id "a") (.id "b")) (.id "c")) := by decide
/-- … and `NOT a + 1` read as `(NOT a) + 1` is not either, while `NOT ( a ) + 1` is. -/
example : ¬ WellPar (.bin .plus (.not (.id "a")) (.num 1)) ∧ WellPar (.bin .plus (.not (.par (.id "a"))) (.num 1)) := by decide
example : ¬ noParConcatUnderConcat (.bin .concat (.par (.bin .concat (.id "a") (.id "b"))) (.id "c")) := by decide

example :
    parse [.ident "a", .op .plus, .number 1, .op .mul, .op .minus, .number 2] =
      some (.binary .plus (.ident "a" false)
        (.binary .mul (.lit (.int64 1) false) (.unary .neg (.lit (.int64 2) false)) false) false) :=
  pratt_roundtrip ex1 (by decide)

example : refExplain ex1 =
    ["Function plus (children 1)", " ExpressionList (children 2)", "  Identifier a",
     "  Function multiply (children 1)", "   ExpressionList (children 2)", "    Literal UInt64_1", "    Literal Int64_-2"] := by
  simp [refExplain, ex1, ref_bin, ref_id, ref_num, ref_neg_num, flattens, fnName, fnLines, litLine]
  decide

example : (parse (render ex2)).map explainModel = some (refExplain ex2) :=
  c08_model ex2 (by decide) (by decide) (by decide)

/-- `( ( a ) ) + b` and `( a ) + b` are different trees with different texts but one AST; `wellpar_unambiguous` is about
equal texts: its premises hold of `ex1` with itself, and the two readings of `a + b * c` never both satisfy `WellPar`. -/
example : erase (.bin .plus (.par (.par (.id "a"))) (.id "b")) = erase (.bin .plus (.par (.id "a")) (.id "b")) := by decide
example : render (.bin .mul (.bin .plus (.id "a") (.id "b")) (.id "c")) = render (.bin .plus (.id "a") (.bin .mul (.id "b") (.id "c")))
    ∧ WellPar (.bin .plus (.id "a") (.bin .mul (.id "b") (.id "c")))
    ∧ ¬ WellPar (.bin .mul (.bin .plus (.id "a") (.id "b")) (.id "c")) := by decide

end DC.Props.C08
