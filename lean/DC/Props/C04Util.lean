import DC.Proofs.ExplainUtil

/-!
# C04 on the utility-statement printers: header count = number of children printed  (partial)

> … a node's '(children N)' suffix equals the number of nodes printed directly beneath it (absent means zero) …

Model: `DC.Model.ExplainUtil` mirrors, guard by guard and in source order, the counting and the
child-emitting statements of these functions of internal/explain/statements.go:
`explainDropQuery` (all its paths: the seven header-only kinds, DROP INDEX, the multi-table list, the
database-qualified / DROP DATABASE / plain paths with FORMAT and SETTINGS), `explainUndropQuery`,
`explainRenameQuery`, `explainExchangeQuery`, `explainOptimizeQuery` (+ its partition node),
`explainTruncateQuery`, `explainDeleteQuery`, `explainUpdateQuery` (+ its assignment list), `explainKillQuery`,
`explainCheckQuery`, `explainDetachQuery`, `explainAttachQuery` (+ its `Columns definition` and
`Storage definition` nodes), `explainExistsTableQuery`, `explainDescribeQuery`, `explainSystemQuery`,
`explainShowQuery` (every arm), `explainUseQuery`, `explainInsertQuery`, `explainBackupQuery` /
`explainRestoreQuery`, `explainCreateIndexQuery` (+ its `Index` node), `explainParallelWithQuery`.
It is tied to the code by the zero-difference correspondence `util-count-emit-correspondence`
(harness/p_c04util.go: the shape is read off the PARSED ast by typed field access, the model's count and
child kinds are compared with the header and the direct children of the real `Explain` output) and by
the source pins.

Statements: for ALL combinations of the guards (and all list lengths), `count… s = (emit… s).length`.
Unconditional for every node except five (of four printers), which need an AST invariant; there the invariant is
exactly the condition (`…_pair_iff`) and is shown necessary by a decided counterexample (`…_needs_…`):
* `WfRename`: RENAME DATABASE has a pair (header says 2, only `Pairs[0]` is printed).  No text `Parse`
  accepts violates it (a RENAME without `TO` is a parse error).
* `WfUpdate`: lightweight UPDATE has its WHERE (header says 3).  `Parse` violates it on `UPDATE t SET a = 1`,
  which ClickHouse rejects (its `ParserUpdateQuery` requires WHERE): an observation, not a C04 failure.
* `WfAttach`: ATTACH DICTIONARY carries no column list / SELECT / storage clause (counted, but the
  dictionary arms return before printing them).  `Parse` violates it on
  `ATTACH DICTIONARY d (a UInt64) PRIMARY KEY a` (header 3, one child), which ClickHouse rejects (its
  `ParserCreateDictionaryQuery` reads nothing after the name of an ATTACHed dictionary): an observation.
* `WfAttachStorage`: ATTACH's ORDER BY and PRIMARY KEY hold at most one expression each (counted once,
  printed once per element).  `Parse` always stores a single (possibly tuple) expression.
* `WfSystem`: SYSTEM FLUSH LOGS with a SETTINGS clause names no table: `isFlushLogs` guards the count of the
  database/table identifiers but not their printing.  `Parse` violates it on
  `SYSTEM FLUSH LOGS system.query_log SETTINGS a = 1` (header 1, three children).  ClickHouse's
  `ParserSystemQuery` takes a SETTINGS clause after FLUSH DISTRIBUTED only, so this text is outside the
  valid statements C04 speaks about: an observation (the harness files SYSTEM … SETTINGS other than FLUSH
  DISTRIBUTED under `util-degenerate`); should ClickHouse accept it, it is a C04 defect of /repo.
The harness evaluates the invariants on every AST it compares and counts the violations.

Not modelled: the header texts (names, spacing), the children of the child nodes other than the ones
listed above, `explainExplainQuery`, `explainSetQuery` (no children), the one-line access-control
statements printed inline by `Node` (explain.go), nil receivers (`*ast.X` lines).
FULL STATEMENT (not a theorem, there is no Go semantics in Lean): for every valid statement the printed tree
has these counts — decided by the verified monitor on the real output (p_c04.go).
-/
namespace DC.Props.C04Util
open DC.Model.ExplainUtil DC.Proofs.ExplainUtil

/-- `DropQuery … (children N)` / `DropIndexQuery` / the header-only kinds: every path of `explainDropQuery`. -/
theorem drop_pair (n : DropShape) : countDrop n = (emitDrop n).length := count_eq_emit_drop n

/-- the `ExpressionList (children N)` of `DROP TABLE t1, t2, …`. -/
theorem drop_list_pair (n : DropShape) : countDropList n = (emitDropList n).length := count_eq_emit_droplist n

/-- `UndropQuery`. -/
theorem undrop_pair (n : UndropShape) : countUndrop n = (emitUndrop n).length := count_eq_emit_undrop n

/-- `Rename (children N)` of RENAME TABLE/DICTIONARY/DATABASE, any number of pairs. -/
theorem rename_pair (n : RenameShape) (h : WfRename n = true) : countRename n = (emitRename n).length :=
  count_eq_emit_rename n h
theorem rename_pair_iff (n : RenameShape) : countRename n = (emitRename n).length ↔ WfRename n = true :=
  count_eq_emit_rename_iff n

/-- `Rename (children N)` of EXCHANGE TABLES. -/
theorem exchange_pair (n : ExchangeShape) : countExchange n = (emitExchange n).length := count_eq_emit_exchange n

/-- `OptimizeQuery` and its `Partition` / `Partition_ID` node. -/
theorem optimize_pair (n : OptimizeShape) : countOptimize n = (emitOptimize n).length := count_eq_emit_optimize n
theorem optimize_partition_pair (n : OptimizeShape) : countOptPart n = (emitOptPart n).length :=
  count_eq_emit_optpart n

/-- `TruncateQuery`. -/
theorem truncate_pair (n : TruncateShape) : countTruncate n = (emitTruncate n).length := count_eq_emit_truncate n

/-- `DeleteQuery`. -/
theorem delete_pair (n : DeleteShape) : countDelete n = (emitDelete n).length := count_eq_emit_delete n

/-- `UpdateQuery … (children 3)` and its assignment list. -/
theorem update_pair (n : UpdateShape) (h : WfUpdate n = true) : countUpdate n = (emitUpdate n).length :=
  count_eq_emit_update n h
theorem update_pair_iff (n : UpdateShape) : countUpdate n = (emitUpdate n).length ↔ WfUpdate n = true :=
  count_eq_emit_update_iff n
theorem update_list_pair (n : UpdateShape) : countUpdateList n = (emitUpdateList n).length :=
  count_eq_emit_updatelist n

/-- `KillQueryQuery`. -/
theorem kill_pair (n : KillShape) : countKill n = (emitKill n).length := count_eq_emit_kill n

/-- `CheckQuery`. -/
theorem check_pair (n : CheckShape) : countCheck n = (emitCheck n).length := count_eq_emit_check n

/-- `DetachQuery` (every header is written with a literal count). -/
theorem detach_pair (n : DetachShape) : countDetach n = (emitDetach n).length := count_eq_emit_detach n

/-- `AttachQuery`, its `Columns definition` and its `Storage definition`. -/
theorem attach_pair (n : AttachShape) (h : WfAttach n = true) : countAttach n = (emitAttach n).length :=
  count_eq_emit_attach n h
theorem attach_pair_iff (n : AttachShape) : countAttach n = (emitAttach n).length ↔ WfAttach n = true :=
  count_eq_emit_attach_iff n
theorem attach_columns_pair (n : AttachShape) : countAttachCols n = (emitAttachCols n).length :=
  count_eq_emit_attachcols n
theorem attach_storage_pair (n : AttachShape) (h : WfAttachStorage n = true) :
    countAttachStorage n = (emitAttachStorage n).length := count_eq_emit_attachstorage n h
theorem attach_storage_pair_iff (n : AttachShape) :
    countAttachStorage n = (emitAttachStorage n).length ↔ WfAttachStorage n = true :=
  count_eq_emit_attachstorage_iff n

/-- `ExistsTableQuery` / `ExistsDictionaryQuery` / `ExistsDatabaseQuery` / `ExistsViewQuery`. -/
theorem exists_pair (n : ExistsShape) : countExists n = (emitExists n).length := count_eq_emit_exists n

/-- `DescribeQuery` (subquery, table function, table). -/
theorem describe_pair (n : DescribeShape) : countDescribe n = (emitDescribe n).length := count_eq_emit_describe n

/-- `SYSTEM query`. -/
theorem system_pair (n : SystemShape) (h : WfSystem n = true) : countSystem n = (emitSystem n).length :=
  count_eq_emit_system n h
theorem system_pair_iff (n : SystemShape) : countSystem n = (emitSystem n).length ↔ WfSystem n = true :=
  count_eq_emit_system_iff n

/-- every arm of `explainShowQuery`: SHOW CREATE DATABASE / DICTIONARY / VIEW / TABLE / USER,
SHOW TABLES / DATABASES / DICTIONARIES, and the header-only rest. -/
theorem show_pair (n : ShowShape) : countShow n = (emitShow n).length := count_eq_emit_show n

/-- `UseQuery`. -/
theorem use_pair : countUse = emitUse.length := count_eq_emit_use

/-- `InsertQuery`: INFILE, COMPRESSION, FUNCTION or [db.]table, PARTITION BY, column list, SELECT, SETTINGS. -/
theorem insert_pair (n : InsertShape) : countInsert n = (emitInsert n).length := count_eq_emit_insert n

/-- `BackupQuery` / `RestoreQuery`. -/
theorem backup_pair (n : BackupShape) : countBackup n = (emitBackup n).length := count_eq_emit_backup n

/-- `CreateIndexQuery … (children 3)` and its `Index (children N)` node. -/
theorem create_index_pair (n : CreateIndexShape) : countCreateIndex n = (emitCreateIndex n).length :=
  count_eq_emit_createindex n
theorem create_index_index_pair (n : CreateIndexShape) : countCIIndex n = (emitCIIndex n).length :=
  count_eq_emit_ciindex n

/-- `ParallelWithQuery N name (children N)`. -/
theorem parallel_pair (k : Nat) : countParallel k = (emitParallel k).length := count_eq_emit_parallel k

/-! ## every hypothesis is needed -/

/-- RENAME DATABASE with no pair: 2 announced, nothing printed (`Parse` never accepts this). -/
theorem rename_needs_pair :
    countRename ⟨true, [], 0⟩ = 2 ∧ emitRename ⟨true, [], 0⟩ = [] := by decide

/-- `UPDATE t SET a = 1` (accepted by `Parse`, rejected by ClickHouse): 3 announced, 2 printed. -/
theorem update_needs_where :
    countUpdate ⟨false, false, 1⟩ = 3 ∧ emitUpdate ⟨false, false, 1⟩ = ["Identifier", "ExpressionList"] := by decide

def emptyAttach : AttachShape := ⟨false, false, false, 0, 0, 0, false, false, false, 0, 0, false, 0, false⟩

/-- `ATTACH DICTIONARY d (a UInt64) PRIMARY KEY a` (accepted by `Parse`, not by ClickHouse): 3 announced, 1 printed. -/
theorem attach_needs_bare_dictionary :
    countAttach { emptyAttach with dictionary := true, columnsN := 1, primaryKeyN := 1 } = 3 ∧
    emitAttach { emptyAttach with dictionary := true, columnsN := 1, primaryKeyN := 1 } = ["Identifier"] := by
  decide

/-- an ORDER BY list of two expressions: 2 announced (engine + ORDER BY), 3 printed (`Parse` never builds this). -/
theorem attach_storage_needs_single_order_by :
    countAttachStorage { emptyAttach with table := true, engine := true, orderByN := 2 } = 2 ∧
    emitAttachStorage { emptyAttach with table := true, engine := true, orderByN := 2 } = ["Function", "*", "*"] := by
  decide

/-- `SYSTEM FLUSH LOGS system.query_log SETTINGS a = 1` (accepted by `Parse`, not by ClickHouse): 1 announced, 3 printed. -/
theorem system_needs_no_table_under_flush_logs :
    countSystem ⟨true, true, true, false, 1⟩ = 1 ∧
    emitSystem ⟨true, true, true, false, 1⟩ = ["Identifier", "Identifier", "Set"] := by decide

/-! ## non-vacuity -/

def emptyDrop : DropShape := ⟨false, false, false, false, false, false, false, false, 0, false, false, false, 0⟩

/-- `DROP TABLE t FORMAT Null SETTINGS a = 1` -/
example : countDrop { emptyDrop with tablesN := 1, format := true, settingsN := 1 } = 3 ∧
    emitDrop { emptyDrop with tablesN := 1, format := true, settingsN := 1 } = ["Identifier", "Identifier", "Set"] := by
  decide

/-- `DROP TABLE db.t FORMAT Null SETTINGS a = 1`: the SETTINGS clause is neither counted nor printed -/
example : countDrop { emptyDrop with tablesN := 1, database := true, format := true, settingsN := 1 } = 3 ∧
    emitDrop { emptyDrop with tablesN := 1, database := true, format := true, settingsN := 1 }
      = ["Identifier", "Identifier", "Identifier"] := by decide

/-- `DROP TABLE a, b, c` -/
example : countDrop { emptyDrop with tablesN := 3 } = 1 ∧ emitDrop { emptyDrop with tablesN := 3 } = ["ExpressionList"] ∧
    emitDropList { emptyDrop with tablesN := 3 } = ["TableIdentifier", "TableIdentifier", "TableIdentifier"] := by decide

/-- `DROP INDEX i ON t`, `DROP USER u` -/
example : countDrop { emptyDrop with index := true } = 2 ∧ countDrop { emptyDrop with user := true } = 0 ∧
    emitDrop { emptyDrop with user := true } = [] := by decide

/-- `RENAME TABLE a TO b, c.d TO e.f SETTINGS x = 1` -/
example : WfRename ⟨false, [⟨false, false⟩, ⟨true, true⟩], 1⟩ = true ∧
    countRename ⟨false, [⟨false, false⟩, ⟨true, true⟩], 1⟩ = 7 ∧
    emitRename ⟨false, [⟨false, false⟩, ⟨true, true⟩], 1⟩
      = ["Identifier", "Identifier", "Identifier", "Identifier", "Identifier", "Identifier", "Set"] := by decide

/-- `OPTIMIZE TABLE db.t PARTITION ID 'p' FINAL SETTINGS a = 1` -/
example : countOptimize ⟨true, true, false, true, true, 1⟩ = 4 ∧
    emitOptimize ⟨true, true, false, true, true, 1⟩ = ["Partition_ID", "Identifier", "Identifier", "Set"] := by decide

/-- `UPDATE t SET a = 1 WHERE b` -/
example : WfUpdate ⟨false, true, 1⟩ = true ∧ emitUpdate ⟨false, true, 1⟩ = ["Identifier", "*", "ExpressionList"] := by
  decide

/-- `ATTACH TABLE db.t (a Int8) ENGINE = MergeTree ORDER BY a` -/
example :
    WfAttach { emptyAttach with database := true, table := true, columnsN := 1, engine := true, orderByN := 1 } = true ∧
    countAttach { emptyAttach with database := true, table := true, columnsN := 1, engine := true, orderByN := 1 } = 4 ∧
    emitAttach { emptyAttach with database := true, table := true, columnsN := 1, engine := true, orderByN := 1 }
      = ["Identifier", "Identifier", "Columns", "Storage"] := by decide

/-- `SYSTEM RELOAD DICTIONARY db.d` (printed twice), `SYSTEM FLUSH LOGS` -/
example : WfSystem ⟨false, true, true, true, 0⟩ = true ∧ countSystem ⟨false, true, true, true, 0⟩ = 4 ∧
    emitSystem ⟨false, true, true, true, 0⟩ = ["Identifier", "Identifier", "Identifier", "Identifier"] ∧
    countSystem ⟨true, false, false, false, 0⟩ = 0 ∧ emitSystem ⟨true, false, false, false, 0⟩ = [] := by decide

/-- `SHOW CREATE TABLE db.t FORMAT TSV`, `SHOW TABLES FROM db` -/
example : countShow ⟨.create, true, true, true, false⟩ = 3 ∧
    emitShow ⟨.create, true, true, true, false⟩ = ["Identifier", "Identifier", "Identifier"] ∧
    emitShow ⟨.tables, false, true, false, false⟩ = ["Identifier"] := by decide

/-- `INSERT INTO db.t (a, b) SELECT 1, 2 SETTINGS x = 1` -/
example : countInsert ⟨false, false, false, true, true, 0, 2, false, true, true, false, false⟩ = 5 ∧
    emitInsert ⟨false, false, false, true, true, 0, 2, false, true, true, false, false⟩
      = ["Identifier", "Identifier", "ExpressionList", "*", "Set"] := by decide

/-- `CREATE INDEX i ON t (a, b) TYPE minmax` -/
example : countCIIndex ⟨true, true, 2, true⟩ = 2 ∧ emitCIIndex ⟨true, true, 2, true⟩ = ["Function", "Function"] := by
  decide

end DC.Props.C04Util
