import DC.Proofs.LexerTokenize

/-!
# C12 — the lexer is total, exactly one EOF

> For every byte string, Tokenize returns without panicking a finite token list whose last element, and
> only the last, is EOF, containing at most one token per input byte plus one; NextToken called again after
> EOF keeps returning EOF. Unterminated strings, comments, parameters and heredocs end at end of input
> instead of hanging or crashing.

Model: `DC.Lexer` (`DC/Model/Lexer.lean`) mirrors `/repo/lexer/lexer.go` function by function over the pure
reader (`ReadRune` = `utf8.DecodeRune` of the remaining bytes, `Peek n` = their first `min n 4096`). The tie to
the real lexer is the differential run `lex <hex>` against `harness tool lexdump`.

How the sentences of the property map to theorems:

* "returns without panicking": the three computed-index accesses of lexer.go (`bits[i+j]`, `bytes[i+j]`,
  `closingDelim[i]`) are bounds-checked in the model (`PanicSite`), and `lex_no_panic` says the outcome is
  never a panic — and never `tokenizeStuck`, see next point.
* "returns … a finite list" / "instead of hanging": every scanner loop of the model is a Lean definition by
  well-founded recursion on `LState.measure`, so its *acceptance by Lean is the proof that the loop
  terminates*. The outer `Tokenize` loop runs on fuel `measure + 1`; `nextToken_progress` (a non-EOF token
  strictly decreases the measure) is what makes that fuel sufficient (`lex_no_panic` excludes the
  `tokenizeStuck` outcome; `tokenize_loop_equation` is the Go loop's own equation).
* "last element, and only the last, is EOF": `tokenize_eof_last`.
* "at most one token per input byte plus one": `tokenize_length`.
* "NextToken called again after EOF keeps returning EOF": `eof_sticky` (no invariant is needed: it holds in
  every state, even unreachable ones).
* "Unterminated strings, comments, parameters and heredocs end at end of input": instances of the above;
  spelled out as `example`s / `#guard`s at the end.
-/

namespace DC.Props.C12

open DC DC.Lexer DC.Gen.Tokens

/-- `NextToken` never panics (in any state). -/
theorem nextToken_no_panic (s : LState) : nextTokenE s = .ok (nextToken s) :=
  nextTokenE_eq s

/-- `Tokenize` never panics and never runs out of fuel (= never hangs). -/
theorem lex_no_panic (b : Bytes) : lexOutcome b = .ok (lex b) :=
  lexOutcome_eq b

/-- the state only moves forward: `NextToken` never increases the measure … -/
theorem nextToken_monotone (s : LState) : (nextToken s).2.measure ≤ s.measure :=
  (nextToken_steps s).measure_le

/-- … and a non-EOF token strictly decreases it (by at least 2 = one consumed rune). This is the
no-hang statement for the `Tokenize` loop; for the inner loops it is the termination proof Lean demanded
when accepting the definitions. -/
theorem nextToken_progress (s : LState) (h : (nextToken s).1.kind ≠ tEOF) :
    (nextToken s).2.measure + 2 ≤ s.measure ∧ (nextToken s).2.measure < s.measure :=
  ⟨nextToken_measure h, by have := nextToken_measure h; omega⟩

/-- the equation of the Go loop `for { item := l.NextToken(); items = append(items, item); if EOF break }`:
with one unit of fuel to spare the model's loop is that loop. -/
theorem tokenize_loop_equation (fuel : Nat) (s : LState) (acc : List Tok) :
    tokenizeLoop (fuel + 1) s acc =
      if (nextToken s).1.kind = tEOF then .ok ((nextToken s).1 :: acc).reverse
      else tokenizeLoop fuel (nextToken s).2 ((nextToken s).1 :: acc) :=
  tokenizeLoop_unfold fuel s acc

/-- the last token, and only the last, is EOF. -/
theorem tokenize_eof_last (b : Bytes) :
    (lex b).getLast?.map (·.kind) = some tEOF ∧ ∀ t ∈ (lex b).dropLast, t.kind ≠ tEOF :=
  (lex_trace b).eof_last

/-- at most one token per input byte, plus the EOF token. -/
theorem tokenize_length (b : Bytes) : (lex b).length ≤ b.length + 1 := by
  have h1 := (lex_trace b).length_le
  have h2 := new_measure_le b
  omega

/-- EOF is sticky: in ANY state, if `NextToken` answers EOF then the next call answers EOF too
(indeed the very same token and state, `eof_fix`). -/
theorem eof_sticky (s : LState) (h : (nextToken s).1.kind = tEOF) :
    (nextToken (nextToken s).2).1.kind = tEOF := by
  rw [nextToken_eof_fix h]; exact h

theorem eof_fix (s : LState) (h : (nextToken s).1.kind = tEOF) :
    nextToken (nextToken s).2 = nextToken s :=
  nextToken_eof_fix h

/-- EOF is answered exactly when, after skipping white space, the input is exhausted or the current
rune is NUL (`l.eof || l.ch == 0`, lexer.go:201): a NUL byte ends lexing (DESIGN §7). -/
theorem eof_iff (s : LState) :
    (nextToken s).1.kind = tEOF ↔ ((skipWhitespace s).eof = true ∨ (skipWhitespace s).ch = 0) :=
  nextToken_eof_iff s

theorem count_eof_aux {α : Type} (p : α → Bool) (l : List α)
    (h1 : l.getLast?.map p = some true) (h2 : ∀ t ∈ l.dropLast, p t = false) : l.countP p = 1 := by
  rcases List.eq_nil_or_concat l with rfl | ⟨l', a, rfl⟩
  · simp at h1
  · simp only [List.concat_eq_append, List.getLast?_append, List.getLast?_singleton, Option.some_or, Option.map_some, Option.some.injEq] at h1
    simp only [List.concat_eq_append, List.dropLast_concat] at h2
    have h3 : l'.countP p = 0 := by
      rw [List.countP_eq_zero]; intro t ht; simp [h2 t ht]
    simp [List.countP_append, h3, h1]

/-- "exactly one EOF": the token list of any input contains the EOF kind exactly once (and `tokenize_eof_last` says where). -/
theorem tokenize_exactly_one_eof (b : Bytes) : (lex b).countP (fun t => t.kind == tEOF) = 1 := by
  obtain ⟨h1, h2⟩ := tokenize_eof_last b
  apply count_eof_aux
  · cases h : (lex b).getLast? with
    | none => rw [h] at h1; simp at h1
    | some t => rw [h] at h1; simp at h1; simp [h1]
  · intro t ht; simpa using h2 t ht

example : (lex []).countP (fun t => t.kind == tEOF) = 1 := tokenize_exactly_one_eof []

/-! ## non-vacuity and the named instances -/

/-- unterminated string, block comment, parameter, heredoc, and the three `\x` edge cases: each lexes
(no panic, no hang) to a list ending in EOF. -/
example : ∀ src ∈ ["'abc", "/* x", "{p", "$a$ x", "$$ x", "'\\", "'\\x", "'\\x4", ""],
    lexOutcome (strBytes src) = .ok (lex (strBytes src)) ∧
    (lex (strBytes src)).getLast?.map (·.kind) = some tEOF :=
  fun src _ => ⟨lex_no_panic _, (tokenize_eof_last _).1⟩

-- the concrete token lists (evaluated; format of `harness tool lexdump`)
#guard canon (lex (strBytes "'abc")) == "6,616263,1,1,1,0;1,-,4,1,4,0"
#guard canon (lex (strBytes "/* x")) == "3,2f2a2078,1,1,1,0;1,-,4,1,4,0"
#guard canon (lex (strBytes "{p")) == "7,70,1,1,1,0;1,-,2,1,2,0"
#guard canon (lex (strBytes "$a$ x")) == "4,246124,1,1,1,0;4,78,5,1,5,0;1,-,5,1,5,0"  -- no closing tag: an identifier
#guard canon (lex (strBytes "$$ x")) == "6,2078,1,1,1,0;1,-,4,1,4,0"               -- unterminated heredoc
#guard canon (lex (strBytes "'\\")) == "6,-,1,1,1,0;1,-,2,1,2,0"
#guard canon (lex (strBytes "'\\x")) == "6,-,1,1,1,0;1,-,3,1,3,0"
#guard canon (lex (strBytes "'\\x4")) == "6,04,1,1,1,0;1,-,4,1,4,0"
#guard canon (lex (strBytes "")) == "1,-,0,1,0,0"
#guard canon (lex (strBytes "SELECT 1")) == "156,53454c454354,1,1,1,0;5,31,8,1,8,0;1,-,8,1,8,0"
#guard (lexOutcome (strBytes "b'0101'") matches .ok _)

/-- non-vacuity of `nextToken_progress`: there are states with a non-EOF token. -/
example : ∃ s : LState, (nextToken s).1.kind ≠ tEOF := by
  refine ⟨new [43], ?_⟩
  intro h
  have := (eof_iff _).1 h
  revert this
  rw [skipWhitespace]
  simp [new, readChar, DC.Utf8.decodeRune, isSpace, isClickHouseWhitespace,
    DC.Gen.Unicode.isSpaceAscii, Nat.testBit]

end DC.Props.C12
