import DC.Gen.Loops
import DC.Proofs.SkelSound
import DC.Proofs.SkelCalls
import DC.Proofs.SkelTerm
import DC.Spec.AssumedLoops
set_option maxRecDepth 100000

/-!
# C02 — Parse terminates in linear work (proof side: progress certificates for every parser loop)

Property text (fixed): "For every input of at most 1 MiB, Parse returns after a number of parser steps bounded by a
fixed multiple of the number of tokens in the input, and with memory bounded likewise; no input makes it loop forever
or allocate without bound.  This holds with a context that is never cancelled."

What is proved here (everything below is about the skeletons `DC.Gen.Loops`, regenerated from the Go source of
package parser on every run by `/verif/extract/loops.go`; the translation rules and their soundness argument are in
the header of that file):

* `contracts_checked`, `contracts_sound`: every function contract proposed by the translator (`adv f`: the token kinds
  at entry for which a terminating call of `f` must advance the cursor; `tset f`/`fset f`: kinds possible after a
  `true`/`false` answer) is verified against the function's skeleton, assuming only the contracts of its callees; by
  induction on the big-step derivation this is sound also through recursion.
* `all_loops_certified`: every `for` statement of package parser is either finite by construction (`range` over a
  slice/array/string/map/integer; `for i := a; i < b; i++` whose body assigns neither `i` nor `b`), or its skeleton
  has a certificate `loopOK`, or it is in the reviewed list `DC.Spec.AssumedLoops` (`uncertified_are_assumed`; currently
  the lexer pump of `nextToken` and one parenthesis-depth loop).
* `loop_progress`: a certified loop body that reaches the back edge has strictly increased the token index.
* `loops_bounded`: hence a certified loop entered at token index `i` of a stream of `n` tokens (plus the final EOF)
  executes its body at most `n - i + 1` times, and any chain of back-edge iterations has length at most `n - i`
  (`backedges_bounded`), so no certified loop can iterate forever.

* `all_ranks_check`, `nonadvancing_call_rank`, `nonadvancing_depth_bounded`: "no recursion cycle without an advance" —
  between two advances of the cursor the call stack can deepen by at most `maxRank` frames.
* `terminates_partial`: from these, by well-founded induction on (tokens left, rank), every call of every function of
  the SKELETON program terminates from every index (`Term`, the inductive characterisation of "no infinite run"),
  taking the 16 `takenFinite` loops to run finitely often.

What is NOT proved (hence the suffix `_partial`): (1) the LINEAR bound — the charging argument that turns "each loop
activation iterates at most (tokens it consumes + 1) times" and "at most `maxRank` nested calls per token" into a
global count `≤ c · tokens` is not done (`Term` has no step counter); (2) termination is relative to the `takenFinite`
loops: `range`/`counted` are finite by construction of Go, the 3 `counter` loops have a certificate on a virtual
stream that is not connected to `Term`, the 2 reviewed loops only have a human argument;
(3) the memory half of the property; (4) the two assumed loops; (5) the correspondence skeleton ↔ Go source is by
construction of the translator, not by a Lean proof.  The search side (`harness` property C02: step counter with a
calibrated bound, memory per token) covers the rest empirically.
-/

namespace DC.Props.C02
open DC.Model.Skel DC.Gen.Loops

/-! ## the regenerated data is what the model assumes -/

/-- the translator's token numbering is the one of `DC.Gen.Tokens` -/
theorem token_numbering : tokCount = K ∧ eofTok = eofK ∧ DC.Gen.Tokens.spelling[eofK]! = "EOF" := by decide +kernel

/-- `kwSet` (from `keyword_beg < k < keyword_end`) agrees with `token.Token(k).IsKeyword()` as run by the harness -/
theorem kwSet_matches :
    (List.range K).all (fun k => kwSet.testBit k == DC.Gen.Tokens.isKeywordTbl.getD k false) = true := by decide +kernel

/-- The cursor (`p.current`, `p.peek`, `p.peekPeek`) is written only in `nextToken`, the lexer is used only by
    `nextToken` (and `ParseStatements` for `Err()`), and the only `Parser` literal is in `New`: nothing can move the
    cursor except `nextToken`, which is what the skeleton semantics assumes. -/
theorem cursor_only_in_nextToken : cursorSites =
    [("New", "Parser literal"), ("ParseStatements", "use lexer"), ("nextToken", "use lexer"),
     ("nextToken", "write current"), ("nextToken", "write peek"), ("nextToken", "write peekPeek")] := by decide +kernel

/-- every function of package parser was translated (none fell back to `call 0`) -/
theorem all_functions_translated : untranslatable = [] := by decide

/-- the inventory is split into the two lists without loss -/
theorem inventory_complete : loops.length + uncertified.length = nLoops := by decide +kernel

/-! ## the obligations -/

/-- OBLIGATION (regenerated, kernel-evaluated): every function contract proposed by the translator checks against
    the function's skeleton -/
theorem all_contracts_check : progOK prog = true ∧ prog.sized = true := by decide +kernel

theorem contracts_checked : ∀ f, funOK prog f = true := progOK_all all_contracts_check.2 all_contracts_check.1

/-- OBLIGATION (regenerated, kernel-evaluated): every loop outside the reviewed list is certified — by kind, or by a
    `loopOK` certificate over its skeleton.  A change to the Go source that introduces a loop iteration which may
    consume no token makes this `decide` fail. -/
theorem all_loops_certified : DC.Gen.Loops.loops.all (certified prog) = true := by decide +kernel

/-- OBLIGATION (regenerated, kernel-evaluated): the ranks proposed by the translator decrease along every call that
    can be entered without the cursor having moved since the caller was entered (per token kind): the non-advancing
    call graph has no cycle -/
theorem all_ranks_check : (List.range prog.funs.size).all (rankOK prog ranks) = true := by decide +kernel

theorem ranks_checked : ∀ f, rankOK prog ranks f = true := rankOK_all all_ranks_check

/-- The loops that are TAKEN to run finitely often in `terminates_partial`: those not certified by a token skeleton —
    `range`/`counted` (finite by construction), `counter` (certified, but on a virtual stream indexed by a local counter)
    and the reviewed list.  Identified by the token skeleton of their body as it occurs in the function skeletons. -/
def takenFinite : List Cmd :=
  ((DC.Gen.Loops.loops.filter (fun L => L.kind != .token)) ++ uncertified).map (·.fbody)

def isTakenFinite (c : Cmd) : Bool := takenFinite.contains c

/-- OBLIGATION (regenerated, kernel-evaluated): every `loop` node in every function skeleton is certified by `loopOK`
    or is one of `takenFinite` — no loop of a function body escapes the inventory -/
theorem all_function_loops_covered :
    (List.range prog.funs.size).all (fun f => loopsCert prog isTakenFinite (prog.body f)) = true := by decide +kernel

/-- the loops without certificate are exactly the reviewed list (a new one breaks the build) -/
theorem uncertified_are_assumed :
    uncertified.map Loop.key = DC.Spec.AssumedLoops.assumed.map DC.Spec.AssumedLoops.Assumed.key := by decide +kernel

/-- … and none of them is there needlessly: their skeletons really do not certify -/
theorem uncertified_not_certifiable : uncertified.all (fun L => !certified prog L) = true := by decide +kernel

/-! ## what the obligations mean -/

/-- soundness of the abstract interpreter for the parser's skeletons -/
theorem ana_sound {ks : List Nat} (hks : WF ks) {c i o j} (h : Exec prog ks c i o j) :
    ∀ i0 st, Desc ks i0 i st → Desc ks i0 j (pick (ana prog c st) o) :=
  DC.Model.Skel.ana_sound contracts_checked hks h

/-- every terminating call of a parser function never moves the cursor back, advances when entered with a kind of
    its contract `adv`, and leaves the cursor on a kind of `tset`/`fset` according to its answer -/
theorem contracts_sound {ks : List Nat} (hks : WF ks) {f i o j} (h : Exec prog ks (prog.body f) i o j) :
    i ≤ j ∧ ((prog.advOf f).testBit (cur ks i) = true → i < j) ∧
    (o ≠ .ret .ff → (prog.tsetOf f).testBit (cur ks j) = true) ∧
    (o ≠ .ret .tt → (prog.fsetOf f).testBit (cur ks j) = true) :=
  DC.Model.Skel.contracts_sound contracts_checked hks h

/-- a skeleton loop of the certified list: its body including the test of the loop condition -/
def SkeletonLoop (L : Loop) : Prop := L ∈ DC.Gen.Loops.loops ∧ (L.kind = .token ∨ L.kind = .counter)

theorem skeleton_loop_ok {L : Loop} (h : SkeletonLoop L) : loopOK prog L.body = true := by
  have hall := all_loops_certified
  rw [List.all_eq_true] at hall
  have hc := hall L h.1
  unfold certified at hc
  rcases h.2 with hk | hk <;> simpa [hk] using hc

/-- every iteration of a certified loop that reaches the back edge strictly increases the token index -/
theorem loop_progress {L : Loop} (hL : SkeletonLoop L) {ks : List Nat} (hks : WF ks) {i o j}
    (h : Exec prog ks L.body i o j) (ho : o = .norm ∨ o = .cont) : i < j :=
  DC.Model.Skel.loop_progress contracts_checked hks (skeleton_loop_ok hL) h ho

/-- a chain of `n` back-edge iterations of a certified loop from index `i` ends at an index `j ≥ i + n`, and `j` never
    passes the final EOF: `n ≤ ks.length - i`; in particular there is no infinite chain -/
theorem backedges_bounded {L : Loop} (hL : SkeletonLoop L) {ks : List Nat} (hks : WF ks) {i n j}
    (h : BackEdges prog ks L.body i n j) (hi : i ≤ ks.length) : i + n ≤ j ∧ j ≤ ks.length :=
  DC.Model.Skel.backedges_bounded contracts_checked hks (skeleton_loop_ok hL) h hi

/-- a certified loop entered at token index `i` executes its body at most `ks.length - i + 1` times -/
theorem loops_bounded {L : Loop} (hL : SkeletonLoop L) {ks : List Nat} (hks : WF ks) {i n o j}
    (h : LoopRun prog ks L.body i n o j) (hi : i ≤ ks.length) : n + i ≤ ks.length + 1 :=
  DC.Model.Skel.loops_bounded contracts_checked hks (skeleton_loop_ok hL) h hi

/-- a call entered with the cursor still where it was when the caller was entered goes strictly down in rank -/
theorem nonadvancing_call_rank {ks : List Nat} (hks : WF ks) {f i g} (h : Calls prog ks (prog.body f) i g i) :
    rankOf (ranks.getD g []) (cur ks i) < rankOf (ranks.getD f []) (cur ks i) :=
  DC.Model.Skel.nonadvancing_call_rank contracts_checked hks ranks_checked h

/-- no recursion without an advance: a chain of `n` nested calls all entered at the same token index has
    `n ≤ rank(outermost function, current kind)`, and the ranks are at most `maxRank` -/
theorem nonadvancing_depth_bounded {ks : List Nat} (hks : WF ks) {i f n h} (hc : CallChain prog ks i f n h) :
    n + rankOf (ranks.getD h []) (cur ks i) ≤ rankOf (ranks.getD f []) (cur ks i) :=
  DC.Model.Skel.nonadvancing_depth_bounded contracts_checked hks ranks_checked hc

/-- the largest rank: no chain of calls without an advance is longer than this -/
def maxRank : Nat := ranks.foldl (fun m rk => rk.foldl (fun m p => max m p.2) m) 0

/-- **Termination of the skeleton program (partial w.r.t. the property: see the module comment).**
    For every token stream, every call of every parser function terminates from every token index — there is no infinite
    run of the skeleton semantics — where code not translated (`call`: other packages, `verifTick`) is taken to
    terminate and the `takenFinite` loops (8 `range`, 3 `counted`, 3 `counter`, 2 reviewed) are taken to run finitely
    often (their iterations are shown to terminate).  Proof: well-founded induction on (tokens left, rank at the current
    kind), using `loop_progress` for the certified loops and the rank decrease for calls that have not advanced. -/
theorem terminates_partial {ks : List Nat} (hks : WF ks) (f i : Nat) (hi : i ≤ ks.length) :
    Term prog ks (fun c => isTakenFinite c = true) (prog.body f) i :=
  DC.Model.Skel.terminates contracts_checked hks ranks_checked (loopsCert_all all_function_loops_covered) f i hi

/-- Summary (partial, see the module comment for what is missing): all contracts check, every loop is certified or on
    the reviewed list, and certified skeleton loops make progress on every back edge and are bounded by the number of
    remaining tokens. -/
theorem parse_loops_progress_partial :
    (∀ f, funOK prog f = true) ∧
    DC.Gen.Loops.loops.all (certified prog) = true ∧
    uncertified.map Loop.key = DC.Spec.AssumedLoops.assumed.map DC.Spec.AssumedLoops.Assumed.key ∧
    (∀ L, SkeletonLoop L → ∀ ks, WF ks → ∀ i n o j, i ≤ ks.length → LoopRun prog ks L.body i n o j →
      n + i ≤ ks.length + 1) :=
  ⟨contracts_checked, all_loops_certified, uncertified_are_assumed,
   fun _ hL _ hks _ _ _ _ hi h => loops_bounded hL hks h hi⟩

/-! ## non-vacuity -/

/-- the comma-or-break loop `for { elem(); if cur == COMMA { next } else { break } }` is accepted … -/
example : loopOK prog (.seq (.call 0) (.alt (.seq (.assume (mk [DC.Gen.Tokens.tCOMMA])) .next) (.jump 1))) = true := by
  decide +kernel

/-- … the shape repaired in `parseGroupingSets` — `for cur ∉ {RPAREN, EOF} { elem(); if cur == COMMA { next } }` — is rejected … -/
example : loopOK prog (alts [seqs [.assume (co [DC.Gen.Tokens.tRPAREN, DC.Gen.Tokens.tEOF]), .call 0,
    .alt (.seq (.assume (mk [DC.Gen.Tokens.tCOMMA])) .next) (.assume (co [DC.Gen.Tokens.tCOMMA]))],
    seqs [.assume (mk [DC.Gen.Tokens.tRPAREN, DC.Gen.Tokens.tEOF]), .jump 1]]) = false := by
  decide +kernel

/-- … and rightly so: on the stream `;` its body has a run that reaches the back edge without moving -/
example : Exec prog [DC.Gen.Tokens.tSEMICOLON]
    (.seq (.assume (co [DC.Gen.Tokens.tRPAREN, DC.Gen.Tokens.tEOF])) (.seq (.call 0)
      (.alt (.seq (.assume (mk [DC.Gen.Tokens.tCOMMA])) .next) (.assume (co [DC.Gen.Tokens.tCOMMA]))))) 0 .norm 0 := by
  refine .seqN (.assume (by decide +kernel)) (.seqN (.call (Nat.le_refl 0) (by decide) (by intro h; simp at h)) (.altR (.assume (by decide +kernel))))

/-- the same loop with the position guard of the fix is accepted -/
example : loopOK prog (alts [seqs [.assume (co [DC.Gen.Tokens.tRPAREN, DC.Gen.Tokens.tEOF]),
    .guard (.seq (.call 0) (.alt (.seq (.assume (mk [DC.Gen.Tokens.tCOMMA])) .next) (.assume (co [DC.Gen.Tokens.tCOMMA]))))
      (.jump 1) .skip],
    seqs [.assume (mk [DC.Gen.Tokens.tRPAREN, DC.Gen.Tokens.tEOF]), .jump 1]]) = true := by
  decide +kernel

/-- a loop whose condition admits EOF and whose body is a bare `next` is rejected (EOF is sticky) -/
example : loopOK prog .next = false := by decide +kernel
example : loopOK prog (.seq (.assume (co [DC.Gen.Tokens.tEOF])) .next) = true := by decide +kernel

/-- `Term` is not trivially true: `for { }` with an empty body does not terminate -/
example : ∀ i, ¬ Term prog [] (fun _ => False) (.loop .skip) i := by
  intro i h
  generalize hc : Cmd.loop .skip = c at h
  induction h with
  | loop _ _ _ ih2 => cases hc; exact ih2 .norm _ .skip (Or.inl rfl) rfl
  | loopA ha _ => exact ha
  | _ => cases hc

/-- the hypotheses of the theorems are satisfiable: a well-formed stream, a certified skeleton loop, a real run -/
example : WF [DC.Gen.Tokens.tSELECT, DC.Gen.Tokens.tNUMBER, DC.Gen.Tokens.tSEMICOLON] := by
  intro k hk; simp at hk; rcases hk with rfl | rfl | rfl <;> decide
example : ∃ L, SkeletonLoop L := by
  have h : DC.Gen.Loops.loops.any (fun L => decide (L.kind = .token)) = true := by decide +kernel
  obtain ⟨L, hL, hk⟩ := List.any_eq_true.mp h
  exact ⟨L, hL, Or.inl (by simpa using hk)⟩
example : Exec prog [DC.Gen.Tokens.tCOMMA] (.seq (.assume (mk [DC.Gen.Tokens.tCOMMA])) .next) 0 .norm 1 :=
  .seqN (.assume (by decide +kernel)) .next

end DC.Props.C02
