import DC.Gen.ErrSites

/-!
# C13, parser side — every position in an error message belongs to the token the message names

`DC.Gen.ErrSites` is regenerated from the Go source on every check: it lists every `fmt.Errorf` of the library
packages whose format prints `line %d` together with its arguments. The obligation: each such site prints
`X.Token` together with `X.Pos.Line` and `X.Pos.Column` of the SAME `X`, and `X` is the parser's current or peek
token. With `DC.Props.C13.tok_pos_spec` (the position of a token is the exact line / rune column of its first
character) this gives: every `line L, column C` in a parse error names a real place, the first character of the
token that the message names. A new error constructor that prints another token's position, or a position
computed some other way, makes this theorem fail to re-check.
-/
namespace DC.Props.C13Err
open DC.Gen.ErrSites

def ownersOk (s : String × String × String × String) : Bool :=
  s.2.1 == s.2.2.1 && s.2.2.1 == s.2.2.2 && (s.2.1 == "p.current" || s.2.1 == "p.peek")

theorem err_sites_name_their_token : errOwners.all ownersOk = true := by decide

/-- the inventory is not empty (non-vacuity): `expect`, `expectPeek` and the default branch of `parseStatement` are in it. -/
theorem err_sites_nonempty : 3 ≤ errOwners.length := by decide

end DC.Props.C13Err
