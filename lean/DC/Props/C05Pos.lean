import DC.Gen.PosUses

/-!
# C05, parser / printer side — layout can reach EXPLAIN only through the token sequence or the documented exception

`DC.Gen.PosUses` is regenerated from the Go source (go/types) on every check. The obligations below pin down every place
where a byte offset, a line or a column is *read* in the library packages, and every reader/writer of the two AST flags
that are derived from offsets:

* `.Offset` is read only by the lexer's own bookkeeping (`readChar`) and by `parseArrayLiteral` / `parseGroupedOrTuple`,
  which use offset differences for exactly one thing: setting `Literal.SpacedCommas` / `SpacedBrackets`
  (`spaced_flags_written_only_by_the_two_literal_parsers`);
* `.Line` / `.Column` are read only by `readChar` and by the error constructors (`expect`, `expectPeek`, the default branch of
  `parseStatement`, `parseRename`, `parseExchange`) — they reach error messages (C13), never the AST or EXPLAIN;
* the two flags are read only by `formatArrayAsStringFromLiteral` / `formatTupleAsStringFromLiteral`, whose only callers are
  `formatExprAsString` / `formatElementAsString` — the textual rendering of the operand of a `::` cast, which is the exception the
  property itself makes ("the interior of array/tuple literals that are the operand of a '::' cast, where ClickHouse itself keeps the
  source text").

Everything else in parser / ast / internal/explain copies `Position` values as opaque data into nodes (never printed by EXPLAIN:
the fields are `json:"-"` and no printer reads them — that is what `offsetReaders` / `lineColReaders` establish) or compares them for
equality as a progress guard (C02). Together with the lexer-level theorems of `DC.Props.C05` this is the argument that two texts with
the same token sequence have the same EXPLAIN; the re-layout search exercises it on the real code.
A new reader of a position or of a spaced flag makes these theorems fail to re-check.
-/
namespace DC.Props.C05Pos
open DC.Gen.PosUses

theorem offsets_read_only_for_spacing_flags :
    offsetReaders = ["lexer.readChar", "parser.parseArrayLiteral", "parser.parseGroupedOrTuple"] := by decide

theorem lines_and_columns_read_only_by_error_constructors :
    lineColReaders = ["lexer.readChar", "parser.expect", "parser.expectPeek", "parser.parseExchange", "parser.parseRename", "parser.parseStatement"] := by
  decide

theorem spaced_flags_written_only_by_the_two_literal_parsers :
    spacedWriters = ["parser.parseArrayLiteral", "parser.parseGroupedOrTuple"] := by decide

theorem spaced_flags_read_only_on_the_cast_operand_path :
    spacedReaders = ["internal/explain.formatArrayAsStringFromLiteral", "internal/explain.formatTupleAsStringFromLiteral"] ∧
    spacedReaderCallers = ["internal/explain.formatElementAsString", "internal/explain.formatExprAsString"] := by decide

end DC.Props.C05Pos
