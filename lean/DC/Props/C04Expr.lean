import DC.Proofs.ExplainExprCount
import DC.Proofs.ExplainExprShift
import DC.Proofs.ExplainExprKinds

/-!
# C04 / C07 on the expression core of the EXPLAIN printer

Model: `DC.Model.ExplainExpr.explainExpr : Expr → Nat → Except String (List Line)` mirrors `explain.Node` and the
`explain…` functions of internal/explain for Identifier, Literal (scalars, arrays, tuples), FunctionCall, BinaryExpr
(with the n-ary flattening of `||`, `AND`, `OR`), UnaryExpr, ArrayAccess, TupleAccess, IsNullExpr, BetweenExpr, InExpr
(value lists), CaseExpr, CastExpr, Lambda, TernaryExpr and AliasedExpr, line for line, with the printed children
counts computed the way the Go code computes them.  It is tied to the code by the zero-difference correspondence
`explain-expr-correspondence` (harness/p_c04expr.go: the PARSED ast is encoded, the model's lines are compared with the
real ones) and by the source pins on the mirrored functions.

Statements (for ALL expression trees of the core, any depth and width, by structural induction):

* `explain_expr_counts` (C04, no hypothesis): whatever the model prints is the rendering of ONE tree in which every
  `(children N)` equals the number of subtrees printed directly beneath, and a line without a count has none.
* `explain_expr_wellformed_partial` (C04): … and that tree is `good`, hence the verified monitor `check` accepts the text
  (`explain_expr_check_partial`) — under `plainLabels`, see below.
* `explain_expr_depth_shift` (C07): `explainExpr e (d + k) = (explainExpr e d).map (indent k)`.  The model has NO other
  input than the node: no flags, no enclosing statement, no history — an expression renders the same wherever it is
  embedded, merely indented.
* `explain_expr_kinds_known` (C04): every line starts with `Function`, `Identifier`, `Literal` or `ExpressionList`, all of
  which ClickHouse prints itself (`DC.Gen.NodeKinds.nodeKinds`, regenerated from the golden files).

The hypothesis `plainLabels e` (needed only for `good`/`check`, not for the counts): no line printed WITHOUT a count has
a text that itself ends in ` (children <digits>)`.  An identifier named `x (children 3)` or an alias `a (children 1` makes
its line indistinguishable from a counted one — the layout itself is ambiguous there (ClickHouse prints names verbatim,
too); `fake_count_label_is_ambiguous` shows the hypothesis is necessary.  This is why the `good` statement is `_partial`.

History: the model found a genuine count/emit defect, `SELECT a IN () AS y` (`(children 1)` announced, two children
printed: explainInExprWithAlias counted an EMPTY list as "all string literals").  Repaired in /repo 4cea596b8; the model
mirrors the repaired code and `old_aliased_empty_in_miscounts` replays the defect on the pre-repair count.
-/
namespace DC.Props.C04Expr
open DC DC.Spec.Tree DC.Spec.Embed DC.Model.ExplainExpr DC.Proofs.ExplainExpr

/-! ## what `.ok` means -/

theorem explainExpr_ok {e : Expr} {d : Nat} {ls : List Line} (h : explainExpr e d = .ok ls) :
    firstUnsupported (items .node none e d) = none ∧ ls = (items .node none e d).map Item.toLine := by
  unfold explainExpr at h
  split at h
  · simp at h
  · rename_i hn
    simp only [Except.ok.injEq] at h
    exact ⟨hn, h.symm⟩

theorem firstUnsupported_none {its : List Item} (h : firstUnsupported its = none) :
    ∀ i ∈ its, ∀ w, i.kind ≠ .unsupported w := by
  induction its with
  | nil => intro i hi; simp at hi
  | cons j js ih =>
    simp only [firstUnsupported] at h
    split at h
    · simp at h
    · rename_i hj
      intro i hi w
      simp only [List.mem_cons] at hi
      rcases hi with hi | hi
      · subst hi
        intro hk
        simp [Item.why?, hk] at hj
      · exact ih h i hi w

theorem bareLabels_shift (k : Nat) (its : List Item) : bareLabels (its.map (shift k)) = bareLabels its := by
  induction its with
  | nil => rfl
  | cons i is ih =>
    simp only [bareLabels, List.map_cons, List.filter_cons] at ih ⊢
    have e1 : (shift k i).cnt = i.cnt := rfl
    have e2 : (shift k i).label = i.label := rfl
    rw [e1]
    split <;> simp [e2, ih]

theorem items_at (e : Expr) (d : Nat) : items .node none e d = (items .node none e 0).map (shift d) := by
  have := items_shift .node none e 0 d
  simpa using this

/-! ## C04: the printed counts are the numbers of children printed -/

/-- **C04, count = emit on the expression core (no condition on the labels).**  What the model prints for an expression
is the rendering of exactly one tree: every line with `(children N)` is followed by exactly `N` subtrees one level deeper,
every line without a count by none. -/
theorem explain_expr_counts (e : Expr) (d : Nat) (ls : List Line) (h : explainExpr e d = .ok ls) :
    ∃ t : Tree, render t d = ls ∧ shapeOk t = true := by
  obtain ⟨_, hls⟩ := explainExpr_ok h
  have hf := items_forest .node none e d
  rw [opCount_node] at hf
  obtain ⟨ts, h1, h2, h3, _⟩ := hf.trees
  match ts, h2 with
  | [t], _ =>
    refine ⟨t, ?_, ?_⟩
    · rw [hls, h1]; simp [renderList]
    · simpa [shapeOkList] using h3

/-- **C04 on the expression core.**  `explainExpr e d = .ok ls → ∃ t, render t d = ls ∧ t.good`: the text is a single
rooted tree in the EXPLAIN layout whose `(children N)` suffixes equal the numbers of nodes printed directly beneath.
FULL STATEMENT (false: `fake_count_label_is_ambiguous`; true exactly on `plainLabels`):
`theorem explain_expr_wellformed (e d ls) : explainExpr e d = .ok ls → ∃ t, render t d = ls ∧ t.good` -/
theorem explain_expr_wellformed_partial (e : Expr) (d : Nat) (ls : List Line)
    (h : explainExpr e d = .ok ls) (hp : plainLabels e = true) :
    ∃ t : Tree, render t d = ls ∧ t.good = true := by
  obtain ⟨_, hls⟩ := explainExpr_ok h
  have hf := items_forest .node none e d
  rw [opCount_node] at hf
  have hp' : ∀ l ∈ bareLabels (items .node none e d), noFake l = true := by
    rw [items_at, bareLabels_shift]
    simpa [plainLabels, List.all_eq_true] using hp
  obtain ⟨ts, h1, h2, h3⟩ := hf.good_trees hp'
  match ts, h2 with
  | [t], _ =>
    refine ⟨t, ?_, ?_⟩
    · rw [hls, h1]; simp [renderList]
    · simpa [goodList] using h3

/-- … hence the verified tree monitor (`check`, `check_iff`) accepts what is printed at depth 0. -/
theorem explain_expr_check_partial (e : Expr) (ls : List Line)
    (h : explainExpr e 0 = .ok ls) (hp : plainLabels e = true) : check ls = true := by
  rw [check_iff]
  exact explain_expr_wellformed_partial e 0 ls h hp

/-! ## C07: embedding only shifts the indentation -/

/-- **C07 on the expression core.**  Printing an expression `k` levels deeper prints the same lines behind `k` more
spaces — and also the same verdict when the expression is outside the model.  `explainExpr` has no argument but the node
and the depth, so this is all that an enclosing statement can change. -/
theorem explain_expr_depth_shift (e : Expr) (d k : Nat) :
    explainExpr e (d + k) = (explainExpr e d).map (List.map (indent k)) := by
  unfold explainExpr
  rw [items_shift, firstUnsupported_shift]
  split
  · rfl
  · simp only [Except.map, List.map_map]
    congr 1
    apply List.map_congr_left
    intro i _
    exact toLine_shift k i

/-! ## C04: node kinds -/

/-- **C04, vocabulary.**  Every line starts with a node kind that ClickHouse prints itself (the monitor's own test
`kindsKnown` over the regenerated vocabulary). -/
theorem explain_expr_kinds_known (e : Expr) (d : Nat) (ls : List Line) (h : explainExpr e d = .ok ls) :
    kindsKnown DC.Gen.NodeKinds.nodeKinds ls = true := by
  obtain ⟨hn, hls⟩ := explainExpr_ok h
  have hk := firstUnsupported_none hn
  subst hls
  simp only [kindsKnown, List.all_map, List.all_eq_true, Function.comp_apply]
  intro i hi
  rw [kindOf_toLine]
  exact word_known i.kind (hk i hi)

/-- `Except` has no decidable equality in core: the examples go through `toOption` / `errorOf` -/
theorem ok_of_toOption {x : Except String (List Line)} {ls : List Line} (h : x.toOption = some ls) : x = .ok ls := by
  cases x <;> simp_all [Except.toOption]

def errorOf (x : Except String (List Line)) : Option String :=
  match x with
  | .error w => some w
  | .ok _ => none

/-! ## non-vacuity: concrete trees (real output of `SELECT <expr>` below the SELECT frame, captured 2026-09-30) -/

def ida (s : String) : Expr := .ident [b s] []
def u (n : Nat) : Expr := .lit (.int64 n) false false

/-- `SELECT f(a, 1) AS x`:
```
Function f (alias x) (children 1)
 ExpressionList (children 2)
  Identifier a
  Literal UInt64_1
``` -/
def ex1 : Expr := .func (b "f") [ida "a", u 1] none false (b "x")
example : (explainExpr ex1 0).toOption = some [b "Function f (alias x) (children 1)", b " ExpressionList (children 2)",
    b "  Identifier a", b "  Literal UInt64_1"] := by decide +kernel
example : plainLabels ex1 = true := by decide +kernel

/-- `SELECT a AND b AND (c OR d) AND NOT e` — the AND chain is flattened, the parenthesised OR is not absorbed:
```
Function and (children 1)
 ExpressionList (children 4)
  Identifier a
  Identifier b
  Function or (children 1)
   ExpressionList (children 2)
    Identifier c
    Identifier d
  Function not (children 1)
   ExpressionList (children 1)
    Identifier e
``` -/
def ex2 : Expr :=
  .binary "AND" (.binary "AND" (.binary "AND" (ida "a") (ida "b") false) (.binary "OR" (ida "c") (ida "d") true) false)
    (.unary "NOT" (ida "e")) false
example : (explainExpr ex2 0).toOption = some [b "Function and (children 1)", b " ExpressionList (children 4)",
    b "  Identifier a", b "  Identifier b", b "  Function or (children 1)", b "   ExpressionList (children 2)",
    b "    Identifier c", b "    Identifier d", b "  Function not (children 1)", b "   ExpressionList (children 1)",
    b "    Identifier e"] := by decide +kernel

/-- `SELECT CASE x WHEN 1 THEN 'a' END AS c, a NOT BETWEEN 1 AND 2, a IN (1, 2), (x, y) -> x + y`: counts that the Go code
computes by formula (`1 + len(Whens)*2 + 1`, `argCount`) -/
def ex3 : Expr := .case_ (some (ida "x")) [(u 1, .lit (.str (b "a") false) false false)] none (b "c")
example : (explainExpr ex3 0).toOption = some [b "Function caseWithExpression (alias c) (children 1)",
    b " ExpressionList (children 4)", b "  Identifier x", b "  Literal UInt64_1", b "  Literal \\'a\\'", b "  Literal NULL"] := by
  decide +kernel
def ex4 : Expr := .inList (ida "a") [u 1, u 2] false false false
example : (explainExpr ex4 0).toOption = some [b "Function in (children 1)", b " ExpressionList (children 2)",
    b "  Identifier a", b "  Literal Tuple_(UInt64_1, UInt64_2)"] := by decide +kernel

/-- the theorems apply to them: the hypotheses hold and the conclusions are not trivially true -/
example : ∃ t : Tree, render t 0 = [b "Function f (alias x) (children 1)", b " ExpressionList (children 2)",
    b "  Identifier a", b "  Literal UInt64_1"] ∧ t.good = true :=
  explain_expr_wellformed_partial ex1 0 _ (ok_of_toOption (by decide +kernel)) (by decide +kernel)

example : (explainExpr ex3 3).toOption = some ([b "Function caseWithExpression (alias c) (children 1)",
    b " ExpressionList (children 4)", b "  Identifier x", b "  Literal UInt64_1", b "  Literal \\'a\\'", b "  Literal NULL"].map
      (indent 3)) := by
  have := explain_expr_depth_shift ex3 0 3
  rw [Nat.zero_add] at this
  rw [this]
  decide +kernel

/-- outside the core: an explicit verdict, never a line -/
example : errorOf (explainExpr (.func (b "f") [.other "Subquery"] none false []) 0) = some "Subquery" := by
  decide +kernel

/-! ## replay of the repaired defect, and the necessity of `plainLabels` -/

/-- `SELECT a IN () AS y`, as repaired (/repo 4cea596b8): two children announced, two printed; the monitor accepts. -/
def emptyIn : Expr := .aliased (.inList (ida "a") [] false false false) (b "y")
example : (explainExpr emptyIn 0).toOption = some [b "Function in (alias y) (children 1)", b " ExpressionList (children 2)",
      b "  Identifier a", b "  Function tuple (children 1)", b "   ExpressionList (children 0)"] ∧
    check [b "Function in (alias y) (children 1)", b " ExpressionList (children 2)",
      b "  Identifier a", b "  Function tuple (children 1)", b "   ExpressionList (children 0)"] = true := by
  decide +kernel

/-- `argCount` of explainInExprWithAlias as it was before the repair: the "all items are string literals" loop started from
`true`, which an EMPTY list satisfies vacuously (functions.go:1324 before 4cea596b8). -/
def inArgCountOld (withAlias : Bool) (list : List Expr) (trailingComma : Bool) : Nat :=
  if canBeTupleLiteral withAlias list then 1 + 1
  else if list.length = 1 then inSingleCount list trailingComma
  else if withAlias && list.all isStringLit then 1 + list.length
  else 1 + 1

/-- **replay**: before the repair `SELECT a IN () AS y` announced ONE child (real output then:
`Function in (alias y) (children 1)` / ` ExpressionList (children 1)` / `  Identifier a` / `  Function tuple (children 1)` /
`   ExpressionList (children 0)`), two were printed, and the verified monitor rejects that text.  The un-aliased
printer counted 2 then as now, and for every non-empty list the old and the new count agree. -/
theorem old_aliased_empty_in_miscounts :
    inArgCountOld true [] false = 1 ∧ inArgCount true [] false = 2 ∧ inArgCountOld false [] false = 2 ∧
    check [b "Function in (alias y) (children 1)", b " ExpressionList (children 1)",
      b "  Identifier a", b "  Function tuple (children 1)", b "   ExpressionList (children 0)"] = false := by
  decide +kernel

theorem old_count_differs_only_on_empty (wa tc : Bool) (list : List Expr) (h : list ≠ []) :
    inArgCountOld wa list tc = inArgCount wa list tc := by
  have : list.isEmpty = false := by cases list <;> simp_all
  simp [inArgCountOld, inArgCount, allStringLiterals, this]

/-- an identifier whose name ends like a count suffix: ``SELECT `x (children 3)` `` prints `Identifier x (children 3)`, which no
reader can tell from a counted line; `plainLabels` excludes exactly this. -/
def fakeCount : Expr := .ident [b "x (children 3)"] []
theorem fake_count_label_is_ambiguous :
    (explainExpr fakeCount 0).toOption = some [b "Identifier x (children 3)"] ∧
    check [b "Identifier x (children 3)"] = false ∧ plainLabels fakeCount = false := by
  decide +kernel

end DC.Props.C04Expr
