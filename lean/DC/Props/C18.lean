import DC.Proofs.TypesCast

/-!
# C18 — type expressions in `CAST(x AS T)` and `x::T`

"For every type expression built from ClickHouse's type constructors (plain names, Array, Nullable, LowCardinality,
Map, Tuple with or without element names, Variant, Decimal, FixedString, DateTime and DateTime64 with time zones,
Enum with values), nested to any depth and written with any spacing, the type shown by EXPLAIN for CAST(x AS T) and
for x::T is T in canonical spelling: constructor names as written, arguments separated by a comma and one space,
string arguments quoted and escaped. Both positions show the same text."

Objects (all executable, core only):
* spec `DC.Spec.TypeSpec`: `Ty`, `tokens : Ty → List Tok` (spacing does not exist at this level: `nextToken` drops
  whitespace and comments), `canonTy`, `showLit v = esc ("'" ++ esc v ++ "'")` — how EXPLAIN shows a string literal of
  value `v` — and `castLine T = "Literal " ++ showLit (canonTy T)`, the line the property requires;
* model `DC.Model.Types`: `parseDataType`, `formatDataType`, `castFnText` / `castOpText` (validated against the real
  code by `/verif/harness/p_c18.go` on every generated type, both positions).

`FormatDataType` returns the *inside* of the shown literal, i.e. the type text escaped twice (`esc (esc ·)`): this is why
`type_roundtrip` has `esc (esc (canonTy T))` on its right-hand side and the cast theorems have `castLine T`.

## What is proved and what is not

The theorems hold for `WfTy`, which is the grammar of the property (`GrammarTy`) *minus* shapes the real parser does not
handle; those are exhibited below as `decide`d examples that mirror the real behaviour:
* KNOWN FINDING `type@tuple-unlisted-type-name`: an unnamed Tuple element whose type name `isDataTypeName` does not list
  is taken for an element name and dropped: `Tuple(IntervalDay, String)` shows `Tuple(String)`;
* KNOWN FINDING `type@tuple-element-named-as-type`: `Tuple(date Array(Date))` is a parse error;
* heads/element names that lex as the keyword COLLATE (the parameter loop stops at it), MySQL integer names with a display
  width (`INT(11)`, dropped by design), JSON/OBJECT parameters (not modelled).
Hence the `_partial` suffix. The full statements (`GrammarTy T → …`) are false; see `full_statement_false_*`.

Two defects found by this property's search were repaired in /repo and are kept as replays (`repaired_*`).
-/
namespace DC.Props.C18
open DC DC.Types

/-- `FormatDataType(parseDataType(ts))`, when the tokens are consumed entirely and yield a type. -/
def parseAndFormat (ts : List Tok) : Option Fmt :=
  match parseDataType (fuelFor ts) ts with
  | .ok (some d) [] => some (formatDataType d)
  | _ => none

/-- **type_roundtrip** (partial: `WfTy` instead of `GrammarTy`). Any depth, any width.
   full statement (false):  `GrammarTy T → parseAndFormat (tokens T) = some (.text (esc (esc (canonTy T))))` -/
theorem type_roundtrip_partial (T : Ty) (h : WfTy T) :
    parseAndFormat (tokens T) = some (.text (esc (esc (canonTy T)))) := by
  have hp := parse_ty T h (fuelFor (tokens T)) [] (by simpa using fuel_ok T []) (by simp [fixed_tok_facts])
  simp only [List.append_nil] at hp
  simp only [parseAndFormat, hp]
  exact congrArg some (format_ty T h)

/-- continuation form: inside any token stream, with any sufficient fuel, as long as the token after the type is not
`(` nor one of the words a multi-word SQL type name continues with (`safeFollow`). -/
theorem type_roundtrip_cont_partial (T : Ty) (h : WfTy T) (f : Nat) (rest : List Tok) (hf : cost T ≤ f)
    (hr : safeFollow (cur rest) = true) :
    ∃ d, parseDataType f (tokens T ++ rest) = .ok (some d) rest ∧ formatDataType d = .text (esc (esc (canonTy T))) :=
  ⟨astOf T, parse_ty T h f rest hf hr, format_ty T h⟩

/-- **cast_positions_agree** (partial). Both positions show exactly the required line, hence the same text.
   full statement (false):  `GrammarTy T → castFnText (tokens T) = .shown (castLine T) [] ∧ castOpText (tokens T) = …` -/
theorem cast_positions_agree_partial (T : Ty) (h : WfTy T) :
    castFnText (tokens T) = .shown (castLine T) [] ∧ castOpText (tokens T) = .shown (castLine T) [] ∧
    castFnText (tokens T) = castOpText (tokens T) := by
  have h1 := castFn_ok T h
  have h2 := castOpText_ok T h
  exact ⟨h1, h2, h1.trans h2.symm⟩

/-- `x::T` followed by anything that cannot be mistaken for a part of the type (`FROM …`, `,`, `AS c`, `)`, `;` …). -/
theorem cast_operator_in_context_partial (T : Ty) (h : WfTy T) (rest : List Tok) (hr : safeFollow (cur rest) = true) :
    castOp ([xTok, ⟨DC.Gen.Tokens.tCOLONCOLON, [58, 58]⟩] ++ tokens T ++ rest) = .shown (castLine T) rest :=
  castOp_ok T h rest hr

/-- **no_fallback** (partial): the fallback branch of the formatter is not taken, in either position or in
`FormatDataType` itself. -/
theorem no_fallback_partial (T : Ty) (h : WfTy T) :
    parseAndFormat (tokens T) ≠ some .fallback ∧ castFnText (tokens T) ≠ .fallback ∧ castOpText (tokens T) ≠ .fallback := by
  refine ⟨?_, ?_, ?_⟩
  · rw [type_roundtrip_partial T h]; intro e; cases e
  · rw [(cast_positions_agree_partial T h).1]; intro e; cases e
  · rw [(cast_positions_agree_partial T h).2.1]; intro e; cases e

/-- the shown line determines the type text: `showLit` is injective (so "shows `castLine T`" means "shows `canonTy T`"). -/
theorem showLit_injective (a b : Bytes) (h : showLit a = showLit b) : a = b := DC.Types.showLit_inj a b h

/-! ## non-vacuity -/

/-- `Array(Nullable(Decimal(10, 2)))` -/
def exArr : Ty := .mk [B "Array"] [.ty (.mk [B "Nullable"] [.ty (.mk [B "Decimal"] [.num false 10, .num false 2])])]
/-- `Map(String, Tuple(a UInt8, date Date, Array(IntervalDay)))` -/
def exMap : Ty := .mk [B "Map"] [.ty (.mk [B "String"] []),
  .ty (.mk [B "Tuple"] [.named (B "a") (.mk [B "UInt8"] []), .named (B "date") (.mk [B "Date"] []),
    .ty (.mk [B "Array"] [.ty (.mk [B "IntervalDay"] [])])])]
/-- `Enum8('a\'b' = 1, '\\' = -2)` and `DateTime64(3, 'Europe/Moscow')` inside a Variant -/
def exEnum : Ty := .mk [B "Variant"] [.ty (.mk [B "Enum8"] [.enum (B "a'b") false 1, .enum [92] true 2]),
  .ty (.mk [B "DateTime64"] [.num false 3, .str (B "Europe/Moscow")])]

example : WfTy exArr ∧ WfTy exMap ∧ WfTy exEnum := by decide +kernel
example : castFnText (tokens exArr) = .shown (B "Literal \\'Array(Nullable(Decimal(10, 2)))\\'") [] := by decide +kernel
example : canonTy exEnum = B "Variant(Enum8('a\\'b' = 1, '\\\\' = -2), DateTime64(3, 'Europe/Moscow'))" := by decide +kernel
example : castOpText (tokens exEnum) = .shown
    (B "Literal \\'Variant(Enum8(\\\\\\'a\\\\\\\\\\\\\\'b\\\\\\' = 1, \\\\\\'\\\\\\\\\\\\\\\\\\\\\\' = -2), DateTime64(3, \\\\\\'Europe/Moscow\\\\\\'))\\'") [] := by
  decide +kernel
example : castFnText (tokens exMap) = castOpText (tokens exMap) := (cast_positions_agree_partial exMap (by decide +kernel)).2.2

/-! ## the full statements are false: the two known findings, mirrored -/

/-- `Tuple(IntervalDay, String)` -/
def exDropped : Ty := .mk [B "Tuple"] [.ty (.mk [B "IntervalDay"] []), .ty (.mk [B "String"] [])]
/-- `Tuple(String)` -/
def exDroppedShown : Ty := .mk [B "Tuple"] [.ty (.mk [B "String"] [])]
/-- `Tuple(date Array(Date))` -/
def exElemName : Ty := .mk [B "Tuple"] [.named (B "date") (.mk [B "Array"] [.ty (.mk [B "Date"] [])])]

/-- KNOWN FINDING type@tuple-unlisted-type-name: in the grammar, not well-formed, and the element is silently dropped. -/
theorem full_statement_false_dropped_element :
    GrammarTy exDropped ∧ ¬ WfTy exDropped ∧
    castFnText (tokens exDropped) = .shown (castLine exDroppedShown) [] ∧
    castOpText (tokens exDropped) = .shown (castLine exDroppedShown) [] ∧
    castLine exDroppedShown ≠ castLine exDropped := by decide +kernel

/-- KNOWN FINDING type@tuple-element-named-as-type: in the grammar, not well-formed, and a parse error. -/
theorem full_statement_false_element_name :
    GrammarTy exElemName ∧ ¬ WfTy exElemName ∧ castFnText (tokens exElemName) = .err ∧ castOpText (tokens exElemName) = .err := by
  decide +kernel

/-! ## replays of the two repaired defects (the behaviour before /repo commits 4a972eb2b and 578d7a62a) -/

/-- before 4a972eb2b `FormatDataType` inserted a string argument raw between the escaped quotes: for `DateTime('a\'b')`
the text was not the escaped canonical text. -/
theorem repaired_string_arg_unescaped :
    q3 ++ B "a'b" ++ q3 ≠ esc (esc (quote (B "a'b"))) ∧ q3 ++ escapeStringForTypeParam (B "a'b") ++ q3 = esc (esc (quote (B "a'b"))) := by
  decide +kernel

/-- before 578d7a62a `escapeStringForTypeParam` wrote a quote as 5 backslashes and a quote; three levels of escaping need 7. -/
theorem repaired_enum_quote_escape :
    bs 5 ++ [39] ≠ esc (esc (escByte 39)) ∧ escTypeParamByte 39 = esc (esc (escByte 39)) := by decide +kernel

/-! ## outside the domain, for the record -/

/-- multi-word SQL names work directly after `AS` / `::` but not as arguments: `Array(BIGINT UNSIGNED)` is a parse error
(such names are not ClickHouse type constructors; `WfTy` has single-word heads). -/
example : castFnText (tokens (.mk [B "BIGINT", B "UNSIGNED"] [])) = .shown (B "Literal \\'BIGINT UNSIGNED\\'") [] ∧
    castFnText (tokens (.mk [B "Array"] [.ty (.mk [B "BIGINT", B "UNSIGNED"] [])])) = .err := by decide +kernel

/-- empty parentheses are dropped: `Tuple()` shows `Tuple` (not expressible as a `Ty`). -/
example : castOpText [wordTok (B "Tuple"), lparenTok, rparenTok] = .shown (B "Literal \\'Tuple\\'") [] := by decide +kernel

end DC.Props.C18
