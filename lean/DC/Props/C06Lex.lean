import DC.Proofs.LexerLayoutOpaque

/-!
# C06 — statements in a script are independent: the lexer part (opacity)

> … Semicolons inside string literals, quoted identifiers and comments never split a statement, and empty
> statements between semicolons are ignored.

The statement loop (`DC.Props.C06`) splits a script at `SEMICOLON` tokens. Here, on the lexer model `DC.Lexer`:
a quoted text or a comment is ONE token, whatever its body contains, and the lexer continues exactly behind it —
so no `SEMICOLON` (and no other) token is produced from the body.

States: `Ent s bs` = "`s` stands on the first rune of `bs`" (current character = that rune, the rest of `bs`
undelivered; positions arbitrary; `ent_stateAt : Ent (stateAt b) b` for `New(b)`).
Bodies: `Spells body rs` = the bytes `body` are read by the lexer as the runes `rs` (a concatenation of pieces each
of which decodes to one rune whatever follows). Every valid UTF-8 text qualifies (`spells_enc`), so does every ASCII
byte string (`spells_ascii`); a body with a truncated multi-byte sequence directly before the closing quote does
not (its decoding depends on what follows) and is not covered. Token values are `enc rs`, the UTF-8 encoding of the
runes read (equal to `body` for valid UTF-8).

* `string_body_opaque`: `'body'`, body without `'` and `\`, next rune not `'` → one `STRING`.
* `quoted_ident_opaque`: `"body"` → one `IDENT` (quoted flag set); `backtick_ident_opaque`: `` `body` `` → one `IDENT`
  (quoted flag NOT set: `readBacktickIdentifier` leaves `Quoted` false, lexer.go).
* `comment_opaque_dash`, `comment_opaque_hash`: `--body\n`, `#body\n`, body without newline and NUL → one
  `LINE_COMMENT`; the lexer stands ON the newline (it is not part of the comment). Quirk kept by the model: trailing
  `;` of the comment text are trimmed from the VALUE (`strings.TrimRight(text, ";")`, lexer.go) — the token is still
  one comment token and no `SEMICOLON` token.
* `comment_opaque_block`: `/*text` with `text` closing the comment exactly at its end (nesting allowed,
  `closesExactly`) → one `LINE_COMMENT`.
* `…_stream`: the token stream of the whole remaining input is that one token followed by the stream of `rest`.

* `string_opaque_escapes`, `backtick_ident_opaque_escapes`, `quoted_ident_opaque_escapes`: the same for bodies
  with escapes — any sequence of ordinary runes, doubled quotes (`''`, ``` `` ```, `""`), backslash + character
  (in particular `\'`, `\\`, `\;`), and `\xHH` — with the token value the code computes (`QBody`, `DBody`).
  Also covers bytes that are never valid UTF-8 (`dec_invalid`: read as U+FFFD each).

Not proved here: unterminated literals/comments (they extend to EOF: C12); `\x` followed by fewer than two
characters before EOF; the Unicode-quoted forms; `x'…'`, `b'…'`, `$$…$$`.
-/

namespace DC.Props.C06Lex

open DC DC.Lexer DC.Gen.Tokens

/-- `'body'`: exactly one `STRING` token with the body as value; afterwards the lexer stands on the first rune of
`rest`. `quoteFree q rs`: no rune of `rs` is `q` or `\`. -/
theorem string_body_opaque (body : Bytes) (rs : List Nat) (hb : Spells body rs) (hno : quoteFree 39 rs)
    (rest : Bytes) (hrest : firstRune rest ≠ 39) (s : LState) (hs : Ent s (39 :: body ++ 39 :: rest)) :
    (nextToken s).1.kvq = (tSTRING, enc rs, false) ∧ Ent (nextToken s).2 rest :=
  string_tok hb hno rest hrest hs

/-- `"body"`: one `IDENT` token, `Quoted = true`. -/
theorem quoted_ident_opaque (body : Bytes) (rs : List Nat) (hb : Spells body rs) (hno : quoteFree 34 rs)
    (rest : Bytes) (hrest : firstRune rest ≠ 34) (s : LState) (hs : Ent s (34 :: body ++ 34 :: rest)) :
    (nextToken s).1.kvq = (tIDENT, enc rs, true) ∧ Ent (nextToken s).2 rest :=
  dquote_tok hb hno rest hrest hs

/-- `` `body` ``: one `IDENT` token, `Quoted = false` (as the code has it). -/
theorem backtick_ident_opaque (body : Bytes) (rs : List Nat) (hb : Spells body rs) (hno : quoteFree 96 rs)
    (rest : Bytes) (hrest : firstRune rest ≠ 96) (s : LState) (hs : Ent s (96 :: body ++ 96 :: rest)) :
    (nextToken s).1.kvq = (tIDENT, enc rs, false) ∧ Ent (nextToken s).2 rest :=
  backtick_tok hb hno rest hrest hs

/-- `--body\n`: one `LINE_COMMENT`; the lexer stands on the newline. -/
theorem comment_opaque_dash (body : Bytes) (rs : List Nat) (hb : Spells body rs) (hok : lineBodyOk rs)
    (rest : Bytes) (s : LState) (hs : Ent s (45 :: 45 :: body ++ 10 :: rest)) :
    (nextToken s).1.kvq = (tLINE_COMMENT, (trimRightSemis (enc (45 :: 45 :: rs)).reverse).reverse, false) ∧
      Ent (nextToken s).2 (10 :: rest) :=
  lineComment_tok hb hok rest hs

/-- `#body\n`. -/
theorem comment_opaque_hash (body : Bytes) (rs : List Nat) (hb : Spells body rs) (hok : lineBodyOk rs)
    (rest : Bytes) (s : LState) (hs : Ent s (35 :: body ++ 10 :: rest)) :
    (nextToken s).1.kvq = (tLINE_COMMENT, (trimRightSemis (enc (35 :: rs)).reverse).reverse, false) ∧
      Ent (nextToken s).2 (10 :: rest) :=
  hashComment_tok hb hok rest hs

/-- `/*text`: one `LINE_COMMENT` whose value is the whole comment. -/
theorem comment_opaque_block (text : Bytes) (rs : List Nat) (hb : Spells text rs) (hc : closesExactly 1 rs = true)
    (rest : Bytes) (s : LState) (hs : Ent s (47 :: 42 :: text ++ rest)) :
    (nextToken s).1.kvq = (tLINE_COMMENT, enc (47 :: 42 :: rs), false) ∧ Ent (nextToken s).2 rest :=
  blockComment_tok hb hc rest hs

/-- `'…'` with escapes: `QBody false 39 [39] body val` — `body` is a sequence of ordinary runes (not `'`, not `\`),
`''`, `\c` for a character `c ≠ x` (value: the escape table's image, or `\c` unchanged if `c` is not in the table),
`\xHH`; `val` is the value `readString` computes. One `STRING` token. -/
theorem string_opaque_escapes (body val : Bytes) (hb : QBody false 39 [39] body val)
    (rest : Bytes) (hrest : firstRune rest ≠ 39) (s : LState) (hs : Ent s (39 :: body ++ 39 :: rest)) :
    (nextToken s).1.kvq = (tSTRING, val, false) ∧ Ent (nextToken s).2 rest :=
  string_tok_esc hb rest hrest hs

/-- `` `…` `` with escapes (same loop, plus the escape ``\` ``). -/
theorem backtick_ident_opaque_escapes (body val : Bytes) (hb : QBody true 96 [96] body val)
    (rest : Bytes) (hrest : firstRune rest ≠ 96) (s : LState) (hs : Ent s (96 :: body ++ 96 :: rest)) :
    (nextToken s).1.kvq = (tIDENT, val, false) ∧ Ent (nextToken s).2 rest :=
  backtick_tok_esc hb rest hrest hs

/-- `"…"` with `""` and backslash escapes (`DBody`). -/
theorem quoted_ident_opaque_escapes (body val : Bytes) (hb : DBody body val)
    (rest : Bytes) (hrest : firstRune rest ≠ 34) (s : LState) (hs : Ent s (34 :: body ++ 34 :: rest)) :
    (nextToken s).1.kvq = (tIDENT, val, true) ∧ Ent (nextToken s).2 rest :=
  dquote_tok_esc hb rest hrest hs

/-- in particular: the one token is not a `SEMICOLON`, whatever the body. -/
theorem string_no_semicolon (body : Bytes) (rs : List Nat) (hb : Spells body rs) (hno : quoteFree 39 rs)
    (rest : Bytes) (hrest : firstRune rest ≠ 39) (s : LState) (hs : Ent s (39 :: body ++ 39 :: rest)) :
    (nextToken s).1.kind ≠ tSEMICOLON := by
  rw [kind_of_kvq (string_tok hb hno rest hrest hs).1]; decide

/-- stream form: the tokens of `'body' rest` are one `STRING` followed by the tokens of `rest` (compared as
`(kind, value, quoted)`; `x` is any state standing on the first rune of `rest`, e.g. `stateAt rest`). -/
theorem string_body_opaque_stream (body : Bytes) (rs : List Nat) (hb : Spells body rs) (hno : quoteFree 39 rs)
    (rest : Bytes) (hrest : firstRune rest ≠ 39) (s x : LState) (hs : Ent s (39 :: body ++ 39 :: rest))
    (hx : Ent x rest) :
    (lexFrom s).map Tok.kvq = (tSTRING, enc rs, false) :: (lexFrom x).map Tok.kvq := by
  obtain ⟨h1, h2⟩ := string_tok hb hno rest hrest hs
  exact lexFrom_step h1 (by decide) h2 hx

theorem quoted_ident_opaque_stream (body : Bytes) (rs : List Nat) (hb : Spells body rs) (hno : quoteFree 34 rs)
    (rest : Bytes) (hrest : firstRune rest ≠ 34) (s x : LState) (hs : Ent s (34 :: body ++ 34 :: rest))
    (hx : Ent x rest) :
    (lexFrom s).map Tok.kvq = (tIDENT, enc rs, true) :: (lexFrom x).map Tok.kvq := by
  obtain ⟨h1, h2⟩ := dquote_tok hb hno rest hrest hs
  exact lexFrom_step h1 (by decide) h2 hx

theorem backtick_ident_opaque_stream (body : Bytes) (rs : List Nat) (hb : Spells body rs) (hno : quoteFree 96 rs)
    (rest : Bytes) (hrest : firstRune rest ≠ 96) (s x : LState) (hs : Ent s (96 :: body ++ 96 :: rest))
    (hx : Ent x rest) :
    (lexFrom s).map Tok.kvq = (tIDENT, enc rs, false) :: (lexFrom x).map Tok.kvq := by
  obtain ⟨h1, h2⟩ := backtick_tok hb hno rest hrest hs
  exact lexFrom_step h1 (by decide) h2 hx

/-- a comment is one token that the parser's pump drops: the parser sees only what follows
(`DC.Props.C05.gap_comment_invariance_*` are the same statements for `pumpedFrom`). -/
theorem comment_opaque_block_stream (text : Bytes) (rs : List Nat) (hb : Spells text rs)
    (hc : closesExactly 1 rs = true) (rest : Bytes) (s x : LState) (hs : Ent s (47 :: 42 :: text ++ rest))
    (hx : Ent x rest) :
    (lexFrom s).map Tok.kvq = (tLINE_COMMENT, enc (47 :: 42 :: rs), false) :: (lexFrom x).map Tok.kvq := by
  obtain ⟨h1, h2⟩ := blockComment_tok hb hc rest hs
  exact lexFrom_step h1 (by decide) h2 hx

theorem comment_opaque_dash_stream (body : Bytes) (rs : List Nat) (hb : Spells body rs) (hok : lineBodyOk rs)
    (rest : Bytes) (s x : LState) (hs : Ent s (45 :: 45 :: body ++ 10 :: rest)) (hx : Ent x (10 :: rest)) :
    (lexFrom s).map Tok.kvq =
      (tLINE_COMMENT, (trimRightSemis (enc (45 :: 45 :: rs)).reverse).reverse, false) :: (lexFrom x).map Tok.kvq := by
  obtain ⟨h1, h2⟩ := lineComment_tok hb hok rest hs
  exact lexFrom_step h1 (by decide) h2 hx

theorem comment_opaque_hash_stream (body : Bytes) (rs : List Nat) (hb : Spells body rs) (hok : lineBodyOk rs)
    (rest : Bytes) (s x : LState) (hs : Ent s (35 :: body ++ 10 :: rest)) (hx : Ent x (10 :: rest)) :
    (lexFrom s).map Tok.kvq =
      (tLINE_COMMENT, (trimRightSemis (enc (35 :: rs)).reverse).reverse, false) :: (lexFrom x).map Tok.kvq := by
  obtain ⟨h1, h2⟩ := hashComment_tok hb hok rest hs
  exact lexFrom_step h1 (by decide) h2 hx

/-! ## non-vacuity -/

/-- `'a;b'` followed by `;x`: body `a;b` = [97, 59, 98]. -/
example : (nextToken (stateAt (39 :: [97, 59, 98] ++ 39 :: [59, 120]))).1.kvq = (tSTRING, [97, 59, 98], false) ∧
    Ent (nextToken (stateAt (39 :: [97, 59, 98] ++ 39 :: [59, 120]))).2 [59, 120] :=
  string_body_opaque [97, 59, 98] [97, 59, 98] (spells_ascii (bs := [97, 59, 98]) (by decide))
    (by unfold quoteFree; decide) [59, 120] (by decide) _ (ent_stateAt _)

/-- a non-ASCII body: `'é;'` (é = C3 A9 = U+00E9). -/
example (rest : Bytes) (h : firstRune rest ≠ 39) :
    (nextToken (stateAt (39 :: enc [0xE9, 59] ++ 39 :: rest))).1.kvq = (tSTRING, enc [0xE9, 59], false) :=
  (string_body_opaque (enc [0xE9, 59]) [0xE9, 59] (spells_enc (by decide)) (by unfold quoteFree; decide) rest h _
    (ent_stateAt _)).1

/-- the body `a''\';\x3b\q` : items `a`, `''`, `\'`, `;`, `\x3b`, `\q`. -/
def exBody : Bytes :=
  [97] ++ (([39] ++ [39]) ++ ((92 :: [39]) ++ ([59] ++ ((92 :: 120 :: ([51] ++ [98])) ++ ((92 :: [113]) ++ [])))))

/-- its value `a'';;\q`. -/
def exVal : Bytes := [97, 39, 39, 59, 59, 92, 113]

theorem exBody_ok : QBody false 39 [39] exBody exVal := by
  have da : Dec [97] 97 := dec_ascii (b := 97) (by decide)
  have dq : Dec [39] 39 := dec_ascii (b := 39) (by decide)
  have dsemi : Dec [59] 59 := dec_ascii (b := 59) (by decide)
  have d3 : Dec [51] 51 := dec_ascii (b := 51) (by decide)
  have db : Dec [98] 98 := dec_ascii (b := 98) (by decide)
  have dqq : Dec [113] 113 := dec_ascii (b := 113) (by decide)
  exact
    (QBody.cons (QItem.plain da (by decide) (by decide))
    (QBody.cons QItem.dbl
    (QBody.cons (QItem.esc (u := 39) dq (by decide) (by decide))
    (QBody.cons (QItem.plain dsemi (by decide) (by decide))
    (QBody.cons (QItem.hex d3 db)
    (QBody.cons (QItem.keep dqq (by decide) (by decide))
    QBody.nil))))))

example (rest : Bytes) (h : firstRune rest ≠ 39) :
    (nextToken (stateAt (39 :: exBody ++ 39 :: rest))).1.kvq = (tSTRING, exVal, false) :=
  (string_opaque_escapes exBody exVal exBody_ok rest h _ (ent_stateAt _)).1

#guard (lex (strBytes "'a''\\';\\x3b\\q';")).map Tok.kvq ==
  [(tSTRING, strBytes "a'';;\\q", false), (tSEMICOLON, [59], false), (tEOF, [], false)]

/-- an invalid byte (0xFF) and `\"` inside `"…"`. -/
example (rest : Bytes) (h : firstRune rest ≠ 34) :
    (nextToken (stateAt (34 :: ([0xFF] ++ (92 :: [34] ++ ([59] ++ []))) ++ 34 :: rest))).1.kvq =
      (tIDENT, [0xEF, 0xBF, 0xBD] ++ ([34] ++ ([59] ++ [])), true) :=
  (quoted_ident_opaque_escapes _ _
    (DBody.cons (DItem.plain (dec_invalid (b := 0xFF) (by decide)) (by decide) (by decide))
    (DBody.cons (DItem.esc (dec_ascii (b := 34) (by decide)))
    (DBody.cons (DItem.plain (dec_ascii (b := 59) (by decide)) (by decide) (by decide))
    DBody.nil))) rest h _ (ent_stateAt _)).1

/-- `"a;b"` and `` `a;b` ``. -/
example (rest : Bytes) (h : firstRune rest ≠ 34) :
    (nextToken (stateAt (34 :: [97, 59, 98] ++ 34 :: rest))).1.kvq = (tIDENT, [97, 59, 98], true) :=
  (quoted_ident_opaque [97, 59, 98] [97, 59, 98] (spells_ascii (bs := [97, 59, 98]) (by decide))
    (by unfold quoteFree; decide) rest h _ (ent_stateAt _)).1

example (rest : Bytes) (h : firstRune rest ≠ 96) :
    (nextToken (stateAt (96 :: [97, 59, 98] ++ 96 :: rest))).1.kvq = (tIDENT, [97, 59, 98], false) :=
  (backtick_ident_opaque [97, 59, 98] [97, 59, 98] (spells_ascii (bs := [97, 59, 98]) (by decide))
    (by unfold quoteFree; decide) rest h _ (ent_stateAt _)).1

/-- `--a;b\n`, `#;\n`, `/*;/*;*/;*/`. -/
example (rest : Bytes) : (nextToken (stateAt (45 :: 45 :: [97, 59, 98] ++ 10 :: rest))).1.kind = tLINE_COMMENT :=
  kind_of_kvq (comment_opaque_dash [97, 59, 98] [97, 59, 98] (spells_ascii (bs := [97, 59, 98]) (by decide))
    (by unfold lineBodyOk; decide) rest _ (ent_stateAt _)).1

example (rest : Bytes) : (nextToken (stateAt (35 :: [59] ++ 10 :: rest))).1.kind = tLINE_COMMENT :=
  kind_of_kvq (comment_opaque_hash [59] [59] (spells_ascii (bs := [59]) (by decide))
    (by unfold lineBodyOk; decide) rest _ (ent_stateAt _)).1

example (rest : Bytes) :
    (nextToken (stateAt (47 :: 42 :: [59, 47, 42, 59, 42, 47, 59, 42, 47] ++ rest))).1.kvq =
      (tLINE_COMMENT, 47 :: 42 :: [59, 47, 42, 59, 42, 47, 59, 42, 47], false) :=
  (comment_opaque_block [59, 47, 42, 59, 42, 47, 59, 42, 47] [59, 47, 42, 59, 42, 47, 59, 42, 47]
    (spells_ascii (bs := [59, 47, 42, 59, 42, 47, 59, 42, 47]) (by decide)) (by simp [closesExactly]) rest _
    (ent_stateAt _)).1

-- evaluated: one token each, no SEMICOLON from the bodies; the `;` after them is a SEMICOLON
#guard ((lex (strBytes "'a;b';\"c;d\";`e;f`;--g;h\n;/*i;/*j;*/k*/;")).map (·.kind)) ==
  [tSTRING, tSEMICOLON, tIDENT, tSEMICOLON, tIDENT, tSEMICOLON, tLINE_COMMENT, tSEMICOLON, tLINE_COMMENT, tSEMICOLON, tEOF]

end DC.Props.C06Lex
