import DC.Gen.PanicSites
import DC.Spec.AssumedSites

/-!
# C01 / C03 — the regenerated panic-site obligations

Property text (C01): "For every byte string of at most 1 MiB handed to Parse (or to a Parser built with New), the call
returns normally with a (statements, error) pair; it never panics …" — and the part of C03 that says Explain does not panic.

`DC.Gen.PanicSites` is regenerated from /repo by /verif/extract/panicsites.go on every check. It lists EVERY index
expression on a slice/array/string, every slice expression and every type assertion without comma-ok of `lexer`,
`parser`, `internal/explain`, `ast`, with a guard classification, and for each guarded site a generated theorem
`site_k : ∀ lengths and integers, guards → 0 ≤ index < length := by omega` together with
`site_k_nonvacuous : ∃ …, guards` (the guards are satisfiable, so `site_k` is not vacuous). These are re-proved by every
`lake build`. What is TRUSTED is the translator's reading of the guards (assumptions in the header of panicsites.go);
what is proved here:
* `every_guarded_site_certified`: each site of a guarded class carries a checked certificate;
* `unguarded_sites_reviewed`: the sites without a syntactic guard are exactly the hand-reviewed ones of
  `DC.Spec.AssumedSites.reviewed` — a newly introduced unguarded index / slice / assertion breaks this theorem;
* `index_inventory_complete`: the inventory has as many index sites as an independent plain count of IndexExpr nodes;
* `literal_values_typed`, `literal_assertions_allowed`: every construction of `ast.Literal` pairs its `Type` constant
  with a `Value` of an allowed static type, and every unchecked `lit.Value.(T)` sits under a `Type` constant whose only
  allowed Value type is `T`.
Not covered: nil-pointer dereferences, method calls on nil interfaces, map writes to nil maps, division by zero,
stack exhaustion (searched by `harness run --prop=C01/C03`).
-/
namespace DC.Props.C01Sites
open DC.Gen.PanicSites

/-- classes whose sites carry a generated `omega` certificate -/
def certifiedClasses : List String := ["len-guard", "first-elem", "last-elem", "counted", "range-index"]

/-- all classes the translator may emit; `const-array` / `string-const` are constant indices checked by the Go type checker -/
def knownClasses : List String := certifiedClasses ++ ["const-array", "string-const", "literal-type", "unguarded"]

theorem classes_known : sites.all (fun s => knownClasses.contains s.cls) = true := by decide +kernel

/-- Every site of a guarded class has its bounds obligation proved (`Cert.proof`), and nothing else is certified. -/
theorem every_guarded_site_certified :
    (sites.filter (fun s => certifiedClasses.contains s.cls)).map (·.id) = certs.map (·.id) := by decide +kernel

/-- The sites for which no guard was found are exactly the reviewed ones. -/
theorem unguarded_sites_reviewed : unguarded.map (·.key) = DC.Spec.AssumedSites.reviewed := by decide +kernel

/-- Completeness cross-check of the translator's walk. -/
theorem index_inventory_complete : (sites.filter (fun s => s.kind == "index")).length = indexPlainCount := by
  decide +kernel

/-! ## `lit.Value.(T)` -/

def allowed (c v : String) : Bool := DC.Spec.AssumedSites.allowedLiteral.contains (c, v)

/-- Walk the constructions of / writes to `ast.Literal` in source order. A construction must pair an allowed
(Type, Value type), or leave the Value out and be reviewed (`valueSetLater`); a write to `.Type` must be followed
immediately by a write to `.Value` of an allowed type in the same function; a lone write to `.Value` must be allowed for
the Type of the latest construction in that function. (Source order stands in for control flow: trusted reading.) -/
def checkLits : List (String × String × String × String × String) → String → String → Bool
  | [], _, _ => true
  | (_, fn, "write", c, "-") :: (_, fn2, "write", "-", v) :: rest, cf, cc =>
      fn == fn2 && allowed c v && checkLits rest cf cc
  | (_, fn, "write", "-", v) :: rest, cf, cc => fn == cf && allowed cc v && checkLits rest cf cc
  | (_, fn, "construct", c, v) :: rest, _, _ =>
      (allowed c v || (v == "<none>" && DC.Spec.AssumedSites.valueSetLater.contains (fn ++ " | " ++ c))) &&
        checkLits rest fn c
  | _ :: _, _, _ => false

theorem literal_values_typed : checkLits literalConstructions "" "" = true := by decide +kernel

/-- Every unchecked assertion `lit.Value.(T)` is evaluated under `lit.Type ∈ {constants}` and `T` is the ONLY Value type
allowed for each of these constants. -/
theorem literal_assertions_allowed :
    literalType.all (fun s => s.lit.all (fun c =>
      (DC.Spec.AssumedSites.allowedLiteral.filter (fun p => p.1 == c)).map (·.2) == [s.asserted])) = true := by
  decide +kernel

/-! non-vacuity: the inventory is not empty and the certificates are real statements -/

example : sites.length ≥ 150 := by decide +kernel
example : certs.length ≥ 100 := by decide +kernel
example : literalType.length ≥ 10 := by decide +kernel
/-- the expectation tests of the translator: both repaired defects are now guarded … -/
example : (sites.filter (fun s => s.key == "internal/explain.handleSpecialFunction | $0:*ast.InExpr.List[0]")).map (·.cls) = ["first-elem"] := by
  decide +kernel
example : (sites.filter (fun s => s.key == "parser.buildIntersectExceptTree | $0:[]ast.Statement[$1:int]")).map (·.cls) = ["counted", "counted"] := by
  decide +kernel

end DC.Props.C01Sites
