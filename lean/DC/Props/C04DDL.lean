import DC.Proofs.ExplainDDL

/-!
# C04 on the DDL printers: header count = number of children printed  (partial)

> … a node's '(children N)' suffix equals the number of nodes printed directly beneath it (absent means zero) …

Model: `DC.Model.ExplainDDL` mirrors, guard by guard and in source order, the counting and the
child-emitting statements of
* `countAlterCommandChildren` / `explainAlterCommand` (internal/explain/statements.go) — all 45
  `ast.AlterCommandType` constants and the `default:` arm — plus `explainStatisticsCommand`,
  `explainProjection`, `explainProjectionSelectQuery`;
* `Column()` and `Index()` (internal/explain/explain.go);
* `explainCreateQuery` (statements.go): the FUNCTION, USER, DICTIONARY and table/view/database paths, its
  `Columns definition`, `Storage definition` and the window view's inner `Storage definition`.
It is tied to the code by the zero-difference correspondence `ddl-count-emit-correspondence`
(harness/p_c04ddl.go: the shape is read off the PARSED ast by reflection, the model's count and child kinds
are compared with the header and the direct children of the real `Explain` output) and by the source pins.

Statements: for ALL combinations of the guards (and all list lengths),
`count… s = (emit… s).length`.  Unconditional for `ColumnDeclaration`, `Index`, `Stat`, `Projection`,
`ProjectionSelectQuery`, `Columns definition`, `Storage definition`.  Under an AST invariant for
* `AlterCommand` (`WfAlter`): ADD COLUMN has no column-level MODIFY/RESET SETTING lists; a MODIFY TTL clause
  with elements has its first expression; statistics commands name a column (ADD/MODIFY: or a type);
* `CreateQuery` (`WfCreate`): CREATE FUNCTION has a body; a view with a SELECT is not both MATERIALIZED and WINDOW.
Each conjunct is necessary (`…_needs_…`), and the invariants are exactly the condition (`alter_pair_iff`,
`create_pair_iff`: count = children IFF the invariant holds).  The harness evaluates `WfAlter`/`WfCreate` on every AST it compares.
`Parse` DOES produce ASTs outside three of them, on text ClickHouse rejects — there the real output's count is
wrong (recorded as observations, see `alter_needs_stat_columns`, `alter_needs_ttl_expression`,
`create_needs_function_body`, `create_needs_not_materialized_window`):
  `ALTER TABLE t DROP STATISTICS`, `ALTER TABLE t MODIFY TTL`, `CREATE FUNCTION f`,
  `CREATE MATERIALIZED WINDOW VIEW v AS SELECT 1`.
FULL STATEMENT (not a theorem, there is no Go semantics in Lean): for every valid statement the printed tree
has these counts — decided by the verified monitor on the real output (p_c04.go).
-/
namespace DC.Props.C04DDL
open DC.Model.ExplainDDL DC.Proofs.ExplainDDL

/-- ALTER: `countAlterCommandChildren` = number of nodes `explainAlterCommand` prints beneath the header,
for every command type and every combination of its optional parts. -/
theorem alter_pair (c : AlterShape) (h : WfAlter c = true) : countAlter c = (emitAlter c).length :=
  count_eq_emit_alter c h

/-- … and the invariant is exactly the condition: the count is right IF AND ONLY IF `WfAlter` holds. -/
theorem alter_pair_iff (c : AlterShape) : countAlter c = (emitAlter c).length ↔ WfAlter c = true :=
  count_eq_emit_alter_iff c

/-- `Stat (children N)` of the statistics commands. -/
theorem stat_pair (c : AlterShape) : countStat c = (emitStat c).length := count_eq_emit_stat c

/-- `Projection (children N)` and `ProjectionSelectQuery (children N)`. -/
theorem projection_pair (p : ProjShape) : countProj p = (emitProj p).length := count_eq_emit_proj p
theorem projection_select_pair (p : ProjShape) : countProjSel p = (emitProjSel p).length :=
  count_eq_emit_projsel p

/-- `ColumnDeclaration name (children N)`: every combination of type, STATISTICS, DEFAULT/EPHEMERAL, TTL,
CODEC, SETTINGS, COMMENT. -/
theorem column_pair (c : ColShape) : countCol c = (emitCol c).length := count_eq_emit_col c

/-- `Index (children N)`. -/
theorem index_pair (i : IdxShape) : countIdx i = (emitIdx i).length := count_eq_emit_idx i

/-- `CreateQuery … (children N)` / `CreateFunctionQuery` / `CreateUserQuery`, all four paths. -/
theorem create_pair (n : CreateShape) (h : WfCreate n = true) : countCreate n = (emitCreate n).length :=
  count_eq_emit_create n h

theorem create_pair_iff (n : CreateShape) : countCreate n = (emitCreate n).length ↔ WfCreate n = true :=
  count_eq_emit_create_iff n

/-- `Columns definition (children N)`. -/
theorem columns_definition_pair (n : CreateShape) : countColsDef n = (emitColsDef n).length :=
  count_eq_emit_colsdef n

/-- `Storage definition (children N)` (regular and materialized-view placement). -/
theorem storage_definition_pair (n : CreateShape) : countStorage n = (emitStorage n).length :=
  count_eq_emit_storage n

/-- the window view's inner `Storage definition (children N)`. -/
theorem inner_storage_pair (n : CreateShape) : countInnerStorage n = (emitInnerStorage n).length :=
  count_eq_emit_innerstorage n

/-! ## every hypothesis is needed -/

/-- the shape with every guard off -/
def emptyAlter (k : AlterKind) : AlterShape :=
  ⟨k, false, false, 0, 0, false, false, false, false, false, false, false, false, false, false, false, false,
    false, false, false, false, false, 0, false, false, 0, false, false, 0, 0, 0, false, false, false⟩

def emptyCreate : CreateShape :=
  ⟨false, false, false, false, 0, 0, false, false, 0, false, false, false, false, false, 0, 0, 0, 0, false, 0,
    false, 0, false, 0, false, false, false, false, false, false, 0, false, false, false, false, false, false,
    0, false, false, false, false, false, false⟩

/-- ADD COLUMN with a settings list: 2 announced, 1 printed (`Parse` never builds this). -/
theorem alter_needs_add_column_no_settings :
    countAlter { emptyAlter .addColumn with column := true, settingsN := 1 } = 2 ∧
    (emitAlter { emptyAlter .addColumn with column := true, settingsN := 1 }).length = 1 := by decide

/-- `ALTER TABLE t DROP STATISTICS` (accepted by `Parse`, no column list): header without a count,
one `Stat` node printed. -/
theorem alter_needs_stat_columns :
    countAlter (emptyAlter .dropStatistics) = 0 ∧ emitAlter (emptyAlter .dropStatistics) = ["Stat"] := by decide

/-- the same for ADD / MODIFY STATISTICS with neither columns nor types (`ALTER TABLE t ADD STATISTICS`) -/
theorem alter_needs_stat_columns_or_types :
    countAlter (emptyAlter .addStatistics) = 0 ∧ emitAlter (emptyAlter .addStatistics) = ["Stat"] := by decide

/-- `ALTER TABLE t MODIFY TTL` (accepted by `Parse`): one TTL element whose expression is nil. -/
theorem alter_needs_ttl_expression :
    countAlter { emptyAlter .modifyTTL with ttl := true, ttlElementsN := 1 } = 0 ∧
    emitAlter { emptyAlter .modifyTTL with ttl := true, ttlElementsN := 1 } = ["ExpressionList"] := by decide

/-- `CREATE FUNCTION f` (accepted by `Parse`): 2 announced, 1 printed. -/
theorem create_needs_function_body :
    countCreate { emptyCreate with createFunction := true } = 2 ∧
    emitCreate { emptyCreate with createFunction := true } = ["Identifier"] := by decide

/-- `CREATE MATERIALIZED WINDOW VIEW v AS SELECT 1` (accepted by `Parse`): 2 announced, the SELECT printed twice. -/
theorem create_needs_not_materialized_window :
    countCreate { emptyCreate with view := true, materialized := true, windowView := true, asSelect := true } = 2 ∧
    emitCreate { emptyCreate with view := true, materialized := true, windowView := true, asSelect := true }
      = ["Identifier", "*", "*"] := by decide

/-! ## non-vacuity -/

/-- every command type has well-formed shapes -/
theorem wf_inhabited (k : AlterKind) :
    WfAlter { emptyAlter k with statColsN := 1, ttl := true, ttlElementsN := 1, ttlExpr := true } = true := by
  cases k <;> rfl

/-- `ALTER TABLE t UPDATE a = 1 IN PARTITION 1 WHERE b` -/
example :
    WfAlter { emptyAlter .update with partition := true, partitionLit := true, where_ := true, assignmentsN := 1 } = true ∧
    countAlter { emptyAlter .update with partition := true, partitionLit := true, where_ := true, assignmentsN := 1 } = 3 ∧
    emitAlter { emptyAlter .update with partition := true, partitionLit := true, where_ := true, assignmentsN := 1 }
      = ["Partition", "*", "ExpressionList"] := by decide

/-- `ALTER TABLE t ADD INDEX i (a, b) TYPE minmax AFTER j` -/
example :
    emitAlter { emptyAlter .addIndex with indexDef := true, indexDefExpr := true, indexDefType := true, index := true, afterIndex := true } = ["Index", "Identifier"] := by decide

/-- `id Nullable(String) DEFAULT NULL CODEC(LZ4) TTL ts + INTERVAL 1 DAY COMMENT 'c'` -/
example : countCol ⟨true, 0, false, true, true, true, 0, true⟩ = 5 ∧
    emitCol ⟨true, 0, false, true, true, true, 0, true⟩ = ["DataType", "*", "*", "Function", "Literal"] := by decide

/-- `e UInt8 EPHEMERAL` -/
example : emitCol ⟨true, 0, true, false, false, false, 0, false⟩ = ["DataType", "Function"] := by decide

/-- `INDEX i id TYPE minmax GRANULARITY 1` -/
example : countIdx ⟨true, true, true⟩ = 2 ∧ emitIdx ⟨true, true, true⟩ = ["Identifier", "Function"] := by decide

/-- `CREATE TABLE t (a UInt8) ENGINE = MergeTree ORDER BY a COMMENT 'x' SETTINGS s = 1` -/
example :
    WfCreate { emptyCreate with table := true, columnsN := 1, engine := true, orderByN := 1, ob0Ident := true, comment := true, settingsN := 1 } = true ∧
    emitCreate { emptyCreate with table := true, columnsN := 1, engine := true, orderByN := 1, ob0Ident := true, comment := true, settingsN := 1 } = ["Identifier", "Columns", "Storage", "Literal", "Set"] ∧
    countCreate { emptyCreate with table := true, columnsN := 1, engine := true, orderByN := 1, ob0Ident := true, comment := true, settingsN := 1 } = 5 := by decide

end DC.Props.C04DDL
