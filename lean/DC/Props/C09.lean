import DC.Proofs.LitInt
import DC.Proofs.LitHex
import DC.Proofs.LitStr
import DC.Proofs.LitFloat

/-!
# C09 — literals

"An unsigned decimal literal up to 2^64-1 prints as UInt64_n, a negated one down to -2^63 as Int64_-n (with -0 as UInt64_0),
anything larger and every decimal/exponent literal as Float64_ followed by the shortest round-tripping digits in ClickHouse's
fixed/exponent style, and hex and binary integer literals by value. A quoted string literal denotes exactly the byte string
obtained by ClickHouse's escape rules and is printed with ClickHouse's two-level escaping, so that for every byte string v,
quoting v and explaining it yields the canonical rendering of v."

Statements are over the models `DC.Model.Number`, `DC.Model.FloatFmt`, `DC.Model.StrLit` (correspondence with the Go code:
harness `p_c09.go`) and the specification `DC.Spec.LitSpec` (calibrated on the ClickHouse goldens by the same harness).

Spellings covered by the integer theorems: the NUMBER token text is any non-empty string of ASCII decimal digits, leading zeros
included (`IsDigits ds`, text `digitsText ds`, value `digitsVal ds`). Digit separators (`1_000`) never reach parseNumber: the lexer
drops every `_` that stands between digits of a decimal number before it builds the token (lexer model, C12/C13).

Trusted: decimal → float64 conversion and shortest-digit generation (strconv); a float64 enters the model as its shortest
decimal `ShortDec`, `conv` is the one belonging to the token.
-/
namespace DC.Props.C09
open DC DC.Model.Number DC.Model.FloatFmt DC.Model.StrLit DC.Spec.LitSpec
open DC.Proofs.LitInt DC.Proofs.LitHex DC.Proofs.LitStr DC.Proofs.LitFloat

/-! ## integers -/

/-- every decimal spelling (any leading zeros) of n < 2^64 prints as `UInt64_n`. -/
theorem uint_literal (ds : List Nat) (h : IsDigits ds) (conv : Option ShortDec) (hlt : digitsVal ds < 2 ^ 64) :
    explainNum (digitsText ds) false conv = .lit (strBytes (canonUInt (digitsVal ds))) :=
  explainNum_uint ds h conv hlt

/-- `-n` for 0 < n ≤ 2^63 prints as `Int64_-n`. -/
theorem neg_literal (ds : List Nat) (h : IsDigits ds) (conv : Option ShortDec) (hpos : 0 < digitsVal ds)
    (hle : digitsVal ds ≤ 2 ^ 63) :
    explainNum (digitsText ds) true conv = .lit (strBytes (canonNeg (digitsVal ds))) :=
  explainNum_neg ds h conv hpos hle

/-- `-0` (any spelling of zero) prints as `UInt64_0`. -/
theorem neg_zero (ds : List Nat) (h : IsDigits ds) (conv : Option ShortDec) (hz : digitsVal ds = 0) :
    explainNum (digitsText ds) true conv = .lit (strBytes (canonUInt 0)) :=
  explainNum_neg_zero ds h conv hz

/-- n ≥ 2^64: the literal is a Float64 (value: the trusted conversion `d` of the text) and prints as such. -/
theorem big_literal (ds : List Nat) (h : IsDigits ds) (d : ShortDec) (hge : 2 ^ 64 ≤ digitsVal ds) :
    parseNumber (digitsText ds) (some d) = .float d ∧
    explainNum (digitsText ds) false (some d) = .lit (strBytes "Float64_" ++ asciiBytes (formatFloat d)) :=
  ⟨parseNumber_big ds h d hge, explainNum_big ds h d hge⟩

/-- `-n` for n > 2^63 prints as the negated Float64 (top level). -/
theorem neg_big_literal (ds : List Nat) (h : IsDigits ds) (d : ShortDec) (hgt : 2 ^ 63 < digitsVal ds) :
    explainNum (digitsText ds) true (some d) = .lit (strBytes "Float64_" ++ asciiBytes (formatFloat d.negate)) :=
  explainNum_neg_big ds h d hgt

/-- `0x…`/`0X…` (base 16) and `0b…`/`0B…` (base 2) integer literals without separators print by value. -/
theorem hex_bin_by_value (x : UInt8) (base : Nat) (hx : IsBasePrefix x base) (body : Bytes) (n : Nat)
    (h : baseVal base body = some n) (hlt : n < 2 ^ 64) (conv : Option ShortDec) :
    explainNum (48 :: x :: body) false conv = .lit (strBytes (canonUInt n)) := by
  simp only [explainNum, parseNumber_base x base hx body n h hlt conv, Bool.false_eq_true, if_false]
  by_cases h63 : n < 2 ^ 63 <;> simp [h63, formatLiteral, sb, canonUInt]

/-- negated hex / binary literals down to -2^63. -/
theorem neg_hex_bin_by_value (x : UInt8) (base : Nat) (hx : IsBasePrefix x base) (body : Bytes) (n : Nat)
    (h : baseVal base body = some n) (hpos : 0 < n) (hle : n ≤ 2 ^ 63) (conv : Option ShortDec) :
    explainNum (48 :: x :: body) true conv = .lit (strBytes (canonNeg n)) := by
  have hlt : n < 2 ^ 64 := by omega
  simp only [explainNum, parseNumber_base x base hx body n h hlt conv, if_true]
  by_cases h63 : n < 2 ^ 63
  · simp only [h63, if_true, explainNeg, negInt64Text_pos _ hpos]
  · have hne : ¬ n = 0 := by omega
    have hle' : n ≤ 9223372036854775808 := by omega
    simp only [h63, if_false, explainNeg, hne, hle', if_true, sb, canonNeg]

/-! ## integers inside array and tuple literals -/

/-- `[e₁, …, e_k]` (k ≥ 1) of integer elements of ANY magnitude, plain or negated, prints as `Array_[…]` of their canonical
renderings (`IntElem.canon`: `UInt64_n` below 2^64, `Int64_-n` down to -2^63, `-0` as `UInt64_0`, anything larger the Float64
of the trusted conversion of the element's text). -/
theorem array_literal (es : List IntElem) (hne : es ≠ []) (h : ∀ e ∈ es, IsDigits e.ds) :
    explainArray (es.map IntElem.toElem) =
      .lit (strBytes "Array_[" ++ joinComma (es.map IntElem.canon) ++ strBytes "]") :=
  explainArray_ints es hne h

/-- `(e₁, …, e_k)` (k ≥ 2) likewise prints as `Tuple_(…)`. -/
theorem tuple_literal (es : List IntElem) (hlen : 2 ≤ es.length) (h : ∀ e ∈ es, IsDigits e.ds) :
    explainTuple (es.map IntElem.toElem) =
      .lit (strBytes "Tuple_(" ++ joinComma (es.map IntElem.canon) ++ strBytes ")") :=
  explainTuple_ints es hlen h

/- Replay of the repaired defect `literal@nested` (fixed by "fix: print a negated integer below -2^63 inside an array or tuple
   literal as Float64"). Before the repair the two `case uint64` arms were `preRepairArrayNegUint64` / `preRepairTupleNegUint64`
   (DC/Model/Number.lean), and the two statements above were false beyond 2^63: `SELECT [-9223372036854775809]` printed
   `Array_[Int64_-9223372036854775809]` and `SELECT (1, -9223372036854775809)` printed `Tuple_(UInt64_1, Int64_9223372036854775807)`.
   The first two examples replay that on the pre-repair variant; the next two show the repaired model on the same inputs. -/

def nineDigits : List Nat := [9, 2, 2, 3, 3, 7, 2, 0, 3, 6, 8, 5, 4, 7, 7, 5, 8, 0, 9]   -- 2^63 + 1
/-- shortest decimal of float64(2^63 + 1) = 9223372036854775808. -/
def nineConv : ShortDec := ⟨false, "9223372036854775808".toList, 18⟩

example : parseNumber (digitsText nineDigits) none = .uint64 9223372036854775809 := by decide +kernel
example : preRepairArrayNegUint64 9223372036854775809 = strBytes "Int64_-9223372036854775809" := by decide +kernel
example : preRepairTupleNegUint64 9223372036854775809 = strBytes "Int64_9223372036854775807" := by decide +kernel

example : explainArray [(⟨nineDigits, true, nineConv⟩ : IntElem).toElem] =
    .lit (strBytes "Array_[Float64_-9223372036854775808]") := by decide +kernel
example : explainTuple [(⟨[1], false, ⟨false, ['1'], 0⟩⟩ : IntElem).toElem, (⟨nineDigits, true, nineConv⟩ : IntElem).toElem] =
    .lit (strBytes "Tuple_(UInt64_1, Float64_-9223372036854775808)") := by decide +kernel

/-! ## floats -/

/-- `FormatFloat`'s choice of notation and its three string edits produce ClickHouse's layout — "strip `+`, strip one leading
exponent zero" — for every shortest decimal (non-empty ASCII digits) whose exponent has at most three digits (float64: |exp10| ≤ 324). -/
theorem float_notation (d : ShortDec) (hw : WF d) (he : d.exp10.natAbs < 1000) :
    formatFloat d = clickhouseFloatStyle d.neg d.digits d.exp10 :=
  formatFloat_eq d hw he

/-- the token is not `0x…`, `0b…`, `0o…` (either case). -/
def NoBasePrefix (tok : Bytes) : Prop :=
  hasPrefix [48, 120] tok = false ∧ hasPrefix [48, 88] tok = false ∧ hasPrefix [48, 98] tok = false ∧
  hasPrefix [48, 66] tok = false ∧ hasPrefix [48, 111] tok = false ∧ hasPrefix [48, 79] tok = false

/-- every decimal / exponent literal (token with a `.`, `e` or `E` and no base prefix), optionally negated, prints as `Float64_`
followed by the shortest digits `d` of its value (trusted conversion) in ClickHouse's layout. -/
theorem float_literal (tok : Bytes) (neg : Bool) (d : ShortDec) (hw : WF d) (he : d.exp10.natAbs < 1000) (hp : NoBasePrefix tok)
    (hc : tok.contains 46 = true ∨ tok.contains 101 = true ∨ tok.contains 69 = true) :
    explainNum tok neg (some d) =
      .lit (strBytes "Float64_" ++ asciiBytes (clickhouseFloatStyle (d.neg != neg) d.digits d.exp10)) := by
  obtain ⟨p1, p2, p3, p4, p5, p6⟩ := hp
  have hcc : (tok.contains 46 || tok.contains 101 || tok.contains 69) = true := by
    rcases hc with h | h | h <;> rw [h] <;> simp
  have hpn : parseNumber tok (some d) = .float d := by
    unfold parseNumber
    simp only [p1, p2, p3, p4, p5, p6, Bool.or_self, Bool.not_false, Bool.and_self, Bool.true_and, hcc, Bool.false_and,
      Bool.or_false, if_true]
  cases neg
  · simp only [explainNum, hpn, Bool.false_eq_true, if_false, formatLiteral, sb, float_notation d hw he, Bool.bne_false]
  · have hw' : WF d.negate := hw
    have := float_notation d.negate hw' he
    simp only [ShortDec.negate] at this
    simp only [explainNum, hpn, if_true, explainNeg, sb, ShortDec.negate, this, Bool.bne_true]

/-- the three `strings.Replace(…, 1)` edits on the exponent part `e±dd[d]` of `%e`: exactly "drop `+`, drop one leading zero". -/
theorem float_edits (n : Nat) (h : n < 1000) :
    edits (goTail true n) = chTail true n ∧ edits (goTail false n) = chTail false n :=
  edits_tail n h

/-! ## strings -/

/-- for every byte string `v` and every continuation `rest` that does not start with a quote: the lexer reads the spelling
`quote v` followed by `'` as exactly `v` and stops right after the closing quote. -/
theorem string_roundtrip (v rest : Bytes) (hrest : rest.head? ≠ some 39) :
    readString (quote v ++ 39 :: rest) = (v, rest) :=
  readString_quote v rest hrest

theorem string_roundtrip' (v : Bytes) : decodeString (quote v) = v := decodeString_quote v

/-- the Literal payload of a string value is ClickHouse's two-level rendering — for every byte string. -/
theorem explain_string (v : Bytes) (b : Bool) : formatLiteral (.str v b) = canonStr v :=
  formatStringLiteral_eq_canonStr v

/-- quoting `v` and explaining it yields the canonical rendering of `v`, for every byte string `v`. -/
theorem quote_explain (v : Bytes) : formatLiteral (.str (decodeString (quote v)) false) = canonStr v := by
  rw [string_roundtrip', explain_string]

/-- readString's single-character escapes are ClickHouse's, on every character whose behaviour the goldens establish
(all but `` \` `` `\/` `\=` `\N`); `\x` is covered by `string_roundtrip`. -/
theorem decode_escape_table (c : Nat) (h : c ∉ unestablished) : escapeOf c = decodeEscape c := escape_table c h

/-- escapeStringLiteral's switch is two applications of ClickHouse's escaping, byte by byte. -/
theorem explain_escape_table (b : UInt8) : escapeByte b = chEscape (chEscapeByte b) := (escapeByte_eq b).symm

/-! ## non-vacuity -/

example : explainNum (digitsText [0, 0, 4, 2]) false none = .lit (strBytes "UInt64_42") :=
  uint_literal [0, 0, 4, 2] ⟨by simp, by decide⟩ none (by decide)
example : explainNum (digitsText [0, 7]) true none = .lit (strBytes "Int64_-7") :=
  neg_literal [0, 7] ⟨by simp, by decide⟩ none (by decide) (by decide)
example : explainNum (digitsText [0, 0]) true none = .lit (strBytes "UInt64_0") :=
  neg_zero [0, 0] ⟨by simp, by decide⟩ none (by decide)
example : explainNum [48, 120, 70, 102] false none = .lit (strBytes "UInt64_255") :=
  hex_bin_by_value 120 16 (Or.inl ⟨rfl, rfl⟩) [70, 102] 255 (by decide) (by decide) none
example : explainNum [48, 98, 49, 48, 49] true none = .lit (strBytes "Int64_-5") :=
  neg_hex_bin_by_value 98 2 (Or.inr (Or.inr (Or.inl ⟨rfl, rfl⟩))) [49, 48, 49] 5 (by decide) (by decide) (by decide) none
example : explainArray (([⟨[1], false, ⟨false, ['1'], 0⟩⟩, ⟨[2], true, ⟨false, ['2'], 0⟩⟩] : List IntElem).map IntElem.toElem) =
    .lit (strBytes "Array_[UInt64_1, Int64_-2]") :=
  (array_literal [⟨[1], false, ⟨false, ['1'], 0⟩⟩, ⟨[2], true, ⟨false, ['2'], 0⟩⟩] (by simp)
    (by intro e he; simp at he; rcases he with rfl | rfl <;> exact ⟨by simp, by decide⟩)).trans (by decide +kernel)
example : formatFloat ⟨false, ['1', '5'], 300⟩ = "1.5e300".toList :=
  (float_notation ⟨false, ['1', '5'], 300⟩ ⟨by simp, by decide⟩ (by decide)).trans (by decide)
example : explainNum [49, 101, 45, 55] true (some ⟨false, ['1'], -7⟩) = .lit (strBytes "Float64_-1e-7") :=
  (float_literal [49, 101, 45, 55] true ⟨false, ['1'], -7⟩ ⟨by simp, by decide⟩ (by decide)
    ⟨by decide, by decide, by decide, by decide, by decide, by decide⟩ (by decide)).trans (by decide +kernel)
example : formatFloat ⟨true, ['1'], -7⟩ = "-1e-7".toList := by decide
example : formatFloat ⟨false, ['1'], -6⟩ = "0.000001".toList := by decide
example : readString (quote [97, 39, 0xFF, 10] ++ 39 :: [32]) = ([97, 39, 0xFF, 10], [32]) :=
  string_roundtrip _ _ (by decide)
example : quote [97, 39, 0xFF, 10] = strBytes "a\\'\\xff\\x0a" := by decide +kernel
example : canonStr [97, 39, 10] = strBytes "\\'a\\\\\\'\\\\n\\'" := by decide +kernel

end DC.Props.C09

