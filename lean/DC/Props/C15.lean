import DC.Proofs.BufioErr
import DC.Proofs.BufioEval

/-!
# C15 — a failing reader is reported (the `bufio` + lexer-wrapper part)

"If the io.Reader passed to Parse returns an error other than io.EOF at any point of the stream, Parse returns a
non-nil error that wraps or equals that error; it never returns the statements parsed from the bytes read so far
together with a nil error, as if the input had legitimately ended there."

After the two fix commits the lexer records, in `Lexer.err`, the first error other than `io.EOF` (`recordErr`,
lexer.go:66) that `ReadRune` (lexer.go:47-49) returns, or that a `Peek(n)` with `n ≤ reader.Size()` returns
(lexer.go:73-82; a larger `Peek` always answers `bufio.ErrBufferFull` and is not recorded), and `ParseStatements`
returns it wrapped with `%w` when it is non-nil (parser.go:186). What remains to be shown is that an
error returned by the *underlying* reader really arrives at one of those two calls: `bufio.Reader` keeps errors in a
sticky slot, hands them out later, and clears the slot when it does.

These theorems hold for **every** script (any errors, anywhere, with or without data, transient or not, any chunking)
and every operation sequence; there is no hypothesis on the script.

Condition `c.eof = true` of `reader_error_reported` is DESIGN §7's "observed": the lexer read on until `ReadRune`
failed, which is what `readChar` does unless a NUL byte makes `NextToken` answer EOF earlier (`eof_hypothesis_needed`).
-/
namespace DC.Props.C15
open DC DC.Bufio

/-- **No error is lost, duplicated or reordered.** After any run, the errors returned by the operations so far
(leaving aside `bufio.ErrBufferFull`, which `Peek` makes up itself), followed by the one still pending in the sticky
slot, are exactly the errors `fill` received from the underlying reader (plus its own `io.ErrNoProgress`), in order;
and the `other` errors received are exactly those of the script events consumed so far. -/
theorem err_surfaces (script : Script) (size : Nat) (ops : List Op) :
    let r := run ops (newReaderSize script size)
    r.2.log.filter notBufferFull = (resErrs r.1).filter notBufferFull ++ r.2.err.toList.filter notBufferFull ∧
    otherIds r.2.log ++ otherIds (scriptErrs r.2.rd) = otherIds (scriptErrs script) := by
  intro r
  obtain ⟨d, h, hd⟩ := run_inv script ops [] _ (inv0_init script size)
  refine ⟨?_, h.others⟩
  show (run ops (newReaderSize script size)).2.log.filter notBufferFull = _
  rw [← h.log, List.filter_append, hd]
  simp [r]

/-- **…and it is returned before any later byte is delivered**: while an error is pending no `Read` is issued, so
everything the operations return until the error comes out was buffered before (or together with) the error. -/
theorem no_read_while_error_pending (op : Op) (b : BR) (h : b.err ≠ none) : (step op b).2.rd = b.rd :=
  step_pending_noread op b h

/-- **No error is lost by large peeks**: `Peek(n)` with `n > Size()` (`tryReadDollarTag`'s `Peek(8192)` on the 4096-byte
buffer) answers `bufio.ErrBufferFull` of its own — that value says nothing about the reader, which is why `peek`
(lexer.go:78) does not record it — and a reader error found or received meanwhile stays in the slot. -/
theorem no_error_lost_by_large_peeks (n : Nat) (b : BR) (hn : b.cap < n) :
    (peek n b).1.2 = some .bufferFull ∧ (b.err ≠ none → (peek n b).2.err = b.err) :=
  ⟨(large_peek_keeps_error n b hn).1, (large_peek_keeps_error n b hn).2.2⟩

/-- conversely a `Peek(n)` with `n ≤ Size()` never makes up an error: what it returns was handed out of the slot, so
recording it (`bufio.ErrBufferFull` included) records a reader error -/
theorem small_peek_error_is_readers (script : Script) (d : List Err) (n : Nat) (b : BR) (h : Inv0 script d b)
    (hn : n ≤ b.cap) (e : Err) (he : (peek n b).1.2 = some e) : Inv0 script (d ++ [e]) (peek n b).2 := by
  rcases peek_inv script d n b h with ⟨_, h2 | ⟨_, h3⟩⟩ | ⟨e', h1, h2, _, _⟩
  · rw [h2] at he; cases he
  · omega
  · rw [h2] at he; cases he; exact h1

/-- an operation that runs into a pending error returns it, or leaves it pending: it is never dropped -/
theorem pending_error_kept_or_returned (script : Script) (d : List Err) (op : Op) (b : BR) (h : Inv0 script d b)
    (e : Err) (he : b.err = some e) :
    (step op b).2.err = some e ∨ (step op b).1.err = some e := by
  have hlog : d ++ [e] = b.log := by have := h.log; simpa [he] using this
  rcases step_inv script d op b h with ⟨h1, _⟩ | ⟨e', h1, h2, h3, _⟩
  · left
    have h1l := h1.log
    have hnr : (step op b).2.log = b.log := by
      cases op with
      | readRune =>
        simp only [step, readRune, rrLoop_pending b (by simp [he])]
        split <;> simp [readErr]
      | peek n =>
        simp only [step, peek, peekLoop_pending n b (by simp [he])]
        split
        · rfl
        · split <;> simp [readErr]
    rw [hnr, ← hlog] at h1l
    rcases hx : (step op b).2.err with _ | x
    · rw [hx] at h1l; simp at h1l
    · rw [hx] at h1l
      have := List.append_cancel_left h1l
      simp at this
      rw [this]
  · right
    have h1l := h1.log
    have hnr : (step op b).2.log = b.log := by
      cases op with
      | readRune =>
        simp only [step, readRune, rrLoop_pending b (by simp [he])]
        split <;> simp [readErr]
      | peek n =>
        simp only [step, peek, peekLoop_pending n b (by simp [he])]
        split
        · rfl
        · split <;> simp [readErr]
    rw [hnr, ← hlog, h3] at h1l
    simp at h1l
    rw [h2, h1l]

/-- **C15 on the repaired code.** For every script and every operation sequence issued under the lexer's rules, if
the lexer read on until `ReadRune` failed (`eof`), then `Lexer.err` is the first error other than `io.EOF` that the
underlying reader returned — whatever its value, `bufio.ErrBufferFull` included — (or `io.ErrNoProgress` made by
`fill`, if that came first); it is `none` only if there was no such error. -/
theorem reader_error_reported (script : Script) (ops : List Op) :
    let c := Client.run ops (Client.new script)
    c.eof = true →
      c.err = firstRep c.b.log ∧
      otherIds c.b.log ++ otherIds (scriptErrs c.b.rd) = otherIds (scriptErrs script) := by
  intro c heof
  have inv := client_run_inv script ops _ (client_init_inv script)
  obtain ⟨d, hd, hrec⟩ := inv.inv
  have hnone := inv.eof heof
  have hlog : d = c.b.log := by have := hd.log; rw [hnone] at this; simpa using this
  exact ⟨by rw [← hlog]; exact hrec, hd.others⟩

/-- in particular: a nil `Lexer.err` means no event carrying an `other` error was consumed at all -/
theorem nil_error_means_no_reader_error (script : Script) (ops : List Op) :
    let c := Client.run ops (Client.new script)
    c.eof = true → c.err = none → otherIds (scriptErrs c.b.rd) = otherIds (scriptErrs script) := by
  intro c heof herr
  obtain ⟨h1, h2⟩ := reader_error_reported script ops heof
  have hf : c.b.log.filter reportable = [] := by
    have : firstRep c.b.log = none := by rw [← h1]; exact herr
    simpa [firstRep, List.head?_eq_none_iff] using this
  have : otherIds c.b.log = [] := by
    simp only [otherIds, List.filterMap_eq_nil_iff]
    intro e he
    rw [List.filter_eq_nil_iff] at hf
    have := hf e he
    cases e <;> simp_all [reportable]
  rw [this] at h2
  simpa using h2

/-- and the recorded error is one the reader really returned (or `io.ErrNoProgress`), never invented -/
theorem recorded_error_is_genuine (script : Script) (ops : List Op) (e : Err) :
    let c := Client.run ops (Client.new script)
    c.eof = true → c.err = some e → e ∈ c.b.log ∧ reportable e = true := by
  intro c heof herr
  obtain ⟨h1, _⟩ := reader_error_reported script ops heof
  have : firstRep c.b.log = some e := by rw [← h1]; exact herr
  have hf : List.find? reportable c.b.log = some e := by simpa [firstRep] using this
  exact ⟨List.mem_of_find?_eq_some hf, List.find?_some hf⟩

/-! ### the repaired defect, replayed on the model of the old code -/

/-- "SELECT 1" -/
def select1 : Bytes := [0x53, 0x45, 0x4c, 0x45, 0x43, 0x54, 0x20, 0x31]

/-- the reader delivers `SELECT 1` and then fails with a non-EOF error -/
def failAfterSelect1 : Script := [⟨select1, none⟩, ⟨[], some (.other 1)⟩]

/-- nine `readChar`s: `New` reads `S`, eight more reach the failing `Read` -/
def nineReadRunes : List Op := List.replicate 9 .readRune

/-- **Witness of the defect fixed by the `recordErr` commit** (replay: `/verif/harness/p_c15.go`, input `SELECT 1`,
failure offset 8, kind plain-error, which on the old code returned one statement and a nil error). On the old code
(`Client.runOld`: `readChar` folds every error into `eof`, nothing is recorded) the reader's error `other 1` was received
by `bufio` (it is in `log`), was returned by the ninth `ReadRune`, the lexer reports a normal EOF, and no error is kept. -/
theorem c15_old_code_counterexample :
    let c := Client.runOld nineReadRunes (Client.new failAfterSelect1)
    c.eof = true ∧ c.err = none ∧ Err.other 1 ∈ c.b.log ∧ c.b.rd = [] := by
  rw [Client.runOld_eqE]
  decide

/-- the old code loses the error for *every* script and client: it has nowhere to keep it -/
theorem c15_old_code_never_reports (script : Script) (ops : List Op) :
    (Client.runOld ops (Client.new script)).err = none :=
  client_runOld_err ops _

/-- a timeout-style reader: `SELECT ` , then one error, then the rest `1` and EOF -/
def timeoutOnce : Script := [⟨select1.take 7, none⟩, ⟨[], some (.other 7)⟩, ⟨[0x31], some .eof⟩]

/-- `S E L E C T ␠` by `readChar`, then `peekChar` (`Peek(1)`, which receives and thereby clears the error), then the
lexer reads on: `1`, EOF. -/
def timeoutOps : List Op := List.replicate 7 .readRune ++ [.peek 1, .readRune, .readRune]

/-- second witness for the old code: `Peek` swallowed the one-off error (its result was ignored), the stream continued,
and everything looked like a clean parse of `SELECT 1`. -/
theorem c15_old_code_timeout_counterexample :
    let c := Client.runOld timeoutOps (Client.new timeoutOnce)
    c.eof = true ∧ c.err = none ∧ c.b.log = [.other 7, .eof] ∧ c.b.rd = [] := by
  rw [Client.runOld_eqE]
  decide

/-- non-vacuity of `reader_error_reported`: on both witnesses the repaired code ends with `eof` and has the error -/
example :
    (Client.run nineReadRunes (Client.new failAfterSelect1)).eof = true ∧
    (Client.run nineReadRunes (Client.new failAfterSelect1)).err = some (.other 1) ∧
    (Client.run timeoutOps (Client.new timeoutOnce)).eof = true ∧
    (Client.run timeoutOps (Client.new timeoutOnce)).err = some (.other 7) := by
  rw [Client.run_eqE, Client.run_eqE]
  decide

def errorWithData : Script := [⟨[0x53], none⟩, ⟨[0x45], none⟩, ⟨[0x4c, 0x31], some (.other 3)⟩]

/-- error delivered together with the last data, one byte per `Read` before: still reported -/
example :
    let c := Client.run (List.replicate 5 .readRune) (Client.new errorWithData)
    c.eof = true ∧ c.err = some (.other 3) := by
  rw [Client.run_eqE]
  decide

/-! ### the second repaired defect, and what the theorem does not give on purpose -/

/-- the reader delivers `SELECT 1` and then fails with the error value `bufio.ErrBufferFull` -/
def failWithBufferFull : Script := [⟨select1, none⟩, ⟨[], some .bufferFull⟩]

/-- **Witness of the defect fixed by /repo commit efe7a9c82** (found by `/verif/harness/p_c15.go`, key
`reader-error-lost@reader-returns-bufio.ErrBufferFull`: input `SELECT 1`, the reader fails with the value
`bufio.ErrBufferFull`; `Parse` returned the statement and a nil error). On the intermediate code (`Client.runMid`:
`recordErr` filtered `bufio.ErrBufferFull`, meant for `Peek`'s own short-read signal, also on the `ReadRune` path, which
never makes that value itself) a reader whose error *is* `bufio.ErrBufferFull` was treated as a clean EOF. -/
theorem c15_bufferfull_alias_counterexample :
    let c := Client.runMid nineReadRunes (Client.new failWithBufferFull)
    c.eof = true ∧ c.err = none ∧ c.b.log = [.bufferFull] ∧ c.b.rd = [] := by
  rw [Client.runMid_eqE]
  decide

/-- the repaired code reports it, and is not confused by `tryReadDollarTag`'s oversized look-ahead: `Peek(8192)`
answers `ErrBufferFull` (not recorded), the reader's error stays pending and the next `readChar` records it -/
example :
    (Client.run nineReadRunes (Client.new failWithBufferFull)).err = some .bufferFull ∧
    (Client.run [.peek 8192] (Client.new failAfterSelect1)).err = none ∧
    (Client.run [.peek 8192] (Client.new failAfterSelect1)).b.err = some (.other 1) ∧
    (Client.run ([.peek 8192] ++ nineReadRunes) (Client.new failAfterSelect1)).err = some (.other 1) ∧
    (Client.run ([.peek 8192] ++ nineReadRunes) (Client.new failAfterSelect1)).eof = true := by
  rw [Client.run_eqE, Client.run_eqE, Client.run_eqE]
  decide

def nulWithError : Script := [⟨[0x61, 0x00], some (.other 1)⟩]

/-- `c.eof = true` cannot be dropped (DESIGN §7, NUL): if the lexer stops calling `ReadRune` before it fails — a NUL
rune makes `NextToken` return EOF — an error that came *with* the data stays in `bufio`'s slot and is never seen.
Here: `a`, NUL delivered together with the error; two `readChar`s. -/
example :
    let c := Client.run [.readRune, .readRune] (Client.new nulWithError)
    c.eof = false ∧ c.err = none ∧ c.b.err = some (.other 1) := by
  rw [Client.run_eqE]
  decide

end DC.Props.C15
