import DC.Gen.NameSites

/-!
# C17, naming positions — the accept conditions of the name-taking parser functions

Property text (naming half): "every keyword, in any letter case, is accepted as a column name after a dot, as a column alias
after AS and as a table alias after AS, and appears with the user's spelling in the EXPLAIN output."

`DC.Gen.NameSites` is regenerated from the Go source on every check: for `parseDotAccess`, `parseIdentifierOrFunction` (dot loop),
`parseAlias`, `parseTableExpression` and `parseIdentifierName` it lists every branch condition that mentions `IsKeyword()`.
The obligation: the conditions are exactly the reviewed ones — the generic `currentIs(IDENT) || current.Token.IsKeyword()` (accepts
*every* keyword, present and future, because `IsKeyword` is the interval test proved in `DC.Props.C17.isKeyword_iff`), with the single
deliberate restriction on the IMPLICIT table alias (no AS): not a clause keyword, not FINAL, not SAMPLE. The explicit `AS` branch of
`parseTableExpression` carries no such restriction. A condition that starts excluding a keyword at one of these positions (or a new
special case) makes this theorem fail to re-check; the exhaustive probe of p_c17.go then looks for the keyword that is now rejected.
-/
namespace DC.Props.C17Sites
open DC.Gen.NameSites

def generic : String := "p.currentIs(token.IDENT) || p.current.Token.IsKeyword()"

set_option maxRecDepth 100000 in
theorem name_positions_accept_every_keyword :
    nameConds =
      [("parseIdentifierOrFunction", generic),
       ("parseIdentifierOrFunction", generic),
       ("parseIdentifierOrFunction", "p.currentIs(token.IDENT) || p.current.Token.IsKeyword() || p.currentIs(token.STRING)"),
       ("parseIdentifierOrFunction", generic),
       ("parseDotAccess", generic),
       ("parseDotAccess", generic),
       ("parseAlias", generic),
       ("parseTableExpression", "p.currentIs(token.IDENT) || p.current.Token.IsKeyword() || p.currentIs(token.NUMBER)"),
       ("parseTableExpression", generic),
       ("parseTableExpression", "(p.currentIs(token.IDENT) || p.current.Token.IsKeyword()) && !p.isKeywordForClause() && !p.currentIs(token.FINAL) && !p.currentIs(token.SAMPLE)"),
       ("parseIdentifierName", generic)] := by decide +kernel

/-- Every place in the parser where `AS` has just been consumed and the next token is tested for being a NAME (column alias of
CASE / CAST / SUBSTRING / TRIM …, the replacement name of `* REPLACE (expr AS name)` and `COLUMNS(…) REPLACE`, the name of a
`WITH expr AS name` element) uses the generic test, i.e. accepts every keyword. Before the repair of
`SELECT CASE WHEN 1 THEN 2 END AS format` (alias silently dropped) three of these sites tested `token.IDENT` alone. -/
theorem names_after_as_accept_every_keyword : afterAsConds.all (fun c => c.2 == generic) = true := by decide +kernel

/-- non-vacuity: the inventory is not empty and contains the repaired sites -/
example : afterAsConds.length ≥ 10 ∧ afterAsConds.any (fun c => c.1 == "parseCase") = true
    ∧ afterAsConds.any (fun c => c.1 == "parseAsteriskReplace") = true := by decide +kernel

end DC.Props.C17Sites
