import DC.Proofs.LexerPosSpec

/-!
# C13 — positions are consistent

> Token positions are strictly increasing, lie inside the input, and their line and column are exactly the
> 1-based line and rune column of the byte they designate …

Convention (DESIGN §7): a token's `off` is the number of bytes consumed up to and including the token's
first rune, i.e. it designates byte number `off` (1-based) = the LAST byte of that rune. For the prefixed
literals `x'..'`, `b'..'` the position is that of the quote (after the prefix letter), for `$tag$..` it is
the position of the rune reached after the opening tag has been consumed (the property allows that).
EOF is apart: it repeats the position of the last consumed rune and is `{0,1,0}` only for the empty input.

Specification, independent of the lexer: `posOf b k` walks the runes of `b` with Go's `utf8.DecodeRune` and
answers (line, column) of the rune containing byte `k`; `posOf_spec` restates it declaratively
(line = 1 + number of `'\n'` runes before that rune, column = 1 + number of runes after the last of them).

The invariant is `PosInv b s` (`DC/Proofs/LexerPos.lean`): `off` bytes of `b` are consumed, `rest` is the
remainder, `(line, col) = posOf b off`, and the specification scan for any later byte passes through `s`.
It holds for `New` (`posInv_new`), is preserved by `readChar` (`posInv_readChar`) and therefore by
everything the lexer does, because the lexer state changes by `readChar` only
(`DC.Lexer.Steps`, `posInv_nextToken`).

The parser-side half of C13 (error messages name the token at that position) is not in this file.
-/

namespace DC.Props.C13

open DC DC.Lexer DC.Gen.Tokens

/-- `posOf`, declaratively. -/
theorem posOf_spec (b : Bytes) (k : Nat) :
    posOf b k = (1 + (runesBefore b k).count 10,
                 1 + ((runesBefore b k).reverse.takeWhile (· ≠ 10)).length) :=
  posOf_eq b k

theorem posInv_new (b : Bytes) : PosInv b (new b) := PosInv.new b

theorem posInv_readChar {b : Bytes} {s : LState} (h : PosInv b s) : PosInv b (readChar s) := h.readChar

/-- every function built from `readChar` only preserves the invariant … -/
theorem posInv_steps {b : Bytes} {s s' : LState} (h : PosInv b s) (hs : Steps s s') : PosInv b s' := h.steps hs

/-- … in particular `NextToken`. -/
theorem posInv_nextToken {b : Bytes} {s : LState} (h : PosInv b s) : PosInv b (nextToken s).2 :=
  h.steps (nextToken_steps s)

/-- every token before EOF lies inside the input and carries exactly the line and rune column of the byte
it designates. -/
theorem tok_pos_spec (b : Bytes) (t : Tok) (ht : t ∈ (lex b).dropLast) :
    1 ≤ t.off ∧ t.off ≤ b.length ∧ (t.line, t.col) = posOf b t.off :=
  (lex_trace b).pos_spec (PosInv.new b) (started_new b) t ht

/-- every token other than a string literal is positioned at its first character: the rune the lexer stands
on after `skipWhitespace` (DESIGN: `tok_pos_first_char`; string literals `x'..'`, `b'..'`, `$tag$..` are
positioned after their prefix and are covered by `tok_pos_spec` only). -/
theorem tok_pos_first_char (s : LState) (hk : (nextToken s).1.kind ≠ tEOF) (hs : (nextToken s).1.kind ≠ tSTRING) :
    ((nextToken s).1.off, (nextToken s).1.line, (nextToken s).1.col) =
      ((skipWhitespace s).off, (skipWhitespace s).line, (skipWhitespace s).col) :=
  nextToken_first_char hk hs

/-- offsets are strictly increasing. -/
theorem tok_pos_increasing (b : Bytes) :
    List.Pairwise (fun a c => a.off < c.off) (lex b).dropLast :=
  (lex_trace b).increasing.2.1

/-- the EOF token: `{0,1,0}` for the empty input; otherwise it carries a real position of the input (the
last rune consumed: the last rune of the input, or a NUL, or the last rune of trailing white space), which
is not before any other token's. -/
theorem eof_pos (b : Bytes) :
    ∃ e, (lex b).getLast? = some e ∧ e.kind = tEOF ∧
      (b = [] → (e.off, e.line, e.col) = (0, 1, 0)) ∧
      (b ≠ [] → 1 ≤ e.off ∧ e.off ≤ b.length ∧ (e.line, e.col) = posOf b e.off) ∧
      (∀ t ∈ (lex b).dropLast, t.off ≤ e.off) := by
  have htr := lex_trace b
  have hne := htr.ne_nil
  obtain ⟨e, he⟩ : ∃ e, (lex b).getLast? = some e := by
    cases h : (lex b).getLast? with
    | none => rw [List.getLast?_eq_none_iff] at h; exact absurd h hne
    | some e => exact ⟨e, rfl⟩
  refine ⟨e, he, ?_, ?_, ?_, ?_⟩
  · have := htr.eof_last.1
    rw [he] at this
    simpa using this
  · intro hb
    subst hb
    have h1 : lex [] = [tokAt (new []) tEOF []] := by
      have hk : (nextToken (new [])).1.kind = tEOF := by
        rw [nextToken_eof_iff]
        left
        rw [skipWhitespace]
        simp [new, readChar, isSpace_zero, isClickHouseWhitespace_zero]
      have hs : skipWhitespace (new []) = new [] := by
        rw [skipWhitespace]
        simp [new, readChar, isSpace_zero, isClickHouseWhitespace_zero]
      generalize hl : lex [] = l at htr
      cases htr with
      | eof _ => rw [nextToken_eof_state hk, hs]
      | cons hk' _ => exact absurd hk hk'
    rw [h1] at he
    simp only [List.getLast?_singleton, Option.some.injEq] at he
    subst he
    rfl
  · intro hb
    exact htr.eof_pos (PosInv.new b) (started_new b) hb e he
  · exact (htr.increasing.2.2 e he).2

/-! ## non-vacuity -/

-- `tok_pos_spec` / `tok_pos_increasing` talk about real tokens: a two-line, multi-byte input.
#guard canon (lex (strBytes "é\n 中x + 1")) ==
  "4,c3a9,2,1,1,0;4,e4b8ad78,7,2,2,0;8,2b,10,2,5,0;5,31,12,2,7,0;1,-,12,2,7,0"
#guard ((lex (strBytes "é\n 中x + 1")).dropLast.map (fun t => (t.line, t.col) == posOf (strBytes "é\n 中x + 1") t.off)).all id
-- late position capture: `x'41'` is positioned at the quote (offset 2), `$t$ab$t$` after the opening tag.
#guard canon (lex (strBytes "x'41' $t$ab$t$")) == "6,41,2,1,2,0;6,6162,10,1,10,0;1,-,14,1,14,0"

example : ∃ b : Bytes, (lex b).dropLast ≠ [] := by
  refine ⟨[43], ?_⟩
  intro h
  have htr := lex_trace [43]
  generalize hl : lex [43] = l at htr h
  cases htr with
  | eof hk =>
    have := (nextToken_eof_iff _).1 hk
    revert this
    rw [skipWhitespace]
    simp [new, readChar, DC.Utf8.decodeRune, isSpace, isClickHouseWhitespace,
      DC.Gen.Unicode.isSpaceAscii, Nat.testBit]
  | cons hk ht =>
    obtain ⟨t', l', rfl⟩ := List.exists_cons_of_ne_nil ht.ne_nil
    simp at h

end DC.Props.C13
