import DC.Model.Flags
import DC.Gen.Writes
import DC.Spec.AssumedWrites

/-!
# C10 — Parse and Explain are safe to call concurrently

Property text: "Any number of goroutines may call Parse, Explain, ExplainStatements and json.Marshal at the
same time, on different inputs or on the same parsed statement, and each call returns exactly what it
returns when run alone; there is no data race and no cross-talk between calls."

What is proved here, for every number of calls, every schedule and every step function:
* `noninterference`: if calls can only read the shared state and write their own local state, the local
  state of every call after ANY interleaving is the state it reaches when run alone for the same number
  of steps — so each call returns exactly what it returns alone.
* `no_shared_writes`: the hypothesis, on the code as it is now — the inventory regenerated from the Go
  source by /verif/extract lists no write to a package-level variable outside `init`, no write through a
  pointer to an `ast` struct inside `internal/explain` / `ast`, no `append` whose base may share its backing array
  with a slice stored in the caller's AST (such an append writes into that array), no `go` statement and exactly the three
  package-level variables that are only initialised (`parser.intervalUnits`, `token.tokens`, `token.Keywords`).
  A change that introduces such a write makes this theorem fail to re-check (`lake build`).
* `flag_interleaving_counterexample`: on the model of the pre-repair code (shared flag
  `inCreateQueryContext`) a concrete two-call schedule gives a `SELECT … FORMAT` whose header counts 1 child while
  2 are emitted, whereas alone it counts and emits 2; this is the replay of the repaired defect.
Not modelled: the Go memory model (the race detector run of the harness covers data races on the real code).
-/
namespace DC.Props.C10
open DC.Model.Flags

variable {S L : Type}

theorem run_other (sys : Sys S L) (σ : S) (sched : List Nat) (ls : Nat → L) (i : Nat)
    (h : i ∉ sched) : sys.run σ ls sched i = ls i := by
  induction sched generalizing ls with
  | nil => rfl
  | cons j rest ih =>
    simp only [List.mem_cons, not_or] at h
    simp only [Sys.run]
    rw [ih _ h.2]
    simp [h.1]

/-- Each call's local state after any interleaving equals the state it reaches when run alone
for as many steps as it was scheduled. -/
theorem noninterference (sys : Sys S L) (σ : S) (sched : List Nat) (ls : Nat → L) (i : Nat) :
    sys.run σ ls sched i = sys.alone σ i (steps i sched) (ls i) := by
  induction sched generalizing ls with
  | nil => simp [Sys.run, steps, Sys.alone]
  | cons j rest ih =>
    simp only [Sys.run]
    rw [ih]
    by_cases hji : j = i
    · subst hji
      simp [steps, List.count_cons_self, Sys.alone]
    · have : i ≠ j := fun h => hji h.symm
      simp [steps, hji, this]

/-- Two schedules that give call `i` the same number of steps leave it in the same state:
the result of a call does not depend on how the other calls are interleaved with it. -/
theorem schedule_independent (sys : Sys S L) (σ : S) (s₁ s₂ : List Nat) (ls : Nat → L) (i : Nat)
    (h : steps i s₁ = steps i s₂) : sys.run σ ls s₁ i = sys.run σ ls s₂ i := by
  rw [noninterference, noninterference, h]

/-- The regenerated write inventory of the code as it is now. -/
theorem no_shared_writes :
    DC.Gen.Writes.globalWrites = [] ∧ DC.Gen.Writes.astWrites.map (fun w => (w.2.1, w.2.2)) = DC.Spec.AssumedWrites.reviewedAstWrites ∧ DC.Gen.Writes.aliasAppends = [] ∧
    DC.Gen.Writes.goStmts = [] ∧
    DC.Gen.Writes.globalVars.map (·.2.2) = ["parser.intervalUnits", "token.tokens", "token.Keywords"] := by
  decide

/-- Pre-repair code: with the shared flag, `SELECT … FORMAT` run alone counts 2 children and emits 2 … -/
theorem flag_alone : (flagRun false .start .start [1, 1]).2.2 = .done ⟨2, 2⟩ := by decide

/-- … but interleaved with a concurrent `CREATE VIEW … AS SELECT … FORMAT` it counts 1 and emits 2
(header says `(children 1)`, two children follow): cross-talk, and the tree is not even well formed. -/
theorem flag_interleaving_counterexample :
    (flagRun false .start .start [0, 1, 0, 1]).2.2 = .done ⟨1, 2⟩ := by decide

/-- non-vacuity: a concrete system and schedule to which `noninterference` applies. -/
example : (Sys.run (S := Nat) (L := Nat) ⟨fun i σ l => l + σ + i⟩ 10 (fun _ => 0) [0, 1, 0, 1, 1]) 1 = 33 := by decide

end DC.Props.C10
