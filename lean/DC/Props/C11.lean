import DC.Props.C10
import DC.Gen.Writes
import DC.Spec.AssumedWrites

/-!
# C11 — Explain is a read-only, repeatable function of the statement

Property text: "Calling Explain, ExplainStatements or json.Marshal on a statement leaves the statement deeply
unchanged, calling them again returns byte-identical output, and the output for a statement is the same in a
fresh process as after any sequence of earlier Parse/Explain calls, including earlier calls that panicked and
were recovered."

On the code as it is now the printer has no state besides its arguments; what can be *proved* is therefore a
statement about the regenerated inventory plus the generic consequence:
* `explain_writes_nothing`: no write through a pointer to an `ast` struct in `internal/explain`/`ast`
  (so the statement is deeply unchanged), no write to a package-level variable outside `init` (so there is no
  history to depend on, whether or not an earlier call panicked), and no `range` over a map in the library
  packages (so no iteration-order dependence). Writes to *local copies* of AST structs (`withoutFormat`,
  `explainExplainQuery`) are listed separately in `DC.Gen.Writes.localCopyWrites` and are not writes to the
  caller's tree.
* `history_independent`: in the model of C10 (calls read shared state only), what a call computes does not
  depend on the calls scheduled before it — any prefix of other calls leaves its result unchanged.
The pre-repair model `flag_stuck_after_panic` shows the history dependence the repaired code had.
-/
namespace DC.Props.C11
open DC.Model.Flags

theorem explain_writes_nothing :
    DC.Gen.Writes.astWrites.map (fun w => (w.2.1, w.2.2)) = DC.Spec.AssumedWrites.reviewedAstWrites ∧ DC.Gen.Writes.aliasAppends = [] ∧ DC.Gen.Writes.globalWrites = [] ∧
    DC.Gen.Writes.mapRanges = [] := by
  decide

/-- Earlier calls (any schedule of calls other than `i`) do not change what call `i` computes. -/
theorem history_independent {S L : Type} (sys : Sys S L) (σ : S) (hist sched : List Nat) (ls : Nat → L) (i : Nat)
    (h : i ∉ hist) : sys.run σ ls (hist ++ sched) i = sys.run σ ls sched i := by
  rw [DC.Props.C10.noninterference, DC.Props.C10.noninterference]
  simp [steps, List.count_append, List.count_eq_zero_of_not_mem h]

/-- Running alone depends on the call index only through its program. -/
theorem alone_congr {S L : Type} (sys : Sys S L) (σ : S) (i j : Nat) (hp : sys.step i = sys.step j) (n : Nat) (l : L) :
    sys.alone σ i n l = sys.alone σ j n l := by
  induction n generalizing l with
  | zero => rfl
  | succ n ih => simp only [Sys.alone, hp, ih]

/-- Repeatable: a second call of the same program on the same argument (same local start), taken as far as the first, computes
the same state — in any two schedules, whatever else runs in between, before or after. -/
theorem repeatable {S L : Type} (sys : Sys S L) (σ : S) (s₁ s₂ : List Nat) (ls₁ ls₂ : Nat → L) (i j : Nat)
    (hp : sys.step i = sys.step j) (hl : ls₁ i = ls₂ j) (hn : steps i s₁ = steps j s₂) :
    sys.run σ ls₁ s₁ i = sys.run σ ls₂ s₂ j := by
  rw [DC.Props.C10.noninterference, DC.Props.C10.noninterference, hn, hl, alone_congr sys σ i j hp]

/-- The order in which the steps of all calls are scheduled is irrelevant to every call. -/
theorem order_irrelevant {S L : Type} (sys : Sys S L) (σ : S) (s₁ s₂ : List Nat) (ls : Nat → L) (i : Nat)
    (hperm : s₁.Perm s₂) : sys.run σ ls s₁ i = sys.run σ ls s₂ i := by
  rw [DC.Props.C10.noninterference, DC.Props.C10.noninterference]
  simp only [steps, hperm.count_eq]

/-- non-vacuity: a two-step counter program shared by calls 0 and 5; call 5 repeated after call 0, in different company. -/
example : (Sys.run (⟨fun _ σ l => l + σ⟩ : Sys Nat Nat) 3 (fun _ => 10) [0, 7, 0, 5, 5] 5)
    = (Sys.run (⟨fun _ σ l => l + σ⟩ : Sys Nat Nat) 3 (fun _ => 10) [0, 0] 0) :=
  repeatable _ 3 [0, 7, 0, 5, 5] [0, 0] _ _ 5 0 rfl rfl (by decide)
example : Sys.run (⟨fun _ σ l => l + σ⟩ : Sys Nat Nat) 3 (fun _ => 10) [0, 0] 0 = 16 := by decide

/-- Pre-repair code: a `CREATE VIEW … AS SELECT … FORMAT` rendering that panics after setting the flag
(only its first step runs) leaves the flag set, and a later top-level `SELECT … FORMAT`, run entirely on
its own afterwards, prints 1 child instead of 2. -/
theorem flag_stuck_after_panic :
    (flagRun false .start .start [0, 1, 1]).2.2 = .done ⟨1, 1⟩ ∧
    (flagRun false .start .start [1, 1]).2.2 = .done ⟨2, 2⟩ := by decide

end DC.Props.C11
