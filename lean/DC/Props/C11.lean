import DC.Props.C10
import DC.Gen.Writes
import DC.Spec.AssumedWrites

/-!
# C11 — Explain is a read-only, repeatable function of the statement

Property text: "Calling Explain, ExplainStatements or json.Marshal on a statement leaves the statement deeply
unchanged, calling them again returns byte-identical output, and the output for a statement is the same in a
fresh process as after any sequence of earlier Parse/Explain calls, including earlier calls that panicked and
were recovered."

On the code as it is now the printer has no state besides its arguments; what can be *proved* is therefore a
statement about the regenerated inventory plus the generic consequence:
* `explain_writes_nothing`: no write through a pointer to an `ast` struct in `internal/explain`/`ast`
  (so the statement is deeply unchanged), no write to a package-level variable outside `init` (so there is no
  history to depend on, whether or not an earlier call panicked), and no `range` over a map in the library
  packages (so no iteration-order dependence). Writes to *local copies* of AST structs (`withoutFormat`,
  `explainExplainQuery`) are listed separately in `DC.Gen.Writes.localCopyWrites` and are not writes to the
  caller's tree.
* `history_independent`: in the model of C10 (calls read shared state only), what a call computes does not
  depend on the calls scheduled before it — any prefix of other calls leaves its result unchanged.
The pre-repair model `flag_stuck_after_panic` shows the history dependence the repaired code had.
-/
namespace DC.Props.C11
open DC.Model.Flags

theorem explain_writes_nothing :
    DC.Gen.Writes.astWrites.map (fun w => (w.2.1, w.2.2)) = DC.Spec.AssumedWrites.reviewedAstWrites ∧ DC.Gen.Writes.aliasAppends = [] ∧ DC.Gen.Writes.globalWrites = [] ∧
    DC.Gen.Writes.mapRanges = [] := by
  decide

/-- Earlier calls (any schedule of calls other than `i`) do not change what call `i` computes. -/
theorem history_independent {S L : Type} (sys : Sys S L) (σ : S) (hist sched : List Nat) (ls : Nat → L) (i : Nat)
    (h : i ∉ hist) : sys.run σ ls (hist ++ sched) i = sys.run σ ls sched i := by
  rw [DC.Props.C10.noninterference, DC.Props.C10.noninterference]
  simp [steps, List.count_append, List.count_eq_zero_of_not_mem h]

/-- Pre-repair code: a `CREATE VIEW … AS SELECT … FORMAT` rendering that panics after setting the flag
(only its first step runs) leaves the flag set, and a later top-level `SELECT … FORMAT`, run entirely on
its own afterwards, prints 1 child instead of 2. -/
theorem flag_stuck_after_panic :
    (flagRun false .start .start [0, 1, 1]).2.2 = .done ⟨1, 1⟩ ∧
    (flagRun false .start .start [1, 1]).2.2 = .done ⟨2, 2⟩ := by decide

end DC.Props.C11
