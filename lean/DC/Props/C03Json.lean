import DC.Model.Marshal
import DC.Gen.Marshalers
import DC.Spec.AssumedSites

/-!
# C03 — "json.Marshal of each statement succeeds"

Property text (C03): "If Parse returns err == nil, then … json.Marshal of each statement succeeds …".

The argument has three parts, all re-checked by every `lake build` over tables regenerated from /repo:

1. **Where can encoding/json fail on this AST at all?** Only in a custom marshaller, on a non-finite float, or on a value of
   an unsupported kind (the AST is a tree, so there are no cycles). `custom_marshalers`, `float_capable_fields`,
   `no_unsupported_kinds`, `no_literal_by_value` pin the regenerated inventory of package ast: ONE custom marshaller
   (`(*Literal).MarshalJSON`), ONE field that can hold a float (`Literal.Value interface{}`), no chan/func/complex/odd map
   keys, no `Literal` stored by value. A new marshaller or a new float-typed / `any`-typed field breaks the build.
2. **What can sit in `Literal.Value`?** `value_types_modelled`: the static types paired with a LiteralType by the
   regenerated construction inventory (`literal_values_typed`, C01Sites) are exactly the constructors of the model's `LitVal`.
3. **What does MarshalJSON do with each of them?** `marshal_literal_ok`: for EVERY literal — every value (incl. NaN, +Inf,
   -Inf), every Type, every Source / Negative / Parenthesized / SpacedCommas / SpacedBrackets / IsBigInt combination, nested
   to any depth inside arrays / tuples and under arbitrary other nodes — `marshalLiteral` answers `.ok`.

Trusted: the model's reading of encoding/json (default encoder, dominant-field rule), the pin on `ast.Literal.MarshalJSON`,
and the search (`harness c03JsonProbe`: every non-finite / extreme numeric spelling × every position, real json.Marshal).
-/
namespace DC.Props.C03Json
open DC.Model.Marshal

/-! ## the theorem -/

mutual
theorem encValue_ok_of_not_special : ∀ v : LitVal, specialBranch v = none → encValue v = .ok
  | .nan, h => by simp [specialBranch] at h
  | .posInf, h => by simp [specialBranch] at h
  | .negInf, h => by simp [specialBranch] at h
  | .list elems, _ => by rw [encValue]; exact encNodes_ok elems
  | .int _, _ => by rw [encValue]
  | .uint _, _ => by rw [encValue]
  | .finiteFloat _, _ => by rw [encValue]
  | .str _, _ => by rw [encValue]
  | .bool _, _ => by rw [encValue]
  | .null, _ => by rw [encValue]
theorem encNode_ok : ∀ n : Node, encNode n = .ok
  | .lit l => by rw [encNode]; exact marshalLiteral_ok l
  | .nilNode => by rw [encNode]
  | .other kids => by rw [encNode]; exact encNodes_ok kids
theorem encNodes_ok : ∀ ns : List Node, encNodes ns = .ok
  | [] => by rw [encNodes]
  | n :: ns => by rw [encNodes, encNode_ok n, encNodes_ok ns]; rfl
theorem marshalLiteral_ok : ∀ l : Lit, marshalLiteral l = .ok
  | .mk _ v _ _ _ _ _ _ => by
    rw [marshalLiteral]
    cases h : specialBranch v with
    | some s =>
      -- the wrapper: the embedded `value` is hidden by the outer string field
      have : reachesDefault wrapperFields = false := by decide
      simp [this]
    | none =>
      simp only []
      split
      · exact encValue_ok_of_not_special v h
      · rfl
end

/-- **C03 (json part).** Every literal marshals: the three special floats in every field combination, at any nesting depth
inside array / tuple literals and under any other expression nodes. -/
theorem marshal_literal_ok : ∀ l : Lit, marshalLiteral l = .ok := marshalLiteral_ok

/-- every expression subtree (literals below arbitrary other nodes) encodes -/
theorem marshal_node_ok : ∀ n : Node, encNode n = .ok := encNode_ok

/-! ## non-vacuity: the model CAN fail — the default encoder rejects the special floats, and MarshalJSON is what saves them -/

/-- the default encoder rejects NaN / ±Inf -/
example : encValue .nan = .unsupportedValue ∧ encValue .posInf = .unsupportedValue ∧ encValue .negInf = .unsupportedValue := by
  decide
/-- … also below an array and another node: `[f(nan)]` encoded WITHOUT the custom marshaller fails -/
example : encLiteralDefault (.mk .array (.list [.other [.lit (.mk .float .nan "" false false false false false)]]) "" false false true false false)
    = .ok := by decide  -- the element is a *Literal in an interface: MarshalJSON applies to it even if the outer one is encoded by default
example : encLiteralDefault (.mk .float .negInf "-1e999" true false false false false) = .unsupportedValue := by decide
/-- The wrapper works because of the dominant-field rule only: with any other json name on the outer field the embedded
interface stays visible and the marshal fails. -/
theorem wrapper_needs_same_name :
    marshalLiteralNamed "val" (.mk .float .nan "" false false false false false) = .unsupportedValue := by decide
example : marshalLiteralNamed "value" (.mk .float .nan "" false false false false false) = .ok := by decide
/-- the fall-through path does hand the value to the default encoder -/
example : reachesDefault aliasFields = true := by decide
example : reachesDefault wrapperFields = false := by decide
/-- the shapes the search family produces -/
example : marshalLiteral (.mk .float .negInf "-1e999" true false false false false) = .ok := by decide
example : marshalLiteral (.mk .tuple (.list [.lit (.mk .float .nan "" false true false false false),
    .other [.lit (.mk .float .posInf "0xfff" false false false false false)], .nilNode]) "" false false true false false) = .ok := by decide

/-! ## the regenerated inventory (package ast) -/

open DC.Gen.Marshalers

/-- The types of package ast with a MarshalJSON / MarshalText method. A new custom marshaller breaks this. -/
theorem custom_marshalers : customMarshalers.map (fun m => (m.1, m.2.1, m.2.2.1)) = [("Literal", "MarshalJSON", "pointer")] := by
  decide

/-- The struct fields of package ast that can hold a float (static type float32/float64/interface{}/any, directly or
through pointers, slices, arrays, maps, named types). Reviewed: `Literal.Value` — handled by `marshal_literal_ok`.
A new float-typed or `any`-typed field breaks this. -/
theorem float_capable_fields : floatCapableFields = [("Literal.Value", "interface{}")] := by decide

/-- no field of a kind encoding/json rejects outright -/
theorem no_unsupported_kinds : unsupportedKindFields = [] := by decide

/-- `Literal` is never stored by value, so the pointer-receiver MarshalJSON is always in the method set -/
theorem no_literal_by_value : literalByValue = [] := by decide

/-- how the model names / classifies a field of ast.Literal given its static type and json name -/
def fieldOf (f : String × String × String) : Option Field :=
  if f.2.2 == "-" then none
  else some ⟨f.2.2, 0,
    if f.2.1 == "interface{}" || f.2.1 == "any" then .ifaceValue else if f.2.1 == "bool" then .bool else .str⟩

/-- the model's `aliasFields` is the regenerated field list of ast.Literal (names from the json tags, Position dropped);
the only non-string, non-bool field is the interface -/
theorem literal_fields_modelled : literalFields.filterMap fieldOf = aliasFields := by decide

theorem literal_field_types_known :
    literalFields.all (fun f => ["token.Position", "LiteralType", "interface{}", "string", "bool"].contains f.2.1) = true := by decide

/-- the static types the parser stores in `Literal.Value` (regenerated pairing, see `literal_values_typed`) are the
constructors of `LitVal`: string, float64 (finite / nan / ±inf), bool, int64, uint64, nil, []ast.Expression -/
def modelledValueTypes : List String := ["string", "float64", "bool", "int64", "uint64", "nil", "[]ast.Expression"]

theorem value_types_modelled :
    (DC.Spec.AssumedSites.allowedLiteral.filter (fun p => p.1 != "?lit.Type")).all (fun p => modelledValueTypes.contains p.2) = true := by
  decide

example : structCount ≥ 100 ∧ fieldCount ≥ 500 := by decide

end DC.Props.C03Json
