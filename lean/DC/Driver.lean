import DC.Prelude.Hex
import DC.Spec.PrecSpec
import DC.Model.BufioIO
import DC.Model.StmtLoop
import DC.Spec.Tree
import DC.Spec.Embed
import DC.Model.ExplainSelect
import DC.Model.ExplainDDL
import DC.Model.ExplainUtil
import DC.Model.Lexer
import DC.Model.LexerRd
import DC.Model.LitDriver
import DC.Model.Types
import DC.Model.ExplainExpr
import DC.Model.UnionGroup

/-! Dispatch table of the line-protocol driver. A handler gets the op and its arguments and
answers `none` if the op is not its own. Unknown ops answer `bad-op` (never a default value). -/
namespace DC.Driver

def handlers : List (String → List String → Option String) := [
  fun op args => if op == "ping" then some ("pong " ++ " ".intercalate args) else none,
  DC.Bufio.IO.handle,
  DC.Spec.PrecSpec.handle,   -- c08
  DC.Model.StmtLoop.handle,  -- c16 (op `stmtloop`)
  DC.Spec.Tree.handle,       -- c04 (ops `tree`, `artefacts`)
  DC.Spec.Embed.handle,      -- c07 (op `embed`)
  DC.Model.ExplainSelect.handle, -- c04 (ops `selshape`, `selshapeinh`, `unionshape`)
  DC.Model.ExplainDDL.handle, -- c04 DDL pairs (ops `altershape`, `altername`, `statshape`, `projshape`, `projselshape`, `colshape`, `idxshape`, `createshape`, `colsdefshape`, `storageshape`, `innerstorageshape`)
  DC.Model.ExplainUtil.handle, -- c04 utility-statement pairs (ops `util…`: `utildrop`, `utilrename`, `utilshow`, …)
  DC.Lexer.handle,           -- c12/c13 (ops `lex`, `uni`)
  DC.LexerRd.handle,         -- c14 lexer over bufio over a scripted reader (op `lexbufio`)
  DC.Model.LitDriver.handle, -- c09 (ops `c09num`, `c09str`, `c09float`, `c09nest`, `c09dec`)
  DC.Types.handle,           -- c18 (ops `c18`, `c18ty`)
  DC.Model.ExplainExpr.handle, -- c04/c07 expression core (op `xexpr`)
  DC.Model.UnionGroup.handle -- c07 union regrouping (op `uniongroup`)
]

def dispatch (line : String) : String :=
  match line.splitOn " " with
  | [] => "bad-op"
  | op :: args =>
    match handlers.findSome? (fun h => h op args) with
    | some r => r
    | none => "bad-op"

end DC.Driver
