import DC.Prelude.Hex
import DC.Spec.PrecSpec
import DC.Model.BufioIO
import DC.Model.StmtLoop

/-! Dispatch table of the line-protocol driver. A handler gets the op and its arguments and
answers `none` if the op is not its own. Unknown ops answer `bad-op` (never a default value). -/
namespace DC.Driver

def handlers : List (String → List String → Option String) := [
  fun op args => if op == "ping" then some ("pong " ++ " ".intercalate args) else none,
  DC.Bufio.IO.handle,
  DC.Spec.PrecSpec.handle,   -- c08
  DC.Model.StmtLoop.handle   -- c16 (op `stmtloop`)
]

def dispatch (line : String) : String :=
  match line.splitOn " " with
  | [] => "bad-op"
  | op :: args =>
    match handlers.findSome? (fun h => h op args) with
    | some r => r
    | none => "bad-op"

end DC.Driver
