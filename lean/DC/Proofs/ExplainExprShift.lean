import DC.Model.ExplainExpr
import DC.Proofs.TreeEmbed

/-!
# C07 on the expression core: the depth only shifts the indentation

`items_shift`: `items m al e (d + k)` is `items m al e d` with every item `k` levels deeper — by structural induction.
`toLine_shift`: an item `k` levels deeper is the same line behind `k` more spaces (`DC.Spec.Embed.indent`).
-/
namespace DC.Proofs.ExplainExpr
open DC DC.Spec.Tree DC.Spec.Embed DC.Model.ExplainExpr

/-- the same item, `k` levels deeper -/
def shift (k : Nat) (i : Item) : Item := { i with depth := i.depth + k }

theorem toLine_shift (k : Nat) (i : Item) : (shift k i).toLine = indent k i.toLine := by
  simp only [shift, Item.toLine, Item.label]
  exact DC.Proofs.TreeEmbed.line_shift _ _ _ _ _

theorem why_shift (k : Nat) (i : Item) : (shift k i).why? = i.why? := rfl

theorem firstUnsupported_shift (k : Nat) (its : List Item) :
    firstUnsupported (its.map (shift k)) = firstUnsupported its := by
  induction its with
  | nil => rfl
  | cons i is ih => simp only [List.map_cons, firstUnsupported, why_shift, ih]

@[simp] theorem shift_fnItem (k d : Nat) (n : Bytes) (a : Option Bytes) (c : Nat) :
    shift k (fnItem d n a c) = fnItem (d + k) n a c := rfl
@[simp] theorem shift_elItem (k d n : Nat) : shift k (elItem d n) = elItem (d + k) n := rfl
@[simp] theorem shift_elBare (k d : Nat) : shift k (elBare d) = elBare (d + k) := rfl
@[simp] theorem shift_elMaybe (k d n : Nat) : shift k (elMaybe d n) = elMaybe (d + k) n := by
  unfold elMaybe; split <;> rfl
@[simp] theorem shift_litItem (k d : Nat) (t : Bytes) (a : Option Bytes) :
    shift k (litItem d t a) = litItem (d + k) t a := rfl
@[simp] theorem shift_identItem (k d : Nat) (t : Bytes) (a : Option Bytes) :
    shift k (identItem d t a) = identItem (d + k) t a := rfl
@[simp] theorem shift_unsup (k d : Nat) (w : String) : shift k (unsup d w) = unsup (d + k) w := rfl

theorem map_params (k d : Nat) (ps : List Bytes) :
    (ps.map (fun p => identItem d p none)).map (shift k) = ps.map (fun p => identItem (d + k) p none) := by
  simp [List.map_map, Function.comp_def]

/-- normalisation of the depth arithmetic: `d + k + c = d + c + k` -/
theorem addc (k c a : Nat) : a + k + c = a + c + k := Nat.add_right_comm a k c

theorem map_inSingle (k : Nat) (wa tc : Bool) (x : Expr) (d : Nat) (p q r t : Unit → List Item) :
    (inSingle wa tc x d p q r t).map (shift k) =
      inSingle wa tc x (d + k) (fun u => (p u).map (shift k)) (fun u => (q u).map (shift k))
        (fun u => (r u).map (shift k)) (fun u => (t u).map (shift k)) := by
  have a2 := addc k 2; have a3 := addc k 3
  unfold inSingle
  split <;> simp only [List.map_cons, shift_fnItem, shift_elItem, shift_elMaybe, apply_ite (List.map (shift k)), a2, a3]

macro "shift_simp" : tactic =>
  `(tactic| simp only [items, itemsList, itemsWhens, tupleInInList, tuplesInInList, List.map_cons, List.map_append,
      List.map_nil, shift_fnItem, shift_elItem, shift_elBare, shift_elMaybe, shift_litItem, shift_identItem,
      shift_unsup, map_params, map_inSingle, apply_ite (List.map (shift _)), *])

macro "shift_simp'" : tactic =>
  `(tactic| simp only [List.map_cons, List.map_append,
      List.map_nil, shift_fnItem, shift_elItem, shift_elBare, shift_elMaybe, shift_litItem, shift_identItem,
      shift_unsup, map_params, map_inSingle, apply_ite (List.map (shift _)), *])

mutual
theorem items_shift : ∀ (m : Mode) (al : Option Bytes) (e : Expr) (d k : Nat),
    items m al e (d + k) = (items m al e d).map (shift k)
  | m, al, .ident parts alias, d, k => by
    cases al <;> shift_simp
  | m, al, .lit v p n, d, k => by shift_simp
  | m, al, .arr es p, d, k => by
    have a1 := addc k 1; have a2 := addc k 2
    have ih := fun d => itemsList_shift es d k
    cases al <;> cases hf : formatLiteral (.arr es p) <;> shift_simp
  | m, al, .tup es p, d, k => by
    have a1 := addc k 1; have a2 := addc k 2
    have ih := fun d => itemsList_shift es d k
    cases al <;> cases hf : formatLiteral (.tup es p) <;> shift_simp
  | m, al, .func name args params distinct alias, d, k => by
    have a1 := addc k 1; have a2 := addc k 2
    have iha := fun d => itemsList_shift args d k
    cases params with
    | none => cases hs : specialFunction name args <;> shift_simp
    | some ps =>
      have ihp := fun d => itemsList_shift ps d k
      cases hs : specialFunction name args <;> shift_simp
  | m, al, .binary op l r p, d, k => by
    have a1 := addc k 1; have a2 := addc k 2
    have ih1 := fun m d => items_shift m none l d k
    have ih2 := fun m d => items_shift m none r d k
    cases hb : binFn op <;> shift_simp
  | m, al, .unary op e, d, k => by
    have a1 := addc k 1; have a2 := addc k 2
    have ih := fun d => items_shift .node none e d k
    cases hu : unaryFold al op e with
    | none => cases hf : unFn op <;> shift_simp
    | some o => cases o <;> shift_simp
  | m, al, .arrayAccess a i, d, k => by
    have a1 := addc k 1; have a2 := addc k 2
    have ih1 := fun d => items_shift .node none a d k
    have ih2 := fun d => items_shift .node none i d k
    shift_simp
  | m, al, .tupleAccess t i, d, k => by
    have a1 := addc k 1; have a2 := addc k 2
    have ih1 := fun d => items_shift .node none t d k
    have ih2 := fun d => items_shift .node none i d k
    shift_simp
  | m, al, .isNull e not, d, k => by
    have a1 := addc k 1; have a2 := addc k 2
    have ih := fun d => items_shift .node none e d k
    shift_simp
  | m, al, .between e lo hi not, d, k => by
    have a1 := addc k 1; have a2 := addc k 2; have a3 := addc k 3; have a4 := addc k 4
    have ih1 := fun d => items_shift .node none e d k
    have ih2 := fun d => items_shift .node none lo d k
    have ih3 := fun d => items_shift .node none hi d k
    shift_simp
  | m, al, .inList e [] not global tc, d, k => by
    have a1 := addc k 1; have a2 := addc k 2; have a3 := addc k 3; have a4 := addc k 4
    have ih1 := fun d => items_shift .node none e d k
    cases hf : formatTupleElems ([] : List Expr) <;> shift_simp
  | m, al, .inList e [x] not global tc, d, k => by
    have a1 := addc k 1; have a2 := addc k 2; have a3 := addc k 3; have a4 := addc k 4
    have ih1 := fun d => items_shift .node none e d k
    have ih2 := fun d => items_shift .node none x d k
    have ih3 := fun d => tupleInInList_shift x d k
    have ih4 := fun d => tupleElems_shift x d k
    cases hf : formatTupleElems [x] <;> simp only [items] <;> shift_simp
  | m, al, .inList e (x :: y :: rest) not global tc, d, k => by
    have a1 := addc k 1; have a2 := addc k 2; have a3 := addc k 3; have a4 := addc k 4
    have ih1 := fun d => items_shift .node none e d k
    have ih2 := fun d => itemsList_shift (x :: y :: rest) d k
    have ih3 := fun d => tuplesInInList_shift (x :: y :: rest) d k
    cases hf : formatTupleElems (x :: y :: rest) <;> simp only [items] <;> shift_simp'
  | m, al, .case_ operand whens els alias, d, k => by
    have a1 := addc k 1; have a2 := addc k 2
    have ihw := fun d => itemsWhens_shift whens d k
    cases operand with
    | none =>
      cases els with
      | none => shift_simp
      | some x =>
        have ihx := fun d => items_shift .node none x d k
        shift_simp
    | some o =>
      have iho := fun d => items_shift .node none o d k
      cases els with
      | none => shift_simp
      | some x =>
        have ihx := fun d => items_shift .node none x d k
        shift_simp
  | m, al, .cast e ty opSyntax alias, d, k => by
    have a1 := addc k 1; have a2 := addc k 2
    have ih := fun d => items_shift .node none e d k
    cases hc : castOperand e with
    | none => shift_simp
    | some o => cases o <;> shift_simp
  | m, al, .castDyn e ty opSyntax alias, d, k => by
    have a1 := addc k 1; have a2 := addc k 2
    have ih := fun d => items_shift .node none e d k
    have ih2 := fun d => items_shift .node none ty d k
    cases hc : castOperand e with
    | none => shift_simp
    | some o => cases o <;> shift_simp
  | m, al, .lambda params body, d, k => by
    have a1 := addc k 1; have a2 := addc k 2; have a3 := addc k 3; have a4 := addc k 4
    have ih := fun d => items_shift .node none body d k
    shift_simp
  | m, al, .ternary c t e, d, k => by
    have a1 := addc k 1; have a2 := addc k 2
    have ih1 := fun d => items_shift .node none c d k
    have ih2 := fun d => items_shift .node none t d k
    have ih3 := fun d => items_shift .node none e d k
    shift_simp
  | m, al, .aliased e a, d, k => by
    have ih := items_shift .node (some a) e d k
    shift_simp
  | m, al, .other w, d, k => by shift_simp
theorem itemsList_shift : ∀ (es : List Expr) (d k : Nat), itemsList es (d + k) = (itemsList es d).map (shift k)
  | [], d, k => by shift_simp
  | e :: es, d, k => by
    have ih1 := items_shift .node none e d k
    have ih2 := itemsList_shift es d k
    shift_simp
theorem itemsWhens_shift : ∀ (ws : List (Expr × Expr)) (d k : Nat),
    itemsWhens ws (d + k) = (itemsWhens ws d).map (shift k)
  | [], d, k => by shift_simp
  | (c, r) :: ws, d, k => by
    have ih1 := items_shift .node none c d k
    have ih2 := items_shift .node none r d k
    have ih3 := itemsWhens_shift ws d k
    shift_simp
theorem tupleInInList_shift : ∀ (e : Expr) (d k : Nat), tupleInInList e (d + k) = (tupleInInList e d).map (shift k)
  | .tup elems p, d, k => by
    have a1 := addc k 1; have a2 := addc k 2
    have ih := fun d => itemsList_shift elems d k
    cases hf : formatLiteral (.tup elems p) <;> shift_simp
  | .ident _ _, d, k | .lit _ _ _, d, k | .arr _ _, d, k | .func _ _ _ _ _, d, k | .binary _ _ _ _, d, k
  | .unary _ _, d, k | .arrayAccess _ _, d, k | .tupleAccess _ _, d, k | .isNull _ _, d, k | .between _ _ _ _, d, k
  | .inList _ _ _ _ _, d, k | .case_ _ _ _ _, d, k | .cast _ _ _ _, d, k | .castDyn _ _ _ _, d, k | .lambda _ _, d, k | .ternary _ _ _, d, k
  | .aliased _ _, d, k | .other _, d, k => by shift_simp
theorem tupleElems_shift : ∀ (e : Expr) (d k : Nat), tupleElems e (d + k) = (tupleElems e d).map (shift k)
  | .tup elems p, d, k => by
    have ih := fun d => itemsList_shift elems d k
    simp only [tupleElems, ih]
  | .ident _ _, d, k | .lit _ _ _, d, k | .arr _ _, d, k | .func _ _ _ _ _, d, k | .binary _ _ _ _, d, k
  | .unary _ _, d, k | .arrayAccess _ _, d, k | .tupleAccess _ _, d, k | .isNull _ _, d, k | .between _ _ _ _, d, k
  | .inList _ _ _ _ _, d, k | .case_ _ _ _ _, d, k | .cast _ _ _ _, d, k | .castDyn _ _ _ _, d, k | .lambda _ _, d, k | .ternary _ _ _, d, k
  | .aliased _ _, d, k | .other _, d, k => by simp only [tupleElems, List.map_nil]
theorem tuplesInInList_shift : ∀ (es : List Expr) (d k : Nat),
    tuplesInInList es (d + k) = (tuplesInInList es d).map (shift k)
  | [], d, k => by shift_simp
  | e :: es, d, k => by
    have ih1 := tupleInInList_shift e d k
    have ih2 := tuplesInInList_shift es d k
    shift_simp
end

end DC.Proofs.ExplainExpr
