import DC.Spec.BufioSpec
import DC.Proofs.BufioUtf8

/-! `bufio.Reader` over a clean, non-stalling script refines the pure reader (C14). -/
namespace DC.Bufio
open DC

/-- what one `fill` achieves on a clean script -/
structure FillPost (b b' : BR) (fin : Err) : Prop where
  bytes : b'.buf ++ pending b'.rd = b.buf ++ pending b.rd
  cap : b'.cap = b.cap
  ok : b'.panicked = b.panicked
  fits : b'.buf.length ≤ b.cap
  nostall : NoStall b'.rd
  errs : (b'.err = none ∧ Clean b'.rd fin ∧ b.buf.length < b'.buf.length) ∨ (b'.err = some fin ∧ b'.rd = [])

theorem fillLoop_post (fin : Err) (i : Nat) (b : BR) (he : b.err = none) (hl : b.buf.length < b.cap)
    (hc : Clean b.rd fin) (hn : NoStall b.rd) (hi : leadEmpty b.rd < i) : FillPost b (fillLoop i b) fin := by
  induction i generalizing b with
  | zero => omega
  | succ i ih =>
    rcases hrd : b.rd with _ | ⟨ev, rest⟩
    · -- exhausted script: (0, io.EOF)
      rw [hrd] at hc
      simp only [Clean] at hc
      subst hc
      simp only [fillLoop, hrd, sread]
      constructor <;> simp [pending, hrd, NoStall]
      omega
    · rw [hrd] at hc hn hi
      simp only [fillLoop, hrd, sread]
      by_cases hfit : ev.data.length ≤ b.cap - b.buf.length
      · simp only [hfit, if_true]
        rcases hev : ev.err with _ | e
        · -- nil error
          have hcr : Clean rest fin := by
            rcases hc with ⟨_, h⟩ | ⟨_, h⟩
            · exact h
            · rw [hev] at h; cases h
          simp only []
          by_cases hd : ev.data.length > 0
          · simp only [hd, if_true]
            constructor <;> simp [pending, hrd, hn.2, hcr, he]
            · omega
            · omega
          · simp only [hd, if_false]
            have hd0 : ev.data = [] := List.eq_nil_of_length_eq_zero (by omega)
            have hi' : leadEmpty rest < i := by
              simp only [leadEmpty, hd0, hev, and_self, if_true] at hi
              omega
            have := ih { b with rd := rest, buf := b.buf ++ ev.data } he (by simp [hd0]; exact hl) hcr hn.2 hi'
            constructor
            · simpa [pending, hrd, hd0] using this.bytes
            · simpa using this.cap
            · simpa using this.ok
            · simpa using this.fits
            · exact this.nostall
            · simpa [hd0] using this.errs
        · -- an error comes with the data: it is the final one
          have hfin : rest = [] ∧ e = fin := by
            rcases hc with ⟨h, _⟩ | ⟨h1, h2⟩
            · rw [hev] at h; cases h
            · rw [hev] at h2; exact ⟨h1, by cases h2; rfl⟩
          simp only []
          constructor <;> simp [pending, hrd, hfin.1, hfin.2, NoStall]
          omega
      · -- the event does not fit: a prefix is delivered with a nil error
        simp only [hfit, if_false]
        have hk : 0 < b.cap - b.buf.length := by omega
        have hlen : (ev.data.take (b.cap - b.buf.length)).length = b.cap - b.buf.length := by
          simp [List.length_take]; omega
        have hd : (ev.data.take (b.cap - b.buf.length)).length > 0 := by omega
        simp only [hd, if_true]
        have hdrop : ev.data.drop (b.cap - b.buf.length) ≠ [] := by
          intro h
          have := congrArg List.length h
          simp at this
          omega
        constructor
        · simp only [pending, hrd, List.append_assoc]
          rw [← List.append_assoc (ev.data.take _), List.take_append_drop]
        · rfl
        · rfl
        · simp only [List.length_append, hlen]; omega
        · refine ⟨?_, hn.2⟩
          simp [leadEmpty, hdrop, maxConsecutiveEmptyReads]
        · left
          refine ⟨he, ?_, ?_⟩
          · simpa [Clean] using hc
          · simp only [List.length_append, hlen]; omega

/-- the simulation relation: buffered bytes ++ pending data = remaining bytes, and the error the script will end
with (or that `bufio` already holds in its sticky slot, all data being buffered) is the pure reader's final error. -/
structure Sim (b : BR) (p : Pure) : Prop where
  bytes : b.buf ++ pending b.rd = p.rest
  cap : b.cap = p.cap
  cap4 : 4 ≤ b.cap
  fits : b.buf.length ≤ b.cap
  ok : b.panicked = false
  nostall : NoStall b.rd
  errs : (b.err = none ∧ Clean b.rd p.fin) ∨ (b.err = some p.fin ∧ b.rd = [])

theorem fill_sim (b : BR) (p : Pure) (h : Sim b p) (he : b.err = none) (hl : b.buf.length < b.cap) :
    Sim (fill b) p ∧ (fill b).room < b.room := by
  refine ⟨?_, fill_room b hl he h.ok⟩
  have hc : Clean b.rd p.fin := by
    rcases h.errs with ⟨_, h2⟩ | ⟨h1, _⟩
    · exact h2
    · rw [he] at h1; cases h1
  have hne : leadEmpty b.rd < maxConsecutiveEmptyReads := by
    rcases hrd : b.rd with _ | ⟨ev, rest⟩
    · simp [leadEmpty, maxConsecutiveEmptyReads]
    · have := h.nostall; rw [hrd] at this; exact this.1
  have post := fillLoop_post p.fin maxConsecutiveEmptyReads { b with r := 0 } he hl hc h.nostall hne
  have hf : fill b = fillLoop maxConsecutiveEmptyReads { b with r := 0 } := by
    unfold fill
    simp only [ge_iff_le]
    rw [if_neg (by simp; exact hl)]
  rw [hf]
  constructor
  · rw [post.bytes]; exact h.bytes
  · rw [post.cap]; exact h.cap
  · rw [post.cap]; exact h.cap4
  · rw [post.cap]; exact post.fits
  · rw [post.ok]; exact h.ok
  · exact post.nostall
  · rcases post.errs with ⟨h1, h2, _⟩ | ⟨h1, h2⟩
    · exact Or.inl ⟨h1, h2⟩
    · exact Or.inr ⟨h1, h2⟩

theorem peekLoop_sim (n : Nat) (b : BR) (p : Pure) (h : Sim b p) :
    Sim (peekLoop n b) p ∧
      ¬ ((peekLoop n b).buf.length < n ∧ (peekLoop n b).buf.length < (peekLoop n b).cap ∧ (peekLoop n b).err = none) := by
  fun_induction peekLoop n b with
  | case1 b hcond ih => exact ih (fill_sim b p h hcond.2.2.1 hcond.2.1).1
  | case2 b hcond =>
    refine ⟨h, ?_⟩
    intro hh
    exact hcond ⟨hh.1, hh.2.1, hh.2.2, h.ok⟩

theorem rrLoop_sim (b : BR) (p : Pure) (h : Sim b p) :
    Sim (rrLoop b) p ∧
      ¬ ((rrLoop b).buf.length < Utf8B.utfMax ∧ Utf8B.fullRune (rrLoop b).buf = false ∧ (rrLoop b).err = none ∧
          (rrLoop b).buf.length < (rrLoop b).cap) := by
  fun_induction rrLoop b with
  | case1 b hcond ih => exact ih (fill_sim b p h hcond.2.2.1 hcond.2.2.2.1).1
  | case2 b hcond =>
    refine ⟨h, ?_⟩
    intro hh
    exact hcond ⟨hh.1, hh.2.1, hh.2.2.1, hh.2.2.2, h.ok⟩

theorem take_append_left {α} (n : Nat) (a b : List α) (h : n ≤ a.length) : (a ++ b).take n = a.take n := by
  rw [List.take_append]
  have : n - a.length = 0 := by omega
  simp [this]

theorem peek_refines (n : Nat) (b : BR) (p : Pure) (h : Sim b p) :
    (peek n b).1 = (p.peek n).1 ∧ Sim (peek n b).2 (p.peek n).2 := by
  obtain ⟨hs, hexit⟩ := peekLoop_sim n b p h
  unfold peek Pure.peek
  simp only []
  generalize peekLoop n b = b' at hs hexit
  have hcap := hs.cap
  by_cases hn : n > b'.cap
  · -- n > len(b.buf): the whole buffer and ErrBufferFull
    have hn' : n > p.cap := by omega
    simp only [hn, hn', if_true]
    refine ⟨?_, hs⟩
    have : b'.buf = p.rest.take p.cap := by
      rw [← hs.bytes, ← hcap]
      by_cases hfull : b'.buf.length < b'.cap
      · have herr : b'.err ≠ none := fun he => hexit ⟨by omega, hfull, he⟩
        rcases hs.errs with ⟨h1, _⟩ | ⟨_, h2⟩
        · exact absurd h1 herr
        · simp only [h2, pending, List.append_nil]
          rw [List.take_of_length_le hs.fits]
      · have : b'.buf.length = b'.cap := by have := hs.fits; omega
        rw [take_append_left _ _ _ (by omega), List.take_of_length_le (by omega)]
    rw [this]
  · have hn' : ¬ n > p.cap := by omega
    simp only [hn, hn', if_false]
    by_cases hshort : b'.buf.length < n
    · -- short: the sticky error comes out
      have herr : b'.err ≠ none := fun he => hexit ⟨hshort, by omega, he⟩
      rcases hs.errs with ⟨h1, _⟩ | ⟨h1, h2⟩
      · exact absurd h1 herr
      · have hrest : p.rest = b'.buf := by rw [← hs.bytes, h2]; simp [pending]
        have : p.rest.length < n := by rw [hrest]; exact hshort
        simp only [hshort, if_true, readErr, h1, Option.getD_some, hrest]
        refine ⟨by first | rfl | trivial, ?_⟩
        have h4 := hs.cap4
        have hf := hs.fits
        rw [hs.cap] at h4 hf
        constructor <;> simp [h2, pending, hs.cap, hs.ok, NoStall, Clean] <;> omega
    · have : ¬ p.rest.length < n := by
        rw [← hs.bytes, List.length_append]; omega
      simp only [hshort, this, if_false]
      refine ⟨?_, hs⟩
      rw [← hs.bytes, take_append_left _ _ _ (by omega)]

theorem decodeHead_eq (buf : Bytes) (h : buf ≠ []) : decodeHead buf = Utf8B.decodeRune buf := by
  rcases buf with _ | ⟨c, t⟩
  · exact absurd rfl h
  · simp only [decodeHead]
    split
    · rfl
    · rw [Utf8B.decodeRune_ascii c t (by omega)]

theorem readRune_refines (b : BR) (p : Pure) (h : Sim b p) :
    (readRune b).1 = p.readRune.1 ∧ Sim (readRune b).2 p.readRune.2 := by
  obtain ⟨hs, hexit⟩ := rrLoop_sim b p h
  unfold readRune Pure.readRune
  simp only []
  generalize rrLoop b = b' at hs hexit
  by_cases hemp : b'.buf = []
  · -- b.r == b.w: the loop stopped because of the sticky error
    have herr : b'.err ≠ none := by
      intro he
      apply hexit
      have := hs.cap4
      simp [hemp, Utf8B.utfMax, Utf8B.fullRune, he]
      omega
    rcases hs.errs with ⟨h1, _⟩ | ⟨h1, h2⟩
    · exact absurd h1 herr
    · have hrest : p.rest = [] := by rw [← hs.bytes, h2, hemp]; simp [pending]
      simp only [hemp, hrest, List.isEmpty_nil, if_true, readErr, h1]
      refine ⟨by first | rfl | trivial, ?_⟩
      have h4 := hs.cap4
      rw [hs.cap] at h4
      constructor <;> simp [h2, pending, hs.cap, hs.ok, NoStall, Clean] <;> omega
  · have hne : p.rest ≠ [] := by
      rw [← hs.bytes]; intro hh; exact hemp (List.append_eq_nil_iff.mp hh).1
    have hdec : Utf8B.decodeRune p.rest = Utf8B.decodeRune b'.buf := by
      rw [← hs.bytes]
      by_cases he : b'.err = none
      · by_cases hfull : Utf8B.fullRune b'.buf = true
        · exact Utf8B.decodeRune_append_of_full _ _ hfull
        · apply Utf8B.decodeRune_append_of_length
          have hfull' : Utf8B.fullRune b'.buf = false := by simpa using hfull
          have := hs.cap4
          have := hs.fits
          simp only [Utf8B.utfMax] at hexit ⊢
          by_cases h4 : b'.buf.length < 4
          · by_cases hc : b'.buf.length < b'.cap
            · exact absurd ⟨h4, hfull', he, hc⟩ hexit
            · omega
          · omega
      · rcases hs.errs with ⟨h1, _⟩ | ⟨_, h2⟩
        · exact absurd h1 he
        · simp [h2, pending]
    have hsz := Utf8B.decodeRune_size b'.buf hemp
    simp only [List.isEmpty_iff, hemp, hne, if_false, decodeHead_eq b'.buf hemp, hdec]
    refine ⟨by first | rfl | trivial, ?_⟩
    constructor
    · show b'.buf.drop _ ++ pending b'.rd = p.rest.drop _
      rw [← hs.bytes, List.drop_append]
      have : (Utf8B.decodeRune b'.buf).2 - b'.buf.length = 0 := by omega
      simp [this]
    · exact hs.cap
    · exact hs.cap4
    · show (b'.buf.drop _).length ≤ b'.cap
      have := hs.fits
      simp only [List.length_drop]; omega
    · exact hs.ok
    · exact hs.nostall
    · exact hs.errs

theorem step_refines (op : Op) (b : BR) (p : Pure) (h : Sim b p) :
    (step op b).1 = (p.step op).1 ∧ Sim (step op b).2 (p.step op).2 := by
  cases op with
  | readRune =>
    have := readRune_refines b p h
    simp only [step, Pure.step]
    exact ⟨by rw [this.1], this.2⟩
  | peek n =>
    have := peek_refines n b p h
    simp only [step, Pure.step]
    exact ⟨by rw [this.1], this.2⟩

theorem run_refines (ops : List Op) (b : BR) (p : Pure) (h : Sim b p) :
    (run ops b).1 = (Pure.run ops p).1 := by
  induction ops generalizing b p with
  | nil => rfl
  | cons op rest ih =>
    have hs := step_refines op b p h
    simp only [run, Pure.run]
    rw [hs.1, ih _ _ hs.2]

theorem sim_init (script : Script) (size : Nat) (fin : Err) (hc : Clean script fin) (hn : NoStall script) :
    Sim (newReaderSize script size) { rest := pending script, fin := fin, cap := max size minReadBufferSize } := by
  constructor <;> simp [newReaderSize, hc, hn, minReadBufferSize]
  omega

theorem adaptive_refines (strat : Strategy) (f : Nat) (hist : List Res) (b : BR) (p : Pure) (h : Sim b p) :
    runAdaptive strat f hist b = Pure.runAdaptive strat f hist p := by
  induction f generalizing hist b p with
  | zero => rfl
  | succ f ih =>
    simp only [runAdaptive, Pure.runAdaptive]
    split
    · rfl
    · next op _ =>
      have hs := step_refines op b p h
      rw [hs.1]
      exact ih _ _ _ hs.2

/-- the lexer's reader-facing state over `bufio` and over the pure reader -/
structure CSim (c : Client) (q : PClient) : Prop where
  sim : Sim c.b q.p
  eof : c.eof = q.eof
  err : c.err = q.err

theorem client_step_refines (op : Op) (c : Client) (q : PClient) (h : CSim c q) :
    (c.step op).1 = (q.step op).1 ∧ CSim (c.step op).2 (q.step op).2 := by
  have hs := step_refines op c.b q.p h.sim
  cases op with
  | readRune =>
    simp only [Client.step, PClient.step, h.eof, h.err, hs.1]
    split
    · exact ⟨rfl, h⟩
    · refine ⟨rfl, ?_⟩
      split
      · exact ⟨hs.2, rfl, rfl⟩
      · exact ⟨hs.2, rfl, rfl⟩
  | peek n =>
    simp only [Client.step, PClient.step, h.eof, h.err, hs.1, BR.size, hs.2.cap]
    split
    · exact ⟨rfl, h⟩
    · exact ⟨rfl, hs.2, rfl, rfl⟩

theorem client_trace_refines (ops : List Op) (c : Client) (q : PClient) (h : CSim c q) :
    (Client.trace ops c).1 = (PClient.run ops q).1 ∧
      (Client.trace ops c).2.eof = (PClient.run ops q).2.eof ∧ (Client.trace ops c).2.err = (PClient.run ops q).2.err := by
  induction ops generalizing c q with
  | nil => exact ⟨rfl, h.eof, h.err⟩
  | cons op rest ih =>
    have hs := client_step_refines op c q h
    have := ih _ _ hs.2
    simp only [Client.trace, PClient.run]
    exact ⟨by rw [hs.1, this.1], this.2.1, this.2.2⟩

theorem client_trace_state (ops : List Op) (c : Client) : (Client.trace ops c).2 = Client.run ops c := by
  induction ops generalizing c with
  | nil => rfl
  | cons op rest ih => simp only [Client.trace, Client.run, ih]

end DC.Bufio
