import DC.Proofs.PrattTable

/-!
# C08: the model's EXPLAIN of `erase e` is the reference EXPLAIN of `e` (`explain_is_reference`)

The model prints with `collectConcatOperands` / `collectLogicalOperands` over the AST and its `Parenthesized` marks
and takes the names from `DC.Gen.OpFn`; the reference prints maximal unparenthesised chains of the tree with the names of
the specification. The generated name tables enter only through `N : namesOk` (a `decide`d fact in DC/Props/C08.lean).
-/
namespace DC.Proofs.Pratt
open DC.Gen DC.Model.Pratt DC.Spec.PrecSpec

/-- the generated operator → function tables give every fragment operator the specification's name -/
def namesOk : Prop :=
  (∀ o ∈ BinOp.all, operatorToFunction o.text = fnName o) ∧
  unaryOperatorToFunction UnOp.neg.text = "negate" ∧ unaryOperatorToFunction UnOp.not.text = "not"

instance : Decidable namesOk := by unfold namesOk; infer_instance

/-! ## unfolding lemmas of the two printers -/

theorem node_ident (s p d) : node (.ident s p) d = [indent d ++ "Identifier " ++ s] := by
  rw [node]

theorem node_binary (o l r p d) : node (.binary o l r p) d =
    if o.text == "||" then
      fnHeader d (operatorToFunction o.text) (collectConcatOperands (.binary o l r p)).length ++
        (collectConcatOperands (.binary o l r p)).flatMap (fun x => node x (d + 2))
    else if o.text == "OR" || o.text == "AND" then
      fnHeader d (operatorToFunction o.text) (collectLogicalOperands (.binary o l r p)).length ++
        (collectLogicalOperands (.binary o l r p)).flatMap (fun x => node x (d + 2))
    else fnHeader d (operatorToFunction o.text) 2 ++ node l (d + 2) ++ node r (d + 2) := by
  rw [node]
  simp only [List.flatMap_subtype, List.unattach_attach]

theorem node_neg_lit (v d) : node (.unary .neg (.lit v false)) d = [indent d ++ "Literal " ++ negatedLiteral v] := by
  rw [node]

theorem node_not (e d) : node (.unary .not e) d = fnHeader d (unaryOperatorToFunction UnOp.not.text) 1 ++ node e (d + 2) := by
  rw [node]
  intro v h; cases h

theorem node_neg (e d) (h : ∀ v, e ≠ .lit v false) : node (.unary .neg e) d = fnHeader d (unaryOperatorToFunction UnOp.neg.text) 1 ++ node e (d + 2) := by
  rw [node]
  intro v _ he; exact h v he

theorem ref_id (s d) : refLines (.id s) d = [pad d ++ "Identifier " ++ s] := by rw [refLines]
theorem ref_num (n d) : refLines (.num n) d = litLine d ("UInt64_" ++ toString n) := by rw [refLines]
theorem ref_par (x d) : refLines (.par x) d = refLines x d := by rw [refLines]
theorem ref_not (x d) : refLines (.not x) d = fnLines d "not" 1 ++ refLines x (d + 2) := by rw [refLines]
theorem ref_neg_num (n d) : refLines (.neg (.num n)) d = litLine d (if n = 0 then "UInt64_0" else "Int64_-" ++ toString n) := by
  rw [refLines]
theorem ref_neg (x d) (h : ∀ n, x ≠ .num n) : refLines (.neg x) d = fnLines d "negate" 1 ++ refLines x (d + 2) := by
  rw [refLines]
  intro n hn; exact h n hn
theorem ref_bin (o l r d) : refLines (.bin o l r) d =
    if flattens o then
      fnLines d (fnName o) (chainLen o l + chainLen o r) ++ chainLines o l (d + 2) ++ chainLines o r (d + 2)
    else fnLines d (fnName o) 2 ++ refLines l (d + 2) ++ refLines r (d + 2) := by
  rw [refLines]
theorem chain_bin (o o' l r d) : chainLines o (.bin o' l r) d =
    if o' = o then chainLines o l d ++ chainLines o r d else refLines (.bin o' l r) d := by
  rw [chainLines]
theorem chain_other (o e d) (h : ∀ o' l r, e ≠ .bin o' l r) : chainLines o e d = refLines e d := by
  cases e with
  | bin o' l r => exact absurd rfl (h o' l r)
  | _ => rw [chainLines]

/-! ## operator spellings -/

theorem text_beq (o o' : BinOp) : (o.text == o'.text) = decide (o = o') := by
  cases o <;> cases o' <;> decide

theorem text_concat (o : BinOp) : (o.text == "||") = decide (o = .concat) := text_beq o .concat

theorem text_logical (o : BinOp) : (o.text == "OR" || o.text == "AND") = decide (o = .or ∨ o = .and) := by
  cases o <;> decide

theorem flattens_iff (o : BinOp) : flattens o = decide (o = .concat ∨ o = .or ∨ o = .and) := by
  cases o <;> decide

/-! ## how parentheses show up in the AST -/

theorem node_markPar (a : Ast) (d : Nat) : node a.markPar d = node a d := by
  cases a with
  | ident s p => rw [Ast.markPar, node_ident, node_ident]
  | lit v p => rw [Ast.markPar, node, node]
  | unary o e => rfl
  | binary o l r p =>
    rw [Ast.markPar, node_binary, node_binary]
    simp only [collectConcatOperands, collectLogicalOperands]

theorem sameOpUnpar_markPar (o : BinOp) (a : Ast) : sameOpUnpar o a.markPar = false := by
  cases a <;> simp [Ast.markPar, sameOpUnpar]

theorem isConcat_markPar (a : Ast) : isConcat a.markPar = isConcat a := by
  cases a <;> rfl

/-- an unparenthesised literal in the AST comes from a bare number -/
theorem erase_lit {e : E} {v : Lit} (h : erase e = .lit v false) : ∃ n, e = .num n := by
  cases e with
  | num n => exact ⟨n, rfl⟩
  | par x =>
    simp only [erase] at h
    cases hx : erase x <;> simp [hx, Ast.markPar] at h
  | _ => simp [erase] at h

theorem sameOpUnpar_erase (o : BinOp) (e : E) :
    sameOpUnpar o (erase e) = (match e with | .bin o' _ _ => decide (o' = o) | _ => false) := by
  cases e with
  | bin o' l r => simp [erase, sameOpUnpar, text_beq]
  | par x => simp only [erase, sameOpUnpar_markPar]
  | _ => rfl

theorem isConcat_erase (e : E) :
    isConcat (erase e) = (match stripPar e with | .bin .concat _ _ => true | _ => false) := by
  induction e with
  | par x ih => simp only [erase, isConcat_markPar, stripPar, ih]
  | bin o l r _ _ =>
    simp only [erase, isConcat, stripPar, text_concat]
    cases o <;> rfl
  | _ => rfl

/-! ## operand lists -/

/-- what `collectLogicalOperands` contributes for one child -/
def contribL (o : BinOp) (a : Ast) : List Ast := if sameOpUnpar o a then collectLogicalOperands a else [a]

/-- what `collectConcatOperands` contributes for one child -/
def contribC (a : Ast) : List Ast := if isConcat a then collectConcatOperands a else [a]

theorem collectLogical_binary (o : BinOp) (l r : Ast) (p : Bool) :
    collectLogicalOperands (.binary o l r p) = contribL o l ++ contribL o r := by
  simp only [collectLogicalOperands, contribL]

theorem collectConcat_binary (o : BinOp) (l r : Ast) (p : Bool) :
    collectConcatOperands (.binary o l r p) = contribC l ++ contribC r := by
  simp only [collectConcatOperands, contribC]

theorem contribL_pos {o : BinOp} {a : Ast} (h : sameOpUnpar o a = true) : contribL o a = collectLogicalOperands a := by
  simp only [contribL, h, ite_true]

theorem contribL_neg {o : BinOp} {a : Ast} (h : sameOpUnpar o a = false) : contribL o a = [a] := by
  simp [contribL, h]

theorem contribC_pos {a : Ast} (h : isConcat a = true) : contribC a = collectConcatOperands a := by
  simp only [contribC, h, ite_true]

theorem contribC_neg {a : Ast} (h : isConcat a = false) : contribC a = [a] := by
  simp [contribC, h]

theorem indent_eq_pad (d : Nat) : indent d = pad d := rfl

theorem fnHeader_eq (d : Nat) (s : String) (n : Nat) : fnHeader d s n = fnLines d s n := rfl

/-! ## literals -/

theorem formatLiteral_litOf {n : Nat} (h : n < 2 ^ 64) : formatLiteral (litOf n) = "UInt64_" ++ toString n := by
  unfold litOf
  split
  · rfl
  · first | rfl | (rw [if_pos h]; rfl)

theorem negatedLiteral_litOf {n : Nat} (h : n ≤ 2 ^ 63) :
    negatedLiteral (litOf n) = if n = 0 then "UInt64_0" else "Int64_-" ++ toString n := by
  unfold litOf
  split
  · rfl
  · rename_i h1
    have h2 : n < 2 ^ 64 := by omega
    have hn : n = 9223372036854775808 := by omega
    subst hn
    rfl

/-! ## the main induction -/

/-- the three facts proved together for every tree -/
def Agrees (e : E) : Prop :=
  (∀ d, node (erase e) d = refLines e d) ∧
  (∀ o d, (o = .or ∨ o = .and) →
    (contribL o (erase e)).flatMap (fun x => node x d) = chainLines o e d ∧ (contribL o (erase e)).length = chainLen o e) ∧
  (isParConcat e = false → ∀ d,
    (contribC (erase e)).flatMap (fun x => node x d) = chainLines .concat e d ∧ (contribC (erase e)).length = chainLen .concat e)

/-- for a tree that is not a binary node, the chain facts follow from the first one -/
theorem agrees_of_single {e : E} (h1 : ∀ d, node (erase e) d = refLines e d)
    (hb : ∀ o' l r, e ≠ .bin o' l r)
    (hL : ∀ o, sameOpUnpar o (erase e) = false)
    (hC : isParConcat e = false → isConcat (erase e) = false) : Agrees e := by
  have hlen : ∀ o, chainLen o e = 1 := by
    intro o; cases e with
    | bin o' l r => exact absurd rfl (hb o' l r)
    | _ => rfl
  refine ⟨h1, ?_, ?_⟩
  · intro o d _
    simp [contribL_neg (hL o), h1, chain_other o e d hb, hlen]
  · intro hp d
    simp [contribC_neg (hC hp), h1, chain_other .concat e d hb, hlen]

theorem agrees (N : namesOk) (e : E) : litsInRange e → noParConcatUnderConcat e → Agrees e := by
  induction e with
  | id s =>
    intro _ _
    refine agrees_of_single ?_ (by intro _ _ _ h; cases h) (fun _ => rfl) (fun _ => rfl)
    intro d; rw [erase, node_ident, ref_id, indent_eq_pad]
  | num n =>
    intro hr _
    refine agrees_of_single ?_ (by intro _ _ _ h; cases h) (fun _ => rfl) (fun _ => rfl)
    intro d
    rw [erase, node, ref_num, formatLiteral_litOf hr, indent_eq_pad]; rfl
  | par x ih =>
    intro hr hn
    have ihx := ih hr hn
    refine agrees_of_single ?_ (by intro _ _ _ h; cases h) (fun o => by rw [erase, sameOpUnpar_markPar]) ?_
    · intro d; rw [erase, node_markPar, ref_par]; exact ihx.1 d
    · intro hp
      rw [isConcat_erase]
      simp only [isParConcat] at hp
      simp only [stripPar]
      split at hp
      · cases hp
      · rename_i hne
        split
        · rename_i l r heq; exact absurd heq (hne l r)
        · rfl
  | not x ih =>
    intro hr hn
    have ihx := ih hr hn
    refine agrees_of_single ?_ (by intro _ _ _ h; cases h) (fun _ => rfl) (fun _ => rfl)
    intro d; rw [erase, node_not, ref_not, N.2.2, fnHeader_eq, ihx.1]
  | neg x ih =>
    intro hr hn
    refine agrees_of_single ?_ (by intro _ _ _ h; cases h) (fun _ => rfl) (fun _ => rfl)
    intro d
    by_cases hx : ∃ n, x = .num n
    · obtain ⟨n, rfl⟩ := hx
      have hr' : n ≤ 2 ^ 63 := hr.1
      rw [erase, erase, node_neg_lit, ref_neg_num, negatedLiteral_litOf hr', indent_eq_pad]; rfl
    · have hx' : ∀ n, x ≠ .num n := fun n h => hx ⟨n, h⟩
      have hrx : litsInRange x := hr.2
      have ihx := ih hrx hn
      have hne : ∀ v, erase x ≠ .lit v false := fun v h => hx (erase_lit h)
      rw [erase, node_neg _ _ hne, ref_neg _ _ hx', N.2.1, fnHeader_eq, ihx.1]
  | bin o l r ihl ihr =>
    intro hr hn
    obtain ⟨hnc, hnl, hnr⟩ := hn
    have al := ihl hr.1 hnl
    have ar := ihr hr.2 hnr
    have hname : operatorToFunction o.text = fnName o := N.1 o (mem_all o)
    -- the node itself
    have h1 : ∀ d, node (erase (.bin o l r)) d = refLines (.bin o l r) d := by
      intro d
      rw [erase, node_binary, ref_bin, text_concat, text_logical, flattens_iff, hname]
      by_cases hc : o = .concat
      · subst hc
        obtain ⟨hpl, hpr⟩ := hnc rfl
        have cl := al.2.2 hpl (d + 2)
        have cr := ar.2.2 hpr (d + 2)
        simp only [decide_true, ite_true, true_or, collectConcat_binary, List.flatMap_append, List.length_append,
          cl.1, cl.2, cr.1, cr.2, fnHeader_eq, List.append_assoc]
      · by_cases hl : o = .or ∨ o = .and
        · have cl := al.2.1 o (d + 2) hl
          have cr := ar.2.1 o (d + 2) hl
          simp only [hc, hl, decide_false, decide_true, ite_true, or_true, collectLogical_binary,
            List.flatMap_append, List.length_append, cl.1, cl.2, cr.1, cr.2, fnHeader_eq, List.append_assoc]
          simp
        · have hl' : ¬ (o = .or) ∧ ¬ (o = .and) := by
            constructor <;> intro h <;> exact hl (by simp [h])
          simp only [hc, hl'.1, hl'.2, decide_false, or_self, fnHeader_eq, al.1, ar.1]
          simp
    refine ⟨h1, ?_, ?_⟩
    · intro o₀ d ho₀
      by_cases heq : o = o₀
      · subst heq
        have cl := al.2.1 o d ho₀
        have cr := ar.2.1 o d ho₀
        have hs : sameOpUnpar o (erase (.bin o l r)) = true := by simp [sameOpUnpar_erase]
        rw [contribL_pos hs, erase, collectLogical_binary, List.flatMap_append, List.length_append,
          chain_bin, if_pos rfl, chainLen, if_pos rfl, cl.1, cl.2, cr.1, cr.2]
        exact ⟨rfl, rfl⟩
      · have hs : sameOpUnpar o₀ (erase (.bin o l r)) = false := by simp [sameOpUnpar_erase, heq]
        rw [contribL_neg hs, chain_bin, if_neg heq, chainLen, if_neg heq]
        simp [h1]
    · intro _ d
      by_cases heq : o = .concat
      · subst heq
        obtain ⟨hpl, hpr⟩ := hnc rfl
        have cl := al.2.2 hpl d
        have cr := ar.2.2 hpr d
        have hs : isConcat (erase (.bin .concat l r)) = true := rfl
        rw [contribC_pos hs, erase, collectConcat_binary, List.flatMap_append, List.length_append,
          chain_bin, if_pos rfl, chainLen, if_pos rfl, cl.1, cl.2, cr.1, cr.2]
        exact ⟨rfl, rfl⟩
      · have hs : isConcat (erase (.bin o l r)) = false := by
          simp [erase, isConcat, text_concat, heq]
        rw [contribC_neg hs, chain_bin, if_neg heq, chainLen, if_neg heq]
        simp [h1]

/-- the model's EXPLAIN of the AST a tree denotes is the reference EXPLAIN of the tree -/
theorem explain_eq_ref (N : namesOk) (e : E) (hr : litsInRange e) (hn : noParConcatUnderConcat e) :
    explainModel (erase e) = refExplain e :=
  (agrees N e hr hn).1 0

end DC.Proofs.Pratt
