import DC.Model.StmtLoop

/-!
# Lemmas about `DC.Model.StmtLoop`: windows, fuel sufficiency, cancellation

Everything here is core-only. The theorems the properties C16 / C06 quote are re-stated in
`DC/Props/C16.lean` and `DC/Props/C06.lean`.
-/

namespace DC.Model.StmtLoop

open DC.Gen.Tokens (tSEMICOLON tPARALLEL tWITH tEOF tILLEGAL)

/-! ## Windows over a stream -/

theorem ofList_nextToken (l : List Tok) : (Window.ofList l).nextToken = Window.ofList l.tail := by
  rcases l with _ | ⟨a, l⟩ <;> simp [Window.ofList, Window.nextToken]

theorem new_eq_ofList (ts : List Tok) : Window.new ts = Window.ofList ts := by
  simp [Window.new, Window.nextToken, Window.ofList]
  rcases ts with _ | ⟨a, _ | ⟨b, _ | ⟨c, ts⟩⟩⟩ <;> simp

theorem ofList_size (l : List Tok) : (Window.ofList l).size = l.length := by
  rcases l with _ | ⟨a, _ | ⟨b, _ | ⟨c, ts⟩⟩⟩ <;> simp [Window.ofList, Window.size] <;> omega

theorem ofList_atEOF (l : List Tok) : (Window.ofList l).atEOF = l.isEmpty := by
  cases l <;> simp [Window.ofList, Window.atEOF]

theorem ofList_atEOF_nil : (Window.ofList []).atEOF = true := by simp [ofList_atEOF]

theorem ofList_atEOF_cons (a : Tok) (l : List Tok) : (Window.ofList (a :: l)).atEOF = false := by
  simp [ofList_atEOF]

theorem ofList_currentIs_cons (a : Tok) (l : List Tok) (k : Nat) :
    (Window.ofList (a :: l)).currentIs k = (a.kind == k) := by
  simp [Window.ofList, Window.currentIs, kindIs]

theorem ofList_currentIs_nil (k : Nat) : (Window.ofList []).currentIs k = false := by
  simp [Window.ofList, Window.currentIs, kindIs]

theorem skipSemis_ofList (l : List Tok) :
    skipSemis (Window.ofList l) = Window.ofList (dropSemis l) := by
  induction l with
  | nil =>
    unfold skipSemis
    simp [ofList_currentIs_nil, dropSemis]
  | cons a l ih =>
    unfold skipSemis
    by_cases h : (a.kind == tSEMICOLON) = true
    · simp only [ofList_currentIs_cons, h, ↓reduceDIte, ofList_nextToken, List.tail_cons, ih]
      simp [dropSemis, isSemi, h]
    · simp only [ofList_currentIs_cons, h]
      simp [dropSemis, isSemi, h]

theorem dropSemis_length_le (l : List Tok) : (dropSemis l).length ≤ l.length := by
  induction l with
  | nil => simp [dropSemis]
  | cons a l ih =>
    simp only [dropSemis, List.dropWhile_cons]
    split
    · exact Nat.le_trans ih (Nat.le_succ _)
    · exact Nat.le_refl _

theorem dropSemis_idem (l : List Tok) : dropSemis (dropSemis l) = dropSemis l := by
  induction l with
  | nil => simp [dropSemis]
  | cons a l ih =>
    by_cases h : isSemi a = true
    · simpa [dropSemis, h] using ih
    · simp [dropSemis, h]

theorem isParallelWith_ofList_false_of_boundary (rest : List Tok) (h : Boundary rest) :
    (Window.ofList rest).isParallelWith = false := by
  rcases h with rfl | ⟨t, r, rfl, ht⟩
  · simp [Window.isParallelWith, ofList_currentIs_nil]
  · have : t.kind = tSEMICOLON := by simpa [isSemi] using ht
    simp [Window.isParallelWith, ofList_currentIs_cons, this, tSEMICOLON, tPARALLEL]

/-! ## Fuel is never exhausted if `parseStmt` makes progress -/

section Fuel
variable {σ ε : Type} (ps : StmtParser σ ε) (mkPar : List σ → σ)

theorem callStmt_progress (hp : Progress ps) (i : Nat) (l : List Tok) (es : List ε)
    (lg : List (Nat × Window)) :
    ∃ st l' es' lg', callStmt ps i ⟨Window.ofList l, es, lg⟩ = (st, ⟨Window.ofList l', es', lg'⟩) ∧
      l'.length ≤ l.length ∧ (l ≠ [] → l'.length < l.length) := by
  obtain ⟨n, hn, hpos⟩ := hp l
  refine ⟨(ps (Window.ofList l)).stmt, l.drop n, es ++ (ps (Window.ofList l)).errs,
    lg ++ [(i, Window.ofList l)], ?_, ?_, ?_⟩
  · simp [callStmt, hn]
  · simp
  · intro hne
    have := hpos hne
    have : 0 < l.length := List.length_pos_iff.mpr hne
    simp; omega

theorem parWithLoop_progress (hp : Progress ps) (i : Nat) :
    ∀ (fuel : Nat) (acc : List σ) (l : List Tok) (es : List ε) (lg : List (Nat × Window)),
      l.length < fuel →
      ∃ acc' l' es' lg', parWithLoop ps i fuel acc ⟨Window.ofList l, es, lg⟩
          = some (acc', ⟨Window.ofList l', es', lg'⟩) ∧ l'.length ≤ l.length := by
  intro fuel
  induction fuel with
  | zero => intro acc l es lg h; omega
  | succ fuel ih =>
    intro acc l es lg hlt
    unfold parWithLoop
    by_cases hpw : (Window.ofList l).isParallelWith = true
    · simp only [hpw, ↓reduceIte, ofList_nextToken]
      obtain ⟨st, l', es', lg', hcall, hle, _⟩ := callStmt_progress ps hp i l.tail.tail es lg
      rw [hcall]
      have hl : l'.length < fuel := by
        have : l.tail.tail.length ≤ l.length := by simp; omega
        have hne : l ≠ [] := by
          intro h0; subst h0
          simp [Window.isParallelWith, ofList_currentIs_nil] at hpw
        have : 0 < l.length := List.length_pos_iff.mpr hne
        have : l.tail.tail.length < l.length := by simp; omega
        omega
      obtain ⟨acc', l'', es'', lg'', hrec, hle'⟩ := ih (appendNonNil acc st) l' es' lg' hl
      refine ⟨acc', l'', es'', lg'', hrec, ?_⟩
      have : l.tail.tail.length ≤ l.length := by simp; omega
      omega
    · simp only [hpw, Bool.false_eq_true, ↓reduceIte]
      exact ⟨acc, l, es, lg, rfl, Nat.le_refl _⟩

theorem parseAndAppend_progress (hp : Progress ps) (i : Nat) (stmts : List σ) (l : List Tok)
    (hne : l ≠ []) (es : List ε) (lg : List (Nat × Window)) :
    ∃ stmts' l' es' lg', parseAndAppend ps mkPar i stmts ⟨Window.ofList l, es, lg⟩
        = some (stmts', ⟨Window.ofList l', es', lg'⟩) ∧ l'.length < l.length := by
  obtain ⟨st, l1, es1, lg1, hcall, _, hlt⟩ := callStmt_progress ps hp i l es lg
  have hlt := hlt hne
  unfold parseAndAppend
  rw [hcall]
  cases st with
  | none => exact ⟨stmts, l1, es1, lg1, rfl, hlt⟩
  | some s =>
    by_cases hpw : (Window.ofList l1).isParallelWith = true
    · simp only [hpw, ↓reduceIte]
      unfold parseParallelWith
      obtain ⟨acc', l2, es2, lg2, hrec, hle⟩ :=
        parWithLoop_progress ps hp i ((Window.ofList l1).size + 1) [s] l1 es1 lg1
          (by rw [ofList_size]; omega)
      simp only [hrec]
      exact ⟨stmts ++ [mkPar acc'], l2, es2, lg2, rfl, by omega⟩
    · simp only [hpw, Bool.false_eq_true, ↓reduceIte]
      exact ⟨stmts ++ [s], l1, es1, lg1, rfl, hlt⟩

theorem loop_fuelOut_false (hp : Progress ps) (done : Nat → Bool) :
    ∀ (fuel i : Nat) (stmts : List σ) (l : List Tok) (es : List ε) (lg : List (Nat × Window)),
      l.length < fuel →
      (loop ps mkPar done fuel i stmts ⟨Window.ofList l, es, lg⟩).fuelOut = false := by
  intro fuel
  induction fuel with
  | zero => intro i stmts l es lg h; omega
  | succ fuel ih =>
    intro i stmts l es lg hlt
    unfold loop
    by_cases h1 : (Window.ofList l).atEOF = true
    · simp [h1]
    · simp only [h1, Bool.false_eq_true, ↓reduceIte]
      by_cases h2 : done i = true
      · simp [h2]
      · simp only [h2, Bool.false_eq_true, ↓reduceIte, PState.skipSemis, skipSemis_ofList]
        by_cases h3 : (Window.ofList (dropSemis l)).atEOF = true
        · simp [h3]
        · simp only [h3, Bool.false_eq_true, ↓reduceIte]
          have hne : dropSemis l ≠ [] := by
            intro h0; rw [h0] at h3; simp [ofList_atEOF] at h3
          obtain ⟨stmts', l', es', lg', hpa, hlt'⟩ :=
            parseAndAppend_progress ps mkPar hp i stmts (dropSemis l) hne es lg
          rw [hpa]
          simp only [skipSemis_ofList]
          apply ih
          have := dropSemis_length_le l
          have := dropSemis_length_le l'
          omega

end Fuel

/-! ## What one iteration adds -/

/-- `lg'` extends `lg` by `parseStatement` calls made in iterations `lo ≤ · < hi` -/
def LogExt (lo hi : Nat) (lg lg' : List (Nat × Window)) : Prop :=
  ∃ ext, lg' = lg ++ ext ∧ ∀ e ∈ ext, lo ≤ e.1 ∧ e.1 < hi

theorem LogExt.refl (lo hi : Nat) (lg : List (Nat × Window)) : LogExt lo hi lg lg :=
  ⟨[], by simp, by simp⟩

theorem LogExt.trans {lo hi : Nat} {a b c : List (Nat × Window)}
    (h1 : LogExt lo hi a b) (h2 : LogExt lo hi b c) : LogExt lo hi a c := by
  obtain ⟨e1, rfl, he1⟩ := h1
  obtain ⟨e2, rfl, he2⟩ := h2
  refine ⟨e1 ++ e2, by simp, ?_⟩
  intro e he
  rcases List.mem_append.mp he with h | h
  · exact he1 e h
  · exact he2 e h

theorem LogExt.mono {lo hi lo' hi' : Nat} {a b : List (Nat × Window)}
    (h : LogExt lo hi a b) (hlo : lo' ≤ lo) (hhi : hi ≤ hi') : LogExt lo' hi' a b := by
  obtain ⟨e, rfl, he⟩ := h
  exact ⟨e, rfl, fun x hx => by have := he x hx; omega⟩

theorem LogExt.prefix {lo hi : Nat} {a b : List (Nat × Window)} (h : LogExt lo hi a b) : a <+: b := by
  obtain ⟨e, rfl, _⟩ := h
  exact List.prefix_append _ _

section Ext
variable {σ ε : Type} (ps : StmtParser σ ε) (mkPar : List σ → σ)

theorem callStmt_log (i : Nat) (p : PState ε) :
    LogExt i (i + 1) p.log (callStmt ps i p).2.log :=
  ⟨[(i, p.w)], rfl, by simp⟩

theorem appendNonNil_prefix (acc : List σ) (st : Option σ) : acc <+: appendNonNil acc st := by
  cases st <;> simp [appendNonNil]

theorem parWithLoop_ext (i : Nat) :
    ∀ (fuel : Nat) (acc : List σ) (p : PState ε) (r : List σ × PState ε),
      parWithLoop ps i fuel acc p = some r → acc <+: r.1 ∧ LogExt i (i + 1) p.log r.2.log := by
  intro fuel
  induction fuel with
  | zero => intro acc p r h; simp [parWithLoop] at h
  | succ fuel ih =>
    intro acc p r h
    unfold parWithLoop at h
    by_cases hpw : p.w.isParallelWith = true
    · simp only [hpw, ↓reduceIte] at h
      obtain ⟨h1, h2⟩ := ih _ _ _ h
      refine ⟨(appendNonNil_prefix acc _).trans h1, ?_⟩
      exact LogExt.trans (callStmt_log ps i { p with w := p.w.nextToken.nextToken }) h2
    · simp only [hpw, Bool.false_eq_true, ↓reduceIte, Option.some.injEq] at h
      subst h
      exact ⟨List.prefix_rfl, LogExt.refl _ _ _⟩

theorem parseAndAppend_ext (i : Nat) (stmts : List σ) (p : PState ε) (r : List σ × PState ε)
    (h : parseAndAppend ps mkPar i stmts p = some r) :
    stmts <+: r.1 ∧ LogExt i (i + 1) p.log r.2.log := by
  unfold parseAndAppend at h
  have hc := callStmt_log ps i p
  generalize callStmt ps i p = c at h hc
  obtain ⟨st, p2⟩ := c
  cases st with
  | none =>
    simp only [Option.some.injEq] at h; subst h
    exact ⟨List.prefix_rfl, hc⟩
  | some s =>
    simp only at h
    by_cases hpw : p2.w.isParallelWith = true
    · simp only [hpw, ↓reduceIte] at h
      unfold parseParallelWith at h
      cases hpl : parWithLoop ps i (p2.w.size + 1) [s] p2 with
      | none => simp [hpl] at h
      | some r' =>
        obtain ⟨_, h2⟩ := parWithLoop_ext ps i _ _ _ _ hpl
        simp only [hpl, Option.some.injEq] at h; subst h
        exact ⟨List.prefix_append _ _, hc.trans h2⟩
    · simp only [hpw, Bool.false_eq_true, ↓reduceIte, Option.some.injEq] at h; subst h
      exact ⟨List.prefix_append _ _, hc⟩

@[simp] theorem skipSemis_log (p : PState ε) : p.skipSemis.log = p.log := rfl
@[simp] theorem skipSemis_errors (p : PState ε) : p.skipSemis.errors = p.errors := rfl

/-- the loop only ever appends to `statements` and to the call log -/
theorem loop_ext (done : Nat → Bool) :
    ∀ (fuel i : Nat) (stmts : List σ) (p : PState ε),
      stmts <+: (loop ps mkPar done fuel i stmts p).stmts ∧
      LogExt i (loop ps mkPar done fuel i stmts p).iters p.log (loop ps mkPar done fuel i stmts p).p.log ∧
      i ≤ (loop ps mkPar done fuel i stmts p).iters := by
  intro fuel
  induction fuel with
  | zero => intro i stmts p; simp [loop, LogExt.refl]
  | succ fuel ih =>
    intro i stmts p
    unfold loop
    by_cases h1 : p.w.atEOF = true
    · simp [h1, LogExt.refl]
    · simp only [h1, Bool.false_eq_true, ↓reduceIte]
      by_cases h2 : done i = true
      · simp [h2, LogExt.refl]
      · simp only [h2, Bool.false_eq_true, ↓reduceIte]
        by_cases h3 : p.skipSemis.w.atEOF = true
        · simp only [h3, ↓reduceIte, skipSemis_log]
          exact ⟨List.prefix_rfl, LogExt.refl _ _ _, Nat.le_succ _⟩
        · simp only [h3, Bool.false_eq_true, ↓reduceIte]
          cases hpa : parseAndAppend ps mkPar i stmts p.skipSemis with
          | none => exact ⟨List.prefix_rfl, LogExt.refl _ _ _, Nat.le_succ _⟩
          | some r =>
            obtain ⟨a1, a2⟩ := parseAndAppend_ext ps mkPar i stmts _ _ hpa
            obtain ⟨b1, b2, b3⟩ := ih (i + 1) r.1 r.2.skipSemis
            simp only
            refine ⟨a1.trans b1, ?_, by omega⟩
            exact (a2.mono (Nat.le_refl _) b3).trans (b2.mono (Nat.le_succ _) (Nat.le_refl _))

/-! ## A cancelled run against the uncancelled one -/

/-- Up to the iteration that observes `done`, the loop does exactly what it does without
cancellation: if it is not cancelled the two outcomes are equal; if it is, the uncancelled outcome
extends its statements and its call log. -/
theorem loop_vs_noCancel (done : Nat → Bool) :
    ∀ (fuel i : Nat) (stmts : List σ) (p : PState ε),
      ((loop ps mkPar done fuel i stmts p).cancelled = false →
        loop ps mkPar done fuel i stmts p = loop ps mkPar noCancel fuel i stmts p) ∧
      ((loop ps mkPar done fuel i stmts p).cancelled = true →
        (loop ps mkPar done fuel i stmts p).stmts <+: (loop ps mkPar noCancel fuel i stmts p).stmts ∧
        (loop ps mkPar done fuel i stmts p).p.log <+: (loop ps mkPar noCancel fuel i stmts p).p.log) := by
  intro fuel
  induction fuel with
  | zero => intro i stmts p; simp [loop]
  | succ fuel ih =>
    intro i stmts p
    by_cases h2 : done i = true
    · -- this iteration may observe the cancellation
      by_cases h1 : p.w.atEOF = true
      · simp [loop, h1]
      · have hx := loop_ext ps mkPar noCancel (fuel + 1) i stmts p
        have : loop ps mkPar done (fuel + 1) i stmts p = ⟨stmts, p, i + 1, true, false⟩ := by
          simp [loop, h1, h2]
        rw [this]
        exact ⟨by simp, fun _ => ⟨hx.1, hx.2.1.prefix⟩⟩
    · have hnc : noCancel i = false := rfl
      unfold loop
      by_cases h1 : p.w.atEOF = true
      · simp [h1]
      · simp only [h1, Bool.false_eq_true, ↓reduceIte, h2, hnc]
        by_cases h3 : p.skipSemis.w.atEOF = true
        · simp [h3]
        · simp only [h3, Bool.false_eq_true, ↓reduceIte]
          cases hpa : parseAndAppend ps mkPar i stmts p.skipSemis with
          | none => simp
          | some r => exact ih (i + 1) r.1 r.2.skipSemis

/-- A cancelled loop: the first iteration `j ≥ i` with `done j` is the one that returned, it sampled
`ctx.Done()` `j + 1 - i` times, and every `parseStatement` call it logged belongs to an iteration
before `j`. -/
theorem loop_cancelled (done : Nat → Bool) :
    ∀ (fuel i : Nat) (stmts : List σ) (p : PState ε),
      (loop ps mkPar done fuel i stmts p).cancelled = true →
      ∃ j, i ≤ j ∧ done j = true ∧ (∀ k, i ≤ k → k < j → done k = false) ∧
        (loop ps mkPar done fuel i stmts p).iters = j + 1 ∧
        LogExt i j p.log (loop ps mkPar done fuel i stmts p).p.log := by
  intro fuel
  induction fuel with
  | zero => intro i stmts p; simp [loop]
  | succ fuel ih =>
    intro i stmts p
    unfold loop
    by_cases h1 : p.w.atEOF = true
    · simp [h1]
    · simp only [h1, Bool.false_eq_true, ↓reduceIte]
      by_cases h2 : done i = true
      · simp only [h2, ↓reduceIte]
        intro _
        exact ⟨i, Nat.le_refl _, h2, fun k hk hk' => by omega, rfl, LogExt.refl _ _ _⟩
      · simp only [h2, Bool.false_eq_true, ↓reduceIte]
        by_cases h3 : p.skipSemis.w.atEOF = true
        · simp [h3]
        · simp only [h3, Bool.false_eq_true, ↓reduceIte]
          cases hpa : parseAndAppend ps mkPar i stmts p.skipSemis with
          | none => simp
          | some r =>
            simp only
            intro hc
            obtain ⟨j, hj1, hj2, hj3, hj4, hj5⟩ := ih (i + 1) r.1 r.2.skipSemis hc
            obtain ⟨_, a2⟩ := parseAndAppend_ext ps mkPar i stmts _ _ hpa
            refine ⟨j, by omega, hj2, ?_, hj4, ?_⟩
            · intro k hk hk'
              by_cases hki : k = i
              · subst hki; simpa using h2
              · exact hj3 k (by omega) hk'
            · exact (a2.mono (Nat.le_refl _) hj1).trans (hj5.mono (Nat.le_succ _) (Nat.le_refl _))

/-- A loop that was neither cancelled nor ran out of fuel stopped because `current` is EOF. -/
theorem loop_exit_atEOF (done : Nat → Bool) :
    ∀ (fuel i : Nat) (stmts : List σ) (p : PState ε),
      (loop ps mkPar done fuel i stmts p).cancelled = false →
      (loop ps mkPar done fuel i stmts p).fuelOut = false →
      (loop ps mkPar done fuel i stmts p).p.w.atEOF = true := by
  intro fuel
  induction fuel with
  | zero => intro i stmts p; simp [loop]
  | succ fuel ih =>
    intro i stmts p
    unfold loop
    by_cases h1 : p.w.atEOF = true
    · simp [h1]
    · simp only [h1, Bool.false_eq_true, ↓reduceIte]
      by_cases h2 : done i = true
      · simp [h2]
      · simp only [h2, Bool.false_eq_true, ↓reduceIte]
        by_cases h3 : p.skipSemis.w.atEOF = true
        · simp [h3]
        · simp only [h3, Bool.false_eq_true, ↓reduceIte]
          cases hpa : parseAndAppend ps mkPar i stmts p.skipSemis with
          | none => simp
          | some r => exact ih (i + 1) r.1 r.2.skipSemis

/-- never cancelled ⇒ the loop never leaves through `return statements, ctx.Err()` -/
theorem loop_not_cancelled (done : Nat → Bool) (hd : ∀ i, done i = false) :
    ∀ (fuel i : Nat) (stmts : List σ) (p : PState ε),
      (loop ps mkPar done fuel i stmts p).cancelled = false := by
  intro fuel i stmts p
  cases h : (loop ps mkPar done fuel i stmts p).cancelled with
  | false => rfl
  | true =>
    obtain ⟨j, _, hj, _⟩ := loop_cancelled ps mkPar done fuel i stmts p h
    rw [hd j] at hj; cases hj

/-! ## `finish` -/

theorem finish_err_ctx_iff (readErr : Option ε) (o : LoopOut σ ε) :
    (finish readErr o).err = ErrKind.ctx ↔ o.cancelled = true := by
  unfold finish
  cases o.cancelled with
  | true => simp
  | false =>
    cases readErr with
    | some e => simp
    | none => by_cases h : o.p.errors.isEmpty = true <;> simp [h]
end Ext
end DC.Model.StmtLoop
