import DC.Proofs.BufioErr

/-! Evaluation of the model on concrete scripts inside proofs. `peekLoop`/`rrLoop` are defined by well-founded
recursion, which `decide` cannot unfold; here they are shown equal to fuel-driven copies (`cap + 1` iterations always
suffice), and the (non-recursive) functions built on them are re-stated over the copies, so that closed instances
are decided by kernel evaluation. -/
namespace DC.Bufio
open DC

def peekLoopF : Nat → Nat → BR → BR
  | 0, _, b => b
  | f + 1, n, b =>
    if b.buf.length < n ∧ b.buf.length < b.cap ∧ b.err = none ∧ b.panicked = false then peekLoopF f n (fill b) else b

def rrLoopF : Nat → BR → BR
  | 0, b => b
  | f + 1, b =>
    if b.buf.length < Utf8B.utfMax ∧ Utf8B.fullRune b.buf = false ∧ b.err = none ∧ b.buf.length < b.cap ∧ b.panicked = false
    then rrLoopF f (fill b) else b

theorem room_zero (b : BR) (h : b.room = 0) : ¬ (b.err = none ∧ b.panicked = false) := by
  intro hh
  simp [BR.room, hh.1, hh.2] at h

theorem peekLoopF_eq (f n : Nat) (b : BR) (h : b.room ≤ f) : peekLoopF f n b = peekLoop n b := by
  induction f generalizing b with
  | zero =>
    rw [peekLoop, peekLoopF]
    have := room_zero b (by omega)
    rw [dif_neg (fun hh => this ⟨hh.2.2.1, hh.2.2.2⟩)]
  | succ f ih =>
    rw [peekLoop, peekLoopF]
    by_cases hc : b.buf.length < n ∧ b.buf.length < b.cap ∧ b.err = none ∧ b.panicked = false
    · rw [if_pos hc, dif_pos hc]
      exact ih _ (by have := fill_room b hc.2.1 hc.2.2.1 hc.2.2.2; omega)
    · rw [if_neg hc, dif_neg hc]

theorem rrLoopF_eq (f : Nat) (b : BR) (h : b.room ≤ f) : rrLoopF f b = rrLoop b := by
  induction f generalizing b with
  | zero =>
    rw [rrLoop, rrLoopF]
    have := room_zero b (by omega)
    rw [dif_neg (fun hh => this ⟨hh.2.2.1, hh.2.2.2.2⟩)]
  | succ f ih =>
    rw [rrLoop, rrLoopF]
    by_cases hc : b.buf.length < Utf8B.utfMax ∧ Utf8B.fullRune b.buf = false ∧ b.err = none ∧ b.buf.length < b.cap ∧ b.panicked = false
    · rw [if_pos hc, dif_pos hc]
      exact ih _ (by have := fill_room b hc.2.2.2.1 hc.2.2.1 hc.2.2.2.2; omega)
    · rw [if_neg hc, dif_neg hc]

theorem room_le (b : BR) : b.room ≤ b.cap + 1 := by
  unfold BR.room; split <;> omega

/-- `peekLoop`, executable by the kernel -/
def peekLoopE (n : Nat) (b : BR) : BR := peekLoopF (b.cap + 1) n b
/-- `rrLoop`, executable by the kernel -/
def rrLoopE (b : BR) : BR := rrLoopF (b.cap + 1) b

theorem peekLoop_eqE (n : Nat) (b : BR) : peekLoop n b = peekLoopE n b := (peekLoopF_eq _ n b (room_le b)).symm
theorem rrLoop_eqE (b : BR) : rrLoop b = rrLoopE b := (rrLoopF_eq _ b (room_le b)).symm

def peekE (n : Nat) (b : BR) : (Bytes × Option Err) × BR :=
  let b := peekLoopE n b
  if n > b.cap then ((b.buf, some .bufferFull), b)
  else if b.buf.length < n then
    let e := readErr b
    ((b.buf, some (e.1.getD .bufferFull)), e.2)
  else ((b.buf.take n, none), b)

def readRuneE (b : BR) : RuneRes × BR :=
  let b := rrLoopE b
  if b.buf.isEmpty then
    let e := readErr b
    ({ rune := 0, size := 0, err := e.1 }, e.2)
  else
    let d := decodeHead b.buf
    ({ rune := d.1, size := d.2, err := none }, { b with r := b.r + d.2, buf := b.buf.drop d.2 })

theorem peek_eqE (n : Nat) (b : BR) : peek n b = peekE n b := by
  unfold peek peekE; rw [peekLoop_eqE]

theorem readRune_eqE (b : BR) : readRune b = readRuneE b := by
  unfold readRune readRuneE; rw [rrLoop_eqE]

def stepE (op : Op) (b : BR) : Res × BR :=
  match op with
  | .readRune => let r := readRuneE b; (.rune r.1, r.2)
  | .peek n => let r := peekE n b; (.bytes r.1.1 r.1.2, r.2)

theorem step_eqE (op : Op) (b : BR) : step op b = stepE op b := by
  cases op <;> simp [step, stepE, peek_eqE, readRune_eqE]

def runE (ops : List Op) (b : BR) : List Res × BR :=
  match ops with
  | [] => ([], b)
  | op :: rest =>
    let r := stepE op b
    let rs := runE rest r.2
    (r.1 :: rs.1, rs.2)

theorem run_eqE (ops : List Op) (b : BR) : run ops b = runE ops b := by
  induction ops generalizing b with
  | nil => rfl
  | cons op rest ih => simp only [run, runE, step_eqE, ih]

def Client.stepE (op : Op) (c : Client) : Option Res × Client :=
  if c.eof then (none, c)
  else
    let r := DC.Bufio.stepE op c.b
    match op with
    | .readRune =>
      let c' := { c with b := r.2, err := recordErr c.err r.1.err }
      (some r.1, if r.1.err.isSome then { c' with eof := true } else c')
    | .peek n =>
      (some r.1, { c with b := r.2, err := if n ≤ r.2.size then recordErr c.err r.1.err else c.err })

def Client.runE (ops : List Op) (c : Client) : Client :=
  match ops with
  | [] => c
  | op :: rest => Client.runE rest (c.stepE op).2

theorem Client.step_eqE (op : Op) (c : Client) : c.step op = c.stepE op := by
  cases op <;> simp [Client.step, Client.stepE, DC.Bufio.step_eqE]

theorem Client.run_eqE (ops : List Op) (c : Client) : Client.run ops c = Client.runE ops c := by
  induction ops generalizing c with
  | nil => rfl
  | cons op rest ih => simp only [Client.run, Client.runE, Client.step_eqE, ih]

def Client.stepOldE (op : Op) (c : Client) : Option Res × Client :=
  if c.eof then (none, c)
  else
    let r := DC.Bufio.stepE op c.b
    let c' := { c with b := r.2 }
    match op with
    | .readRune => (some r.1, if r.1.err.isSome then { c' with eof := true } else c')
    | .peek _ => (some r.1, c')

def Client.runOldE (ops : List Op) (c : Client) : Client :=
  match ops with
  | [] => c
  | op :: rest => Client.runOldE rest (c.stepOldE op).2

theorem Client.stepOld_eqE (op : Op) (c : Client) : c.stepOld op = c.stepOldE op := by
  cases op <;> simp [Client.stepOld, Client.stepOldE, DC.Bufio.step_eqE]

theorem Client.runOld_eqE (ops : List Op) (c : Client) : Client.runOld ops c = Client.runOldE ops c := by
  induction ops generalizing c with
  | nil => rfl
  | cons op rest ih => simp only [Client.runOld, Client.runOldE, Client.stepOld_eqE, ih]

def Client.stepMidE (op : Op) (c : Client) : Option Res × Client :=
  if c.eof then (none, c)
  else
    let r := DC.Bufio.stepE op c.b
    let c' := { c with b := r.2, err := recordErrMid c.err r.1.err }
    match op with
    | .readRune => (some r.1, if r.1.err.isSome then { c' with eof := true } else c')
    | .peek _ => (some r.1, c')

def Client.runMidE (ops : List Op) (c : Client) : Client :=
  match ops with
  | [] => c
  | op :: rest => Client.runMidE rest (c.stepMidE op).2

theorem Client.stepMid_eqE (op : Op) (c : Client) : c.stepMid op = c.stepMidE op := by
  cases op <;> simp [Client.stepMid, Client.stepMidE, DC.Bufio.step_eqE]

theorem Client.runMid_eqE (ops : List Op) (c : Client) : Client.runMid ops c = Client.runMidE ops c := by
  induction ops generalizing c with
  | nil => rfl
  | cons op rest ih => simp only [Client.runMid, Client.runMidE, Client.stepMid_eqE, ih]

end DC.Bufio
