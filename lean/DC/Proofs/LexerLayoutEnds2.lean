import DC.Proofs.LexerLayoutEnds
import DC.Proofs.LexerLayoutOpaque

/-!
# A white-space rune ends the token before it, part 2 (C05 `token_ends_at_ws_*` for the remaining scanners)

`LexerLayoutEnds.lean` has identifiers / keywords, ASCII decimal integers and the 30 operator spellings. Here:

* string literals `'…'`, quoted identifiers `"…"` and `` `…` `` with every escape form of `QBody` / `DBody`
  (`LexerLayoutOpaque.lean`), `{…}` parameters, `‘…’` / `“…”` (closed by U+2019 / U+201D): these end at their
  closing delimiter, whatever follows (for `'`, `"`, `` ` ``: anything but the same quote) — in particular white space;
* `@`, `@@`, `@@name`;
* numbers through `readNumberOrIdent` (`NumTok`): digit groups with `_`, fraction, trailing dot, exponent, hex
  (with `_`, fraction, `p` exponent), binary, octal; and through `readDot`/`readNumber` (`DotNum`): `.5`, `.5e-3`;
* digit-initial identifiers (`DigIdent`): `02422_data`, `1a`;
* `$`-initial identifiers in the case where `tryReadDollarTag` gives up before it searches (`DollarIdent`).

`WsTok` collects all classes (including `SimpleTok`), `WsTok.ends_at_ws` is the uniform statement, and
`SameToks` / `SameToks.pumped` the gap-exchange theorem for texts made of such tokens.
-/
namespace DC.Lexer
open DC.Utf8 DC.Gen.Tokens DC.Gen.Unicode

/-! ## facts about the white-space rune that follows -/

theorem ws_ascii_or_high {r : Nat} (h : isWs r = true) :
    r = 9 ∨ r = 10 ∨ r = 11 ∨ r = 12 ∨ r = 13 ∨ r = 32 ∨ 128 ≤ r := (ws_inert h).2.2.2.2

theorem ws_not_hex {r : Nat} (h : isWs r = true) : isHexDigit r = false := by
  have h3 := (ws_inert h).2.2.1
  have h5 := ws_ascii_or_high h
  unfold isHexDigit
  rw [h3]
  simp only [Bool.false_or, Bool.or_eq_false_iff, Bool.and_eq_false_iff, decide_eq_false_iff_not]
  omega

theorem runeError_inert : isDigit runeError = false ∧ isLetter runeError = false ∧ isIdentStart runeError = false := by
  decide +kernel

/-- `peekChar` in front of a white-space rune: the rune itself if it is ASCII, else U+FFFD (one byte is decoded). -/
theorem peek_ws {s : LState} {p : Bytes} {c : Nat} (hd : Dec p c) {w : Bytes} {r : Nat} (hw : Dec w r)
    (rest : Bytes) (hs : Ent s (p ++ (w ++ rest))) : peekChar s = r ∨ peekChar s = runeError := by
  obtain ⟨_, he, hrest⟩ := hs.dec hd
  unfold peekChar
  rw [he, hrest]
  cases w with
  | nil => exact absurd rfl hw.1
  | cons b w' =>
    simp only [Bool.false_eq_true, if_false, List.cons_append]
    by_cases hb : b.toNat < 128
    · have := hw.2 rest
      rw [List.cons_append, decodeRune_ascii b _ hb] at this
      rw [decodeRune_ascii b [] hb]
      simp only [Prod.mk.injEq] at this
      exact Or.inl this.1
    · rw [decodeRune_single b (by omega)]
      exact Or.inr rfl

/-- … so it is not a digit, not a letter, no identifier start, and no ASCII character other than the rune. -/
theorem peek_ws_facts {s : LState} {p : Bytes} {c : Nat} (hd : Dec p c) {w : Bytes} {r : Nat} (hw : Dec w r)
    (hr : isWs r = true) (rest : Bytes) (hs : Ent s (p ++ (w ++ rest))) :
    isDigit (peekChar s) = false ∧ isLetter (peekChar s) = false ∧ isIdentStart (peekChar s) = false ∧
      (∀ x, x < 128 → x ≠ r → peekChar s ≠ x) := by
  obtain ⟨_, h2, h3, h4, _⟩ := ws_inert hr
  rcases peek_ws hd hw rest hs with h | h
  · rw [h]; exact ⟨h3, h2, h4, fun x _ hx e => hx e.symm⟩
  · rw [h]
    exact ⟨runeError_inert.1, runeError_inert.2.1, runeError_inert.2.2, fun x hx _ e => by
      unfold runeError at e; omega⟩

theorem firstRune_ws {w : Bytes} {r : Nat} (hw : Dec w r) (rest : Bytes) : firstRune (w ++ rest) = r :=
  firstRune_dec hw rest

/-! ## 1. string literals -/

/-- `'body'` (any `QBody`: plain runes, `''`, `\c`, `\xHH`) followed by a white-space rune. -/
theorem string_ends_at_ws {body val : Bytes} (hb : QBody false 39 [39] body val)
    {w : Bytes} {r : Nat} (hw : Dec w r) (hr : isWs r = true) (rest : Bytes)
    {s : LState} (hs : Ent s ((39 :: body ++ [39]) ++ (w ++ rest))) :
    (nextToken s).1.kvq = (tSTRING, val, false) ∧ Ent (nextToken s).2 (w ++ rest) := by
  have hs' : Ent s (39 :: body ++ 39 :: (w ++ rest)) := by simpa using hs
  exact string_tok_esc hb (w ++ rest) (by rw [firstRune_ws hw]; have := ws_ascii_or_high hr; omega) hs'

/-! ## 2. quoted identifiers -/

theorem dquote_ends_at_ws {body val : Bytes} (hb : DBody body val)
    {w : Bytes} {r : Nat} (hw : Dec w r) (hr : isWs r = true) (rest : Bytes)
    {s : LState} (hs : Ent s ((34 :: body ++ [34]) ++ (w ++ rest))) :
    (nextToken s).1.kvq = (tIDENT, val, true) ∧ Ent (nextToken s).2 (w ++ rest) := by
  have hs' : Ent s (34 :: body ++ 34 :: (w ++ rest)) := by simpa using hs
  exact dquote_tok_esc hb (w ++ rest) (by rw [firstRune_ws hw]; have := ws_ascii_or_high hr; omega) hs'

theorem backtick_ends_at_ws {body val : Bytes} (hb : QBody true 96 [96] body val)
    {w : Bytes} {r : Nat} (hw : Dec w r) (hr : isWs r = true) (rest : Bytes)
    {s : LState} (hs : Ent s ((96 :: body ++ [96]) ++ (w ++ rest))) :
    (nextToken s).1.kvq = (tIDENT, val, false) ∧ Ent (nextToken s).2 (w ++ rest) := by
  have hs' : Ent s (96 :: body ++ 96 :: (w ++ rest)) := by simpa using hs
  exact backtick_tok_esc hb (w ++ rest) (by rw [firstRune_ws hw]; have := ws_ascii_or_high hr; omega) hs'

/-! ## 3. `{…}`, `‘…’`, `“…”`: read up to the closing delimiter -/

theorem untilCond_live (q : Nat) (s : LState) (he : s.eof = false) :
    untilCond q s = (fun c => decide (c ≠ q)) s.ch := by
  simp [untilCond, he]

/-- `readUntil close` from a state on the opener: the body (no rune equal to `close`) is the value, and the lexer
enters what follows the closing delimiter — whatever that is. -/
theorem readUntil_run (q : Nat) {op : Bytes} {o : Nat} (ho : Dec op o) {qb : Bytes} (hq : Dec qb q)
    {body : Bytes} {rs : List Nat} (hb : Spells body rs) (hno : ∀ x ∈ rs, x ≠ q) (rest : Bytes)
    {s : LState} (hs : Ent s (op ++ (body ++ (qb ++ rest)))) :
    (readUntil q s).2 = (enc rs).reverse ∧ Ent (readUntil q s).1 rest := by
  have hs1 := hs.readChar ho
  obtain ⟨ha, hst⟩ := scanWhile_run (untilCond q) (untilCond_ok q) (fun c => decide (c ≠ q)) (untilCond_live q) hb
    (fun x hx => by simp [hno x hx]) (rest := qb ++ rest) (by rw [firstRune_dec hq]; simp) [] hs1
  unfold readUntil
  simp only []
  rw [if_pos (hst.dec hq).1]
  exact ⟨by rw [ha, List.append_nil], hst.readChar hq⟩

theorem dec123 : Dec [123] 123 := dec_ascii (b := 123) (by decide)
theorem dec125 : Dec [125] 125 := dec_ascii (b := 125) (by decide)

/-- `{body}` where no rune of the body is `}`: one `PARAM` token, the lexer enters `rest` (arbitrary). -/
theorem param_tok {body : Bytes} {rs : List Nat} (hb : Spells body rs) (hno : ∀ x ∈ rs, x ≠ 125) (rest : Bytes)
    {s : LState} (hs : Ent s ((123 :: body ++ [125]) ++ rest)) :
    (nextToken s).1.kvq = (tPARAM, enc rs, false) ∧ Ent (nextToken s).2 rest := by
  have hs' : Ent s ([123] ++ (body ++ ([125] ++ rest))) := by simpa using hs
  obtain ⟨hch, he, _⟩ := hs'.dec dec123
  obtain ⟨ha, hst⟩ := readUntil_run 125 dec123 dec125 hb hno rest hs'
  have hE : nextTokenE s = .ok (readParameter s) := by
    rw [nextTokenE_live (by rw [hch]; decide) he (by rw [hch]; decide)]
    simp [hch, nextTokenSwitch, singleCharKind, readOperator]
  rw [nextToken_of_E hE]
  simp only [readParameter, kvq_tokAt]
  exact ⟨by rw [ha, List.reverse_reverse], hst⟩

/-- `‘body’` / `’body’` (opening quote U+2018 or U+2019, closing quote always U+2019, lexer.go:663-682). -/
theorem ustring_tok {op : Bytes} {o : Nat} (ho : Dec op o) (ho' : o = 0x2018 ∨ o = 0x2019)
    {qb : Bytes} (hq : Dec qb 0x2019)
    {body : Bytes} {rs : List Nat} (hb : Spells body rs) (hno : ∀ x ∈ rs, x ≠ 0x2019) (rest : Bytes)
    {s : LState} (hs : Ent s ((op ++ body ++ qb) ++ rest)) :
    (nextToken s).1.kvq = (tSTRING, enc rs, false) ∧ Ent (nextToken s).2 rest := by
  have hs' : Ent s (op ++ (body ++ (qb ++ rest))) := by simpa using hs
  obtain ⟨hch, he, _⟩ := hs'.dec ho
  obtain ⟨ha, hst⟩ := readUntil_run 0x2019 ho hq hb hno rest hs'
  have hE : nextTokenE s = .ok (readUnicodeString s.ch s) := by
    rw [nextTokenE_live (by rw [hch]; rcases ho' with h | h <;> (rw [h]; decide +kernel)) he
      (by rw [hch]; omega)]
    rcases ho' with h | h <;> simp [hch, h, nextTokenSwitch, singleCharKind, readOperator]
  rw [nextToken_of_E hE]
  simp only [readUnicodeString, kvq_tokAt]
  exact ⟨by rw [ha, List.reverse_reverse], hst⟩

/-- `“body”` / `”body”` (closing quote always U+201D, lexer.go:685-704): a quoted identifier. -/
theorem uquoted_tok {op : Bytes} {o : Nat} (ho : Dec op o) (ho' : o = 0x201C ∨ o = 0x201D)
    {qb : Bytes} (hq : Dec qb 0x201D)
    {body : Bytes} {rs : List Nat} (hb : Spells body rs) (hno : ∀ x ∈ rs, x ≠ 0x201D) (rest : Bytes)
    {s : LState} (hs : Ent s ((op ++ body ++ qb) ++ rest)) :
    (nextToken s).1.kvq = (tIDENT, enc rs, true) ∧ Ent (nextToken s).2 rest := by
  have hs' : Ent s (op ++ (body ++ (qb ++ rest))) := by simpa using hs
  obtain ⟨hch, he, _⟩ := hs'.dec ho
  obtain ⟨ha, hst⟩ := readUntil_run 0x201D ho hq hb hno rest hs'
  have hE : nextTokenE s = .ok (readUnicodeQuotedIdentifier s.ch s) := by
    rw [nextTokenE_live (by rw [hch]; rcases ho' with h | h <;> (rw [h]; decide +kernel)) he
      (by rw [hch]; omega)]
    rcases ho' with h | h <;> simp [hch, h, nextTokenSwitch, singleCharKind, readOperator]
  rw [nextToken_of_E hE]
  simp only [readUnicodeQuotedIdentifier, kvq_tokAt]
  exact ⟨by rw [ha, List.reverse_reverse], hst⟩

/-! ## 4. `@`, `@@`, `@@name` -/

theorem dec64 : Dec [64] 64 := dec_ascii (b := 64) (by decide)

theorem nextTokenE_at {s : LState} (he : s.eof = false) (hch : s.ch = 64) : nextTokenE s = .ok (readAt s) := by
  rw [nextTokenE_live (by rw [hch]; decide) he (by rw [hch]; decide)]
  simp [hch, nextTokenSwitch, singleCharKind, readOperator]

/-- a lone `@` followed by a white-space rune (in fact by anything but `@`). -/
theorem at_ends_at_ws {w : Bytes} {r : Nat} (hw : Dec w r) (hr : isWs r = true) (rest : Bytes)
    {s : LState} (hs : Ent s ([64] ++ (w ++ rest))) :
    (nextToken s).1.kvq = (tIDENT, [64], false) ∧ Ent (nextToken s).2 (w ++ rest) := by
  obtain ⟨hch, he, _⟩ := hs.dec dec64
  have hpk : ¬ peekChar s = 64 := by
    rw [hs.peek dec64 64 (by decide), firstRune_ws hw]; have := ws_ascii_or_high hr; omega
  rw [nextToken_of_E (nextTokenE_at he hch)]
  unfold readAt
  rw [if_neg hpk]
  exact ⟨rfl, hs.readChar dec64⟩

/-- `@@` followed by a white-space rune. -/
theorem atat_ends_at_ws {w : Bytes} {r : Nat} (hw : Dec w r) (hr : isWs r = true) (rest : Bytes)
    {s : LState} (hs : Ent s ([64, 64] ++ (w ++ rest))) :
    (nextToken s).1.kvq = (tIDENT, [64, 64], false) ∧ Ent (nextToken s).2 (w ++ rest) := by
  have hs' : Ent s ([64] ++ ([64] ++ (w ++ rest))) := hs
  obtain ⟨hch, he, _⟩ := hs'.dec dec64
  have hpk : peekChar s = 64 := (hs'.peek dec64 64 (by decide)).2 (firstRune_dec dec64 _)
  have hs2 : Ent (readChar (readChar s)) (w ++ rest) := (hs'.readChar dec64).readChar dec64
  have hc2 : (readChar (readChar s)).ch = r := (hs2.dec hw).1
  obtain ⟨_, _, h3, h4, _⟩ := ws_inert hr
  rw [nextToken_of_E (nextTokenE_at he hch)]
  unfold readAt
  rw [if_pos hpk]
  simp only []
  rw [if_neg (by rw [hc2, h3, h4]; decide)]
  exact ⟨rfl, hs2⟩

/-- `@@name` (`name`: first rune an identifier start or a digit, all runes identifier characters). -/
theorem atname_ends_at_ws {body : Bytes} {r0 : Nat} {rs : List Nat} (hb : Spells body (r0 :: rs))
    (h0 : (isIdentStart r0 || isDigit r0) = true) (hall : ∀ x ∈ r0 :: rs, isIdentChar x = true)
    {w : Bytes} {r : Nat} (hw : Dec w r) (hr : isWs r = true) (rest : Bytes)
    {s : LState} (hs : Ent s ((64 :: 64 :: body) ++ (w ++ rest))) :
    (nextToken s).1.kvq = (tIDENT, 64 :: 64 :: enc (r0 :: rs), false) ∧ Ent (nextToken s).2 (w ++ rest) := by
  have hs' : Ent s ([64] ++ ([64] ++ (body ++ (w ++ rest)))) := by simpa using hs
  obtain ⟨hch, he, _⟩ := hs'.dec dec64
  have hpk : peekChar s = 64 := (hs'.peek dec64 64 (by decide)).2 (firstRune_dec dec64 _)
  have hs2 : Ent (readChar (readChar s)) (body ++ (w ++ rest)) := (hs'.readChar dec64).readChar dec64
  obtain ⟨p, bs, rfl, hd, hb1⟩ := hb.cons_inv
  have hc2 : (readChar (readChar s)).ch = r0 := by
    have : Ent (readChar (readChar s)) (p ++ (bs ++ (w ++ rest))) := by rw [← List.append_assoc]; exact hs2
    exact (this.dec hd).1
  obtain ⟨ha, hst⟩ := scanWhile_run identCharCond identCharCond_ok isIdentChar identCharCond_live
    (Spells.cons hd hb1) hall (by rw [firstRune_ws hw]; exact (ws_inert hr).1) [64, 64] hs2
  rw [nextToken_of_E (nextTokenE_at he hch)]
  unfold readAt
  rw [if_pos hpk]
  simp only []
  rw [if_pos (by rw [hc2]; exact h0)]
  simp only [kvq_tokAt, ha]
  exact ⟨by simp, hst⟩

/-! ## 5. numbers: the building blocks -/

/-- the pair `x` (state, reversed buffer) stands on the first rune of `bs` and has written `acc`. -/
def At (x : LState × Bytes) (bs acc : Bytes) : Prop := Ent x.1 bs ∧ x.2 = acc

/-- ASCII decimal digits. -/
def Digs (ds : Bytes) : Prop := ∀ b ∈ ds, 48 ≤ b.toNat ∧ b.toNat ≤ 57

theorem Digs.tail {d : UInt8} {ds : Bytes} (h : Digs (d :: ds)) : Digs ds := fun b hb => h b (List.mem_cons_of_mem _ hb)
theorem Digs.head {d : UInt8} {ds : Bytes} (h : Digs (d :: ds)) : 48 ≤ d.toNat ∧ d.toNat ≤ 57 := h d (List.mem_cons_self ..)

/-- what ends a digit run (with `_` separators): not a digit and not `_`. -/
def Stop (tail : Bytes) : Prop := isDigit (firstRune tail) = false ∧ firstRune tail ≠ 95

theorem stop_ws {w : Bytes} {r : Nat} (hw : Dec w r) (hr : isWs r = true) (rest : Bytes) : Stop (w ++ rest) := by
  unfold Stop
  rw [firstRune_ws hw]
  exact ⟨(ws_inert hr).2.2.1, by have := ws_ascii_or_high hr; omega⟩

theorem stop_ascii {b : UInt8} (hb : b.toNat < 128) (h1 : isDigit b.toNat = false) (h2 : b.toNat ≠ 95) (t : Bytes) :
    Stop (b :: t) := by
  unfold Stop
  rw [firstRune_cons_ascii b t hb]
  exact ⟨h1, h2⟩

theorem pushRune_ascii (acc : Bytes) (b : UInt8) (h : b.toNat < 128) : pushRune acc b.toNat = b :: acc := by
  unfold pushRune; rw [encodeRune_ascii b h]; rfl

theorem At.ch_ascii {x : LState × Bytes} {b : UInt8} {tail acc : Bytes} (h : At x (b :: tail) acc)
    (hb : b.toNat < 128) : x.1.ch = b.toNat := by
  have he' : Ent x.1 ([b] ++ tail) := h.1
  exact (he'.dec (dec_ascii hb)).1

theorem At.ch_ws {x : LState × Bytes} {w : Bytes} {r : Nat} {rest acc : Bytes} (h : At x (w ++ rest) acc)
    (hw : Dec w r) : x.1.ch = r := (h.1.dec hw).1

theorem At.peek_ascii {x : LState × Bytes} {b c : UInt8} {tail acc : Bytes} (h : At x (b :: c :: tail) acc)
    (hb : b.toNat < 128) (hc : c.toNat < 128) : peekChar x.1 = c.toNat := by
  have he' : Ent x.1 ([b] ++ (c :: tail)) := h.1
  exact (he'.peek (dec_ascii hb) c.toNat hc).2 (firstRune_cons_ascii c tail hc)

theorem takeChar_at {x : LState × Bytes} {b : UInt8} (hb : b.toNat < 128) {tail acc : Bytes}
    (h : At x (b :: tail) acc) : At (takeChar x) tail (b :: acc) := by
  have hch := h.ch_ascii hb
  obtain ⟨he, ha⟩ := h
  have he' : Ent x.1 ([b] ++ tail) := he
  unfold takeChar
  refine ⟨he'.readChar (dec_ascii hb), ?_⟩
  show pushRune x.2 x.1.ch = b :: acc
  rw [hch, ha, pushRune_ascii _ _ hb]

theorem scanWhile_at (p hp) (c : Nat → Bool) (hpc : ∀ s : LState, s.eof = false → p s = c s.ch)
    {bs : Bytes} (hlt : ∀ b ∈ bs, b.toNat < 128) (hall : ∀ b ∈ bs, c b.toNat = true)
    {tail : Bytes} (hstop : c (firstRune tail) = false) {x : LState × Bytes} {acc : Bytes}
    (h : At x (bs ++ tail) acc) :
    At (scanWhile p hp x.1 x.2) tail (bs.reverse ++ acc) := by
  obtain ⟨he, ha⟩ := h
  obtain ⟨h1, h2⟩ := scanWhile_run p hp c hpc (spells_ascii hlt)
    (by intro r hr; obtain ⟨b, hb, rfl⟩ := List.mem_map.1 hr; exact hall b hb) hstop x.2 he
  exact ⟨h2, by rw [h1, enc_ascii hlt, ha]⟩

theorem Digs.lt {ds : Bytes} (h : Digs ds) : ∀ b ∈ ds, b.toNat < 128 := fun b hb => by have := h b hb; omega

theorem Digs.isDigit {ds : Bytes} (h : Digs ds) : ∀ b ∈ ds, isDigit b.toNat = true :=
  fun b hb => (digit_facts _ (h.lt b hb) (h b hb)).2.2

/-- the first rune of `ds ++ tail` for a digit run `ds`. -/
theorem firstRune_digs {ds : Bytes} (hd : Digs ds) (tail : Bytes) :
    firstRune (ds ++ tail) = firstRune tail ∨ (48 ≤ firstRune (ds ++ tail) ∧ firstRune (ds ++ tail) ≤ 57) := by
  cases ds with
  | nil => exact Or.inl rfl
  | cons d ds =>
    have := hd.head
    rw [List.cons_append, firstRune_cons_ascii d _ (by omega)]
    exact Or.inr this

theorem skipUnderscores_stop {s : LState} (h : s.ch ≠ 95) : skipUnderscores s = s := by
  rw [skipUnderscores.eq_1, dif_neg (by simp [h])]

theorem skipUnderscores_step {s : LState} (h : s.ch = 95) (hp : isDigit (peekChar s) = true) :
    skipUnderscores s = skipUnderscores (readChar s) := by
  rw [skipUnderscores.eq_1, dif_pos (by simp [h, hp])]

/-- `digitsUs` over a plain digit run (possibly empty) that is followed by a stop. -/
theorem digitsUs_plain {ds : Bytes} (hd : Digs ds) {tail : Bytes} (hst : Stop tail) :
    ∀ {s : LState} (acc : Bytes), Ent s (ds ++ tail) →
      (digitsUs s acc).2 = ds.reverse ++ acc ∧ Ent (digitsUs s acc).1 tail := by
  induction ds with
  | nil =>
    intro s acc hs
    rw [List.nil_append] at hs
    rw [digitsUs.eq_1, dif_neg (by rw [hs.ch, hst.1]; decide)]
    exact ⟨rfl, hs⟩
  | cons d ds ih =>
    intro s acc hs
    have hd0 := hd.head
    have hlt : d.toNat < 128 := by omega
    have hs' : Ent s ([d] ++ (ds ++ tail)) := hs
    obtain ⟨hch, _, _⟩ := hs'.dec (dec_ascii hlt)
    have hs1 := hs'.readChar (dec_ascii hlt)
    have hne : (readChar s).ch ≠ 95 := by
      rw [hs1.ch]
      rcases firstRune_digs hd.tail tail with h | h
      · rw [h]; exact hst.2
      · omega
    rw [digitsUs.eq_1, dif_pos (by rw [hch]; exact (digit_facts _ hlt hd0).2.2), skipUnderscores_stop hne, hch,
      pushRune_ascii _ _ hlt]
    obtain ⟨e1, e2⟩ := ih hd.tail (d :: acc) hs1
    exact ⟨by rw [e1]; simp, e2⟩

/-- `digitsUs` over a non-empty digit run followed by `_` and a digit: the `_` is skipped, the loop goes on. -/
theorem digitsUs_us {ds : Bytes} (hne : ds ≠ []) (hd : Digs ds) {d : UInt8} (hd' : 48 ≤ d.toNat ∧ d.toNat ≤ 57)
    (T : Bytes) :
    ∀ {s : LState} (acc : Bytes), Ent s (ds ++ (95 :: d :: T)) →
      ∃ x, Ent x (d :: T) ∧ digitsUs s acc = digitsUs x (ds.reverse ++ acc) := by
  induction ds with
  | nil => exact absurd rfl hne
  | cons d0 ds ih =>
    intro s acc hs
    have hd0 := hd.head
    have hlt : d0.toNat < 128 := by omega
    have hs' : Ent s ([d0] ++ (ds ++ (95 :: d :: T))) := hs
    obtain ⟨hch, _, _⟩ := hs'.dec (dec_ascii hlt)
    have hs1 := hs'.readChar (dec_ascii hlt)
    rw [digitsUs.eq_1, dif_pos (by rw [hch]; exact (digit_facts _ hlt hd0).2.2), hch, pushRune_ascii _ _ hlt]
    cases ds with
    | nil =>
      have hs1' : Ent (readChar s) ([95] ++ (d :: T)) := hs1
      have d95 : Dec [95] 95 := dec_ascii (b := 95) (by decide)
      have hc1 := (hs1'.dec d95).1
      have hpk : peekChar (readChar s) = d.toNat :=
        (hs1'.peek d95 d.toNat (by omega)).2 (firstRune_cons_ascii d T (by omega))
      have hs2 := hs1'.readChar d95
      have hc2 : (readChar (readChar s)).ch ≠ 95 := by
        rw [hs2.ch, firstRune_cons_ascii d T (by omega)]; omega
      rw [skipUnderscores_step hc1 (by rw [hpk]; exact (digit_facts _ (by omega) hd').2.2), skipUnderscores_stop hc2]
      exact ⟨_, hs2, rfl⟩
    | cons d1 ds' =>
      have hd1 := hd.tail.head
      have hc1 : (readChar s).ch ≠ 95 := by
        rw [hs1.ch, List.cons_append, firstRune_cons_ascii d1 _ (by omega)]; omega
      rw [skipUnderscores_stop hc1]
      obtain ⟨x, hx, e⟩ := ih (by simp) hd.tail (d0 :: acc) hs1
      exact ⟨x, hx, by rw [e]; simp⟩

/-- `_`-separated further digit groups: `(_ D+)*`; second component: the digits. -/
inductive UsGroups : Bytes → Bytes → Prop
  | nil : UsGroups [] []
  | cons {ds g gv : Bytes} : ds ≠ [] → Digs ds → UsGroups g gv → UsGroups (95 :: ds ++ g) (ds ++ gv)

/-- digits with single `_` separators between digits: `D+ (_ D+)*`; second component: the digits. -/
inductive DigUs : Bytes → Bytes → Prop
  | mk {ds g gv : Bytes} : ds ≠ [] → Digs ds → UsGroups g gv → DigUs (ds ++ g) (ds ++ gv)

theorem UsGroups.stop {g gv : Bytes} (hg : UsGroups g gv) {tail : Bytes} (hst : Stop tail) :
    isDigit (firstRune (g ++ tail)) = false := by
  cases hg with
  | nil => exact hst.1
  | cons _ _ _ => rw [List.cons_append, List.cons_append, firstRune_cons_ascii 95 _ (by decide)]; decide

theorem digitsUs_groups {g gv : Bytes} (hg : UsGroups g gv) {tail : Bytes} (hst : Stop tail) :
    ∀ {ds : Bytes}, ds ≠ [] → Digs ds → ∀ {s : LState} (acc : Bytes), Ent s (ds ++ (g ++ tail)) →
      (digitsUs s acc).2 = (ds ++ gv).reverse ++ acc ∧ Ent (digitsUs s acc).1 tail := by
  induction hg with
  | nil =>
    intro ds _ hd s acc hs
    rw [List.nil_append] at hs
    rw [List.append_nil]
    exact digitsUs_plain hd hst acc hs
  | @cons ds' g' gv' hne' hd' _ ih =>
    intro ds hne hd s acc hs
    cases ds' with
    | nil => exact absurd rfl hne'
    | cons d ds'' =>
      have hs' : Ent s (ds ++ (95 :: d :: (ds'' ++ (g' ++ tail)))) := by simpa using hs
      obtain ⟨x, hx, e⟩ := digitsUs_us hne hd hd'.head _ acc hs'
      have hx' : Ent x ((d :: ds'') ++ (g' ++ tail)) := by simpa using hx
      obtain ⟨e1, e2⟩ := ih (by simp) hd' (ds.reverse ++ acc) hx'
      rw [e]
      exact ⟨by rw [e1]; simp, e2⟩

/-- `digitsUs` reads a `DigUs` text that is followed by a stop, writing its digits. -/
theorem digitsUs_at {t v : Bytes} (h : DigUs t v) {tail : Bytes} (hst : Stop tail) {x : LState × Bytes} {acc : Bytes}
    (hx : At x (t ++ tail) acc) : At (digitsUs x.1 x.2) tail (v.reverse ++ acc) := by
  cases h with
  | mk hne hd hg =>
    obtain ⟨he, ha⟩ := hx
    rw [List.append_assoc] at he
    obtain ⟨e1, e2⟩ := digitsUs_groups hg hst hne hd x.2 he
    exact ⟨e2, by rw [e1, ha]⟩

theorem usDigitGroups_step {s : LState} (acc : Bytes) (h : s.ch = 95) (hp : isDigit (peekChar s) = true) :
    usDigitGroups s acc = usDigitGroups (scanWhile digitCond digitCond_ok (readChar s) acc).1
      (scanWhile digitCond digitCond_ok (readChar s) acc).2 := by
  rw [usDigitGroups.eq_1, dif_pos (by simp [h, hp])]

/-- `usDigitGroups` reads `(_ D+)*` followed by a stop. -/
theorem usDigitGroups_at {g gv : Bytes} (hg : UsGroups g gv) {tail : Bytes} (hst : Stop tail) :
    ∀ {x : LState × Bytes} {acc : Bytes}, At x (g ++ tail) acc →
      At (usDigitGroups x.1 x.2) tail (gv.reverse ++ acc) := by
  induction hg with
  | nil =>
    intro x acc hx
    rw [List.nil_append] at hx
    rw [usDigitGroups_stop _ (by rw [hx.1.ch]; exact hst.2)]
    exact hx
  | @cons ds g' gv' hne hd hg' ih =>
    intro x acc hx
    cases ds with
    | nil => exact absurd rfl hne
    | cons d ds' =>
      have hd0 := hd.head
      have hx' : At x (95 :: d :: (ds' ++ (g' ++ tail))) acc := by simpa [At] using hx
      have hch : x.1.ch = 95 := hx'.ch_ascii (b := 95) (by decide)
      have hpk := hx'.peek_ascii (b := 95) (c := d) (by decide) (by omega)
      have he1 : Ent (readChar x.1) ((d :: ds') ++ (g' ++ tail)) :=
        Ent.readChar (p := [95]) hx'.1 (dec_ascii (b := 95) (by decide))
      have h2 := scanWhile_at digitCond digitCond_ok isDigit digitCond_live hd.lt hd.isDigit (hg'.stop hst)
        (x := (readChar x.1, x.2)) (acc := acc) ⟨he1, hx'.2⟩
      rw [usDigitGroups_step _ hch (by rw [hpk]; exact (digit_facts _ (by omega) hd0).2.2)]
      have := ih h2
      refine ⟨this.1, ?_⟩
      rw [this.2]; simp

/-- an optional sign. -/
inductive Sign : Bytes → Prop
  | none : Sign []
  | plus : Sign [43]
  | minus : Sign [45]

theorem optChar2_at {sg : Bytes} (hsg : Sign sg) {tail : Bytes} (hno : sg = [] → firstRune tail ≠ 43 ∧ firstRune tail ≠ 45)
    {x : LState × Bytes} {acc : Bytes} (hx : At x (sg ++ tail) acc) :
    At (optChar2 43 45 x) tail (sg.reverse ++ acc) := by
  cases hsg with
  | none =>
    rw [List.nil_append] at hx
    have := hno rfl
    unfold optChar2
    rw [if_neg (by rw [hx.1.ch]; omega)]
    exact hx
  | plus =>
    have hx' : At x (43 :: tail) acc := hx
    unfold optChar2
    have hch : x.1.ch = 43 := hx'.ch_ascii (b := 43) (by decide)
    rw [if_pos (Or.inl hch)]
    exact takeChar_at (b := 43) (by decide) hx'
  | minus =>
    have hx' : At x (45 :: tail) acc := hx
    unfold optChar2
    have hch : x.1.ch = 45 := hx'.ch_ascii (b := 45) (by decide)
    rw [if_pos (Or.inr hch)]
    exact takeChar_at (b := 45) (by decide) hx'

/-- a decimal exponent `(e|E) [+|-] D+(_D+)*`; second component: what is written. -/
inductive Exp : Bytes → Bytes → Prop
  | mk {c : UInt8} {sg t v : Bytes} : (c = 101 ∨ c = 69) → Sign sg → DigUs t v → Exp (c :: sg ++ t) (c :: sg ++ v)

theorem DigUs.first {t v : Bytes} (h : DigUs t v) :
    ∃ d t', t = d :: t' ∧ 48 ≤ d.toNat ∧ d.toNat ≤ 57 := by
  cases h with
  | @mk ds g gv hne hd _ =>
    cases ds with
    | nil => exact absurd rfl hne
    | cons d ds' => exact ⟨d, ds' ++ g, rfl, hd.head⟩

theorem expPart_at {e ev : Bytes} (h : Exp e ev) {tail : Bytes} (hst : Stop tail) {x : LState × Bytes} {acc : Bytes}
    (hx : At x (e ++ tail) acc) : At (expPart x) tail (ev.reverse ++ acc) := by
  cases h with
  | @mk c sg t v hc hsg ht =>
    have hlt : c.toNat < 128 := by rcases hc with h | h <;> (rw [h]; decide)
    have hx' : At x (c :: (sg ++ (t ++ tail))) acc := by simpa [At] using hx
    have hch := hx'.ch_ascii hlt
    have h1 := takeChar_at hlt hx'
    have h2 := optChar2_at hsg (by
      intro _
      obtain ⟨d, t', rfl, hd⟩ := ht.first
      rw [List.cons_append, firstRune_cons_ascii d _ (by omega)]; omega) h1
    have h3 := digitsUs_at ht hst h2
    unfold expPart
    rw [if_pos (by rw [hch]; rcases hc with h | h <;> (rw [h]; decide))]
    simp only []
    refine ⟨h3.1, ?_⟩
    rw [h3.2]; simp

theorem expPart_none {x : LState × Bytes} (h1 : x.1.ch ≠ 101) (h2 : x.1.ch ≠ 69) : expPart x = x := by
  unfold expPart; rw [if_neg (by omega)]

theorem fracPart_none {x : LState × Bytes} (h : x.1.ch ≠ 46) : fracPart x = x := by
  unfold fracPart; rw [if_neg h]

/-- `.` + digits. -/
theorem fracPart_at {t v : Bytes} (h : DigUs t v) {tail : Bytes} (hst : Stop tail) {x : LState × Bytes} {acc : Bytes}
    (hx : At x (46 :: (t ++ tail)) acc) : At (fracPart x) tail (v.reverse ++ (46 :: acc)) := by
  obtain ⟨d, t', rfl, hd⟩ := h.first
  have hx' : At x (46 :: d :: (t' ++ tail)) acc := hx
  have hch : x.1.ch = 46 := hx'.ch_ascii (b := 46) (by decide)
  have hpk := hx'.peek_ascii (b := 46) (c := d) (by decide) (by omega)
  have h1 := takeChar_at (b := 46) (by decide) hx
  have h2 := digitsUs_at h hst h1
  unfold fracPart
  rw [if_pos hch]
  simp only []
  rw [if_pos (by rw [hpk, (digit_facts _ (by omega) hd).2.2]; rfl)]
  exact h2

/-- a trailing `.` in front of white space is part of the number. -/
theorem fracPart_dot_ws {w : Bytes} {r : Nat} (hw : Dec w r) (hr : isWs r = true) (rest : Bytes)
    {x : LState × Bytes} {acc : Bytes} (hx : At x (46 :: (w ++ rest)) acc) :
    At (fracPart x) (w ++ rest) (46 :: acc) := by
  have hch : x.1.ch = 46 := hx.ch_ascii (b := 46) (by decide)
  have he' : Ent x.1 ([46] ++ (w ++ rest)) := hx.1
  obtain ⟨p1, _, p3, p4⟩ := peek_ws_facts (dec_ascii (b := 46) (by decide)) hw hr rest he'
  have h1 := takeChar_at (b := 46) (by decide) hx
  obtain ⟨e1, e2⟩ := digitsUs_plain (ds := []) (fun _ h => by cases h) (stop_ws hw hr rest) (takeChar x).2 h1.1
  unfold fracPart
  rw [if_pos hch]
  simp only []
  rw [if_pos (by
    rw [p1, p3]
    have : peekChar x.1 ≠ 46 := p4 46 (by decide) (by have := ws_ascii_or_high hr; omega)
    simp [this])]
  exact ⟨e2, by rw [e1, h1.2]; rfl⟩

theorem baseTail_ws {x : LState × Bytes} {r : Nat} (hr : isWs r = true) (hch : x.1.ch = r) : baseTail x = x := by
  have := ws_ascii_or_high hr
  unfold baseTail
  simp only []
  rw [if_neg (by rw [hch]; omega), if_neg (by rw [hch]; omega)]

theorem octTail_ws (c : Nat) {x : LState × Bytes} {r : Nat} (hr : isWs r = true) (hch : x.1.ch = r) : octTail c x = x := by
  have := ws_ascii_or_high hr
  unfold octTail
  split
  · rw [if_neg (by rw [hch]; omega)]
  · rfl

/-! ## 6. numbers through `readNumberOrIdent` -/

/-- `readNumberOrIdent` takes the number path: after the first digit run the lexer is not on `_` + letter/`_`, and
not on a letter — unless that letter starts an exponent or is the base prefix after a lone `0`. -/
theorem readNumberOrIdent_number (s : LState)
    (h1 : ¬((scanWhile digitCond digitCond_ok s []).1.ch = 95 ∧
      (isLetter (peekChar (scanWhile digitCond digitCond_ok s []).1) = true ∨
        peekChar (scanWhile digitCond digitCond_ok s []).1 = 95)))
    (h2 : isLetter (scanWhile digitCond digitCond_ok s []).1.ch = false ∨
      (((scanWhile digitCond digitCond_ok s []).1.ch = 101 ∨ (scanWhile digitCond digitCond_ok s []).1.ch = 69) ∧
        (isDigit (peekChar (scanWhile digitCond digitCond_ok s []).1) = true ∨
          peekChar (scanWhile digitCond digitCond_ok s []).1 = 43 ∨
          peekChar (scanWhile digitCond digitCond_ok s []).1 = 45)) ∨
      ((scanWhile digitCond digitCond_ok s []).2 = [48] ∧
        ((scanWhile digitCond digitCond_ok s []).1.ch = 120 ∨ (scanWhile digitCond digitCond_ok s []).1.ch = 88 ∨
         (scanWhile digitCond digitCond_ok s []).1.ch = 98 ∨ (scanWhile digitCond digitCond_ok s []).1.ch = 66 ∨
         (scanWhile digitCond digitCond_ok s []).1.ch = 111 ∨ (scanWhile digitCond digitCond_ok s []).1.ch = 79))) :
    readNumberOrIdent s = numberTail s.ch s (scanWhile digitCond digitCond_ok s []) := by
  unfold readNumberOrIdent
  simp only []
  generalize scanWhile digitCond digitCond_ok s [] = X at h1 h2 ⊢
  rw [if_neg h1, if_neg]
  rcases h2 with h | ⟨h, h'⟩ | ⟨h, h'⟩
  · simp [h]
  · rcases h with h | h <;> rcases h' with h' | h' | h' <;> simp [h, h']
  · rcases h' with h' | h' | h' | h' | h' | h' <;> simp [h, h']

/-- what may follow the integer part of a decimal number: nothing, a trailing `.`, a fraction, an exponent, or a
fraction and an exponent. Second component: what is written to the value. -/
inductive FracExp : Bytes → Bytes → Prop
  | none : FracExp [] []
  | dot : FracExp [46] [46]
  | frac {t v : Bytes} : DigUs t v → FracExp (46 :: t) (46 :: v)
  | exp {e ev : Bytes} : Exp e ev → FracExp e ev
  | fracExp {t v e ev : Bytes} : DigUs t v → Exp e ev → FracExp (46 :: t ++ e) (46 :: v ++ ev)

theorem Exp.first {e ev : Bytes} (h : Exp e ev) : ∃ c t, e = c :: t ∧ (c = 101 ∨ c = 69) := by
  cases h with
  | mk hc _ _ => exact ⟨_, _, rfl, hc⟩

theorem Exp.stop {e ev : Bytes} (h : Exp e ev) (tail : Bytes) : Stop (e ++ tail) := by
  obtain ⟨c, t, rfl, hc⟩ := h.first
  rcases hc with h | h <;> subst h <;> exact stop_ascii (by decide) (by decide) (by decide) _

theorem fracExp_at {fe fv : Bytes} (h : FracExp fe fv) {w : Bytes} {r : Nat} (hw : Dec w r) (hr : isWs r = true)
    (rest : Bytes) {x : LState × Bytes} {acc : Bytes} (hx : At x (fe ++ (w ++ rest)) acc) :
    At (expPart (fracPart x)) (w ++ rest) (fv.reverse ++ acc) := by
  have hws := ws_ascii_or_high hr
  cases h with
  | none =>
    have hx' : At x (w ++ rest) acc := hx
    have hch := hx'.ch_ws hw
    rw [fracPart_none (by rw [hch]; omega), expPart_none (by rw [hch]; omega) (by rw [hch]; omega)]
    exact hx'
  | dot =>
    have h1 := fracPart_dot_ws hw hr rest (x := x) (acc := acc) hx
    have hch := h1.ch_ws hw
    rw [expPart_none (by rw [hch]; omega) (by rw [hch]; omega)]
    exact h1
  | @frac t v ht =>
    have hx' : At x (46 :: (t ++ (w ++ rest))) acc := by simpa [At] using hx
    have h1 := fracPart_at ht (stop_ws hw hr rest) hx'
    have hch := h1.ch_ws hw
    rw [expPart_none (by rw [hch]; omega) (by rw [hch]; omega)]
    refine ⟨h1.1, ?_⟩
    rw [h1.2]; simp
  | exp he =>
    obtain ⟨c, t, rfl, hc⟩ := he.first
    have hx' : At x (c :: (t ++ (w ++ rest))) acc := hx
    have hch := hx'.ch_ascii (by rcases hc with h | h <;> (rw [h]; decide))
    rw [fracPart_none (by rw [hch]; rcases hc with h | h <;> (rw [h]; decide))]
    exact expPart_at he (stop_ws hw hr rest) hx
  | @fracExp t v e ev ht he =>
    have hx' : At x (46 :: (t ++ (e ++ (w ++ rest)))) acc := by simpa [At] using hx
    have h1 := fracPart_at ht (he.stop _) hx'
    have h2 := expPart_at he (stop_ws hw hr rest) h1
    refine ⟨h2.1, ?_⟩
    rw [h2.2]; simp

/-- the first rune of the part after the integer digits is never a digit. -/
theorem FracExp.stop {fe fv : Bytes} (h : FracExp fe fv) {w : Bytes} {r : Nat} (hw : Dec w r) (hr : isWs r = true)
    (rest : Bytes) : Stop (fe ++ (w ++ rest)) := by
  cases h with
  | none => exact stop_ws hw hr rest
  | dot => exact stop_ascii (b := 46) (by decide) (by decide) (by decide) _
  | frac _ => exact stop_ascii (b := 46) (by decide) (by decide) (by decide) _
  | exp he => exact he.stop _
  | fracExp _ _ => exact stop_ascii (b := 46) (by decide) (by decide) (by decide) _

/-- decimal numbers: `D+ (_D+)*`, then optionally `.`, `.D…`, an exponent, or both — followed by a white-space
rune. The value is the text without the `_` separators. -/
theorem dec_ends_at_ws {ds g gv fe fv : Bytes} (hne : ds ≠ []) (hd : Digs ds) (hg : UsGroups g gv)
    (hf : FracExp fe fv) {w : Bytes} {r : Nat} (hw : Dec w r) (hr : isWs r = true) (rest : Bytes)
    {s : LState} (hs : Ent s ((ds ++ g ++ fe) ++ (w ++ rest))) :
    (nextToken s).1.kvq = (tNUMBER, ds ++ gv ++ fv, false) ∧ Ent (nextToken s).2 (w ++ rest) := by
  have hws := ws_ascii_or_high hr
  have hs' : Ent s (ds ++ (g ++ (fe ++ (w ++ rest)))) := by simpa using hs
  have hst := hf.stop hw hr rest
  -- the first digit run
  have hX := scanWhile_at digitCond digitCond_ok isDigit digitCond_live hd.lt hd.isDigit (hg.stop hst)
    (x := (s, [])) (acc := []) ⟨hs', rfl⟩
  rw [List.append_nil] at hX
  -- dispatch
  obtain ⟨d0, ds', rfl⟩ : ∃ d0 ds', ds = d0 :: ds' := by
    cases ds with
    | nil => exact absurd rfl hne
    | cons a b => exact ⟨a, b, rfl⟩
  have hd0 := hd.head
  have hs0 : Ent s ([d0] ++ (ds' ++ (g ++ (fe ++ (w ++ rest))))) := hs'
  obtain ⟨hc0, he, _⟩ := hs0.dec (dec_ascii (by omega))
  rw [nextToken_of_E (nextTokenE_digit he (by rw [hc0]; exact hd0))]
  -- the number path
  have hpath : readNumberOrIdent s = numberTail s.ch s (scanWhile digitCond digitCond_ok s []) := by
    apply readNumberOrIdent_number
    · cases hg with
      | nil =>
        intro hh
        have hX' : At (scanWhile digitCond digitCond_ok s []) (fe ++ (w ++ rest)) (d0 :: ds').reverse := hX
        have := hst.2
        rw [← hX'.1.ch] at this
        exact this hh.1
      | @cons gs g' gv' hne' hd' _ =>
        obtain ⟨d, gs', rfl⟩ : ∃ d gs', gs = d :: gs' := by
          cases gs with
          | nil => exact absurd rfl hne'
          | cons a b => exact ⟨a, b, rfl⟩
        have hd1 := hd'.head
        have hX' : At (scanWhile digitCond digitCond_ok s []) (95 :: d :: (gs' ++ (g' ++ (fe ++ (w ++ rest)))))
          (d0 :: ds').reverse := by simpa [At] using hX
        have hpk := hX'.peek_ascii (b := 95) (c := d) (by decide) (by omega)
        intro hh
        rw [hpk] at hh
        rcases hh.2 with h | h
        · have := letter_digit_ascii d.toNat (by omega) h
          rw [(digit_facts _ (by omega) hd1).2.2] at this; cases this
        · omega
    · cases hg with
      | @cons gs g' gv' hne' hd' _ =>
        have hX' : At (scanWhile digitCond digitCond_ok s []) (95 :: (gs ++ (g' ++ (fe ++ (w ++ rest)))))
          (d0 :: ds').reverse := by simpa [At] using hX
        have hch : (scanWhile digitCond digitCond_ok s []).1.ch = 95 := hX'.ch_ascii (b := 95) (by decide)
        exact Or.inl (by rw [hch]; decide)
      | nil =>
        rw [List.nil_append] at hX
        cases hf with
        | none =>
          have hX' : At (scanWhile digitCond digitCond_ok s []) (w ++ rest) (d0 :: ds').reverse := hX
          exact Or.inl (by rw [hX'.ch_ws hw]; exact (ws_inert hr).2.1)
        | dot =>
          have hch : (scanWhile digitCond digitCond_ok s []).1.ch = 46 := hX.ch_ascii (b := 46) (by decide)
          exact Or.inl (by rw [hch]; decide)
        | frac _ =>
          have hch : (scanWhile digitCond digitCond_ok s []).1.ch = 46 := hX.ch_ascii (b := 46) (by decide)
          exact Or.inl (by rw [hch]; decide)
        | fracExp _ _ =>
          have hch : (scanWhile digitCond digitCond_ok s []).1.ch = 46 := hX.ch_ascii (b := 46) (by decide)
          exact Or.inl (by rw [hch]; decide)
        | exp he =>
          cases he with
          | @mk c sg t v hc hsg ht =>
            obtain ⟨d, t', rfl, hdd⟩ := ht.first
            have hlt : c.toNat < 128 := by rcases hc with h | h <;> (rw [h]; decide)
            refine Or.inr (Or.inl ⟨?_, ?_⟩)
            · have hX' : At (scanWhile digitCond digitCond_ok s []) (c :: ((sg ++ d :: t') ++ (w ++ rest)))
                (d0 :: ds').reverse := hX
              rw [hX'.ch_ascii hlt]
              rcases hc with h | h <;> (rw [h]; decide)
            · cases hsg with
              | none =>
                have hX' : At (scanWhile digitCond digitCond_ok s []) (c :: d :: (t' ++ (w ++ rest)))
                  (d0 :: ds').reverse := hX
                rw [hX'.peek_ascii hlt (by omega)]
                exact Or.inl (digit_facts _ (by omega) hdd).2.2
              | plus =>
                have hX' : At (scanWhile digitCond digitCond_ok s []) (c :: 43 :: (d :: t' ++ (w ++ rest)))
                  (d0 :: ds').reverse := hX
                rw [hX'.peek_ascii hlt (by decide)]
                exact Or.inr (Or.inl rfl)
              | minus =>
                have hX' : At (scanWhile digitCond digitCond_ok s []) (c :: 45 :: (d :: t' ++ (w ++ rest)))
                  (d0 :: ds').reverse := hX
                rw [hX'.peek_ascii hlt (by decide)]
                exact Or.inr (Or.inr rfl)
  rw [hpath]
  -- the tail
  have h1 := usDigitGroups_at hg hst hX
  have h2 := fracExp_at hf hw hr rest h1
  have hch := h2.ch_ws hw
  unfold numberTail
  simp only []
  rw [baseTail_ws hr hch, octTail_ws _ hr hch]
  simp only [kvq_tokAt]
  refine ⟨?_, h2.1⟩
  rw [h2.2]; simp

/-! ### hexadecimal, binary, octal -/

theorem numberTail_simple (c : Nat) (s : LState) {x : LState × Bytes} (h95 : x.1.ch ≠ 95) (h46 : x.1.ch ≠ 46)
    (h101 : x.1.ch ≠ 101) (h69 : x.1.ch ≠ 69) :
    numberTail c s x = (tokAt s tNUMBER (octTail c (baseTail x)).2.reverse, (octTail c (baseTail x)).1) := by
  unfold numberTail
  simp only []
  rw [usDigitGroups_stop _ h95]
  have e1 : fracPart (x.1, x.2) = x := fracPart_none (x := x) h46
  rw [e1, expPart_none h101 h69]

theorem base_facts : ∀ n : Nat, (n = 120 ∨ n = 88 ∨ n = 98 ∨ n = 66 ∨ n = 111 ∨ n = 79) →
    n < 128 ∧ isDigit n = false ∧ n ≠ 95 ∧ n ≠ 46 ∧ n ≠ 101 ∧ n ≠ 69 := by
  intro n h
  rcases h with rfl | rfl | rfl | rfl | rfl | rfl <;> decide

theorem dec48 : Dec [48] 48 := dec_ascii (b := 48) (by decide)

/-- `0` followed by a base-prefix letter: `readNumberOrIdent` goes to `baseTail` / `octTail` with the buffer `"0"`. -/
theorem basePrefix_path {c : UInt8} (hc : c.toNat = 120 ∨ c.toNat = 88 ∨ c.toNat = 98 ∨ c.toNat = 66 ∨ c.toNat = 111 ∨ c.toNat = 79)
    (T : Bytes) {s : LState} (hs : Ent s (48 :: c :: T)) :
    At (scanWhile digitCond digitCond_ok s []) (c :: T) [48] ∧
    nextToken s = (tokAt s tNUMBER (octTail 48 (baseTail (scanWhile digitCond digitCond_ok s []))).2.reverse,
      (octTail 48 (baseTail (scanWhile digitCond digitCond_ok s []))).1) := by
  obtain ⟨f1, f2, f3, f4, f5, f6⟩ := base_facts c.toNat hc
  have hs0 : Ent s ([48] ++ (c :: T)) := hs
  obtain ⟨hc0, he, _⟩ := hs0.dec dec48
  have hX := scanWhile_at digitCond digitCond_ok isDigit digitCond_live (bs := [48]) (by decide) (by decide)
    (tail := c :: T) (by rw [firstRune_cons_ascii c T f1]; exact f2) (x := (s, [])) (acc := []) ⟨hs0, rfl⟩
  have hX' : At (scanWhile digitCond digitCond_ok s []) (c :: T) [48] := hX
  have hch := hX'.ch_ascii f1
  refine ⟨hX', ?_⟩
  rw [nextToken_of_E (nextTokenE_digit he (by rw [hc0]; decide))]
  rw [readNumberOrIdent_number s (by rw [hch]; exact fun h => f3 h.1) (Or.inr (Or.inr ⟨hX'.2, by rw [hch]; exact hc⟩))]
  rw [numberTail_simple _ _ (by rw [hch]; exact f3) (by rw [hch]; exact f4) (by rw [hch]; exact f5)
    (by rw [hch]; exact f6), hc0]

/-- ASCII hexadecimal digits. -/
def HexB (b : UInt8) : Prop :=
  (48 ≤ b.toNat ∧ b.toNat ≤ 57) ∨ (97 ≤ b.toNat ∧ b.toNat ≤ 102) ∨ (65 ≤ b.toNat ∧ b.toNat ≤ 70)

theorem hex_facts : ∀ n, n < 128 → ((48 ≤ n ∧ n ≤ 57) ∨ (97 ≤ n ∧ n ≤ 102) ∨ (65 ≤ n ∧ n ≤ 70)) →
    isHexDigit n = true := by decide

/-- the optional fraction of a hex literal: `.` and hex digits (no `_`). -/
inductive HexFrac : Bytes → Prop
  | none : HexFrac []
  | some {h : Bytes} : (∀ b ∈ h, HexB b) → HexFrac (46 :: h)

/-- the optional binary exponent of a hex literal: `p`/`P`, optional sign, decimal digits. -/
inductive HexExp : Bytes → Prop
  | none : HexExp []
  | some {c : UInt8} {sg ds : Bytes} : (c = 112 ∨ c = 80) → Sign sg → Digs ds → HexExp (c :: sg ++ ds)

def hexFracStage (p : LState × Bytes) : LState × Bytes :=
  if p.1.ch = 46 then scanWhile hexDigitCond hexDigitCond_ok (takeChar p).1 (takeChar p).2 else p

def hexExpStage (p : LState × Bytes) : LState × Bytes :=
  if p.1.ch = 112 ∨ p.1.ch = 80 then
    scanWhile digitCond digitCond_ok (optChar2 43 45 (takeChar p)).1 (optChar2 43 45 (takeChar p)).2
  else p

theorem hexTail_eq (p : LState × Bytes) :
    hexTail p = hexExpStage (hexFracStage (scanWhile hexDigitUsCond hexDigitUsCond_ok (takeChar p).1 (takeChar p).2)) := rfl

theorem hexDigitUsCond_live (s : LState) (_ : s.eof = false) :
    hexDigitUsCond s = (fun c => isHexDigit c || decide (c = 95)) s.ch := rfl
theorem hexDigitCond_live (s : LState) (_ : s.eof = false) : hexDigitCond s = isHexDigit s.ch := rfl

/-- the first rune after the hex digits / after the hex fraction: `p`, `P` or the white-space rune. -/
theorem HexExp.first {ex : Bytes} (h : HexExp ex) {w : Bytes} {r : Nat} (hw : Dec w r) (hr : isWs r = true) (rest : Bytes) :
    isHexDigit (firstRune (ex ++ (w ++ rest))) = false ∧ firstRune (ex ++ (w ++ rest)) ≠ 95 ∧
      firstRune (ex ++ (w ++ rest)) ≠ 46 := by
  cases h with
  | none =>
    rw [List.nil_append, firstRune_ws hw]
    have := ws_ascii_or_high hr
    exact ⟨ws_not_hex hr, by omega, by omega⟩
  | some hc _ _ =>
    rcases hc with h | h
    · subst h; rw [List.cons_append, List.cons_append, firstRune_cons_ascii 112 _ (by decide)]; decide
    · subst h; rw [List.cons_append, List.cons_append, firstRune_cons_ascii 80 _ (by decide)]; decide

theorem hexExpStage_at {ex : Bytes} (h : HexExp ex) {w : Bytes} {r : Nat} (hw : Dec w r) (hr : isWs r = true)
    (rest : Bytes) {x : LState × Bytes} {acc : Bytes} (hx : At x (ex ++ (w ++ rest)) acc) :
    At (hexExpStage x) (w ++ rest) (ex.reverse ++ acc) := by
  have hws := ws_ascii_or_high hr
  cases h with
  | none =>
    have hx' : At x (w ++ rest) acc := hx
    unfold hexExpStage
    rw [if_neg (by rw [hx'.ch_ws hw]; omega)]
    exact hx'
  | @some c sg ds hc hsg hds =>
    have hlt : c.toNat < 128 := by rcases hc with h | h <;> (rw [h]; decide)
    have hx' : At x (c :: (sg ++ (ds ++ (w ++ rest)))) acc := by simpa [At] using hx
    have hch := hx'.ch_ascii hlt
    have h1 := takeChar_at hlt hx'
    have h2 := optChar2_at hsg (by
      intro _
      rcases firstRune_digs hds (w ++ rest) with h | h
      · rw [h, firstRune_ws hw]; omega
      · omega) h1
    have h3 := scanWhile_at digitCond digitCond_ok isDigit digitCond_live hds.lt hds.isDigit
      (stop_ws hw hr rest).1 h2
    unfold hexExpStage
    rw [if_pos (by rw [hch]; rcases hc with h | h <;> (rw [h]; decide))]
    refine ⟨h3.1, ?_⟩
    rw [h3.2]; simp

theorem hexFracStage_at {fr : Bytes} (h : HexFrac fr) {tail : Bytes} (hst : isHexDigit (firstRune tail) = false)
    (h46 : firstRune tail ≠ 46) {x : LState × Bytes} {acc : Bytes} (hx : At x (fr ++ tail) acc) :
    At (hexFracStage x) tail (fr.reverse ++ acc) := by
  cases h with
  | none =>
    have hx' : At x tail acc := hx
    unfold hexFracStage
    rw [if_neg (by rw [hx'.1.ch]; exact h46)]
    exact hx'
  | @some hh hall =>
    have hx' : At x (46 :: (hh ++ tail)) acc := by simpa [At] using hx
    have hch : x.1.ch = 46 := hx'.ch_ascii (b := 46) (by decide)
    have h1 := takeChar_at (b := 46) (by decide) hx'
    have hlt : ∀ b ∈ hh, b.toNat < 128 := fun b hb => by have := hall b hb; unfold HexB at this; omega
    have h2 := scanWhile_at hexDigitCond hexDigitCond_ok isHexDigit hexDigitCond_live hlt
      (fun b hb => hex_facts _ (hlt b hb) (hall b hb)) hst h1
    unfold hexFracStage
    rw [if_pos hch]
    refine ⟨h2.1, ?_⟩
    rw [h2.2]; simp

/-- hexadecimal literals `0x…`: hex digits and `_` (possibly none), optional `.` + hex digits, optional
`p`/`P` exponent — followed by a white-space rune. The value is the text as written (with the `_`). -/
theorem hex_ends_at_ws {c : UInt8} (hc : c = 120 ∨ c = 88) {h fr ex : Bytes} (hh : ∀ b ∈ h, HexB b ∨ b = 95)
    (hfr : HexFrac fr) (hex : HexExp ex) {w : Bytes} {r : Nat} (hw : Dec w r) (hr : isWs r = true) (rest : Bytes)
    {s : LState} (hs : Ent s ((48 :: c :: (h ++ fr ++ ex)) ++ (w ++ rest))) :
    (nextToken s).1.kvq = (tNUMBER, 48 :: c :: (h ++ fr ++ ex), false) ∧ Ent (nextToken s).2 (w ++ rest) := by
  have hs' : Ent s (48 :: c :: (h ++ (fr ++ (ex ++ (w ++ rest))))) := by simpa using hs
  have hcn : c.toNat = 120 ∨ c.toNat = 88 := by rcases hc with h | h <;> (rw [h]; decide)
  have hlt : c.toNat < 128 := by omega
  obtain ⟨hX, hnt⟩ := basePrefix_path (by omega) _ hs'
  obtain ⟨g1, g2, g3⟩ := hex.first hw hr rest
  -- the stages of `hexTail`
  have h1 := takeChar_at hlt hX
  have hhlt : ∀ b ∈ h, b.toNat < 128 := fun b hb => by
    rcases hh b hb with h | h
    · unfold HexB at h; omega
    · rw [h]; decide
  have h2 := scanWhile_at hexDigitUsCond hexDigitUsCond_ok (fun c => isHexDigit c || decide (c = 95)) hexDigitUsCond_live
    hhlt (fun b hb => by
      rcases hh b hb with h | h
      · show (isHexDigit b.toNat || decide (b.toNat = 95)) = true
        rw [hex_facts _ (hhlt b hb) h]; rfl
      · rw [h]; decide)
    (tail := fr ++ (ex ++ (w ++ rest))) (by
      show (isHexDigit _ || decide (_ = 95)) = false
      cases hfr with
      | none => rw [List.nil_append, g1]; simp [g2]
      | some _ => rw [List.cons_append, firstRune_cons_ascii _ _ (by decide)]; decide) h1
  have h3 := hexFracStage_at hfr g1 g3 h2
  have h4 := hexExpStage_at hex hw hr rest h3
  rw [← hexTail_eq] at h4
  have hbase : baseTail (scanWhile digitCond digitCond_ok s []) = hexTail (scanWhile digitCond digitCond_ok s []) := by
    unfold baseTail
    simp only []
    rw [if_pos ⟨by rw [hX.2]; rfl, by rw [hX.ch_ascii hlt]; exact hcn⟩]
  rw [hnt, hbase, octTail_ws _ hr (h4.ch_ws hw)]
  simp only [kvq_tokAt]
  refine ⟨?_, h4.1⟩
  rw [h4.2]; simp

/-- binary literals `0b` + one of `0 1` + any of `0 1 _`, followed by a white-space rune. -/
theorem bin_ends_at_ws {c d : UInt8} (hc : c = 98 ∨ c = 66) (hd : d = 48 ∨ d = 49) {bs : Bytes}
    (hbs : ∀ b ∈ bs, b = 48 ∨ b = 49 ∨ b = 95) {w : Bytes} {r : Nat} (hw : Dec w r) (hr : isWs r = true)
    (rest : Bytes) {s : LState} (hs : Ent s ((48 :: c :: d :: bs) ++ (w ++ rest))) :
    (nextToken s).1.kvq = (tNUMBER, 48 :: c :: d :: bs, false) ∧ Ent (nextToken s).2 (w ++ rest) := by
  have hws := ws_ascii_or_high hr
  have hs' : Ent s (48 :: c :: ((d :: bs) ++ (w ++ rest))) := by simpa using hs
  have hcn : c.toNat = 98 ∨ c.toNat = 66 := by rcases hc with h | h <;> (rw [h]; decide)
  have hdn : d.toNat = 48 ∨ d.toNat = 49 := by rcases hd with h | h <;> (rw [h]; decide)
  have hlt : c.toNat < 128 := by omega
  obtain ⟨hX, hnt⟩ := basePrefix_path (by omega) _ hs'
  have hX' : At (scanWhile digitCond digitCond_ok s []) (c :: d :: (bs ++ (w ++ rest))) [48] := hX
  have hpk := hX'.peek_ascii hlt (by omega)
  have h1 := takeChar_at hlt hX
  have hall : ∀ b ∈ d :: bs, b = 48 ∨ b = 49 ∨ b = 95 := by
    intro b hb
    rcases List.mem_cons.1 hb with h | h
    · rw [h]; rcases hd with h | h <;> simp [h]
    · exact hbs b h
  have h2 := scanWhile_at binDigitCond binDigitCond_ok (fun c => decide (c = 48) || decide (c = 49) || decide (c = 95))
    (fun _ _ => rfl) (bs := d :: bs) (fun b hb => by rcases hall b hb with h | h | h <;> (rw [h]; decide))
    (fun b hb => by rcases hall b hb with h | h | h <;> (rw [h]; decide))
    (tail := w ++ rest) (by
      rw [firstRune_ws hw]
      simp only [Bool.or_eq_false_iff, decide_eq_false_iff_not]
      omega) h1
  have hbase : baseTail (scanWhile digitCond digitCond_ok s []) =
      scanWhile binDigitCond binDigitCond_ok (takeChar (scanWhile digitCond digitCond_ok s [])).1
        (takeChar (scanWhile digitCond digitCond_ok s [])).2 := by
    unfold baseTail
    simp only []
    rw [if_neg (by rw [hX.ch_ascii hlt]; omega),
      if_pos ⟨by rw [hX.2]; rfl, by rw [hX.ch_ascii hlt]; exact hcn, by rw [hpk]; exact hdn⟩]
  rw [hnt, hbase, octTail_ws _ hr (h2.ch_ws hw)]
  simp only [kvq_tokAt]
  refine ⟨?_, h2.1⟩
  rw [h2.2]; simp

/-- octal literals `0o` + any of `0…7 _` (possibly none), followed by a white-space rune. -/
theorem oct_ends_at_ws {c : UInt8} (hc : c = 111 ∨ c = 79) {os : Bytes}
    (hos : ∀ b ∈ os, (48 ≤ b.toNat ∧ b.toNat ≤ 55) ∨ b = 95) {w : Bytes} {r : Nat} (hw : Dec w r) (hr : isWs r = true)
    (rest : Bytes) {s : LState} (hs : Ent s ((48 :: c :: os) ++ (w ++ rest))) :
    (nextToken s).1.kvq = (tNUMBER, 48 :: c :: os, false) ∧ Ent (nextToken s).2 (w ++ rest) := by
  have hws := ws_ascii_or_high hr
  have hs' : Ent s (48 :: c :: (os ++ (w ++ rest))) := by simpa using hs
  have hcn : c.toNat = 111 ∨ c.toNat = 79 := by rcases hc with h | h <;> (rw [h]; decide)
  have hlt : c.toNat < 128 := by omega
  obtain ⟨hX, hnt⟩ := basePrefix_path (by omega) _ hs'
  have h1 := takeChar_at hlt hX
  have holt : ∀ b ∈ os, b.toNat < 128 := fun b hb => by
    rcases hos b hb with h | h
    · omega
    · rw [h]; decide
  have h2 := scanWhile_at octDigitCond octDigitCond_ok (fun c => (decide (48 ≤ c) && decide (c ≤ 55)) || decide (c = 95))
    (fun _ _ => rfl) holt (fun b hb => by
      rcases hos b hb with h | h
      · simp [h.1, h.2]
      · rw [h]; decide)
    (tail := w ++ rest) (by
      rw [firstRune_ws hw]
      simp only [Bool.or_eq_false_iff, Bool.and_eq_false_iff, decide_eq_false_iff_not]
      omega) h1
  have hbase : baseTail (scanWhile digitCond digitCond_ok s []) = scanWhile digitCond digitCond_ok s [] := by
    unfold baseTail
    simp only []
    rw [if_neg (by rw [hX.ch_ascii hlt]; omega), if_neg (by rw [hX.ch_ascii hlt]; omega)]
  have hoct : octTail 48 (scanWhile digitCond digitCond_ok s []) =
      scanWhile octDigitCond octDigitCond_ok (takeChar (scanWhile digitCond digitCond_ok s [])).1
        (takeChar (scanWhile digitCond digitCond_ok s [])).2 := by
    unfold octTail
    rw [if_pos ⟨rfl, by rw [hX.2]; rfl, by rw [hX.2]; rfl⟩, if_pos (by rw [hX.ch_ascii hlt]; exact hcn)]
  rw [hnt, hbase, hoct]
  simp only [kvq_tokAt]
  refine ⟨?_, h2.1⟩
  rw [h2.2]; simp

/-! ## 7. numbers with a leading dot (`readDot` → `isIdentifierAfterDot` → `readNumber`) -/

theorem takeWhile_digs {ds : Bytes} (hd : Digs ds) {t0 : UInt8} (h0 : ¬(48 ≤ t0.toNat ∧ t0.toNat ≤ 57)) (T : Bytes) :
    (ds ++ t0 :: T).takeWhile (fun b => decide (48 ≤ b.toNat) && decide (b.toNat ≤ 57)) = ds := by
  induction ds with
  | nil =>
    have : (decide (48 ≤ t0.toNat) && decide (t0.toNat ≤ 57)) = false := by
      simp only [Bool.and_eq_false_iff, decide_eq_false_iff_not]; omega
    simp [this]
  | cons d ds ih =>
    have := hd.head
    simp [this.1, this.2]
    exact ih hd.tail

/-- the 32-byte window holds digits and then a rune that is not a letter: not an identifier. -/
theorem identAfterDot_nonletter (s : LState) {ds : Bytes} (hne : ds ≠ []) (hd : Digs ds) {t0 : UInt8} {T : Bytes}
    (h0 : ¬(48 ≤ t0.toNat ∧ t0.toNat ≤ 57)) (h95 : t0 ≠ 95) (hb : peekBytes s 32 = ds ++ t0 :: T)
    (hl : isLetter (decodeRune (t0 :: T)).1 = false) :
    isIdentifierAfterDot s = false := by
  unfold isIdentifierAfterDot
  simp only [hb, takeWhile_digs hd h0]
  have hlen : ds.length ≠ 0 := by cases ds with | nil => exact absurd rfl hne | cons _ _ => simp
  simp [hlen, h95, hl]

/-- the 32-byte window holds digits, `e`/`E` and then a digit or a sign: not an identifier. -/
theorem identAfterDot_exp (s : LState) {ds : Bytes} (hne : ds ≠ []) (hd : Digs ds) {c b1 : UInt8} {T : Bytes}
    (hc : c = 101 ∨ c = 69) (hb1 : (48 ≤ b1.toNat ∧ b1.toNat ≤ 57) ∨ b1 = 43 ∨ b1 = 45)
    (hb : peekBytes s 32 = ds ++ c :: b1 :: T) :
    isIdentifierAfterDot s = false := by
  have h0 : ¬(48 ≤ c.toNat ∧ c.toNat ≤ 57) := by rcases hc with h | h <;> (rw [h]; decide)
  have hlt : c.toNat < 128 := by rcases hc with h | h <;> (rw [h]; decide)
  have h95 : c ≠ 95 := by rcases hc with h | h <;> (rw [h]; decide)
  unfold isIdentifierAfterDot
  simp only [hb, takeWhile_digs hd h0]
  have hlen : ds.length ≠ 0 := by cases ds with | nil => exact absurd rfl hne | cons _ _ => simp
  have hl : isLetter c.toNat = true := by rcases hc with h | h <;> (rw [h]; decide)
  have hcn : c.toNat = 101 ∨ c.toNat = 69 := by rcases hc with h | h <;> (rw [h]; decide)
  have hb1' : (48 ≤ b1.toNat ∧ b1.toNat ≤ 57) ∨ b1.toNat = 43 ∨ b1.toNat = 45 := by
    rcases hb1 with h | h | h
    · exact Or.inl h
    · rw [h]; decide
    · rw [h]; decide
  simp [hlen, h95, decodeRune_ascii c _ hlt, hl, hcn]
  omega

theorem dec_length_le_four {w : Bytes} {r : Nat} (hw : Dec w r) : w.length ≤ 4 := by
  have := decodeRune_size_le_four (w ++ [])
  rw [hw.2 []] at this
  exact this

/-- an optional decimal exponent. -/
inductive ExpOpt : Bytes → Bytes → Prop
  | none : ExpOpt [] []
  | some {e ev : Bytes} : Exp e ev → ExpOpt e ev

theorem ExpOpt.fracExp {e ev : Bytes} (h : ExpOpt e ev) : FracExp e ev := by
  cases h with
  | none => exact FracExp.none
  | some he => exact FracExp.exp he

theorem dec46 : Dec [46] 46 := dec_ascii (b := 46) (by decide)

theorem nextTokenE_dot {s : LState} (he : s.eof = false) (hch : s.ch = 46) : nextTokenE s = .ok (readDot s) := by
  rw [nextTokenE_live (by rw [hch]; decide) he (by rw [hch]; decide)]
  simp [hch, nextTokenSwitch, singleCharKind, readOperator]

/-- `isIdentifierAfterDot` in front of at most 28 digits and then white space or an exponent. -/
theorem identAfterDot_dotnum {ds e ev : Bytes} (hne : ds ≠ []) (hd : Digs ds) (hn : ds.length ≤ 28)
    (he : ExpOpt e ev) {w : Bytes} {r : Nat} (hw : Dec w r) (hr : isWs r = true) (rest : Bytes)
    {s : LState} (hrest : s.rest = ds ++ (e ++ (w ++ rest))) : isIdentifierAfterDot s = false := by
  have hws := ws_ascii_or_high hr
  have hpb : peekBytes s 32 = ds ++ (e ++ (w ++ rest)).take (32 - ds.length) := by
    unfold peekBytes
    rw [hrest, show min 32 4096 = 32 from rfl, List.take_append, List.take_of_length_le (by omega)]
  cases he with
  | none =>
    rw [List.nil_append] at hpb
    have hw4 := dec_length_le_four hw
    rw [List.take_append, List.take_of_length_le (l := w) (by omega)] at hpb
    cases w with
    | nil => exact absurd rfl hw.1
    | cons b0 w' =>
      have hdec := hw.2 (List.take (32 - ds.length - (b0 :: w').length) rest)
      rw [List.cons_append] at hdec hpb
      have hb0 : b0.toNat < 128 → r = b0.toNat := by
        intro h
        rw [decodeRune_ascii b0 _ h] at hdec
        exact (congrArg Prod.fst hdec).symm
      apply identAfterDot_nonletter s hne hd (t0 := b0) ?_ ?_ hpb
      · rw [hdec]; exact (ws_inert hr).2.1
      · intro h
        have := hb0 (by omega)
        omega
      · intro h
        have := hb0 (by rw [h]; decide)
        rw [h] at this
        have : r = 95 := this
        omega
  | some hexp =>
    cases hexp with
    | @mk c sg t v hc hsg ht =>
      obtain ⟨d, t', rfl, hdd⟩ := ht.first
      cases hsg with
      | none =>
        simp only [List.cons_append, List.nil_append] at hpb
        rw [show 32 - ds.length = (32 - ds.length - 2) + 1 + 1 by omega, List.take_succ_cons,
          List.take_succ_cons] at hpb
        exact identAfterDot_exp s hne hd hc (Or.inl hdd) hpb
      | plus =>
        simp only [List.cons_append, List.nil_append] at hpb
        rw [show 32 - ds.length = (32 - ds.length - 2) + 1 + 1 by omega, List.take_succ_cons,
          List.take_succ_cons] at hpb
        exact identAfterDot_exp s hne hd hc (Or.inr (Or.inl rfl)) hpb
      | minus =>
        simp only [List.cons_append, List.nil_append] at hpb
        rw [show 32 - ds.length = (32 - ds.length - 2) + 1 + 1 by omega, List.take_succ_cons,
          List.take_succ_cons] at hpb
        exact identAfterDot_exp s hne hd hc (Or.inr (Or.inr rfl)) hpb

theorem decimalTail_eq (s : LState) (p : LState × Bytes) :
    decimalTail s p = (tokAt s tNUMBER (expPart (fracPart (digitsUs p.1 p.2))).2.reverse,
      (expPart (fracPart (digitsUs p.1 p.2))).1) := rfl

/-- numbers with a leading dot: `.` + 1…28 ASCII digits + optional exponent, followed by a white-space rune.
(The bound is `isIdentifierAfterDot`'s 32-byte window: with 31 digits and an exponent the window ends at the `e`
and the lexer answers `DOT`.) -/
theorem dotnum_ends_at_ws {ds e ev : Bytes} (hne : ds ≠ []) (hd : Digs ds) (hn : ds.length ≤ 28)
    (hexp : ExpOpt e ev) {w : Bytes} {r : Nat} (hw : Dec w r) (hr : isWs r = true) (rest : Bytes)
    {s : LState} (hs : Ent s ((46 :: ds ++ e) ++ (w ++ rest))) :
    (nextToken s).1.kvq = (tNUMBER, 46 :: ds ++ ev, false) ∧ Ent (nextToken s).2 (w ++ rest) := by
  have hws := ws_ascii_or_high hr
  have hs' : Ent s ([46] ++ (ds ++ (e ++ (w ++ rest)))) := by simpa using hs
  obtain ⟨hch, he, hrest⟩ := hs'.dec dec46
  obtain ⟨d0, ds', rfl⟩ : ∃ d0 ds', ds = d0 :: ds' := by
    cases ds with
    | nil => exact absurd rfl hne
    | cons a b => exact ⟨a, b, rfl⟩
  have hd0 := hd.head
  have hpk : peekChar s = d0.toNat :=
    (hs'.peek dec46 d0.toNat (by omega)).2 (firstRune_cons_ascii d0 _ (by omega))
  have hst : Stop (e ++ (w ++ rest)) := hexp.fracExp.stop hw hr rest
  -- dispatch
  rw [nextToken_of_E (nextTokenE_dot he hch)]
  unfold readDot
  rw [if_pos (by rw [hpk]; exact (digit_facts _ (by omega) hd0).2.2),
    if_neg (by rw [identAfterDot_dotnum hne hd hn hexp hw hr rest hrest]; decide)]
  -- `readNumber`
  have hp0 : At (takeChar (s, [])) ((d0 :: ds') ++ (e ++ (w ++ rest))) [46] :=
    takeChar_at (b := 46) (by decide) (x := (s, [])) ⟨hs', rfl⟩
  have hfin : ∀ {x : LState × Bytes}, At x (ds' ++ (e ++ (w ++ rest))) (d0 :: [46]) →
      (decimalTail s x).1.kvq = (tNUMBER, 46 :: (d0 :: ds') ++ ev, false) ∧ Ent (decimalTail s x).2 (w ++ rest) := by
    intro x hx
    obtain ⟨e1, e2⟩ := digitsUs_plain hd.tail hst x.2 hx.1
    have h2 := fracExp_at hexp.fracExp hw hr rest (x := digitsUs x.1 x.2) (acc := ds'.reverse ++ (d0 :: [46]))
      ⟨e2, by rw [e1, hx.2]⟩
    rw [decimalTail_eq]
    simp only [kvq_tokAt]
    refine ⟨?_, h2.1⟩
    rw [h2.2]; simp
  unfold readNumber
  simp only []
  rw [if_pos hch]
  have hc1 : (takeChar (s, [])).1.ch = d0.toNat := hp0.ch_ascii (by omega)
  by_cases hz : d0.toNat = 48
  · rw [if_pos (by rw [hc1]; exact hz)]
    have hp1 : At (takeChar (takeChar (s, []))) (ds' ++ (e ++ (w ++ rest))) (d0 :: [46]) :=
      takeChar_at (by omega) hp0
    -- after the `0`: a digit, `e`/`E`, or the white-space rune — not a base prefix
    have hc2 : (takeChar (takeChar (s, []))).1.ch = firstRune (ds' ++ (e ++ (w ++ rest))) := hp1.1.ch
    have hv : (48 ≤ firstRune (ds' ++ (e ++ (w ++ rest))) ∧ firstRune (ds' ++ (e ++ (w ++ rest))) ≤ 57) ∨
        firstRune (ds' ++ (e ++ (w ++ rest))) = r ∨ firstRune (ds' ++ (e ++ (w ++ rest))) = 101 ∨
        firstRune (ds' ++ (e ++ (w ++ rest))) = 69 := by
      rcases firstRune_digs hd.tail (e ++ (w ++ rest)) with h | h
      · rw [h]
        cases hexp with
        | none => rw [List.nil_append, firstRune_ws hw]; exact Or.inr (Or.inl rfl)
        | some he' =>
          obtain ⟨c, t, rfl, hc⟩ := he'.first
          rcases hc with h | h
          · subst h; rw [List.cons_append, firstRune_cons_ascii 101 _ (by decide)]; exact Or.inr (Or.inr (Or.inl rfl))
          · subst h; rw [List.cons_append, firstRune_cons_ascii 69 _ (by decide)]; exact Or.inr (Or.inr (Or.inr rfl))
      · exact Or.inl h
    have hnb : ∀ n : Nat, (n = 120 ∨ n = 88 ∨ n = 98 ∨ n = 66 ∨ n = 111 ∨ n = 79) →
        (takeChar (takeChar (s, []))).1.ch ≠ n := by
      intro n hn'
      rw [hc2]
      omega
    unfold zeroPrefix
    simp only []
    rw [if_neg (by intro h; rcases h with h | h <;> exact hnb _ (by omega) h),
      if_neg (by intro h; rcases h with h | h <;> exact hnb _ (by omega) h),
      if_neg (by intro h; rcases h with h | h <;> exact hnb _ (by omega) h)]
    exact hfin hp1
  · rw [if_neg (by rw [hc1]; exact hz)]
    -- `decimalTail` from the first digit
    obtain ⟨e1, e2⟩ := digitsUs_plain hd hst (takeChar (s, [])).2 hp0.1
    have h2 := fracExp_at hexp.fracExp hw hr rest (x := digitsUs (takeChar (s, [])).1 (takeChar (s, [])).2)
      (acc := (d0 :: ds').reverse ++ [46]) ⟨e2, by rw [e1, hp0.2]⟩
    rw [decimalTail_eq]
    simp only [kvq_tokAt]
    refine ⟨?_, h2.1⟩
    rw [h2.2]; simp

/-- `peekChar` in front of any rune: the rune itself if it is ASCII, else U+FFFD (one byte is decoded). -/
theorem peek_dec {s : LState} {p : Bytes} {c : Nat} (hd : Dec p c) {q : Bytes} {r1 : Nat} (hq : Dec q r1)
    (T : Bytes) (hs : Ent s (p ++ (q ++ T))) : (peekChar s = r1 ∧ r1 < 128) ∨ peekChar s = runeError := by
  obtain ⟨_, he, hrest⟩ := hs.dec hd
  unfold peekChar
  rw [he, hrest]
  cases q with
  | nil => exact absurd rfl hq.1
  | cons b q' =>
    simp only [Bool.false_eq_true, if_false, List.cons_append]
    by_cases hb : b.toNat < 128
    · have := hq.2 T
      rw [List.cons_append, decodeRune_ascii b _ hb] at this
      rw [decodeRune_ascii b [] hb]
      simp only [Prod.mk.injEq] at this
      exact Or.inl ⟨this.1, by rw [← this.1]; exact hb⟩
    · rw [decodeRune_single b (by omega)]
      exact Or.inr rfl

theorem ascii_digit : ∀ n, n < 128 → isDigit n = true → 48 ≤ n ∧ n ≤ 57 := by decide

/-! ## 8. digit-initial identifiers (`readNumberOrIdent`, lexer.go:1049-1088) -/

/-- `D+ _ x…` where `x` is an ASCII letter or `_` (`peekChar` decodes one byte) and the rest identifier characters:
`02422_data`, `1_x`. The value is the text. -/
theorem digIdentUs_ends_at_ws {ds body : Bytes} {r0 : Nat} {rs : List Nat} (hne : ds ≠ []) (hd : Digs ds)
    (hb : Spells body (r0 :: rs)) (h0lt : r0 < 128) (h0 : isLetter r0 = true ∨ r0 = 95)
    (hall : ∀ x ∈ r0 :: rs, isIdentChar x = true)
    {w : Bytes} {r : Nat} (hw : Dec w r) (hr : isWs r = true) (rest : Bytes)
    {s : LState} (hs : Ent s ((ds ++ 95 :: body) ++ (w ++ rest))) :
    (nextToken s).1.kvq = (tIDENT, ds ++ 95 :: enc (r0 :: rs), false) ∧ Ent (nextToken s).2 (w ++ rest) := by
  have hs' : Ent s (ds ++ (95 :: (body ++ (w ++ rest)))) := by simpa using hs
  have hX := scanWhile_at digitCond digitCond_ok isDigit digitCond_live hd.lt hd.isDigit
    (tail := 95 :: (body ++ (w ++ rest))) (by rw [firstRune_cons_ascii 95 _ (by decide)]; decide)
    (x := (s, [])) (acc := []) ⟨hs', rfl⟩
  rw [List.append_nil] at hX
  have hX' : At (scanWhile digitCond digitCond_ok s []) (95 :: (body ++ (w ++ rest))) ds.reverse := hX
  obtain ⟨d0, ds', rfl⟩ : ∃ d0 ds', ds = d0 :: ds' := by
    cases ds with
    | nil => exact absurd rfl hne
    | cons a b => exact ⟨a, b, rfl⟩
  have hd0 := hd.head
  have hs0 : Ent s ([d0] ++ (ds' ++ (95 :: (body ++ (w ++ rest))))) := hs'
  obtain ⟨hc0, he, _⟩ := hs0.dec (dec_ascii (by omega))
  have hch : (scanWhile digitCond digitCond_ok s []).1.ch = 95 := hX'.ch_ascii (b := 95) (by decide)
  obtain ⟨p, bs, rfl, hdp, hb1⟩ := hb.cons_inv
  have hpk : peekChar (scanWhile digitCond digitCond_ok s []).1 = r0 := by
    have he' : Ent (scanWhile digitCond digitCond_ok s []).1 ([95] ++ (p ++ (bs ++ (w ++ rest)))) := by
      simpa using hX'.1
    exact (he'.peek (dec_ascii (b := 95) (by decide)) r0 h0lt).2 (firstRune_dec hdp _)
  have h1 := takeChar_at (b := 95) (by decide) hX'
  obtain ⟨ha, hst⟩ := scanWhile_run identCharCond identCharCond_ok isIdentChar identCharCond_live
    (Spells.cons hdp hb1) hall (rest := w ++ rest) (by rw [firstRune_ws hw]; exact (ws_inert hr).1)
    (takeChar (scanWhile digitCond digitCond_ok s [])).2 h1.1
  rw [nextToken_of_E (nextTokenE_digit he (by rw [hc0]; exact hd0))]
  unfold readNumberOrIdent
  simp only []
  rw [if_pos ⟨hch, by rw [hpk]; exact h0⟩]
  simp only [kvq_tokAt]
  refine ⟨?_, hst⟩
  rw [ha, h1.2]; simp

/-- `D+ x…` where `x` is a letter (any Unicode letter), the rest identifier characters; if `x` is `e`/`E` the next
rune is not an ASCII digit (else it is an exponent); `x` is not a base-prefix letter after a lone `0`:
`1a`, `2nd`, `0a`, `1e`, `1ex`. The value is the text. -/
theorem digIdent_ends_at_ws {ds body : Bytes} {r0 : Nat} {rs : List Nat} (hne : ds ≠ []) (hd : Digs ds)
    (hb : Spells body (r0 :: rs)) (h0 : isLetter r0 = true)
    (hexp : (r0 = 101 ∨ r0 = 69) → ∀ r1 rs', rs = r1 :: rs' → ¬(48 ≤ r1 ∧ r1 ≤ 57))
    (hbase : ds = [48] → r0 ≠ 120 ∧ r0 ≠ 88 ∧ r0 ≠ 98 ∧ r0 ≠ 66 ∧ r0 ≠ 111 ∧ r0 ≠ 79)
    (hall : ∀ x ∈ r0 :: rs, isIdentChar x = true)
    {w : Bytes} {r : Nat} (hw : Dec w r) (hr : isWs r = true) (rest : Bytes)
    {s : LState} (hs : Ent s ((ds ++ body) ++ (w ++ rest))) :
    (nextToken s).1.kvq = (tIDENT, ds ++ enc (r0 :: rs), false) ∧ Ent (nextToken s).2 (w ++ rest) := by
  obtain ⟨p, bs, rfl, hdp, hb1⟩ := hb.cons_inv
  have hs' : Ent s (ds ++ (p ++ (bs ++ (w ++ rest)))) := by simpa using hs
  have hX := scanWhile_at digitCond digitCond_ok isDigit digitCond_live hd.lt hd.isDigit
    (tail := p ++ (bs ++ (w ++ rest))) (by rw [firstRune_dec hdp]; exact letter_not_digit h0)
    (x := (s, [])) (acc := []) ⟨hs', rfl⟩
  rw [List.append_nil] at hX
  have hX' : At (scanWhile digitCond digitCond_ok s []) (p ++ (bs ++ (w ++ rest))) ds.reverse := hX
  obtain ⟨d0, ds', rfl⟩ : ∃ d0 ds', ds = d0 :: ds' := by
    cases ds with
    | nil => exact absurd rfl hne
    | cons a b => exact ⟨a, b, rfl⟩
  have hd0 := hd.head
  have hs0 : Ent s ([d0] ++ (ds' ++ (p ++ (bs ++ (w ++ rest))))) := hs'
  obtain ⟨hc0, he, _⟩ := hs0.dec (dec_ascii (by omega))
  have hch : (scanWhile digitCond digitCond_ok s []).1.ch = r0 := (hX'.1.dec hdp).1
  have h95 : r0 ≠ 95 := by intro h; rw [h] at h0; revert h0; decide
  have hX1 : Ent (scanWhile digitCond digitCond_ok s []).1 ((p ++ bs) ++ (w ++ rest)) := by simpa using hX'.1
  obtain ⟨ha, hst⟩ := scanWhile_run identCharCond identCharCond_ok isIdentChar identCharCond_live
    (Spells.cons hdp hb1) hall (rest := w ++ rest) (by rw [firstRune_ws hw]; exact (ws_inert hr).1)
    (scanWhile digitCond digitCond_ok s []).2 hX1
  rw [nextToken_of_E (nextTokenE_digit he (by rw [hc0]; exact hd0))]
  unfold readNumberOrIdent
  simp only []
  rw [if_neg (by rw [hch]; exact fun h => h95 h.1), if_pos]
  · simp only [kvq_tokAt]
    refine ⟨?_, hst⟩
    rw [ha, hX'.2]; simp
  · rw [hch, hX'.2]
    refine ⟨h0, ?_, ?_⟩
    · by_cases hE : r0 = 101 ∨ r0 = 69
      · -- `e`/`E`: the rune after it is no ASCII digit, `+` or `-`
        have hws := ws_ascii_or_high hr
        have hpk : isDigit (peekChar (scanWhile digitCond digitCond_ok s []).1) = false ∧
            peekChar (scanWhile digitCond digitCond_ok s []).1 ≠ 43 ∧
            peekChar (scanWhile digitCond digitCond_ok s []).1 ≠ 45 := by
          cases hb1 with
          | nil =>
            obtain ⟨q1, _, _, q4⟩ := peek_ws_facts hdp hw hr rest (by simpa using hX'.1)
            exact ⟨q1, q4 43 (by decide) (by omega), q4 45 (by decide) (by omega)⟩
          | @cons q r1 bs' rs' hq hb' =>
            have hr1 := hall r1 (List.mem_cons_of_mem _ (List.mem_cons_self ..))
            have hnd := hexp hE r1 rs' rfl
            have he' : Ent (scanWhile digitCond digitCond_ok s []).1 (p ++ (q ++ (bs' ++ (w ++ rest)))) := by
              simpa using hX'.1
            rcases peek_dec hdp hq _ he' with ⟨h, hlt⟩ | h
            · rw [h]
              refine ⟨?_, ?_, ?_⟩
              · cases hdg : isDigit r1 with
                | false => rfl
                | true => exact absurd (ascii_digit r1 hlt hdg) hnd
              · intro e; rw [e] at hr1; revert hr1; decide
              · intro e; rw [e] at hr1; revert hr1; decide
            · rw [h]
              exact ⟨runeError_inert.1, by unfold runeError; omega, by unfold runeError; omega⟩
        simp [hpk.1, hpk.2.1, hpk.2.2]
      · have h1 : r0 ≠ 101 := fun h => hE (Or.inl h)
        have h2 : r0 ≠ 69 := fun h => hE (Or.inr h)
        simp [h1, h2]
    by_cases hz : d0 :: ds' = [48]
    · have := hbase hz
      simp [this.1, this.2.1, this.2.2.1, this.2.2.2.1, this.2.2.2.2.1, this.2.2.2.2.2]
    · have : ((d0 :: ds').reverse == [48]) = false := by
        rw [beq_eq_false_iff_ne]
        intro h
        have := congrArg List.reverse h
        rw [List.reverse_reverse] at this
        exact hz this
      rw [this]; rfl

/-! ## 9. `$`-initial identifiers where `tryReadDollarTag` gives up before its 4096-byte search

`tryReadDollarTag` (lexer.go:789-863) answers "no tag" without searching when the rune after `$` is not a letter
or `_` (`$`, `$1`, `$1$x`), or when the run of tag characters after `$` is not followed by a second `$` (`$name`).
Only when the text is `$tag$…` does it search the next 4096 bytes for a closing `$tag$` — and that search looks past
any gap (see the `#guard`s in `DC/Props/C05Ends.lean`); such tokens are not covered. -/

theorem winDecode_dec {p : Bytes} {r : Nat} (hp : Dec p r) (T : Bytes) {k : Nat} (hk : 4 ≤ k) :
    winDecode (p ++ T) k = (r, p.length) := by
  unfold winDecode
  have h4 := dec_length_le_four hp
  rw [show min k 4 = 4 by omega, List.take_append, List.take_of_length_le h4]
  exact hp.2 _

theorem dec36 : Dec [36] 36 := dec_ascii (b := 36) (by decide)

theorem nextTokenE_dollar {s : LState} (he : s.eof = false) (hch : s.ch = 36) : nextTokenE s = readDollar s := by
  rw [nextTokenE_live (by rw [hch]; decide) he (by rw [hch]; decide)]
  simp [hch, nextTokenSwitch, singleCharKind, readOperator]

theorem dollarIdentCond_live (s : LState) (_ : s.eof = false) :
    dollarIdentCond s = (fun c => isIdentChar c || decide (c = 36)) s.ch := rfl

/-- once `tryReadDollarTag` has answered "no tag": `$` + identifier characters, up to the white-space rune. -/
theorem readDollar_ident {body : Bytes} {rs : List Nat} (hb : Spells body rs) (hall : ∀ x ∈ rs, isIdentChar x = true)
    {w : Bytes} {r : Nat} (hw : Dec w r) (hr : isWs r = true) (rest : Bytes)
    {s : LState} (hs : Ent s ((36 :: body) ++ (w ++ rest)))
    (h36 : firstRune (body ++ (w ++ rest)) ≠ 36)
    (htag : tryReadDollarTag s = .ok ([], s)) :
    (nextToken s).1.kvq = (tIDENT, 36 :: enc rs, false) ∧ Ent (nextToken s).2 (w ++ rest) := by
  have hws := ws_ascii_or_high hr
  have hs' : Ent s ([36] ++ (body ++ (w ++ rest))) := by simpa using hs
  obtain ⟨hch, he, _⟩ := hs'.dec dec36
  have hpk : ¬ peekChar s = 36 := by rw [hs'.peek dec36 36 (by decide)]; exact h36
  obtain ⟨ha, hst⟩ := scanWhile_run dollarIdentCond dollarIdentCond_ok (fun c => isIdentChar c || decide (c = 36))
    dollarIdentCond_live hb (fun x hx => by simp [hall x hx]) (rest := w ++ rest)
    (by rw [firstRune_ws hw, (ws_inert hr).1]; simp; omega) (pushRune [] s.ch) (hs'.readChar dec36)
  have hE : nextTokenE s = .ok (readDollarIdentifier s) := by
    rw [nextTokenE_dollar he hch]
    unfold readDollar
    rw [if_neg hpk, htag]
    simp
  rw [nextToken_of_E hE]
  simp only [readDollarIdentifier, kvq_tokAt]
  refine ⟨?_, hst⟩
  rw [ha, hch]
  simp [pushRune, encodeRune]

/-- `$` alone, or `$` + a digit + identifier characters (`$1`, `$1$x`): the rune after `$` is no letter and no `_`,
`tryReadDollarTag` returns at once. -/
theorem dollarDigit_ends_at_ws {body : Bytes} {rs : List Nat} (hb : Spells body rs)
    (h0 : ∀ r0 rs', rs = r0 :: rs' → isDigit r0 = true) (hall : ∀ x ∈ rs, isIdentChar x = true)
    {w : Bytes} {r : Nat} (hw : Dec w r) (hr : isWs r = true) (rest : Bytes)
    {s : LState} (hs : Ent s ((36 :: body) ++ (w ++ rest))) :
    (nextToken s).1.kvq = (tIDENT, 36 :: enc rs, false) ∧ Ent (nextToken s).2 (w ++ rest) := by
  have hws := ws_ascii_or_high hr
  have hs' : Ent s ([36] ++ (body ++ (w ++ rest))) := by simpa using hs
  obtain ⟨_, _, hrest⟩ := hs'.dec dec36
  -- the first rune after `$`: a digit or the white-space rune
  obtain ⟨p, c, T, hT, hp, hc1, hc2⟩ : ∃ p c T, body ++ (w ++ rest) = p ++ T ∧ Dec p c ∧
      isLetter c = false ∧ c ≠ 95 ∧ c ≠ 36 := by
    cases hb with
    | nil => exact ⟨w, r, rest, rfl, hw, (ws_inert hr).2.1, by omega, by omega⟩
    | @cons p r0 bs rs' hd hb' =>
      have hdig := h0 r0 rs' rfl
      refine ⟨p, r0, bs ++ (w ++ rest), by simp, hd, ?_, ?_, ?_⟩
      · cases hl : isLetter r0 with
        | false => rfl
        | true => rw [letter_not_digit hl] at hdig; cases hdig
      · intro h; rw [h] at hdig; revert hdig; decide
      · intro h; rw [h] at hdig; revert hdig; decide
  have htag : tryReadDollarTag s = .ok ([], s) := by
    unfold tryReadDollarTag
    simp only []
    rw [hrest, hT]
    have hne : (p ++ T).isEmpty = false := by
      cases p with
      | nil => exact absurd rfl hp.1
      | cons _ _ => rfl
    rw [hne, winDecode_dec hp T (by decide)]
    simp [hc1, hc2.1]
  exact readDollar_ident hb hall hw hr rest hs (by rw [hT, firstRune_dec hp]; exact hc2.2) htag

/-- the characters of a dollar tag (lexer.go:811). -/
def isTagChar (c : Nat) : Bool := isLetter c || isDigit c || decide (c = 95)

theorem tagScan_run {body : Bytes} {rs : List Nat} (hb : Spells body rs) (hall : ∀ x ∈ rs, isTagChar x = true)
    {w : Bytes} {r : Nat} (hw : Dec w r) (hr : isTagChar r = false) (rest : Bytes) :
    ∀ (k : Nat) (tag : Bytes), body.length + 4 ≤ k →
      tagScan (body ++ (w ++ rest)) k tag = (w ++ rest, k - body.length, (enc rs).reverse ++ tag) := by
  induction hb with
  | nil =>
    intro k tag hk
    have hne : w ++ rest ≠ [] := by
      cases w with
      | nil => exact absurd rfl hw.1
      | cons _ _ => simp
    have hk' : 4 ≤ k := by simpa using hk
    rw [List.nil_append, tagScan.eq_1, dif_neg (by intro h; rcases h with h | h <;> first | omega | exact hne h)]
    simp only []
    rw [winDecode_dec hw rest hk']
    unfold isTagChar at hr
    simp only [hr]
    simp [enc]
  | @cons p r0 bs rs' hd _ ih =>
    intro k tag hk
    have hr0 := hall r0 (List.mem_cons_self ..)
    have hpl : 0 < p.length := by
      cases p with
      | nil => exact absurd rfl hd.1
      | cons _ _ => simp
    have hne : p ++ bs ++ (w ++ rest) ≠ [] := by
      cases p with
      | nil => exact absurd rfl hd.1
      | cons _ _ => simp
    rw [List.length_append] at hk
    rw [tagScan.eq_1, dif_neg (by intro h; rcases h with h | h <;> first | omega | exact hne h)]
    simp only []
    rw [List.append_assoc, winDecode_dec hd _ (by omega)]
    unfold isTagChar at hr0
    simp only [hr0, if_true, List.drop_left']
    rw [ih (fun x hx => hall x (List.mem_cons_of_mem _ hx)) (k - p.length) (pushRune tag r0) (by omega)]
    simp [enc, pushRune, List.length_append]
    omega

/-- `$name`: the run of tag characters (letters, digits, `_`; first one a letter or `_`; at most 4092 bytes, so that
the 4096-byte window reaches the white-space rune) is followed by white space, not by `$`: no tag, an identifier. -/
theorem dollarName_ends_at_ws {body : Bytes} {r0 : Nat} {rs : List Nat} (hb : Spells body (r0 :: rs))
    (h0 : isLetter r0 = true ∨ r0 = 95) (hall : ∀ x ∈ r0 :: rs, isTagChar x = true) (hlen : body.length ≤ 4092)
    {w : Bytes} {r : Nat} (hw : Dec w r) (hr : isWs r = true) (rest : Bytes)
    {s : LState} (hs : Ent s ((36 :: body) ++ (w ++ rest))) :
    (nextToken s).1.kvq = (tIDENT, 36 :: enc (r0 :: rs), false) ∧ Ent (nextToken s).2 (w ++ rest) := by
  have hws := ws_ascii_or_high hr
  obtain ⟨_, hi2, hi3, _, _⟩ := ws_inert hr
  have hs' : Ent s ([36] ++ (body ++ (w ++ rest))) := by simpa using hs
  obtain ⟨_, _, hrest⟩ := hs'.dec dec36
  have hident : ∀ x ∈ r0 :: rs, isIdentChar x = true := by
    intro x hx
    have := hall x hx
    unfold isTagChar at this
    unfold isIdentChar
    simp only [Bool.or_eq_true, decide_eq_true_eq] at this ⊢
    rcases this with (h | h) | h
    · exact Or.inl (Or.inr h)
    · exact Or.inr h
    · exact Or.inl (Or.inl (Or.inl h))
  have hrtag : isTagChar r = false := by
    unfold isTagChar
    rw [hi2, hi3]
    simp; omega
  obtain ⟨p, bs, rfl, hdp, hb1⟩ := hb.cons_inv
  have h36 : r0 ≠ 36 := by
    intro h; rw [h] at h0; revert h0; decide
  have hpl : 0 < p.length := by
    cases p with
    | nil => exact absurd rfl hdp.1
    | cons _ _ => simp
  rw [List.length_append] at hlen
  have htag : tryReadDollarTag s = .ok ([], s) := by
    unfold tryReadDollarTag
    simp only []
    rw [hrest]
    have hne : (p ++ bs ++ (w ++ rest)).isEmpty = false := by
      cases p with
      | nil => exact absurd rfl hdp.1
      | cons _ _ => rfl
    have hwne : w ++ rest ≠ [] := by
      cases w with
      | nil => exact absurd rfl hw.1
      | cons _ _ => simp
    rw [hne, List.append_assoc, winDecode_dec hdp _ (by decide)]
    have hnb : (!isLetter r0 && decide (r0 ≠ 95)) = false := by
      rcases h0 with h | h <;> simp [h]
    simp only [hnb, Bool.false_eq_true, if_false, List.drop_left']
    rw [tagScan_run hb1 (fun x hx => hall x (List.mem_cons_of_mem _ hx)) hw hrtag rest _ _ (by omega)]
    simp only []
    rw [if_neg (by intro h; rcases h with h | h <;> first | omega | exact hwne h)]
    rw [winDecode_dec hw rest (by omega)]
    simp only []
    rw [if_pos (by omega)]
  exact readDollar_ident (Spells.cons hdp hb1) hident hw hr rest hs
    (by rw [List.append_assoc, firstRune_dec hdp]; exact h36) htag

/-! ## 10. the enlarged token class and the gap-exchange theorem -/

/-- the tokens for which "a white-space rune ends the token and nothing after that rune is looked at" is proved.
First component: the token's text; second: its `(kind, value, quoted)`. -/
inductive WsTok : Bytes → (Nat × Bytes × Bool) → Prop
  /-- identifiers / keywords, ASCII decimal integers, the 30 operator and punctuation spellings -/
  | simple {t : Bytes} {T : Nat × Bytes × Bool} : SimpleTok t T → WsTok t T
  /-- `'…'` with plain runes, `''`, `\c`, `\xHH` -/
  | str {body val : Bytes} : QBody false 39 [39] body val → WsTok (39 :: body ++ [39]) (tSTRING, val, false)
  /-- `"…"` with plain runes, `""`, `\c` -/
  | dquote {body val : Bytes} : DBody body val → WsTok (34 :: body ++ [34]) (tIDENT, val, true)
  /-- `` `…` `` with plain runes, ``` `` ```, `\c`, `\xHH` -/
  | backtick {body val : Bytes} : QBody true 96 [96] body val → WsTok (96 :: body ++ [96]) (tIDENT, val, false)
  /-- `{…}` -/
  | param {body : Bytes} {rs : List Nat} : Spells body rs → (∀ x ∈ rs, x ≠ 125) →
      WsTok (123 :: body ++ [125]) (tPARAM, enc rs, false)
  /-- `‘…’` -/
  | ustring {op qb body : Bytes} {o : Nat} {rs : List Nat} : Dec op o → (o = 0x2018 ∨ o = 0x2019) → Dec qb 0x2019 →
      Spells body rs → (∀ x ∈ rs, x ≠ 0x2019) → WsTok (op ++ body ++ qb) (tSTRING, enc rs, false)
  /-- `“…”` -/
  | uquoted {op qb body : Bytes} {o : Nat} {rs : List Nat} : Dec op o → (o = 0x201C ∨ o = 0x201D) → Dec qb 0x201D →
      Spells body rs → (∀ x ∈ rs, x ≠ 0x201D) → WsTok (op ++ body ++ qb) (tIDENT, enc rs, true)
  /-- `@` -/
  | at : WsTok [64] (tIDENT, [64], false)
  /-- `@@` -/
  | atat : WsTok [64, 64] (tIDENT, [64, 64], false)
  /-- `@@name` -/
  | atname {body : Bytes} {r0 : Nat} {rs : List Nat} : Spells body (r0 :: rs) → (isIdentStart r0 || isDigit r0) = true →
      (∀ x ∈ r0 :: rs, isIdentChar x = true) → WsTok (64 :: 64 :: body) (tIDENT, 64 :: 64 :: enc (r0 :: rs), false)
  /-- decimal numbers `D+(_D+)*` + nothing / `.` / `.D+(_D+)*` / exponent / fraction and exponent -/
  | dec {ds g gv fe fv : Bytes} : ds ≠ [] → Digs ds → UsGroups g gv → FracExp fe fv →
      WsTok (ds ++ g ++ fe) (tNUMBER, ds ++ gv ++ fv, false)
  /-- `0x…` -/
  | hex {c : UInt8} {h fr ex : Bytes} : (c = 120 ∨ c = 88) → (∀ b ∈ h, HexB b ∨ b = 95) → HexFrac fr → HexExp ex →
      WsTok (48 :: c :: (h ++ fr ++ ex)) (tNUMBER, 48 :: c :: (h ++ fr ++ ex), false)
  /-- `0b…` -/
  | bin {c d : UInt8} {bs : Bytes} : (c = 98 ∨ c = 66) → (d = 48 ∨ d = 49) → (∀ b ∈ bs, b = 48 ∨ b = 49 ∨ b = 95) →
      WsTok (48 :: c :: d :: bs) (tNUMBER, 48 :: c :: d :: bs, false)
  /-- `0o…` -/
  | oct {c : UInt8} {os : Bytes} : (c = 111 ∨ c = 79) → (∀ b ∈ os, (48 ≤ b.toNat ∧ b.toNat ≤ 55) ∨ b = 95) →
      WsTok (48 :: c :: os) (tNUMBER, 48 :: c :: os, false)
  /-- `.D+` with optional exponent, at most 28 digits -/
  | dotnum {ds e ev : Bytes} : ds ≠ [] → Digs ds → ds.length ≤ 28 → ExpOpt e ev →
      WsTok (46 :: ds ++ e) (tNUMBER, 46 :: ds ++ ev, false)
  /-- `D+_x…` -/
  | digIdentUs {ds body : Bytes} {r0 : Nat} {rs : List Nat} : ds ≠ [] → Digs ds → Spells body (r0 :: rs) → r0 < 128 →
      (isLetter r0 = true ∨ r0 = 95) → (∀ x ∈ r0 :: rs, isIdentChar x = true) →
      WsTok (ds ++ 95 :: body) (tIDENT, ds ++ 95 :: enc (r0 :: rs), false)
  /-- `D+x…` -/
  | digIdent {ds body : Bytes} {r0 : Nat} {rs : List Nat} : ds ≠ [] → Digs ds → Spells body (r0 :: rs) →
      isLetter r0 = true → ((r0 = 101 ∨ r0 = 69) → ∀ r1 rs', rs = r1 :: rs' → ¬(48 ≤ r1 ∧ r1 ≤ 57)) →
      (ds = [48] → r0 ≠ 120 ∧ r0 ≠ 88 ∧ r0 ≠ 98 ∧ r0 ≠ 66 ∧ r0 ≠ 111 ∧ r0 ≠ 79) →
      (∀ x ∈ r0 :: rs, isIdentChar x = true) → WsTok (ds ++ body) (tIDENT, ds ++ enc (r0 :: rs), false)
  /-- `$`, `$1…` -/
  | dollarDigit {body : Bytes} {rs : List Nat} : Spells body rs → (∀ r0 rs', rs = r0 :: rs' → isDigit r0 = true) →
      (∀ x ∈ rs, isIdentChar x = true) → WsTok (36 :: body) (tIDENT, 36 :: enc rs, false)
  /-- `$name` without a second `$` -/
  | dollarName {body : Bytes} {r0 : Nat} {rs : List Nat} : Spells body (r0 :: rs) → (isLetter r0 = true ∨ r0 = 95) →
      (∀ x ∈ r0 :: rs, isTagChar x = true) → body.length ≤ 4092 → WsTok (36 :: body) (tIDENT, 36 :: enc (r0 :: rs), false)

theorem WsTok.ne_eof {t : Bytes} {T : Nat × Bytes × Bool} (h : WsTok t T) : T.1 ≠ tEOF := by
  cases h with
  | simple h => exact h.ne_eof
  | _ => first
    | exact (by decide : tSTRING ≠ tEOF)
    | exact (by decide : tIDENT ≠ tEOF)
    | exact (by decide : tPARAM ≠ tEOF)
    | exact (by decide : tNUMBER ≠ tEOF)

/-- `token_ends_at_ws` for every class of `WsTok`. -/
theorem WsTok.ends_at_ws {t : Bytes} {T : Nat × Bytes × Bool} (h : WsTok t T)
    {w : Bytes} {r : Nat} (hw : Dec w r) (hr : isWs r = true) (rest : Bytes)
    {s : LState} (hs : Ent s (t ++ (w ++ rest))) :
    (nextToken s).1.kvq = T ∧ Ent (nextToken s).2 (w ++ rest) := by
  cases h with
  | simple h => exact h.ends_at_ws hw hr rest hs
  | str hb => exact string_ends_at_ws hb hw hr rest hs
  | dquote hb => exact dquote_ends_at_ws hb hw hr rest hs
  | backtick hb => exact backtick_ends_at_ws hb hw hr rest hs
  | param hb hno => exact param_tok hb hno (w ++ rest) hs
  | ustring ho ho' hq hb hno => exact ustring_tok ho ho' hq hb hno (w ++ rest) hs
  | uquoted ho ho' hq hb hno => exact uquoted_tok ho ho' hq hb hno (w ++ rest) hs
  | «at» => exact at_ends_at_ws hw hr rest hs
  | atat => exact atat_ends_at_ws hw hr rest hs
  | atname hb h0 hall => exact atname_ends_at_ws hb h0 hall hw hr rest hs
  | dec hne hd hg hf => exact dec_ends_at_ws hne hd hg hf hw hr rest hs
  | hex hc hh hfr hex => exact hex_ends_at_ws hc hh hfr hex hw hr rest hs
  | bin hc hd hbs => exact bin_ends_at_ws hc hd hbs hw hr rest hs
  | oct hc hos => exact oct_ends_at_ws hc hos hw hr rest hs
  | dotnum hne hd hn he => exact dotnum_ends_at_ws hne hd hn he hw hr rest hs
  | digIdentUs hne hd hb hlt h0 hall => exact digIdentUs_ends_at_ws hne hd hb hlt h0 hall hw hr rest hs
  | digIdent hne hd hb h0 hexp hbase hall => exact digIdent_ends_at_ws hne hd hb h0 hexp hbase hall hw hr rest hs
  | dollarDigit hb h0 hall => exact dollarDigit_ends_at_ws hb h0 hall hw hr rest hs
  | dollarName hb h0 hall hlen => exact dollarName_ends_at_ws hb h0 hall hlen hw hr rest hs

/-- a `WsTok` token followed by a gap that begins with white space: the parser sees the token, then what it sees
from `rest`. -/
theorem wsTok_then_gap {t : Bytes} {T : Nat × Bytes × Bool} (ht : WsTok t T) {g : Bytes} (hg : WsGap g)
    (rest : Bytes) {s x : LState} (hs : Ent s (t ++ (g ++ rest))) (hx : Ent x rest) :
    pumpedFrom s = pumpOne T ++ pumpedFrom x := by
  obtain ⟨w, r, g', rfl, hw, hr, hg'⟩ := hg
  rw [List.append_assoc] at hs
  obtain ⟨hk, he⟩ := ht.ends_at_ws hw hr (g' ++ rest) hs
  rw [pumpedFrom_step hk ht.ne_eof]
  have he' : Ent (nextToken s).2 ((w ++ g') ++ rest) := by rw [List.append_assoc]; exact he
  rw [gap_trivia (Gap.cons (GapItem.ws hw hr) hg') rest he' hx]

/-- two texts with the same `WsTok` tokens and different layout: built from a common tail by prefixing, in lock
step, the same token followed by (possibly different) gaps that begin with a white-space rune, or (possibly
different) arbitrary gaps where no token precedes. -/
inductive SameToks : Bytes → Bytes → Prop
  | tail (rest : Bytes) : SameToks rest rest
  | tok {t : Bytes} {T : Nat × Bytes × Bool} {g₁ g₂ a b : Bytes} :
      WsTok t T → WsGap g₁ → WsGap g₂ → SameToks a b → SameToks (t ++ (g₁ ++ a)) (t ++ (g₂ ++ b))
  | gap {g₁ g₂ a b : Bytes} : Gap g₁ → Gap g₂ → SameToks a b → SameToks (g₁ ++ a) (g₂ ++ b)

theorem SameToks.pumped {a b : Bytes} (h : SameToks a b) :
    ∀ {s₁ s₂ : LState}, Ent s₁ a → Ent s₂ b → pumpedFrom s₁ = pumpedFrom s₂ := by
  induction h with
  | tail rest => intro s₁ s₂ e₁ e₂; exact pumpedFrom_core (e₁.coreEq e₂)
  | @tok t T g₁ g₂ a b ht h₁ h₂ _ ih =>
    intro s₁ s₂ e₁ e₂
    rw [wsTok_then_gap ht h₁ a e₁ (ent_stateAt a), wsTok_then_gap ht h₂ b e₂ (ent_stateAt b),
      ih (ent_stateAt a) (ent_stateAt b)]
  | @gap g₁ g₂ a b h₁ h₂ _ ih =>
    intro s₁ s₂ e₁ e₂
    rw [gap_trivia h₁ a e₁ (ent_stateAt a), gap_trivia h₂ b e₂ (ent_stateAt b), ih (ent_stateAt a) (ent_stateAt b)]

theorem SameTokens.toSameToks {a b : Bytes} (h : SameTokens a b) : SameToks a b := by
  induction h with
  | tail rest => exact SameToks.tail rest
  | tok ht h₁ h₂ _ ih => exact SameToks.tok (WsTok.simple ht) h₁ h₂ ih
  | gap h₁ h₂ _ ih => exact SameToks.gap h₁ h₂ ih

end DC.Lexer
