import DC.Proofs.LexerRdStr
import DC.Proofs.LexerSpec

/-!
# `runL` of the reader-interface lexer is the pure lexer model: numbers, identifiers, operators
-/
set_option linter.unusedSimpArgs false

namespace DC.LexerRd
open DC DC.Utf8 DC.Gen.Tokens DC.Lexer DC.Rd DC.Bufio
open DC.Rd.RdM (runL lrune lpeek)

theorem usDigitAheadM_pure (s : LState) :
    runL (usDigitAheadM s.m) s.rest = (.ok (decide (s.ch = 95) && isDigit (peekChar s)), s.rest) := by
  unfold usDigitAheadM
  by_cases h : s.ch = 95
  · simp [h, runL_bind, peekCharM_pure]
  · simp [h]

theorem skipUnderscoresM_pure :
    ∀ (f : Nat) (s : LState), s.measure < f →
      runL (skipUnderscoresM f s.m) s.rest = (.ok (skipUnderscores s).m, (skipUnderscores s).rest) := by
  intro f
  induction f with
  | zero => intro s h; omega
  | succ f ih =>
    intro s h
    rw [skipUnderscores]
    simp only [skipUnderscoresM, runL_bind, usDigitAheadM_pure, bindRes_ok, runL_ite]
    by_cases hc : (decide (s.ch = 95) && isDigit (peekChar s)) = true
    · have hm : (readChar s).measure < s.measure := by
        apply readChar_measure_lt_of_ch
        simp at hc; omega
      simp only [hc, if_true, dite_true, runL_bind, readCharM_pure, bindRes_ok]
      exact ih _ (by omega)
    · simp [hc]

theorem digitsUsM_pure :
    ∀ (f : Nat) (s : LState) (acc : Bytes), s.measure < f →
      runL (digitsUsM f s.m acc) s.rest =
        (.ok ((digitsUs s acc).1.m, (digitsUs s acc).2), (digitsUs s acc).1.rest) := by
  intro f
  induction f with
  | zero => intro s acc h; omega
  | succ f ih =>
    intro s acc h
    rw [digitsUs]
    simp only [digitsUsM]
    by_cases hc : isDigit s.ch = true
    · have hm : (readChar s).measure < s.measure := by
        apply readChar_measure_lt_of_ch
        intro hz; rw [hz, isDigit_zero] at hc; cases hc
      have hm2 := skipUnderscores_measure_le (readChar s)
      simp only [hc, if_true, dite_true, runL_bind, readCharM_pure, bindRes_ok]
      rw [skipUnderscoresM_pure (f + 1) (readChar s) (by omega)]
      simp only [bindRes_ok]
      exact ih _ _ (by omega)
    · simp [hc]

theorem takeCharM_pure (s : LState) (acc : Bytes) :
    runL (takeCharM s.m acc) s.rest = (.ok ((readChar s).m, pushRune acc s.ch), (readChar s).rest) := by
  simp only [takeCharM, runL_bind, readCharM_pure, bindRes_ok, runL_pure]

theorem optChar2M_pure (c1 c2 : Nat) (s : LState) (acc : Bytes) :
    runL (optChar2M c1 c2 s.m acc) s.rest =
      (.ok ((optChar2 c1 c2 (s, acc)).1.m, (optChar2 c1 c2 (s, acc)).2), (optChar2 c1 c2 (s, acc)).1.rest) := by
  unfold optChar2M optChar2
  by_cases h : s.ch = c1 ∨ s.ch = c2
  · simp only [if_pos h, runL_bind, readCharM_pure, bindRes_ok, runL_pure]
  · simp only [if_neg h, runL_pure]

attribute [rd_pure] usDigitAheadM_pure skipUnderscoresM_pure digitsUsM_pure takeCharM_pure optChar2M_pure

theorem hexTailM_pure (f : Nat) (s : LState) (acc : Bytes) (h : s.measure < f) :
    runL (hexTailM f s.m acc) s.rest =
      (.ok ((hexTail (s, acc)).1.m, (hexTail (s, acc)).2), (hexTail (s, acc)).1.rest) := by
  unfold hexTailM hexTail takeChar
  rd_simp [] using_fuel h
  split <;> rename_i c1 <;> rd_simp [c1] using_fuel h <;> split <;> rename_i c2 <;> rd_simp [c2] using_fuel h

theorem fracPartM_pure (f : Nat) (s : LState) (acc : Bytes) (h : s.measure < f) :
    runL (fracPartM f s.m acc) s.rest =
      (.ok ((fracPart (s, acc)).1.m, (fracPart (s, acc)).2), (fracPart (s, acc)).1.rest) := by
  unfold fracPartM fracPart takeChar
  rd_simp [] using_fuel h
  split <;> rename_i c1 <;> rd_simp [c1] using_fuel h
  split <;> rename_i c2 <;> rd_simp [c2] using_fuel h

theorem expPartM_pure (f : Nat) (s : LState) (acc : Bytes) (h : s.measure < f) :
    runL (expPartM f s.m acc) s.rest =
      (.ok ((expPart (s, acc)).1.m, (expPart (s, acc)).2), (expPart (s, acc)).1.rest) := by
  unfold expPartM expPart takeChar
  rd_simp [] using_fuel h
  split <;> rename_i c1 <;> rd_simp [c1] using_fuel h

attribute [rd_pure] hexTailM_pure fracPartM_pure expPartM_pure


theorem decimalTailM_pure (f : Nat) (s0 x : LState) (acc : Bytes) (h : x.measure < f) :
    runL (decimalTailM f s0.m x.m acc) x.rest =
      (.ok ((decimalTail s0 (x, acc)).1, (decimalTail s0 (x, acc)).2.m), (decimalTail s0 (x, acc)).2.rest) := by
  unfold decimalTailM decimalTail
  rd_simp [] using_fuel h

attribute [rd_pure] decimalTailM_pure

theorem zeroPrefixM_pure (f : Nat) (s0 x : LState) (acc : Bytes) (h : x.measure < f) :
    runL (zeroPrefixM f s0.m x.m acc) x.rest =
      (.ok ((zeroPrefix s0 (x, acc)).1, (zeroPrefix s0 (x, acc)).2.m), (zeroPrefix s0 (x, acc)).2.rest) := by
  unfold zeroPrefixM zeroPrefix takeChar
  rd_simp [] using_fuel h
  split <;> rename_i c1 <;> rd_simp [c1] using_fuel h
  split <;> rename_i c2 <;> rd_simp [c2] using_fuel h
  split <;> rename_i c3 <;> rd_simp [c3] using_fuel h

attribute [rd_pure] zeroPrefixM_pure

theorem readNumberM_pure (f : Nat) (s : LState) (h : s.measure < f) :
    runL (readNumberM f s.m) s.rest =
      (.ok ((readNumber s).1, (readNumber s).2.m), (readNumber s).2.rest) := by
  unfold readNumberM readNumber takeChar
  rd_simp [] using_fuel h
  split <;> rename_i c1 <;> rd_simp [c1] using_fuel h <;> split <;> rename_i c2 <;> rd_simp [c2] using_fuel h

attribute [rd_pure] readNumberM_pure

theorem usDigitGroupsM_pure :
    ∀ (f : Nat) (s : LState) (acc : Bytes), s.measure < f →
      runL (usDigitGroupsM f s.m acc) s.rest =
        (.ok ((usDigitGroups s acc).1.m, (usDigitGroups s acc).2), (usDigitGroups s acc).1.rest) := by
  intro f
  induction f with
  | zero => intro s acc h; omega
  | succ f ih =>
    intro s acc h
    rw [usDigitGroups]
    simp only [usDigitGroupsM, runL_bind, usDigitAheadM_pure, bindRes_ok, runL_ite]
    by_cases hc : (decide (s.ch = 95) && isDigit (peekChar s)) = true
    · have hm : (readChar s).measure < s.measure := by
        apply readChar_measure_lt_of_ch
        simp at hc; omega
      have hm2 := scanWhile_measure_le digitCond digitCond_ok (readChar s) acc
      simp only [hc, if_true, dite_true, runL_bind, readCharM_pure, bindRes_ok]
      rw [scan_digit (f + 1) (readChar s) acc (by omega)]
      simp only [bindRes_ok]
      exact ih _ _ (by omega)
    · simp [hc]

attribute [rd_pure] usDigitGroupsM_pure

theorem peekIs01_pure (s : LState) :
    runL (peekIs01 s.m) s.rest = (.ok (decide (peekChar s = 48 ∨ peekChar s = 49)), s.rest) := by
  unfold peekIs01
  by_cases h : peekChar s = 48
  · simp [h, runL_bind, peekCharM_pure]
  · simp [h, runL_bind, peekCharM_pure]

theorem baseTailM_pure (f : Nat) (s : LState) (acc : Bytes) (h : s.measure < f) :
    runL (baseTailM f s.m acc) s.rest =
      (.ok ((baseTail (s, acc)).1.m, (baseTail (s, acc)).2), (baseTail (s, acc)).1.rest) := by
  unfold baseTailM baseTail takeChar
  simp only []
  by_cases z : (acc == [48]) = true <;> by_cases x : (s.ch = 120 ∨ s.ch = 88) <;>
    by_cases b : (s.ch = 98 ∨ s.ch = 66) <;> by_cases c3 : (peekChar s = 48 ∨ peekChar s = 49) <;>
    rd_simp [z, x, b, c3, peekIs01_pure] using_fuel h

theorem octTailM_pure (f : Nat) (c : Nat) (s : LState) (acc : Bytes) (h : s.measure < f) :
    runL (octTailM f c s.m acc) s.rest =
      (.ok ((octTail c (s, acc)).1.m, (octTail c (s, acc)).2), (octTail c (s, acc)).1.rest) := by
  unfold octTailM octTail takeChar
  rd_simp [] using_fuel h
  split <;> rename_i c1 <;> rd_simp [c1] using_fuel h
  split <;> rename_i c2 <;> rd_simp [c2] using_fuel h

attribute [rd_pure] peekIs01_pure baseTailM_pure octTailM_pure

theorem numberTailM_pure (f : Nat) (c : Nat) (s0 x : LState) (acc : Bytes) (h : x.measure < f) :
    runL (numberTailM f c s0.m x.m acc) x.rest =
      (.ok ((numberTail c s0 (x, acc)).1, (numberTail c s0 (x, acc)).2.m), (numberTail c s0 (x, acc)).2.rest) := by
  unfold numberTailM numberTail
  rd_simp [] using_fuel h

attribute [rd_pure] numberTailM_pure


theorem isExponentM_pure (s : LState) :
    runL (isExponentM s.m) s.rest =
      (.ok ((decide (s.ch = 101) || decide (s.ch = 69)) &&
            (isDigit (peekChar s) || decide (peekChar s = 43) || decide (peekChar s = 45))), s.rest) := by
  unfold isExponentM
  by_cases c : s.ch = 101 <;> by_cases c' : s.ch = 69 <;> by_cases d : isDigit (peekChar s) = true <;>
    by_cases p : peekChar s = 43 <;>
    simp [c, c', d, p, runL_bind, peekCharM_pure, show isDigit 43 = false by decide]

theorem usThenLetterM_pure (s : LState) :
    runL (usThenLetterM s.m) s.rest =
      (.ok (decide (s.ch = 95 ∧ (isLetter (peekChar s) = true ∨ peekChar s = 95))), s.rest) := by
  unfold usThenLetterM
  by_cases c : s.ch = 95 <;> simp [c, runL_bind, peekCharM_pure]

attribute [rd_pure] isExponentM_pure usThenLetterM_pure

theorem readNumberOrIdentM_pure (f : Nat) (s : LState) (h : s.measure < f) :
    runL (readNumberOrIdentM f s.m) s.rest =
      (.ok ((readNumberOrIdent s).1, (readNumberOrIdent s).2.m), (readNumberOrIdent s).2.rest) := by
  unfold readNumberOrIdentM readNumberOrIdent takeChar
  rd_simp [] using_fuel h
  split <;> rename_i c1 <;> rd_simp [c1] using_fuel h
  split <;> rename_i c2 <;> rd_simp [c2, Bool.and_eq_true] using_fuel h
  split <;> rename_i c3 <;> rd_simp [c3] using_fuel h

attribute [rd_pure] readNumberOrIdentM_pure

end DC.LexerRd
