import DC.Proofs.TypesParse

/-! C18: formatting the tree of a well-formed type yields its canonical text, escaped twice (the notation in which
EXPLAIN shows a string literal, without the outer quotes); the fallback branch is never taken. -/
namespace DC.Types
open DC.Gen.Tokens

/-- arguments after the first, each preceded by ", " -/
def joinTail : List Bytes → Bytes
  | [] => []
  | y :: ys => 44 :: 32 :: (y ++ joinTail ys)

theorem joinCommaSp_cons (x : Bytes) (xs : List Bytes) : joinCommaSp (x :: xs) = x ++ joinTail xs := by
  induction xs generalizing x with
  | nil => simp [joinCommaSp, joinTail]
  | cons y ys ih => simp [joinCommaSp, joinTail, ih]

theorem plain_consts : plainByte 40 = true ∧ plainByte 41 = true ∧ plainByte 44 = true ∧ plainByte 32 = true ∧
    plainByte 61 = true ∧ plainByte 45 = true := by decide

theorem esc2_decimal (n : Nat) : esc2 (decimal n) = decimal n := esc2_plain _ (decimal_plain n)
theorem esc2_ident (w : Bytes) (h : identLike w = true) : esc2 w = w := esc2_plain _ (identLike_plain w h)

theorem esc2_canonNum (neg : Bool) (n : Nat) : esc2 (canonNum neg n) = canonNum neg n := by
  cases neg
  · simp [canonNum, esc2_decimal]
  · simp [canonNum, esc2_cons_plain _ _ plain_consts.2.2.2.2.2, esc2_decimal]

theorem formatNum (neg : Bool) (n : Nat) : formatExprParam (numExpr neg n) = .text (canonNum neg n) := by
  cases neg <;> simp [numExpr, formatExprParam, canonNum]

theorem esc2_quote (s : Bytes) : esc2 (quote s) = q3 ++ escapeStringForTypeParam s ++ q3 := by
  rw [escapeStringForTypeParam_eq, q3_eq]
  simp only [quote]
  rw [show (39 :: esc s ++ [39] : Bytes) = [39] ++ (esc s ++ [39]) from rfl, esc2_append, esc2_append]
  simp

theorem identLike_noBacktick (n : Bytes) (h : identLike n = true) : needsBacktickQuoting n = false := by
  simp only [identLike, Bool.and_eq_true] at h
  simp [needsBacktickQuoting, h.2]

mutual
theorem format_ty (T : Ty) (hwf : wfTy T = true) : formatDataType (astOf T) = .text (esc2 (canonTy T)) := by
  match T with
  | .mk ws args =>
    have hws := wfTy_words _ hwf
    simp only [Ty.words, Ty.head] at hws
    generalize hw : ws.headD [] = w at hws
    subst hws
    cases args with
    | nil =>
      have hid : identLike w = true := by simp only [wfTy, Bool.and_eq_true] at hwf; exact hwf.1
      simp [astOf, astArgs, formatDataType, canonTy, joinWords, esc2_ident w hid]
    | cons a as =>
      simp only [wfTy, Bool.and_eq_true] at hwf
      obtain ⟨hid, _, hargs⟩ := hwf
      have h := format_args _ (a :: as) hargs
      simp only [astOf, astArgs] at h ⊢
      simp only [formatDataType, h, List.map_cons, joinCommaSp_cons, canonTy, joinWords]
      simp only [wfArgs, Bool.and_eq_true] at hargs
      rw [esc2_append, esc2_ident w hid, esc2_append, esc2_cons_plain _ _ plain_consts.1, esc2_append, esc2_tail _ as hargs.2]
      simp [esc2_cons_plain _ _ plain_consts.2.1]
theorem format_arg (named : Bool) (a : Arg) (hwf : wfArg named a = true) : formatParam (astArg a) = .text (esc2 (canonArg a)) := by
  match a with
  | .ty t =>
    simp only [wfArg, Bool.and_eq_true] at hwf
    obtain ⟨⟨hwt, _⟩, hcond⟩ := hwf
    by_cases hl : listed t.head = true
    · simp [astArg, hl, formatParam, canonArg, format_ty t hwt]
    · simp only [hl, Bool.false_eq_true, if_false, Bool.and_eq_true, Bool.not_eq_true', List.isEmpty_iff, beq_iff_eq] at hcond
      match t with
      | .mk ws args =>
        have hws := wfTy_words _ hwt
        simp only [Ty.words, Ty.head, Ty.args] at hws hcond hl ⊢
        obtain ⟨⟨_, hargs⟩, _⟩ := hcond
        subst hargs
        generalize hw : ws.headD [] = w at hws hl
        subst hws
        have hid : identLike w = true := by simp only [wfTy, Bool.and_eq_true] at hwt; exact hwt.1
        simp [astArg, Ty.head, Ty.words, hl, formatParam, formatExprParam, canonArg, canonTy, joinWords, esc2_ident w hid]
  | .named n t =>
    simp only [wfArg, Bool.and_eq_true] at hwf
    obtain ⟨⟨⟨⟨_, hid⟩, _⟩, hwt⟩, _⟩ := hwf
    simp [astArg, formatParam, format_ty t hwt, identLike_noBacktick n hid, canonArg, esc2_append, esc2_ident n hid,
      esc2_cons_plain _ _ plain_consts.2.2.2.1]
  | .num neg n => simp [astArg, formatParam, formatNum, canonArg, esc2_canonNum]
  | .str s => simp [astArg, formatParam, formatExprParam, canonArg, esc2_quote]
  | .enum s neg n =>
    have hn : formatBinaryExprForType [61] (.litStr s) (numExpr neg n) =
        .text (q3 ++ escapeStringForTypeParam s ++ q3 ++ 32 :: [61] ++ 32 :: canonNum neg n) := by
      cases neg <;> simp [formatBinaryExprForType, numExpr, formatUnaryExprForType, canonNum]
    simp [astArg, formatParam, formatExprParam, hn, canonArg, esc2_append, esc2_quote, esc2_canonNum,
      esc2_cons_plain _ _ plain_consts.2.2.2.1, esc2_cons_plain _ _ plain_consts.2.2.2.2.1]
theorem format_args (named : Bool) (as : List Arg) (hwf : wfArgs named as = true) :
    formatParams (astArgs as) = some (as.map (fun a => esc2 (canonArg a))) := by
  match as with
  | [] => simp [astArgs, formatParams]
  | a :: as =>
    simp only [wfArgs, Bool.and_eq_true] at hwf
    simp [astArgs, formatParams, format_arg named a hwf.1, format_args named as hwf.2]
theorem esc2_tail (named : Bool) (as : List Arg) (hwf : wfArgs named as = true) :
    esc2 (canonTail as) = joinTail (as.map (fun a => esc2 (canonArg a))) := by
  match as with
  | [] => simp [canonTail, joinTail]
  | a :: as =>
    simp only [wfArgs, Bool.and_eq_true] at hwf
    simp [canonTail, joinTail, esc2_cons_plain _ _ plain_consts.2.2.1, esc2_cons_plain _ _ plain_consts.2.2.2.1, esc2_append,
      esc2_tail named as hwf.2]
end

end DC.Types
