import DC.Model.ExplainUtil

/-!
# count = emitted for the utility-statement printers (lemmas for `DC.Props.C04Util`)

Every proof is a finite case analysis on the Boolean guards plus arithmetic on the `Nat` guards
(`List.replicate` for the `for … range` loops that print one node per element, an induction for the
RENAME pair loop).
-/
namespace DC.Proofs.ExplainUtil
open DC.Model.ExplainSelect (bit seg pos length_seg)
open DC.Model.ExplainUtil

theorem bit_pos_small (n : Nat) (h : n ≤ 1) : bit (pos n) = n := by
  unfold bit pos
  rcases n with _ | _ | n
  · rfl
  · rfl
  · omega

theorem bit_pos_big (n : Nat) (h : 1 < n) : bit (pos n) = 1 := by
  unfold bit pos
  have : 0 < n := by omega
  simp [this]

theorem bit_le_one (b : Bool) : bit b ≤ 1 := by cases b <;> decide

/-! ## DROP, UNDROP -/

/-- after `cases g` on the guard of an `if g then … else …` on both sides: the `true` arm closes, the `false` arm remains -/
local macro "peel_simp" : tactic =>
  `(tactic| simp only [if_true, if_false, Bool.false_eq_true, List.length_nil, List.length_cons])

theorem count_eq_emit_drop (n : DropShape) : countDrop n = (emitDrop n).length := by
  unfold countDrop emitDrop
  cases n.user <;> peel_simp
  cases n.function <;> peel_simp
  cases n.role <;> peel_simp
  cases n.quota <;> peel_simp
  cases n.policy <;> peel_simp
  cases n.rowPolicy <;> peel_simp
  cases n.settingsProfile <;> peel_simp
  cases n.index <;> peel_simp
  cases decide (1 < n.tablesN) <;> peel_simp
  cases n.hasDatabase <;> cases n.dropDatabase <;> cases n.format <;>
    simp only [if_true, if_false, Bool.false_eq_true, List.length_append, List.length_cons, List.length_nil,
      length_seg, bit] <;> omega

theorem count_eq_emit_droplist (n : DropShape) : countDropList n = (emitDropList n).length := by
  simp [countDropList, emitDropList]

theorem count_eq_emit_undrop (n : UndropShape) : countUndrop n = (emitUndrop n).length := by
  unfold countUndrop emitUndrop
  cases n.database <;> cases n.format <;> rfl

/-! ## RENAME, EXCHANGE -/

theorem length_emitPairs (ps : List PairShape) : (emitPairs ps).length = countPairs ps := by
  induction ps with
  | nil => rfl
  | cons p ps ih =>
    simp only [emitPairs, countPairs, List.length_append, List.length_cons, List.length_nil, length_seg, ih]

theorem count_eq_emit_rename (n : RenameShape) (h : WfRename n = true) :
    countRename n = (emitRename n).length := by
  unfold countRename emitRename
  unfold WfRename at h
  cases hr : n.renameDatabase
  · simp only [Bool.false_eq_true, if_false, List.length_append, length_seg, length_emitPairs]
  · simp only [hr, Bool.not_true, Bool.false_or] at h
    simp only [if_true, h, List.length_append, length_seg, List.length_cons, List.length_nil]

theorem wf_of_count_eq_emit_rename (n : RenameShape) (h : countRename n = (emitRename n).length) :
    WfRename n = true := by
  unfold countRename emitRename at h
  unfold WfRename
  cases hr : n.renameDatabase
  · rfl
  · simp only [hr, if_true, List.length_append, length_seg] at h
    cases hp : pos n.pairs.length
    · simp [hp] at h
    · rfl

theorem count_eq_emit_rename_iff (n : RenameShape) :
    countRename n = (emitRename n).length ↔ WfRename n = true :=
  ⟨wf_of_count_eq_emit_rename n, count_eq_emit_rename n⟩

theorem count_eq_emit_exchange (n : ExchangeShape) : countExchange n = (emitExchange n).length := by
  unfold countExchange emitExchange
  cases n.database1 <;> cases n.database2 <;> rfl

/-! ## OPTIMIZE, TRUNCATE, DELETE, UPDATE, KILL, CHECK -/

theorem length_emitOptPartBlock (n : OptimizeShape) : (emitOptPartBlock n).length = bit n.partition := by
  unfold emitOptPartBlock
  cases n.partition <;> cases n.partitionAll <;> cases n.partitionByID <;> cases n.partitionLit <;> rfl

theorem count_eq_emit_optimize (n : OptimizeShape) : countOptimize n = (emitOptimize n).length := by
  simp only [countOptimize, emitOptimize, List.length_append, length_seg, length_emitOptPartBlock,
    List.length_cons, List.length_nil]
  omega

theorem count_eq_emit_optpart (n : OptimizeShape) : countOptPart n = (emitOptPart n).length := by
  unfold countOptPart emitOptPart
  cases n.partitionAll <;> rfl

theorem count_eq_emit_truncate (n : TruncateShape) : countTruncate n = (emitTruncate n).length := by
  unfold countTruncate emitTruncate
  cases n.database <;>
    simp only [Bool.false_eq_true, if_false, if_true, List.length_append, length_seg, List.length_cons,
      List.length_nil]

theorem count_eq_emit_delete (n : DeleteShape) : countDelete n = (emitDelete n).length := by
  simp only [countDelete, emitDelete, List.length_append, length_seg, List.length_cons, List.length_nil]
  omega

theorem count_eq_emit_update (n : UpdateShape) (h : WfUpdate n = true) :
    countUpdate n = (emitUpdate n).length := by
  unfold WfUpdate at h
  simp [countUpdate, emitUpdate, h, seg]

theorem wf_of_count_eq_emit_update (n : UpdateShape) (h : countUpdate n = (emitUpdate n).length) :
    WfUpdate n = true := by
  unfold WfUpdate
  revert h
  unfold countUpdate emitUpdate
  cases n.where_ <;> simp [seg]

theorem count_eq_emit_update_iff (n : UpdateShape) :
    countUpdate n = (emitUpdate n).length ↔ WfUpdate n = true :=
  ⟨wf_of_count_eq_emit_update n, count_eq_emit_update n⟩

theorem count_eq_emit_updatelist (n : UpdateShape) : countUpdateList n = (emitUpdateList n).length := by
  simp [countUpdateList, emitUpdateList]

theorem count_eq_emit_kill (n : KillShape) : countKill n = (emitKill n).length := by
  simp only [countKill, emitKill, List.length_append, length_seg]

theorem count_eq_emit_check (n : CheckShape) : countCheck n = (emitCheck n).length := by
  unfold countCheck emitCheck
  cases n.database <;>
    simp only [Bool.false_eq_true, if_false, if_true, List.length_append, length_seg, List.length_cons,
      List.length_nil] <;> omega

/-! ## DETACH, ATTACH -/

theorem count_eq_emit_detach (n : DetachShape) : countDetach n = (emitDetach n).length := by
  unfold countDetach emitDetach
  cases n.database <;> cases n.table <;> cases n.dictionary <;> rfl

theorem length_emitAttachRest (n : AttachShape) :
    (emitAttachRest n).length = bit n.hasColumns + bit n.select + bit n.hasStorage := by
  unfold emitAttachRest
  simp only [List.length_append, length_seg]
  cases n.hasStorage <;> cases n.isMV <;> rfl

theorem count_eq_emit_attach (n : AttachShape) (h : WfAttach n = true) :
    countAttach n = (emitAttach n).length := by
  unfold countAttach emitAttach AttachShape.children
  unfold WfAttach at h
  revert h
  cases n.database <;> cases n.table <;> cases n.dictionary <;>
    simp only [Bool.and_true, Bool.and_false, Bool.or_true, Bool.or_false, Bool.not_true, Bool.not_false,
      Bool.true_or, Bool.false_or, Bool.false_eq_true, if_true, if_false,
      List.length_append, List.length_cons, List.length_nil, length_emitAttachRest, bit] <;>
    intro h <;> try omega
  all_goals
    simp only [Bool.and_eq_true, Bool.not_eq_true'] at h
    simp [h.1.1, h.1.2, h.2]

theorem wf_of_count_eq_emit_attach (n : AttachShape) (h : countAttach n = (emitAttach n).length) :
    WfAttach n = true := by
  unfold countAttach emitAttach AttachShape.children at h
  unfold WfAttach
  revert h
  cases n.database <;> cases n.table <;> cases n.dictionary <;>
    simp only [Bool.and_true, Bool.and_false, Bool.or_true, Bool.or_false, Bool.not_true, Bool.not_false,
      Bool.true_or, Bool.false_or, Bool.false_eq_true, if_true, if_false,
      List.length_append, List.length_cons, List.length_nil, length_emitAttachRest, bit] <;>
    intro h <;> try rfl
  all_goals
    revert h
    cases n.hasColumns <;> cases n.select <;> cases n.hasStorage <;> simp

theorem count_eq_emit_attach_iff (n : AttachShape) :
    countAttach n = (emitAttach n).length ↔ WfAttach n = true :=
  ⟨wf_of_count_eq_emit_attach n, count_eq_emit_attach n⟩

theorem length_attachPK (k : Nat) (e : Bool) :
    (if pos k || e then
        (if e then ["Function"] else if decide (1 < k) then ["Function"] else List.replicate k "*")
      else ([] : List String)).length = bit (pos k || e) := by
  cases e
  · by_cases h1 : 1 < k
    · have hp : pos k = true := by unfold pos; simp; omega
      simp [h1, hp, bit]
    · rcases k with _ | _ | k
      · simp [pos, bit]
      · simp [pos, bit]
      · omega
  · simp [bit]

theorem count_eq_emit_attachcols (n : AttachShape) : countAttachCols n = (emitAttachCols n).length := by
  simp only [countAttachCols, emitAttachCols, List.length_append, length_seg, length_attachPK]

theorem count_eq_emit_attachstorage (n : AttachShape) (h : WfAttachStorage n = true) :
    countAttachStorage n = (emitAttachStorage n).length := by
  unfold WfAttachStorage at h
  simp only [Bool.and_eq_true, decide_eq_true_eq] at h
  simp only [countAttachStorage, emitAttachStorage, List.length_append, length_seg, List.length_replicate,
    bit_pos_small _ h.1, bit_pos_small _ h.2]

theorem wf_of_count_eq_emit_attachstorage (n : AttachShape)
    (h : countAttachStorage n = (emitAttachStorage n).length) : WfAttachStorage n = true := by
  unfold WfAttachStorage
  simp only [countAttachStorage, emitAttachStorage, List.length_append, length_seg, List.length_replicate] at h
  simp only [Bool.and_eq_true, decide_eq_true_eq]
  have ho := bit_le_one (pos n.orderByN)
  have hp := bit_le_one (pos n.primaryKeyN)
  have ho' : n.orderByN ≤ 1 ∨ 1 < n.orderByN := by omega
  have hp' : n.primaryKeyN ≤ 1 ∨ 1 < n.primaryKeyN := by omega
  rcases ho' with ho' | ho' <;> rcases hp' with hp' | hp'
  · exact ⟨ho', hp'⟩
  · have := bit_pos_small _ ho'; have := bit_pos_big _ hp'; omega
  · have := bit_pos_big _ ho'; have := bit_pos_small _ hp'; omega
  · have := bit_pos_big _ ho'; have := bit_pos_big _ hp'; omega

theorem count_eq_emit_attachstorage_iff (n : AttachShape) :
    countAttachStorage n = (emitAttachStorage n).length ↔ WfAttachStorage n = true :=
  ⟨wf_of_count_eq_emit_attachstorage n, count_eq_emit_attachstorage n⟩

/-! ## EXISTS, DESCRIBE, SYSTEM, SHOW, USE -/

theorem count_eq_emit_exists (n : ExistsShape) : countExists n = (emitExists n).length := by
  unfold countExists emitExists
  cases n.existsDatabase <;> cases n.database <;>
    simp only [Bool.false_eq_true, if_false, if_true, List.length_append, length_seg, List.length_cons,
      List.length_nil, bit] <;> omega

theorem count_eq_emit_describe (n : DescribeShape) : countDescribe n = (emitDescribe n).length := by
  unfold countDescribe emitDescribe
  cases n.tableExpr <;> cases n.tableFunction <;>
    simp only [Bool.false_eq_true, if_false, if_true, List.length_append, length_seg, List.length_cons,
      List.length_nil] <;> omega

theorem count_eq_emit_system (n : SystemShape) (h : WfSystem n = true) :
    countSystem n = (emitSystem n).length := by
  unfold emitSystem countSystem
  unfold WfSystem at h
  revert h
  generalize pos n.settingsN = s
  cases n.flushLogs <;> cases n.database <;> cases n.table <;> cases n.duplicate <;> cases s <;> decide

theorem wf_of_count_eq_emit_system (n : SystemShape) (h : countSystem n = (emitSystem n).length) :
    WfSystem n = true := by
  unfold emitSystem countSystem at h
  unfold WfSystem
  revert h
  generalize pos n.settingsN = s
  cases n.flushLogs <;> cases n.database <;> cases n.table <;> cases n.duplicate <;> cases s <;> decide

theorem count_eq_emit_system_iff (n : SystemShape) :
    countSystem n = (emitSystem n).length ↔ WfSystem n = true :=
  ⟨wf_of_count_eq_emit_system n, count_eq_emit_system n⟩

theorem count_eq_emit_showK (k : ShowKind) (n : ShowShape) : countShowK k n = (emitShowK k n).length := by
  obtain ⟨k', d, f, fm, st⟩ := n
  cases k <;> cases d <;> cases f <;> cases fm <;> cases st <;> rfl

theorem count_eq_emit_show (n : ShowShape) : countShow n = (emitShow n).length :=
  count_eq_emit_showK n.kind n

theorem count_eq_emit_use : countUse = emitUse.length := rfl

/-! ## INSERT, BACKUP/RESTORE, CREATE INDEX, PARALLEL WITH -/

theorem count_eq_emit_insert (n : InsertShape) : countInsert n = (emitInsert n).length := by
  have ht : (if n.function then ["*"]
      else if n.table then (if n.database then ["Identifier", "Identifier"] else ["Identifier"])
      else ([] : List String)).length
      = (if n.function then 1 else if n.table then 1 + bit n.database else 0) := by
    cases n.function <;> cases n.table <;> cases n.database <;> rfl
  have hp : (if n.partitionBy then (if n.partitionIdent then ["Identifier"] else ["*"]) else ([] : List String)).length
      = bit n.partitionBy := by
    cases n.partitionBy <;> cases n.partitionIdent <;> rfl
  have hc : (if pos n.colExprN then ["ExpressionList"] else if n.allColumns then ["ExpressionList"]
      else if pos n.columnsN then ["ExpressionList"] else ([] : List String)).length
      = bit (pos n.colExprN || pos n.columnsN || n.allColumns) := by
    cases pos n.colExprN <;> cases pos n.columnsN <;> cases n.allColumns <;> rfl
  simp only [countInsert, emitInsert, List.length_append, length_seg, ht, hp, hc]
  omega

theorem count_eq_emit_backup (n : BackupShape) : countBackup n = (emitBackup n).length := by
  simp only [countBackup, emitBackup, List.length_append, length_seg]

theorem count_eq_emit_createindex (n : CreateIndexShape) :
    countCreateIndex n = (emitCreateIndex n).length := rfl

theorem count_eq_emit_ciindex (n : CreateIndexShape) : countCIIndex n = (emitCIIndex n).length := by
  unfold countCIIndex emitCIIndex
  simp only [List.length_append, length_seg]
  cases n.columnsParenthesized <;> cases (n.columnsN == 1) <;> cases n.col0Ident <;> cases pos n.columnsN <;>
    cases n.type_ <;> rfl

theorem count_eq_emit_parallel (k : Nat) : countParallel k = (emitParallel k).length := by
  unfold countParallel emitParallel
  cases h : (k == 0)
  · simp
  · simp

end DC.Proofs.ExplainUtil
