import DC.Model.Skel

/-! Bit-set and abstract-state lemmas for `DC.Model.Skel` (C02). -/

namespace DC.Model.Skel

theorem eofK_lt_K : eofK < K := by decide

/-- every kind of the stream is a token kind -/
def WF (ks : List Nat) : Prop := ∀ k ∈ ks, k < K

theorem cur_lt {ks : List Nat} (h : WF ks) (i : Nat) : cur ks i < K := by
  unfold cur
  by_cases hi : i < ks.length
  · rw [List.getD_eq_getElem?_getD, List.getElem?_eq_getElem hi]; exact h _ (List.getElem_mem hi)
  · rw [List.getD_eq_getElem?_getD, List.getElem?_eq_none (by omega)]; exact eofK_lt_K

theorem cur_eof {ks : List Nat} {i : Nat} (h : ks.length ≤ i) : cur ks i = eofK := by
  unfold cur; rw [List.getD_eq_getElem?_getD, List.getElem?_eq_none h]; rfl

theorem all_testBit {k : Nat} (h : k < K) : ALL.testBit k = true := by
  unfold ALL
  rw [Nat.testBit_two_pow_sub_one]
  simpa using h

theorem all_ne_zero : ALL ≠ 0 := by
  intro h
  have := all_testBit eofK_lt_K
  rw [h] at this
  simp at this

theorem compl_testBit {S : TokSet} {k : Nat} (h : k < K) : (compl S).testBit k = !S.testBit k := by
  unfold compl
  rw [Nat.testBit_xor, Nat.testBit_and, all_testBit h]
  simp

theorem bit_testBit (k j : Nat) : (bit k).testBit j = decide (k = j) := by
  unfold bit; exact Nat.testBit_two_pow

/-- `Desc ks i0 i st`: the abstract state `st = (N, A)` describes "reference point `i0`, cursor at `i`" -/
def Desc (ks : List Nat) (i0 i : Nat) (st : St) : Prop :=
  (i = i0 ∧ st.1.testBit (cur ks i) = true) ∨ (i0 < i ∧ st.2.testBit (cur ks i) = true)

theorem Desc.le {ks i0 i st} (h : Desc ks i0 i st) : i0 ≤ i := by
  rcases h with ⟨h, _⟩ | ⟨h, _⟩ <;> omega

theorem desc_bot {ks i0 i} : ¬ Desc ks i0 i St.bot := by
  intro h; rcases h with ⟨_, h⟩ | ⟨_, h⟩ <;> simp [St.bot] at h

theorem desc_join_l {ks i0 i x y} (h : Desc ks i0 i x) : Desc ks i0 i (St.join x y) := by
  rcases h with ⟨h1, h2⟩ | ⟨h1, h2⟩
  · left; exact ⟨h1, by simp [St.join, Nat.testBit_or, h2]⟩
  · right; exact ⟨h1, by simp [St.join, Nat.testBit_or, h2]⟩

theorem desc_join_r {ks i0 i x y} (h : Desc ks i0 i y) : Desc ks i0 i (St.join x y) := by
  rcases h with ⟨h1, h2⟩ | ⟨h1, h2⟩
  · left; exact ⟨h1, by simp [St.join, Nat.testBit_or, h2]⟩
  · right; exact ⟨h1, by simp [St.join, Nat.testBit_or, h2]⟩

theorem desc_join_elim {ks i0 i x y} (h : Desc ks i0 i (St.join x y)) : Desc ks i0 i x ∨ Desc ks i0 i y := by
  rcases h with ⟨h1, h2⟩ | ⟨h1, h2⟩
  · simp only [St.join, Nat.testBit_or, Bool.or_eq_true] at h2
    rcases h2 with h2 | h2
    · left; left; exact ⟨h1, h2⟩
    · right; left; exact ⟨h1, h2⟩
  · simp only [St.join, Nat.testBit_or, Bool.or_eq_true] at h2
    rcases h2 with h2 | h2
    · left; right; exact ⟨h1, h2⟩
    · right; right; exact ⟨h1, h2⟩

theorem desc_meet {ks i0 i st T} (h : Desc ks i0 i st) (hT : T.testBit (cur ks i) = true) :
    Desc ks i0 i (St.meet st T) := by
  rcases h with ⟨h1, h2⟩ | ⟨h1, h2⟩
  · left; exact ⟨h1, by simp [St.meet, Nat.testBit_and, h2, hT]⟩
  · right; exact ⟨h1, by simp [St.meet, Nat.testBit_and, h2, hT]⟩

/-- an inhabited state has `anyA = ALL` -/
theorem desc_anyA {ks i0 i st} (h : Desc ks i0 i st) : St.anyA st = ALL := by
  unfold St.anyA
  have hne : (st.1 ||| st.2) ≠ 0 := by
    intro h0
    have hb : (st.1 ||| st.2).testBit (cur ks i) = true := by
      rcases h with ⟨_, h2⟩ | ⟨_, h2⟩ <;> simp [Nat.testBit_or, h2]
    rw [h0] at hb; simp at hb
  simp [hne]

theorem widen_idem (st : St) : St.widen (St.widen st) = St.widen st := by
  unfold St.widen
  congr 1
  show St.anyA (st.1, St.anyA st) = St.anyA st
  unfold St.anyA
  by_cases h : (st.1 ||| st.2) = 0
  · have h1 : st.1 = 0 := by
      have := Nat.or_eq_zero_iff.mp h; exact this.1
    have h2 : st.2 = 0 := (Nat.or_eq_zero_iff.mp h).2
    simp [h1, h2]
  · simp only [h, if_false]
    have : (st.1 ||| ALL) ≠ 0 := by
      intro h0; exact all_ne_zero (Nat.or_eq_zero_iff.mp h0).2
    simp [this]

/-- once a state describes the cursor, its widening describes every later cursor position -/
theorem desc_widen_mono {ks i0 i j st} (hks : WF ks) (h : Desc ks i0 i st) (hij : i ≤ j) :
    Desc ks i0 j (St.widen st) := by
  have hA := desc_anyA h
  by_cases hj : j = i
  · subst hj
    rcases h with ⟨h1, h2⟩ | ⟨h1, h2⟩
    · left; exact ⟨h1, h2⟩
    · right; exact ⟨h1, by simp [St.widen, hA, all_testBit (cur_lt hks _)]⟩
  · right
    have := h.le
    exact ⟨by omega, by simp [St.widen, hA, all_testBit (cur_lt hks _)]⟩

/-- transfer of a call: never back, advances when entered with `cur ∈ adv`, ends with `cur ∈ rs` -/
theorem call_sound {ks i0 i j st adv rs} (hks : WF ks) (h : Desc ks i0 i st) (hij : i ≤ j)
    (hadv : adv.testBit (cur ks i) = true → i < j) (hrs : rs.testBit (cur ks j) = true) :
    Desc ks i0 j (callSt adv rs st) := by
  unfold callSt
  apply desc_meet _ hrs
  have hA := desc_anyA h
  by_cases hj : j = i
  · subst hj
    rcases h with ⟨h1, h2⟩ | ⟨h1, h2⟩
    · left
      refine ⟨h1, ?_⟩
      have hn : adv.testBit (cur ks j) = false := by
        cases hb : adv.testBit (cur ks j) with
        | false => rfl
        | true => have := hadv hb; omega
      simp [Nat.testBit_and, h2, compl_testBit (cur_lt hks j), hn]
    · right; exact ⟨h1, by simp [hA, all_testBit (cur_lt hks _)]⟩
  · right
    have := h.le
    exact ⟨by omega, by simp [hA, all_testBit (cur_lt hks _)]⟩

/-! ### results -/

def pick (r : R) : Out → St
  | .norm => r.norm
  | .cont => r.cont
  | .ret .unk => r.retU
  | .ret .tt => r.retT
  | .ret .ff => r.retF
  | .jump l => jget l r.jumps

theorem desc_jget_append_l {ks i0 i l} {a b : List (Nat × St)} (h : Desc ks i0 i (jget l a)) :
    Desc ks i0 i (jget l (a ++ b)) := by
  induction a with
  | nil => exact (desc_bot h).elim
  | cons p r ih =>
    obtain ⟨k, s⟩ := p
    simp only [jget, List.cons_append] at h ⊢
    split
    · rename_i hk
      simp only [hk, if_true] at h
      rcases desc_join_elim h with h | h
      · exact desc_join_l h
      · exact desc_join_r (ih h)
    · rename_i hk
      simp only [hk, if_false] at h
      exact ih h

theorem desc_jget_append_r {ks i0 i l} {a b : List (Nat × St)} (h : Desc ks i0 i (jget l b)) :
    Desc ks i0 i (jget l (a ++ b)) := by
  induction a with
  | nil => exact h
  | cons p r ih =>
    obtain ⟨k, s⟩ := p
    simp only [jget, List.cons_append]
    split
    · exact desc_join_r ih
    · exact ih

theorem jget_jdrop_ne {l l' : Nat} (hne : l' ≠ l) (js : List (Nat × St)) : jget l' (jdrop l js) = jget l' js := by
  induction js with
  | nil => rfl
  | cons p r ih =>
    obtain ⟨k, s⟩ := p
    simp only [jdrop, jget]
    by_cases hk : k = l
    · have : k ≠ l' := by omega
      simp [hk, ih, Ne.symm hne]
    · simp only [hk, if_false, jget, ih]

theorem desc_jget_mem {ks i0 i l} {js : List (Nat × St)} (h : Desc ks i0 i (jget l js)) :
    ∃ s ∈ js.map (·.2), Desc ks i0 i s := by
  induction js with
  | nil => exact (desc_bot h).elim
  | cons p r ih =>
    obtain ⟨k, s⟩ := p
    simp only [jget] at h
    split at h
    · rcases desc_join_elim h with h | h
      · exact ⟨s, by simp, h⟩
      · obtain ⟨s', hs', hd⟩ := ih h
        exact ⟨s', by simp at hs' ⊢; right; exact hs', hd⟩
    · obtain ⟨s', hs', hd⟩ := ih h
      exact ⟨s', by simp at hs' ⊢; right; exact hs', hd⟩

/-- the state picked for an end `o` is one of the channels inspected by `funOK` -/
theorem pick_mem_chans {ks i0 i} {r : R} {o : Out} {skipT skipF : Bool}
    (hT : o = .ret .tt → skipT = false) (hF : o = .ret .ff → skipF = false)
    (h : Desc ks i0 i (pick r o)) : ∃ s ∈ r.chans skipT skipF, Desc ks i0 i s := by
  cases o with
  | norm => exact ⟨r.norm, by simp [R.chans], h⟩
  | cont => exact ⟨r.cont, by simp [R.chans], h⟩
  | ret v =>
    cases v with
    | unk => exact ⟨r.retU, by simp [R.chans], h⟩
    | tt => exact ⟨r.retT, by simp [R.chans, hT rfl], h⟩
    | ff => exact ⟨r.retF, by simp [R.chans, hF rfl], h⟩
  | jump l =>
    obtain ⟨s, hs, hd⟩ := desc_jget_mem (l := l) (js := r.jumps) h
    exact ⟨s, by simp only [R.chans, List.mem_append]; right; exact hs, hd⟩

theorem pick_joinX_l {ks i0 i} {x y : R} {n : St} {o : Out} (ho : o ≠ .norm)
    (h : Desc ks i0 i (pick x o)) : Desc ks i0 i (pick (R.joinX x y n) o) := by
  cases o with
  | norm => exact (ho rfl).elim
  | cont => exact desc_join_l h
  | ret v => cases v <;> exact desc_join_l h
  | jump l => exact desc_jget_append_l h

theorem pick_joinX_r {ks i0 i} {x y : R} {n : St} {o : Out} (ho : o ≠ .norm)
    (h : Desc ks i0 i (pick y o)) : Desc ks i0 i (pick (R.joinX x y n) o) := by
  cases o with
  | norm => exact (ho rfl).elim
  | cont => exact desc_join_r h
  | ret v => cases v <;> exact desc_join_r h
  | jump l => exact desc_jget_append_r h

theorem pick_join_l {ks i0 i} {x y : R} {o : Out}
    (h : Desc ks i0 i (pick x o)) : Desc ks i0 i (pick (R.join x y) o) := by
  by_cases ho : o = .norm
  · subst ho; exact desc_join_l h
  · exact pick_joinX_l ho h

theorem pick_join_r {ks i0 i} {x y : R} {o : Out}
    (h : Desc ks i0 i (pick y o)) : Desc ks i0 i (pick (R.join x y) o) := by
  by_cases ho : o = .norm
  · subst ho; exact desc_join_r h
  · exact pick_joinX_r ho h

end DC.Model.Skel
