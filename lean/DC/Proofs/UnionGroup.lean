import DC.Model.UnionGroup

/-! Lemmas about `DC.Model.UnionGroup` (statements of the property theorems are in `DC/Props/C07Union.lean`). -/
namespace DC.Model.UnionGroup

/-! ## leaves -/

theorem leavesL_append (a b : List U) : leavesL (a ++ b) = leavesL a ++ leavesL b := by
  induction a with
  | nil => simp [leavesL]
  | cons u us ih => simp [leavesL, ih, List.append_assoc]

theorem leavesL_take_drop (k : Nat) (l : List U) : leavesL (l.take k) ++ leavesL (l.drop k) = leavesL l := by
  rw [← leavesL_append, List.take_append_drop]

theorem shapeLeavesL_append (a b : List Shape) : shapeLeavesL (a ++ b) = shapeLeavesL a ++ shapeLeavesL b := by
  induction a with
  | nil => simp [shapeLeavesL]
  | cons u us ih => simp [shapeLeavesL, ih, List.append_assoc]

/-! ## groupSelectsByUnionMode -/

theorem leavesL_group (sels : List U) (modes : List Mode) : leavesL (group sels modes) = leavesL sels := by
  unfold group
  split
  · rfl
  · split
    · rfl
    · rename_i idx _
      rw [leavesL, U.leaves, leavesL_take_drop]

/-- no non-ALL → ALL step in `prev :: l` -/
def noTrans : Mode → List Mode → Bool
  | _, [] => true
  | prev, cur :: rest => !(cur == .all && prev != .all) && noTrans cur rest

theorem scan_none_of_noTrans (i : Nat) (prev : Mode) (l : List Mode) (h : noTrans prev l = true) :
    scanTransitions i prev l none = none := by
  induction l generalizing i prev with
  | nil => rfl
  | cons c rest ih =>
    simp only [noTrans, Bool.and_eq_true, Bool.not_eq_true'] at h
    simp only [scanTransitions, h.1]
    exact ih (i + 1) c h.2

theorem scan_some (i : Nat) (prev : Mode) (l : List Mode) (acc : Option Nat) (idx : Nat)
    (h : scanTransitions i prev l acc = some idx) :
    (acc = some idx ∧ noTrans prev l = true) ∨
    (∃ pre cur post, l = pre ++ cur :: post ∧ idx = i + pre.length ∧ noTrans cur post = true) := by
  induction l generalizing i prev acc with
  | nil => exact Or.inl ⟨h, rfl⟩
  | cons c rest ih =>
    rw [scanTransitions] at h
    rcases ih (i + 1) c _ h with ⟨hacc, hnt⟩ | ⟨pre, cur, post, hl, hidx, hnt⟩
    · by_cases ht : (c == Mode.all && prev != Mode.all) = true
      · rw [if_pos ht] at hacc
        refine Or.inr ⟨[], c, rest, rfl, ?_, hnt⟩
        simp at hacc ⊢; omega
      · rw [if_neg ht] at hacc
        refine Or.inl ⟨hacc, ?_⟩
        simp only [noTrans, Bool.and_eq_true, Bool.not_eq_true']
        exact ⟨by simpa using ht, hnt⟩
    · refine Or.inr ⟨c :: pre, cur, post, by simp [hl], ?_, hnt⟩
      simp; omega

/-- the shape of a list of modes around its last non-ALL → ALL step -/
theorem lastTransition_some (m : List Mode) (idx : Nat) (h : lastTransition m = some idx) :
    ∃ m0 pre cur post, m = m0 :: (pre ++ cur :: post) ∧ idx = 1 + pre.length ∧ noTrans cur post = true := by
  cases m with
  | nil => simp [lastTransition] at h
  | cons m0 rest =>
    rw [lastTransition] at h
    rcases scan_some 1 m0 rest none idx h with ⟨hacc, _⟩ | ⟨pre, cur, post, hl, hidx, hnt⟩
    · cases hacc
    · exact ⟨m0, pre, cur, post, by rw [hl], hidx, hnt⟩

theorem lastTransition_lt (m : List Mode) (idx : Nat) (h : lastTransition m = some idx) : idx < m.length := by
  obtain ⟨m0, pre, cur, post, hm, hidx, _⟩ := lastTransition_some m idx h
  subst hm; simp; omega

theorem lastTransition_drop (m : List Mode) (idx : Nat) (h : lastTransition m = some idx) :
    lastTransition (m.drop idx) = none := by
  obtain ⟨m0, pre, cur, post, hm, hidx, hnt⟩ := lastTransition_some m idx h
  subst hm; subst hidx
  have : (m0 :: (pre ++ cur :: post)).drop (1 + pre.length) = cur :: post := by
    rw [Nat.add_comm]; simp
  rw [this, lastTransition]
  exact scan_none_of_noTrans 1 cur post hnt

theorem group_of_no_transition (sels : List U) (modes : List Mode) (h : lastTransition modes = none) :
    group sels modes = sels := by
  unfold group; split
  · rfl
  · rw [h]

theorem group_groupModes (sels : List U) (modes : List Mode) :
    group (group sels modes) (groupModes sels modes) = group sels modes := by
  by_cases hs : tooShort sels modes = true
  · have h1 : group sels modes = sels := by unfold group; rw [if_pos hs]
    have h2 : groupModes sels modes = modes := by unfold groupModes; rw [if_pos hs]
    rw [h2, h1, h1]
  · cases ht : lastTransition modes with
    | none =>
      have h1 : group sels modes = sels := group_of_no_transition _ _ ht
      have h2 : groupModes sels modes = modes := by unfold groupModes; rw [if_neg hs, ht]
      rw [h2, h1, h1]
    | some idx =>
      have h2 : groupModes sels modes = modes.drop idx := by unfold groupModes; rw [if_neg hs, ht]
      rw [h2]
      exact group_of_no_transition _ _ (lastTransition_drop modes idx ht)

theorem groupPanics_false_of_le (sels : List U) (modes : List Mode) (h : modes.length ≤ sels.length) :
    groupPanics sels modes = false := by
  unfold groupPanics
  cases ht : lastTransition modes with
  | none => simp
  | some idx =>
    have := lastTransition_lt modes idx ht
    simp; intro _; omega

/-! ## expandNestedUnions -/

mutual
theorem leaves_expandOne : ∀ (u : U), leavesL (expandOne u).1 = u.leaves
  | .sel id => by simp [expandOne, leavesL, U.leaves]
  | .union kids kmodes => by
    have ihk := leavesL_expandFrom kmodes 0 kids
    rw [expandOne]
    split
    · simp only [U.leaves]
    · split
      · simp only [ihk, U.leaves]
      · simp only []
        split
        · simp only [leavesL_group, U.leaves]
        · simp only [leavesL, U.leaves, List.append_nil]
theorem leavesL_expandFrom (modes : List Mode) : ∀ (i : Nat) (sels : List U),
    leavesL (expandFrom modes i sels).1 = leavesL sels
  | _, [] => by simp [expandFrom]
  | i, u :: rest => by
    rw [expandFrom]
    simp only [leavesL_append, leaves_expandOne u, leavesL_expandFrom modes (i + 1) rest, leavesL]
end

/-! ### all-ALL trees flatten -/

def isSel : U → Bool
  | .sel _ => true
  | .union _ _ => false

mutual
/-- every nested union has only ALL modes, and a nested union with exactly one operand holds a plain select
(`expandNestedUnions` replaces a one-operand union by its operand WITHOUT expanding it) -/
def U.flattenable : U → Bool
  | .sel _ => true
  | .union kids modes => allModesAreAll modes && (kids.length != 1 || kids.all isSel) && flattenableL kids
def flattenableL : List U → Bool
  | [] => true
  | u :: us => u.flattenable && flattenableL us
end

theorem leavesL_all_isSel : ∀ (kids : List U), kids.all isSel = true → (leavesL kids).map U.sel = kids
  | [], _ => by simp [leavesL]
  | .sel id :: rest, h => by
    simp only [List.all_cons, Bool.and_eq_true] at h
    simp [leavesL, U.leaves, leavesL_all_isSel rest h.2]
  | .union _ _ :: _, h => by simp [isSel] at h

mutual
theorem expandOne_flat : ∀ (u : U), u.flattenable = true → (expandOne u).1 = u.leaves.map U.sel
  | .sel id, _ => by simp [expandOne, U.leaves]
  | .union kids kmodes, h => by
    simp only [U.flattenable, Bool.and_eq_true] at h
    obtain ⟨⟨hall, hone⟩, hk⟩ := h
    have ihk := expandFrom_flat kmodes 0 kids hk
    rw [expandOne]
    split
    · rename_i h1
      have : kids.all isSel = true := by
        rcases Bool.or_eq_true _ _ ▸ hone with h' | h'
        · simp at h1 h'; exact absurd h1 h'
        · exact h'
      simp only [U.leaves, leavesL_all_isSel kids this]
    · simp only [ihk, U.leaves]
theorem expandFrom_flat (modes : List Mode) : ∀ (i : Nat) (sels : List U), flattenableL sels = true →
    (expandFrom modes i sels).1 = (leavesL sels).map U.sel
  | _, [], _ => by simp [expandFrom, leavesL]
  | i, u :: rest, h => by
    simp only [flattenableL, Bool.and_eq_true] at h
    rw [expandFrom]
    simp only [expandOne_flat u h.1, expandFrom_flat modes (i + 1) rest h.2, leavesL, List.map_append]
end

mutual
theorem expandOnePanics_flat : ∀ (u : U), u.flattenable = true → expandOnePanics u = false
  | .sel _, _ => by simp [expandOnePanics]
  | .union kids kmodes, h => by
    simp only [U.flattenable, Bool.and_eq_true] at h
    obtain ⟨⟨hall, _⟩, hk⟩ := h
    rw [expandOnePanics]
    split
    · rfl
    · simp only [expandPanics_flat kids hk]
theorem expandPanics_flat : ∀ (sels : List U), flattenableL sels = true → expandPanics sels = false
  | [], _ => by simp [expandPanics]
  | u :: rest, h => by
    simp only [flattenableL, Bool.and_eq_true] at h
    simp [expandPanics, expandOnePanics_flat u h.1, expandPanics_flat rest h.2]
end

/-! ## the rendering -/

theorem sequence_ok (rs : List Rendered) (ss : List Shape) (h : sequence rs = .ok ss) :
    rs = ss.map Rendered.ok := by
  induction rs generalizing ss with
  | nil => simp [sequence] at h; subst h; rfl
  | cons r rs ih =>
    rw [sequence] at h
    cases r with
    | ok s =>
      cases hs : sequence rs with
      | ok ss' =>
        rw [hs, consR] at h
        simp at h; subst h
        simp [ih ss' hs]
      | panic => rw [hs, consR] at h; cases h
      | fuel => rw [hs, consR] at h; cases h
    | panic => simp [consR] at h
    | fuel => simp [consR] at h

theorem wrap_ok (r : RenderedL) (sh : Shape) (h : wrap r = .ok sh) : ∃ ss, r = .ok ss ∧ sh = .node ss := by
  cases r with
  | ok ss => simp [wrap] at h; exact ⟨ss, rfl, h.symm⟩
  | panic => simp [wrap] at h
  | fuel => simp [wrap] at h

theorem render_leaves : ∀ (f : Nat) (u : U) (sh : Shape), render f u = .ok sh → sh.leaves = u.leaves
  | 0, u, _, h => by cases u <;> simp [render] at h
  | _ + 1, .sel id, sh, h => by
    simp [render] at h; subst h; simp [Shape.leaves, U.leaves]
  | f + 1, .union kids modes, sh, h => by
    rw [render] at h
    split at h
    · cases h
    · obtain ⟨ss, hseq, hsh⟩ := wrap_ok _ _ h
      have hmap := sequence_ok _ _ hseq
      subst hsh
      have key : ∀ (l : List U) (ss : List Shape), l.map (render f) = ss.map Rendered.ok → shapeLeavesL ss = leavesL l := by
        intro l
        induction l with
        | nil => intro ss hh; cases ss <;> simp_all [shapeLeavesL, leavesL]
        | cons u us ih =>
          intro ss hh
          cases ss with
          | nil => simp at hh
          | cons s ss' =>
            simp only [List.map_cons, List.cons.injEq] at hh
            rw [shapeLeavesL, leavesL, render_leaves f u s hh.1, ih ss' hh.2]
      rw [Shape.leaves, key _ _ hmap, leavesL_group, expand, leavesL_expandFrom, U.leaves]

end DC.Model.UnionGroup

namespace DC.Model.UnionGroup

/-! ## all-ALL trees render flat -/

theorem noTrans_of_all (prev : Mode) (l : List Mode) (hp : prev = .all) (h : allModesAreAll l = true) : noTrans prev l = true := by
  induction l generalizing prev with
  | nil => rfl
  | cons c rest ih =>
    simp only [allModesAreAll, List.all_cons, Bool.and_eq_true, beq_iff_eq] at h
    simp only [noTrans, Bool.and_eq_true, Bool.not_eq_true']
    refine ⟨by subst hp; simp, ih c h.1 (by simpa [allModesAreAll] using h.2)⟩

theorem lastTransition_of_all (l : List Mode) (h : allModesAreAll l = true) : lastTransition l = none := by
  cases l with
  | nil => rfl
  | cons m0 rest =>
    simp only [allModesAreAll, List.all_cons, Bool.and_eq_true, beq_iff_eq] at h
    rw [lastTransition]
    exact scan_none_of_noTrans 1 m0 rest (noTrans_of_all m0 rest h.1 (by simpa [allModesAreAll] using h.2))

theorem allModes_append (a b : List Mode) : allModesAreAll (a ++ b) = (allModesAreAll a && allModesAreAll b) := by
  simp [allModesAreAll]

theorem allModes_outerMode (modes : List Mode) (i : Nat) (h : allModesAreAll modes = true) :
    allModesAreAll (outerMode modes i) = true := by
  unfold outerMode
  split
  · cases hq : modes[i - 1]? with
    | none => rfl
    | some m =>
      have hm : m ∈ modes := List.mem_of_getElem? hq
      simp only [allModesAreAll, List.all_eq_true, beq_iff_eq] at h
      simp [allModesAreAll, Option.toList, h m hm]
  · rfl

theorem allModes_take (l : List Mode) (k : Nat) (h : allModesAreAll l = true) : allModesAreAll (l.take k) = true := by
  simp only [allModesAreAll, List.all_eq_true, beq_iff_eq] at h ⊢
  intro m hm; exact h m (List.mem_of_mem_take hm)

mutual
theorem expandOne_modes_all : ∀ (u : U), u.flattenable = true → allModesAreAll (expandOne u).2 = true
  | .sel _, _ => by simp [expandOne, allModesAreAll]
  | .union kids kmodes, h => by
    simp only [U.flattenable, Bool.and_eq_true] at h
    obtain ⟨⟨hall, _⟩, hk⟩ := h
    have ihk := expandFrom_modes_all kmodes 0 kids hall hk
    rw [expandOne]
    split
    · simp [allModesAreAll]
    · simp only [allModes_take _ _ ihk]
theorem expandFrom_modes_all (modes : List Mode) : ∀ (i : Nat) (sels : List U), allModesAreAll modes = true →
    flattenableL sels = true → allModesAreAll (expandFrom modes i sels).2 = true
  | _, [], _, _ => by simp [expandFrom, allModesAreAll]
  | i, u :: rest, hm, h => by
    simp only [flattenableL, Bool.and_eq_true] at h
    rw [expandFrom]
    simp only [allModes_append, allModes_outerMode modes i hm, expandOne_modes_all u h.1,
      expandFrom_modes_all modes (i + 1) rest hm h.2, Bool.and_self]
end

theorem sequence_leaves (f : Nat) (ids : List Nat) :
    sequence ((ids.map U.sel).map (render (f + 1))) = .ok (ids.map Shape.leaf) := by
  induction ids with
  | nil => rfl
  | cons id rest ih => simp only [List.map_cons, sequence, ih, render, consR]

/-- `SELECT … UNION ALL (… UNION ALL (…)) …`: the rendering is one flat list -/
theorem render_flat (f : Nat) (kids : List U) (modes : List Mode) (hm : allModesAreAll modes = true)
    (hk : flattenableL kids = true) :
    render (f + 2) (.union kids modes) = .ok (.node ((leavesL kids).map Shape.leaf)) := by
  have he : (expand kids modes).1 = (leavesL kids).map U.sel := expandFrom_flat modes 0 kids hk
  have hmodes : allModesAreAll (expand kids modes).2 = true := expandFrom_modes_all modes 0 kids hm hk
  have hlt := lastTransition_of_all _ hmodes
  have hg : group (expand kids modes).1 (expand kids modes).2 = (expand kids modes).1 := group_of_no_transition _ _ hlt
  have hgp : groupPanics (expand kids modes).1 (expand kids modes).2 = false := by
    unfold groupPanics; rw [hlt]; simp
  rw [render]
  simp only [expandPanics_flat kids hk, Bool.false_or]
  rw [hgp, hg, he]
  simp only [sequence_leaves, wrap, Bool.false_eq_true, if_false]

end DC.Model.UnionGroup
