import DC.Proofs.LexerLayoutCore

/-!
# Every scanner of the lexer model respects `CoreEq` (second half of `lex_pos_irrelevant`)

Loops: `fun_induction` on the left state, one unfolding of the right-hand side, observations of the right
state rewritten into observations of the left one (`core_close`). Straight-line code: `grind` with the
congruence lemmas of the pieces.
-/
namespace DC.Lexer
open DC.Utf8 DC.Gen.Tokens

syntax "core_fin " ident : tactic
macro_rules
  | `(tactic| core_fin $h) => `(tactic| (
      first
        | done
        | contradiction
        | exact $h
        | exact CoreEq.readChar $h
        | exact CoreEq.readChar (CoreEq.readChar $h)
        | exact ⟨$h, rfl⟩
        | exact ⟨CoreEq.readChar $h, rfl⟩
        | exact ⟨CoreEq.readChar (CoreEq.readChar $h), rfl⟩
        | (apply_assumption; first
            | exact $h
            | exact (CoreEq.readChar $h)
            | exact (CoreEq.readChar (CoreEq.readChar $h))
            | exact (CoreEq.readChar (CoreEq.readChar (CoreEq.readChar $h)))
            | exact (CoreEq.readChar (CoreEq.readChar (CoreEq.readChar (CoreEq.readChar $h)))))))

/-- rewrite every observation of `b` into the same observation of `a`, then decide the `if`s of the unfolded
right-hand side with the case hypotheses and close with the induction hypothesis. -/
syntax "core_close " ident : tactic
macro_rules
  | `(tactic| core_close $h) => `(tactic| (
      simp only [← CoreEq.eof $h, ← CoreEq.ch $h, ← CoreEq.peekChar $h,
        ← CoreEq.ch (CoreEq.readChar $h), ← CoreEq.eof (CoreEq.readChar $h), ← CoreEq.peekChar (CoreEq.readChar $h),
        ← CoreEq.ch (CoreEq.readChar (CoreEq.readChar $h)), ← CoreEq.eof (CoreEq.readChar (CoreEq.readChar $h)),
        ← CoreEq.ch (CoreEq.readChar (CoreEq.readChar (CoreEq.readChar $h))),
        ← CoreEq.eof (CoreEq.readChar (CoreEq.readChar (CoreEq.readChar $h)))]
      first
        | (try simp +zetaDelta only [*, if_true, if_false, dite_true, dite_false, reduceCtorEq]
           try rw [if_neg (by omega)]
           core_fin $h)
        | (repeat' split
           all_goals core_fin $h)))

theorem quotedLoop_core (bt : Bool) (q : Nat) {a b : LState} (h : CoreEq a b) (acc : Bytes) :
    PEq (quotedLoop bt q a acc) (quotedLoop bt q b acc) := by
  fun_induction quotedLoop bt q a acc generalizing b
  all_goals
    rw [quotedLoop.eq_1 bt q b]
    core_close h

theorem blockCommentLoop_core {a b : LState} (h : CoreEq a b) (acc : Bytes) (n : Nat) :
    PEq (blockCommentLoop a acc n) (blockCommentLoop b acc n) := by
  fun_induction blockCommentLoop a acc n generalizing b
  all_goals
    rw [blockCommentLoop.eq_1 b]
    core_close h

theorem hexStringLoop_core {a b : LState} (h : CoreEq a b) (acc : Bytes) :
    PEq (hexStringLoop a acc) (hexStringLoop b acc) := by
  fun_induction hexStringLoop a acc generalizing b
  all_goals
    rw [hexStringLoop.eq_1 b]
    core_close h

theorem quotedIdentLoop_core {a b : LState} (h : CoreEq a b) (acc : Bytes) :
    PEq (quotedIdentLoop a acc) (quotedIdentLoop b acc) := by
  fun_induction quotedIdentLoop a acc generalizing b
  all_goals
    rw [quotedIdentLoop.eq_1 b]
    core_close h

theorem skipUnderscores_core {a b : LState} (h : CoreEq a b) : CoreEq (skipUnderscores a) (skipUnderscores b) := by
  fun_induction skipUnderscores a generalizing b
  all_goals
    rw [skipUnderscores.eq_1 b]
    core_close h

theorem binaryCollect_core {a b : LState} (h : CoreEq a b) (bits : Array UInt8) :
    CoreEq (binaryCollect a bits).1 (binaryCollect b bits).1 ∧ (binaryCollect a bits).2 = (binaryCollect b bits).2 := by
  fun_induction binaryCollect a bits generalizing b
  all_goals
    rw [binaryCollect.eq_1 b]
    core_close h

theorem digitsUs_core {a b : LState} (h : CoreEq a b) (acc : Bytes) :
    PEq (digitsUs a acc) (digitsUs b acc) := by
  fun_induction digitsUs a acc generalizing b with
  | case1 a acc hc ih =>
    rw [digitsUs.eq_1 b, dif_pos (by rw [← h.ch]; exact hc), ← h.ch]
    exact ih (skipUnderscores_core h.readChar)
  | case2 a acc hc =>
    rw [digitsUs.eq_1 b, dif_neg (by rw [← h.ch]; exact hc)]
    exact ⟨h, rfl⟩

theorem usDigitGroups_core {a b : LState} (h : CoreEq a b) (acc : Bytes) :
    PEq (usDigitGroups a acc) (usDigitGroups b acc) := by
  fun_induction usDigitGroups a acc generalizing b with
  | case1 a acc hc r =>
    rw [usDigitGroups.eq_1 b, dif_pos (by rw [← h.ch, ← h.peekChar]; exact hc)]
    have hr := scanWhile_core digitCond digitCond_ok digitCond_core h.readChar acc
    simp only []
    rw [← hr.2]
    apply_assumption
    exact hr.1
  | case2 a acc hc =>
    rw [usDigitGroups.eq_1 b, dif_neg (by rw [← h.ch, ← h.peekChar]; exact hc)]
    exact ⟨h, rfl⟩


/-! ## pairs -/

theorem PEq.ch {p q : LState × Bytes} (h : PEq p q) : p.1.ch = q.1.ch := h.1.ch
theorem PEq.peek {p q : LState × Bytes} (h : PEq p q) : peekChar p.1 = peekChar q.1 := h.1.peekChar
theorem PEq.acc {p q : LState × Bytes} (h : PEq p q) : p.2 = q.2 := h.2

theorem takeChar_core {p q : LState × Bytes} (h : PEq p q) : PEq (takeChar p) (takeChar q) := by
  unfold takeChar; rw [h.2, h.1.ch]; exact ⟨h.1.readChar, rfl⟩

theorem optChar2_core (c1 c2 : Nat) {p q : LState × Bytes} (h : PEq p q) : PEq (optChar2 c1 c2 p) (optChar2 c1 c2 q) := by
  unfold optChar2
  rw [h.1.ch, h.2]
  split
  · exact ⟨h.1.readChar, rfl⟩
  · exact h

theorem hexTail_core {p q : LState × Bytes} (h : PEq p q) : PEq (hexTail p) (hexTail q) := by
  unfold hexTail
  grind [PEq.ch, takeChar_core, optChar2_core, scanWhile_pcore, hexDigitUsCond_core, hexDigitCond_core, digitCond_core]


/-! ## straight-line number scanners -/

theorem PEq.fst {p q : LState × Bytes} (h : PEq p q) : CoreEq p.1 q.1 := h.1
theorem PEq.eof {p q : LState × Bytes} (h : PEq p q) : p.1.eof = q.1.eof := h.1.eof

theorem scanWhile_core' (p hp) (hpc : CoreCond p) {a b : LState} (h : CoreEq a b) (acc acc' : Bytes) (he : acc = acc') :
    PEq (scanWhile p hp a acc) (scanWhile p hp b acc') := by
  subst he; exact scanWhile_core p hp hpc h acc

theorem digitsUs_pcore {x y : LState × Bytes} (h : PEq x y) : PEq (digitsUs x.1 x.2) (digitsUs y.1 y.2) := by
  rw [h.2]; exact digitsUs_core h.1 _

theorem usDigitGroups_pcore {x y : LState × Bytes} (h : PEq x y) :
    PEq (usDigitGroups x.1 x.2) (usDigitGroups y.1 y.2) := by
  rw [h.2]; exact usDigitGroups_core h.1 _

theorem fracPart_core {p q : LState × Bytes} (h : PEq p q) : PEq (fracPart p) (fracPart q) := by
  unfold fracPart
  grind [PEq.ch, PEq.peek, takeChar_core, digitsUs_pcore]

theorem expPart_core {p q : LState × Bytes} (h : PEq p q) : PEq (expPart p) (expPart q) := by
  unfold expPart
  grind [PEq.ch, takeChar_core, optChar2_core, digitsUs_pcore]

theorem REq.mk {a b : LState} {k : Nat} {v v' : Bytes} {qd : Bool} {s s' : LState} (hv : v = v') (hs : CoreEq s s') :
    REq (tokAt a k v qd, s) (tokAt b k v' qd, s') := ⟨by rw [kvq_tokAt, kvq_tokAt, hv], hs⟩

theorem decimalTail_core {a b : LState} {p q : LState × Bytes} (h : PEq p q) :
    REq (decimalTail a p) (decimalTail b q) := by
  unfold decimalTail
  have := expPart_core (fracPart_core (digitsUs_pcore h))
  exact REq.mk (by rw [this.2]) this.1

theorem zeroPrefix_core {a b : LState} {p q : LState × Bytes} (h : PEq p q) :
    REq (zeroPrefix a p) (zeroPrefix b q) := by
  unfold zeroPrefix
  have h1 := takeChar_core h
  simp only []
  rw [← h1.ch]
  split
  · have := hexTail_core h1
    exact REq.mk (by rw [this.2]) this.1
  · split
    · have := scanWhile_pcore binDigitCond binDigitCond_ok binDigitCond_core (takeChar_core h1)
      exact REq.mk (by rw [this.2]) this.1
    · split
      · have := scanWhile_pcore octDigitCond octDigitCond_ok octDigitCond_core (takeChar_core h1)
        exact REq.mk (by rw [this.2]) this.1
      · exact decimalTail_core h1

theorem readNumber_core {a b : LState} (h : CoreEq a b) : REq (readNumber a) (readNumber b) := by
  unfold readNumber
  have h0 : PEq (a, ([] : Bytes)) (b, []) := ⟨h, rfl⟩
  have h1 := takeChar_core h0
  have hc := h.ch
  simp only []
  split
  · rw [if_pos (by omega : b.ch = 46), ← h1.ch]
    split
    · exact zeroPrefix_core h1
    · exact decimalTail_core h1
  · rw [if_neg (by omega : ¬ b.ch = 46), ← hc]
    split
    · exact zeroPrefix_core h0
    · exact decimalTail_core h0

theorem baseTail_core {p q : LState × Bytes} (h : PEq p q) : PEq (baseTail p) (baseTail q) := by
  unfold baseTail
  have h1 := hexTail_core h
  have h2 := scanWhile_pcore binDigitCond binDigitCond_ok binDigitCond_core (takeChar_core h)
  simp only []
  rw [← h.ch, ← h.peek, ← h.2]
  split
  · exact h1
  · split
    · exact h2
    · exact h

theorem octTail_core (c : Nat) {p q : LState × Bytes} (h : PEq p q) : PEq (octTail c p) (octTail c q) := by
  unfold octTail
  have h2 := scanWhile_pcore octDigitCond octDigitCond_ok octDigitCond_core (takeChar_core h)
  rw [← h.ch, ← h.2]
  split
  · split
    · exact h2
    · exact h
  · exact h

theorem numberTail_core (c : Nat) {a b : LState} {p q : LState × Bytes} (h : PEq p q) :
    REq (numberTail c a p) (numberTail c b q) := by
  unfold numberTail
  have := octTail_core c (baseTail_core (expPart_core (fracPart_core (usDigitGroups_pcore h))))
  exact REq.mk (by rw [this.2]) this.1

theorem readNumberOrIdent_core {a b : LState} (h : CoreEq a b) : REq (readNumberOrIdent a) (readNumberOrIdent b) := by
  unfold readNumberOrIdent
  have h1 := scanWhile_core digitCond digitCond_ok digitCond_core h []
  have e4 := h.ch
  revert h1
  generalize scanWhile digitCond digitCond_ok a [] = P
  generalize scanWhile digitCond digitCond_ok b [] = Q
  intro h1
  obtain ⟨P1, P2⟩ := P
  obtain ⟨Q1, Q2⟩ := Q
  have e3 : P2 = Q2 := h1.2
  subst e3
  have e1 : P1.ch = Q1.ch := h1.ch
  have e2 : peekChar P1 = peekChar Q1 := h1.peek
  have h2 := scanWhile_pcore identCharCond identCharCond_ok identCharCond_core (takeChar_core h1)
  have h3 := scanWhile_pcore identCharCond identCharCond_ok identCharCond_core h1
  simp only []
  rw [← e1, ← e2, ← e4]
  split
  · exact REq.mk (by rw [h2.2]) h2.1
  · split
    · exact REq.mk (by rw [h3.2]) h3.1
    · exact numberTail_core _ h1

/-! ## comments, strings, quoted identifiers -/

theorem readLineComment_core {a b : LState} (h : CoreEq a b) : REq (readLineComment a) (readLineComment b) := by
  unfold readLineComment
  have := scanWhile_core' lineCommentCond lineCommentCond_ok lineCommentCond_core h.readChar.readChar
    (pushRune (pushRune [] a.ch) (readChar a).ch) (pushRune (pushRune [] b.ch) (readChar b).ch)
    (by rw [h.ch, h.readChar.ch])
  exact REq.mk (by rw [this.2]) this.1

theorem readHashComment_core {a b : LState} (h : CoreEq a b) : REq (readHashComment a) (readHashComment b) := by
  unfold readHashComment
  have := scanWhile_core' lineCommentCond lineCommentCond_ok lineCommentCond_core h.readChar
    (pushRune [] a.ch) (pushRune [] b.ch) (by rw [h.ch])
  exact REq.mk (by rw [this.2]) this.1

theorem readUnicodeMinusComment_core {a b : LState} (h : CoreEq a b) :
    REq (readUnicodeMinusComment a) (readUnicodeMinusComment b) := by
  unfold readUnicodeMinusComment
  have := scanWhile_core' minusCommentCond minusCommentCond_ok minusCommentCond_core h.readChar
    (pushRune [] a.ch) (pushRune [] b.ch) (by rw [h.ch])
  exact REq.mk (by rw [this.2]) this.1

theorem readBlockComment_core {a b : LState} (h : CoreEq a b) : REq (readBlockComment a) (readBlockComment b) := by
  unfold readBlockComment
  have := blockCommentLoop_core h.readChar.readChar (pushRune (pushRune [] a.ch) (readChar a).ch) 1
  simp only []
  rw [← h.ch, ← h.readChar.ch]
  exact REq.mk (by rw [this.2]) this.1

theorem readString_core (q : Nat) {a b : LState} (h : CoreEq a b) : REq (readString q a) (readString q b) := by
  unfold readString
  have := quotedLoop_core false q h.readChar []
  exact REq.mk (by rw [this.2]) this.1

theorem readHexString_core {a b : LState} (h : CoreEq a b) : REq (readHexString a) (readHexString b) := by
  unfold readHexString
  have := hexStringLoop_core h.readChar []
  exact REq.mk (by rw [this.2]) this.1

theorem readBinaryString_core {a b : LState} (h : CoreEq a b) :
    EEq REq (readBinaryString a) (readBinaryString b) := by
  unfold readBinaryString
  have := binaryCollect_core h.readChar #[]
  simp only []
  rw [← this.2]
  cases binaryConvert (binaryCollect (readChar a) #[]).2 with
  | error e => exact rfl
  | ok v => exact REq.mk rfl this.1

theorem readQuotedIdentifier_core {a b : LState} (h : CoreEq a b) :
    REq (readQuotedIdentifier a) (readQuotedIdentifier b) := by
  unfold readQuotedIdentifier
  have := quotedIdentLoop_core h.readChar []
  exact REq.mk (by rw [this.2]) this.1

theorem readUntil_core (c : Nat) {a b : LState} (h : CoreEq a b) : PEq (readUntil c a) (readUntil c b) := by
  unfold readUntil
  have := scanWhile_core (untilCond c) (untilCond_ok c) (untilCond_core c) h.readChar []
  simp only []
  rw [← this.ch, ← this.2]
  split
  · exact ⟨this.1.readChar, rfl⟩
  · exact ⟨this.1, rfl⟩

theorem readUnicodeString_core (o : Nat) {a b : LState} (h : CoreEq a b) :
    REq (readUnicodeString o a) (readUnicodeString o b) := by
  unfold readUnicodeString
  have := readUntil_core 0x2019 h
  exact REq.mk (by rw [this.2]) this.1

theorem readUnicodeQuotedIdentifier_core (o : Nat) {a b : LState} (h : CoreEq a b) :
    REq (readUnicodeQuotedIdentifier o a) (readUnicodeQuotedIdentifier o b) := by
  unfold readUnicodeQuotedIdentifier
  have := readUntil_core 0x201D h
  exact REq.mk (by rw [this.2]) this.1

theorem readBacktickIdentifier_core {a b : LState} (h : CoreEq a b) :
    REq (readBacktickIdentifier a) (readBacktickIdentifier b) := by
  unfold readBacktickIdentifier
  have := quotedLoop_core true 96 h.readChar []
  exact REq.mk (by rw [this.2]) this.1

theorem readParameter_core {a b : LState} (h : CoreEq a b) : REq (readParameter a) (readParameter b) := by
  unfold readParameter
  have := readUntil_core 125 h
  exact REq.mk (by rw [this.2]) this.1

theorem readDollarIdentifier_core {a b : LState} (h : CoreEq a b) :
    REq (readDollarIdentifier a) (readDollarIdentifier b) := by
  unfold readDollarIdentifier
  have := scanWhile_core' dollarIdentCond dollarIdentCond_ok dollarIdentCond_core h.readChar
    (pushRune [] a.ch) (pushRune [] b.ch) (by rw [h.ch])
  exact REq.mk (by rw [this.2]) this.1

end DC.Lexer
