import DC.Proofs.LexerLayoutGap

/-!
# Quoted text is opaque (C06): strings, quoted identifiers

From a state that enters `q ++ body ++ q ++ rest` (`q` one of `'`, `"`, `` ` ``; `body` free of `q` and of `\`;
`rest` not starting with `q`) `NextToken` answers exactly one token — `STRING` resp. `IDENT` — whose value is the
body, and the lexer then enters `rest`. Whatever the body contains (`;`, `--`, `/*`, other quotes, new lines, any
non-ASCII text) produces no token of its own.
-/
namespace DC.Lexer
open DC.Utf8 DC.Gen.Tokens

/-- no rune of the body is the closing quote or a backslash. -/
def quoteFree (q : Nat) (rs : List Nat) : Prop := ∀ r ∈ rs, r ≠ q ∧ r ≠ 92

theorem quotedLoop_run (bt : Bool) (q : Nat) (hq : q < 128) {qb : Bytes} (hqb : Dec qb q)
    {body : Bytes} {rs : List Nat} (hb : Spells body rs) (hno : quoteFree q rs)
    (rest : Bytes) (hrest : firstRune rest ≠ q) {s : LState} (acc : Bytes) (hs : Ent s (body ++ (qb ++ rest))) :
    (quotedLoop bt q s acc).2 = (enc rs).reverse ++ acc ∧ Ent (quotedLoop bt q s acc).1 rest := by
  induction hb generalizing s acc with
  | nil =>
    rw [List.nil_append] at hs
    obtain ⟨hch, he, _⟩ := hs.dec hqb
    have hpk : ¬ peekChar s = q := by rw [hs.peek hqb q hq]; exact hrest
    rw [quotedLoop.eq_1, dif_pos he, if_pos hch, if_neg hpk]
    exact ⟨rfl, hs.readChar hqb⟩
  | @cons p r bs rs hd _ ih =>
    rw [List.append_assoc] at hs
    obtain ⟨hch, he, _⟩ := hs.dec hd
    have hr := hno r (List.mem_cons_self ..)
    rw [quotedLoop.eq_1, dif_pos he, if_neg (by rw [hch]; exact hr.1), if_neg (by rw [hch]; exact hr.2), hch]
    obtain ⟨h1, h2⟩ := ih (fun x hx => hno x (List.mem_cons_of_mem _ hx)) (pushRune acc r) (hs.readChar hd)
    exact ⟨by rw [h1, pushRune_enc], h2⟩

theorem quotedIdentLoop_run {body : Bytes} {rs : List Nat} (hb : Spells body rs) (hno : quoteFree 34 rs)
    (rest : Bytes) (hrest : firstRune rest ≠ 34) {s : LState} (acc : Bytes) (hs : Ent s (body ++ 34 :: rest)) :
    (quotedIdentLoop s acc).2 = (enc rs).reverse ++ acc ∧ Ent (quotedIdentLoop s acc).1 rest := by
  have d34 : Dec [34] 34 := dec_ascii (b := 34) (by decide)
  induction hb generalizing s acc with
  | nil =>
    rw [List.nil_append] at hs
    obtain ⟨hch, he, _⟩ := hs.dec (p := [34]) d34
    have hs1 : Ent (readChar s) rest := hs.readChar (p := [34]) d34
    rw [quotedIdentLoop.eq_1, dif_pos he, if_pos hch]
    simp only []
    rw [if_neg (by rw [hs1.ch]; exact hrest)]
    exact ⟨rfl, hs1⟩
  | @cons p r bs rs hd _ ih =>
    rw [List.append_assoc] at hs
    obtain ⟨hch, he, _⟩ := hs.dec hd
    have hr := hno r (List.mem_cons_self ..)
    rw [quotedIdentLoop.eq_1, dif_pos he, if_neg (by rw [hch]; exact hr.1), if_neg (by rw [hch]; exact hr.2), hch]
    obtain ⟨h1, h2⟩ := ih (fun x hx => hno x (List.mem_cons_of_mem _ hx)) (pushRune acc r) (hs.readChar hd)
    exact ⟨by rw [h1, pushRune_enc], h2⟩

/-! ## the dispatch of `NextToken` on the three quote characters -/

theorem nextTokenE_quote {s : LState} (he : s.eof = false) (c : Nat) (hc : c = 39 ∨ c = 34 ∨ c = 96) (hch : s.ch = c) :
    nextTokenE s =
      if c = 39 then .ok (readString 39 s)
      else if c = 34 then .ok (readQuotedIdentifier s)
      else .ok (readBacktickIdentifier s) := by
  have hw : isWs s.ch = false := by
    rcases hc with h | h | h <;> (rw [hch, h]; decide)
  have h1 : singleCharKind s.ch = none := by
    rcases hc with h | h | h <;> (rw [hch, h]; decide)
  have h2 : readOperator s = none := by
    unfold readOperator
    rcases hc with h | h | h <;> simp [hch, h]
  rw [nextTokenE_live hw he (by omega)]
  unfold nextTokenSwitch
  rw [h1]
  simp only [h2]
  rcases hc with h | h | h <;> subst h <;> simp [hch]

theorem string_tok {body : Bytes} {rs : List Nat} (hb : Spells body rs) (hno : quoteFree 39 rs)
    (rest : Bytes) (hrest : firstRune rest ≠ 39) {s : LState} (hs : Ent s (39 :: body ++ 39 :: rest)) :
    (nextToken s).1.kvq = (tSTRING, enc rs, false) ∧ Ent (nextToken s).2 rest := by
  have d39 : Dec [39] 39 := dec_ascii (b := 39) (by decide)
  obtain ⟨hch, he, _⟩ := hs.dec (p := [39]) d39
  have hs1 : Ent (readChar s) (body ++ ([39] ++ rest)) := hs.readChar (p := [39]) d39
  obtain ⟨ha, hst⟩ := quotedLoop_run false 39 (by decide) d39 hb hno rest hrest [] hs1
  rw [nextToken_of_E (nextTokenE_quote he 39 (Or.inl rfl) hch)]
  simp only [readString, kvq_tokAt]
  exact ⟨by rw [ha, List.append_nil, List.reverse_reverse], hst⟩

theorem backtick_tok {body : Bytes} {rs : List Nat} (hb : Spells body rs) (hno : quoteFree 96 rs)
    (rest : Bytes) (hrest : firstRune rest ≠ 96) {s : LState} (hs : Ent s (96 :: body ++ 96 :: rest)) :
    (nextToken s).1.kvq = (tIDENT, enc rs, false) ∧ Ent (nextToken s).2 rest := by
  have d96 : Dec [96] 96 := dec_ascii (b := 96) (by decide)
  obtain ⟨hch, he, _⟩ := hs.dec (p := [96]) d96
  have hs1 : Ent (readChar s) (body ++ ([96] ++ rest)) := hs.readChar (p := [96]) d96
  obtain ⟨ha, hst⟩ := quotedLoop_run true 96 (by decide) d96 hb hno rest hrest [] hs1
  rw [nextToken_of_E (nextTokenE_quote he 96 (Or.inr (Or.inr rfl)) hch)]
  simp only [readBacktickIdentifier, kvq_tokAt]
  exact ⟨by rw [ha, List.append_nil, List.reverse_reverse], hst⟩

theorem dquote_tok {body : Bytes} {rs : List Nat} (hb : Spells body rs) (hno : quoteFree 34 rs)
    (rest : Bytes) (hrest : firstRune rest ≠ 34) {s : LState} (hs : Ent s (34 :: body ++ 34 :: rest)) :
    (nextToken s).1.kvq = (tIDENT, enc rs, true) ∧ Ent (nextToken s).2 rest := by
  have d34 : Dec [34] 34 := dec_ascii (b := 34) (by decide)
  obtain ⟨hch, he, _⟩ := hs.dec (p := [34]) d34
  have hs1 : Ent (readChar s) (body ++ 34 :: rest) := hs.readChar (p := [34]) d34
  obtain ⟨ha, hst⟩ := quotedIdentLoop_run hb hno rest hrest [] hs1
  rw [nextToken_of_E (nextTokenE_quote he 34 (Or.inr (Or.inl rfl)) hch)]
  simp only [readQuotedIdentifier, kvq_tokAt]
  exact ⟨by rw [ha, List.append_nil, List.reverse_reverse], hst⟩

/-! ## bodies with escapes -/

/-- one item of a `'…'` (`bt = false`, `q = 39`) or `` `…` `` (`bt = true`, `q = 96`) body: source bytes and the
bytes it contributes to the token value (`readString` / `readBacktickIdentifier`, lexer.go). `qb` are the bytes of
the quote character. -/
inductive QItem (bt : Bool) (q : Nat) (qb : Bytes) : Bytes → Bytes → Prop
  /-- an ordinary rune -/
  | plain {p : Bytes} {r : Nat} : Dec p r → r ≠ q → r ≠ 92 → QItem bt q qb p (encodeRune r)
  /-- the doubled quote -/
  | dbl : QItem bt q qb (qb ++ qb) (encodeRune q)
  /-- backslash + a character of the escape table (not `x`) -/
  | esc {p : Bytes} {c u : Nat} : Dec p c → c ≠ 120 → simpleEscape bt c = some u → QItem bt q qb (92 :: p) (encodeRune u)
  /-- backslash + any other character (not `x`): both are kept -/
  | keep {p : Bytes} {c : Nat} : Dec p c → c ≠ 120 → simpleEscape bt c = none →
      QItem bt q qb (92 :: p) (encodeRune 92 ++ encodeRune c)
  /-- `\x` + two characters: one byte -/
  | hex {p1 p2 : Bytes} {h1 h2 : Nat} : Dec p1 h1 → Dec p2 h2 →
      QItem bt q qb (92 :: 120 :: (p1 ++ p2)) [((hexValue h1 * 16 + hexValue h2) % 256).toUInt8]

/-- a body: a sequence of items; second component: the token value. -/
inductive QBody (bt : Bool) (q : Nat) (qb : Bytes) : Bytes → Bytes → Prop
  | nil : QBody bt q qb [] []
  | cons {i v b vb : Bytes} : QItem bt q qb i v → QBody bt q qb b vb → QBody bt q qb (i ++ b) (v ++ vb)

theorem dec92 : Dec [92] 92 := dec_ascii (b := 92) (by decide)
theorem dec120 : Dec [120] 120 := dec_ascii (b := 120) (by decide)

theorem pushRune_eq (acc : Bytes) (r : Nat) : pushRune acc r = (encodeRune r).reverse ++ acc := rfl

theorem quotedLoop_body (bt : Bool) (q : Nat) (hq : q < 128) (hq92 : q ≠ 92) {qb : Bytes} (hqb : Dec qb q)
    {body val : Bytes} (hb : QBody bt q qb body val)
    (rest : Bytes) (hrest : firstRune rest ≠ q) {s : LState} (acc : Bytes) (hs : Ent s (body ++ (qb ++ rest))) :
    (quotedLoop bt q s acc).2 = val.reverse ++ acc ∧ Ent (quotedLoop bt q s acc).1 rest := by
  induction hb generalizing s acc with
  | nil =>
    rw [List.nil_append] at hs
    obtain ⟨hch, he, _⟩ := hs.dec hqb
    have hpk : ¬ peekChar s = q := by rw [hs.peek hqb q hq]; exact hrest
    rw [quotedLoop.eq_1, dif_pos he, if_pos hch, if_neg hpk]
    exact ⟨rfl, hs.readChar hqb⟩
  | @cons i v b vb hi _ ih =>
    rw [List.append_assoc] at hs
    cases hi with
    | @plain p r hd h1 h2 =>
      obtain ⟨hch, he, _⟩ := hs.dec hd
      rw [quotedLoop.eq_1, dif_pos he, if_neg (by rw [hch]; exact h1), if_neg (by rw [hch]; exact h2), hch]
      obtain ⟨e1, e2⟩ := ih (pushRune acc r) (hs.readChar hd)
      exact ⟨by rw [e1, pushRune_eq]; simp, e2⟩
    | dbl =>
      rw [List.append_assoc] at hs
      obtain ⟨hch, he, _⟩ := hs.dec hqb
      have hs1 := hs.readChar hqb
      have hpk : peekChar s = q := (hs.peek hqb q hq).2 (firstRune_dec hqb _)
      rw [quotedLoop.eq_1, dif_pos he, if_pos hch, if_pos hpk]
      obtain ⟨e1, e2⟩ := ih (pushRune acc q) (hs1.readChar hqb)
      exact ⟨by rw [e1, pushRune_eq]; simp, e2⟩
    | @esc p c u hd hc hu =>
      have hs0 : Ent s ([92] ++ (p ++ (b ++ (qb ++ rest)))) := by simpa using hs
      obtain ⟨hch, he, _⟩ := hs0.dec dec92
      have hs1 := hs0.readChar dec92
      obtain ⟨hch1, he1, _⟩ := hs1.dec hd
      rw [quotedLoop.eq_1, dif_pos he, if_neg (by rw [hch]; exact fun e => hq92 e.symm), if_pos hch]
      simp only []
      rw [if_neg (by rw [he1]; decide), if_neg (by rw [hch1]; exact hc), hch1]
      simp only [hu]
      obtain ⟨e1, e2⟩ := ih (pushRune acc u) (hs1.readChar hd)
      exact ⟨by rw [e1, pushRune_eq]; simp, e2⟩
    | @keep p c hd hc hu =>
      have hs0 : Ent s ([92] ++ (p ++ (b ++ (qb ++ rest)))) := by simpa using hs
      obtain ⟨hch, he, _⟩ := hs0.dec dec92
      have hs1 := hs0.readChar dec92
      obtain ⟨hch1, he1, _⟩ := hs1.dec hd
      rw [quotedLoop.eq_1, dif_pos he, if_neg (by rw [hch]; exact fun e => hq92 e.symm), if_pos hch]
      simp only []
      rw [if_neg (by rw [he1]; decide), if_neg (by rw [hch1]; exact hc), hch1]
      simp only [hu]
      obtain ⟨e1, e2⟩ := ih (pushRune (pushRune acc 92) c) (hs1.readChar hd)
      exact ⟨by rw [e1, pushRune_eq, pushRune_eq]; simp, e2⟩
    | @hex p1 p2 h1 h2 hd1 hd2 =>
      have hs0 : Ent s ([92] ++ ([120] ++ (p1 ++ (p2 ++ (b ++ (qb ++ rest)))))) := by simpa using hs
      obtain ⟨hch, he, _⟩ := hs0.dec dec92
      have hs1 := hs0.readChar dec92
      obtain ⟨hch1, he1, _⟩ := hs1.dec dec120
      have hs2 := hs1.readChar dec120
      obtain ⟨hch2, he2, _⟩ := hs2.dec hd1
      have hs3 := hs2.readChar hd1
      obtain ⟨hch3, he3, _⟩ := hs3.dec hd2
      rw [quotedLoop.eq_1, dif_pos he, if_neg (by rw [hch]; exact fun e => hq92 e.symm), if_pos hch]
      simp only []
      rw [if_neg (by rw [he1]; decide), if_pos hch1, if_neg (by rw [he2]; decide), if_neg (by rw [he3]; decide),
        hch2, hch3]
      obtain ⟨e1, e2⟩ := ih (pushByte acc (hexValue h1 * 16 + hexValue h2)) (hs3.readChar hd2)
      exact ⟨by rw [e1]; simp [pushByte], e2⟩


/-- one item of a `"…"` body (`readQuotedIdentifier`, lexer.go): an ordinary rune, `""`, or backslash + any
character (which is kept without the backslash). -/
inductive DItem : Bytes → Bytes → Prop
  | plain {p : Bytes} {r : Nat} : Dec p r → r ≠ 34 → r ≠ 92 → DItem p (encodeRune r)
  | dbl : DItem [34, 34] (encodeRune 34)
  | esc {p : Bytes} {c : Nat} : Dec p c → DItem (92 :: p) (encodeRune c)

inductive DBody : Bytes → Bytes → Prop
  | nil : DBody [] []
  | cons {i v b vb : Bytes} : DItem i v → DBody b vb → DBody (i ++ b) (v ++ vb)

theorem quotedIdentLoop_body {body val : Bytes} (hb : DBody body val)
    (rest : Bytes) (hrest : firstRune rest ≠ 34) {s : LState} (acc : Bytes) (hs : Ent s (body ++ 34 :: rest)) :
    (quotedIdentLoop s acc).2 = val.reverse ++ acc ∧ Ent (quotedIdentLoop s acc).1 rest := by
  have d34 : Dec [34] 34 := dec_ascii (b := 34) (by decide)
  induction hb generalizing s acc with
  | nil =>
    rw [List.nil_append] at hs
    obtain ⟨hch, he, _⟩ := hs.dec (p := [34]) d34
    have hs1 : Ent (readChar s) rest := hs.readChar (p := [34]) d34
    rw [quotedIdentLoop.eq_1, dif_pos he, if_pos hch]
    simp only []
    rw [if_neg (by rw [hs1.ch]; exact hrest)]
    exact ⟨rfl, hs1⟩
  | @cons i v b vb hi _ ih =>
    rw [List.append_assoc] at hs
    cases hi with
    | @plain p r hd h1 h2 =>
      obtain ⟨hch, he, _⟩ := hs.dec hd
      rw [quotedIdentLoop.eq_1, dif_pos he, if_neg (by rw [hch]; exact h1), if_neg (by rw [hch]; exact h2), hch]
      obtain ⟨e1, e2⟩ := ih (pushRune acc r) (hs.readChar hd)
      exact ⟨by rw [e1, pushRune_eq]; simp, e2⟩
    | dbl =>
      have hs0 : Ent s ([34] ++ ([34] ++ (b ++ 34 :: rest))) := by simpa using hs
      obtain ⟨hch, he, _⟩ := hs0.dec d34
      have hs1 := hs0.readChar d34
      obtain ⟨hch1, _, _⟩ := hs1.dec d34
      rw [quotedIdentLoop.eq_1, dif_pos he, if_pos hch]
      simp only []
      rw [if_pos hch1]
      obtain ⟨e1, e2⟩ := ih (pushRune acc 34) (hs1.readChar d34)
      exact ⟨by rw [e1, pushRune_eq]; simp, e2⟩
    | @esc p c hd =>
      have hs0 : Ent s ([92] ++ (p ++ (b ++ 34 :: rest))) := by simpa using hs
      obtain ⟨hch, he, _⟩ := hs0.dec dec92
      have hs1 := hs0.readChar dec92
      obtain ⟨hch1, he1, _⟩ := hs1.dec hd
      rw [quotedIdentLoop.eq_1, dif_pos he, if_neg (by rw [hch]; decide), if_pos hch]
      simp only []
      rw [if_pos he1, hch1]
      obtain ⟨e1, e2⟩ := ih (pushRune acc c) (hs1.readChar hd)
      exact ⟨by rw [e1, pushRune_eq]; simp, e2⟩

/-! ### the tokens -/

theorem string_tok_esc {body val : Bytes} (hb : QBody false 39 [39] body val)
    (rest : Bytes) (hrest : firstRune rest ≠ 39) {s : LState} (hs : Ent s (39 :: body ++ 39 :: rest)) :
    (nextToken s).1.kvq = (tSTRING, val, false) ∧ Ent (nextToken s).2 rest := by
  have d39 : Dec [39] 39 := dec_ascii (b := 39) (by decide)
  obtain ⟨hch, he, _⟩ := hs.dec (p := [39]) d39
  have hs1 : Ent (readChar s) (body ++ ([39] ++ rest)) := hs.readChar (p := [39]) d39
  obtain ⟨ha, hst⟩ := quotedLoop_body false 39 (by decide) (by decide) d39 hb rest hrest [] hs1
  rw [nextToken_of_E (nextTokenE_quote he 39 (Or.inl rfl) hch)]
  simp only [readString, kvq_tokAt]
  exact ⟨by rw [ha, List.append_nil, List.reverse_reverse], hst⟩

theorem backtick_tok_esc {body val : Bytes} (hb : QBody true 96 [96] body val)
    (rest : Bytes) (hrest : firstRune rest ≠ 96) {s : LState} (hs : Ent s (96 :: body ++ 96 :: rest)) :
    (nextToken s).1.kvq = (tIDENT, val, false) ∧ Ent (nextToken s).2 rest := by
  have d96 : Dec [96] 96 := dec_ascii (b := 96) (by decide)
  obtain ⟨hch, he, _⟩ := hs.dec (p := [96]) d96
  have hs1 : Ent (readChar s) (body ++ ([96] ++ rest)) := hs.readChar (p := [96]) d96
  obtain ⟨ha, hst⟩ := quotedLoop_body true 96 (by decide) (by decide) d96 hb rest hrest [] hs1
  rw [nextToken_of_E (nextTokenE_quote he 96 (Or.inr (Or.inr rfl)) hch)]
  simp only [readBacktickIdentifier, kvq_tokAt]
  exact ⟨by rw [ha, List.append_nil, List.reverse_reverse], hst⟩

theorem dquote_tok_esc {body val : Bytes} (hb : DBody body val)
    (rest : Bytes) (hrest : firstRune rest ≠ 34) {s : LState} (hs : Ent s (34 :: body ++ 34 :: rest)) :
    (nextToken s).1.kvq = (tIDENT, val, true) ∧ Ent (nextToken s).2 rest := by
  have d34 : Dec [34] 34 := dec_ascii (b := 34) (by decide)
  obtain ⟨hch, he, _⟩ := hs.dec (p := [34]) d34
  have hs1 : Ent (readChar s) (body ++ 34 :: rest) := hs.readChar (p := [34]) d34
  obtain ⟨ha, hst⟩ := quotedIdentLoop_body hb rest hrest [] hs1
  rw [nextToken_of_E (nextTokenE_quote he 34 (Or.inr (Or.inl rfl)) hch)]
  simp only [readQuotedIdentifier, kvq_tokAt]
  exact ⟨by rw [ha, List.append_nil, List.reverse_reverse], hst⟩

end DC.Lexer
