import DC.Model.Number
import DC.Spec.LitSpec

/-! Lemmas for C09, integer literals: `parseNumber` on digit strings, negation, nesting. -/
namespace DC.Proofs.LitInt
open DC DC.Model.Number DC.Model.FloatFmt DC.Spec.LitSpec

theorem toNat_ofNat_lt (n : Nat) (h : n < 256) : (UInt8.ofNat n).toNat = n := by
  rw [UInt8.toNat_ofNat']; omega

theorem digitVal_digit : ∀ d, d < 10 → digitVal (digitByte d) = some d := by decide

theorem digit_ne : ∀ d, d < 10 → (digitByte d ≠ 95 ∧ digitByte d ≠ 46 ∧ digitByte d ≠ 101 ∧
    digitByte d ≠ 69 ∧ digitByte d ≠ 120 ∧ digitByte d ≠ 88 ∧ digitByte d ≠ 98 ∧
    digitByte d ≠ 66 ∧ digitByte d ≠ 111 ∧ digitByte d ≠ 79) := by decide

/-- bytes of a decimal digit text. -/
def IsDigitByte (c : UInt8) : Prop := ∃ d, d < 10 ∧ c = digitByte d

theorem digitsText_bytes {ds : List Nat} (hd : ∀ d ∈ ds, d < 10) : ∀ c ∈ digitsText ds, IsDigitByte c := by
  intro c hc
  simp [digitsText] at hc
  obtain ⟨d, hm, rfl⟩ := hc
  exact ⟨d, hd d hm, rfl⟩

theorem contains_false {t : Bytes} (ht : ∀ c ∈ t, IsDigitByte c) (x : UInt8)
    (hx : ∀ d, d < 10 → digitByte d ≠ x) : t.contains x = false := by
  rw [Bool.eq_false_iff]
  intro h
  rw [List.contains_iff_mem] at h
  obtain ⟨d, hd, rfl⟩ := ht x h
  exact hx d hd rfl

theorem hasPrefix_false {t : Bytes} (ht : ∀ c ∈ t, IsDigitByte c) (x : UInt8)
    (hx : ∀ d, d < 10 → digitByte d ≠ x) : hasPrefix [48, x] t = false := by
  unfold hasPrefix
  match t, ht with
  | [], _ => rfl
  | [a], _ => simp [List.isPrefixOf]
  | a :: b :: r, ht =>
    obtain ⟨d, hd, rfl⟩ := ht b (by simp)
    have := hx d hd
    simp [List.isPrefixOf]
    intro _ h
    exact this h.symm

theorem accum_digits (ds : List Nat) (hd : ∀ d ∈ ds, d < 10) (n : Nat) :
    accum 10 false (digitsText ds) n = some (ds.foldl (fun n d => n * 10 + d) n) := by
  induction ds generalizing n with
  | nil => rfl
  | cons d ds ih =>
    have hd0 : d < 10 := hd d (by simp)
    simp only [digitsText, List.map_cons, accum, List.foldl_cons]
    rw [digitVal_digit d hd0]
    simp only [hd0, if_true]
    have e : (digitByte d = 95 ∧ false = true) = False := by simp
    simp only [e, if_false]
    exact ih (fun x hx => hd x (by simp [hx])) _

theorem parseUint_digits (ds : List Nat) (h : IsDigits ds) :
    parseUint (digitsText ds) false = if digitsVal ds < 2 ^ 64 then some (digitsVal ds) else none := by
  obtain ⟨hne, hd⟩ := h
  match ds, hne with
  | d :: ds, _ =>
    have := accum_digits (d :: ds) hd 0
    simp only [digitsText, List.map_cons] at this
    simp only [parseUint, digitsText, List.map_cons, Bool.false_eq_true, if_false, this, false_and]
    rfl

/-- `parseNumber` on a decimal digit text. -/
theorem parseNumber_digits (ds : List Nat) (h : IsDigits ds) (conv : Option ShortDec) :
    parseNumber (digitsText ds) conv =
      if digitsVal ds < 2 ^ 63 then .int64 (digitsVal ds)
      else if digitsVal ds < 2 ^ 64 then .uint64 (digitsVal ds)
      else match conv with
        | none => .str (digitsText ds) true
        | some d => .float d := by
  have hb := digitsText_bytes h.2
  have c1 := contains_false hb 46 (fun d hd => (digit_ne d hd).2.1)
  have c2 := contains_false hb 101 (fun d hd => (digit_ne d hd).2.2.1)
  have c3 := contains_false hb 69 (fun d hd => (digit_ne d hd).2.2.2.1)
  have p1 := hasPrefix_false hb 120 (fun d hd => (digit_ne d hd).2.2.2.2.1)
  have p2 := hasPrefix_false hb 88 (fun d hd => (digit_ne d hd).2.2.2.2.2.1)
  have p3 := hasPrefix_false hb 98 (fun d hd => (digit_ne d hd).2.2.2.2.2.2.1)
  have p4 := hasPrefix_false hb 66 (fun d hd => (digit_ne d hd).2.2.2.2.2.2.2.1)
  have p5 := hasPrefix_false hb 111 (fun d hd => (digit_ne d hd).2.2.2.2.2.2.2.2.1)
  have p6 := hasPrefix_false hb 79 (fun d hd => (digit_ne d hd).2.2.2.2.2.2.2.2.2)
  unfold parseNumber
  simp only [c1, c2, c3, p1, p2, p3, p4, p5, p6, Bool.or_self, Bool.and_false, Bool.false_and, Bool.not_false, Bool.and_self,
    Bool.false_eq_true, if_false, parseInt, parseUint_digits ds h]
  by_cases h63 : digitsVal ds < 2 ^ 63
  · have h64 : digitsVal ds < 2 ^ 64 := by omega
    simp [h63, h64]
  · by_cases h64 : digitsVal ds < 2 ^ 64
    · simp [h63, h64]
    · simp [h63, h64]
      cases conv <;> rfl

theorem toString_neg (n : Nat) (h : 0 < n) : toString (-(n : Int)) = "-" ++ toString n := by
  cases n with
  | zero => omega
  | succ k => rfl

theorem explainNum_uint (ds : List Nat) (h : IsDigits ds) (conv : Option ShortDec) (hlt : digitsVal ds < 2 ^ 64) :
    explainNum (digitsText ds) false conv = .lit (strBytes (canonUInt (digitsVal ds))) := by
  simp only [explainNum, parseNumber_digits ds h conv, Bool.false_eq_true, if_false]
  by_cases h63 : digitsVal ds < 2 ^ 63
  · simp [h63, formatLiteral, sb, canonUInt]
  · simp [h63, hlt, formatLiteral, sb, canonUInt]

theorem negInt64Text_pos (n : Nat) (h : 0 < n) : negInt64Text (n : Int) = strBytes (canonNeg n) := by
  have h1 : ¬ (-(n : Int) = 0) := by omega
  have h2 : ¬ (-(n : Int) > 0) := by omega
  simp only [negInt64Text, h1, h2, if_false, sb, canonNeg, toString_neg n h]
  rw [← String.append_assoc]
  rfl

theorem negInt64Text_zero : negInt64Text (0 : Int) = strBytes (canonUInt 0) := by
  simp only [negInt64Text, sb, canonUInt]
  rfl

theorem explainNum_neg (ds : List Nat) (h : IsDigits ds) (conv : Option ShortDec) (hpos : 0 < digitsVal ds)
    (hle : digitsVal ds ≤ 2 ^ 63) :
    explainNum (digitsText ds) true conv = .lit (strBytes (canonNeg (digitsVal ds))) := by
  simp only [explainNum, parseNumber_digits ds h conv, if_true]
  by_cases h63 : digitsVal ds < 2 ^ 63
  · simp only [h63, if_true, explainNeg, negInt64Text_pos _ hpos]
  · have h64 : digitsVal ds < 2 ^ 64 := by omega
    have hne : ¬ digitsVal ds = 0 := by omega
    have hle' : digitsVal ds ≤ 9223372036854775808 := by omega
    simp only [h63, h64, if_true, if_false, explainNeg, hne, hle', sb, canonNeg]

theorem explainNum_neg_zero (ds : List Nat) (h : IsDigits ds) (conv : Option ShortDec) (hz : digitsVal ds = 0) :
    explainNum (digitsText ds) true conv = .lit (strBytes (canonUInt 0)) := by
  have h63 : digitsVal ds < 2 ^ 63 := by omega
  simp only [explainNum, parseNumber_digits ds h conv, if_true, h63, explainNeg]
  rw [hz]
  exact congrArg _ negInt64Text_zero

/-- beyond UInt64 the literal is a Float64 carrying the trusted conversion of its text. -/
theorem parseNumber_big (ds : List Nat) (h : IsDigits ds) (d : ShortDec) (hge : 2 ^ 64 ≤ digitsVal ds) :
    parseNumber (digitsText ds) (some d) = .float d := by
  have h63 : ¬ digitsVal ds < 2 ^ 63 := by omega
  have h64 : ¬ digitsVal ds < 2 ^ 64 := by omega
  simp [parseNumber_digits ds h, h63, h64]

theorem explainNum_big (ds : List Nat) (h : IsDigits ds) (d : ShortDec) (hge : 2 ^ 64 ≤ digitsVal ds) :
    explainNum (digitsText ds) false (some d) = .lit (strBytes "Float64_" ++ asciiBytes (formatFloat d)) := by
  simp [explainNum, parseNumber_big ds h d hge, formatLiteral, sb]

/-- a negated literal beyond 2^63 is the negated Float64. -/
theorem explainNum_neg_big (ds : List Nat) (h : IsDigits ds) (d : ShortDec) (hgt : 2 ^ 63 < digitsVal ds) :
    explainNum (digitsText ds) true (some d) = .lit (strBytes "Float64_" ++ asciiBytes (formatFloat d.negate)) := by
  have h63 : ¬ digitsVal ds < 2 ^ 63 := by omega
  simp only [explainNum, parseNumber_digits ds h, if_true, h63, if_false]
  by_cases h64 : digitsVal ds < 2 ^ 64
  · have hne : ¬ digitsVal ds = 0 := by omega
    have hle' : ¬ digitsVal ds ≤ 9223372036854775808 := by omega
    simp [h64, explainNeg, hne, hle', sb]
  · simp [h64, explainNeg, sb]

/-! ## nesting -/

/-- an integer element as written in the source: digits (any leading zeros), sign, and the trusted conversion of its token
(the shortest decimal of the float64 nearest to its value). -/
structure IntElem where
  ds : List Nat
  neg : Bool
  conv : ShortDec

/-- the AST element the parser builds for it. -/
def IntElem.toElem (e : IntElem) : Elem := ⟨parseNumber (digitsText e.ds) (some e.conv), e.neg, some e.conv⟩

/-- the specified rendering of the element: `UInt64_n` up to 2^64-1, `Int64_-n` down to -2^63 (`-0` is `UInt64_0`),
anything larger the Float64 of its value. -/
def IntElem.canon (e : IntElem) : Bytes :=
  let n := digitsVal e.ds
  if e.neg then
    if n = 0 then strBytes (canonUInt 0)
    else if n ≤ 2 ^ 63 then strBytes (canonNeg n)
    else strBytes "Float64_" ++ asciiBytes (formatFloat e.conv.negate)
  else
    if n < 2 ^ 64 then strBytes (canonUInt n)
    else strBytes "Float64_" ++ asciiBytes (formatFloat e.conv)

theorem elem_simple (e : IntElem) (hd : IsDigits e.ds) : e.toElem.simple = true := by
  simp only [IntElem.toElem, Elem.simple, parseNumber_digits e.ds hd]
  cases hn : e.neg
  · simp
  · by_cases h63 : digitsVal e.ds < 2 ^ 63
    · simp [h63]
    · by_cases h64 : digitsVal e.ds < 2 ^ 64 <;> simp [h63, h64]

theorem elem_text (e : IntElem) (hd : IsDigits e.ds) :
    arrayElemText e.toElem = some e.canon ∧ tupleElemText e.toElem = some e.canon := by
  simp only [IntElem.toElem, arrayElemText, tupleElemText, IntElem.canon, parseNumber_digits e.ds hd]
  cases hn : e.neg
  · by_cases h63 : digitsVal e.ds < 2 ^ 63
    · have h64 : digitsVal e.ds < 2 ^ 64 := by omega
      simp [h63, h64, formatLiteral, sb, canonUInt]
    · by_cases h64 : digitsVal e.ds < 2 ^ 64
      · simp [h63, h64, formatLiteral, sb, canonUInt]
      · simp [h63, h64, formatLiteral, sb]
  · simp only [Bool.not_true, Bool.false_eq_true, if_false, if_true]
    by_cases h63 : digitsVal e.ds < 2 ^ 63
    · simp only [h63, if_true]
      by_cases hz : digitsVal e.ds = 0
      · rw [hz]; simp only [if_true]; exact ⟨congrArg some negInt64Text_zero, congrArg some negInt64Text_zero⟩
      · have hle : digitsVal e.ds ≤ 2 ^ 63 := by omega
        simp only [hz, hle, if_false, if_true]
        exact ⟨congrArg some (negInt64Text_pos _ (by omega)), congrArg some (negInt64Text_pos _ (by omega))⟩
    · have hz : ¬ digitsVal e.ds = 0 := by omega
      by_cases h64 : digitsVal e.ds < 2 ^ 64
      · simp only [h63, h64, if_true, if_false, negUint64Text, hz]
        by_cases hgt : digitsVal e.ds > 9223372036854775808
        · have hle : ¬ digitsVal e.ds ≤ 2 ^ 63 := by omega
          simp [hgt, hle, sb]
        · have hle : digitsVal e.ds ≤ 2 ^ 63 := by omega
          simp [hgt, hle, sb, canonNeg]
      · have hle : ¬ digitsVal e.ds ≤ 2 ^ 63 := by omega
        simp [h63, h64, hz, hle, sb]

theorem collect_map {α : Type} (es : List α) (f : α → Option Bytes) (g : α → Bytes) (h : ∀ e ∈ es, f e = some (g e)) :
    collect (es.map f) = some (es.map g) := by
  induction es with
  | nil => rfl
  | cons a t ih =>
    have ha := h a (by simp)
    have := ih (fun e he => h e (by simp [he]))
    simp [collect, ha, this]

theorem explainArray_ints (es : List IntElem) (hne : es ≠ []) (h : ∀ e ∈ es, IsDigits e.ds) :
    explainArray (es.map IntElem.toElem) =
      .lit (strBytes "Array_[" ++ joinComma (es.map IntElem.canon) ++ strBytes "]") := by
  have hs : (es.map IntElem.toElem).all Elem.simple = true := by
    simp only [List.all_map, List.all_eq_true]
    intro e he
    exact elem_simple e (h e he)
  have hm : collect ((es.map IntElem.toElem).map arrayElemText) = some (es.map IntElem.canon) := by
    rw [List.map_map]
    exact collect_map es _ _ (fun e he => (elem_text e (h e he)).1)
  have he : (es.map IntElem.toElem).isEmpty = false := by
    cases es with
    | nil => exact absurd rfl hne
    | cons a t => rfl
  simp only [explainArray, he, hs, hm, Bool.false_eq_true, if_false, if_true, sb]

theorem explainTuple_ints (es : List IntElem) (hlen : 2 ≤ es.length) (h : ∀ e ∈ es, IsDigits e.ds) :
    explainTuple (es.map IntElem.toElem) =
      .lit (strBytes "Tuple_(" ++ joinComma (es.map IntElem.canon) ++ strBytes ")") := by
  have hs : (es.map IntElem.toElem).all Elem.simple = true := by
    simp only [List.all_map, List.all_eq_true]
    intro e he
    exact elem_simple e (h e he)
  have hm : collect ((es.map IntElem.toElem).map tupleElemText) = some (es.map IntElem.canon) := by
    rw [List.map_map]
    exact collect_map es _ _ (fun e he => (elem_text e (h e he)).2)
  have hl : ¬ (es.map IntElem.toElem).length ≤ 1 := by simp; omega
  simp only [explainTuple, hl, hs, hm, if_false, if_true, sb]

end DC.Proofs.LitInt
