import DC.Proofs.LexerRdScan

/-!
# `runL` of the reader-interface lexer is the pure lexer model: strings and quoted identifiers
-/
set_option linter.unusedSimpArgs false

namespace DC.LexerRd
open DC DC.Utf8 DC.Gen.Tokens DC.Lexer DC.Rd DC.Bufio
open DC.Rd.RdM (runL lrune lpeek)

theorem quotedLoopM_pure (bt : Bool) (quote : Nat) :
    ∀ (f : Nat) (s : LState) (acc : Bytes), s.measure < f →
      runL (quotedLoopM f bt quote s.m acc) s.rest =
        (.ok ((quotedLoop bt quote s acc).1.m, (quotedLoop bt quote s acc).2), (quotedLoop bt quote s acc).1.rest) := by
  intro f
  induction f with
  | zero => intro s acc h; omega
  | succ f ih =>
    intro s acc h
    rw [quotedLoop]
    simp only [quotedLoopM]
    by_cases he : s.eof = false
    · have h1 := readChar_measure_lt_of_not_eof s he
      have h2 := readChar_measure_le (readChar s)
      have h3 := readChar_measure_le (readChar (readChar s))
      have h4 := readChar_measure_le (readChar (readChar (readChar s)))
      simp only [he, if_true, dite_true, runL_ite]
      by_cases hq : s.ch = quote
      · simp only [if_pos hq, runL_bind, peekCharM_pure, bindRes_ok, runL_ite]
        by_cases hp : peekChar s = quote
        · simp only [if_pos hp, runL_bind, readCharM_pure, bindRes_ok]
          exact ih _ _ (by omega)
        · simp only [if_neg hp, runL_bind, readCharM_pure, bindRes_ok, runL_pure]
      · simp only [if_neg hq, runL_ite]
        by_cases hb : s.ch = 92
        · simp only [if_pos hb, runL_bind, readCharM_pure, bindRes_ok, runL_ite]
          by_cases e1 : (readChar s).eof = true
          · simp only [if_pos e1, runL_pure]
          · simp only [if_neg e1, runL_ite]
            by_cases hx : (readChar s).ch = 120
            · simp only [if_pos hx, runL_bind, readCharM_pure, bindRes_ok, runL_ite]
              by_cases e2 : (readChar (readChar s)).eof = true
              · simp only [if_pos e2, runL_bind, readCharM_pure, bindRes_ok]
                exact ih _ _ (by omega)
              · simp only [if_neg e2, runL_bind, readCharM_pure, bindRes_ok, runL_ite]
                by_cases e3 : (readChar (readChar (readChar s))).eof = true
                · simp only [if_pos e3]
                  exact ih _ _ (by omega)
                · simp only [if_neg e3, runL_bind, readCharM_pure, bindRes_ok]
                  exact ih _ _ (by omega)
            · simp only [if_neg hx]
              cases hs : simpleEscape bt (readChar s).ch with
              | none =>
                simp only [runL_bind, readCharM_pure, bindRes_ok]
                exact ih _ _ (by omega)
              | some r =>
                simp only [runL_bind, readCharM_pure, bindRes_ok]
                exact ih _ _ (by omega)
        · simp only [if_neg hb, runL_bind, readCharM_pure, bindRes_ok]
          exact ih _ _ (by omega)
    · simp [he]


theorem readStringM_pure (f : Nat) (q : Nat) (s : LState) (h : s.measure < f) :
    runL (readStringM f q s.m) s.rest = (.ok ((readString q s).1, (readString q s).2.m), (readString q s).2.rest) := by
  simp (disch := lex_fuel h) only [readStringM, readString, runL_bind, readCharM_pure, bindRes_ok,
    quotedLoopM_pure, runL_pure, tokAtM_m]

theorem readBacktickIdentifierM_pure (f : Nat) (s : LState) (h : s.measure < f) :
    runL (readBacktickIdentifierM f s.m) s.rest =
      (.ok ((readBacktickIdentifier s).1, (readBacktickIdentifier s).2.m), (readBacktickIdentifier s).2.rest) := by
  simp (disch := lex_fuel h) only [readBacktickIdentifierM, readBacktickIdentifier, runL_bind, readCharM_pure, bindRes_ok,
    quotedLoopM_pure, runL_pure, tokAtM_m]

theorem hexStringLoopM_pure :
    ∀ (f : Nat) (s : LState) (acc : Bytes), s.measure < f →
      runL (hexStringLoopM f s.m acc) s.rest =
        (.ok ((hexStringLoop s acc).1.m, (hexStringLoop s acc).2), (hexStringLoop s acc).1.rest) := by
  intro f
  induction f with
  | zero => intro s acc h; omega
  | succ f ih =>
    intro s acc h
    rw [hexStringLoop]
    simp only [hexStringLoopM]
    by_cases he : s.eof = false
    · have h1 := readChar_measure_lt_of_not_eof s he
      have h2 := readChar_measure_le (readChar s)
      simp only [he, if_true, dite_true, runL_ite]
      by_cases hq : s.ch = 39
      · simp only [if_pos hq, runL_bind, readCharM_pure, bindRes_ok, runL_pure]
      · simp only [if_neg hq, runL_bind, readCharM_pure, bindRes_ok, runL_ite]
        by_cases e1 : (readChar s).eof = true ∨ (readChar s).ch = 39
        · simp only [if_pos e1, runL_ite]
          by_cases e2 : (readChar s).ch = 39
          · simp only [if_pos e2, runL_bind, readCharM_pure, bindRes_ok, runL_pure]
          · simp only [if_neg e2, runL_pure]
        · simp only [if_neg e1, runL_bind, readCharM_pure, bindRes_ok]
          exact ih _ _ (by omega)
    · simp [he]

theorem readHexStringM_pure (f : Nat) (s : LState) (h : s.measure < f) :
    runL (readHexStringM f s.m) s.rest =
      (.ok ((readHexString s).1, (readHexString s).2.m), (readHexString s).2.rest) := by
  simp (disch := lex_fuel h) only [readHexStringM, readHexString, runL_bind, readCharM_pure, bindRes_ok,
    hexStringLoopM_pure, runL_pure, tokAtM_m]

theorem binaryCollectM_pure :
    ∀ (f : Nat) (s : LState) (bits : Array UInt8), s.measure < f →
      runL (binaryCollectM f s.m bits) s.rest =
        (.ok ((binaryCollect s bits).1.m, (binaryCollect s bits).2), (binaryCollect s bits).1.rest) := by
  intro f
  induction f with
  | zero => intro s acc h; omega
  | succ f ih =>
    intro s bits h
    rw [binaryCollect]
    simp only [binaryCollectM]
    by_cases he : s.eof = false
    · have h1 := readChar_measure_lt_of_not_eof s he
      simp only [he, if_true, dite_true, runL_ite]
      by_cases hq : s.ch = 39
      · simp only [if_pos hq, runL_bind, readCharM_pure, bindRes_ok, runL_pure]
      · simp only [if_neg hq, runL_bind, readCharM_pure, bindRes_ok]
        exact ih _ _ (by omega)
    · simp [he]

/-- `readBinaryString` never panics (`binaryConvert_ok`), so its plain result exists. -/
theorem readBinaryStringM_pure (f : Nat) (s : LState) (h : s.measure < f) (r : Tok × LState)
    (hr : readBinaryString s = .ok r) :
    runL (readBinaryStringM f s.m) s.rest = (.ok (r.1, r.2.m), r.2.rest) := by
  unfold readBinaryString at hr
  simp (disch := lex_fuel h) only [readBinaryStringM, runL_bind, readCharM_pure, bindRes_ok, binaryCollectM_pure]
  cases hb : binaryConvert (binaryCollect (readChar s) #[]).2 with
  | error e => simp [hb] at hr
  | ok v =>
    simp only [hb] at hr
    cases hr
    simp only [runL_pure, tokAtM_m]

theorem quotedIdentLoopM_pure :
    ∀ (f : Nat) (s : LState) (acc : Bytes), s.measure < f →
      runL (quotedIdentLoopM f s.m acc) s.rest =
        (.ok ((quotedIdentLoop s acc).1.m, (quotedIdentLoop s acc).2), (quotedIdentLoop s acc).1.rest) := by
  intro f
  induction f with
  | zero => intro s acc h; omega
  | succ f ih =>
    intro s acc h
    rw [quotedIdentLoop]
    simp only [quotedIdentLoopM]
    by_cases he : s.eof = false
    · have h1 := readChar_measure_lt_of_not_eof s he
      have h2 := readChar_measure_le (readChar s)
      simp only [he, if_true, dite_true, runL_ite]
      by_cases hq : s.ch = 34
      · simp only [if_pos hq, runL_bind, readCharM_pure, bindRes_ok, runL_ite]
        by_cases e1 : (readChar s).ch = 34
        · simp only [if_pos e1, runL_bind, readCharM_pure, bindRes_ok]
          exact ih _ _ (by omega)
        · simp only [if_neg e1, runL_pure]
      · simp only [if_neg hq, runL_ite]
        by_cases hb : s.ch = 92
        · simp only [if_pos hb, runL_bind, readCharM_pure, bindRes_ok, runL_ite]
          by_cases e1 : (readChar s).eof = false
          · simp only [if_pos e1, runL_bind, readCharM_pure, bindRes_ok]
            exact ih _ _ (by omega)
          · simp only [if_neg e1]
            exact ih _ _ (by omega)
        · simp only [if_neg hb, runL_bind, readCharM_pure, bindRes_ok]
          exact ih _ _ (by omega)
    · simp [he]

theorem readQuotedIdentifierM_pure (f : Nat) (s : LState) (h : s.measure < f) :
    runL (readQuotedIdentifierM f s.m) s.rest =
      (.ok ((readQuotedIdentifier s).1, (readQuotedIdentifier s).2.m), (readQuotedIdentifier s).2.rest) := by
  simp (disch := lex_fuel h) only [readQuotedIdentifierM, readQuotedIdentifier, runL_bind, readCharM_pure, bindRes_ok,
    quotedIdentLoopM_pure, runL_pure, tokAtM_m]

theorem readUntilM_pure (f : Nat) (close : Nat) (s : LState) (h : s.measure < f) :
    runL (readUntilM f close s.m) s.rest =
      (.ok ((readUntil close s).1.m, (readUntil close s).2), (readUntil close s).1.rest) := by
  simp (disch := lex_fuel h) only [readUntilM, readUntil, runL_bind, readCharM_pure, bindRes_ok, scan_until, runL_ite]
  by_cases hc : (scanWhile (untilCond close) (untilCond_ok close) (readChar s) []).1.ch = close
  · simp only [if_pos hc, runL_bind, readCharM_pure, bindRes_ok, runL_pure]
  · simp only [if_neg hc, runL_pure]

theorem readUnicodeStringM_pure (f : Nat) (q : Nat) (s : LState) (h : s.measure < f) :
    runL (readUnicodeStringM f q s.m) s.rest =
      (.ok ((readUnicodeString q s).1, (readUnicodeString q s).2.m), (readUnicodeString q s).2.rest) := by
  simp (disch := assumption) only [readUnicodeStringM, readUnicodeString, runL_bind, bindRes_ok, readUntilM_pure,
    runL_pure, tokAtM_m]

theorem readUnicodeQuotedIdentifierM_pure (f : Nat) (q : Nat) (s : LState) (h : s.measure < f) :
    runL (readUnicodeQuotedIdentifierM f q s.m) s.rest =
      (.ok ((readUnicodeQuotedIdentifier q s).1, (readUnicodeQuotedIdentifier q s).2.m),
        (readUnicodeQuotedIdentifier q s).2.rest) := by
  simp (disch := assumption) only [readUnicodeQuotedIdentifierM, readUnicodeQuotedIdentifier, runL_bind, bindRes_ok,
    readUntilM_pure, runL_pure, tokAtM_m]

theorem readParameterM_pure (f : Nat) (s : LState) (h : s.measure < f) :
    runL (readParameterM f s.m) s.rest =
      (.ok ((readParameter s).1, (readParameter s).2.m), (readParameter s).2.rest) := by
  simp (disch := assumption) only [readParameterM, readParameter, runL_bind, bindRes_ok, readUntilM_pure,
    runL_pure, tokAtM_m]

theorem readDollarIdentifierM_pure (f : Nat) (s : LState) (h : s.measure < f) :
    runL (readDollarIdentifierM f s.m) s.rest =
      (.ok ((readDollarIdentifier s).1, (readDollarIdentifier s).2.m), (readDollarIdentifier s).2.rest) := by
  simp (disch := lex_fuel h) only [readDollarIdentifierM, readDollarIdentifier, runL_bind, readCharM_pure, bindRes_ok,
    scan_dollarIdent, runL_pure, tokAtM_m]

attribute [rd_pure] quotedLoopM_pure readStringM_pure readBacktickIdentifierM_pure hexStringLoopM_pure readHexStringM_pure binaryCollectM_pure quotedIdentLoopM_pure readQuotedIdentifierM_pure readUntilM_pure readUnicodeStringM_pure readUnicodeQuotedIdentifierM_pure readParameterM_pure readDollarIdentifierM_pure

end DC.LexerRd
