import DC.Proofs.LexerSpec

/-!
# `NextToken` as a plain function, progress, and the `Tokenize` loop
-/
namespace DC.Lexer
open DC.Utf8 DC.Gen.Tokens

theorem nextTokenE_eq (s : LState) : nextTokenE s = .ok (nextToken s) := by
  obtain ⟨r, hr, _⟩ := nextTokenE_spec s
  unfold nextToken
  rw [hr]

/-- `nextTokenE_spec` restated for the plain function. -/
theorem nextToken_spec (s : LState) :
    (((skipWhitespace s).eof = true ∨ (skipWhitespace s).ch = 0) ∧
        nextToken s = (tokAt (skipWhitespace s) tEOF [], skipWhitespace s))
    ∨ (((skipWhitespace s).eof = false ∧ (skipWhitespace s).ch ≠ 0) ∧ TokSpec (skipWhitespace s) (nextToken s)) := by
  obtain ⟨r, hr, h⟩ := nextTokenE_spec s
  have : nextToken s = r := by
    have := nextTokenE_eq s
    rw [hr] at this
    exact (Except.ok.inj this).symm
  rw [this]
  exact h

theorem nextToken_eof_iff (s : LState) :
    (nextToken s).1.kind = tEOF ↔ ((skipWhitespace s).eof = true ∨ (skipWhitespace s).ch = 0) := by
  cases nextToken_spec s with
  | inl h => rw [h.2]; exact ⟨fun _ => h.1, fun _ => rfl⟩
  | inr h =>
    constructor
    · intro hk; exact absurd hk h.2.1
    · intro hc
      cases hc with
      | inl he => rw [h.1.1] at he; cases he
      | inr hz => exact absurd hz h.1.2

theorem nextToken_eof_state {s : LState} (h : (nextToken s).1.kind = tEOF) :
    nextToken s = (tokAt (skipWhitespace s) tEOF [], skipWhitespace s) := by
  cases nextToken_spec s with
  | inl h1 => exact h1.2
  | inr h1 => exact absurd h h1.2.1

theorem skipWhitespace_idem (s : LState) : skipWhitespace (skipWhitespace s) = skipWhitespace s := by
  fun_induction skipWhitespace s with
  | case1 s h ih => exact ih
  | case2 s h => rw [skipWhitespace]; simp [h]

/-- once `NextToken` has answered EOF it keeps answering EOF (same token, same state). -/
theorem nextToken_eof_fix {s : LState} (h : (nextToken s).1.kind = tEOF) :
    nextToken (nextToken s).2 = nextToken s := by
  have hc := (nextToken_eof_iff s).1 h
  have hs := nextToken_eof_state h
  rw [hs]
  simp only []
  have hc' : (skipWhitespace (skipWhitespace s)).eof = true ∨ (skipWhitespace (skipWhitespace s)).ch = 0 := by
    rw [skipWhitespace_idem]; exact hc
  have h2 := nextToken_eof_state ((nextToken_eof_iff (skipWhitespace s)).2 hc')
  rw [h2, skipWhitespace_idem]

/-- the state after a token is reached by `readChar`s only. -/
theorem nextToken_steps (s : LState) : Steps s (nextToken s).2 := by
  cases nextToken_spec s with
  | inl h => rw [h.2]; exact skipWhitespace_steps (Steps.refl _)
  | inr h =>
    obtain ⟨_, A, hA, _, hA2, _⟩ := h.2
    exact (skipWhitespace_steps (Steps.refl _)).trans (hA.trans hA2)

/-- a non-EOF token consumes at least one rune: the measure drops by at least 2. -/
theorem nextToken_measure {s : LState} (h : (nextToken s).1.kind ≠ tEOF) :
    (nextToken s).2.measure + 2 ≤ s.measure := by
  cases nextToken_spec s with
  | inl h1 => rw [h1.2] at h; exact absurd rfl h
  | inr h1 =>
    obtain ⟨⟨he, _⟩, _, A, hA, _, hA2, hd, _⟩ := h1
    have hw : (skipWhitespace s).measure ≤ s.measure := skipWhitespace_measure_le s
    have : (nextToken s).2.measure + 2 ≤ (skipWhitespace s).measure := by
      cases hA.cases_head with
      | inl heq =>
        subst heq
        cases hd with
        | inl hAe => rw [he] at hAe; cases hAe
        | inr hst => exact hst.measure_add_two he
      | inr hst => exact (hst.trans hA2).measure_add_two he
    omega

/-- every token that is not a string literal carries the position of the first rune after the skipped
white space (string literals `x'..'`, `b'..'`, `$tag$..` capture the position after their prefix). -/
theorem nextToken_first_char {s : LState} (hk : (nextToken s).1.kind ≠ tEOF) (hs : (nextToken s).1.kind ≠ tSTRING) :
    tpos (nextToken s).1 = spos (skipWhitespace s) := by
  cases nextToken_spec s with
  | inl h1 => rw [h1.2] at hk; exact absurd rfl hk
  | inr h1 =>
    obtain ⟨_, _, A, _, hp, _, _, hA⟩ := h1
    cases hA with
    | inl h => rw [hp, h]
    | inr h => exact absurd h hs

/-! ## the `Tokenize` loop -/

/-- the token list produced from state `s` by calling `NextToken` until EOF. -/
inductive Trace : LState → List Tok → Prop
  | eof {s : LState} : (nextToken s).1.kind = tEOF → Trace s [(nextToken s).1]
  | cons {s : LState} {l : List Tok} :
      (nextToken s).1.kind ≠ tEOF → Trace (nextToken s).2 l → Trace s ((nextToken s).1 :: l)

theorem tokenizeLoop_spec :
    ∀ (fuel : Nat) (s : LState) (acc : List Tok), s.measure < fuel →
      ∃ l, tokenizeLoop fuel s acc = .ok (acc.reverse ++ l) ∧ Trace s l := by
  intro fuel
  induction fuel with
  | zero => intro s acc h; omega
  | succ fuel ih =>
    intro s acc h
    unfold tokenizeLoop
    rw [nextTokenE_eq]
    simp only []
    by_cases hk : (nextToken s).1.kind = tEOF
    · rw [if_pos hk]
      exact ⟨[(nextToken s).1], by simp, Trace.eof hk⟩
    · rw [if_neg hk]
      have hm := nextToken_measure hk
      obtain ⟨l, hl, ht⟩ := ih (nextToken s).2 ((nextToken s).1 :: acc) (by omega)
      exact ⟨(nextToken s).1 :: l, by rw [hl]; simp, Trace.cons hk ht⟩

theorem lexOutcome_trace (b : Bytes) : ∃ l, lexOutcome b = .ok l ∧ Trace (new b) l := by
  unfold lexOutcome
  obtain ⟨l, hl, ht⟩ := tokenizeLoop_spec ((new b).measure + 1) (new b) [] (by omega)
  exact ⟨l, by simpa using hl, ht⟩

theorem lexOutcome_eq (b : Bytes) : lexOutcome b = .ok (lex b) := by
  obtain ⟨l, hl, _⟩ := lexOutcome_trace b
  unfold lex
  rw [hl]

theorem lex_trace (b : Bytes) : Trace (new b) (lex b) := by
  obtain ⟨l, hl, ht⟩ := lexOutcome_trace b
  have := lexOutcome_eq b
  rw [hl] at this
  rw [← Except.ok.inj this]
  exact ht

/-- with enough fuel the loop satisfies the equation of the Go loop (one unfolding). -/
theorem tokenizeLoop_unfold (fuel : Nat) (s : LState) (acc : List Tok) :
    tokenizeLoop (fuel + 1) s acc =
      if (nextToken s).1.kind = tEOF then .ok ((nextToken s).1 :: acc).reverse
      else tokenizeLoop fuel (nextToken s).2 ((nextToken s).1 :: acc) := by
  rw [tokenizeLoop, nextTokenE_eq]

theorem Trace.ne_nil {s : LState} {l : List Tok} (h : Trace s l) : l ≠ [] := by
  cases h <;> simp

theorem Trace.eof_last {s : LState} {l : List Tok} (h : Trace s l) :
    l.getLast?.map (·.kind) = some tEOF ∧ ∀ t ∈ l.dropLast, t.kind ≠ tEOF := by
  induction h with
  | eof hk => simp [hk]
  | @cons s l hk ht ih =>
    obtain ⟨t', l', rfl⟩ := List.exists_cons_of_ne_nil ht.ne_nil
    constructor
    · rw [List.getLast?_cons_cons]; exact ih.1
    · intro t hm
      rw [List.dropLast_cons_cons] at hm
      cases List.mem_cons.1 hm with
      | inl h => rw [h]; exact hk
      | inr h => exact ih.2 t h

theorem Trace.length_le {s : LState} {l : List Tok} (h : Trace s l) : 2 * l.length ≤ s.measure + 2 := by
  induction h with
  | eof hk => simp
  | cons hk ht ih =>
    have := nextToken_measure hk
    simp only [List.length_cons]
    omega

theorem new_measure_le (b : Bytes) : (new b).measure ≤ 2 * b.length := by
  unfold new readChar LState.measure
  simp only []
  cases b with
  | nil => simp
  | cons a t =>
    have h1 := decodeRune_size_pos a t
    have h3 := decodeRune_size_le_length (a :: t)
    simp at h3 ⊢
    omega

end DC.Lexer
