import DC.Model.ExplainDDL

/-!
# count = emitted for the DDL printers (lemmas for `DC.Props.C04DDL`)

Every proof is a finite case analysis on the Boolean guards plus arithmetic on the `Nat` guards
(`List.replicate` for the `for … range` loops that print one node per element).
-/
namespace DC.Proofs.ExplainDDL
open DC.Model.ExplainSelect (bit seg pos length_seg)
open DC.Model.ExplainDDL

theorem bit_pos_small (n : Nat) (h : ¬ 1 < n) : bit (pos n) = n := by
  unfold bit pos
  rcases n with _ | _ | n
  · rfl
  · rfl
  · omega

theorem bit_pos_big (n : Nat) (h : 1 < n) : bit (pos n) = 1 := by
  unfold bit pos
  have : 0 < n := by omega
  simp [this]

/-! ## ALTER -/

theorem length_emitPartAll (c : AlterShape) : (emitPartAll c).length = bit c.partition := by
  unfold emitPartAll
  cases c.partition <;> cases c.partitionAll <;> rfl

theorem length_emitPartID (c : AlterShape) : (emitPartID c).length = bit c.partition := by
  unfold emitPartID
  cases c.partition <;> cases c.partitionIsID <;> cases c.partitionLit <;> rfl

theorem length_emitPartFull (c : AlterShape) : (emitPartFull c).length = bit c.partition := by
  unfold emitPartFull
  cases c.partition <;> cases c.partitionAll <;> cases c.partitionIsID <;> cases c.partitionLit <;>
    cases c.isPart <;> rfl

theorem length_emitPartUpdate (c : AlterShape) : (emitPartUpdate c).length = bit c.partition := by
  unfold emitPartUpdate
  cases c.partition <;> cases c.partitionAll <;> cases c.partitionIsID <;> cases c.partitionLit <;> rfl

theorem length_modifyOrderBy (n : Nat) :
    (if decide (1 < n) then ["Function"] else List.replicate n "*").length = bit (pos n) := by
  by_cases h : 1 < n
  · simp [h, bit_pos_big n h]
  · simp [h, bit_pos_small n h]

/-- per arm: `countAlterCommandChildren` = number of nodes `explainAlterCommand` prints -/
theorem count_eq_emit_alterK (k : AlterKind) (c : AlterShape) (h : WfAlterK k c = true) :
    countAlterK k c = (emitAlterK k c).length := by
  cases k <;>
    simp only [countAlterK, emitAlterK, List.length_append, length_seg, List.length_cons, List.length_nil,
      length_emitPartAll, length_emitPartID, length_emitPartFull, length_emitPartUpdate,
      length_modifyOrderBy] <;>
    try omega
  -- addColumn: Settings / ResetSettings are counted but not printed
  · simp only [WfAlterK, Bool.and_eq_true, Bool.not_eq_true'] at h
    simp [h.1, h.2, bit]
  -- addIndex
  · cases c.indexDef <;> cases c.indexDefExpr <;> cases c.indexDefType <;> cases c.index <;>
      cases c.afterIndex <;> rfl
  -- addConstraint
  · cases c.constraint <;> cases c.constraintExpr <;> rfl
  -- modifyTTL
  · simp only [WfAlterK] at h
    revert h
    cases c.ttl <;> cases pos c.ttlElementsN <;> cases c.ttlExpr <;> decide
  -- the five statistics arms: `Stat` is printed unconditionally
  · simp only [WfAlterK] at h; simp [h, bit]
  · simp only [WfAlterK] at h; simp [h, bit]
  · simp only [WfAlterK] at h; simp [h, bit]
  · simp only [WfAlterK] at h; simp [h, bit]
  · simp only [WfAlterK] at h; simp [h, bit]

theorem count_eq_emit_alter (c : AlterShape) (h : WfAlter c = true) :
    countAlter c = (emitAlter c).length :=
  count_eq_emit_alterK c.kind c h

/-- … and conversely: where the invariant fails the count is wrong (`WfAlter` is exactly the condition) -/
theorem wf_of_count_eq_emit_alterK (k : AlterKind) (c : AlterShape)
    (h : countAlterK k c = (emitAlterK k c).length) : WfAlterK k c = true := by
  cases k <;> try rfl
  -- addColumn
  · simp only [countAlterK, emitAlterK, List.length_append, length_seg] at h
    simp only [WfAlterK]
    generalize pos c.settingsN = a at *
    generalize pos c.resetN = b at *
    revert h
    cases a <;> cases b <;> simp [bit] <;> omega
  -- modifyTTL
  · simp only [countAlterK, emitAlterK] at h
    simp only [WfAlterK]
    generalize pos c.ttlElementsN = e at *
    revert h
    cases c.ttl <;> cases e <;> cases c.ttlExpr <;> decide
  -- statistics
  all_goals
    simp only [countAlterK, emitAlterK, List.length_cons, List.length_nil] at h
    simp only [WfAlterK]
    revert h
    generalize pos c.statColsN = a
    try generalize pos c.statTypesN = b
    first
      | (cases a <;> cases b <;> decide)
      | (cases a <;> decide)

theorem count_eq_emit_alter_iff (c : AlterShape) :
    countAlter c = (emitAlter c).length ↔ WfAlter c = true :=
  ⟨wf_of_count_eq_emit_alterK c.kind c, count_eq_emit_alter c⟩

theorem count_eq_emit_stat (c : AlterShape) : countStat c = (emitStat c).length := by
  simp only [countStat, emitStat, List.length_append, length_seg]

theorem count_eq_emit_proj (p : ProjShape) : countProj p = (emitProj p).length := by
  simp only [countProj, emitProj, length_seg]

theorem count_eq_emit_projsel (p : ProjShape) : countProjSel p = (emitProjSel p).length := by
  have ho : (if pos p.orderByN then (if p.orderByN == 1 then ["*"] else ["Function"]) else ([] : List String)).length
      = bit (pos p.orderByN) := by
    cases pos p.orderByN <;> cases (p.orderByN == 1) <;> rfl
  simp only [countProjSel, emitProjSel, List.length_append, length_seg, ho]
  omega

/-! ## ColumnDeclaration, Index -/

theorem count_eq_emit_col (c : ColShape) : countCol c = (emitCol c).length := by
  have hd : (if c.default_ then ["*"] else if c.hasEphemeralDefault then ["Function"] else ([] : List String)).length
      = bit (c.default_ || c.hasEphemeralDefault) := by
    cases c.default_ <;> cases c.hasEphemeralDefault <;> rfl
  simp only [countCol, emitCol, List.length_append, length_seg, hd]
  omega

theorem count_eq_emit_idx (i : IdxShape) : countIdx i = (emitIdx i).length := by
  have he : (if i.expr then (if i.exprIsIdent then ["Identifier"] else ["*"]) else ([] : List String)).length
      = bit i.expr := by
    cases i.expr <;> cases i.exprIsIdent <;> rfl
  simp only [countIdx, emitIdx, List.length_append, length_seg, he]

/-! ## CreateQuery -/

theorem length_nameIdents (n : CreateShape) :
    (if n.createDatabase then ["Identifier"]
     else if n.hasDatabase then ["Identifier", "Identifier"] else ["Identifier"]).length
      = 1 + bit n.hasDatabase := by
  unfold CreateShape.hasDatabase
  cases n.createDatabase <;> cases n.database <;> cases n.table <;> cases n.view <;> rfl

theorem length_storageSlot (n : CreateShape) :
    (if n.hasStorage then (if n.materialized then ["ViewTargets"] else ["Storage"])
     else seg (n.materialized && n.to) "ViewTargets").length
      = bit n.hasStorage + bit (n.materialized && n.to && !n.hasStorage) := by
  cases n.hasStorage <;> cases n.materialized <;> cases n.to <;> rfl

theorem asSelect_once (m w a : Bool) (h : (!(m && w && a)) = true) :
    bit (m && a) + bit (w && a) + bit (a && !m && !w) = bit a := by
  revert h
  cases m <;> cases w <;> cases a <;> decide

theorem count_eq_emit_createMain (n : CreateShape)
    (h : (!(n.materialized && n.windowView && n.asSelect)) = true) :
    countCreateMain n = (emitCreateMain n).length := by
  have ha := asSelect_once n.materialized n.windowView n.asSelect h
  simp only [countCreateMain, emitCreateMain, List.length_append, length_seg, length_nameIdents,
    length_storageSlot]
  omega

theorem length_replicate_auth (k : Nat) : (List.replicate k "AuthenticationData").length = k := by simp

theorem count_eq_emit_create (n : CreateShape) (h : WfCreate n = true) :
    countCreate n = (emitCreate n).length := by
  unfold countCreate emitCreate
  unfold WfCreate at h
  by_cases hf : n.createFunction = true
  · simp only [hf, if_true] at h ⊢
    simp [h, seg]
  · have hf' : n.createFunction = false := by simpa using hf
    simp only [hf', Bool.false_eq_true, if_false] at h ⊢
    by_cases hu : n.userLike = true
    · simp only [hu, if_true]
      cases n.hasAuth <;> cases pos n.authValuesN <;> cases pos n.sshKeyCount <;> simp
    · have hu' : n.userLike = false := by simpa using hu
      simp only [hu', Bool.false_eq_true, if_false] at h ⊢
      by_cases hd : n.createDictionary = true
      · simp only [hd, if_true]
        simp only [List.length_append, length_seg, List.length_cons, List.length_nil]
        omega
      · have hd' : n.createDictionary = false := by simpa using hd
        simp only [hd', Bool.false_eq_true, if_false] at h ⊢
        exact count_eq_emit_createMain n h

theorem wf_of_count_eq_emit_create (n : CreateShape) (h : countCreate n = (emitCreate n).length) :
    WfCreate n = true := by
  unfold countCreate emitCreate at h
  unfold WfCreate
  by_cases hf : n.createFunction = true
  · simp only [hf, if_true] at h ⊢
    revert h
    cases n.functionBody <;> simp [seg]
  · have hf' : n.createFunction = false := by simpa using hf
    simp only [hf', Bool.false_eq_true, if_false] at h ⊢
    by_cases hu : n.userLike = true
    · simp [hu]
    · have hu' : n.userLike = false := by simpa using hu
      simp only [hu', Bool.false_eq_true, if_false] at h ⊢
      by_cases hd : n.createDictionary = true
      · simp [hd]
      · have hd' : n.createDictionary = false := by simpa using hd
        simp only [hd', Bool.false_eq_true, if_false] at h ⊢
        simp only [countCreateMain, emitCreateMain, List.length_append, length_seg, length_nameIdents,
          length_storageSlot] at h
        revert h
        cases n.materialized <;> cases n.windowView <;> cases n.asSelect <;> simp [bit] <;> omega

theorem count_eq_emit_create_iff (n : CreateShape) :
    countCreate n = (emitCreate n).length ↔ WfCreate n = true :=
  ⟨wf_of_count_eq_emit_create n, count_eq_emit_create n⟩

theorem count_eq_emit_colsdef (n : CreateShape) : countColsDef n = (emitColsDef n).length := by
  have hp : (if pos n.columnsPKN || n.hasEmptyColumnsPK then
        (if n.hasEmptyColumnsPK then ["Function"]
         else if decide (1 < n.columnsPKN) then ["Function"] else List.replicate n.columnsPKN "*")
      else ([] : List String)).length = bit (pos n.columnsPKN || n.hasEmptyColumnsPK) := by
    by_cases he : n.hasEmptyColumnsPK = true
    · simp [he, bit]
    · have he' : n.hasEmptyColumnsPK = false := by simpa using he
      by_cases h1 : 1 < n.columnsPKN
      · have hp : pos n.columnsPKN = true := by unfold pos; simp; omega
        simp [he', h1, hp, bit]
      · have := bit_pos_small n.columnsPKN h1
        rcases hn : n.columnsPKN with _ | _ | k
        · simp [he', pos, bit]
        · simp [he', pos, bit]
        · omega
  simp only [countColsDef, emitColsDef, List.length_append, length_seg, hp]

theorem length_emitPK (n : CreateShape) : (emitPK n).length = bit (pos n.primaryKeyN) := by
  unfold emitPK
  cases pos n.primaryKeyN <;> cases (n.primaryKeyN == 1) <;> cases n.pk0Ident <;> cases n.pk0Tuple <;> rfl

theorem length_emitOB (n : CreateShape) : (emitOB n).length = bit (pos n.orderByN) := by
  unfold emitOB
  cases pos n.orderByN <;> cases (n.orderByN == 1) <;> cases n.ob0Ident <;> cases n.ob0Tuple <;>
    cases n.orderByHasModifiers <;> rfl

theorem count_eq_emit_storage (n : CreateShape) : countStorage n = (emitStorage n).length := by
  have hp : (if n.partitionBy then (if n.partIdent then ["Identifier"] else ["*"]) else ([] : List String)).length
      = bit n.partitionBy := by
    cases n.partitionBy <;> cases n.partIdent <;> rfl
  simp only [countStorage, emitStorage, List.length_append, length_seg, hp, length_emitPK, length_emitOB]
  omega

theorem count_eq_emit_innerstorage (n : CreateShape) :
    countInnerStorage n = (emitInnerStorage n).length := by
  have ho : (if pos n.orderByN then
        (if n.orderByN == 1 then (if n.ob0Ident then ["Identifier"] else ["*"]) else ["Function"])
      else ([] : List String)).length = bit (pos n.orderByN) := by
    cases pos n.orderByN <;> cases (n.orderByN == 1) <;> cases n.ob0Ident <;> rfl
  simp only [countInnerStorage, emitInnerStorage, List.length_append, List.length_cons, List.length_nil, ho]

end DC.Proofs.ExplainDDL
