import DC.Model.ExplainExpr
import DC.Spec.Embed

/-!
# Forests of items

`Forest its d n`: the item list `its` is the rendering, at depth `d`, of `n` trees one after the other — every
item that prints a count `(children k)` is followed by exactly `k` subtrees one level deeper, an item without a
count by none.  This is the count/emit invariant of C04 on structured lines; `Forest.trees` turns it into the
`Tree` / `render` vocabulary of the verified monitor (DC.Spec.Tree).
-/
namespace DC.Proofs.ExplainExpr
open DC DC.Spec.Tree DC.Model.ExplainExpr

inductive Forest : List Item → Nat → Nat → Prop
  | nil (d : Nat) : Forest [] d 0
  | node (d : Nat) (kind : Kind) (rest : Option Bytes) (k : Nat) (kids tail : List Item) (n : Nat) :
      Forest kids (d + 1) k → Forest tail d n → Forest (⟨d, kind, rest, some k⟩ :: (kids ++ tail)) d (n + 1)
  | leaf (d : Nat) (kind : Kind) (rest : Option Bytes) (tail : List Item) (n : Nat) :
      Forest tail d n → Forest (⟨d, kind, rest, none⟩ :: tail) d (n + 1)

theorem Forest.append {a b : List Item} {d n m : Nat} (ha : Forest a d n) (hb : Forest b d m) :
    Forest (a ++ b) d (n + m) := by
  induction ha with
  | nil d => simpa using hb
  | node d kind rest k kids tail n hk ht _ iht =>
    have := Forest.node d kind rest k kids (tail ++ b) (n + m) hk (iht hb)
    simpa [List.append_assoc, Nat.add_right_comm] using this
  | leaf d kind rest tail n ht iht =>
    have := Forest.leaf d kind rest (tail ++ b) (n + m) (iht hb)
    simpa [Nat.add_right_comm] using this

theorem Forest.zero_nil {a : List Item} {d : Nat} (h : Forest a d 0) : a = [] := by
  cases h; rfl

/-- a counted item followed by its `k` subtrees is one tree -/
theorem Forest.counted {kids : List Item} {d k : Nat} (kind : Kind) (rest : Option Bytes)
    (h : Forest kids (d + 1) k) : Forest (⟨d, kind, rest, some k⟩ :: kids) d 1 := by
  have := Forest.node d kind rest k kids [] 0 h (Forest.nil d)
  simpa using this

theorem Forest.single (d : Nat) (kind : Kind) (rest : Option Bytes) : Forest [⟨d, kind, rest, none⟩] d 1 :=
  Forest.leaf d kind rest [] 0 (Forest.nil d)

theorem Forest.fn {kids : List Item} {d : Nat} (name : Bytes) (al : Option Bytes)
    (h : Forest kids (d + 1) 1) : Forest (fnItem d name al 1 :: kids) d 1 :=
  Forest.counted _ _ h

theorem Forest.fnN {kids : List Item} {d n : Nat} (name : Bytes) (al : Option Bytes)
    (h : Forest kids (d + 1) n) : Forest (fnItem d name al n :: kids) d 1 :=
  Forest.counted _ _ h

theorem Forest.el {kids : List Item} {d n : Nat} (h : Forest kids (d + 1) n) : Forest (elItem d n :: kids) d 1 :=
  Forest.counted _ _ h

theorem Forest.elBare (d : Nat) : Forest [elBare d] d 1 := Forest.single _ _ _

theorem Forest.elMaybe {kids : List Item} {d n : Nat} (h : Forest kids (d + 1) n) :
    Forest (elMaybe d n :: kids) d 1 := by
  unfold DC.Model.ExplainExpr.elMaybe
  split
  · exact Forest.el h
  · have hn : n = 0 := by omega
    subst hn
    rw [Forest.zero_nil h]
    exact Forest.elBare d

theorem Forest.lit (d : Nat) (t : Bytes) (al : Option Bytes) : Forest [litItem d t al] d 1 := Forest.single _ _ _
theorem Forest.ident (d : Nat) (t : Bytes) (al : Option Bytes) : Forest [identItem d t al] d 1 := Forest.single _ _ _
theorem Forest.unsup (d : Nat) (w : String) : Forest [unsup d w] d 1 := Forest.single _ _ _

theorem Forest.cast {a : List Item} {d n m : Nat} (h : Forest a d n) (e : n = m) : Forest a d m := e ▸ h

/-! ## from forests to trees -/

/-- the tree of an item with its children -/
def mkTree (i : Item) (kids : List Tree) : Tree := .node i.label i.cnt.isSome kids

mutual
/-- shape part of `Tree.good`: a node printed without a count has no children -/
def shapeOk : Tree → Bool
  | .node _ c ks => (c || ks.isEmpty) && shapeOkList ks
def shapeOkList : List Tree → Bool
  | [] => true
  | t :: ts => shapeOk t && shapeOkList ts
end

theorem renderList_append' (a c : List Tree) (d : Nat) :
    renderList (a ++ c) d = renderList a d ++ renderList c d := by
  induction a with
  | nil => rfl
  | cons t a ih => simp [renderList, ih, List.append_assoc]

theorem shapeOkList_append (a c : List Tree) : shapeOkList (a ++ c) = (shapeOkList a && shapeOkList c) := by
  induction a with
  | nil => rfl
  | cons t a ih => simp [shapeOkList, ih, Bool.and_assoc]

mutual
/-- the labels of the nodes of a tree that carry no count -/
def bareOf : Tree → List Bytes
  | .node l c ks => (if c then [] else [l]) ++ bareOfList ks
def bareOfList : List Tree → List Bytes
  | [] => []
  | t :: ts => bareOf t ++ bareOfList ts
end

theorem bareOfList_append (a c : List Tree) : bareOfList (a ++ c) = bareOfList a ++ bareOfList c := by
  induction a with
  | nil => rfl
  | cons t a ih => simp [bareOfList, ih, List.append_assoc]

theorem bareLabels_append (a c : List Item) : bareLabels (a ++ c) = bareLabels a ++ bareLabels c := by
  simp [bareLabels]

/-- **forest ⇒ trees**: the lines are the rendering of `n` trees whose printed counts are their numbers of children -/
theorem Forest.trees {its : List Item} {d n : Nat} (h : Forest its d n) :
    ∃ ts : List Tree, its.map Item.toLine = renderList ts d ∧ ts.length = n ∧ shapeOkList ts = true ∧
      bareOfList ts = bareLabels its := by
  induction h with
  | nil d => exact ⟨[], rfl, rfl, rfl, rfl⟩
  | node d kind rest k kids tail n _ _ ihk iht =>
    obtain ⟨ks, hk1, hk2, hk3, hk4⟩ := ihk
    obtain ⟨ts, ht1, ht2, ht3, ht4⟩ := iht
    refine ⟨.node (Item.label ⟨d, kind, rest, some k⟩) true ks :: ts, ?_, by simp [ht2], ?_, ?_⟩
    · simp only [List.map_cons, List.map_append, renderList, render, hk1, ht1, Item.toLine, hk2,
        Option.isSome_some, Option.getD_some, List.cons_append]
    · simp [shapeOkList, shapeOk, hk3, ht3]
    · simp only [bareOfList, bareOf, ↓reduceIte, List.nil_append, hk4, ht4]
      simp [bareLabels]
  | leaf d kind rest tail n _ iht =>
    obtain ⟨ts, ht1, ht2, ht3, ht4⟩ := iht
    refine ⟨.node (Item.label ⟨d, kind, rest, none⟩) false [] :: ts, ?_, by simp [ht2], ?_, ?_⟩
    · simp [renderList, render, ht1, Item.toLine]
    · simp [shapeOkList, shapeOk, ht3]
    · simp only [bareOfList, bareOf, Bool.false_eq_true, ↓reduceIte, ht4]
      simp [bareLabels]

end DC.Proofs.ExplainExpr

namespace DC.Proofs.ExplainExpr
open DC DC.Spec.Tree DC.Model.ExplainExpr

/-- every label starts with the kind word: it is not empty and does not start with a space -/
theorem Item.label_ok (i : Item) : (!i.label.isEmpty && i.label.head? != some sp) = true := by
  obtain ⟨d, k, r, c⟩ := i
  cases k <;> cases r <;> simp [Item.label, restText, Kind.word, b, sp]

/-- **forest ⇒ good trees**: if no label printed without a count looks like a count suffix, the lines are the rendering
of `n` trees that the verified monitor's specification calls good. -/
theorem Forest.good_trees {its : List Item} {d n : Nat} (h : Forest its d n)
    (hp : ∀ l ∈ bareLabels its, noFake l = true) :
    ∃ ts : List Tree, its.map Item.toLine = renderList ts d ∧ ts.length = n ∧ goodList ts = true := by
  induction h with
  | nil d => exact ⟨[], rfl, rfl, rfl⟩
  | node d kind rest k kids tail n _ _ ihk iht =>
    have hk' : ∀ l ∈ bareLabels kids, noFake l = true := by
      intro l hl; apply hp
      simp only [bareLabels, List.filter_cons, Option.isNone_some, Bool.false_eq_true, ↓reduceIte, List.filter_append,
        List.map_append, List.mem_append]
      exact Or.inl hl
    have ht' : ∀ l ∈ bareLabels tail, noFake l = true := by
      intro l hl; apply hp
      simp only [bareLabels, List.filter_cons, Option.isNone_some, Bool.false_eq_true, ↓reduceIte, List.filter_append,
        List.map_append, List.mem_append]
      exact Or.inr hl
    obtain ⟨ks, hk1, hk2, hk3⟩ := ihk hk'
    obtain ⟨ts, ht1, ht2, ht3⟩ := iht ht'
    refine ⟨.node (Item.label ⟨d, kind, rest, some k⟩) true ks :: ts, ?_, by simp [ht2], ?_⟩
    · simp only [List.map_cons, List.map_append, renderList, render, hk1, ht1, Item.toLine, hk2,
        Option.isSome_some, Option.getD_some, List.cons_append]
    · have := Item.label_ok ⟨d, kind, rest, some k⟩
      simp only [goodList, Tree.good, nodeGood, this, Bool.true_or, Bool.and_true, hk3, ht3]
  | leaf d kind rest tail n _ iht =>
    have ht' : ∀ l ∈ bareLabels tail, noFake l = true := by
      intro l hl; apply hp
      simp only [bareLabels, List.filter_cons, Option.isNone_none, ↓reduceIte, List.map_cons, List.mem_cons]
      exact Or.inr hl
    have hl : noFake (Item.label ⟨d, kind, rest, none⟩) = true := by
      apply hp
      simp [bareLabels]
    obtain ⟨ts, ht1, ht2, ht3⟩ := iht ht'
    refine ⟨.node (Item.label ⟨d, kind, rest, none⟩) false [] :: ts, ?_, by simp [ht2], ?_⟩
    · simp [renderList, render, ht1, Item.toLine]
    · have := Item.label_ok ⟨d, kind, rest, none⟩
      simp only [noFake] at hl
      simp only [goodList, Tree.good, nodeGood, this, Bool.false_or, List.isEmpty_nil, hl, Bool.and_self, ht3]

end DC.Proofs.ExplainExpr
