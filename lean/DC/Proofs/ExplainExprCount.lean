import DC.Proofs.ExplainExprForest

/-!
# Count = emit on the expression core

`items_forest`: for every expression of the core, in every mode, `items m al e d` is a forest of `opCount m e` trees at
depth `d` (one tree when the node is printed by `Node`): every printed `(children N)` is followed by exactly `N`
subtrees.  By structural induction over `Expr` (mutually with argument lists, WHEN lists and IN-list tuples).

No hypothesis on the expression: since /repo 4cea596b8 ("count the children of an aliased IN with an empty list the way
they are printed") the one shape on which count and emission differed is repaired; `DC/Props/C04Expr.lean` keeps the
replay of the defect (`old_aliased_empty_in_miscounts`).
-/
namespace DC.Proofs.ExplainExpr
open DC DC.Spec.Tree DC.Model.ExplainExpr

theorem opCount_node (e : Expr) : opCount .node e = 1 := by
  cases e <;> simp [opCount, Mode.flat]

theorem binaryCount_eq (op : String) (l r : Expr) :
    binaryCount op l r = opCount (modeFor op) l + opCount (modeFor op) r := by
  unfold binaryCount
  split
  · rename_i h; rw [h, opCount_node, opCount_node]
  · rfl

/-! ### IN lists: the "all strings" arm of the count is dead for lists of two or more -/

theorem inFold_strings (wa : Bool) : ∀ (list : List Expr) (f : InFlags), list.all isStringLit = true → f.prims = true →
    (inFold wa f list).prims = true ∧ (list ≠ [] → (inFold wa f list).hasNonNull = true) ∧
      (f.hasNonNull = true → (inFold wa f list).hasNonNull = true)
  | [], f, _, hp => ⟨hp, fun h => absurd rfl h, fun h => h⟩
  | e :: es, f, hs, hp => by
    simp only [List.all_cons, Bool.and_eq_true] at hs
    obtain ⟨he, hes⟩ := hs
    cases e with
    | lit v p n =>
      cases v with
      | str s g =>
        have ih := inFold_strings wa es
          { f with allNull := false, hasNonNull := true, numeric := f.numeric && (Scalar.str s g).isNumeric,
                   strings := f.strings && true, booleans := f.booleans && false, tuples := false }
          hes hp
        simp only [inFold, inStep, Bool.false_eq_true, ↓reduceIte]
        exact ⟨ih.1, fun _ => ih.2.2 rfl, fun _ => ih.2.2 rfl⟩
      | _ => simp [isStringLit] at he
    | _ => simp [isStringLit] at he

theorem allStrings_canBe (wa : Bool) (list : List Expr) (hl : list.length > 1)
    (hs : allStringLiterals list = true) : canBeTupleLiteral wa list = true := by
  simp only [allStringLiterals, Bool.and_eq_true] at hs
  have h := inFold_strings wa list {} hs.2 rfl
  have hne : list ≠ [] := by intro hc; subst hc; simp at hl
  simp only [canBeTupleLiteral, hl, ↓reduceIte, h.1, h.2.1 hne, Bool.or_true, Bool.and_true]

/-! ### the induction -/

theorem inArgCount_single (wa tc : Bool) (x : Expr) : inArgCount wa [x] tc = 2 := by
  have hc : canBeTupleLiteral wa [x] = false := by simp [canBeTupleLiteral]
  cases x <;> cases tc <;> simp [inArgCount, inSingleCount, hc]

theorem params_forest (d : Nat) : ∀ (params : List Bytes),
    Forest (params.map (fun p => identItem d p none)) d params.length
  | [] => Forest.nil _
  | p :: ps => by
    have := (Forest.ident d p none).append (params_forest d ps)
    simpa [Nat.add_comm] using this

mutual
theorem items_forest : ∀ (m : Mode) (al : Option Bytes) (e : Expr) (d : Nat),
    Forest (items m al e d) d (opCount m e)
  | m, al, .ident parts alias, d => by
    simp only [items, opCount]
    cases al <;> exact Forest.ident _ _ _
  | m, al, .lit v p n, d => by
    simp only [items, opCount]
    exact Forest.lit _ _ _
  | m, al, .arr es p, d => by
    have ih := fun d => itemsList_forest es d
    simp only [items, opCount]
    cases al with
    | none =>
      simp only
      split
      · exact Forest.fn _ _ (Forest.elBare _)
      · split
        · exact Forest.fn _ _ (Forest.el (ih _))
        · split
          · exact Forest.lit _ _ _
          · exact Forest.unsup _ _
    | some a =>
      simp only
      split
      · exact Forest.fn _ _ (Forest.elMaybe (ih _))
      · split
        · exact Forest.lit _ _ _
        · exact Forest.unsup _ _
  | m, al, .tup es p, d => by
    have ih := fun d => itemsList_forest es d
    simp only [items, opCount]
    cases al with
    | none =>
      simp only
      split
      · exact Forest.fn _ _ (Forest.elBare _)
      · split
        · exact Forest.fn _ _ (Forest.el (ih _))
        · split
          · exact Forest.lit _ _ _
          · exact Forest.unsup _ _
    | some a =>
      simp only
      split
      · exact Forest.fn _ _ (Forest.elMaybe (ih _))
      · split
        · exact Forest.lit _ _ _
        · exact Forest.unsup _ _
  | m, al, .func name args params distinct alias, d => by
    cases params with
    | none =>
      have iha := fun d => itemsList_forest args d
      simp only [items, opCount]
      split
      · exact Forest.unsup _ _
      · simp only [List.append_nil, Nat.add_zero]
        exact Forest.fn _ _ (Forest.elMaybe (iha _))
    | some ps =>
      have iha := fun d => itemsList_forest args d
      have ihp := fun d => itemsList_forest ps d
      simp only [items, opCount]
      split
      · exact Forest.unsup _ _
      · refine Forest.fnN _ _ ?_
        have h1 := Forest.elMaybe (d := d + 1) (iha (d + 2))
        have h2 := Forest.elMaybe (d := d + 1) (ihp (d + 2))
        exact (h1.append h2)
  | m, al, .binary op l r p, d => by
    simp only [items, opCount]
    by_cases hf : m.flat op p = true
    · simp only [hf, ↓reduceIte]
      exact (items_forest m none l d).append (items_forest m none r d)
    · simp only [hf, Bool.false_eq_true, ↓reduceIte]
      split
      · exact Forest.unsup _ _
      · refine Forest.fn _ _ (Forest.el ?_)
        rw [binaryCount_eq]
        exact (items_forest (modeFor op) none l (d + 2)).append
          (items_forest (modeFor op) none r (d + 2))
  | m, al, .unary op e, d => by
    simp only [items, opCount]
    split
    · exact Forest.lit _ _ _
    · exact Forest.unsup _ _
    · split
      · exact Forest.unsup _ _
      · have := items_forest .node none e (d + 2)
        rw [opCount_node] at this
        exact Forest.fn _ _ (Forest.el this)
  | m, al, .arrayAccess a i, d => by
    simp only [items, opCount]
    have h1 := items_forest .node none a (d + 2)
    have h2 := items_forest .node none i (d + 2)
    rw [opCount_node] at h1 h2
    exact Forest.fn _ _ (Forest.el (h1.append h2))
  | m, al, .tupleAccess t i, d => by
    simp only [items, opCount]
    have h1 := items_forest .node none t (d + 2)
    have h2 := items_forest .node none i (d + 2)
    rw [opCount_node] at h1 h2
    exact Forest.fn _ _ (Forest.el (h1.append h2))
  | m, al, .isNull e not, d => by
    simp only [items, opCount]
    have h1 := items_forest .node none e (d + 2)
    rw [opCount_node] at h1
    exact Forest.fn _ _ (Forest.el h1)
  | m, al, .between e lo hi not, d => by
    simp only [items, opCount]
    have he := items_forest .node none e (d + 4)
    have hlo := items_forest .node none lo (d + 4)
    have hhi := items_forest .node none hi (d + 4)
    rw [opCount_node] at he hlo hhi
    have t1 := Forest.fn (d := d + 2) (if not then b "less" else b "greaterOrEquals") none (Forest.el (he.append hlo))
    have t2 := Forest.fn (d := d + 2) (if not then b "greater" else b "lessOrEquals") none (Forest.el (he.append hhi))
    exact Forest.fn _ _ (Forest.el (t1.append t2))
  | m, al, .inList e [] not global tc, d => by
    have he := items_forest .node none e (d + 2)
    rw [opCount_node] at he
    simp only [items, opCount]
    have hc : canBeTupleLiteral al.isSome [] = false := by simp [canBeTupleLiteral]
    have hn : inArgCount al.isSome [] tc = 2 := by simp [inArgCount, hc, allStringLiterals]
    simp only [hc, hn, Bool.false_eq_true, ↓reduceIte, List.length_nil, List.all_nil, tuplesInInList]
    have t1 : Forest [fnItem (d + 2) (b "tuple") none 1, elItem (d + 3) 0] (d + 2) 1 :=
      Forest.fn _ _ (Forest.el (Forest.nil _))
    exact Forest.fn _ _ (Forest.el (he.append t1))
  | m, al, .inList e [x] not global tc, d => by
    have he := items_forest .node none e (d + 2)
    rw [opCount_node] at he
    have hc : canBeTupleLiteral al.isSome [x] = false := by simp [canBeTupleLiteral]
    have hx2 := items_forest .node none x (d + 2)
    have hx4 := items_forest .node none x (d + 4)
    rw [opCount_node] at hx2 hx4
    have ht := tupleInInList_forest x (d + 2)
    have hel : ∀ elems p, x = .tup elems p → Forest (tupleElems x (d + 4)) (d + 4) elems.length := by
      intro elems p hx
      subst hx
      simpa [tupleElems] using itemsList_forest elems (d + 4)
    have hn := inArgCount_single al.isSome tc x
    simp only [items, opCount, hc, hn, Bool.false_eq_true, ↓reduceIte]
    refine Forest.fn _ _ (Forest.el (n := 1 + 1) (he.append ?_))
    unfold inSingle
    split
    · split
      · exact ht
      · refine Forest.fn _ _ ?_
        split
        · exact Forest.elMaybe (hel _ _ rfl)
        · exact Forest.el hx4
    · split
      · exact Forest.fn _ _ (Forest.el hx4)
      · exact hx2
  | m, al, .inList e (x :: y :: rest) not global tc, d => by
    have he := items_forest .node none e (d + 2)
    rw [opCount_node] at he
    simp only [items, opCount]
    refine Forest.fn _ _ ?_
    by_cases hc : canBeTupleLiteral al.isSome (x :: y :: rest) = true
    · have hn : inArgCount al.isSome (x :: y :: rest) tc = 2 := by simp [inArgCount, hc]
      simp only [hc, hn, ↓reduceIte]
      split
      · exact Forest.el (he.append (Forest.lit _ _ _))
      · exact Forest.el (he.append (Forest.unsup _ _))
    · have hs : (al.isSome && allStringLiterals (x :: y :: rest)) = false := by
        cases hw : al.isSome with
        | false => rfl
        | true =>
          cases hs : allStringLiterals (x :: y :: rest) with
          | false => rfl
          | true =>
            have := allStrings_canBe al.isSome (x :: y :: rest) (by simp) hs
            exact absurd this hc
      have hn : inArgCount al.isSome (x :: y :: rest) tc = 2 := by
        simp [inArgCount, hc, hs]
      simp only [hc, hn, Bool.false_eq_true, ↓reduceIte]
      have t : Forest (fnItem (d + 2) (b "tuple") none 1 :: elItem (d + 3) (x :: y :: rest).length ::
          (if (x :: y :: rest).all Expr.isTup = true then tuplesInInList (x :: y :: rest) (d + 4)
           else itemsList (x :: y :: rest) (d + 4))) (d + 2) 1 := by
        refine Forest.fn _ _ (Forest.el ?_)
        split
        · exact tuplesInInList_forest _ _
        · exact itemsList_forest _ _
      exact Forest.el (he.append t)
  | m, al, .case_ operand whens els alias, d => by
    cases operand with
    | none =>
      cases els with
      | none =>
        have hw := itemsWhens_forest whens (d + 2)
        simp only [items, opCount]
        exact Forest.fn _ _ (Forest.el (hw.append (Forest.lit _ _ _)))
      | some x =>
        have hw := itemsWhens_forest whens (d + 2)
        have hx := items_forest .node none x (d + 2)
        rw [opCount_node] at hx
        simp only [items, opCount]
        exact Forest.fn _ _ (Forest.el (hw.append hx))
    | some o =>
      cases els with
      | none =>
        have hw := itemsWhens_forest whens (d + 2)
        have ho := items_forest .node none o (d + 2)
        rw [opCount_node] at ho
        simp only [items, opCount]
        refine Forest.fn _ _ (Forest.el ?_)
        exact (ho.append hw).append (Forest.lit (d + 2) (b "NULL") none)
      | some x =>
        have hw := itemsWhens_forest whens (d + 2)
        have ho := items_forest .node none o (d + 2)
        have hx := items_forest .node none x (d + 2)
        rw [opCount_node] at ho hx
        simp only [items, opCount]
        refine Forest.fn _ _ (Forest.el ?_)
        exact (ho.append hw).append hx
  | m, al, .cast e ty opSyntax alias, d => by
    have he := items_forest .node none e (d + 2)
    rw [opCount_node] at he
    simp only [items, opCount]
    refine Forest.fn _ _ (Forest.el ?_)
    have h1 : Forest (if opSyntax = true then
        (match castOperand e with
         | some (some t) => [litItem (d + 2) t none]
         | some none => [unsup (d + 2) "cast-operator-literal"]
         | none => items .node none e (d + 2))
        else items .node none e (d + 2)) (d + 2) 1 := by
      split
      · split
        · exact Forest.lit _ _ _
        · exact Forest.unsup _ _
        · exact he
      · exact he
    exact h1.append (Forest.lit _ _ _)
  | m, al, .castDyn e ty opSyntax alias, d => by
    have he := items_forest .node none e (d + 2)
    have hty := items_forest .node none ty (d + 2)
    rw [opCount_node] at he hty
    simp only [items, opCount]
    refine Forest.fn _ _ (Forest.el ?_)
    have h1 : Forest (if opSyntax = true then
        (match castOperand e with
         | some (some t) => [litItem (d + 2) t none]
         | some none => [unsup (d + 2) "cast-operator-literal"]
         | none => items .node none e (d + 2))
        else items .node none e (d + 2)) (d + 2) 1 := by
      split
      · split
        · exact Forest.lit _ _ _
        · exact Forest.unsup _ _
        · exact he
      · exact he
    exact h1.append hty
  | m, al, .lambda params body, d => by
    have hb := items_forest .node none body (d + 2)
    rw [opCount_node] at hb
    simp only [items, opCount]
    refine Forest.fn _ _ (Forest.el ?_)
    have hp := params_forest (d + 4) params
    have ht : Forest (fnItem (d + 2) (b "tuple") none 1 ::
        (if params.length > 0 then elItem (d + 3) params.length :: params.map (fun p => identItem (d + 4) p none)
         else [elBare (d + 3)])) (d + 2) 1 := by
      refine Forest.fn _ _ ?_
      split
      · exact Forest.el hp
      · exact Forest.elBare _
    have := ht.append hb
    simpa using this
  | m, al, .ternary c t e, d => by
    have hc := items_forest .node none c (d + 2)
    have ht := items_forest .node none t (d + 2)
    have he := items_forest .node none e (d + 2)
    rw [opCount_node] at hc ht he
    simp only [items, opCount]
    exact Forest.fn _ _ (Forest.el ((hc.append ht).append he))
  | m, al, .aliased e a, d => by
    simp only [items, opCount]
    have := items_forest .node (some a) e d
    rw [opCount_node] at this
    exact this
  | m, al, .other k, d => by
    simp only [items, opCount]
    exact Forest.unsup _ _
theorem itemsList_forest : ∀ (es : List Expr) (d : Nat), Forest (itemsList es d) d es.length
  | [], d => by simp only [itemsList]; exact Forest.nil _
  | e :: es, d => by
    have h1 := items_forest .node none e d
    rw [opCount_node] at h1
    have := h1.append (itemsList_forest es d)
    simpa [itemsList, Nat.add_comm] using this
theorem itemsWhens_forest : ∀ (ws : List (Expr × Expr)) (d : Nat), Forest (itemsWhens ws d) d (ws.length * 2)
  | [], d => by simp only [itemsWhens]; exact Forest.nil _
  | (c, r) :: ws, d => by
    have h1 := items_forest .node none c d
    have h2 := items_forest .node none r d
    rw [opCount_node] at h1 h2
    have := (h1.append h2).append (itemsWhens_forest ws d)
    have e : 1 + 1 + ws.length * 2 = (ws.length + 1) * 2 := by omega
    simpa [itemsWhens, e] using this
theorem tupleInInList_forest : ∀ (e : Expr) (d : Nat), Forest (tupleInInList e d) d 1
  | .tup elems p, d => by
    simp only [tupleInInList]
    split
    · split
      · exact Forest.lit _ _ _
      · exact Forest.unsup _ _
    · exact Forest.fn _ _ (Forest.el (itemsList_forest elems (d + 2)))
  | .ident _ _, d | .lit _ _ _, d | .arr _ _, d | .func _ _ _ _ _, d | .binary _ _ _ _, d
  | .unary _ _, d | .arrayAccess _ _, d | .tupleAccess _ _, d | .isNull _ _, d | .between _ _ _ _, d
  | .inList _ _ _ _ _, d | .case_ _ _ _ _, d | .cast _ _ _ _, d | .castDyn _ _ _ _, d | .lambda _ _, d | .ternary _ _ _, d
  | .aliased _ _, d | .other _, d => by
    simp only [tupleInInList]; exact Forest.unsup _ _
theorem tuplesInInList_forest : ∀ (es : List Expr) (d : Nat), Forest (tuplesInInList es d) d es.length
  | [], d => by simp only [tuplesInInList]; exact Forest.nil _
  | e :: es, d => by
    have := (tupleInInList_forest e d).append (tuplesInInList_forest es d)
    simpa [tuplesInInList, Nat.add_comm] using this
end

end DC.Proofs.ExplainExpr
