import DC.Proofs.SkelTerm

/-!
# C02: a cost semantics for the skeleton language and the charging argument for the linear bound

`ExecN P ks A c i o j n s` is the big-step semantics `Exec P ks c i o j` of `DC.Model.Skel` with two counters:

* `n` — the number of skeleton commands executed: ONE UNIT PER COMMAND NODE EXECUTED.  Every `skip`, `next` (cursor
  advance), `assume` (primitive test), `call` (code not looked into, taken to cost one unit), `cont`, `ret`, `jump`
  costs 1; every `callF`, `seq`, `alt`, `block`, `guard` costs 1 plus what its executed parts cost; every iteration
  of a `loop` (those that take the back edge and the one that leaves) costs 1 plus the cost of the body.
* `s` — the number of STUCK iterations of loops whose body satisfies `A`: iterations that reach the back edge with
  the cursor where it was at the start of the iteration.  (For a loop with a `loopOK` certificate there is no such
  iteration — `loop_progress`; `A` is meant to be the `takenFinite` list of `DC.Props.C02`.)

`ExecN` neither adds nor removes runs (`ExecN.exec`, `Exec.execN`); the two loop rules that replace `loopIter` of
`Exec` have mutually exclusive side conditions, so the counters of a run are determined by the rules it uses: an
honest instrumentation.

The theorem (`cost_cmd`, `cost_fun`): if all contracts check (`funOK`), the ranks decrease along non-advancing calls
(`rankOK`), all ranks are at most `R`, and every loop of every function body has a certificate or is in `A`
(`loopsCert`), then every run of a function body from token index `i` to `j` satisfies

    n ≤ Ac · (j - i) + Mc · (s + 1)            (Ac = (R + 2) · Mc)

where `Mc` is computed from the program alone (`Mc P R`, below): no run of the skeleton can execute more than a
fixed number of commands per token consumed, plus a fixed number per stuck iteration of an uncertified loop.

The charging argument.  `b0 d c` bounds the cost of a run of `c` that does not advance and takes no stuck back edge,
when a call of `g` in it costs at most `d g` (`alt` takes the maximum; a loop body is then run once).  A call entered
with the cursor still at the caller's entry index goes down in rank (`site_rank`), so a call of `g` that does not
advance, `g` having rank `r` at the current kind, costs at most `Dn r g`, where `Dn 0 g = b0 (fun _ => 0) (body g)` and
`Dn (r+1) g = b0 (Dn r) (body g)` (tables `Dtab`); after the caller has advanced the callee may have any rank `≤ R`
(bound `Dn R g`).  `b1` is the same bound for runs that advance (a loop is charged twice its body: the first iteration
that advances and the last one).  `Mc = max_f b1 (Dn R) (body f)`, `Ac = (R + 2) · Mc`, `Dp ρ = Dn (ρ - 1)` (`Dp 0 = 0`).
The invariant proved by induction on the derivation, for a command run from `j` to `k` inside a function entered at `i0`,
with `ρ` = the rank of the function at the kind of token `i0` if `j = i0`, and `R + 1` if `j > i0`:

    k = j  →  n ≤ b0 (Dp ρ) c + Mc · s
    k > j  →  n + (R + 2 - ρ) · Mc ≤ Ac · (k - j) + b1 (Dn R) c + Mc · s

The slack `(R + 2 - ρ) · Mc` is what the first token consumed in the run still has to give to the at most `R + 1`
callers that were entered at the same index (`nonadvancing_depth_bounded`), each of which needs at most `Mc` for its own
commands and the non-advancing calls it makes; every further token gives `Ac`, of which a loop iteration that advances
(`loop_progress`) uses `Mc` to pay for itself.
-/

namespace DC.Model.Skel

/-- Counted big-step semantics: `Exec` with the number `n` of commands executed and the number `s` of stuck
    iterations of `A`-loops (see the module comment).  Same rules as `Exec`; `loopIter` of `Exec` is split into
    `loopIter` (the iteration advanced, or the loop is not in `A`) and `loopStuck` (it did not and the loop is in `A`). -/
inductive ExecN (P : Prog) (ks : List Nat) (A : Cmd → Prop) : Cmd → Nat → Out → Nat → Nat → Nat → Prop
  | skip {i} : ExecN P ks A .skip i .norm i 1 0
  | next {i} : ExecN P ks A .next i .norm (if i < ks.length then i + 1 else i) 1 0
  | assume {S i} : S.testBit (cur ks i) = true → ExecN P ks A (.assume S) i .norm i 1 0
  | call {adv i j} : i ≤ j → j ≤ ks.length → (adv.testBit (cur ks i) = true → i < j) →
      ExecN P ks A (.call adv) i .norm j 1 0
  | callF {f v i o j n s} : ExecN P ks A (P.body f) i o j n s → compat v o → ExecN P ks A (.callF f v) i .norm j (n + 1) s
  | seqN {a b i j k o n1 s1 n2 s2} : ExecN P ks A a i .norm j n1 s1 → ExecN P ks A b j o k n2 s2 →
      ExecN P ks A (.seq a b) i o k (n1 + n2 + 1) (s1 + s2)
  | seqX {a b i j o n s} : o ≠ .norm → ExecN P ks A a i o j n s → ExecN P ks A (.seq a b) i o j (n + 1) s
  | altL {a b i o j n s} : ExecN P ks A a i o j n s → ExecN P ks A (.alt a b) i o j (n + 1) s
  | altR {a b i o j n s} : ExecN P ks A b i o j n s → ExecN P ks A (.alt a b) i o j (n + 1) s
  | cont {i} : ExecN P ks A .cont i .cont i 1 0
  | ret {v i} : ExecN P ks A (.ret v) i (.ret v) i 1 0
  | jump {l i} : ExecN P ks A (.jump l) i (.jump l) i 1 0
  | blockJ {l c i j n s} : ExecN P ks A c i (.jump l) j n s → ExecN P ks A (.block l c) i .norm j (n + 1) s
  | blockX {l c i o j n s} : o ≠ .jump l → ExecN P ks A c i o j n s → ExecN P ks A (.block l c) i o j (n + 1) s
  | loopIter {c i o j o' k n1 s1 n2 s2} : ExecN P ks A c i o j n1 s1 → (o = .norm ∨ o = .cont) → (i < j ∨ ¬ A c) →
      ExecN P ks A (.loop c) j o' k n2 s2 → ExecN P ks A (.loop c) i o' k (n1 + n2 + 1) (s1 + s2)
  | loopStuck {c i o o' k n1 s1 n2 s2} : ExecN P ks A c i o i n1 s1 → (o = .norm ∨ o = .cont) → A c →
      ExecN P ks A (.loop c) i o' k n2 s2 → ExecN P ks A (.loop c) i o' k (n1 + n2 + 1) (s1 + s2 + 1)
  | loopExit {c i o j n s} : ExecN P ks A c i o j n s → o ≠ .norm → o ≠ .cont → ExecN P ks A (.loop c) i o j (n + 1) s
  | guardStuck {c a b i o k n1 s1 n2 s2} : ExecN P ks A c i .norm i n1 s1 → ExecN P ks A a i o k n2 s2 →
      ExecN P ks A (.guard c a b) i o k (n1 + n2 + 1) (s1 + s2)
  | guardMoved {c a b i j o k n1 s1 n2 s2} : ExecN P ks A c i .norm j n1 s1 → j ≠ i → ExecN P ks A b j o k n2 s2 →
      ExecN P ks A (.guard c a b) i o k (n1 + n2 + 1) (s1 + s2)
  | guardX {c a b i o j n s} : o ≠ .norm → ExecN P ks A c i o j n s → ExecN P ks A (.guard c a b) i o j (n + 1) s

variable {P : Prog} {ks : List Nat}

/-- a counted run is a run -/
theorem ExecN.exec {A : Cmd → Prop} {c i o j n s} (h : ExecN P ks A c i o j n s) : Exec P ks c i o j := by
  induction h with
  | skip => exact .skip
  | next => exact .next
  | assume h => exact .assume h
  | call h1 h2 h3 => exact .call h1 h2 h3
  | callF _ hc ih => exact .callF ih hc
  | seqN _ _ ih1 ih2 => exact .seqN ih1 ih2
  | seqX hne _ ih => exact .seqX hne ih
  | altL _ ih => exact .altL ih
  | altR _ ih => exact .altR ih
  | cont => exact .cont
  | ret => exact .ret
  | jump => exact .jump
  | blockJ _ ih => exact .blockJ ih
  | blockX hne _ ih => exact .blockX hne ih
  | loopIter _ ho _ _ ih1 ih2 => exact .loopIter ih1 ho ih2
  | loopStuck _ ho _ _ ih1 ih2 => exact .loopIter ih1 ho ih2
  | loopExit _ h1 h2 ih => exact .loopExit ih h1 h2
  | guardStuck _ _ ih1 ih2 => exact .guardStuck ih1 ih2
  | guardMoved _ hne _ ih1 ih2 => exact .guardMoved ih1 hne ih2
  | guardX hne _ ih => exact .guardX hne ih

/-- every run has counters: the cost semantics loses no run of `Exec` -/
theorem Exec.execN (A : Cmd → Prop) {c i o j} (h : Exec P ks c i o j) : ∃ n s, ExecN P ks A c i o j n s := by
  induction h with
  | skip => exact ⟨_, _, .skip⟩
  | next => exact ⟨_, _, .next⟩
  | assume h => exact ⟨_, _, .assume h⟩
  | call h1 h2 h3 => exact ⟨_, _, .call h1 h2 h3⟩
  | callF _ hc ih => obtain ⟨n, s, h⟩ := ih; exact ⟨_, _, .callF h hc⟩
  | seqN _ _ ih1 ih2 => obtain ⟨_, _, h1⟩ := ih1; obtain ⟨_, _, h2⟩ := ih2; exact ⟨_, _, .seqN h1 h2⟩
  | seqX hne _ ih => obtain ⟨_, _, h⟩ := ih; exact ⟨_, _, .seqX hne h⟩
  | altL _ ih => obtain ⟨_, _, h⟩ := ih; exact ⟨_, _, .altL h⟩
  | altR _ ih => obtain ⟨_, _, h⟩ := ih; exact ⟨_, _, .altR h⟩
  | cont => exact ⟨_, _, .cont⟩
  | ret => exact ⟨_, _, .ret⟩
  | jump => exact ⟨_, _, .jump⟩
  | blockJ _ ih => obtain ⟨_, _, h⟩ := ih; exact ⟨_, _, .blockJ h⟩
  | blockX hne _ ih => obtain ⟨_, _, h⟩ := ih; exact ⟨_, _, .blockX hne h⟩
  | @loopIter c i o j o' k hex ho _ ih1 ih2 =>
    obtain ⟨n1, s1, h1⟩ := ih1
    obtain ⟨n2, s2, h2⟩ := ih2
    by_cases hq : i < j ∨ ¬ A c
    · exact ⟨_, _, .loopIter h1 ho hq h2⟩
    · have hle := exec_mono hex
      have hij : j = i := by
        have : ¬ i < j := fun h => hq (Or.inl h)
        omega
      have hA : A c := Classical.byContradiction fun h => hq (Or.inr h)
      subst hij
      exact ⟨_, _, .loopStuck h1 ho hA h2⟩
  | loopExit _ h1 h2 ih => obtain ⟨_, _, h⟩ := ih; exact ⟨_, _, .loopExit h h1 h2⟩
  | guardStuck _ _ ih1 ih2 => obtain ⟨_, _, h1⟩ := ih1; obtain ⟨_, _, h2⟩ := ih2; exact ⟨_, _, .guardStuck h1 h2⟩
  | guardMoved _ hne _ ih1 ih2 =>
    obtain ⟨_, _, h1⟩ := ih1; obtain ⟨_, _, h2⟩ := ih2; exact ⟨_, _, .guardMoved h1 hne h2⟩
  | guardX hne _ ih => obtain ⟨_, _, h⟩ := ih; exact ⟨_, _, .guardX hne h⟩

/-- every command executed costs at least one unit -/
theorem ExecN.pos {A : Cmd → Prop} {c i o j n s} (h : ExecN P ks A c i o j n s) : 0 < n := by
  cases h <;> omega

/-! ## the constants -/

/-- cost bound of a run of `c` that does not advance and takes no stuck back edge, a call of `g` costing at most `d g` -/
def b0 (d : Nat → Nat) : Cmd → Nat
  | .callF g _ => d g + 1
  | .seq a b => b0 d a + b0 d b + 1
  | .alt a b => max (b0 d a) (b0 d b) + 1
  | .block _ c => b0 d c + 1
  | .loop c => b0 d c + 1
  | .guard c a b => b0 d c + max (b0 d a) (b0 d b) + 1
  | _ => 1

/-- the same for runs that advance: a loop is charged for two iterations of its body (the first one that advances and
    the last one); every other iteration pays for itself, with the token it consumes or as a stuck iteration -/
def b1 (d : Nat → Nat) : Cmd → Nat
  | .callF g _ => d g + 1
  | .seq a b => b1 d a + b1 d b + 1
  | .alt a b => max (b1 d a) (b1 d b) + 1
  | .block _ c => b1 d c + 1
  | .loop c => 2 * b1 d c + 2
  | .guard c a b => b1 d c + max (b1 d a) (b1 d b) + 1
  | _ => 1

theorem b0_mono {d d' : Nat → Nat} (h : ∀ g, d g ≤ d' g) (c : Cmd) : b0 d c ≤ b0 d' c := by
  induction c with
  | callF g v => simp only [b0]; have := h g; omega
  | _ => simp only [b0] <;> omega

theorem b1_mono {d d' : Nat → Nat} (h : ∀ g, d g ≤ d' g) (c : Cmd) : b1 d c ≤ b1 d' c := by
  induction c with
  | callF g v => simp only [b1]; have := h g; omega
  | _ => simp only [b1] <;> omega

theorem b0_le_b1 (d : Nat → Nat) (c : Cmd) : b0 d c ≤ b1 d c := by
  induction c <;> simp only [b0, b1] <;> omega

/-- maximum of `g` over the function bodies of `P` (at least 1, the value on the body `skip` of an index out of range) -/
def maxB (g : Cmd → Nat) (P : Prog) : Nat := P.funs.toList.foldl (fun m c => max m (g c)) 1

theorem foldl_max_init (g : Cmd → Nat) (l : List Cmd) (m : Nat) : m ≤ l.foldl (fun m c => max m (g c)) m := by
  induction l generalizing m with
  | nil => exact Nat.le_refl _
  | cons a t ih => exact Nat.le_trans (Nat.le_max_left _ _) (ih _)

theorem foldl_max_mem (g : Cmd → Nat) (l : List Cmd) (m : Nat) {c : Cmd} (hc : c ∈ l) :
    g c ≤ l.foldl (fun m c => max m (g c)) m := by
  induction l generalizing m with
  | nil => cases hc
  | cons a t ih =>
    rcases List.mem_cons.mp hc with rfl | h
    · exact Nat.le_trans (Nat.le_max_right _ _) (foldl_max_init g t _)
    · exact ih _ h

theorem body_le_maxB (g : Cmd → Nat) (hs : g .skip ≤ 1) (f : Nat) : g (P.body f) ≤ maxB g P := by
  unfold Prog.body maxB
  by_cases hf : f < P.funs.size
  · rw [Array.getD_eq_getD_getElem?, Array.getElem?_eq_getElem hf]
    exact foldl_max_mem g _ _ (by simp)
  · rw [Array.getD_eq_getD_getElem?, Array.getElem?_eq_none (by omega)]
    exact Nat.le_trans hs (foldl_max_init g _ _)

/-- `Dtab P r`: for every function `g`, a cost bound of a call of `g` that does not advance (and takes no stuck back
    edge) when `g` has rank at most `r` at the current kind: the calls it makes then have rank below `r`.
    One table per rank level, so that the constants can be evaluated. -/
def Dtab (P : Prog) : Nat → List Nat
  | 0 => P.funs.toList.map (b0 (fun _ => 0))
  | r + 1 => let t := Dtab P r; P.funs.toList.map (b0 (fun g => t.getD g 1))

def Dn (P : Prog) (r g : Nat) : Nat := (Dtab P r).getD g 1

/-- cost bound of a call of `g` made in mode `ρ` (rank of the caller if it has not advanced, `R + 1` after) that does
    not advance -/
def Dp (P : Prog) : Nat → Nat → Nat
  | 0 => fun _ => 0
  | r + 1 => Dn P r

theorem map_getD (h : Cmd → Nat) (hs : h .skip = 1) (g : Nat) : (P.funs.toList.map h).getD g 1 = h (P.body g) := by
  unfold Prog.body
  rw [List.getD_eq_getElem?_getD, List.getElem?_map, Array.getElem?_toList, Array.getD_eq_getD_getElem?]
  cases P.funs[g]? with
  | none => simpa using hs.symm
  | some c => rfl

theorem Dn_eq (r g : Nat) : Dn P r g = b0 (Dp P r) (P.body g) := by
  cases r with
  | zero => exact map_getD _ (by simp [b0]) g
  | succ r => exact map_getD _ (by simp [b0]) g

theorem Dp_le_Dn (r g : Nat) : Dp P r g ≤ Dn P r g := by
  induction r generalizing g with
  | zero => exact Nat.zero_le _
  | succ r ih =>
    show Dn P r g ≤ Dn P (r + 1) g
    rw [Dn_eq r, Dn_eq (r + 1)]
    exact b0_mono ih _

theorem Dn_mono {r r' : Nat} (h : r ≤ r') (g : Nat) : Dn P r g ≤ Dn P r' g := by
  induction h with
  | refl => exact Nat.le_refl _
  | step _ ih => exact Nat.le_trans ih (Dp_le_Dn (P := P) (_ + 1) g)

theorem Dn_le_Dp {r ρ : Nat} (h : r < ρ) (g : Nat) : Dn P r g ≤ Dp P ρ g := by
  cases ρ with
  | zero => omega
  | succ ρ => exact Dn_mono (by omega) g

theorem Dp_le_DR {ρ R : Nat} (h : ρ ≤ R + 1) (g : Nat) : Dp P ρ g ≤ Dn P R g := by
  cases ρ with
  | zero => exact Nat.zero_le _
  | succ ρ => exact Dn_mono (by omega) g

theorem b0_le_b1' {ρ R : Nat} (h : ρ ≤ R + 1) (c : Cmd) : b0 (Dp P ρ) c ≤ b1 (Dn P R) c :=
  Nat.le_trans (b0_mono (Dp_le_DR h) c) (b0_le_b1 _ c)

/-- `Mc P R`: what one frame needs for itself per token — the largest `b1` of a function body, a call of `g` costing
    `Dn P R g` (written with the table hoisted so that it evaluates quickly; `Mc_eq`) -/
def Mc (P : Prog) (R : Nat) : Nat := let t := Dtab P R; maxB (b1 (fun g => t.getD g 1)) P

theorem Mc_eq (R : Nat) : Mc P R = maxB (b1 (Dn P R)) P := rfl

/-- **the constant**: commands per token -/
def Ac (P : Prog) (R : Nat) : Nat := (R + 2) * Mc P R

/-- slack a run in mode `ρ` must leave from its first token -/
def gam (P : Prog) (R ρ : Nat) : Nat := (R + 2 - ρ) * Mc P R

theorem gam_le_Ac (R ρ : Nat) : gam P R ρ ≤ Ac P R := Nat.mul_le_mul_right _ (by omega)

theorem gam_top (R : Nat) : gam P R (R + 1) = Mc P R := by
  unfold gam
  have : R + 2 - (R + 1) = 1 := by omega
  rw [this, Nat.one_mul]

theorem gam_step {R r ρ : Nat} (h1 : r < ρ) (h2 : ρ ≤ R + 1) : gam P R ρ + Mc P R ≤ gam P R r := by
  unfold gam
  have : (R + 2 - ρ) * Mc P R + Mc P R = (R + 2 - ρ + 1) * Mc P R := by rw [Nat.add_mul, Nat.one_mul]
  rw [this]
  exact Nat.mul_le_mul_right _ (by omega)

theorem Ac_split (R : Nat) {i j k : Nat} (h1 : i ≤ j) (h2 : j ≤ k) :
    Ac P R * (k - i) = Ac P R * (j - i) + Ac P R * (k - j) := by
  rw [← Nat.mul_add]; congr 1; omega

theorem Ac_pos (R : Nat) {j k : Nat} (h : j < k) : Ac P R ≤ Ac P R * (k - j) :=
  Nat.le_mul_of_pos_right _ (by omega)

theorem body_b1_le_Mc (R f : Nat) : b1 (Dn P R) (P.body f) ≤ Mc P R := by
  rw [Mc_eq]; exact body_le_maxB _ (by simp [b1]) f

/-! ## ranks -/

/-- all ranks of the table are at most `R` -/
def ranksLe (ranks : Array RankTbl) (R : Nat) : Bool := ranks.toList.all (fun rk => rk.all (fun p => decide (p.2 ≤ R)))

theorem rankOf_le_of_all {rk : RankTbl} {R : Nat} (h : rk.all (fun p => decide (p.2 ≤ R)) = true) (k : Nat) :
    rankOf rk k ≤ R := by
  induction rk with
  | nil => simp [rankOf]
  | cons p t ih =>
    simp only [List.all_cons, Bool.and_eq_true, decide_eq_true_eq] at h
    simp only [rankOf]
    split
    · exact h.1
    · exact ih h.2

theorem rankOf_le {ranks : Array RankTbl} {R : Nat} (h : ranksLe ranks R = true) (f k : Nat) :
    rankOf (ranks.getD f []) k ≤ R := by
  by_cases hf : f < ranks.size
  · rw [Array.getD_eq_getD_getElem?, Array.getElem?_eq_getElem hf]
    unfold ranksLe at h
    rw [List.all_eq_true] at h
    exact rankOf_le_of_all (h _ (by simp)) k
  · rw [Array.getD_eq_getD_getElem?, Array.getElem?_eq_none (by omega)]
    simp [rankOf]

/-! ## the invariant -/

/-- mode of a run started at `j` inside the function `f` entered at `i0`: the rank of `f` at the kind of token `i0`
    while the cursor is still there, `R + 1` once it has moved -/
def md (ranks : Array RankTbl) (ks : List Nat) (R f i0 j : Nat) : Nat :=
  if j = i0 then rankOf (ranks.getD f []) (cur ks i0) else R + 1

/-- the invariant of the charging argument (see the module comment) -/
def Bd (P : Prog) (R ρ x0 x1 j k n s : Nat) : Prop :=
  (k = j → n ≤ x0 + Mc P R * s) ∧
  (j < k → n + gam P R ρ ≤ Ac P R * (k - j) + x1 + Mc P R * s)

/-- sequential composition of two runs `i → j → k` in one frame: the second in the same mode if `j = i`,
    in mode `R + 1` if not -/
theorem bd_seq {R ρ a0 a1 y0 y1 z0 i j k n1 s1 n2 s2 : Nat}
    (hij : i ≤ j) (hjk : j ≤ k) (ha : a0 ≤ a1) (hz : z0 ≤ y1)
    (h1 : Bd P R ρ a0 a1 i j n1 s1)
    (h2 : j = i → Bd P R ρ y0 y1 j k n2 s2)
    (h3 : i < j → Bd P R (R + 1) z0 y1 j k n2 s2) :
    Bd P R ρ (a0 + y0 + 1) (a1 + y1 + 1) i k (n1 + n2 + 1) (s1 + s2) := by
  unfold Bd at *
  have hsp := Ac_split (P := P) R hij hjk
  have htop := gam_top (P := P) R
  simp only [Nat.mul_add]
  by_cases e1 : j = i
  · have g2 := h2 e1
    subst e1
    have f1 := h1.1 rfl
    constructor
    · intro e; have := g2.1 e; omega
    · intro e; have := g2.2 e; omega
  · have hlt : i < j := by omega
    have g3 := h3 hlt
    have f1 := h1.2 hlt
    constructor
    · intro e; omega
    · intro _
      by_cases e2 : k = j
      · have := g3.1 e2
        subst e2
        omega
      · have := g3.2 (by omega)
        omega

theorem md_le {ranks : Array RankTbl} {R : Nat} (hR : ranksLe ranks R = true) (f i0 j : Nat) :
    md ranks ks R f i0 j ≤ R + 1 := by
  unfold md
  split
  · have := rankOf_le hR f (cur ks i0); omega
  · omega

theorem md_same {ranks : Array RankTbl} {R f i0 i j : Nat} (h : j = i) : md ranks ks R f i0 j = md ranks ks R f i0 i := by
  rw [h]

theorem md_moved {ranks : Array RankTbl} {R f i0 i j : Nat} (h0 : i0 ≤ i) (h : i < j) : md ranks ks R f i0 j = R + 1 := by
  unfold md
  rw [if_neg (by omega)]

/-- **The charging argument.**  See the module comment. -/
theorem cost_cmd (hP : ∀ f, funOK P f = true) (hks : WF ks) {ranks : Array RankTbl} {isA : Cmd → Bool} {R : Nat}
    (hr : ∀ f, rankOK P ranks f = true) (hl : ∀ f, loopsCert P isA (P.body f) = true) (hR : ranksLe ranks R = true)
    {c j o k n s} (h : ExecN P ks (fun c => isA c = true) c j o k n s) :
    ∀ f i0 st, Desc ks i0 j st → loopsCert P isA c = true → (∀ p ∈ sites P c st, siteOK ranks f p = true) →
      b1 (Dn P R) c ≤ Mc P R →
      Bd P R (md ranks ks R f i0 j) (b0 (Dp P (md ranks ks R f i0 j)) c) (b1 (Dn P R) c) j k n s := by
  induction h with
  | skip => intro f i0 st _ _ _ _; unfold Bd; simp only [b0, b1]; omega
  | assume => intro f i0 st _ _ _ _; unfold Bd; simp only [b0, b1]; omega
  | cont => intro f i0 st _ _ _ _; unfold Bd; simp only [b0, b1]; omega
  | ret => intro f i0 st _ _ _ _; unfold Bd; simp only [b0, b1]; omega
  | jump => intro f i0 st _ _ _ _; unfold Bd; simp only [b0, b1]; omega
  | @next i =>
    intro f i0 st _ _ _ _
    unfold Bd
    simp only [b0, b1]
    have hg := gam_le_Ac (P := P) R (md ranks ks R f i0 i)
    by_cases hi : i < ks.length
    · simp only [hi, if_true]
      have : i + 1 - i = 1 := by omega
      rw [this, Nat.mul_one]
      omega
    · simp only [hi, if_false]
      omega
  | @call adv i j hij _ _ =>
    intro f i0 st _ _ _ _
    unfold Bd
    simp only [b0, b1]
    have hg := gam_le_Ac (P := P) R (md ranks ks R f i0 i)
    constructor
    · intro _; omega
    · intro hlt
      have := Ac_pos (P := P) R hlt
      omega
  | @callF g v i o j n s hb _ ih =>
    intro f i0 st hd _ hs _
    have hd' : Desc ks i i (ALL, 0) := by left; exact ⟨rfl, all_testBit (cur_lt hks i)⟩
    have hsites : ∀ p ∈ sites P (P.body g) (ALL, 0), siteOK ranks g p = true := by
      have := hr g
      unfold rankOK at this
      rw [List.all_eq_true] at this
      exact this
    have B := ih g i (ALL, 0) hd' (hl g) hsites (body_b1_le_Mc R g)
    have hmg : md ranks ks R g i i = rankOf (ranks.getD g []) (cur ks i) := by unfold md; rw [if_pos rfl]
    rw [hmg] at B
    have hρ := md_le (ks := ks) hR f i0 i
    -- the callee's rank is below the mode of the caller
    have hlt : rankOf (ranks.getD g []) (cur ks i) < md ranks ks R f i0 i := by
      rcases hd with ⟨he, hbit⟩ | ⟨hlt, _⟩
      · subst he
        have hso := hs (g, st.1) (by simp [sites])
        have := site_rank (cur_lt hks i) hso hbit
        unfold md; rw [if_pos rfl]; exact this
      · unfold md; rw [if_neg (by omega)]
        have := rankOf_le hR g (cur ks i); omega
    have h0 : b0 (Dp P (rankOf (ranks.getD g []) (cur ks i))) (P.body g) ≤ Dp P (md ranks ks R f i0 i) g := by
      rw [← Dn_eq]; exact Dn_le_Dp hlt g
    have h1 := body_b1_le_Mc (P := P) R g
    have hgs := gam_step (P := P) hlt hρ
    unfold Bd at B ⊢
    simp only [b0, b1]
    constructor
    · intro e; have := B.1 e; omega
    · intro e; have := B.2 e; omega
  | @seqN a b i j k o n1 s1 n2 s2 ha hb iha ihb =>
    intro f i0 st hd hlc hs hM
    simp only [loopsCert, Bool.and_eq_true] at hlc
    simp only [b1] at hM
    have hij := exec_mono ha.exec
    have hjk := exec_mono hb.exec
    have h0 := hd.le
    have hn := ana_sound hP hks ha.exec i0 st hd
    simp only [pick] at hn
    have B1 := iha f i0 st hd hlc.1 (fun p hp => hs p (by simp only [sites, List.mem_append]; left; exact hp)) (by omega)
    have B2 := ihb f i0 _ hn hlc.2 (fun p hp => hs p (by simp only [sites, List.mem_append]; right; exact hp)) (by omega)
    have hρ := md_le (ks := ks) hR f i0 i
    simp only [b0, b1]
    refine bd_seq hij hjk (b0_le_b1' hρ a) (show b0 (Dp P (R + 1)) b ≤ b1 (Dn P R) b from b0_le_b1 (Dn P R) b) B1 ?_ ?_
    · intro e; rw [md_same e] at B2; exact B2
    · intro e; rw [md_moved h0 e] at B2; exact B2
  | @seqX a b i j o n s hne ha ih =>
    intro f i0 st hd hlc hs hM
    simp only [loopsCert, Bool.and_eq_true] at hlc
    simp only [b1] at hM
    have B := ih f i0 st hd hlc.1 (fun p hp => hs p (by simp only [sites, List.mem_append]; left; exact hp)) (by omega)
    unfold Bd at B ⊢
    simp only [b0, b1]
    constructor
    · intro e; have := B.1 e; omega
    · intro e; have := B.2 e; omega
  | @altL a b i o j n s ha ih =>
    intro f i0 st hd hlc hs hM
    simp only [loopsCert, Bool.and_eq_true] at hlc
    simp only [b1] at hM
    have B := ih f i0 st hd hlc.1 (fun p hp => hs p (by simp only [sites, List.mem_append]; left; exact hp)) (by omega)
    unfold Bd at B ⊢
    simp only [b0, b1]
    constructor
    · intro e; have := B.1 e; omega
    · intro e; have := B.2 e; omega
  | @altR a b i o j n s hb ih =>
    intro f i0 st hd hlc hs hM
    simp only [loopsCert, Bool.and_eq_true] at hlc
    simp only [b1] at hM
    have B := ih f i0 st hd hlc.2 (fun p hp => hs p (by simp only [sites, List.mem_append]; right; exact hp)) (by omega)
    unfold Bd at B ⊢
    simp only [b0, b1]
    constructor
    · intro e; have := B.1 e; omega
    · intro e; have := B.2 e; omega
  | @blockJ l c i j n s hc ih =>
    intro f i0 st hd hlc hs hM
    simp only [loopsCert] at hlc
    simp only [b1] at hM
    have B := ih f i0 st hd hlc (fun p hp => hs p (by simpa only [sites] using hp)) (by omega)
    unfold Bd at B ⊢
    simp only [b0, b1]
    constructor
    · intro e; have := B.1 e; omega
    · intro e; have := B.2 e; omega
  | @blockX l c i o j n s hne hc ih =>
    intro f i0 st hd hlc hs hM
    simp only [loopsCert] at hlc
    simp only [b1] at hM
    have B := ih f i0 st hd hlc (fun p hp => hs p (by simpa only [sites] using hp)) (by omega)
    unfold Bd at B ⊢
    simp only [b0, b1]
    constructor
    · intro e; have := B.1 e; omega
    · intro e; have := B.2 e; omega
  | @loopIter c i o j o' k n1 s1 n2 s2 hb ho hmv ht ihb iht =>
    intro f i0 st hd hlc hs hM
    have hlc' := hlc
    simp only [loopsCert, Bool.and_eq_true, Bool.or_eq_true] at hlc'
    have hM' := hM
    simp only [b1] at hM'
    have h0 := hd.le
    -- the iteration advanced: by its counter, or by the certificate of the loop
    have hij : i < j := by
      rcases hmv with h | h
      · exact h
      · rcases hlc'.1 with hok | hA
        · exact loop_progress hP hks hok hb.exec ho
        · exact (h hA).elim
    have hjk := exec_mono ht.exec
    have hw := desc_widen_mono hks hd (Nat.le_refl i)
    have hw2 := desc_widen_mono hks hd (Nat.le_of_lt hij)
    have hs' : ∀ p ∈ sites P c st.widen, siteOK ranks f p = true := fun p hp => hs p (by simpa only [sites] using hp)
    have hs2 : ∀ p ∈ sites P (.loop c) st.widen, siteOK ranks f p = true := by
      intro p hp
      simp only [sites, widen_idem] at hp
      exact hs' p hp
    have B1 := ihb f i0 _ hw hlc'.2 hs' (by omega)
    have B2 := iht f i0 _ hw2 hlc hs2 hM
    rw [md_moved h0 hij] at B2
    have hsp := Ac_split (P := P) R (Nat.le_of_lt hij) hjk
    have htop := gam_top (P := P) R
    have h01 := b0_le_b1 (Dn P R) c
    have hdp : Dp P (R + 1) = Dn P R := rfl
    rw [hdp] at B2
    unfold Bd at B1 B2 ⊢
    simp only [b0, b1] at B2 ⊢
    simp only [Nat.mul_add]
    have f1 := B1.2 hij
    constructor
    · intro e; omega
    · intro _
      by_cases e2 : k = j
      · have := B2.1 e2
        subst e2
        omega
      · have := B2.2 (by omega)
        omega
  | @loopStuck c i o o' k n1 s1 n2 s2 hb ho hA ht ihb iht =>
    intro f i0 st hd hlc hs hM
    have hlc' := hlc
    simp only [loopsCert, Bool.and_eq_true, Bool.or_eq_true] at hlc'
    have hM' := hM
    simp only [b1] at hM'
    have hw := desc_widen_mono hks hd (Nat.le_refl i)
    have hs' : ∀ p ∈ sites P c st.widen, siteOK ranks f p = true := fun p hp => hs p (by simpa only [sites] using hp)
    have hs2 : ∀ p ∈ sites P (.loop c) st.widen, siteOK ranks f p = true := by
      intro p hp
      simp only [sites, widen_idem] at hp
      exact hs' p hp
    have B1 := ihb f i0 _ hw hlc'.2 hs' (by omega)
    have B2 := iht f i0 _ hw hlc hs2 hM
    have hρ := md_le (ks := ks) hR f i0 i
    have h01 := b0_le_b1' (P := P) hρ c
    unfold Bd at B1 B2 ⊢
    simp only [b0, b1] at B2 ⊢
    simp only [Nat.mul_add, Nat.mul_one]
    have f1 := B1.1 rfl
    constructor
    · intro e; have := B2.1 e; omega
    · intro e; have := B2.2 e; omega
  | @loopExit c i o j n s hb _ _ ih =>
    intro f i0 st hd hlc hs hM
    simp only [loopsCert, Bool.and_eq_true, Bool.or_eq_true] at hlc
    simp only [b1] at hM
    have hw := desc_widen_mono hks hd (Nat.le_refl i)
    have B := ih f i0 _ hw hlc.2 (fun p hp => hs p (by simpa only [sites] using hp)) (by omega)
    unfold Bd at B ⊢
    simp only [b0, b1]
    constructor
    · intro e; have := B.1 e; omega
    · intro e; have := B.2 e; omega
  | @guardStuck c a b i o k n1 s1 n2 s2 hc ha ihc iha =>
    intro f i0 st hd hlc hs hM
    simp only [loopsCert, Bool.and_eq_true] at hlc
    simp only [b1] at hM
    have hik := exec_mono ha.exec
    have hn := ana_sound hP hks hc.exec i0 st hd
    simp only [pick] at hn
    have B1 := ihc f i0 st hd hlc.1.1
      (fun p hp => hs p (by simp only [sites, List.mem_append]; left; left; exact hp)) (by omega)
    have B2 := iha f i0 _ hn hlc.1.2
      (fun p hp => hs p (by simp only [sites, List.mem_append]; left; right; exact hp)) (by omega)
    have hρ := md_le (ks := ks) hR f i0 i
    have hq := bd_seq (Nat.le_refl i) hik (b0_le_b1' hρ c) (show b0 (Dp P (R + 1)) a ≤ b1 (Dn P R) a from b0_le_b1 (Dn P R) a) B1 (fun _ => B2)
      (fun e => by omega)
    unfold Bd at hq ⊢
    simp only [b0, b1]
    have m0 := Nat.le_max_left (b0 (Dp P (md ranks ks R f i0 i)) a) (b0 (Dp P (md ranks ks R f i0 i)) b)
    have m1 := Nat.le_max_left (b1 (Dn P R) a) (b1 (Dn P R) b)
    constructor
    · intro e; have := hq.1 e; omega
    · intro e; have := hq.2 e; omega
  | @guardMoved c a b i j o k n1 s1 n2 s2 hc hne hb ihc ihb =>
    intro f i0 st hd hlc hs hM
    simp only [loopsCert, Bool.and_eq_true] at hlc
    simp only [b1] at hM
    have hij := exec_mono hc.exec
    have hjk := exec_mono hb.exec
    have h0 := hd.le
    have hn := ana_sound hP hks hc.exec i0 st hd
    simp only [pick] at hn
    have hm : Desc ks i0 j (0, (ana P c st).norm.2) := by
      rcases hn with ⟨he, _⟩ | ⟨hlt, hbit⟩
      · omega
      · right; exact ⟨hlt, hbit⟩
    have B1 := ihc f i0 st hd hlc.1.1
      (fun p hp => hs p (by simp only [sites, List.mem_append]; left; left; exact hp)) (by omega)
    have B2 := ihb f i0 _ hm hlc.2
      (fun p hp => hs p (by simp only [sites, List.mem_append]; right; exact hp)) (by omega)
    have hρ := md_le (ks := ks) hR f i0 i
    have hlt : i < j := by omega
    rw [md_moved h0 hlt] at B2
    have hq := bd_seq (y0 := b0 (Dp P (md ranks ks R f i0 i)) b) hij hjk (b0_le_b1' hρ c)
      (show b0 (Dp P (R + 1)) b ≤ b1 (Dn P R) b from b0_le_b1 (Dn P R) b) B1 (fun e => by omega) (fun _ => B2)
    unfold Bd at hq ⊢
    simp only [b0, b1]
    have m0 := Nat.le_max_right (b0 (Dp P (md ranks ks R f i0 i)) a) (b0 (Dp P (md ranks ks R f i0 i)) b)
    have m1 := Nat.le_max_right (b1 (Dn P R) a) (b1 (Dn P R) b)
    constructor
    · intro e; have := hq.1 e; omega
    · intro e; have := hq.2 e; omega
  | @guardX c a b i o j n s hne hc ih =>
    intro f i0 st hd hlc hs hM
    simp only [loopsCert, Bool.and_eq_true] at hlc
    simp only [b1] at hM
    have B := ih f i0 st hd hlc.1.1
      (fun p hp => hs p (by simp only [sites, List.mem_append]; left; left; exact hp)) (by omega)
    unfold Bd at B ⊢
    simp only [b0, b1]
    constructor
    · intro e; have := B.1 e; omega
    · intro e; have := B.2 e; omega

/-- readable form of `cost_cmd`: any command activation inside a function body — a loop, a call, a whole branch — that
    runs from token index `j` to `k` costs at most `Ac` per token it consumes, plus its own bound `b1` (for a loop: twice
    the bound of its body plus 2; for a call of `g`: `Dn P R g + 1`), plus `Mc` per stuck iteration of a loop in `isA` -/
theorem cost_cmd_simple (hP : ∀ f, funOK P f = true) (hks : WF ks) {ranks : Array RankTbl} {isA : Cmd → Bool} {R : Nat}
    (hr : ∀ f, rankOK P ranks f = true) (hl : ∀ f, loopsCert P isA (P.body f) = true) (hR : ranksLe ranks R = true)
    {c j o k n s} (h : ExecN P ks (fun c => isA c = true) c j o k n s)
    {f i0 st} (hd : Desc ks i0 j st) (hlc : loopsCert P isA c = true)
    (hs : ∀ p ∈ sites P c st, siteOK ranks f p = true) (hM : b1 (Dn P R) c ≤ Mc P R) :
    n ≤ Ac P R * (k - j) + b1 (Dn P R) c + Mc P R * s := by
  have B := cost_cmd hP hks hr hl hR h f i0 st hd hlc hs hM
  have hρ := md_le (ks := ks) hR f i0 j
  have h01 := b0_le_b1' (P := P) hρ c
  have hjk := exec_mono h.exec
  unfold Bd at B
  by_cases e : k = j
  · have := B.1 e; omega
  · have := B.2 (by omega); omega

/-- **Cost of a function call.**  Every run of the body of `f` from token index `i` to `j` executes at most
    `Ac P R` commands per token consumed, plus `Mc P R` for the frame itself, plus `Mc P R` per stuck iteration of a loop
    in `isA`. -/
theorem cost_fun (hP : ∀ f, funOK P f = true) (hks : WF ks) {ranks : Array RankTbl} {isA : Cmd → Bool} {R : Nat}
    (hr : ∀ f, rankOK P ranks f = true) (hl : ∀ f, loopsCert P isA (P.body f) = true) (hR : ranksLe ranks R = true)
    {f i o j n s} (h : ExecN P ks (fun c => isA c = true) (P.body f) i o j n s) :
    n ≤ Ac P R * (j - i) + Mc P R * (s + 1) := by
  have hd : Desc ks i i (ALL, 0) := by left; exact ⟨rfl, all_testBit (cur_lt hks i)⟩
  have hsites : ∀ p ∈ sites P (P.body f) (ALL, 0), siteOK ranks f p = true := by
    have := hr f
    unfold rankOK at this
    rw [List.all_eq_true] at this
    exact this
  have := cost_cmd_simple hP hks hr hl hR h hd (hl f) hsites (body_b1_le_Mc R f)
  have hb := body_b1_le_Mc (P := P) R f
  rw [Nat.mul_add, Nat.mul_one]
  omega

theorem Mc_pos (R : Nat) : 0 < Mc P R := by
  rw [Mc_eq]; exact foldl_max_init _ _ 1

theorem Mc_le_Ac (R : Nat) : Mc P R ≤ Ac P R := by
  unfold Ac
  exact Nat.le_mul_of_pos_left _ (by omega)

/-- the same with one constant: at most `Ac P R` commands per (token consumed, or stuck iteration, plus one) -/
theorem cost_fun' (hP : ∀ f, funOK P f = true) (hks : WF ks) {ranks : Array RankTbl} {isA : Cmd → Bool} {R : Nat}
    (hr : ∀ f, rankOK P ranks f = true) (hl : ∀ f, loopsCert P isA (P.body f) = true) (hR : ranksLe ranks R = true)
    {f i o j n s} (h : ExecN P ks (fun c => isA c = true) (P.body f) i o j n s) :
    n ≤ Ac P R * (j - i + 1 + s) := by
  have h1 := cost_fun hP hks hr hl hR h
  have h2 : Mc P R * (s + 1) ≤ Ac P R * (s + 1) := Nat.mul_le_mul_right _ (Mc_le_Ac R)
  have h3 : Ac P R * (j - i + 1 + s) = Ac P R * (j - i) + Ac P R * (s + 1) := by
    rw [← Nat.mul_add]; congr 1; omega
  omega

/-- change the way the counters are written -/
theorem ExecN.cast {A : Cmd → Prop} {c i o j n s n' s'} (h : ExecN P ks A c i o j n s) (hn : n = n') (hs : s = s') :
    ExecN P ks A c i o j n' s' := by
  subst hn; subst hs; exact h

end DC.Model.Skel
