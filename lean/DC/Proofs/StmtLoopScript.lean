import DC.Proofs.StmtLoop

/-!
# Lemmas for C06: the statement loop on a script of self-contained statements

Core-only. Nothing here needs `Progress`: on a script of self-contained statements the loop's
fuel is sufficient because every statement has at least one token.
-/

namespace DC.Model.StmtLoop

open DC.Gen.Tokens (tSEMICOLON tPARALLEL tWITH tEOF tILLEGAL)

section Script
variable {σ ε : Type} (ps : StmtParser σ ε) (mkPar : List σ → σ)

/-- A stream without leading semicolons that consists of self-contained statements, each followed
by the end of input or by one or more `;`. -/
inductive NScript : List Tok → List σ → Prop
  | nil : NScript [] []
  | stmt (s rest : List Tok) (st : σ) (sts : List σ) :
      StartsStmt s → SelfContained ps s st → Boundary rest → NScript (dropSemis rest) sts →
      NScript (s ++ rest) (st :: sts)

theorem dropSemis_of_startsStmt (s rest : List Tok) (h : StartsStmt s) :
    dropSemis (s ++ rest) = s ++ rest := by
  obtain ⟨t, r, rfl, ht⟩ := h
  simp [dropSemis, ht]

theorem dropSemis_append_allSemis (a b : List Tok) (h : AllSemis a) :
    dropSemis (a ++ b) = dropSemis b := by
  induction a with
  | nil => rfl
  | cons t a ih =>
    have ht : isSemi t = true := h t (by simp)
    have ha : AllSemis a := fun x hx => h x (by simp [hx])
    simpa [dropSemis, ht] using ih ha

theorem NScript.dropSemis_eq {l : List Tok} {sts : List σ} (h : NScript ps l sts) :
    dropSemis l = l := by
  cases h with
  | nil => rfl
  | stmt s rest st sts hs _ _ _ => exact dropSemis_of_startsStmt s rest hs

theorem NScript.length_le {l : List Tok} {sts : List σ} (h : NScript ps l sts) :
    sts.length ≤ l.length := by
  induction h with
  | nil => simp
  | stmt s rest st sts hs _ _ _ ih =>
    obtain ⟨t, r, rfl, _⟩ := hs
    have := dropSemis_length_le rest
    simp at *; omega

theorem NScript.nil_inv {sts : List σ} (h : NScript ps [] sts) : sts = [] := by
  generalize hl : ([] : List Tok) = l at h
  cases h with
  | nil => rfl
  | stmt s rest st sts hs _ _ _ =>
    obtain ⟨t, r, rfl, _⟩ := hs
    simp at hl

/-- the part of one outer iteration after the leading `;` have been skipped (parser.go:167-183) -/
def afterSkip (done : Nat → Bool) (fuel i : Nat) (stmts : List σ) (p1 : PState ε) : LoopOut σ ε :=
  if p1.w.atEOF then ⟨stmts, p1, i + 1, false, false⟩
  else
    match parseAndAppend ps mkPar i stmts p1 with
    | none => ⟨stmts, p1, i + 1, false, true⟩
    | some (stmts', p3) => loop ps mkPar done fuel (i + 1) stmts' p3.skipSemis

theorem loop_succ_eq_afterSkip (done : Nat → Bool) (fuel i : Nat) (stmts : List σ) (p : PState ε)
    (h1 : p.w.atEOF = false) (h2 : done i = false) :
    loop ps mkPar done (fuel + 1) i stmts p = afterSkip ps mkPar done fuel i stmts p.skipSemis := by
  rw [loop]
  simp only [h1, Bool.false_eq_true, ↓reduceIte, h2, afterSkip]
  split <;> rfl

theorem parseAndAppend_selfContained (s rest : List Tok) (st : σ) (hsc : SelfContained ps s st)
    (hb : Boundary rest) (i : Nat) (acc : List σ) (es : List ε) (lg : List (Nat × Window)) :
    parseAndAppend ps mkPar i acc ⟨Window.ofList (s ++ rest), es, lg⟩
      = some (acc ++ [st], ⟨Window.ofList rest, es, lg ++ [(i, Window.ofList (s ++ rest))]⟩) := by
  unfold parseAndAppend callStmt
  simp only [hsc rest hb, List.append_nil, isParallelWith_ofList_false_of_boundary rest hb,
    Bool.false_eq_true, ↓reduceIte]

/-- what the loop is claimed to do on a script -/
def ScriptOutcome (o : LoopOut σ ε) (acc sts : List σ) (es : List ε) : Prop :=
  o.stmts = acc ++ sts ∧ o.p.errors = es ∧ o.cancelled = false ∧ o.fuelOut = false ∧
    o.p.w.atEOF = true

theorem afterSkip_nscript {l : List Tok} {sts : List σ} (h : NScript ps l sts) :
    ∀ (fuel i : Nat) (acc : List σ) (es : List ε) (lg : List (Nat × Window)), sts.length ≤ fuel →
      ScriptOutcome (afterSkip ps mkPar noCancel fuel i acc ⟨Window.ofList l, es, lg⟩) acc sts es := by
  induction h with
  | nil =>
    intro fuel i acc es lg _
    simp [afterSkip, ofList_atEOF, ScriptOutcome]
  | stmt s rest st sts hs hsc hb hrest ih =>
    intro fuel i acc es lg hf
    obtain ⟨t, r, rfl, ht⟩ := hs
    unfold afterSkip
    simp only [List.cons_append, ofList_atEOF_cons, Bool.false_eq_true, ↓reduceIte]
    have := parseAndAppend_selfContained ps mkPar (t :: r) rest st hsc hb i acc es lg
    simp only [List.cons_append] at this
    rw [this]
    simp only [PState.skipSemis, skipSemis_ofList]
    cases fuel with
    | zero => simp at hf
    | succ f =>
      cases hd : dropSemis rest with
      | nil =>
        rw [hd] at hrest
        have hsts := NScript.nil_inv ps hrest
        subst hsts
        simp [loop, ofList_atEOF, ScriptOutcome]
      | cons a l' =>
        rw [loop_succ_eq_afterSkip ps mkPar noCancel f (i + 1) _ _ (by simp [ofList_atEOF]) rfl]
        simp only [PState.skipSemis, skipSemis_ofList]
        have hid : dropSemis (a :: l') = dropSemis rest := by rw [← hd, dropSemis_idem]
        rw [hid]
        have := ih f (i + 1) (acc ++ [st]) es (lg ++ [(i, Window.ofList (t :: (r ++ rest)))])
          (by simp at hf; omega)
        simpa [ScriptOutcome] using this

/-- The loop on any stream that, after its leading semicolons, is a script. -/
theorem loop_script {l : List Tok} {sts : List σ} (h : NScript ps (dropSemis l) sts)
    (fuel i : Nat) (acc : List σ) (es : List ε) (lg : List (Nat × Window)) (hf : sts.length < fuel) :
    ScriptOutcome (loop ps mkPar noCancel fuel i acc ⟨Window.ofList l, es, lg⟩) acc sts es := by
  cases fuel with
  | zero => omega
  | succ f =>
    cases l with
    | nil =>
      have hsts := NScript.nil_inv ps (by simpa [dropSemis] using h)
      subst hsts
      simp [loop, ofList_atEOF, ScriptOutcome]
    | cons a l' =>
      rw [loop_succ_eq_afterSkip ps mkPar noCancel f i _ _ (by simp [ofList_atEOF]) rfl]
      simp only [PState.skipSemis, skipSemis_ofList]
      exact afterSkip_nscript ps mkPar h f i acc es lg (by omega)

/-- `joinScript` of well-separated self-contained statements is a script. -/
theorem nscript_join : ∀ (items : List (Item σ)),
    (∀ it ∈ items, StartsStmt it.toks ∧ SelfContained ps it.toks it.st) → WellSeparated items →
    NScript ps (joinScript items) (items.map (·.st))
  | [], _, _ => NScript.nil
  | [it], hi, hw => by
    have h := hi it (by simp)
    have hw : AllSemis it.sep := hw
    simp only [joinScript, List.append_nil, List.map_cons, List.map_nil]
    refine NScript.stmt it.toks it.sep it.st [] h.1 h.2 ?_ ?_
    · cases hs : it.sep with
      | nil => exact Or.inl rfl
      | cons t r => exact Or.inr ⟨t, r, rfl, hw t (by simp [hs])⟩
    · have := dropSemis_append_allSemis it.sep [] hw
      simp only [List.append_nil] at this
      rw [this]; exact NScript.nil
  | it :: it' :: r, hi, hw => by
    have h := hi it (by simp)
    obtain ⟨hw1, hw2, hw3⟩ := hw
    have ih := nscript_join (it' :: r) (fun x hx => hi x (by simp [hx])) hw3
    simp only [joinScript, List.map_cons] at ih ⊢
    rw [List.append_assoc]
    refine NScript.stmt it.toks _ it.st _ h.1 h.2 ?_ ?_
    · cases hs : it.sep with
      | nil => exact absurd hs hw2
      | cons t r' => exact Or.inr ⟨t, _, rfl, hw1 t (by simp [hs])⟩
    · rw [dropSemis_append_allSemis _ _ hw1, NScript.dropSemis_eq ps ih]
      exact ih

/-! ## Leading semicolons, for any element parser with `Progress` -/

/-- more fuel does not change a loop that did not run out of fuel -/
theorem loop_fuel_succ (done : Nat → Bool) :
    ∀ (fuel i : Nat) (stmts : List σ) (p : PState ε),
      (loop ps mkPar done fuel i stmts p).fuelOut = false →
      loop ps mkPar done (fuel + 1) i stmts p = loop ps mkPar done fuel i stmts p := by
  intro fuel
  induction fuel with
  | zero => intro i stmts p h; simp [loop] at h
  | succ fuel ih =>
    intro i stmts p h
    rw [loop] at h
    conv => lhs; rw [loop]
    conv => rhs; rw [loop]
    by_cases h1 : p.w.atEOF = true
    · simp [h1]
    · simp only [h1, Bool.false_eq_true, ↓reduceIte] at h ⊢
      by_cases h2 : done i = true
      · simp [h2]
      · simp only [h2, Bool.false_eq_true, ↓reduceIte] at h ⊢
        by_cases h3 : p.skipSemis.w.atEOF = true
        · simp [h3]
        · simp only [h3, Bool.false_eq_true, ↓reduceIte] at h ⊢
          cases hpa : parseAndAppend ps mkPar i stmts p.skipSemis with
          | none => simp
          | some r =>
            simp only [hpa] at h ⊢
            exact ih _ _ _ h

theorem loop_fuel_add (done : Nat → Bool) (fuel i : Nat) (stmts : List σ) (p : PState ε)
    (h : (loop ps mkPar done fuel i stmts p).fuelOut = false) (k : Nat) :
    loop ps mkPar done (fuel + k) i stmts p = loop ps mkPar done fuel i stmts p := by
  induction k with
  | zero => rfl
  | succ k ih =>
    rw [← Nat.add_assoc, loop_fuel_succ ps mkPar done (fuel + k) i stmts p (by rw [ih]; exact h), ih]


/-- Leading semicolons are skipped before anything else is looked at: for ANY element parser with
`Progress`, an uncancelled parse of `;…; l` returns what the parse of `l` returns. -/
theorem run_leading_semis (readErr : Option ε) (hp : Progress ps) (lead l : List Tok)
    (hlead : AllSemis lead) :
    (run ps mkPar readErr noCancel (lead ++ l)).stmts = (run ps mkPar readErr noCancel l).stmts ∧
    (run ps mkPar readErr noCancel (lead ++ l)).err = (run ps mkPar readErr noCancel l).err ∧
    (run ps mkPar readErr noCancel (lead ++ l)).final = (run ps mkPar readErr noCancel l).final ∧
    (run ps mkPar readErr noCancel (lead ++ l)).log = (run ps mkPar readErr noCancel l).log := by
  cases lead with
  | nil => simp
  | cons c lead' =>
    cases l with
    | nil =>
      have hd : dropSemis (c :: lead') = [] := by
        have := dropSemis_append_allSemis (c :: lead') [] hlead
        simpa [dropSemis] using this
      simp [run, new_eq_ofList, loop, ofList_atEOF, noCancel, PState.skipSemis, skipSemis_ofList,
        hd, finish]
    | cons a l' =>
      have hfo : (loop ps mkPar noCancel ((a :: l').length + 1) 0 ([] : List σ)
          ⟨Window.ofList (a :: l'), ([] : List ε), []⟩).fuelOut = false :=
        loop_fuelOut_false ps mkPar hp noCancel _ _ _ _ _ _ (Nat.lt_succ_self _)
      have hM := loop_fuel_add ps mkPar noCancel _ 0 ([] : List σ)
        ⟨Window.ofList (a :: l'), ([] : List ε), []⟩ hfo (c :: lead').length
      have hL : loop ps mkPar noCancel ((c :: lead' ++ a :: l').length + 1) 0 ([] : List σ)
            ⟨Window.ofList (c :: lead' ++ a :: l'), ([] : List ε), []⟩
          = loop ps mkPar noCancel ((a :: l').length + 1 + (c :: lead').length) 0 ([] : List σ)
            ⟨Window.ofList (a :: l'), ([] : List ε), []⟩ := by
        have e1 : (c :: lead' ++ a :: l').length + 1 = ((a :: l').length + (c :: lead').length) + 1 := by
          simp; omega
        have e2 : (a :: l').length + 1 + (c :: lead').length = ((a :: l').length + (c :: lead').length) + 1 := by
          omega
        rw [e1, e2]
        rw [loop_succ_eq_afterSkip ps mkPar noCancel _ 0 _ _ (by simp [ofList_atEOF]) rfl,
          loop_succ_eq_afterSkip ps mkPar noCancel _ 0 _ _ (by simp [ofList_atEOF]) rfl]
        simp only [PState.skipSemis, skipSemis_ofList, dropSemis_append_allSemis _ _ hlead]
      unfold run
      rw [new_eq_ofList, new_eq_ofList, hL, hM]
      simp
end Script
end DC.Model.StmtLoop
