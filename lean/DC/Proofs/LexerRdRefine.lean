import DC.Model.RdM
import DC.Proofs.BufioRefine
import DC.Proofs.BufioEval

/-!
# Every `RdM` program gives the same result over `bufio`, over the pure reader, and over the bytes

* `runBufio_refines` — from the per-operation simulation lemmas `readRune_refines`, `peek_refines` of
  `DC.Proofs.BufioRefine`, by induction on the program tree;
* `decodeRune_eq` — the two mirrors of `utf8.DecodeRune` (`DC.Utf8B`, `DC.Utf8`) are the same function;
* `runPure_eq_runL` — the pure reader with `fin = io.EOF`, `cap = 4096` is the lexer model's reader.
-/
namespace DC.Rd
open DC DC.Bufio

namespace RdM
variable {ε α β : Type}

theorem runBufio_refines (prog : RdM ε α) (b : BR) (p : Pure) (h : Sim b p) :
    (runBufio prog b).1 = (runPure prog p).1 ∧ Sim (runBufio prog b).2 (runPure prog p).2 := by
  induction prog generalizing b p with
  | pure a => exact ⟨rfl, h⟩
  | fail e => exact ⟨rfl, h⟩
  | readRune k ih =>
    have hs := readRune_refines b p h
    simp only [runBufio, runPure]
    rw [hs.1]
    exact ih _ _ _ hs.2
  | peek n k ih =>
    have hs := peek_refines n b p h
    simp only [runBufio, runPure]
    rw [hs.1]
    exact ih _ _ _ hs.2

end RdM

/-! ## the two `DecodeRune` mirrors agree -/

theorem first_cases (b : UInt8) :
    (b.toNat < 0x80 ∧ Utf8B.first b = 0xF0) ∨
    (0x80 ≤ b.toNat ∧ b.toNat < 0xC2 ∧ Utf8B.first b = 0xF1) ∨
    (0xC2 ≤ b.toNat ∧ b.toNat < 0xE0 ∧ Utf8B.first b = 0x02) ∨
    (b.toNat = 0xE0 ∧ Utf8B.first b = 0x13) ∨
    (0xE0 < b.toNat ∧ b.toNat < 0xF0 ∧ b.toNat ≠ 0xED ∧ Utf8B.first b = 0x03) ∨
    (b.toNat = 0xED ∧ Utf8B.first b = 0x23) ∨
    (b.toNat = 0xF0 ∧ Utf8B.first b = 0x34) ∨
    (0xF0 < b.toNat ∧ b.toNat < 0xF4 ∧ Utf8B.first b = 0x04) ∨
    (b.toNat = 0xF4 ∧ Utf8B.first b = 0x44) ∨
    (0xF4 < b.toNat ∧ Utf8B.first b = 0xF1) := by
  unfold Utf8B.first
  simp only []
  repeat' split
  all_goals omega

theorem decodeRune_eq (p : Bytes) : Utf8B.decodeRune p = Utf8.decodeRune p := by
  match p with
  | [] => rfl
  | p0 :: t =>
    rcases t with _ | ⟨b1, _ | ⟨b2, _ | ⟨b3, t3⟩⟩⟩
    all_goals (
      unfold Utf8B.decodeRune Utf8.decodeRune
      simp only [List.length_nil, List.length_cons]
      rcases first_cases p0 with h | h | h | h | h | h | h | h | h | h)
    all_goals (
      obtain ⟨h1, h2⟩ := h
      try obtain ⟨h2, h3⟩ := h2
      try obtain ⟨h3, h4⟩ := h3
      simp only [*, Utf8B.acceptLo, Utf8B.acceptHi, Utf8B.outside, Utf8B.notCont, Utf8.inRange, Utf8B.rune2, Utf8B.rune3, Utf8B.rune4, Utf8B.runeError, Utf8.runeError]
      )
    all_goals (simp (disch := omega) only [if_pos, if_neg])
    all_goals (simp only [if_true, if_false, Bool.or_eq_true, Bool.and_eq_true, Bool.not_eq_true', Bool.and_eq_false_iff, decide_eq_true_eq, decide_eq_false_iff_not])
    all_goals (repeat' split)
    all_goals (first | rfl | omega | skip)

namespace RdM
variable {ε α β : Type}

theorem pure_readRune_eq (rest : Bytes) :
    (Pure.readRune { rest := rest, fin := .eof, cap := 4096 }).1 = (lrune rest).1 ∧
    (Pure.readRune { rest := rest, fin := .eof, cap := 4096 }).2 = { rest := (lrune rest).2, fin := .eof, cap := 4096 } := by
  unfold Pure.readRune lrune
  simp only [decodeRune_eq]
  split <;> exact ⟨rfl, rfl⟩

theorem pure_peek_eq (n : Nat) (rest : Bytes) :
    (Pure.peek n { rest := rest, fin := .eof, cap := 4096 }).1 = lpeek n rest ∧
    (Pure.peek n { rest := rest, fin := .eof, cap := 4096 }).2 = { rest := rest, fin := .eof, cap := 4096 } := by
  unfold Pure.peek lpeek
  simp only []
  split
  · exact ⟨rfl, rfl⟩
  · split <;> exact ⟨rfl, rfl⟩

theorem runPure_eq_runL (prog : RdM ε α) (rest : Bytes) :
    (runPure prog { rest := rest, fin := .eof, cap := 4096 }).1 = (runL prog rest).1 := by
  induction prog generalizing rest with
  | pure a => rfl
  | fail e => rfl
  | readRune k ih =>
    have h := pure_readRune_eq rest
    simp only [runPure, runL]
    rw [h.1, h.2]
    exact ih _ _
  | peek n k ih =>
    have h := pure_peek_eq n rest
    simp only [runPure, runL]
    rw [h.1, h.2]
    exact ih _ _

/-- **every program**: over `bufio.NewReader` on a clean, non-stalling script it returns what it returns over the
concatenated bytes. -/
theorem runBufio_eq_runL (prog : RdM ε α) (script : Script) (hc : Clean script .eof) (hn : NoStall script) :
    (runBufio prog (newReader script)).1 = (runL prog (pending script)).1 := by
  have h := runBufio_refines prog _ _ (sim_init script defaultBufSize .eof hc hn)
  rw [newReader, h.1]
  exact runPure_eq_runL prog (pending script)

/-- `runBufio` with the kernel-evaluable copies of the two `bufio` loops (`DC.Proofs.BufioEval`), for `decide`. -/
def runBufioE : RdM ε α → BR → Except ε α × BR
  | .pure a, b => (.ok a, b)
  | .fail e, b => (.error e, b)
  | .readRune k, b => runBufioE (k (readRuneE b).1) (readRuneE b).2
  | .peek n k, b => runBufioE (k (peekE n b).1) (peekE n b).2

theorem runBufio_eqE (prog : RdM ε α) (b : BR) : runBufio prog b = runBufioE prog b := by
  induction prog generalizing b with
  | pure a => rfl
  | fail e => rfl
  | readRune k ih => simp only [runBufio, runBufioE, readRune_eqE]; exact ih _ _
  | peek n k ih => simp only [runBufio, runBufioE, peek_eqE]; exact ih _ _

end RdM
end DC.Rd
