import DC.Spec.Embed

/-!
# C07, model level: a compositional tree printer embeds subtrees verbatim, merely indented

Everything is about `DC.Spec.Tree.render` (the layout the C04 monitor accepts) and `DC.Spec.Embed.embedded`
(the C07 monitor).

* `render_shift` / `renderList_shift`: the depth argument only shifts the indentation.
* `Sub s t k`: `s` occurs in `t`, `k` levels below the root.
  `subtree_block`, `subtree_embedded`, `subtree_embedded_isSome`: the text of `s` is a contiguous block of the
  text of `t`, every line prefixed by `k` spaces, so the monitor finds it.
* `Ast α`, `toTree lab`, `explain lab`: a printer that is *compositional* — the line of a node is a function
  (`lab`) of the node alone, the children follow one level deeper.  `explain_depth_shift`,
  `explain_embedding`, `explain_context_free`, `explain_history_free`.
* Converse, for well-formed texts: `block_subtree` / `embedded_subtree`: when both texts pass the C04 monitor
  (`check`) and the C07 monitor answers `some d`, the tree of `inner` IS a subtree of the tree of `outer`, exactly `d`
  levels down (`Sub_iff_block`).  Uses that a rendered good tree is self-delimiting
  (`render_prefix_unique`) and that every line of a rendering starts a subtree (`render_at`).
-/
namespace DC.Proofs.TreeEmbed
open DC DC.Spec.Tree DC.Spec.Embed

/-! ## indentation -/

@[simp] theorem indent_zero (l : Line) : indent 0 l = l := by simp [indent]

theorem indent_indent (a b : Nat) (l : Line) : indent a (indent b l) = indent (a + b) l := by
  simp [indent, ← List.append_assoc]

theorem map_indent_zero (ls : List Line) : ls.map (indent 0) = ls := by
  induction ls with
  | nil => rfl
  | cons l ls ih => simp [ih]

theorem line_shift (d k : Nat) (l : Bytes) (c : Bool) (n : Nat) :
    line (d + k) l c n = indent k (line d l c n) := by
  simp only [line, indent, Nat.add_comm d k, ← List.replicate_append_replicate, List.append_assoc]

/-! ## 1. depth only shifts indentation -/

mutual
/-- rendering `k` levels deeper = prefixing every line with `k` spaces -/
theorem render_shift : ∀ (t : Tree) (d k : Nat), render t (d + k) = (render t d).map (indent k)
  | .node l c ks, d, k => by
    have ih := renderList_shift ks (d + 1) k
    have e : d + k + 1 = d + 1 + k := by omega
    simp only [render, List.map_cons, line_shift, e, ih]
theorem renderList_shift : ∀ (ts : List Tree) (d k : Nat),
    renderList ts (d + k) = (renderList ts d).map (indent k)
  | [], _, _ => by simp [renderList]
  | t :: ts, d, k => by
    simp only [renderList, List.map_append, render_shift t d k, renderList_shift ts d k]
end

/-- a rendering has at least the root line -/
theorem render_ne_nil (t : Tree) (d : Nat) : render t d ≠ [] := by
  cases t with
  | node l c ks => simp [render]

theorem renderList_append (a b : List Tree) (d : Nat) :
    renderList (a ++ b) d = renderList a d ++ renderList b d := by
  induction a with
  | nil => simp [renderList]
  | cons t a ih => simp [renderList, ih]

theorem renderList_mem {t : Tree} {ks : List Tree} (h : t ∈ ks) (d : Nat) :
    ∃ pre post, renderList ks d = pre ++ render t d ++ post := by
  obtain ⟨a, b, rfl⟩ := List.append_of_mem h
  exact ⟨renderList a d, renderList b d, by simp [renderList_append, renderList]⟩

/-! ## 2. subtrees -/

/-- `Sub s t k`: `s` occurs in `t` at relative depth `k` — it is `t` itself (`k = 0`) or occurs at relative
depth `k'` inside the `i`-th child of `t` (`k = k' + 1`). -/
inductive Sub : Tree → Tree → Nat → Prop where
  | refl (t : Tree) : Sub t t 0
  | child {s t : Tree} {k : Nat} (l : Bytes) (c : Bool) (ks : List Tree) (i : Nat) :
      ks[i]? = some t → Sub s t k → Sub s (.node l c ks) (k + 1)

theorem Sub.child_mem {s t : Tree} {k : Nat} (l : Bytes) (c : Bool) {ks : List Tree} (hm : t ∈ ks)
    (h : Sub s t k) : Sub s (.node l c ks) (k + 1) := by
  obtain ⟨i, hi⟩ := List.getElem?_of_mem hm
  exact Sub.child l c ks i hi h

theorem Sub.trans {r s t : Tree} {j k : Nat} (h₁ : Sub r s j) (h₂ : Sub s t k) : Sub r t (j + k) := by
  induction h₂ with
  | refl => simpa using h₁
  | child l c ks i hi _ ih => exact Sub.child l c ks i hi ih

/-- the text of a subtree is a contiguous block of the text of the tree, `k` levels deeper -/
theorem subtree_block {s t : Tree} {k : Nat} (h : Sub s t k) (D : Nat) :
    ∃ pre post, render t D = pre ++ render s (D + k) ++ post := by
  induction h generalizing D with
  | refl => exact ⟨[], [], by simp⟩
  | @child t k l c ks i hi _ ih =>
    obtain ⟨pre, post, hp⟩ := ih (D + 1)
    obtain ⟨pre', post', hk⟩ := renderList_mem (List.mem_of_getElem? hi) (D + 1)
    refine ⟨line D l c ks.length :: (pre' ++ pre), post ++ post', ?_⟩
    have e : D + (k + 1) = D + 1 + k := by omega
    rw [render, hk, hp, e]
    simp

/-- … that is: verbatim, every line prefixed by `k` spaces -/
theorem subtree_embedded {s t : Tree} {k : Nat} (h : Sub s t k) :
    ∃ pre post, render t 0 = pre ++ (render s 0).map (indent k) ++ post := by
  obtain ⟨pre, post, hp⟩ := subtree_block h 0
  exact ⟨pre, post, by rw [hp, render_shift s 0 k]⟩

/-- the C07 monitor finds every subtree -/
theorem subtree_embedded_isSome {s t : Tree} {k : Nat} (h : Sub s t k) :
    (embedded (render s 0) (render t 0)).isSome = true := by
  obtain ⟨pre, post, hp⟩ := subtree_embedded h
  exact (embedded_isSome_iff _ _).2 ⟨k, pre, post, hp⟩

/-! ## 3. a generic compositional printer -/

/-- a syntax tree whose nodes carry an arbitrary payload -/
inductive Ast (α : Type) where
  | node (a : α) (kids : List (Ast α))

mutual
/-- the EXPLAIN tree of a syntax tree: label and "prints a count" are a function of the node payload alone -/
def toTree {α : Type} (lab : α → Bytes × Bool) : Ast α → Tree
  | .node a ks => .node (lab a).1 (lab a).2 (toTreeList lab ks)
def toTreeList {α : Type} (lab : α → Bytes × Bool) : List (Ast α) → List Tree
  | [] => []
  | a :: as => toTree lab a :: toTreeList lab as
end

/-- the compositional printer -/
def explain {α : Type} (lab : α → Bytes × Bool) (a : Ast α) (d : Nat) : List Line :=
  render (toTree lab a) d

/-- the texts a sequence of calls produces, in order -/
def explainSeq {α : Type} (lab : α → Bytes × Bool) (calls : List (Ast α × Nat)) : List (List Line) :=
  calls.map (fun c => explain lab c.1 c.2)

theorem toTreeList_eq_map {α : Type} (lab : α → Bytes × Bool) (ks : List (Ast α)) :
    toTreeList lab ks = ks.map (toTree lab) := by
  induction ks with
  | nil => rfl
  | cons a as ih => simp [toTreeList, ih]

/-- `SubAst s a k`: the syntax tree `s` occurs in `a`, `k` levels down -/
inductive SubAst {α : Type} : Ast α → Ast α → Nat → Prop where
  | refl (a : Ast α) : SubAst a a 0
  | child {s t : Ast α} {k : Nat} (x : α) (ks : List (Ast α)) (i : Nat) :
      ks[i]? = some t → SubAst s t k → SubAst s (.node x ks) (k + 1)

theorem SubAst.toSub {α : Type} (lab : α → Bytes × Bool) {s a : Ast α} {k : Nat} (h : SubAst s a k) :
    Sub (toTree lab s) (toTree lab a) k := by
  induction h with
  | refl => exact Sub.refl _
  | child x ks i hi _ ih =>
    rw [toTree]
    refine Sub.child _ _ _ i ?_ ih
    rw [toTreeList_eq_map, List.getElem?_map, hi]
    rfl

theorem explain_depth_shift {α : Type} (lab : α → Bytes × Bool) (a : Ast α) (d k : Nat) :
    explain lab a (d + k) = (explain lab a d).map (indent k) :=
  render_shift _ d k

theorem explain_ne_nil {α : Type} (lab : α → Bytes × Bool) (a : Ast α) (d : Nat) : explain lab a d ≠ [] :=
  render_ne_nil _ d

theorem explain_block {α : Type} (lab : α → Bytes × Bool) {s a : Ast α} {k : Nat} (h : SubAst s a k) :
    ∃ pre post, explain lab a 0 = pre ++ (explain lab s 0).map (indent k) ++ post :=
  subtree_embedded (h.toSub lab)

theorem explain_embedding {α : Type} (lab : α → Bytes × Bool) {s a : Ast α} {k : Nat} (h : SubAst s a k) :
    (embedded (explain lab s 0) (explain lab a 0)).isSome = true :=
  subtree_embedded_isSome (h.toSub lab)

/-- the same query inside two different statements: the SAME block (`explain lab s 0`) occurs in both texts -/
theorem explain_context_free {α : Type} (lab : α → Bytes × Bool) {s a₁ a₂ : Ast α} {k₁ k₂ : Nat}
    (h₁ : SubAst s a₁ k₁) (h₂ : SubAst s a₂ k₂) :
    ∃ pre₁ post₁ pre₂ post₂,
      explain lab a₁ 0 = pre₁ ++ (explain lab s 0).map (indent k₁) ++ post₁ ∧
      explain lab a₂ 0 = pre₂ ++ (explain lab s 0).map (indent k₂) ++ post₂ := by
  obtain ⟨p₁, q₁, e₁⟩ := explain_block lab h₁
  obtain ⟨p₂, q₂, e₂⟩ := explain_block lab h₂
  exact ⟨p₁, q₁, p₂, q₂, e₁, e₂⟩

/-- whatever was printed before, the text of the last call is the text of that call alone -/
theorem explain_history_free {α : Type} (lab : α → Bytes × Bool) (hist : List (Ast α × Nat)) (s : Ast α)
    (d : Nat) : (explainSeq lab (hist ++ [(s, d)])).getLast? = some (explain lab s d) := by
  simp [explainSeq]

/-! ## 4. converse: on well-formed texts a block found by the monitor IS a subtree -/

theorem showDec_inj {n m : Nat} (h : showDec n = showDec m) : n = m := by
  have h' : showDecRev n = showDecRev m := by simpa [showDec] using h
  have := congrArg decValRev h'
  rwa [decValRev_showDecRev, decValRev_showDecRev] at this

theorem nodeGood_decode {l : Bytes} {c : Bool} {ks : List Tree} (hg : nodeGood l c ks = true) (d : Nat) :
    decode (line d l c ks.length) = ⟨d, l, if c then some (showDec ks.length) else none⟩ := by
  simp only [nodeGood, Bool.and_eq_true, Bool.not_eq_eq_eq_not, Bool.not_true, bne_iff_ne, ne_eq,
    Bool.or_eq_true, List.isEmpty_iff, Option.isNone_iff_eq_none] at hg
  obtain ⟨⟨hne, hsp⟩, hc⟩ := hg
  have hne' : l ≠ [] := by simpa using hne
  exact decode_line d l c ks.length hne' hsp (by
    intro hcf; subst hcf; simpa using hc.resolve_left (by simp) |>.2)

theorem nodeGood_leaf {l : Bytes} {ks : List Tree} (hg : nodeGood l false ks = true) : ks = [] := by
  simp only [nodeGood, Bool.and_eq_true, Bool.or_eq_true, List.isEmpty_iff] at hg
  exact (hg.2.resolve_left (by simp)).1

/-- a rendered line determines depth, label, whether a count is printed, and the count -/
theorem line_inj {d d' : Nat} {l l' : Bytes} {c c' : Bool} {ks ks' : List Tree}
    (hg : nodeGood l c ks = true) (hg' : nodeGood l' c' ks' = true)
    (h : line d l c ks.length = line d' l' c' ks'.length) :
    d = d' ∧ l = l' ∧ c = c' ∧ ks.length = ks'.length := by
  have e := congrArg decode h
  rw [nodeGood_decode hg, nodeGood_decode hg'] at e
  simp only [PL.mk.injEq] at e
  obtain ⟨hd, hl, hc⟩ := e
  refine ⟨hd, hl, ?_⟩
  cases c <;> cases c' <;> simp at hc
  · rw [nodeGood_leaf hg, nodeGood_leaf hg']; exact ⟨rfl, rfl⟩
  · exact ⟨rfl, showDec_inj hc⟩

mutual
/-- a rendered good tree is self-delimiting: from `render t d ++ anything` the depth, the tree and the rest
are determined -/
theorem render_prefix_unique : ∀ (t t' : Tree) (d d' : Nat) (r r' : List Line),
    t.good = true → t'.good = true → render t d ++ r = render t' d' ++ r' → d = d' ∧ t = t' ∧ r = r'
  | .node l c ks, .node l' c' ks', d, d', r, r', hg, hg', h => by
    simp only [Tree.good, Bool.and_eq_true] at hg hg'
    simp only [render, List.cons_append, List.cons.injEq] at h
    obtain ⟨hd, hl, hc, hn⟩ := line_inj hg.1 hg'.1 h.1
    subst hd hl hc
    obtain ⟨hk, hr⟩ := renderList_prefix_unique ks ks' (d + 1) r r' hg.2 hg'.2 hn h.2
    subst hk
    exact ⟨rfl, rfl, hr⟩
theorem renderList_prefix_unique : ∀ (ts ts' : List Tree) (d : Nat) (r r' : List Line),
    goodList ts = true → goodList ts' = true → ts.length = ts'.length →
    renderList ts d ++ r = renderList ts' d ++ r' → ts = ts' ∧ r = r'
  | [], [], _, _, _, _, _, _, h => by simpa [renderList] using h
  | [], _ :: _, _, _, _, _, _, hn, _ => by simp at hn
  | _ :: _, [], _, _, _, _, _, hn, _ => by simp at hn
  | t :: ts, t' :: ts', d, r, r', hg, hg', hn, h => by
    simp only [goodList, Bool.and_eq_true] at hg hg'
    simp only [renderList, List.append_assoc] at h
    obtain ⟨_, ht, hr⟩ := render_prefix_unique t t' d d _ _ hg.1 hg'.1 h
    subst ht
    obtain ⟨hts, hr'⟩ := renderList_prefix_unique ts ts' d r r' hg.2 hg'.2 (by simpa using hn) hr
    subst hts
    exact ⟨rfl, hr'⟩
end

mutual
/-- every line of a rendering is the root line of a subtree, whose block starts there -/
theorem render_at : ∀ (t : Tree) (D : Nat) (pre : List Line) (x : Line) (rest : List Line),
    render t D = pre ++ x :: rest →
    ∃ s k post, Sub s t k ∧ x :: rest = render s (D + k) ++ post
  | .node l c ks, D, pre, x, rest, h => by
    cases pre with
    | nil => exact ⟨_, 0, [], Sub.refl _, by simpa using h.symm⟩
    | cons p pre' =>
      simp only [render, List.cons_append, List.cons.injEq] at h
      obtain ⟨t', ht', s, k, post, hs, hx⟩ := renderList_at ks (D + 1) pre' x rest h.2
      have e : D + (k + 1) = D + 1 + k := by omega
      exact ⟨s, k + 1, post, Sub.child_mem l c ht' hs, by rw [hx, e]⟩
theorem renderList_at : ∀ (ts : List Tree) (D : Nat) (pre : List Line) (x : Line) (rest : List Line),
    renderList ts D = pre ++ x :: rest →
    ∃ t', t' ∈ ts ∧ ∃ s k post, Sub s t' k ∧ x :: rest = render s (D + k) ++ post
  | [], _, _, _, _, h => by simp [renderList] at h
  | t :: ts, D, pre, x, rest, h => by
    simp only [renderList] at h
    rcases List.append_eq_append_iff.1 h with ⟨a', ha1, ha2⟩ | ⟨c', hc1, hc2⟩
    · obtain ⟨t', ht', s, k, post, hs, hx⟩ := renderList_at ts D a' x rest ha2
      exact ⟨t', by simp [ht'], s, k, post, hs, hx⟩
    · cases c' with
      | nil =>
        obtain ⟨t', ht', s, k, post, hs, hx⟩ := renderList_at ts D [] x rest (by simpa using hc2.symm)
        exact ⟨t', by simp [ht'], s, k, post, hs, hx⟩
      | cons y c'' =>
        simp only [List.cons_append, List.cons.injEq] at hc2
        obtain ⟨hy, hrest⟩ := hc2
        subst hy
        obtain ⟨s, k, post, hs, hx⟩ := render_at t D pre x c'' hc1
        refine ⟨t, by simp, s, k, post ++ renderList ts D, hs, ?_⟩
        rw [hrest, ← List.append_assoc, ← hx]
        simp
end

theorem goodList_mem {t : Tree} {ks : List Tree} (hg : goodList ks = true) (h : t ∈ ks) : t.good = true := by
  induction ks with
  | nil => simp at h
  | cons u ks ih =>
    simp only [goodList, Bool.and_eq_true] at hg
    simp only [List.mem_cons] at h
    rcases h with h | h
    · subst h; exact hg.1
    · exact ih hg.2 h

theorem Sub.good {s t : Tree} {k : Nat} (h : Sub s t k) (hg : t.good = true) : s.good = true := by
  induction h with
  | refl => exact hg
  | child l c ks i hi _ ih =>
    simp only [Tree.good, Bool.and_eq_true] at hg
    exact ih (goodList_mem hg.2 (List.mem_of_getElem? hi))

/-- **Converse.** If the text of a good tree `s`, every line prefixed by `d` spaces, is a contiguous block
of the text of a good tree `t`, then `s` is a subtree of `t`, exactly `d` levels below its root. -/
theorem block_subtree {s t : Tree} {d : Nat} (hs : s.good = true) (ht : t.good = true)
    (h : ∃ pre post, render t 0 = pre ++ (render s 0).map (indent d) ++ post) : Sub s t d := by
  obtain ⟨pre, post, h⟩ := h
  have e := render_shift s 0 d
  rw [Nat.zero_add] at e
  rw [← e] at h
  cases hr : render s d with
  | nil => exact absurd hr (render_ne_nil s d)
  | cons x rest =>
    rw [hr, List.append_assoc, List.cons_append] at h
    obtain ⟨u, k, post', hu, hx⟩ := render_at t 0 pre x (rest ++ post) h
    rw [← List.cons_append, ← hr, Nat.zero_add] at hx
    obtain ⟨hd, hsu, _⟩ := render_prefix_unique s u d k post post' hs (hu.good ht) hx
    subst hd hsu
    exact hu

/-- for good trees: "occurs as a uniformly indented block" = "is a subtree at that depth" -/
theorem Sub_iff_block {s t : Tree} (hs : s.good = true) (ht : t.good = true) (d : Nat) :
    Sub s t d ↔ ∃ pre post, render t 0 = pre ++ (render s 0).map (indent d) ++ post :=
  ⟨subtree_embedded, block_subtree hs ht⟩

/-- **Converse, on texts.** Both texts pass the C04 monitor and the C07 monitor answers `some d`: then the
(unique) tree of `inner` is a subtree of the (unique) tree of `outer`, exactly `d` levels down.
(`check inner = true` already excludes `inner = []`.) -/
theorem embedded_subtree {inner outer : List Line} {d : Nat}
    (hi : check inner = true) (ho : check outer = true) (he : embedded inner outer = some d) :
    ∃ ti to, render ti 0 = inner ∧ render to 0 = outer ∧ ti.good = true ∧ to.good = true ∧ Sub ti to d := by
  obtain ⟨ti, hti, gi⟩ := (check_iff inner).1 hi
  obtain ⟨to, hto, go⟩ := (check_iff outer).1 ho
  obtain ⟨pre, post, hp, _, _⟩ := (embedded_eq_some_iff inner outer d).1 he
  refine ⟨ti, to, hti, hto, gi, go, block_subtree gi go ⟨pre, post, ?_⟩⟩
  rw [hti, hto]
  exact hp

end DC.Proofs.TreeEmbed
