import DC.Proofs.SkelCalls

/-! C02: must-termination of the skeleton program from (a) loop certificates, (b) function contracts and (c) the rank
    check of the non-advancing call graph.  Well-founded induction on (tokens left, rank at the current kind) with a
    structural induction over the function body inside. -/

namespace DC.Model.Skel

/-- `Term P ks A c i`: every run of `c` from token index `i` terminates (there is no infinite run), where code not
    looked into (`call adv`) is TAKEN to terminate, and a loop whose body satisfies `A` (finite by construction, or on
    the reviewed list) is TAKEN to run finitely often — each of its iterations must still be shown to terminate.
    Inductive characterisation of must-termination for the nondeterministic big-step semantics `Exec`:
    a sequence terminates if its first part does and the second does from wherever the first can end, a loop
    terminates if its body does and the loop does from wherever a back edge can lead, … -/
inductive Term (P : Prog) (ks : List Nat) (A : Cmd → Prop) : Cmd → Nat → Prop
  | skip {i} : Term P ks A .skip i
  | next {i} : Term P ks A .next i
  | assume {S i} : Term P ks A (.assume S) i
  | call {adv i} : Term P ks A (.call adv) i
  | callF {f v i} : Term P ks A (P.body f) i → Term P ks A (.callF f v) i
  | seq {a b i} : Term P ks A a i → (∀ j, Exec P ks a i .norm j → Term P ks A b j) → Term P ks A (.seq a b) i
  | alt {a b i} : Term P ks A a i → Term P ks A b i → Term P ks A (.alt a b) i
  | cont {i} : Term P ks A .cont i
  | ret {v i} : Term P ks A (.ret v) i
  | jump {l i} : Term P ks A (.jump l) i
  | block {l c i} : Term P ks A c i → Term P ks A (.block l c) i
  | loop {c i} : Term P ks A c i →
      (∀ o j, Exec P ks c i o j → (o = .norm ∨ o = .cont) → Term P ks A (.loop c) j) → Term P ks A (.loop c) i
  | loopA {c i} : A c → (∀ j, i ≤ j → j ≤ ks.length → Term P ks A c j) → Term P ks A (.loop c) i
  | guard {c a b i} : Term P ks A c i → (Exec P ks c i .norm i → Term P ks A a i) →
      (∀ j, Exec P ks c i .norm j → j ≠ i → Term P ks A b j) → Term P ks A (.guard c a b) i

variable {P : Prog} {ks : List Nat}

/-- Structural step: inside the body of `f`, entered at `i0`, every sub-command terminates from every state the
    analysis describes, provided (H1) every function terminates from later indices and (H2) every function of smaller
    rank at the current kind terminates from `i0`. -/
theorem term_cmd (hP : ∀ f, funOK P f = true) (hks : WF ks) {ranks : Array RankTbl} {isA : Cmd → Bool}
    {f i0 : Nat}
    (H1 : ∀ g j, i0 < j → j ≤ ks.length → Term P ks (fun c => isA c = true) (P.body g) j)
    (H2 : ∀ g, rankOf (ranks.getD g []) (cur ks i0) < rankOf (ranks.getD f []) (cur ks i0) →
      Term P ks (fun c => isA c = true) (P.body g) i0) :
    ∀ c, loopsCert P isA c = true → ∀ j st, Desc ks i0 j st → j ≤ ks.length →
      (∀ p ∈ sites P c st, siteOK ranks f p = true) → Term P ks (fun c => isA c = true) c j := by
  intro c
  induction c with
  | skip => intros; exact .skip
  | next => intros; exact .next
  | assume => intros; exact .assume
  | call => intros; exact .call
  | cont => intros; exact .cont
  | ret => intros; exact .ret
  | jump => intros; exact .jump
  | callF g v =>
    intro _ j st hd hj hs
    apply Term.callF
    rcases hd with ⟨he, hb⟩ | ⟨hlt, _⟩
    · subst he
      have hso := hs (g, st.1) (by simp [sites])
      exact H2 g (site_rank (cur_lt hks j) hso hb)
    · exact H1 g j hlt hj
  | seq a b iha ihb =>
    intro hl j st hd hj hs
    simp only [loopsCert, Bool.and_eq_true] at hl
    refine .seq (iha hl.1 j st hd hj (fun p hp => hs p (by simp only [sites, List.mem_append]; left; exact hp))) ?_
    intro k hex
    have hn := ana_sound hP hks hex i0 st hd
    simp only [pick] at hn
    exact ihb hl.2 k _ hn (exec_le_len hex hj) (fun p hp => hs p (by simp only [sites, List.mem_append]; right; exact hp))
  | alt a b iha ihb =>
    intro hl j st hd hj hs
    simp only [loopsCert, Bool.and_eq_true] at hl
    exact .alt (iha hl.1 j st hd hj (fun p hp => hs p (by simp only [sites, List.mem_append]; left; exact hp)))
      (ihb hl.2 j st hd hj (fun p hp => hs p (by simp only [sites, List.mem_append]; right; exact hp)))
  | block l c ih =>
    intro hl j st hd hj hs
    simp only [loopsCert] at hl
    exact .block (ih hl j st hd hj (fun p hp => hs p (by simpa only [sites] using hp)))
  | loop c ih =>
    intro hl j st hd hj hs
    simp only [loopsCert, Bool.and_eq_true, Bool.or_eq_true] at hl
    rcases hl.1 with hok | hA
    · -- certified loop: induction on the number of tokens left
      have hs' : ∀ p ∈ sites P c st.widen, siteOK ranks f p = true := fun p hp => hs p (by simpa only [sites] using hp)
      have key : ∀ n k, ks.length - k = n → Desc ks i0 k st.widen → k ≤ ks.length →
          Term P ks (fun c => isA c = true) (.loop c) k := by
        intro n
        induction n using Nat.strongRecOn with
        | _ n ihn =>
          intro k hn hdk hk
          refine .loop (ih hl.2 k _ hdk hk hs') ?_
          intro o k' hex hb
          have hlt := loop_progress hP hks hok hex hb
          have hk' := exec_le_len hex hk
          have hdk' : Desc ks i0 k' st.widen := by
            have := desc_widen_mono hks hdk (Nat.le_of_lt hlt)
            rwa [widen_idem] at this
          exact ihn (ks.length - k') (by omega) k' rfl hdk' hk'
      exact key _ j rfl (desc_widen_mono hks hd (Nat.le_refl _)) hj
    · refine .loopA hA ?_
      intro k hjk hk
      exact ih hl.2 k _ (desc_widen_mono hks hd hjk) hk (fun p hp => hs p (by simpa only [sites] using hp))
  | guard c a b ihc iha ihb =>
    intro hl j st hd hj hs
    simp only [loopsCert, Bool.and_eq_true] at hl
    refine .guard (ihc hl.1.1 j st hd hj (fun p hp => hs p (by simp only [sites, List.mem_append]; left; left; exact hp))) ?_ ?_
    · intro hex
      have hn := ana_sound hP hks hex i0 st hd
      simp only [pick] at hn
      exact iha hl.1.2 j _ hn hj (fun p hp => hs p (by simp only [sites, List.mem_append]; left; right; exact hp))
    · intro k hex hne
      have hn := ana_sound hP hks hex i0 st hd
      simp only [pick] at hn
      have hjk := exec_mono hex
      have hi0 := hd.le
      have hm : Desc ks i0 k (0, (ana P c st).norm.2) := by
        rcases hn with ⟨he, _⟩ | ⟨hlt, hb⟩
        · omega
        · right; exact ⟨hlt, hb⟩
      exact ihb hl.2 k _ hm (exec_le_len hex hj) (fun p hp => hs p (by simp only [sites, List.mem_append]; right; exact hp))

/-- **Termination of the skeleton program.**  If all contracts check, the ranks decrease along non-advancing calls, and
    every loop in every function body is certified or reviewed, then every call of every function terminates from every
    token index (taking the loops in `isA` to run finitely often and the code not looked into to terminate). -/
theorem terminates (hP : ∀ f, funOK P f = true) (hks : WF ks) {ranks : Array RankTbl} {isA : Cmd → Bool}
    (hr : ∀ f, rankOK P ranks f = true) (hl : ∀ f, loopsCert P isA (P.body f) = true) :
    ∀ f i, i ≤ ks.length → Term P ks (fun c => isA c = true) (P.body f) i := by
  have main : ∀ n, ∀ r, ∀ f i, ks.length - i = n → i ≤ ks.length → rankOf (ranks.getD f []) (cur ks i) = r →
      Term P ks (fun c => isA c = true) (P.body f) i := by
    intro n
    induction n using Nat.strongRecOn with
    | _ n ihn =>
      intro r
      induction r using Nat.strongRecOn with
      | _ r ihr =>
        intro f i hn hi hrk
        have hd : Desc ks i i (ALL, 0) := by left; exact ⟨rfl, all_testBit (cur_lt hks i)⟩
        have hsites : ∀ p ∈ sites P (P.body f) (ALL, 0), siteOK ranks f p = true := by
          have := hr f
          unfold rankOK at this
          rw [List.all_eq_true] at this
          exact this
        refine term_cmd hP hks (f := f) (i0 := i) ?_ ?_ (P.body f) (hl f) i _ hd hi hsites
        · intro g j hlt hj
          exact ihn (ks.length - j) (by omega) _ g j rfl hj rfl
        · intro g hg
          exact ihr _ (by omega) g i hn hi rfl
  intro f i hi
  exact main _ _ f i rfl hi rfl

theorem loopsCert_beyond {isA : Cmd → Bool} {f : Nat} (hf : P.funs.size ≤ f) : loopsCert P isA (P.body f) = true := by
  have hb : P.body f = .skip := by
    unfold Prog.body; rw [Array.getD_eq_getD_getElem?, Array.getElem?_eq_none (by omega)]; rfl
  rw [hb]; rfl

theorem loopsCert_all {isA : Cmd → Bool} (h : (List.range P.funs.size).all (fun f => loopsCert P isA (P.body f)) = true) :
    ∀ f, loopsCert P isA (P.body f) = true := by
  intro f
  by_cases hf : f < P.funs.size
  · rw [List.all_eq_true] at h
    exact h f (List.mem_range.mpr hf)
  · exact loopsCert_beyond (by omega)

end DC.Model.Skel
