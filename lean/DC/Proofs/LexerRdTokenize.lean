import DC.Proofs.LexerRdDollar

/-!
# `runL` of the reader-interface lexer is the pure lexer model: `NextToken`, `Tokenize`
-/
set_option linter.unusedSimpArgs false

namespace DC.LexerRd
open DC DC.Utf8 DC.Gen.Tokens DC.Lexer DC.Rd DC.Bufio
open DC.Rd.RdM (runL lrune lpeek)

theorem nextTokenSwitchM_pure (f : Nat) (s : LState) (h : s.measure < f) (r : Tok × LState)
    (hr : nextTokenSwitch s = .ok r) :
    runL (nextTokenSwitchM f s.m) s.rest = (.ok (r.1, r.2.m), r.2.rest) := by
  unfold nextTokenSwitch at hr
  unfold nextTokenSwitchM
  cases hk : singleCharKind s.ch with
  | some k =>
    simp only [hk, Except.ok.injEq] at hr
    subst hr
    simp only [runL_bind, readCharM_pure, bindRes_ok, runL_pure, tokAtM_m]
  | none =>
    simp only [hk] at hr
    simp only [runL_bind, readOperatorM_pure]
    cases ho : readOperator s with
    | some x =>
      simp only [ho, Except.ok.injEq] at hr
      subst hr
      simp only [opRes, bindRes_ok, runL_pure]
    | none =>
      simp only [ho] at hr
      simp only [opRes, bindRes_ok, runL_ite]
      by_cases c1 : s.ch = 123
      · simp only [if_pos c1, Except.ok.injEq] at hr ⊢; subst hr; exact readParameterM_pure f s h
      simp only [if_neg c1] at hr ⊢
      by_cases c2 : s.ch = 46
      · simp only [if_pos c2, Except.ok.injEq] at hr ⊢; subst hr; exact readDotM_pure f s h
      simp only [if_neg c2] at hr ⊢
      by_cases c3 : s.ch = 36
      · simp only [if_pos c3] at hr ⊢; exact readDollarM_pure f s h r hr
      simp only [if_neg c3] at hr ⊢
      by_cases c4 : s.ch = 39
      · simp only [if_pos c4, Except.ok.injEq] at hr ⊢; subst hr; exact readStringM_pure f 39 s h
      simp only [if_neg c4] at hr ⊢
      by_cases c5 : s.ch = 0x2018 ∨ s.ch = 0x2019
      · simp only [if_pos c5, Except.ok.injEq] at hr ⊢; subst hr; exact readUnicodeStringM_pure f s.ch s h
      simp only [if_neg c5] at hr ⊢
      by_cases c6 : s.ch = 34
      · simp only [if_pos c6, Except.ok.injEq] at hr ⊢; subst hr; exact readQuotedIdentifierM_pure f s h
      simp only [if_neg c6] at hr ⊢
      by_cases c7 : s.ch = 0x201C ∨ s.ch = 0x201D
      · simp only [if_pos c7, Except.ok.injEq] at hr ⊢; subst hr; exact readUnicodeQuotedIdentifierM_pure f s.ch s h
      simp only [if_neg c7] at hr ⊢
      by_cases c8 : s.ch = 96
      · simp only [if_pos c8, Except.ok.injEq] at hr ⊢; subst hr; exact readBacktickIdentifierM_pure f s h
      simp only [if_neg c8] at hr ⊢
      by_cases c9 : s.ch = 64
      · simp only [if_pos c9, Except.ok.injEq] at hr ⊢; subst hr; exact readAtM_pure f s h
      simp only [if_neg c9] at hr ⊢
      by_cases c10 : isDigit s.ch = true
      · simp only [if_pos c10, Except.ok.injEq] at hr ⊢; subst hr; exact readNumberOrIdentM_pure f s h
      simp only [if_neg c10] at hr ⊢
      by_cases c11 : isIdentStart s.ch = true
      · simp only [if_pos c11] at hr ⊢; exact readIdentifierM_pure f s h r hr
      simp only [if_neg c11, Except.ok.injEq] at hr ⊢
      subst hr
      simp only [runL_bind, readCharM_pure, bindRes_ok, runL_pure, tokAtM_m]

theorem nextTokenM_pure (f : Nat) (s : LState) (h : s.measure < f) :
    runL (nextTokenM f s.m) s.rest = (.ok ((nextToken s).1, (nextToken s).2.m), (nextToken s).2.rest) := by
  have hr := nextTokenE_eq s
  generalize nextToken s = r at hr ⊢
  unfold nextTokenE at hr
  unfold nextTokenM
  simp only [] at hr
  have hw : (skipWhitespace s).measure < f := fuel_ok h (skipWhitespace_steps (Steps.refl _))
  simp only [runL_bind, skipWhitespaceM_pure f s h, bindRes_ok, runL_ite]
  generalize skipWhitespace s = w at hr hw ⊢
  by_cases c0 : w.eof = true ∨ w.ch = 0
  · simp only [if_pos c0, Except.ok.injEq] at hr ⊢; subst hr; simp only [runL_pure, tokAtM_m]
  simp only [if_neg c0] at hr ⊢
  simp only [runL_bind, chPeekIs_pure, bindRes_ok, decide_eq_true_eq, runL_ite]
  by_cases c1 : w.ch = 45 ∧ peekChar w = 45
  · simp only [if_pos c1, Except.ok.injEq] at hr ⊢; subst hr; exact readLineCommentM_pure f w hw
  simp only [if_neg c1] at hr ⊢
  by_cases c2 : w.ch = 35
  · simp only [if_pos c2, Except.ok.injEq] at hr ⊢; subst hr; exact readHashCommentM_pure f w hw
  simp only [if_neg c2] at hr ⊢
  by_cases c3 : w.ch = 47 ∧ peekChar w = 42
  · simp only [if_pos c3, Except.ok.injEq] at hr ⊢; subst hr; exact readBlockCommentM_pure f w hw
  simp only [if_neg c3] at hr ⊢
  by_cases c4 : w.ch = 0x2212
  · simp only [if_pos c4, Except.ok.injEq] at hr ⊢; subst hr; exact readUnicodeMinusCommentM_pure f w hw
  simp only [if_neg c4] at hr ⊢
  exact nextTokenSwitchM_pure f w hw r hr

theorem tokenizeLoopM_pure :
    ∀ (f : Nat) (s : LState) (acc : List Tok) (l : List Tok), s.measure < f → Trace s l →
      (runL (tokenizeLoopM f s.m acc) s.rest).1 = .ok (acc.reverse ++ l) := by
  intro f
  induction f with
  | zero => intro s acc l h; omega
  | succ f ih =>
    intro s acc l h ht
    simp only [tokenizeLoopM, runL_bind, nextTokenM_pure (f + 1) s h, bindRes_ok, runL_ite]
    cases ht with
    | eof hk => simp [hk]
    | cons hk ht' =>
      simp only [if_neg hk]
      have hm := nextToken_measure hk
      rw [ih _ _ _ (by omega) ht']
      simp

/-- **the reader-interface lexer run over the bytes is the pure lexer model**, for every fuel above `2·|b|`. -/
theorem tokenizeM_pure (b : Bytes) (fuel : Nat) (hf : 2 * b.length < fuel) :
    (runL (tokenizeM fuel) b).1 = .ok (lex b) := by
  have hm := new_measure_le b
  simp only [tokenizeM, runL_bind, newM_pure, bindRes_ok]
  rw [tokenizeLoopM_pure fuel (new b) [] (lex b) (by omega) (lex_trace b)]
  rfl

end DC.LexerRd
