import DC.Model.ExplainExpr
import DC.Model.Pratt

/-!
# The fused flattening is "collect the operands, then print each"

The Go code prints a `||` / `AND` / `OR` node in two steps (expressions.go:452-471):
`operands := collectConcatOperands(n)` resp. `collectLogicalOperands(n)`, then
`ExpressionList (children len(operands))` and `for _, op := range operands { Node(sb, op, depth+2) }`.
`DC.Model.ExplainExpr.items` fuses the two steps (the `Mode` argument) so that it is a structural recursion.
Here the collectors are written out as the Go code has them (`collectOperands`), and the fused printer is proved equal
to the two-step one (`items_binary_collect`); `opCount` is the length of the collected list.

Also: on the operator table the function names are those of the C08 model (`DC.Model.Pratt.operatorToFunction`).
-/
namespace DC.Proofs.ExplainExpr
open DC DC.Model.ExplainExpr

/-- an operand position of the collectors: `if x, ok := e.(*ast.BinaryExpr); ok && <test> { collect…(x)… } else { append(e) }`
(expressions.go:485-496, 509-521), with `collect…(x) = operands(x.Left) ++ operands(x.Right)` -/
def operands (m : Mode) : Expr → List Expr
  | .binary op l r p => if m.flat op p then operands m l ++ operands m r else [.binary op l r p]
  | e => [e]

/-- `collectConcatOperands(n)` / `collectLogicalOperands(n)` for `n = BinaryExpr{Op: op, Left: l, Right: r}` -/
def collectOperands (op : String) (l r : Expr) : List Expr :=
  operands (modeFor op) l ++ operands (modeFor op) r

theorem opCount_eq_length (m : Mode) : ∀ e : Expr, opCount m e = (operands m e).length
  | .binary op l r p => by
    simp only [opCount, operands]
    split
    · simp [opCount_eq_length m l, opCount_eq_length m r]
    · rfl
  | .ident _ _ | .lit _ _ _ | .arr _ _ | .tup _ _ | .func _ _ _ _ _ | .unary _ _ | .arrayAccess _ _ | .tupleAccess _ _
  | .isNull _ _ | .between _ _ _ _ | .inList _ _ _ _ _ | .case_ _ _ _ _ | .cast _ _ _ _ | .castDyn _ _ _ _ | .lambda _ _ | .ternary _ _ _
  | .aliased _ _ | .other _ => by simp [opCount, operands]

/-- a node that the collectors do not descend into is printed by `Node`, whatever chain it is an operand of -/
theorem items_mode_irrelevant (m : Mode) (al : Option Bytes) (e : Expr) (d : Nat)
    (h : ∀ op l r p, e = .binary op l r p → m.flat op p = false) :
    items m al e d = items .node al e d := by
  cases e with
  | binary op l r p =>
    have := h op l r p rfl
    have hn : Mode.flat .node op p = false := rfl
    simp only [items, this, hn, Bool.false_eq_true, ↓reduceIte]
  | inList e list n g tc =>
    match list with
    | [] => rfl
    | [_] => rfl
    | _ :: _ :: _ => rfl
  | case_ operand whens els alias => cases operand <;> cases els <;> rfl
  | func name args params distinct alias => cases params <;> rfl
  | _ => rfl

/-- **fused = two-step**: in an operand position the fused printer prints the collected operands one after the other -/
theorem items_operands (m : Mode) : ∀ (e : Expr) (d : Nat),
    items m none e d = (operands m e).flatMap (fun x => items .node none x d)
  | .binary op l r p, d => by
    by_cases hf : m.flat op p = true
    · simp only [items, operands, hf, ↓reduceIte, List.flatMap_append, items_operands m l d, items_operands m r d]
    · have hf' : m.flat op p = false := by simpa using hf
      rw [items_mode_irrelevant m none _ d (by intro o a c q hq; cases hq; exact hf')]
      simp [operands, hf']
  | .ident _ _, d | .lit _ _ _, d | .arr _ _, d | .tup _ _, d | .func _ _ _ _ _, d | .unary _ _, d | .arrayAccess _ _, d
  | .tupleAccess _ _, d | .isNull _ _, d | .between _ _ _ _, d | .inList _ _ _ _ _, d | .case_ _ _ _ _, d | .cast _ _ _ _, d | .castDyn _ _ _ _, d
  | .lambda _ _, d | .ternary _ _ _, d | .aliased _ _, d | .other _, d => by
    rw [items_mode_irrelevant m none _ d (by intro o a c q hq; cases hq)]
    simp [operands]

/-- **explainBinaryExpr as written** (expressions.go:447-478; with an alias: 736-760): the header, the operand list with
`len(operands)` (the constant 2 for the other operators), then `Node` on every collected operand. -/
theorem items_binary_collect (al : Option Bytes) (op : String) (l r : Expr) (p : Bool) (d : Nat) (fn : Bytes)
    (h : binFn op = some fn) :
    items .node al (.binary op l r p) d =
      fnItem d fn (al.map escapeAlias) 1 ::
        elItem (d + 1) (match modeFor op with | .node => 2 | _ => (collectOperands op l r).length) ::
        (collectOperands op l r).flatMap (fun x => items .node none x (d + 2)) := by
  have hc : binaryCount op l r = (match modeFor op with | .node => 2 | _ => (collectOperands op l r).length) := by
    unfold binaryCount collectOperands
    cases hm : modeFor op <;> simp [opCount_eq_length]
  have hn : Mode.flat .node op p = false := rfl
  rw [items]
  simp only [hn, Bool.false_eq_true, ↓reduceIte, h, hc]
  rw [items_operands, items_operands]
  simp only [collectOperands, List.flatMap_append]

/-- for the operators that are not flattened the collected list is `[Left, Right]` -/
theorem collectOperands_plain (op : String) (l r : Expr) (h : modeFor op = .node) : collectOperands op l r = [l, r] := by
  have : ∀ e, operands .node e = [e] := by
    intro e; cases e <;> simp [operands, Mode.flat]
  simp [collectOperands, h, this]

/-- the operator table is the one of the C08 model: same function names -/
theorem binFn_pratt (op : String) (fn : String) (h : Gen.OpFn.binOpFn.lookup op = some fn) :
    binFn op = some (b fn) ∧ DC.Model.Pratt.operatorToFunction op = fn := by
  simp [binFn, DC.Model.Pratt.operatorToFunction, h]

theorem unFn_pratt (op : String) (fn : String) (h : Gen.OpFn.unaryOpFn.lookup op = some fn) :
    unFn op = some (b fn) ∧ DC.Model.Pratt.unaryOperatorToFunction op = fn := by
  simp [unFn, DC.Model.Pratt.unaryOperatorToFunction, h]

end DC.Proofs.ExplainExpr
