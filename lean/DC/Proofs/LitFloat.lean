import DC.Model.FloatFmt
import DC.Spec.LitSpec

/-! Lemmas for C09: `FormatFloat`'s notation and string edits equal ClickHouse's layout, for every shortest decimal. -/
namespace DC.Proofs.LitFloat
open DC DC.Model.FloatFmt DC.Spec.LitSpec

/-! ## `strings.Replace(_, "e…", _, 1)` passes over text without `e` -/

theorem stripPrefix_e_none (o : List Char) (c : Char) (s : List Char) (h : c ≠ 'e') :
    stripPrefix? ('e' :: o) (c :: s) = none := by
  simp [stripPrefix?, Ne.symm h]

theorem replaceFirst_skip (o new pre s : List Char) (h : ∀ c ∈ pre, c ≠ 'e') :
    replaceFirst ('e' :: o) new (pre ++ s) = pre ++ replaceFirst ('e' :: o) new s := by
  induction pre with
  | nil => rfl
  | cons c pre ih =>
    have hc : c ≠ 'e' := h c (by simp)
    rw [List.cons_append, replaceFirst, stripPrefix_e_none o c _ hc]
    simp only [List.cons_append, List.cons.injEq, true_and]
    exact ih (fun x hx => h x (by simp [hx]))

/-- the three edits of format.go:30-33. -/
def edits (s : List Char) : List Char :=
  replaceFirst ['e', '+'] ['e'] (replaceFirst ['e', '+', '0'] ['e', '+'] (replaceFirst ['e', '-', '0'] ['e', '-'] s))

theorem edits_skip (pre s : List Char) (h : ∀ c ∈ pre, c ≠ 'e') : edits (pre ++ s) = pre ++ edits s := by
  simp only [edits, replaceFirst_skip _ _ pre _ h]

/-- exponent part as `%e` writes it, and as ClickHouse writes it. -/
def goTail (neg : Bool) (n : Nat) : List Char := ['e', if neg then '-' else '+'] ++ expDigits n
def chTail (neg : Bool) (n : Nat) : List Char := 'e' :: ((if neg then ['-'] else []) ++ natDigits n)

/-- strip `+`, strip one leading exponent zero: checked for every exponent strconv can print. -/
theorem edits_tail : ∀ n, n < 1000 → (edits (goTail true n) = chTail true n ∧ edits (goTail false n) = chTail false n) := by
  decide +kernel

/-- digits of a shortest decimal: non-empty, ASCII digits only. -/
def WF (d : ShortDec) : Prop := d.digits ≠ [] ∧ ∀ c ∈ d.digits, c.isDigit = true

theorem digit_ne_e (c : Char) (h : c.isDigit = true) : c ≠ 'e' := by
  intro he; subst he; simp [Char.isDigit] at h

theorem fmtE_split (d : ShortDec) (c : Char) (rest : List Char) (hd : d.digits = c :: rest) :
    fmtE d = ((if d.neg then ['-'] else []) ++ c :: (if rest.isEmpty then [] else '.' :: rest)) ++
      goTail (decide (d.exp10 < 0)) d.exp10.natAbs := by
  simp only [fmtE, hd, goTail]
  by_cases h : d.exp10 < 0 <;> simp [h]

theorem sci_eq (d : ShortDec) (hw : WF d) (he : d.exp10.natAbs < 1000) :
    edits (fmtE d) =
      (if d.neg then ['-'] else []) ++ d.digits.take 1 ++ (if d.digits.length > 1 then '.' :: d.digits.drop 1 else []) ++
        'e' :: ((if d.exp10 < 0 then ['-'] else []) ++ natDigits d.exp10.natAbs) := by
  obtain ⟨hne, hdig⟩ := hw
  match hd : d.digits, hne with
  | c :: rest, _ =>
    rw [fmtE_split d c rest hd, edits_skip]
    · have ht := edits_tail d.exp10.natAbs he
      by_cases h : d.exp10 < 0
      · simp only [h, decide_true, ht.1, chTail, if_true]
        cases rest <;> simp
      · simp only [h, decide_false, ht.2, chTail, if_false]
        cases rest <;> simp
    · intro x hx
      have hall : ∀ y ∈ c :: rest, y ≠ 'e' := fun y hy => digit_ne_e y (hdig y (hd ▸ hy))
      simp only [List.mem_append, List.mem_cons] at hx
      rcases hx with hx | hx | hx
      · split at hx
        · simp at hx; subst hx; decide
        · simp at hx
      · subst hx; exact hall _ (by simp)
      · split at hx
        · simp at hx
        · simp only [List.mem_cons] at hx
          rcases hx with hx | hx
          · subst hx; decide
          · exact hall _ (by simp [hx])

/-! ## `%f` -/

theorem range_map_getD (ds : List Char) (k : Nat) :
    (List.range (ds.length - k)).map (fun i => ds.getD (k + i) '0') = ds.drop k := by
  apply List.ext_getElem
  · simp
  · intro i h1 h2
    simp at h1
    simp [List.getD_eq_getElem?_getD]
    rw [List.getElem?_eq_getElem (by omega)]
    rfl

theorem digitAt_nat (ds : List Char) (j : Nat) (h : j < ds.length) : digitAt ds (j : Int) = ds.getD j '0' := by
  have : (0 : Int) ≤ j ∧ (j : Int) < ds.length := by omega
  simp [digitAt, this]

theorem fix_eq (d : ShortDec) (hw : WF d) (h1 : -6 ≤ d.exp10) (h2 : d.exp10 < 21) :
    fmtF d = clickhouseFloatStyle d.neg d.digits d.exp10 := by
  obtain ⟨hne, _⟩ := hw
  have hlen : 0 < d.digits.length := List.length_pos_iff.mpr hne
  have hc : -6 ≤ d.exp10 ∧ d.exp10 < 21 := ⟨h1, h2⟩
  simp only [clickhouseFloatStyle, hc, and_self, if_true]
  by_cases hneg : d.exp10 < 0
  · -- 0.000ddd
    have hdp : ¬ (d.exp10 + 1 > 0) := by omega
    obtain ⟨k, hk⟩ : ∃ k : Nat, d.exp10 + 1 = -(k : Int) := ⟨(-(d.exp10 + 1)).toNat, by omega⟩
    have hprec : ((d.digits.length : Int) - (d.exp10 + 1)).toNat = k + d.digits.length := by omega
    have hz : (-d.exp10 - 1).toNat = k := by omega
    simp only [fmtF, hneg, hdp, if_true, if_false, hprec, hz]
    have hpos : k + d.digits.length > 0 := by omega
    simp only [hpos, if_true]
    rw [List.range_add, List.map_append, List.map_map]
    have e1 : (List.range k).map (fun (i : Nat) => digitAt d.digits (d.exp10 + 1 + (i : Int))) = List.replicate k '0' := by
      apply List.ext_getElem
      · simp
      · intro i a b
        simp at a
        have : ¬ ((0 : Int) ≤ d.exp10 + 1 + (i : Int) ∧ d.exp10 + 1 + (i : Int) < d.digits.length) := by omega
        simp [digitAt, this]
    have e2 : (List.range d.digits.length).map ((fun (i : Nat) => digitAt d.digits (d.exp10 + 1 + (i : Int))) ∘ (fun x => k + x)) =
        d.digits := by
      have := range_map_getD d.digits 0
      simp only [Nat.sub_zero, Nat.zero_add, List.drop_zero] at this
      refine Eq.trans ?_ this
      apply List.map_congr_left
      intro i hi
      simp at hi
      simp only [Function.comp]
      have e : d.exp10 + 1 + ((k + i : Nat) : Int) = (i : Int) := by omega
      rw [e, digitAt_nat _ _ hi]
    rw [e1, e2]
    simp
  · -- ddd[.ddd] or ddd000
    have hdp : d.exp10 + 1 > 0 := by omega
    obtain ⟨k, hk⟩ : ∃ k : Nat, d.exp10 + 1 = (k : Int) := ⟨(d.exp10 + 1).toNat, by omega⟩
    have hk' : d.exp10.toNat + 1 = k := by omega
    simp only [fmtF, hneg, hdp, if_true, if_false, hk']
    by_cases hle : d.digits.length ≤ k
    · have m : (min (d.digits.length : Int) (d.exp10 + 1)).toNat = d.digits.length := by omega
      have z : (d.exp10 + 1 - min (d.digits.length : Int) (d.exp10 + 1)).toNat = k - d.digits.length := by omega
      have p : ¬ ((d.digits.length : Int) - (d.exp10 + 1)).toNat > 0 := by omega
      simp [hle, m, z, p]
    · have m : (min (d.digits.length : Int) (d.exp10 + 1)).toNat = k := by omega
      have z : (d.exp10 + 1 - min (d.digits.length : Int) (d.exp10 + 1)).toNat = 0 := by omega
      have p : ((d.digits.length : Int) - (d.exp10 + 1)).toNat = d.digits.length - k := by omega
      have p0 : d.digits.length - k > 0 := by omega
      simp only [hle, m, z, p, p0, if_true, if_false, List.replicate_zero, List.append_nil]
      have e : (List.range (d.digits.length - k)).map (fun (i : Nat) => digitAt d.digits (d.exp10 + 1 + (i : Int))) =
          d.digits.drop k := by
        rw [← range_map_getD]
        apply List.map_congr_left
        intro i hi
        simp at hi
        have : d.exp10 + 1 + (i : Int) = ((k + i : Nat) : Int) := by omega
        rw [this, digitAt_nat _ _ (by omega)]
      rw [e]

/-- `FormatFloat` = ClickHouse's layout, for every shortest decimal whose exponent strconv can print. -/
theorem formatFloat_eq (d : ShortDec) (hw : WF d) (he : d.exp10.natAbs < 1000) :
    formatFloat d = clickhouseFloatStyle d.neg d.digits d.exp10 := by
  by_cases hu : useExp d = true
  · have hc : ¬ (-6 ≤ d.exp10 ∧ d.exp10 < 21) := by
      simp [useExp] at hu; omega
    have := sci_eq d hw he
    simp only [edits] at this
    simp only [formatFloat, hu, if_true, this, clickhouseFloatStyle, hc, if_false]
  · have hc : -6 ≤ d.exp10 ∧ d.exp10 < 21 := by
      simp [useExp] at hu; omega
    simp only [formatFloat, hu, Bool.false_eq_true, if_false]
    exact fix_eq d hw hc.1 hc.2

end DC.Proofs.LitFloat
