import DC.Proofs.LitInt

/-! Lemmas for C09: `0x…` / `0b…` integer literals are read by value. -/
namespace DC.Proofs.LitHex
open DC DC.Model.Number DC.Model.FloatFmt DC.Spec.LitSpec DC.Proofs.LitInt

def hexCharOK (c : UInt8) : Bool :=
  match hexCharVal c with
  | some d => decide (digitVal c = some d) && c != 95 && c != 112 && c != 80 && c != 46
  | none => true

theorem hexChar_table : ∀ n, n < 256 → hexCharOK (UInt8.ofNat n) = true := by decide +kernel

theorem hexChar (c : UInt8) (d : Nat) (h : hexCharVal c = some d) :
    digitVal c = some d ∧ c ≠ 95 ∧ c ≠ 112 ∧ c ≠ 80 ∧ c ≠ 46 := by
  have := hexChar_table c.toNat c.toNat_lt
  rw [UInt8.ofNat_toNat] at this
  simp only [hexCharOK, h, Bool.and_eq_true, decide_eq_true_eq, bne_iff_ne] at this
  obtain ⟨⟨⟨⟨a, b⟩, c⟩, d⟩, e⟩ := this
  exact ⟨a, b, c, d, e⟩

/-- the spec's fold, from an arbitrary accumulator. -/
def foldVal (base : Nat) (cs : Bytes) (a : Option Nat) : Option Nat := cs.foldl (baseStep base) a

theorem foldVal_none (base : Nat) (cs : Bytes) : foldVal base cs none = none := by
  induction cs with
  | nil => rfl
  | cons c cs ih => simpa [foldVal, baseStep] using ih

theorem accum_of_foldVal (base : Nat) (cs : Bytes) (m n : Nat) (h : foldVal base cs (some m) = some n) :
    accum base true cs m = some n ∧ (∀ c ∈ cs, c ≠ 95 ∧ c ≠ 112 ∧ c ≠ 80 ∧ c ≠ 46) := by
  induction cs generalizing m with
  | nil =>
    simp [foldVal] at h
    simp [accum, h]
  | cons c cs ih =>
    simp only [foldVal, List.foldl_cons] at h
    cases hv : hexCharVal c with
    | none =>
      simp only [baseStep, hv] at h
      have := foldVal_none base cs
      simp only [foldVal] at this
      rw [this] at h
      cases h
    | some d =>
      simp only [baseStep, hv] at h
      obtain ⟨h1, h2, h3⟩ := hexChar c d hv
      by_cases hd : d < base
      · simp only [hd, if_true] at h
        obtain ⟨ih1, ih2⟩ := ih (m * base + d) h
        refine ⟨?_, ?_⟩
        · simp only [accum, h2, false_and, if_false, h1, hd, if_true]
          exact ih1
        · intro x hx
          rcases List.mem_cons.mp hx with rfl | hx
          · exact ⟨h2, h3⟩
          · exact ih2 x hx
      · simp only [hd, if_false] at h
        have := foldVal_none base cs
        simp only [foldVal] at this
        rw [this] at h
        cases h

theorem baseVal_eq (base : Nat) (cs : Bytes) (n : Nat) (h : baseVal base cs = some n) :
    cs ≠ [] ∧ foldVal base cs (some 0) = some n := by
  unfold baseVal at h
  cases cs with
  | nil => simp at h
  | cons c cs => exact ⟨by simp, by simpa [foldVal] using h⟩

/-- prefix letters of the property's hex and binary literals with their base. -/
def IsBasePrefix (x : UInt8) (base : Nat) : Prop :=
  (x = 120 ∧ base = 16) ∨ (x = 88 ∧ base = 16) ∨ (x = 98 ∧ base = 2) ∨ (x = 66 ∧ base = 2)

theorem parseNumber_base (x : UInt8) (base : Nat) (hx : IsBasePrefix x base) (body : Bytes) (n : Nat)
    (h : baseVal base body = some n) (hlt : n < 2 ^ 64) (conv : Option ShortDec) :
    parseNumber (48 :: x :: body) conv = if n < 2 ^ 63 then .int64 n else .uint64 n := by
  obtain ⟨hne, hf⟩ := baseVal_eq base body n h
  obtain ⟨hacc, hch⟩ := accum_of_foldVal base body 0 n hf
  cases body with
  | nil => exact absurd rfl hne
  | cons c2 r =>
    have m95 : ¬ (95 = c2 ∨ 95 ∈ r) := fun hc => (hch 95 (by simpa [eq_comm] using hc)).1 rfl
    have m112 : ¬ (112 = c2 ∨ 112 ∈ r) := fun hc => (hch 112 (by simpa [eq_comm] using hc)).2.1 rfl
    have m80 : ¬ (80 = c2 ∨ 80 ∈ r) := fun hc => (hch 80 (by simpa [eq_comm] using hc)).2.2.1 rfl
    have m46 : ¬ (46 = c2 ∨ 46 ∈ r) := fun hc => (hch 46 (by simpa [eq_comm] using hc)).2.2.2 rfl
    have hpu : parseUint (48 :: x :: c2 :: r) true = some n := by
      rcases hx with ⟨rfl, rfl⟩ | ⟨rfl, rfl⟩ | ⟨rfl, rfl⟩ | ⟨rfl, rfl⟩ <;>
        simp [parseUint, show lower 120 = 120 by decide, show lower 88 = 120 by decide, show lower 98 = 98 by decide,
          show lower 66 = 98 by decide, hacc, m95, hlt]
    unfold parseNumber
    rcases hx with ⟨rfl, rfl⟩ | ⟨rfl, rfl⟩ | ⟨rfl, rfl⟩ | ⟨rfl, rfl⟩ <;>
      simp [hasPrefix, List.isPrefixOf, m112, m80, m46, parseInt, hpu] <;>
      (by_cases h63 : n < 2 ^ 63 <;> simp [h63])

end DC.Proofs.LitHex
