import DC.Proofs.LexerRdBasic

/-!
# `runL` of the reader-interface lexer is the pure lexer model: scanner loops, comments, strings
-/
set_option linter.unusedSimpArgs false

namespace DC.LexerRd
open DC DC.Utf8 DC.Gen.Tokens DC.Lexer DC.Rd DC.Bufio
open DC.Rd.RdM (runL lrune lpeek)

/-- `Steps s x` for a state `x` written as scanners applied to `s` -/
macro "lex_steps" : tactic => `(tactic|
  repeat (first
    | exact Steps.refl _
    | apply scanWhile_steps
    | apply skipWhitespace_steps
    | apply skipUnderscores_steps
    | apply digitsUs_steps
    | apply usDigitGroups_steps
    | apply blockCommentLoop_steps
    | apply quotedLoop_steps
    | apply hexStringLoop_steps
    | apply binaryCollect_steps
    | apply quotedIdentLoop_steps
    | apply readUntil_steps
    | apply iterRC_steps
    | apply hexTail_steps
    | apply fracPart_steps
    | apply expPart_steps
    | apply baseTail_steps
    | apply octTail_steps
    | apply optChar2_steps
    | apply takeChar_steps
    | apply Steps.rc))

/-- discharge `x.measure < f` from `h : s.measure < f` -/
macro "lex_fuel" h:term : tactic => `(tactic| (apply fuel_ok $h; lex_steps; done))

/-- rewrite with the correspondence lemmas proved so far, discharging fuel side conditions from `h` -/
macro "rd_simp" "[" ts:Lean.Parser.Tactic.simpLemma,* "]" "using_fuel" h:term : tactic =>
  `(tactic| try simp (disch := lex_fuel $h) only [rd_pure, if_true, if_false, Prod.eta, true_and, false_and, and_true, and_false, and_self, eq_self, decide_true, decide_false, Bool.false_eq_true, $ts,*])

theorem scanWhileM_pure (pM : MState → Bool) (p hp) (hpm : ∀ s : LState, pM s.m = p s) :
    ∀ (f : Nat) (s : LState) (acc : Bytes), s.measure < f →
      runL (scanWhileM f pM s.m acc) s.rest =
        (.ok ((scanWhile p hp s acc).1.m, (scanWhile p hp s acc).2), (scanWhile p hp s acc).1.rest) := by
  intro f
  induction f with
  | zero => intro s acc h; omega
  | succ f ih =>
    intro s acc h
    rw [scanWhile]
    simp only [scanWhileM, hpm]
    by_cases hc : p s = true
    · have hm := readChar_measure_lt s (hp s hc)
      simp only [hc, if_true, dite_true, runL_bind, readCharM_pure, bindRes_ok, m_ch]
      exact ih _ _ (by omega)
    · simp [hc]

theorem skipWhitespaceM_pure :
    ∀ (f : Nat) (s : LState), s.measure < f →
      runL (skipWhitespaceM f s.m) s.rest = (.ok (skipWhitespace s).m, (skipWhitespace s).rest) := by
  intro f
  induction f with
  | zero => intro s h; omega
  | succ f ih =>
    intro s h
    rw [skipWhitespace]
    simp only [skipWhitespaceM, m_ch]
    by_cases hc : (isSpace s.ch || isClickHouseWhitespace s.ch) = true
    · have hm : (readChar s).measure < s.measure := by
        apply readChar_measure_lt_of_ch
        intro hz
        rw [hz] at hc
        simp [isSpace_zero, isClickHouseWhitespace_zero] at hc
      simp only [hc, if_true, dite_true, runL_bind, readCharM_pure, bindRes_ok]
      exact ih _ (by omega)
    · simp [hc]


/-! ### the loop conditions used with `scanWhile` -/

theorem scan_lineComment (f : Nat) (s : LState) (acc : Bytes) (h : s.measure < f) :
    runL (scanWhileM f lineCommentCondM s.m acc) s.rest =
      (.ok ((scanWhile lineCommentCond lineCommentCond_ok s acc).1.m, (scanWhile lineCommentCond lineCommentCond_ok s acc).2),
        (scanWhile lineCommentCond lineCommentCond_ok s acc).1.rest) :=
  scanWhileM_pure _ _ _ (fun _ => rfl) f s acc h

theorem scan_minusComment (f : Nat) (s : LState) (acc : Bytes) (h : s.measure < f) :
    runL (scanWhileM f minusCommentCondM s.m acc) s.rest =
      (.ok ((scanWhile minusCommentCond minusCommentCond_ok s acc).1.m, (scanWhile minusCommentCond minusCommentCond_ok s acc).2),
        (scanWhile minusCommentCond minusCommentCond_ok s acc).1.rest) :=
  scanWhileM_pure _ _ _ (fun _ => rfl) f s acc h

theorem scan_until (q : Nat) (f : Nat) (s : LState) (acc : Bytes) (h : s.measure < f) :
    runL (scanWhileM f (untilCondM q) s.m acc) s.rest =
      (.ok ((scanWhile (untilCond q) (untilCond_ok q) s acc).1.m, (scanWhile (untilCond q) (untilCond_ok q) s acc).2),
        (scanWhile (untilCond q) (untilCond_ok q) s acc).1.rest) :=
  scanWhileM_pure _ _ _ (fun _ => rfl) f s acc h

theorem scan_dollarIdent (f : Nat) (s : LState) (acc : Bytes) (h : s.measure < f) :
    runL (scanWhileM f dollarIdentCondM s.m acc) s.rest =
      (.ok ((scanWhile dollarIdentCond dollarIdentCond_ok s acc).1.m, (scanWhile dollarIdentCond dollarIdentCond_ok s acc).2),
        (scanWhile dollarIdentCond dollarIdentCond_ok s acc).1.rest) :=
  scanWhileM_pure _ _ _ (fun _ => rfl) f s acc h

theorem scan_identChar (f : Nat) (s : LState) (acc : Bytes) (h : s.measure < f) :
    runL (scanWhileM f identCharCondM s.m acc) s.rest =
      (.ok ((scanWhile identCharCond identCharCond_ok s acc).1.m, (scanWhile identCharCond identCharCond_ok s acc).2),
        (scanWhile identCharCond identCharCond_ok s acc).1.rest) :=
  scanWhileM_pure _ _ _ (fun _ => rfl) f s acc h

theorem scan_digit (f : Nat) (s : LState) (acc : Bytes) (h : s.measure < f) :
    runL (scanWhileM f digitCondM s.m acc) s.rest =
      (.ok ((scanWhile digitCond digitCond_ok s acc).1.m, (scanWhile digitCond digitCond_ok s acc).2),
        (scanWhile digitCond digitCond_ok s acc).1.rest) :=
  scanWhileM_pure _ _ _ (fun _ => rfl) f s acc h

theorem scan_hexDigit (f : Nat) (s : LState) (acc : Bytes) (h : s.measure < f) :
    runL (scanWhileM f hexDigitCondM s.m acc) s.rest =
      (.ok ((scanWhile hexDigitCond hexDigitCond_ok s acc).1.m, (scanWhile hexDigitCond hexDigitCond_ok s acc).2),
        (scanWhile hexDigitCond hexDigitCond_ok s acc).1.rest) :=
  scanWhileM_pure _ _ _ (fun _ => rfl) f s acc h

theorem scan_hexDigitUs (f : Nat) (s : LState) (acc : Bytes) (h : s.measure < f) :
    runL (scanWhileM f hexDigitUsCondM s.m acc) s.rest =
      (.ok ((scanWhile hexDigitUsCond hexDigitUsCond_ok s acc).1.m, (scanWhile hexDigitUsCond hexDigitUsCond_ok s acc).2),
        (scanWhile hexDigitUsCond hexDigitUsCond_ok s acc).1.rest) :=
  scanWhileM_pure _ _ _ (fun _ => rfl) f s acc h

theorem scan_binDigit (f : Nat) (s : LState) (acc : Bytes) (h : s.measure < f) :
    runL (scanWhileM f binDigitCondM s.m acc) s.rest =
      (.ok ((scanWhile binDigitCond binDigitCond_ok s acc).1.m, (scanWhile binDigitCond binDigitCond_ok s acc).2),
        (scanWhile binDigitCond binDigitCond_ok s acc).1.rest) :=
  scanWhileM_pure _ _ _ (fun _ => rfl) f s acc h

theorem scan_octDigit (f : Nat) (s : LState) (acc : Bytes) (h : s.measure < f) :
    runL (scanWhileM f octDigitCondM s.m acc) s.rest =
      (.ok ((scanWhile octDigitCond octDigitCond_ok s acc).1.m, (scanWhile octDigitCond octDigitCond_ok s acc).2),
        (scanWhile octDigitCond octDigitCond_ok s acc).1.rest) :=
  scanWhileM_pure _ _ _ (fun _ => rfl) f s acc h

/-! ## `isIdentifierAfterDot` -/

theorem isIdentifierAfterDot_eq (s : LState) : isIdentifierAfterDot s = identAfterDotBytes (peekBytes s 32) := rfl

theorem isIdentifierAfterDotM_pure (s : LState) :
    runL isIdentifierAfterDotM s.rest = (.ok (isIdentifierAfterDot s), s.rest) := by
  simp only [isIdentifierAfterDotM, runL_bind, peekBytesM_pure, bindRes_ok, runL_pure, isIdentifierAfterDot_eq]

/-! ## comments -/

theorem readLineCommentM_pure (f : Nat) (s : LState) (h : s.measure < f) :
    runL (readLineCommentM f s.m) s.rest =
      (.ok ((readLineComment s).1, (readLineComment s).2.m), (readLineComment s).2.rest) := by
  simp (disch := lex_fuel h) only [readLineCommentM, readLineComment, runL_bind, readCharM_pure, bindRes_ok, m_ch,
    scan_lineComment, runL_pure, tokAtM_m]


theorem readHashCommentM_pure (f : Nat) (s : LState) (h : s.measure < f) :
    runL (readHashCommentM f s.m) s.rest =
      (.ok ((readHashComment s).1, (readHashComment s).2.m), (readHashComment s).2.rest) := by
  simp (disch := lex_fuel h) only [readHashCommentM, readHashComment, runL_bind, readCharM_pure, bindRes_ok, m_ch,
    scan_lineComment, runL_pure, tokAtM_m]

theorem readUnicodeMinusCommentM_pure (f : Nat) (s : LState) (h : s.measure < f) :
    runL (readUnicodeMinusCommentM f s.m) s.rest =
      (.ok ((readUnicodeMinusComment s).1, (readUnicodeMinusComment s).2.m), (readUnicodeMinusComment s).2.rest) := by
  simp (disch := lex_fuel h) only [readUnicodeMinusCommentM, readUnicodeMinusComment, runL_bind, readCharM_pure,
    bindRes_ok, m_ch, scan_minusComment, runL_pure, tokAtM_m]

theorem blockCommentLoopM_pure :
    ∀ (f : Nat) (s : LState) (acc : Bytes) (n : Nat), s.measure < f →
      runL (blockCommentLoopM f s.m acc n) s.rest =
        (.ok ((blockCommentLoop s acc n).1.m, (blockCommentLoop s acc n).2), (blockCommentLoop s acc n).1.rest) := by
  intro f
  induction f with
  | zero => intro s acc n h; omega
  | succ f ih =>
    intro s acc n h
    rw [blockCommentLoop]
    simp only [blockCommentLoopM, m_ch, m_eof]
    by_cases hc : s.eof = false ∧ n > 0
    · have h1 := readChar_measure_lt_of_not_eof s hc.1
      have h2 := readChar_measure_le (readChar s)
      simp only [hc, and_self, if_true, dite_true, runL_bind, chPeekIs_pure, bindRes_ok, decide_eq_true_eq, runL_ite]
      by_cases c1 : s.ch = 42 ∧ peekChar s = 47
      · simp only [if_pos c1, runL_bind, readCharM_pure, bindRes_ok, m_ch]
        exact ih _ _ _ (by omega)
      · simp only [if_neg c1, runL_bind, chPeekIs_pure, bindRes_ok, decide_eq_true_eq, runL_ite]
        by_cases c2 : s.ch = 47 ∧ peekChar s = 42
        · simp only [if_pos c2, runL_bind, readCharM_pure, bindRes_ok, m_ch]
          exact ih _ _ _ (by omega)
        · simp only [if_neg c2, runL_bind, readCharM_pure, bindRes_ok, m_ch]
          exact ih _ _ _ (by omega)
    · simp [hc]

theorem readBlockCommentM_pure (f : Nat) (s : LState) (h : s.measure < f) :
    runL (readBlockCommentM f s.m) s.rest =
      (.ok ((readBlockComment s).1, (readBlockComment s).2.m), (readBlockComment s).2.rest) := by
  simp (disch := lex_fuel h) only [readBlockCommentM, readBlockComment, runL_bind, readCharM_pure, bindRes_ok, m_ch,
    blockCommentLoopM_pure, runL_pure, tokAtM_m]

attribute [rd_pure] skipWhitespaceM_pure scan_lineComment scan_minusComment scan_until scan_dollarIdent scan_identChar scan_digit scan_hexDigit scan_hexDigitUs scan_binDigit scan_octDigit isIdentifierAfterDotM_pure readLineCommentM_pure readHashCommentM_pure readUnicodeMinusCommentM_pure blockCommentLoopM_pure readBlockCommentM_pure

end DC.LexerRd
