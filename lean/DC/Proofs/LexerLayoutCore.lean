import DC.Proofs.LexerTokenize

/-!
# The position fields of the lexer state are write-only (C05 `lex_pos_irrelevant`)

`LState.core s = (rest, ch, eof)` is the reader part of the state; `off line col` are only ever copied into
tokens. `CoreEq a b` says that two states have the same core. Every function of `DC.Model.Lexer`
maps `CoreEq` states to `CoreEq` states, equal accumulators, and tokens with equal `kvq = (kind, val, quoted)`.
-/
namespace DC.Lexer
open DC.Utf8 DC.Gen.Tokens

/-- the reader part of the lexer state. -/
abbrev Core := Bytes × Nat × Bool

def LState.core (s : LState) : Core := (s.rest, s.ch, s.eof)

/-- what the parser's pump and the parser look at, besides positions. -/
def Tok.kvq (t : Tok) : Nat × Bytes × Bool := (t.kind, t.val, t.quoted)

@[simp] theorem kvq_tokAt (s : LState) (k : Nat) (v : Bytes) (q : Bool) : (tokAt s k v q).kvq = (k, v, q) := rfl

structure CoreEq (a b : LState) : Prop where
  rest : a.rest = b.rest
  ch : a.ch = b.ch
  eof : a.eof = b.eof

theorem coreEq_iff {a b : LState} : CoreEq a b ↔ a.core = b.core := by
  constructor
  · intro h; simp [LState.core, h.rest, h.ch, h.eof]
  · intro h
    simp only [LState.core, Prod.mk.injEq] at h
    exact ⟨h.1, h.2.1, h.2.2⟩

theorem CoreEq.refl (a : LState) : CoreEq a a := ⟨rfl, rfl, rfl⟩
theorem CoreEq.symm {a b : LState} (h : CoreEq a b) : CoreEq b a := ⟨h.rest.symm, h.ch.symm, h.eof.symm⟩
theorem CoreEq.trans {a b c : LState} (h : CoreEq a b) (h' : CoreEq b c) : CoreEq a c :=
  ⟨h.rest.trans h'.rest, h.ch.trans h'.ch, h.eof.trans h'.eof⟩

/-- pairs (state, accumulator). -/
def PEq (p q : LState × Bytes) : Prop := CoreEq p.1 q.1 ∧ p.2 = q.2

/-- results (token, state). -/
def REq (r r' : Tok × LState) : Prop := r.1.kvq = r'.1.kvq ∧ CoreEq r.2 r'.2

/-- results of the readers that can panic. -/
def EEq {α : Type} (R : α → α → Prop) : Except PanicSite α → Except PanicSite α → Prop
  | .ok r, .ok r' => R r r'
  | .error e, .error e' => e = e'
  | _, _ => False

theorem EEq.ok {α : Type} {R : α → α → Prop} {r r' : α} (h : R r r') : EEq R (.ok r) (.ok r') := h

theorem PEq.mk {a b : LState} {x y : Bytes} (h : CoreEq a b) (h2 : x = y) : PEq (a, x) (b, y) := ⟨h, h2⟩

theorem REq.tok {a b : LState} {p q : LState × Bytes} (k : Nat) (qd : Bool) (h : PEq p q) :
    REq (tokAt a k p.2.reverse qd, p.1) (tokAt b k q.2.reverse qd, q.1) :=
  ⟨by rw [kvq_tokAt, kvq_tokAt, h.2], h.1⟩

/-! ## reading and peeking -/

theorem CoreEq.readChar {a b : LState} (h : CoreEq a b) : CoreEq (readChar a) (readChar b) := by
  unfold DC.Lexer.readChar
  rw [h.rest, h.eof]
  split
  · exact ⟨rfl, rfl, rfl⟩
  · split
    · exact ⟨rfl, rfl, rfl⟩
    · exact ⟨rfl, rfl, rfl⟩

theorem CoreEq.iterRC {a b : LState} (n : Nat) (h : CoreEq a b) : CoreEq (iterRC n a) (iterRC n b) := by
  induction n generalizing a b with
  | zero => exact h
  | succ n ih => exact ih h.readChar

theorem CoreEq.peekBytes {a b : LState} (h : CoreEq a b) (n : Nat) : peekBytes a n = peekBytes b n := by
  unfold DC.Lexer.peekBytes; rw [h.rest]

theorem CoreEq.peekChar {a b : LState} (h : CoreEq a b) : peekChar a = peekChar b := by
  unfold DC.Lexer.peekChar; rw [h.rest, h.eof]

theorem CoreEq.peekCharN {a b : LState} (h : CoreEq a b) (n : Nat) : peekCharN a n = peekCharN b n := by
  unfold DC.Lexer.peekCharN; rw [h.peekBytes, h.eof]

theorem CoreEq.isIdentifierAfterDot {a b : LState} (h : CoreEq a b) :
    isIdentifierAfterDot a = isIdentifierAfterDot b := by
  unfold DC.Lexer.isIdentifierAfterDot; rw [h.peekBytes]

/-! ## the generic loop -/

theorem scanWhile_unfold_false (p hp) (s : LState) (acc : Bytes) (h : ¬ p s = true) :
    scanWhile p hp s acc = (s, acc) := by
  rw [scanWhile, dif_neg h]

/-- a loop condition that looks at the core only. -/
def CoreCond (p : LState → Bool) : Prop := ∀ a b, CoreEq a b → p a = p b

theorem scanWhile_core (p hp) (hpc : CoreCond p) {a b : LState} (h : CoreEq a b) (acc : Bytes) :
    PEq (scanWhile p hp a acc) (scanWhile p hp b acc) := by
  fun_induction scanWhile p hp a acc generalizing b with
  | case1 a acc hc ih =>
    have hb : p b = true := by rw [← hpc a b h]; exact hc
    rw [scanWhile_unfold_true p hp b acc hb, ← h.ch]
    exact ih h.readChar
  | case2 a acc hc =>
    have hb : ¬ p b = true := by rw [← hpc a b h]; exact hc
    rw [scanWhile_unfold_false p hp b acc hb]
    exact ⟨h, rfl⟩

theorem scanWhile_pcore (p hp) (hpc : CoreCond p) {x y : LState × Bytes} (h : PEq x y) :
    PEq (scanWhile p hp x.1 x.2) (scanWhile p hp y.1 y.2) := by
  rw [h.2]; exact scanWhile_core p hp hpc h.1 _

theorem lineCommentCond_core : CoreCond lineCommentCond := by
  intro a b h; unfold lineCommentCond; rw [h.ch, h.eof]
theorem minusCommentCond_core : CoreCond minusCommentCond := by
  intro a b h; unfold minusCommentCond; rw [h.ch, h.eof]
theorem untilCond_core (q : Nat) : CoreCond (untilCond q) := by
  intro a b h; unfold untilCond; rw [h.ch, h.eof]
theorem dollarIdentCond_core : CoreCond dollarIdentCond := by
  intro a b h; unfold dollarIdentCond; rw [h.ch]
theorem identCharCond_core : CoreCond identCharCond := by
  intro a b h; unfold identCharCond; rw [h.ch]
theorem digitCond_core : CoreCond digitCond := by
  intro a b h; unfold digitCond; rw [h.ch]
theorem hexDigitCond_core : CoreCond hexDigitCond := by
  intro a b h; unfold hexDigitCond; rw [h.ch]
theorem hexDigitUsCond_core : CoreCond hexDigitUsCond := by
  intro a b h; unfold hexDigitUsCond; rw [h.ch]
theorem binDigitCond_core : CoreCond binDigitCond := by
  intro a b h; unfold binDigitCond; rw [h.ch]
theorem octDigitCond_core : CoreCond octDigitCond := by
  intro a b h; unfold octDigitCond; rw [h.ch]

theorem skipWhitespace_core {a b : LState} (h : CoreEq a b) : CoreEq (skipWhitespace a) (skipWhitespace b) := by
  fun_induction skipWhitespace a generalizing b with
  | case1 a hc ih =>
    rw [skipWhitespace.eq_1 b, dif_pos (by rw [← h.ch]; exact hc)]
    exact ih h.readChar
  | case2 a hc =>
    rw [skipWhitespace.eq_1 b, dif_neg (by rw [← h.ch]; exact hc)]
    exact h

end DC.Lexer
