import DC.Proofs.TypesBasic

/-! `esc` and `showLit` are injective: a strict decoder inverts them (this is the decoder the harness oracle uses). -/
namespace DC.Types

def unescCode (c : UInt8) : Option UInt8 :=
  if c == 92 then some 92
  else if c == 39 then some 39
  else if c == 110 then some 10
  else if c == 116 then some 9
  else if c == 114 then some 13
  else if c == 48 then some 0
  else if c == 98 then some 8
  else if c == 102 then some 12
  else none

/-- strict inverse of `esc`: a backslash must be followed by one of the eight codes; the bytes `esc` always escapes
must not occur bare. -/
def unesc : Bytes → Option Bytes
  | [] => some []
  | b :: rest =>
    if b == 92 then
      match rest with
      | [] => none
      | c :: rest' =>
        match unescCode c, unesc rest' with
        | some x, some r => some (x :: r)
        | _, _ => none
    else if plainByte b then
      match unesc rest with
      | some r => some (b :: r)
      | none => none
    else none

theorem unesc_esc (s : Bytes) : unesc (esc s) = some s := by
  induction s with
  | nil => rfl
  | cons b bs ih =>
    rw [esc_cons]
    by_cases h1 : b = 92; · subst h1; simp [escByte, unesc, unescCode, ih]
    by_cases h2 : b = 39; · subst h2; simp [escByte, unesc, unescCode, ih]
    by_cases h3 : b = 10; · subst h3; simp [escByte, unesc, unescCode, ih]
    by_cases h4 : b = 9; · subst h4; simp [escByte, unesc, unescCode, ih]
    by_cases h5 : b = 13; · subst h5; simp [escByte, unesc, unescCode, ih]
    by_cases h6 : b = 0; · subst h6; simp [escByte, unesc, unescCode, ih]
    by_cases h7 : b = 8; · subst h7; simp [escByte, unesc, unescCode, ih]
    by_cases h8 : b = 12; · subst h8; simp [escByte, unesc, unescCode, ih]
    have hp : plainByte b = true := by simp [plainByte, h1, h2, h3, h4, h5, h6, h7, h8]
    rw [escByte_plain b hp, List.singleton_append, unesc.eq_def]
    simp [h1, hp, ih]

theorem esc_inj (a b : Bytes) (h : esc a = esc b) : a = b := by
  have := congrArg unesc h
  simpa [unesc_esc] using this

theorem quote_inj (a b : Bytes) (h : quote a = quote b) : a = b := by
  simp only [quote] at h
  exact esc_inj a b (List.append_cancel_right (List.cons.inj h).2)

theorem showLit_inj (a b : Bytes) (h : showLit a = showLit b) : a = b :=
  quote_inj a b (esc_inj _ _ h)

/-- the strict decoder of a shown literal (outer escaping, the two quotes, inner escaping) -/
def unshow (shown : Bytes) : Option Bytes :=
  match unesc shown with
  | some (39 :: rest) =>
    match rest.reverse with
    | 39 :: body => unesc body.reverse
    | _ => none
  | _ => none

theorem unshow_showLit (v : Bytes) : unshow (showLit v) = some v := by
  simp [unshow, showLit, unesc_esc, quote, unesc_esc]

end DC.Types
