import DC.Proofs.LexerRdTok

/-!
# `runL` of the reader-interface lexer is the pure lexer model: `$`-initial tokens

`DC.Model.Lexer.tryReadDollarTag` walks the window `Peek(8192)` without materialising it: a window position is
`(cur, k)` = (suffix of `rest`, window bytes left), standing for the slice `cur.take k`. `LexerRd.dollarTagOf` runs
the same helper functions on the bytes `Peek(8192)` really returned, i.e. on positions `(w, w.length)`. The first half
of this file proves that every helper depends on the slice only ("canonical form" lemmas), hence
`tryReadDollarTag_eq`; the second half is the correspondence for the `$` functions.
-/
set_option linter.unusedSimpArgs false

namespace DC.LexerRd
open DC DC.Utf8 DC.Gen.Tokens DC.Lexer DC.Rd DC.Bufio
open DC.Rd.RdM (runL lrune lpeek)

/-! ## the window helpers depend on the slice `cur.take k` only -/

theorem slice_drop (cur : Bytes) (k d : Nat) : (cur.drop d).take (k - d) = (cur.take k).drop d :=
  List.drop_take.symm

theorem slice_empty_iff (cur : Bytes) (k : Nat) :
    (k = 0 ∨ cur = []) ↔ ((cur.take k).length = 0 ∨ cur.take k = []) := by
  cases cur with
  | nil => simp
  | cons b t =>
    cases k with
    | zero => simp
    | succ k => simp

theorem winDecode_slice (cur : Bytes) (k : Nat) :
    winDecode cur k = winDecode (cur.take k) (cur.take k).length := by
  unfold winDecode
  congr 1
  rw [List.take_take, List.length_take]
  by_cases h : min k 4 ≤ cur.length
  · congr 1; omega
  · rw [List.take_of_length_le (by omega), List.take_of_length_le (by omega)]

theorem tagScan_slice (cur : Bytes) (k : Nat) (tag : Bytes) :
    tagScan (cur.take k) (cur.take k).length tag =
      (((tagScan cur k tag).1).take (tagScan cur k tag).2.1,
       (((tagScan cur k tag).1).take (tagScan cur k tag).2.1).length, (tagScan cur k tag).2.2) := by
  fun_induction tagScan cur k tag with
  | case1 cur k tag hc =>
    rw [tagScan]
    rw [dif_pos ((slice_empty_iff cur k).1 hc)]
  | case2 cur k tag hc d hl ih =>
    rw [tagScan]
    rw [dif_neg (fun hh => hc ((slice_empty_iff cur k).2 hh))]
    have hd : winDecode (cur.take k) (cur.take k).length = d := (winDecode_slice cur k).symm
    simp only [hd, hl, if_true]
    have h1 : (cur.take k).drop d.2 = (cur.drop d.2).take (k - d.2) := (slice_drop cur k d.2).symm
    have h2 : (cur.take k).length - d.2 = ((cur.drop d.2).take (k - d.2)).length := by
      rw [← h1, List.length_drop]
    rw [h1, h2]
    exact ih
  | case3 cur k tag hc d hl =>
    rw [tagScan]
    rw [dif_neg (fun hh => hc ((slice_empty_iff cur k).2 hh))]
    have hd : winDecode (cur.take k) (cur.take k).length = d := (winDecode_slice cur k).symm
    simp only [hd, hl, if_false, Bool.false_eq_true]

theorem winGet_slice (cur : Bytes) (k j : Nat) :
    winGet (cur.take k) (cur.take k).length j = winGet cur k j := by
  unfold winGet
  rw [List.getElem?_take, List.length_take]
  by_cases h1 : j < k
  · by_cases h2 : j < cur.length
    · have : j < min k cur.length := by omega
      simp [h1, this]
    · have : ¬ j < min k cur.length := by omega
      have h3 : cur[j]? = none := by simp; omega
      simp [h1, this, h3]
  · have : ¬ j < min k cur.length := by omega
    simp [h1, this]

theorem matchAt_slice (cur : Bytes) (k : Nat) (cs : Bytes) (j : Nat) :
    matchAt (cur.take k) (cur.take k).length cs j = matchAt cur k cs j := by
  induction cs generalizing j with
  | nil => rfl
  | cons c cs ih => simp only [matchAt, winGet_slice, ih]

theorem findClosing_slice (closing : Bytes) (m : Nat) (hm : 0 < m) (cur : Bytes) (k : Nat) :
    findClosing closing m (cur.take k) (cur.take k).length = findClosing closing m cur k := by
  induction cur generalizing k with
  | nil =>
    simp only [List.take_nil, List.length_nil]
    unfold findClosing
    have : lenGe ([] : Bytes) m = false := by
      cases m with
      | zero => omega
      | succ m => rfl
    simp [this]
  | cons b t ih =>
    cases k with
    | zero =>
      simp only [List.take_zero, List.length_nil]
      unfold findClosing
      have h1 : lenGe ([] : Bytes) m = false := by
        cases m with
        | zero => omega
        | succ m => rfl
      have h2 : ¬ m ≤ 0 := by omega
      simp [h1, h2]
    | succ k =>
      have hg : (decide (m ≤ ((b :: t).take (k + 1)).length) && lenGe ((b :: t).take (k + 1)) m) =
          (decide (m ≤ k + 1) && lenGe (b :: t) m) := by
        rw [Bool.eq_iff_iff]
        simp only [Bool.and_eq_true, decide_eq_true_eq, lenGe_iff, List.length_take, List.length_cons]
        omega
      rw [findClosing.eq_def closing m (List.take (k + 1) (b :: t)) _, findClosing.eq_def closing m (b :: t) (k + 1)]
      simp only [hg, matchAt_slice]
      have ht := ih k
      simp only [List.take_succ_cons, List.length_cons, Nat.add_sub_cancel] at ht ⊢
      rw [ht]


/-! ## `tryReadDollarTag` is `dollarTagOf` of the peeked window -/

/-- what `tryReadDollarTag` does with the decision -/
def tagRes (s : LState) : Except PanicSite (Option Bytes) → Except PanicSite (Bytes × LState)
  | .error e => .error e
  | .ok none => .ok ([], s)
  | .ok (some tag) => .ok (tag, readChar (iterRC tag.length (readChar s)))

/-- the tail of `dollarTagOf` after the tag scan, as a function of the scan result -/
def afterScan (r : Bytes × Nat × Bytes) : Except PanicSite (Option Bytes) :=
  if r.2.1 = 0 ∨ r.1 = [] then .ok none
  else
    let d2 := winDecode r.1 r.2.1
    if d2.1 ≠ 36 then .ok none
    else
      let tag := r.2.2.reverse
      let closing := 36 :: (tag ++ [36])
      match findClosing closing closing.length (r.1.drop d2.2) (r.2.1 - d2.2) with
      | .error e => .error e
      | .ok false => .ok none
      | .ok true => .ok (some tag)

theorem afterScan_slice (cur : Bytes) (k : Nat) (tag : Bytes) :
    afterScan (cur.take k, (cur.take k).length, tag) = afterScan (cur, k, tag) := by
  unfold afterScan
  simp only []
  by_cases he : k = 0 ∨ cur = []
  · rw [if_pos he, if_pos ((slice_empty_iff cur k).1 he)]
  · rw [if_neg he, if_neg (fun hh => he ((slice_empty_iff cur k).2 hh))]
    rw [← winDecode_slice cur k]
    have h1 : (cur.take k).drop (winDecode cur k).2 = (cur.drop (winDecode cur k).2).take (k - (winDecode cur k).2) :=
      (slice_drop cur k _).symm
    have h2 : (cur.take k).length - (winDecode cur k).2 =
        ((cur.drop (winDecode cur k).2).take (k - (winDecode cur k).2)).length := by
      rw [← h1, List.length_drop]
    rw [h1, h2, findClosing_slice _ _ (by simp)]

theorem dollarTagOf_eq (bytes : Bytes) :
    dollarTagOf bytes =
      if bytes.isEmpty then .ok none
      else if !isLetter (winDecode bytes bytes.length).1 && (winDecode bytes bytes.length).1 ≠ 95 then .ok none
      else afterScan (tagScan (bytes.drop (winDecode bytes bytes.length).2)
        (bytes.length - (winDecode bytes bytes.length).2) (pushRune [] (winDecode bytes bytes.length).1)) := rfl

theorem tryReadDollarTag_eq' (s : LState) :
    tryReadDollarTag s =
      tagRes s (if s.rest.isEmpty then .ok none
        else if !isLetter (winDecode s.rest 4096).1 && (winDecode s.rest 4096).1 ≠ 95 then .ok none
        else afterScan (tagScan (s.rest.drop (winDecode s.rest 4096).2)
          (4096 - (winDecode s.rest 4096).2) (pushRune [] (winDecode s.rest 4096).1))) := by
  unfold tryReadDollarTag
  simp only []
  by_cases h1 : s.rest.isEmpty = true
  · simp only [h1, if_true, tagRes]
  · simp only [h1, if_false, Bool.false_eq_true]
    by_cases h2 : (!isLetter (winDecode s.rest 4096).1 && decide ((winDecode s.rest 4096).1 ≠ 95)) = true
    · simp only [h2, if_true, tagRes]
    · simp only [h2, if_false, Bool.false_eq_true]
      generalize tagScan (s.rest.drop (winDecode s.rest 4096).2) (4096 - (winDecode s.rest 4096).2)
        (pushRune [] (winDecode s.rest 4096).1) = R
      obtain ⟨cur, k, tagRev⟩ := R
      unfold afterScan
      simp only []
      by_cases h3 : k = 0 ∨ cur = []
      · simp only [h3, if_true, tagRes]
      · simp only [h3, if_false]
        by_cases h4 : (winDecode cur k).1 ≠ 36
        · simp only [h4, if_true, tagRes, ne_eq, not_false_eq_true]
        · simp only [h4, if_false, ne_eq, not_false_eq_true]
          cases findClosing (36 :: (tagRev.reverse ++ [36])) (36 :: (tagRev.reverse ++ [36])).length
            (cur.drop (winDecode cur k).2) (k - (winDecode cur k).2) with
          | error e => rfl
          | ok b => cases b <;> rfl

theorem tryReadDollarTag_eq (s : LState) :
    tryReadDollarTag s = tagRes s (dollarTagOf (s.rest.take 4096)) := by
  rw [tryReadDollarTag_eq', dollarTagOf_eq]
  congr 1
  have hw : winDecode (s.rest.take 4096) (s.rest.take 4096).length = winDecode s.rest 4096 :=
    (winDecode_slice s.rest 4096).symm
  have he : (s.rest.take 4096).isEmpty = s.rest.isEmpty := by
    cases s.rest <;> rfl
  rw [hw, he]
  have h1 : (s.rest.take 4096).drop (winDecode s.rest 4096).2 =
      (s.rest.drop (winDecode s.rest 4096).2).take (4096 - (winDecode s.rest 4096).2) := (slice_drop _ _ _).symm
  have h2 : (s.rest.take 4096).length - (winDecode s.rest 4096).2 =
      ((s.rest.drop (winDecode s.rest 4096).2).take (4096 - (winDecode s.rest 4096).2)).length := by
    rw [← h1, List.length_drop]
  rw [h1, h2, tagScan_slice, afterScan_slice]


/-! ## the `$` functions -/

theorem tryReadDollarTagM_pure (s : LState) (r : Bytes × LState) (hr : tryReadDollarTag s = .ok r) :
    runL (tryReadDollarTagM s.m) s.rest = (.ok (r.1, r.2.m), r.2.rest) := by
  rw [tryReadDollarTag_eq] at hr
  unfold tryReadDollarTagM
  simp only [runL_bind, peekBytesM_pure, bindRes_ok, peekBytes, show min 8192 4096 = 4096 by decide]
  cases hd : dollarTagOf (s.rest.take 4096) with
  | error e => simp [hd, tagRes] at hr
  | ok o =>
    cases o with
    | none =>
      simp only [hd, tagRes, Except.ok.injEq] at hr
      subst hr
      simp only [runL_pure]
    | some tag =>
      simp only [hd, tagRes, Except.ok.injEq] at hr
      subst hr
      simp only [runL_bind, readCharM_pure, iterRCM_pure, bindRes_ok, runL_pure]

theorem delimMatchM_pure (s : LState) (closing : Bytes) :
    ∀ (todo i : Nat) (b : Bool), todo = closing.length - i → delimMatch s closing i = .ok b →
      runL (delimMatchM s.m closing todo i) s.rest = (.ok b, s.rest) := by
  intro todo
  induction todo with
  | zero =>
    intro i b ht hr
    rw [delimMatch, dif_neg (by omega)] at hr
    cases hr
    rfl
  | succ todo ih =>
    intro i b ht hr
    rw [delimMatch, dif_pos (by omega)] at hr
    simp only [delimMatchM]
    cases hc : closing[i]? with
    | none => simp [hc] at hr
    | some c =>
      simp only [hc] at hr
      simp only [runL_bind, peekCharNM_pure, bindRes_ok, runL_ite]
      by_cases hp : peekCharN s i ≠ c.toNat
      · simp only [if_pos hp] at hr ⊢
        cases hr
        rfl
      · simp only [if_neg hp] at hr ⊢
        exact ih (i + 1) b (by omega) hr

theorem dollarBodyLoopM_pure (closing : Bytes) :
    ∀ (f : Nat) (s : LState) (acc : Bytes), s.measure < f →
      ∀ r : LState × Bytes, dollarBodyLoop closing s acc = .ok r →
        runL (dollarBodyLoopM f closing s.m acc) s.rest = (.ok (r.1.m, r.2), r.1.rest) := by
  intro f
  induction f with
  | zero => intro s acc h; omega
  | succ f ih =>
    intro s acc h r hr
    rw [dollarBodyLoop] at hr
    simp only [dollarBodyLoopM]
    by_cases he : s.eof = false
    · have h1 := readChar_measure_lt_of_not_eof s he
      simp only [he, if_true, dite_true, runL_ite] at hr ⊢
      by_cases hq : s.ch = 36
      · simp only [if_pos hq] at hr ⊢
        obtain ⟨b, hb⟩ := delimMatch_ok s closing 1
        simp only [runL_bind, delimMatchM_pure s closing (closing.length - 1) 1 b rfl hb, bindRes_ok, runL_ite]
        rw [hb] at hr
        cases b with
        | true =>
          simp only [Except.ok.injEq] at hr
          subst hr
          simp only [if_true, runL_bind, iterRCM_pure, bindRes_ok, runL_pure]
        | false =>
          simp only [Bool.false_eq_true, if_false, runL_bind, readCharM_pure, bindRes_ok, hq] at hr ⊢
          exact ih _ _ (by omega) r hr
      · simp only [if_neg hq, runL_bind, readCharM_pure, bindRes_ok] at hr ⊢
        exact ih _ _ (by omega) r hr
    · rw [dif_neg he] at hr
      rw [if_neg he]
      cases hr
      rfl

theorem readDollarQuotedStringM_pure (f : Nat) (tag : Bytes) (s : LState) (h : s.measure < f)
    (r : Tok × LState) (hr : readDollarQuotedString tag s = .ok r) :
    runL (readDollarQuotedStringM f tag s.m) s.rest = (.ok (r.1, r.2.m), r.2.rest) := by
  unfold readDollarQuotedString at hr
  unfold readDollarQuotedStringM
  by_cases ht : tag.isEmpty = true
  · simp only [ht, if_true] at hr
    cases hb : dollarBodyLoop (36 :: (tag ++ [36])) (readChar (readChar s)) [] with
    | error e => simp [hb] at hr
    | ok x =>
      simp only [hb, Except.ok.injEq] at hr
      subst hr
      simp only [ht, if_true, runL_bind, readCharM_pure, bindRes_ok]
      rw [dollarBodyLoopM_pure _ f (readChar (readChar s)) [] (by lex_fuel h) x hb]
      simp only [bindRes_ok, runL_pure, tokAtM_m]
  · simp only [ht, if_false, Bool.false_eq_true] at hr
    cases hb : dollarBodyLoop (36 :: (tag ++ [36])) s [] with
    | error e => simp [hb] at hr
    | ok x =>
      simp only [hb, Except.ok.injEq] at hr
      subst hr
      simp only [ht, if_false, Bool.false_eq_true, runL_bind, runL_pure, bindRes_ok]
      rw [dollarBodyLoopM_pure _ f s [] h x hb]
      simp only [bindRes_ok, runL_pure, tokAtM_m]

theorem tagScan_tag_ne_nil (cur : Bytes) (k : Nat) (tag : Bytes) (h : tag ≠ []) : (tagScan cur k tag).2.2 ≠ [] := by
  fun_induction tagScan cur k tag with
  | case1 cur k tag hc => exact h
  | case2 cur k tag hc d hl ih =>
    apply ih
    unfold pushRune
    intro hh
    exact h (List.append_eq_nil_iff.mp hh).2
  | case3 cur k tag hc d hl => exact h

theorem dollarTagOf_ne_nil (bytes tag : Bytes) (h : dollarTagOf bytes = .ok (some tag)) : tag ≠ [] := by
  rw [dollarTagOf_eq] at h
  split at h
  · cases h
  · split at h
    · cases h
    · unfold afterScan at h
      simp only [] at h
      split at h
      · cases h
      · split at h
        · cases h
        · split at h
          · cases h
          · cases h
          · simp only [Except.ok.injEq, Option.some.injEq] at h
            subst h
            intro hh
            have := tagScan_tag_ne_nil (bytes.drop (winDecode bytes bytes.length).2)
              (bytes.length - (winDecode bytes bytes.length).2) (pushRune [] (winDecode bytes bytes.length).1)
              (by unfold pushRune; simp [encodeRune_ne_nil])
            exact this (List.reverse_eq_nil_iff.mp hh)

theorem readDollarM_pure (f : Nat) (s : LState) (h : s.measure < f) (r : Tok × LState)
    (hr : readDollar s = .ok r) :
    runL (readDollarM f s.m) s.rest = (.ok (r.1, r.2.m), r.2.rest) := by
  unfold readDollar at hr
  unfold readDollarM
  simp only [runL_bind, peekCharM_pure, bindRes_ok, runL_ite]
  by_cases c1 : peekChar s = 36
  · simp only [if_pos c1] at hr ⊢
    exact readDollarQuotedStringM_pure f [] s h r hr
  · simp only [if_neg c1] at hr ⊢
    have hst : ∀ tag s1, tryReadDollarTag s = .ok (tag, s1) → Steps s s1 := by
      intro tag s1 ht
      obtain ⟨tag', s1', ht', hst⟩ := tryReadDollarTag_spec s
      rw [ht] at ht'
      cases ht'
      exact hst
    have heq := tryReadDollarTag_eq s
    cases hd : dollarTagOf (s.rest.take 4096) with
    | error e =>
      rw [hd] at heq
      simp [heq, tagRes] at hr
    | ok o =>
      rw [hd] at heq
      cases o with
      | none =>
        simp only [tagRes] at heq
        simp only [heq, ne_eq, not_true_eq_false, if_false, Except.ok.injEq] at hr
        subst hr
        simp only [runL_bind, tryReadDollarTagM_pure s _ heq, bindRes_ok, runL_ite, ne_eq, not_true_eq_false, if_false]
        exact readDollarIdentifierM_pure f s h
      | some tag =>
        have hne := dollarTagOf_ne_nil _ _ hd
        simp only [tagRes] at heq
        simp only [heq, ne_eq, hne, not_false_eq_true, if_true] at hr
        simp only [runL_bind, tryReadDollarTagM_pure s _ heq, bindRes_ok, runL_ite, ne_eq, hne, not_false_eq_true, if_true]
        exact readDollarQuotedStringM_pure f tag _ (fuel_ok h (hst _ _ heq)) r hr

end DC.LexerRd
