import DC.Proofs.LexerSteps

/-!
# What every token reader does to the state, and that none of them panics

`RS s r` (reader spec): the reader entered in state `s` answered a non-EOF token carrying the position of
`s` and consumed at least one `readChar`. `TokSpec w r` is the weaker form needed for the readers that
capture the position late (`x'..'`, `b'..'`, `$tag$..`).
-/
namespace DC.Lexer
open DC.Utf8 DC.Gen.Tokens

def tpos (t : Tok) : Nat × Nat × Nat := (t.off, t.line, t.col)
def spos (s : LState) : Nat × Nat × Nat := (s.off, s.line, s.col)

@[simp] theorem tpos_tokAt (s : LState) (k : Nat) (v : Bytes) (q : Bool) : tpos (tokAt s k v q) = spos s := rfl
@[simp] theorem kind_tokAt (s : LState) (k : Nat) (v : Bytes) (q : Bool) : (tokAt s k v q).kind = k := rfl

/-- peel tactic for `Steps` goals. -/
syntax "steps" : tactic
macro_rules
  | `(tactic| steps) => `(tactic| repeat (first
      | exact Steps.refl _
      | assumption
      | apply scanWhile_steps
      | apply digitsUs_steps
      | apply usDigitGroups_steps
      | apply skipUnderscores_steps
      | apply skipWhitespace_steps
      | apply blockCommentLoop_steps
      | apply quotedLoop_steps
      | apply hexStringLoop_steps
      | apply binaryCollect_steps
      | apply quotedIdentLoop_steps
      | apply readUntil_steps
      | apply hexTail_steps
      | apply fracPart_steps
      | apply expPart_steps
      | apply optChar2_steps
      | apply takeChar_steps
      | apply iterRC_steps
      | apply Steps.rc))

/-- `kind ≠ tEOF` for a token built by `tokAt` with a constant kind. -/
syntax "kind_ne" : tactic
macro_rules
  | `(tactic| kind_ne) => `(tactic| first
      | decide
      | (simp only [kind_tokAt, readLineComment, readHashComment, readUnicodeMinusComment, readBlockComment,
          readString, readHexString, readQuotedIdentifier, readUnicodeString, readUnicodeQuotedIdentifier,
          readBacktickIdentifier, readParameter, readDollarIdentifier, decimalTail, numberTail]; decide))

def RS (s : LState) (r : Tok × LState) : Prop :=
  r.1.kind ≠ tEOF ∧ tpos r.1 = spos s ∧ Steps (readChar s) r.2

def TokSpec (w : LState) (r : Tok × LState) : Prop :=
  r.1.kind ≠ tEOF ∧ ∃ A, Steps w A ∧ tpos r.1 = spos A ∧ Steps A r.2 ∧ (A.eof = true ∨ Steps (readChar A) r.2) ∧
    (A = w ∨ r.1.kind = tSTRING)

theorem RS.tokSpec {w : LState} {r : Tok × LState} (h : RS w r) : TokSpec w r :=
  ⟨h.1, w, Steps.refl _, h.2.1, Steps.step h.2.2, Or.inr h.2.2, Or.inl rfl⟩

/-- a reader entered one `readChar` later (`x'`, `b'`). -/
theorem RS.tokSpec_after_rc {w : LState} {r : Tok × LState} (h : RS (readChar w) r)
    (hk : r.1.kind = tSTRING) : TokSpec w r :=
  ⟨h.1, readChar w, Steps.one _, h.2.1, Steps.step h.2.2, Or.inr h.2.2, Or.inr hk⟩

/-! ## kinds -/

theorem keywords_ne_eof : ∀ p ∈ keywords, p.2 ≠ tEOF := by decide +kernel

theorem lookupIdent_ne_eof (ident : Bytes) : lookupIdent ident ≠ tEOF := by
  unfold lookupIdent
  split
  · rename_i p hp
    have hm := List.mem_of_find?_eq_some hp
    simp only [keywordRunes, List.mem_map] at hm
    obtain ⟨q, hq, rfl⟩ := hm
    exact keywords_ne_eof q hq
  · decide

theorem singleCharKind_ne_eof {c k : Nat} (h : singleCharKind c = some k) : k ≠ tEOF := by
  intro hk; subst hk
  by_cases hc : c < 128
  · have hall : ∀ c < 128, singleCharKind c ≠ some tEOF := by decide
    exact hall c hc h
  · unfold singleCharKind at h
    iterate 13 rw [if_neg (by omega)] at h
    cases h

theorem ite_ex {α : Type} {c : Prop} [Decidable c] {A B : Except PanicSite α} {P : α → Prop}
    (h1 : c → ∃ r, A = .ok r ∧ P r) (h2 : ¬c → ∃ r, B = .ok r ∧ P r) :
    ∃ r, (if c then A else B) = .ok r ∧ P r := by
  by_cases h : c
  · rw [if_pos h]; exact h1 h
  · rw [if_neg h]; exact h2 h

/-! ## readers without panic sites -/

theorem readLineComment_spec (s : LState) : RS s (readLineComment s) :=
  ⟨by kind_ne, rfl, by unfold readLineComment; simp only []; steps⟩

theorem readHashComment_spec (s : LState) : RS s (readHashComment s) :=
  ⟨by kind_ne, rfl, by unfold readHashComment; simp only []; steps⟩

theorem readUnicodeMinusComment_spec (s : LState) : RS s (readUnicodeMinusComment s) :=
  ⟨by kind_ne, rfl, by unfold readUnicodeMinusComment; simp only []; steps⟩

theorem readBlockComment_spec (s : LState) : RS s (readBlockComment s) :=
  ⟨by kind_ne, rfl, by unfold readBlockComment; simp only []; steps⟩

theorem readString_spec (q : Nat) (s : LState) : RS s (readString q s) :=
  ⟨by kind_ne, rfl, by unfold readString; simp only []; steps⟩

theorem readHexString_spec (s : LState) : RS s (readHexString s) :=
  ⟨by kind_ne, rfl, by unfold readHexString; simp only []; steps⟩

theorem readQuotedIdentifier_spec (s : LState) : RS s (readQuotedIdentifier s) :=
  ⟨by kind_ne, rfl, by unfold readQuotedIdentifier; simp only []; steps⟩

theorem readUnicodeString_spec (q : Nat) (s : LState) : RS s (readUnicodeString q s) :=
  ⟨by kind_ne, rfl, readUntil_steps1 _ s⟩

theorem readUnicodeQuotedIdentifier_spec (q : Nat) (s : LState) : RS s (readUnicodeQuotedIdentifier q s) :=
  ⟨by kind_ne, rfl, readUntil_steps1 _ s⟩

theorem readBacktickIdentifier_spec (s : LState) : RS s (readBacktickIdentifier s) :=
  ⟨by kind_ne, rfl, by unfold readBacktickIdentifier; simp only []; steps⟩

theorem readParameter_spec (s : LState) : RS s (readParameter s) :=
  ⟨by kind_ne, rfl, readUntil_steps1 _ s⟩

theorem readDollarIdentifier_spec (s : LState) : RS s (readDollarIdentifier s) :=
  ⟨by kind_ne, rfl, by unfold readDollarIdentifier; simp only []; steps⟩

theorem readAt_spec (s : LState) : RS s (readAt s) := by
  unfold readAt
  simp only []
  split
  · split
    · exact ⟨by kind_ne, rfl, by steps⟩
    · exact ⟨by kind_ne, rfl, by steps⟩
  · exact ⟨by kind_ne, rfl, by steps⟩

theorem readOperator_spec {s : LState} {r : Tok × LState} (h : readOperator s = some r) : RS s r := by
  unfold readOperator at h
  simp only [] at h
  repeat' split at h
  all_goals first
    | (cases h; exact ⟨by kind_ne, rfl, by steps⟩)
    | cases h

/-! ## numbers -/

theorem decimalTail_spec (s : LState) (p : LState × Bytes) (h : Steps (readChar s) p.1) :
    RS s (decimalTail s p) :=
  ⟨by kind_ne, rfl, by unfold decimalTail; simp only []; steps⟩

theorem zeroPrefix_spec (s : LState) (p : LState × Bytes) (h : Steps s p.1) :
    RS s (zeroPrefix s p) := by
  have h1 : Steps (readChar s) (takeChar p).1 := h.map_rc
  unfold zeroPrefix
  simp only []
  split
  · exact ⟨by kind_ne, rfl, by steps⟩
  · split
    · exact ⟨by kind_ne, rfl, by steps⟩
    · split
      · exact ⟨by kind_ne, rfl, by steps⟩
      · exact decimalTail_spec _ _ h1

/-- `readNumber` is entered at a `.` (from `case '.'` with a digit following). -/
theorem readNumber_spec (s : LState) (hc : s.ch = 46) : RS s (readNumber s) := by
  unfold readNumber
  simp only [hc, if_true]
  have h1 : Steps (readChar s) (takeChar (s, ([] : Bytes))).1 := Steps.refl _
  split
  · exact zeroPrefix_spec _ _ (Steps.one _)
  · exact decimalTail_spec _ _ h1

theorem scanWhile_unfold_true (p hp) (s : LState) (acc : Bytes) (h : p s = true) :
    scanWhile p hp s acc = scanWhile p hp (readChar s) (pushRune acc s.ch) := by
  rw [scanWhile, dif_pos h]

theorem baseTail_steps {s : LState} (p : LState × Bytes) (h : Steps s p.1) : Steps s (baseTail p).1 := by
  unfold baseTail
  simp only []
  split
  · steps
  · split <;> steps

theorem octTail_steps {s : LState} (c : Nat) (p : LState × Bytes) (h : Steps s p.1) : Steps s (octTail c p).1 := by
  unfold octTail
  split
  · split <;> steps
  · exact h

theorem numberTail_spec (c : Nat) (s : LState) (p : LState × Bytes) (h : Steps (readChar s) p.1) :
    RS s (numberTail c s p) :=
  ⟨by kind_ne, rfl, by
    unfold numberTail; simp only []
    apply octTail_steps; apply baseTail_steps; steps⟩

/-- `readNumberOrIdent` is entered at a digit. -/
theorem readNumberOrIdent_spec (s : LState) (hc : isDigit s.ch = true) : RS s (readNumberOrIdent s) := by
  have h1 : Steps (readChar s) (scanWhile digitCond digitCond_ok s []).1 := by
    rw [scanWhile_unfold_true _ _ _ _ (show digitCond s = true from hc)]; steps
  unfold readNumberOrIdent
  simp only []
  split
  · exact ⟨by kind_ne, rfl, by steps⟩
  · split
    · exact ⟨by kind_ne, rfl, by steps⟩
    · exact numberTail_spec _ _ _ h1

theorem readDot_spec (s : LState) (hc : s.ch = 46) : RS s (readDot s) := by
  unfold readDot
  split
  · split
    · exact ⟨by kind_ne, rfl, by steps⟩
    · exact readNumber_spec s hc
  · exact ⟨by kind_ne, rfl, by steps⟩

/-! ## `readBinaryString` never indexes out of range -/

theorem binaryByte_ok (bits : Array UInt8) (i : Nat) :
    ∀ (k j : Nat) (v : UInt8), i + j + k ≤ bits.size → ∃ r, binaryByte bits i k j v = .ok r := by
  intro k
  induction k with
  | zero => intro j v _; exact ⟨v, rfl⟩
  | succ k ih =>
    intro j v h
    unfold binaryByte
    have hlt : i + j < bits.size := by omega
    rw [Array.getElem?_eq_getElem hlt]
    exact ih (j + 1) _ (by omega)

theorem binaryGroups_ok (bits : Array UInt8) (h8 : bits.size % 8 = 0) (i : Nat) (acc : Bytes)
    (hi : i % 8 = 0) : ∃ r, binaryGroups bits i acc = .ok r := by
  fun_induction binaryGroups bits i acc with
  | case1 i acc hlt e he =>
    obtain ⟨r, hr⟩ := binaryByte_ok bits i 8 0 0 (by omega)
    rw [hr] at he; cases he
  | case2 i acc hlt v hv ih => exact ih (by omega)
  | case3 i acc hlt => exact ⟨acc, rfl⟩

theorem binaryConvert_ok (bits : Array UInt8) : ∃ r, binaryConvert bits = .ok r := by
  unfold binaryConvert
  split
  · simp only []
    apply binaryGroups_ok
    · split
      · rw [Array.size_append, Array.size_replicate]; omega
      · omega
    · rfl
  · exact ⟨[], rfl⟩

theorem readBinaryString_spec (s : LState) :
    ∃ r, readBinaryString s = .ok r ∧ RS s r ∧ r.1.kind = tSTRING := by
  unfold readBinaryString
  simp only []
  obtain ⟨v, hv⟩ := binaryConvert_ok (binaryCollect (readChar s) #[]).2
  rw [hv]
  exact ⟨_, rfl, ⟨by kind_ne, rfl, by steps⟩, rfl⟩

theorem isIdentStart_isIdentChar {c : Nat} (h : isIdentStart c = true) : isIdentChar c = true := by
  unfold isIdentStart at h
  unfold isIdentChar
  simp only [Bool.or_eq_true, decide_eq_true_eq] at h ⊢
  cases h with
  | inl h => exact Or.inl (Or.inl (Or.inl h))
  | inr h => exact Or.inl (Or.inr h)

/-- `readIdentifier` is entered at an identifier-start rune. -/
theorem readIdentifier_spec (s : LState) (hc : isIdentStart s.ch = true) :
    ∃ r, readIdentifier s = .ok r ∧ TokSpec s r := by
  unfold readIdentifier
  split
  · exact ⟨_, rfl, (readHexString_spec _).tokSpec_after_rc rfl⟩
  · split
    · obtain ⟨r, hr, hs, hk⟩ := readBinaryString_spec (readChar s)
      exact ⟨r, hr, hs.tokSpec_after_rc hk⟩
    · refine ⟨_, rfl, RS.tokSpec ⟨lookupIdent_ne_eof _, rfl, ?_⟩⟩
      simp only []
      rw [scanWhile_unfold_true _ _ _ _ (show identCharCond s = true from isIdentStart_isIdentChar hc)]
      steps

/-! ## dollar quoting never indexes out of range -/

theorem lenGe_iff (l : Bytes) (n : Nat) : lenGe l n = true ↔ n ≤ l.length := by
  induction l generalizing n with
  | nil => cases n <;> simp [lenGe]
  | cons a t ih => cases n <;> simp [lenGe, ih]

theorem matchAt_ok (cur : Bytes) (k : Nat) :
    ∀ (cs : Bytes) (j : Nat), j + cs.length ≤ k → j + cs.length ≤ cur.length →
      ∃ r, matchAt cur k cs j = .ok r := by
  intro cs
  induction cs with
  | nil => intro j _ _; exact ⟨true, rfl⟩
  | cons c cs ih =>
    intro j h1 h2
    simp only [List.length_cons] at h1 h2
    unfold matchAt
    have hj : j < k := by omega
    have hj2 : j < cur.length := by omega
    simp only [winGet, hj, if_true, List.getElem?_eq_getElem hj2]
    split
    · exact ⟨false, rfl⟩
    · exact ih (j + 1) (by omega) (by omega)

theorem findClosing_ok (closing : Bytes) :
    ∀ (cur : Bytes) (k : Nat), ∃ r, findClosing closing closing.length cur k = .ok r := by
  intro cur
  induction cur with
  | nil =>
    intro k
    unfold findClosing
    split
    · rename_i hg
      simp only [Bool.and_eq_true, decide_eq_true_eq, lenGe_iff] at hg
      obtain ⟨r, hr⟩ := matchAt_ok [] k closing 0 (by omega) (by omega)
      rw [hr]
      cases r <;> exact ⟨_, rfl⟩
    · exact ⟨false, rfl⟩
  | cons a t ih =>
    intro k
    unfold findClosing
    split
    · rename_i hg
      simp only [Bool.and_eq_true, decide_eq_true_eq, lenGe_iff] at hg
      obtain ⟨r, hr⟩ := matchAt_ok (a :: t) k closing 0 (by omega) (by omega)
      rw [hr]
      cases r
      · exact ih (k - 1)
      · exact ⟨_, rfl⟩
    · exact ⟨false, rfl⟩

/-- `tryReadDollarTag` answers; it either leaves the state alone (tag `""`) or consumes the opening tag. -/
theorem tryReadDollarTag_spec (s : LState) :
    ∃ tag s1, tryReadDollarTag s = .ok (tag, s1) ∧ Steps s s1 := by
  unfold tryReadDollarTag
  simp only []
  split
  · exact ⟨_, _, rfl, Steps.refl _⟩
  · split
    · exact ⟨_, _, rfl, Steps.refl _⟩
    · generalize tagScan _ _ _ = ts
      split
      · exact ⟨_, _, rfl, Steps.refl _⟩
      · split
        · exact ⟨_, _, rfl, Steps.refl _⟩
        · obtain ⟨r, hr⟩ := findClosing_ok (36 :: (ts.2.2.reverse ++ [36]))
            (List.drop (winDecode ts.1 ts.2.1).2 ts.1) (ts.2.1 - (winDecode ts.1 ts.2.1).2)
          rw [hr]
          cases r
          · exact ⟨_, _, rfl, Steps.refl _⟩
          · exact ⟨_, _, rfl, by steps⟩

theorem delimMatch_ok (s : LState) (closing : Bytes) (i : Nat) : ∃ r, delimMatch s closing i = .ok r := by
  fun_induction delimMatch s closing i with
  | case1 i hlt hnone => simp [List.getElem?_eq_getElem hlt] at hnone
  | case2 i hlt c hc hne => exact ⟨false, rfl⟩
  | case3 i hlt c hc hne ih => exact ih
  | case4 i hlt => exact ⟨true, rfl⟩

theorem dollarBodyLoop_ok (closing : Bytes) (s : LState) (acc : Bytes) :
    ∃ r, dollarBodyLoop closing s acc = .ok r := by
  fun_induction dollarBodyLoop closing s acc with
  | case1 x acc hc h1 e he =>
    obtain ⟨r, hr⟩ := delimMatch_ok x closing 1
    rw [hr] at he; cases he
  | case2 x acc hc h1 he => exact ⟨_, rfl⟩
  | case3 x acc hc h1 he ih => exact ih
  | case4 x acc hc h1 ih => exact ih
  | case5 x acc hc => exact ⟨_, rfl⟩

/-- from a live state the body loop performs at least one `readChar`. -/
theorem dollarBodyLoop_steps1 (c : UInt8) (cs : Bytes) (x : LState) (acc : Bytes) (hx : x.eof = false)
    {r : LState × Bytes} (hr : dollarBodyLoop (c :: cs) x acc = .ok r) : Steps (readChar x) r.1 := by
  rw [dollarBodyLoop] at hr
  simp only [hx, dite_true] at hr
  split at hr
  · split at hr
    · cases hr
    · simp only [Except.ok.injEq] at hr; subst hr
      exact iterRC_steps_succ _ _
    · exact dollarBodyLoop_steps _ _ (Steps.refl _) hr
  · exact dollarBodyLoop_steps _ _ (Steps.refl _) hr

theorem readDollarQuotedString_spec (tag : Bytes) (s : LState) (hs : tag = [] ∨ True) :
    ∃ r, readDollarQuotedString tag s = .ok r ∧
      r.1.kind ≠ tEOF ∧ tpos r.1 = spos s ∧ Steps s r.2 ∧
      ((tag ≠ [] ∧ s.eof = true) ∨ Steps (readChar s) r.2) ∧ r.1.kind = tSTRING := by
  unfold readDollarQuotedString
  simp only []
  obtain ⟨r, hr⟩ := dollarBodyLoop_ok (36 :: (tag ++ [36])) (if tag.isEmpty then readChar (readChar s) else s) []
  rw [hr]
  refine ⟨_, rfl, by kind_ne, rfl, ?_, ?_, rfl⟩
  · apply dollarBodyLoop_steps _ _ _ hr
    split <;> steps
  · by_cases ht : tag.isEmpty = true
    · right
      simp only [ht, if_true] at hr
      exact dollarBodyLoop_steps _ _ (Steps.refl _).rc hr
    · simp only [ht] at hr
      cases he : s.eof with
      | true =>
        left
        exact ⟨by intro h; simp [h] at ht, rfl⟩
      | false =>
        right
        exact dollarBodyLoop_steps1 _ _ _ _ he hr

theorem readDollar_spec (s : LState) (he : s.eof = false) : ∃ r, readDollar s = .ok r ∧ TokSpec s r := by
  unfold readDollar
  split
  · obtain ⟨r, hr, hk, hp, hs, hd, _⟩ := readDollarQuotedString_spec [] s (Or.inl rfl)
    refine ⟨r, hr, hk, s, Steps.refl _, hp, hs, ?_, Or.inl rfl⟩
    cases hd with
    | inl h => exact absurd rfl h.1
    | inr h => exact Or.inr h
  · obtain ⟨tag, s1, ht, hst⟩ := tryReadDollarTag_spec s
    rw [ht]
    simp only []
    split
    · obtain ⟨r, hr, hk, hp, hs, hd, hstr⟩ := readDollarQuotedString_spec tag s1 (Or.inr trivial)
      refine ⟨r, hr, hk, s1, hst, hp, hs, ?_, Or.inr hstr⟩
      cases hd with
      | inl h => exact Or.inl h.2
      | inr h => exact Or.inr h
    · exact ⟨_, rfl, (readDollarIdentifier_spec s).tokSpec⟩

/-! ## NextToken -/

theorem nextTokenSwitch_spec (s : LState) (he : s.eof = false) :
    ∃ r, nextTokenSwitch s = .ok r ∧ TokSpec s r := by
  unfold nextTokenSwitch
  cases hk : singleCharKind s.ch with
  | some k => exact ⟨_, rfl, RS.tokSpec ⟨singleCharKind_ne_eof hk, rfl, Steps.refl _⟩⟩
  | none =>
    cases hop : readOperator s with
    | some r => exact ⟨_, rfl, (readOperator_spec hop).tokSpec⟩
    | none =>
      dsimp only
      apply ite_ex <;> intro h1
      · exact ⟨_, rfl, (readParameter_spec s).tokSpec⟩
      apply ite_ex <;> intro h2
      · exact ⟨_, rfl, (readDot_spec s h2).tokSpec⟩
      apply ite_ex <;> intro h3
      · exact readDollar_spec s he
      apply ite_ex <;> intro h4
      · exact ⟨_, rfl, (readString_spec _ s).tokSpec⟩
      apply ite_ex <;> intro h5
      · exact ⟨_, rfl, (readUnicodeString_spec _ s).tokSpec⟩
      apply ite_ex <;> intro h6
      · exact ⟨_, rfl, (readQuotedIdentifier_spec s).tokSpec⟩
      apply ite_ex <;> intro h7
      · exact ⟨_, rfl, (readUnicodeQuotedIdentifier_spec _ s).tokSpec⟩
      apply ite_ex <;> intro h8
      · exact ⟨_, rfl, (readBacktickIdentifier_spec s).tokSpec⟩
      apply ite_ex <;> intro h9
      · exact ⟨_, rfl, (readAt_spec s).tokSpec⟩
      apply ite_ex <;> intro h10
      · exact ⟨_, rfl, (readNumberOrIdent_spec s h10).tokSpec⟩
      apply ite_ex <;> intro h11
      · exact readIdentifier_spec s h11
      · exact ⟨_, rfl, RS.tokSpec ⟨by kind_ne, rfl, Steps.refl _⟩⟩

/-- the complete description of one `NextToken` call. `w` is the state after `skipWhitespace`. -/
theorem nextTokenE_spec (s : LState) :
    ∃ r, nextTokenE s = .ok r ∧
      (((skipWhitespace s).eof = true ∨ (skipWhitespace s).ch = 0) ∧
          r = (tokAt (skipWhitespace s) tEOF [], skipWhitespace s)
       ∨ ((skipWhitespace s).eof = false ∧ (skipWhitespace s).ch ≠ 0) ∧ TokSpec (skipWhitespace s) r) := by
  unfold nextTokenE
  simp only []
  split
  · rename_i h
    exact ⟨_, rfl, Or.inl ⟨h, rfl⟩⟩
  · rename_i h
    have he : (skipWhitespace s).eof = false := by
      cases hh : (skipWhitespace s).eof with
      | true => exact absurd (Or.inl hh) h
      | false => rfl
    have hz : (skipWhitespace s).ch ≠ 0 := fun hh => h (Or.inr hh)
    split
    · exact ⟨_, rfl, Or.inr ⟨⟨he, hz⟩, (readLineComment_spec _).tokSpec⟩⟩
    · split
      · exact ⟨_, rfl, Or.inr ⟨⟨he, hz⟩, (readHashComment_spec _).tokSpec⟩⟩
      · split
        · exact ⟨_, rfl, Or.inr ⟨⟨he, hz⟩, (readBlockComment_spec _).tokSpec⟩⟩
        · split
          · exact ⟨_, rfl, Or.inr ⟨⟨he, hz⟩, (readUnicodeMinusComment_spec _).tokSpec⟩⟩
          · obtain ⟨r, hr, hs⟩ := nextTokenSwitch_spec _ he
            exact ⟨r, hr, Or.inr ⟨⟨he, hz⟩, hs⟩⟩

end DC.Lexer
