import DC.Model.LexerRd
import DC.Proofs.LexerSpec
import DC.Proofs.LexerRdAttr

/-!
# `runL` of the reader-interface lexer is the pure lexer model: infrastructure and the basic operations

`LState.m` forgets `rest`; every lemma has the shape
`runL (fM … s.m …) s.rest = (.ok (result of f s, with states projected by .m), (new state).rest)`.
Loops need `s.measure < fuel`.
-/
set_option linter.unusedSimpArgs false

namespace DC.Lexer

/-- the lexer state without the reader -/
@[reducible] def LState.m (s : LState) : DC.LexerRd.MState :=
  { ch := s.ch, off := s.off, line := s.line, col := s.col, eof := s.eof }

end DC.Lexer

namespace DC.LexerRd
open DC DC.Utf8 DC.Gen.Tokens DC.Lexer DC.Rd DC.Bufio
open DC.Rd.RdM (runL lrune lpeek)

@[simp] theorem m_ch (s : LState) : s.m.ch = s.ch := rfl
@[simp] theorem m_off (s : LState) : s.m.off = s.off := rfl
@[simp] theorem m_line (s : LState) : s.m.line = s.line := rfl
@[simp] theorem m_col (s : LState) : s.m.col = s.col := rfl
@[simp] theorem m_eof (s : LState) : s.m.eof = s.eof := rfl
@[simp] theorem tokAtM_m (s : LState) (k : Nat) (v : Bytes) (q : Bool) : tokAtM s.m k v q = tokAt s k v q := rfl

/-! ## `runL` and the monad operations -/

variable {α β : Type}

/-- sequencing of results -/
def bindRes (x : Except Fail α × Bytes) (k : α → Bytes → Except Fail β × Bytes) : Except Fail β × Bytes :=
  match x with
  | (.ok a, r) => k a r
  | (.error e, r) => (.error e, r)

@[simp] theorem bindRes_ok (a : α) (r : Bytes) (k : α → Bytes → Except Fail β × Bytes) :
    bindRes (.ok a, r) k = k a r := rfl
@[simp] theorem bindRes_error (e : Fail) (r : Bytes) (k : α → Bytes → Except Fail β × Bytes) :
    bindRes (.error e, r) k = (.error e, r) := rfl
theorem bindRes_ite (c : Prop) [Decidable c] (x y : Except Fail α × Bytes) (k : α → Bytes → Except Fail β × Bytes) :
    bindRes (if c then x else y) k = if c then bindRes x k else bindRes y k := by
  split <;> rfl

@[simp] theorem runL_pure (a : α) (r : Bytes) : runL (pure a : M α) r = (.ok a, r) := rfl
@[simp] theorem runL_fail (e : Fail) (r : Bytes) : runL (RdM.fail e : M α) r = (.error e, r) := rfl

theorem runL_bind (x : M α) (g : α → M β) (r : Bytes) :
    runL (x >>= g) r = bindRes (runL x r) (fun a r' => runL (g a) r') := by
  show runL (RdM.bind x g) r = _
  induction x generalizing r with
  | pure a => rfl
  | fail e => rfl
  | readRune k ih => simp only [RdM.bind, runL]; exact ih _ _
  | peek n k ih => simp only [RdM.bind, runL]; exact ih _ _

theorem runL_ite (c : Prop) [Decidable c] (x y : M α) (r : Bytes) :
    runL (if c then x else y) r = if c then runL x r else runL y r := by
  split <;> rfl

@[simp] theorem runL_rune (r : Bytes) : runL (RdM.rune : M RuneRes) r = (.ok (lrune r).1, (lrune r).2) := rfl
@[simp] theorem runL_peekM (n : Nat) (r : Bytes) : runL (peekM n) r = (.ok (lpeek n r), r) := rfl

/-! ## fuel bookkeeping -/

theorem fuel_ok {s x : LState} {f : Nat} (h : s.measure < f) (st : Steps s x) : x.measure < f :=
  Nat.lt_of_le_of_lt st.measure_le h

/-! ## reading and peeking -/

theorem readCharM_pure (s : LState) :
    runL (readCharM s.m) s.rest = (.ok (readChar s).m, (readChar s).rest) := by
  unfold readCharM readChar
  by_cases he : s.eof = true
  · simp [he, LState.m]
  · simp only [he, m_eof, if_false, Bool.false_eq_true, runL_bind, runL_rune, bindRes_ok]
    unfold lrune
    by_cases hr : s.rest.isEmpty = true
    · simp [hr, LState.m]
    · simp [hr, LState.m]

theorem newM_pure (b : Bytes) : runL newM b = (.ok (new b).m, (new b).rest) :=
  readCharM_pure { rest := b, ch := 0, off := 0, line := 1, col := 0, eof := false }

theorem iterRCM_pure (n : Nat) (s : LState) :
    runL (iterRCM n s.m) s.rest = (.ok (iterRC n s).m, (iterRC n s).rest) := by
  induction n generalizing s with
  | zero => rfl
  | succ n ih => simp only [iterRCM, iterRC, runL_bind, readCharM_pure, bindRes_ok, ih]

theorem peekBytesM_pure (n : Nat) (s : LState) :
    runL (peekBytesM n) s.rest = (.ok (peekBytes s n), s.rest) := by
  simp only [peekBytesM, runL_bind, runL_peekM, bindRes_ok, runL_pure, peekBytes, lpeek]
  congr 2
  by_cases h1 : n > 4096
  · simp only [h1, if_true]; congr 1; omega
  · simp only [h1, if_false]
    have : min n 4096 = n := by omega
    rw [this]
    split
    · rw [List.take_of_length_le (by omega)]
    · rfl

theorem peekCharM_pure (s : LState) :
    runL (peekCharM s.m) s.rest = (.ok (peekChar s), s.rest) := by
  unfold peekCharM peekChar
  by_cases he : s.eof = true
  · simp [he]
  · simp only [he, m_eof, if_false, Bool.false_eq_true, runL_bind, runL_peekM, bindRes_ok, lpeek]
    cases hr : s.rest with
    | nil => simp
    | cons b t => simp

theorem peekCharNM_pure (s : LState) (n : Nat) :
    runL (peekCharNM s.m n) s.rest = (.ok (peekCharN s n), s.rest) := by
  unfold peekCharNM peekCharN
  by_cases h : s.eof = true ∨ n = 0
  · simp [h]
  · simp [h, runL_bind, peekBytesM_pure]

theorem chPeekIs_pure (c : Prop) [Decidable c] (s : LState) (k : Nat) :
    runL (chPeekIs c s.m k) s.rest = (.ok (decide (c ∧ peekChar s = k)), s.rest) := by
  unfold chPeekIs
  by_cases h : c
  · simp [h, runL_bind, peekCharM_pure]
  · simp [h]

attribute [rd_pure] runL_pure readCharM_pure newM_pure iterRCM_pure peekBytesM_pure peekCharM_pure peekCharNM_pure chPeekIs_pure runL_bind runL_ite bindRes_ok bindRes_error bindRes_ite runL_fail tokAtM_m decide_eq_true_eq

end DC.LexerRd
