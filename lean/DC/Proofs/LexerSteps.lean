import DC.Model.Lexer

/-!
# The lexer state only ever changes by `readChar`

`Steps s s'` : `s'` is reached from `s` by finitely many `readChar`s. Every scanner of `DC.Model.Lexer`
satisfies `Steps s (scanner s)`; everything that is preserved by `readChar` (measure bounds, the position
invariant of C13) is therefore preserved by every scanner (`Steps.induct`-style lemmas below).
-/
namespace DC.Lexer
open DC.Utf8 DC.Gen.Tokens

inductive Steps : LState → LState → Prop
  | refl (s : LState) : Steps s s
  | step {s s' : LState} : Steps (readChar s) s' → Steps s s'

namespace Steps

theorem trans {a b c : LState} (h1 : Steps a b) (h2 : Steps b c) : Steps a c := by
  induction h1 with
  | refl => exact h2
  | step _ ih => exact Steps.step (ih h2)

theorem one (s : LState) : Steps s (readChar s) := Steps.step (Steps.refl _)

/-- peel an outer `readChar`. -/
theorem rc {s x : LState} (h : Steps s x) : Steps s (readChar x) := h.trans (one x)

/-- `readChar` is a function, so it maps chains to chains. -/
theorem map_rc {s x : LState} (h : Steps s x) : Steps (readChar s) (readChar x) := by
  induction h with
  | refl => exact Steps.refl _
  | step _ ih => exact Steps.step ih

theorem measure_le {s s' : LState} (h : Steps s s') : s'.measure ≤ s.measure := by
  induction h with
  | refl => exact Nat.le_refl _
  | step _ ih => exact Nat.le_trans ih (readChar_measure_le _)

/-- a chain is either empty or starts with a `readChar`. -/
theorem cases_head {s s' : LState} (h : Steps s s') : s' = s ∨ Steps (readChar s) s' := by
  cases h with
  | refl => exact Or.inl rfl
  | step h => exact Or.inr h

end Steps

/-! ## a non-EOF `readChar` costs at least two units of measure -/

theorem readChar_measure_add_two (s : LState) (h : s.eof = false) :
    (readChar s).measure + 2 ≤ s.measure := by
  unfold readChar LState.measure
  simp [h]
  split
  · rename_i h2; simp [h2]
  · rename_i h2
    cases hr : s.rest with
    | nil => simp [hr] at h2
    | cons b t =>
      have h1 := decodeRune_size_pos b t
      have h3 := decodeRune_size_le_length (b :: t)
      simp at h3 ⊢
      omega

theorem Steps.measure_add_two {s s' : LState} (h : Steps (readChar s) s') (he : s.eof = false) :
    s'.measure + 2 ≤ s.measure :=
  Nat.le_trans (Nat.add_le_add_right h.measure_le 2) (readChar_measure_add_two s he)

/-! ## `voff`: bytes consumed, plus one once EOF has been seen -/

def voff (s : LState) : Nat := s.off + (if s.eof then 1 else 0)

theorem readChar_off_le (s : LState) : s.off ≤ (readChar s).off := by
  unfold readChar
  split
  · exact Nat.le_refl _
  · split
    · exact Nat.le_refl _
    · simp

theorem readChar_voff_le (s : LState) : voff s ≤ voff (readChar s) := by
  unfold readChar voff
  split
  · rename_i h; simp [h]
  · rename_i h
    split
    · simp
    · rename_i h2
      simp at h
      simp [h]

theorem readChar_voff_lt (s : LState) (h : s.eof = false) : voff s < voff (readChar s) := by
  unfold readChar voff
  simp [h]
  split
  · simp
  · rename_i h2
    simp
    cases hr : s.rest with
    | nil => simp [hr] at h2
    | cons b t => exact decodeRune_size_pos b t

theorem Steps.off_le {s s' : LState} (h : Steps s s') : s.off ≤ s'.off := by
  induction h with
  | refl => exact Nat.le_refl _
  | step _ ih => exact Nat.le_trans (readChar_off_le _) ih

theorem Steps.voff_le {s s' : LState} (h : Steps s s') : voff s ≤ voff s' := by
  induction h with
  | refl => exact Nat.le_refl _
  | step _ ih => exact Nat.le_trans (readChar_voff_le _) ih

theorem Steps.voff_lt {s s' : LState} (h : Steps (readChar s) s') (he : s.eof = false) : voff s < voff s' :=
  Nat.lt_of_lt_of_le (readChar_voff_lt s he) h.voff_le

/-! ## every loop is a chain of `readChar`s (in "peel the outermost call" form) -/

theorem iterRC_steps {s x : LState} (n : Nat) (h : Steps s x) : Steps s (iterRC n x) := by
  induction n generalizing x with
  | zero => exact h
  | succ n ih => exact ih h.rc

/-- at least one `readChar` when `n ≥ 1`. -/
theorem iterRC_steps_succ (n : Nat) (s : LState) : Steps (readChar s) (iterRC (n + 1) s) :=
  iterRC_steps n (Steps.refl _)

theorem scanWhile_steps {s x : LState} (p hp) (acc : Bytes) (h : Steps s x) :
    Steps s (scanWhile p hp x acc).1 := by
  fun_induction scanWhile p hp x acc with
  | case1 x acc hc ih => exact ih h.rc
  | case2 x acc hc => exact h

theorem skipWhitespace_steps {s x : LState} (h : Steps s x) : Steps s (skipWhitespace x) := by
  fun_induction skipWhitespace x with
  | case1 x hc ih => exact ih h.rc
  | case2 x hc => exact h

theorem skipUnderscores_steps {s x : LState} (h : Steps s x) : Steps s (skipUnderscores x) := by
  fun_induction skipUnderscores x with
  | case1 x hc ih => exact ih h.rc
  | case2 x hc => exact h

theorem digitsUs_steps {s x : LState} (acc : Bytes) (h : Steps s x) : Steps s (digitsUs x acc).1 := by
  fun_induction digitsUs x acc with
  | case1 x acc hc ih => exact ih (skipUnderscores_steps h.rc)
  | case2 x acc hc => exact h

theorem usDigitGroups_steps {s x : LState} (acc : Bytes) (h : Steps s x) : Steps s (usDigitGroups x acc).1 := by
  fun_induction usDigitGroups x acc with
  | case1 x acc hc r ih => exact ih (scanWhile_steps _ _ _ h.rc)
  | case2 x acc hc => exact h

theorem blockCommentLoop_steps {s x : LState} (acc : Bytes) (n : Nat) (h : Steps s x) :
    Steps s (blockCommentLoop x acc n).1 := by
  fun_induction blockCommentLoop x acc n with
  | case1 x acc n hc h1 ih => exact ih h.rc.rc
  | case2 x acc n hc h1 h2 ih => exact ih h.rc.rc
  | case3 x acc n hc h1 h2 ih => exact ih h.rc
  | case4 x acc n hc => exact h

theorem quotedLoop_steps {s x : LState} (bt : Bool) (q : Nat) (acc : Bytes) (h : Steps s x) :
    Steps s (quotedLoop bt q x acc).1 := by
  fun_induction quotedLoop bt q x acc <;> first
    | exact h
    | exact h.rc
    | (rename_i ih; first
        | exact ih h.rc
        | exact ih h.rc.rc
        | exact ih h.rc.rc.rc
        | exact ih h.rc.rc.rc.rc)

theorem hexStringLoop_steps {s x : LState} (acc : Bytes) (h : Steps s x) :
    Steps s (hexStringLoop x acc).1 := by
  fun_induction hexStringLoop x acc with
  | case1 x acc hc h1 => exact h.rc
  | case2 x acc hc h1 s1 h2 =>
    simp only []
    split
    · exact h.rc.rc
    · exact h.rc
  | case3 x acc hc h1 s1 h2 ih => exact ih h.rc.rc
  | case4 x acc hc => exact h

theorem binaryCollect_steps {s x : LState} (bits : Array UInt8) (h : Steps s x) :
    Steps s (binaryCollect x bits).1 := by
  fun_induction binaryCollect x bits with
  | case1 x bits hc h1 => exact h.rc
  | case2 x bits hc h1 ih => exact ih h.rc
  | case3 x bits hc => exact h

theorem quotedIdentLoop_steps {s x : LState} (acc : Bytes) (h : Steps s x) :
    Steps s (quotedIdentLoop x acc).1 := by
  fun_induction quotedIdentLoop x acc <;> first
    | exact h
    | exact h.rc
    | (rename_i ih; first
        | exact ih h.rc
        | exact ih h.rc.rc)

theorem readUntil_steps {s : LState} (close : Nat) (x : LState) (h : Steps s x) :
    Steps s (readUntil close x).1 := by
  unfold readUntil
  simp only []
  split
  · exact (scanWhile_steps _ _ _ h.rc).rc
  · exact scanWhile_steps _ _ _ h.rc

/-- `readUntil` starts with a `readChar`. -/
theorem readUntil_steps1 (close : Nat) (s : LState) : Steps (readChar s) (readUntil close s).1 := by
  unfold readUntil
  simp only []
  split
  · exact (scanWhile_steps _ _ _ (Steps.refl _)).rc
  · exact scanWhile_steps _ _ _ (Steps.refl _)

theorem dollarBodyLoop_steps {s x : LState} (closing : Bytes) (acc : Bytes) (h : Steps s x)
    {r : LState × Bytes} (hr : dollarBodyLoop closing x acc = .ok r) : Steps s r.1 := by
  fun_induction dollarBodyLoop closing x acc with
  | case1 x acc hc h1 e he => simp at hr
  | case2 x acc hc h1 he => simp at hr; subst hr; exact iterRC_steps _ h
  | case3 x acc hc h1 he ih => exact ih h.rc hr
  | case4 x acc hc h1 ih => exact ih h.rc hr
  | case5 x acc hc => simp at hr; subst hr; exact h

theorem takeChar_steps {s : LState} (p : LState × Bytes) (h : Steps s p.1) : Steps s (takeChar p).1 := h.rc

theorem optChar2_steps {s : LState} (c1 c2 : Nat) (p : LState × Bytes) (h : Steps s p.1) :
    Steps s (optChar2 c1 c2 p).1 := by
  unfold optChar2
  split
  · exact h.rc
  · exact h

theorem hexTail_steps {s : LState} (p : LState × Bytes) (h : Steps s p.1) : Steps s (hexTail p).1 := by
  unfold hexTail
  simp only []
  have h1 := scanWhile_steps hexDigitUsCond hexDigitUsCond_ok (takeChar p).2 (takeChar_steps p h)
  split <;> split
  all_goals first
    | exact scanWhile_steps _ _ _ (optChar2_steps _ _ _ (takeChar_steps _ (scanWhile_steps _ _ _ (takeChar_steps _ h1))))
    | exact scanWhile_steps _ _ _ (takeChar_steps _ h1)
    | exact scanWhile_steps _ _ _ (optChar2_steps _ _ _ (takeChar_steps _ h1))
    | exact h1

/-- `hexTail` starts with a `readChar`. -/
theorem hexTail_steps1 (p : LState × Bytes) : Steps (readChar p.1) (hexTail p).1 := by
  unfold hexTail
  simp only []
  have h1 : Steps (readChar p.1) (scanWhile hexDigitUsCond hexDigitUsCond_ok (takeChar p).1 (takeChar p).2).1 :=
    scanWhile_steps _ _ _ (Steps.refl _)
  split <;> split
  all_goals first
    | exact scanWhile_steps _ _ _ (optChar2_steps _ _ _ (takeChar_steps _ (scanWhile_steps _ _ _ (takeChar_steps _ h1))))
    | exact scanWhile_steps _ _ _ (takeChar_steps _ h1)
    | exact scanWhile_steps _ _ _ (optChar2_steps _ _ _ (takeChar_steps _ h1))
    | exact h1

theorem fracPart_steps {s : LState} (p : LState × Bytes) (h : Steps s p.1) : Steps s (fracPart p).1 := by
  unfold fracPart
  simp only []
  split
  · split
    · exact digitsUs_steps _ (takeChar_steps _ h)
    · exact h
  · exact h

theorem expPart_steps {s : LState} (p : LState × Bytes) (h : Steps s p.1) : Steps s (expPart p).1 := by
  unfold expPart
  simp only []
  split
  · exact digitsUs_steps _ (optChar2_steps _ _ _ (takeChar_steps _ h))
  · exact h

end DC.Lexer
