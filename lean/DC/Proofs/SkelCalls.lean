import DC.Proofs.SkelSound

/-! C02: calls that are entered without the cursor having advanced since the caller was entered, and the rank
    argument that bounds their nesting ("no recursion cycle without an advance"). -/

namespace DC.Model.Skel

variable {P : Prog} {ks : List Nat}

/-- `Calls P ks c i g j`: while `c`, started at index `i`, runs, a call of `g` written in `c` itself is entered at index `j`
    (the parts of `c` before that call have terminated; `c` as a whole need not) -/
inductive Calls (P : Prog) (ks : List Nat) : Cmd → Nat → Nat → Nat → Prop
  | here {g v i} : Calls P ks (.callF g v) i g i
  | seqL {a b i g j} : Calls P ks a i g j → Calls P ks (.seq a b) i g j
  | seqR {a b i k g j} : Exec P ks a i .norm k → Calls P ks b k g j → Calls P ks (.seq a b) i g j
  | altL {a b i g j} : Calls P ks a i g j → Calls P ks (.alt a b) i g j
  | altR {a b i g j} : Calls P ks b i g j → Calls P ks (.alt a b) i g j
  | block {l c i g j} : Calls P ks c i g j → Calls P ks (.block l c) i g j
  | loopHere {c i g j} : Calls P ks c i g j → Calls P ks (.loop c) i g j
  | loopNext {c i o k g j} : Exec P ks c i o k → (o = .norm ∨ o = .cont) → Calls P ks (.loop c) k g j →
      Calls P ks (.loop c) i g j
  | guardC {c a b i g j} : Calls P ks c i g j → Calls P ks (.guard c a b) i g j
  | guardA {c a b i g j} : Exec P ks c i .norm i → Calls P ks a i g j → Calls P ks (.guard c a b) i g j
  | guardB {c a b i k g j} : Exec P ks c i .norm k → k ≠ i → Calls P ks b k g j → Calls P ks (.guard c a b) i g j

/-- the call site found at run time is one of the sites listed by `sites`, and if the cursor is still at the reference
    point the current kind is among the kinds recorded for it -/
theorem calls_sound (hP : ∀ f, funOK P f = true) (hks : WF ks) {c i g j} (h : Calls P ks c i g j) :
    ∀ i0 st, Desc ks i0 i st → ∃ p ∈ sites P c st, p.1 = g ∧ (j = i0 → p.2.testBit (cur ks j) = true) := by
  induction h with
  | @here g v i =>
    intro i0 st hd
    refine ⟨(g, st.1), by simp [sites], rfl, ?_⟩
    intro hj
    rcases hd with ⟨_, hb⟩ | ⟨hlt, _⟩
    · exact hb
    · omega
  | seqL _ ih =>
    intro i0 st hd
    obtain ⟨p, hp, h1, h2⟩ := ih i0 st hd
    exact ⟨p, by simp only [sites, List.mem_append]; left; exact hp, h1, h2⟩
  | seqR hex _ ih =>
    intro i0 st hd
    have hn := ana_sound hP hks hex i0 st hd
    simp only [pick] at hn
    obtain ⟨p, hp, h1, h2⟩ := ih i0 _ hn
    exact ⟨p, by simp only [sites, List.mem_append]; right; exact hp, h1, h2⟩
  | altL _ ih =>
    intro i0 st hd
    obtain ⟨p, hp, h1, h2⟩ := ih i0 st hd
    exact ⟨p, by simp only [sites, List.mem_append]; left; exact hp, h1, h2⟩
  | altR _ ih =>
    intro i0 st hd
    obtain ⟨p, hp, h1, h2⟩ := ih i0 st hd
    exact ⟨p, by simp only [sites, List.mem_append]; right; exact hp, h1, h2⟩
  | block _ ih =>
    intro i0 st hd
    obtain ⟨p, hp, h1, h2⟩ := ih i0 st hd
    exact ⟨p, by simpa only [sites] using hp, h1, h2⟩
  | loopHere _ ih =>
    intro i0 st hd
    have hw := desc_widen_mono hks hd (Nat.le_refl _)
    obtain ⟨p, hp, h1, h2⟩ := ih i0 _ hw
    exact ⟨p, by simpa only [sites] using hp, h1, h2⟩
  | loopNext hex _ _ ih =>
    intro i0 st hd
    have hw := desc_widen_mono hks hd (exec_mono hex)
    obtain ⟨p, hp, h1, h2⟩ := ih i0 _ hw
    refine ⟨p, ?_, h1, h2⟩
    simp only [sites, widen_idem] at hp
    simpa only [sites] using hp
  | guardC _ ih =>
    intro i0 st hd
    obtain ⟨p, hp, h1, h2⟩ := ih i0 st hd
    exact ⟨p, by simp only [sites, List.mem_append]; left; left; exact hp, h1, h2⟩
  | guardA hex _ ih =>
    intro i0 st hd
    have hn := ana_sound hP hks hex i0 st hd
    simp only [pick] at hn
    obtain ⟨p, hp, h1, h2⟩ := ih i0 _ hn
    exact ⟨p, by simp only [sites, List.mem_append]; left; right; exact hp, h1, h2⟩
  | @guardB c a b i k g j hex hne _ ih =>
    intro i0 st hd
    have hn := ana_sound hP hks hex i0 st hd
    simp only [pick] at hn
    have hik := exec_mono hex
    have hi0 := hd.le
    have hm : Desc ks i0 k (0, (ana P c st).norm.2) := by
      rcases hn with ⟨he, _⟩ | ⟨hlt, hb⟩
      · omega
      · right; exact ⟨hlt, hb⟩
    obtain ⟨p, hp, h1, h2⟩ := ih i0 _ hm
    exact ⟨p, by simp only [sites, List.mem_append]; right; exact hp, h1, h2⟩

theorem foldl_or_testBit {rk : RankTbl} {k : Nat} {acc : Nat} :
    (rk.foldl (fun acc p => acc ||| p.1) acc).testBit k = true → acc.testBit k = true ∨ ∃ p ∈ rk, p.1.testBit k = true := by
  induction rk generalizing acc with
  | nil => intro h; left; simpa using h
  | cons q t ih =>
    intro h
    simp only [List.foldl_cons] at h
    rcases ih h with h | ⟨p, hp, hb⟩
    · simp only [Nat.testBit_or, Bool.or_eq_true] at h
      rcases h with h | h
      · left; exact h
      · right; exact ⟨q, by simp, h⟩
    · right; exact ⟨p, by simp [hp], hb⟩

/-- in a covering table the rank of every kind is the rank of one of its groups containing the kind -/
theorem rankOf_mem {rk : RankTbl} {k : Nat} (hk : k < K) (hc : covers rk = true) :
    ∃ p ∈ rk, p.1.testBit k = true ∧ rankOf rk k = p.2 := by
  have hex : ∃ p ∈ rk, p.1.testBit k = true := by
    unfold covers at hc
    simp only [beq_iff_eq] at hc
    have hb : ((rk.foldl (fun acc p => acc ||| p.1) 0) &&& ALL).testBit k = true := by rw [hc]; exact all_testBit hk
    simp only [Nat.testBit_and, Bool.and_eq_true] at hb
    rcases foldl_or_testBit hb.1 with h | h
    · simp at h
    · exact h
  clear hc
  induction rk with
  | nil => obtain ⟨p, hp, _⟩ := hex; simp at hp
  | cons q t ih =>
    by_cases hq : q.1.testBit k = true
    · exact ⟨q, by simp, hq, by simp [rankOf, hq]⟩
    · obtain ⟨p, hp, hb⟩ := hex
      have hpt : p ∈ t := by
        simp only [List.mem_cons] at hp
        rcases hp with rfl | hp
        · exact (hq hb).elim
        · exact hp
      obtain ⟨p', hp', hb', hr⟩ := ih ⟨p, hpt, hb⟩
      exact ⟨p', by simp [hp'], hb', by simp [rankOf, hq, hr]⟩

/-- what `siteOK` says about one kind -/
theorem site_rank {ranks : Array RankTbl} {f : Nat} {p : Nat × TokSet} {k : Nat} (hk : k < K)
    (hs : siteOK ranks f p = true) (hbit : p.2.testBit k = true) :
    rankOf (ranks.getD p.1 []) k < rankOf (ranks.getD f []) k := by
  unfold siteOK at hs
  simp only [Bool.or_eq_true, beq_iff_eq, Bool.and_eq_true] at hs
  rcases hs with h0 | ⟨⟨hcg, hcf⟩, hall⟩
  · rw [h0] at hbit; simp at hbit
  · obtain ⟨gg, hgg, hgb, hgr⟩ := rankOf_mem hk hcg
    obtain ⟨ff, hff, hfb, hfr⟩ := rankOf_mem hk hcf
    rw [List.all_eq_true] at hall
    have h1 := hall gg hgg
    rw [List.all_eq_true] at h1
    have h2 := h1 ff hff
    simp only [Bool.or_eq_true, beq_iff_eq, decide_eq_true_eq] at h2
    rcases h2 with hz | hlt
    · have : (p.2 &&& gg.1 &&& ff.1).testBit k = true := by
        simp [Nat.testBit_and, hbit, hgb, hfb]
      rw [hz] at this; simp at this
    · rw [hgr, hfr]; exact hlt

/-- **A non-advancing call goes down in rank.**  If every function passes `rankOK`, then whenever the body of `f`,
    entered at index `i`, enters a call of `g` with the cursor still at `i`, the rank of `g` at the current kind is
    strictly below that of `f`. -/
theorem nonadvancing_call_rank (hP : ∀ f, funOK P f = true) (hks : WF ks) {ranks : Array RankTbl}
    (hr : ∀ f, rankOK P ranks f = true) {f i g} (h : Calls P ks (P.body f) i g i) :
    rankOf (ranks.getD g []) (cur ks i) < rankOf (ranks.getD f []) (cur ks i) := by
  have hd : Desc ks i i (ALL, 0) := by left; exact ⟨rfl, all_testBit (cur_lt hks i)⟩
  obtain ⟨p, hp, hg, hb⟩ := calls_sound hP hks h i _ hd
  have hf := hr f
  unfold rankOK at hf
  rw [List.all_eq_true] at hf
  have := site_rank (cur_lt hks i) (hf p hp) (hb rfl)
  rw [hg] at this
  exact this

/-- `CallChain P ks i f n h`: `n` nested calls `f → … → h`, each entered with the cursor still at index `i` -/
inductive CallChain (P : Prog) (ks : List Nat) (i : Nat) : Nat → Nat → Nat → Prop
  | zero {f} : CallChain P ks i f 0 f
  | step {f g n h} : Calls P ks (P.body f) i g i → CallChain P ks i g n h → CallChain P ks i f (n + 1) h

/-- **No recursion without an advance.**  The number of nested calls that can be entered without the cursor moving is
    bounded by the rank of the outermost function at the current kind. -/
theorem nonadvancing_depth_bounded (hP : ∀ f, funOK P f = true) (hks : WF ks) {ranks : Array RankTbl}
    (hr : ∀ f, rankOK P ranks f = true) {i f n h} (hc : CallChain P ks i f n h) :
    n + rankOf (ranks.getD h []) (cur ks i) ≤ rankOf (ranks.getD f []) (cur ks i) := by
  induction hc with
  | zero => omega
  | step hcall _ ih =>
    have := nonadvancing_call_rank hP hks hr hcall
    omega

theorem rankOK_beyond {ranks : Array RankTbl} {f : Nat} (hf : P.funs.size ≤ f) : rankOK P ranks f = true := by
  have hb : P.body f = .skip := by
    unfold Prog.body; rw [Array.getD_eq_getD_getElem?, Array.getElem?_eq_none (by omega)]; rfl
  unfold rankOK
  rw [hb]
  simp [sites]

theorem rankOK_all {ranks : Array RankTbl} (h : (List.range P.funs.size).all (rankOK P ranks) = true) :
    ∀ f, rankOK P ranks f = true := by
  intro f
  by_cases hf : f < P.funs.size
  · rw [List.all_eq_true] at h
    exact h f (List.mem_range.mpr hf)
  · exact rankOK_beyond (by omega)

end DC.Model.Skel
