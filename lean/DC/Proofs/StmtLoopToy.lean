import DC.Proofs.StmtLoopScript

/-!
# The toy element parser `toyParse` satisfies the hypotheses (non-vacuity of C16 / C06)
-/

namespace DC.Model.StmtLoop

open DC.Gen.Tokens (tSEMICOLON tPARALLEL tWITH tEOF tILLEGAL)

/-- where `toyBody` stops, on the stream itself -/
def toyRest : List Tok → List Tok
  | [] => []
  | a :: l =>
    if a.kind == tSEMICOLON || (a.kind == tPARALLEL && kindIs l.head? tWITH) then a :: l
    else toyRest l

theorem toyRest_suffix (l : List Tok) : ∃ m, toyRest l = l.drop m := by
  induction l with
  | nil => exact ⟨0, rfl⟩
  | cons a l ih =>
    unfold toyRest
    split
    · exact ⟨0, rfl⟩
    · obtain ⟨m, hm⟩ := ih
      exact ⟨m + 1, by simpa using hm⟩

theorem ofList_peekIs_cons (a : Tok) (l : List Tok) (k : Nat) :
    (Window.ofList (a :: l)).peekIs k = kindIs l.head? k := by
  cases l <;> simp [Window.ofList, Window.peekIs]

theorem toyBody_ofList (l : List Tok) : toyBody (Window.ofList l) = Window.ofList (toyRest l) := by
  induction l with
  | nil =>
    unfold toyBody
    simp [Window.stopsToy, ofList_atEOF, toyRest]
  | cons a l ih =>
    unfold toyBody
    by_cases h : (a.kind == tSEMICOLON || (a.kind == tPARALLEL && kindIs l.head? tWITH)) = true
    · have : (Window.ofList (a :: l)).stopsToy = true := by
        simpa [Window.stopsToy, ofList_atEOF, ofList_currentIs_cons, Window.isParallelWith,
          ofList_peekIs_cons] using h
      simp [this, toyRest, h]
    · have : (Window.ofList (a :: l)).stopsToy = false := by
        simpa [Window.stopsToy, ofList_atEOF, ofList_currentIs_cons, Window.isParallelWith,
          ofList_peekIs_cons] using h
      simp only [this, Bool.false_eq_true, ↓reduceDIte, ofList_nextToken, List.tail_cons, ih]
      simp [toyRest, h]

/-- `toyParse` in closed form on a stream -/
theorem toyParse_ofList_nil :
    toyParse (Window.ofList []) = ⟨none, Window.ofList [], [none]⟩ := by
  simp [toyParse, Window.ofList, Window.nextToken]

theorem toyParse_ofList_cons (a : Tok) (l : List Tok) :
    toyParse (Window.ofList (a :: l)) =
      if a.kind == tSEMICOLON || a.kind == tPARALLEL || a.kind == tBAD then
        ⟨none, Window.ofList l, [some a.id]⟩
      else ⟨some ⟨[a.id]⟩, Window.ofList (toyRest l), []⟩ := by
  have hc : (Window.ofList (a :: l)).current = some a := by simp [Window.ofList]
  unfold toyParse
  simp only [hc, ofList_nextToken, List.tail_cons, toyBody_ofList]

theorem toyParse_progress : Progress toyParse := by
  intro l
  cases l with
  | nil => exact ⟨0, by simp [toyParse_ofList_nil], by simp⟩
  | cons a l =>
    rw [toyParse_ofList_cons]
    split
    · exact ⟨1, by simp, by simp⟩
    · obtain ⟨m, hm⟩ := toyRest_suffix l
      exact ⟨m + 1, by simp [hm], by simp⟩

/-- an ordinary token: not `;`, not PARALLEL, not the toy's bad token -/
def Ordinary (t : Tok) : Prop := t.kind ≠ tSEMICOLON ∧ t.kind ≠ tPARALLEL ∧ t.kind ≠ tBAD

theorem toyRest_boundary (rest : List Tok) (h : Boundary rest) : toyRest rest = rest := by
  rcases h with rfl | ⟨t, r, rfl, ht⟩
  · rfl
  · have : t.kind = tSEMICOLON := by simpa [isSemi] using ht
    simp [toyRest, this]

/-- a one-token statement is self-contained for the toy parser -/
theorem toy_selfContained_single (t : Tok) (ht : Ordinary t) :
    SelfContained toyParse [t] ⟨[t.id]⟩ := by
  intro rest hb
  obtain ⟨h1, h2, h3⟩ := ht
  simp [toyParse_ofList_cons, h1, h2, h3, toyRest_boundary rest hb]

end DC.Model.StmtLoop
