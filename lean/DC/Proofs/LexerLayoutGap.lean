import DC.Proofs.LexerLayoutRunes

/-!
# Gaps: white space and comments are trivia (C05), comment bodies are opaque (C06)

* `nextToken_ws`: on a white-space character `NextToken` is `NextToken` after one `readChar`.
* `skipWhitespace_run`: a run of white space is skipped up to the first non-white-space rune.
* `scanWhile_run`: the generic scanner loop reads exactly a given run of runes.
* `lineComment_tok`, `hashComment_tok`, `blockComment_tok`: one `LINE_COMMENT` token, and where the lexer
  stands afterwards.
* `Gap g` (a sequence of white-space runes, `--…\n`, `#…\n`, balanced `/*…*/`) and `gap_trivia`: from a state
  that enters `g ++ rest` the parser sees what it sees from a state that enters `rest`.
-/
namespace DC.Lexer
open DC.Utf8 DC.Gen.Tokens

/-- the characters `skipWhitespace` skips (lexer.go:118-124). -/
def isWs (r : Nat) : Bool := isSpace r || isClickHouseWhitespace r

theorem isWs_zero : isWs 0 = false := by decide

theorem skipWhitespace_ws {s : LState} (h : isWs s.ch = true) : skipWhitespace s = skipWhitespace (readChar s) := by
  rw [skipWhitespace.eq_1 s, dif_pos (show (isSpace s.ch || isClickHouseWhitespace s.ch) = true from h)]

theorem skipWhitespace_not_ws {s : LState} (h : isWs s.ch = false) : skipWhitespace s = s := by
  rw [skipWhitespace.eq_1 s, dif_neg (by unfold isWs at h; rw [h]; decide)]

/-- `NextToken` only looks at the state after `skipWhitespace`. -/
theorem nextToken_skip (s : LState) : nextToken s = nextToken (skipWhitespace s) := by
  have : nextTokenE s = nextTokenE (skipWhitespace s) := by
    unfold nextTokenE
    rw [skipWhitespace_idem]
  rw [nextTokenE_eq, nextTokenE_eq] at this
  exact Except.ok.inj this

theorem nextToken_ws {s : LState} (h : isWs s.ch = true) : nextToken s = nextToken (readChar s) := by
  rw [nextToken_skip s, skipWhitespace_ws h, ← nextToken_skip]

theorem pumpedFrom_ws {s : LState} (h : isWs s.ch = true) : pumpedFrom s = pumpedFrom (readChar s) :=
  pumpedFrom_congr (nextToken_ws h)

/-- a run of white space is skipped, up to the first rune that is not white space. -/
theorem skipWhitespace_run {w : Bytes} {ws : List Nat} (hw : Spells w ws) (hall : ∀ r ∈ ws, isWs r = true)
    {rest : Bytes} (hrest : isWs (firstRune rest) = false) {s : LState} (hs : Ent s (w ++ rest)) :
    Ent (skipWhitespace s) rest := by
  induction hw generalizing s with
  | nil =>
    rw [List.nil_append] at hs
    rw [skipWhitespace_not_ws (by rw [hs.ch]; exact hrest)]
    exact hs
  | @cons p r bs rs hd _ ih =>
    rw [List.append_assoc] at hs
    have hch := (hs.dec hd).1
    rw [skipWhitespace_ws (by rw [hch]; exact hall r (List.mem_cons_self ..))]
    exact ih (fun x hx => hall x (List.mem_cons_of_mem _ hx)) (hs.readChar hd)

/-! ## the generic loop over a known run -/

theorem pushRune_enc (acc : Bytes) (r : Nat) (rs : List Nat) :
    (enc rs).reverse ++ pushRune acc r = (enc (r :: rs)).reverse ++ acc := by
  simp [pushRune, enc]

/-- `scanWhile` with a condition that, on live states, is a predicate `c` of the current character: it reads
exactly a run of runes satisfying `c` that is followed by a rune (or EOF) that does not. -/
theorem scanWhile_run (p hp) (c : Nat → Bool) (hpc : ∀ s : LState, s.eof = false → p s = c s.ch)
    {body : Bytes} {rs : List Nat} (hb : Spells body rs) (hall : ∀ r ∈ rs, c r = true)
    {rest : Bytes} (hstop : c (firstRune rest) = false) {s : LState} (acc : Bytes) (hs : Ent s (body ++ rest)) :
    (scanWhile p hp s acc).2 = (enc rs).reverse ++ acc ∧ Ent (scanWhile p hp s acc).1 rest := by
  induction hb generalizing s acc with
  | nil =>
    rw [List.nil_append] at hs
    have hf : ¬ p s = true := by
      cases he : s.eof with
      | true =>
        intro hp'
        have := hs.eof_iff.1 he
        subst this
        exact hp s hp' ⟨he, hs.nil.2⟩
      | false => rw [hpc s he, hs.ch, hstop]; decide
    rw [scanWhile_unfold_false p hp s acc hf]
    exact ⟨rfl, hs⟩
  | @cons q r bs rs hd _ ih =>
    rw [List.append_assoc] at hs
    obtain ⟨hch, he, _⟩ := hs.dec hd
    have ht : p s = true := by rw [hpc s he, hch]; exact hall r (List.mem_cons_self ..)
    rw [scanWhile_unfold_true p hp s acc ht, hch]
    obtain ⟨h1, h2⟩ := ih (fun x hx => hall x (List.mem_cons_of_mem _ hx)) (pushRune acc r) (hs.readChar hd)
    exact ⟨by rw [h1, pushRune_enc], h2⟩

/-! ## line comments -/

/-- what ends a `--`/`#` comment besides EOF. -/
def lineBodyOk (rs : List Nat) : Prop := ∀ r ∈ rs, r ≠ 10 ∧ r ≠ 0

theorem lineCommentCond_live (s : LState) (he : s.eof = false) :
    lineCommentCond s = (fun c => decide (c ≠ 10) && decide (c ≠ 0)) s.ch := by
  simp [lineCommentCond, he]

theorem dec10 : Dec [10] 10 := dec_ascii (b := 10) (by decide)
theorem dec45 : Dec [45] 45 := dec_ascii (b := 45) (by decide)
theorem dec35 : Dec [35] 35 := dec_ascii (b := 35) (by decide)
theorem dec47 : Dec [47] 47 := dec_ascii (b := 47) (by decide)
theorem dec42 : Dec [42] 42 := dec_ascii (b := 42) (by decide)

theorem lineScan {body : Bytes} {rs : List Nat} (hb : Spells body rs) (hok : lineBodyOk rs) (rest : Bytes)
    {s : LState} (acc : Bytes) (hs : Ent s (body ++ 10 :: rest)) :
    (scanWhile lineCommentCond lineCommentCond_ok s acc).2 = (enc rs).reverse ++ acc ∧
      Ent (scanWhile lineCommentCond lineCommentCond_ok s acc).1 (10 :: rest) :=
  scanWhile_run lineCommentCond lineCommentCond_ok (fun c => decide (c ≠ 10) && decide (c ≠ 0)) lineCommentCond_live hb
    (fun r hr => by
      show (decide (r ≠ 10) && decide (r ≠ 0)) = true
      simp [(hok r hr).1, (hok r hr).2])
    (by rw [firstRune_cons_ascii 10 rest (by decide)]; decide) acc hs

/-- `--body\n`: one `LINE_COMMENT` token (value: the text up to the newline, trailing `;` trimmed — the
quirk of lexer.go:410), and the lexer stands on the newline. -/
theorem readLineComment_run {body : Bytes} {rs : List Nat} (hb : Spells body rs) (hok : lineBodyOk rs) (rest : Bytes)
    {s : LState} (hs : Ent s (45 :: 45 :: body ++ 10 :: rest)) :
    (readLineComment s).1.kvq = (tLINE_COMMENT, (trimRightSemis (enc (45 :: 45 :: rs)).reverse).reverse, false) ∧
      Ent (readLineComment s).2 (10 :: rest) := by
  have h1 := hs.dec (p := [45]) dec45
  have hs1 : Ent (readChar s) (45 :: body ++ 10 :: rest) := hs.readChar (p := [45]) dec45
  have h2 := hs1.dec (p := [45]) dec45
  have hs2 : Ent (readChar (readChar s)) (body ++ 10 :: rest) := hs1.readChar (p := [45]) dec45
  obtain ⟨ha, he⟩ := lineScan hb hok rest (pushRune (pushRune [] s.ch) (readChar s).ch) hs2
  unfold readLineComment
  simp only [kvq_tokAt]
  refine ⟨?_, he⟩
  rw [ha, h1.1, h2.1, pushRune_enc, pushRune_enc, List.append_nil]

theorem readHashComment_run {body : Bytes} {rs : List Nat} (hb : Spells body rs) (hok : lineBodyOk rs) (rest : Bytes)
    {s : LState} (hs : Ent s (35 :: body ++ 10 :: rest)) :
    (readHashComment s).1.kvq = (tLINE_COMMENT, (trimRightSemis (enc (35 :: rs)).reverse).reverse, false) ∧
      Ent (readHashComment s).2 (10 :: rest) := by
  have h1 := hs.dec (p := [35]) dec35
  have hs1 : Ent (readChar s) (body ++ 10 :: rest) := hs.readChar (p := [35]) dec35
  obtain ⟨ha, he⟩ := lineScan hb hok rest (pushRune [] s.ch) hs1
  unfold readHashComment
  simp only [kvq_tokAt]
  refine ⟨?_, he⟩
  rw [ha, h1.1, pushRune_enc, List.append_nil]

/-- `NextToken` in a state that is not at EOF and not on white space starts the `switch`/comment tests in
that very state. -/
theorem nextTokenE_live {s : LState} (hw : isWs s.ch = false) (he : s.eof = false) (hz : s.ch ≠ 0) :
    nextTokenE s =
      if s.ch = 45 ∧ peekChar s = 45 then .ok (readLineComment s)
      else if s.ch = 35 then .ok (readHashComment s)
      else if s.ch = 47 ∧ peekChar s = 42 then .ok (readBlockComment s)
      else if s.ch = 0x2212 then .ok (readUnicodeMinusComment s)
      else nextTokenSwitch s := by
  unfold nextTokenE
  simp only [skipWhitespace_not_ws hw]
  rw [if_neg (by simp [he, hz])]

theorem nextToken_of_E {s : LState} {r : Tok × LState} (h : nextTokenE s = .ok r) : nextToken s = r := by
  unfold nextToken; rw [h]

theorem lineComment_tok {body : Bytes} {rs : List Nat} (hb : Spells body rs) (hok : lineBodyOk rs) (rest : Bytes)
    {s : LState} (hs : Ent s (45 :: 45 :: body ++ 10 :: rest)) :
    (nextToken s).1.kvq = (tLINE_COMMENT, (trimRightSemis (enc (45 :: 45 :: rs)).reverse).reverse, false) ∧
      Ent (nextToken s).2 (10 :: rest) := by
  obtain ⟨hch, he, _⟩ := hs.dec (p := [45]) dec45
  have hpk : peekChar s = 45 :=
    (hs.peek (p := [45]) dec45 45 (by decide)).2 (firstRune_cons_ascii 45 _ (by decide))
  have : nextTokenE s = .ok (readLineComment s) := by
    rw [nextTokenE_live (by rw [hch]; decide) he (by rw [hch]; decide), if_pos ⟨hch, hpk⟩]
  rw [nextToken_of_E this]
  exact readLineComment_run hb hok rest hs

theorem hashComment_tok {body : Bytes} {rs : List Nat} (hb : Spells body rs) (hok : lineBodyOk rs) (rest : Bytes)
    {s : LState} (hs : Ent s (35 :: body ++ 10 :: rest)) :
    (nextToken s).1.kvq = (tLINE_COMMENT, (trimRightSemis (enc (35 :: rs)).reverse).reverse, false) ∧
      Ent (nextToken s).2 (10 :: rest) := by
  obtain ⟨hch, he, _⟩ := hs.dec (p := [35]) dec35
  have : nextTokenE s = .ok (readHashComment s) := by
    rw [nextTokenE_live (by rw [hch]; decide) he (by rw [hch]; decide), if_neg (by rw [hch]; intro h; exact absurd h.1 (by decide)), if_pos hch]
  rw [nextToken_of_E this]
  exact readHashComment_run hb hok rest hs

/-! ## block comments -/

/-- does the rune text `rs` (read by `readBlockComment`'s loop at nesting `n`: `*/` closes, `/*` opens, pairs
taken greedily from the left) bring the nesting to 0 exactly at its end, and not before? -/
def closesExactly : Nat → List Nat → Bool
  | 0, rs => rs.isEmpty
  | _ + 1, [] => false
  | _ + 1, [_] => false
  | n + 1, a :: b :: rs =>
    if a = 42 ∧ b = 47 then closesExactly n rs
    else if a = 47 ∧ b = 42 then closesExactly (n + 2) rs
    else closesExactly (n + 1) (b :: rs)
termination_by _ rs => rs.length

example : closesExactly 1 [97, 47, 42, 98, 42, 47, 42, 47] = true := by simp [closesExactly]

theorem Spells.nil_inv {bs : Bytes} (h : Spells bs []) : bs = [] := by
  cases h; rfl

theorem Spells.cons_inv {bs : Bytes} {r : Nat} {rs : List Nat} (h : Spells bs (r :: rs)) :
    ∃ p bs', bs = p ++ bs' ∧ Dec p r ∧ Spells bs' rs := by
  cases h with
  | cons hd ht => exact ⟨_, _, rfl, hd, ht⟩

theorem blockLoop_run (n : Nat) (rs : List Nat) :
    ∀ {bs : Bytes}, Spells bs rs → closesExactly n rs = true → ∀ (rest : Bytes) {s : LState} (acc : Bytes),
      Ent s (bs ++ rest) →
      (blockCommentLoop s acc n).2 = (enc rs).reverse ++ acc ∧ Ent (blockCommentLoop s acc n).1 rest := by
  fun_induction closesExactly n rs with
  | case1 rs =>
    intro bs hb hc rest s acc hs
    have : rs = [] := by simpa using hc
    subst this
    rw [hb.nil_inv] at hs
    rw [blockCommentLoop.eq_1, dif_neg (by omega)]
    exact ⟨rfl, hs⟩
  | case2 n => intro bs hb hc; cases hc
  | case3 n a => intro bs hb hc; cases hc
  | case4 n a b rs hp ih =>
    intro bs hb hc rest s acc hs
    obtain ⟨pa, bs1, rfl, hda, hb1⟩ := hb.cons_inv
    obtain ⟨pb, bs2, rfl, hdb, hb2⟩ := hb1.cons_inv
    rw [List.append_assoc, List.append_assoc] at hs
    obtain ⟨hch, he, _⟩ := hs.dec hda
    have hs1 := hs.readChar hda
    have hch1 := (hs1.dec hdb).1
    have hpk : peekChar s = 47 := (hs.peek hda 47 (by decide)).2 (by rw [firstRune_dec hdb, hp.2])
    rw [blockCommentLoop.eq_1, dif_pos ⟨he, by omega⟩, if_pos ⟨by rw [hch, hp.1], hpk⟩, hch, hch1]
    obtain ⟨h1, h2⟩ := ih hb2 hc rest (pushRune (pushRune acc a) b) (hs1.readChar hdb)
    show (blockCommentLoop (readChar (readChar s)) (pushRune (pushRune acc a) b) n).2 = _ ∧
      Ent (blockCommentLoop (readChar (readChar s)) (pushRune (pushRune acc a) b) n).1 rest
    refine ⟨?_, h2⟩
    rw [h1, pushRune_enc, pushRune_enc]
  | case5 n a b rs hp hq ih =>
    intro bs hb hc rest s acc hs
    obtain ⟨pa, bs1, rfl, hda, hb1⟩ := hb.cons_inv
    obtain ⟨pb, bs2, rfl, hdb, hb2⟩ := hb1.cons_inv
    rw [List.append_assoc, List.append_assoc] at hs
    obtain ⟨hch, he, _⟩ := hs.dec hda
    have hs1 := hs.readChar hda
    have hch1 := (hs1.dec hdb).1
    have hpk : peekChar s = 42 := (hs.peek hda 42 (by decide)).2 (by rw [firstRune_dec hdb, hq.2])
    rw [blockCommentLoop.eq_1, dif_pos ⟨he, by omega⟩, if_neg (by rw [hch, hq.1]; intro h; exact absurd h.1 (by decide)),
      if_pos ⟨by rw [hch, hq.1], hpk⟩, hch, hch1]
    obtain ⟨h1, h2⟩ := ih hb2 hc rest (pushRune (pushRune acc a) b) (hs1.readChar hdb)
    refine ⟨?_, h2⟩
    rw [h1, pushRune_enc, pushRune_enc]
  | case6 n a b rs hp hq ih =>
    intro bs hb hc rest s acc hs
    obtain ⟨pa, bs1, rfl, hda, hb1⟩ := hb.cons_inv
    rw [List.append_assoc] at hs
    obtain ⟨hch, he, _⟩ := hs.dec hda
    have hs1 := hs.readChar hda
    obtain ⟨pb, bs2, hbs, hdb, hb2⟩ := hb1.cons_inv
    have hfr : firstRune (bs1 ++ rest) = b := by rw [hbs, List.append_assoc, firstRune_dec hdb]
    have hn1 : ¬(s.ch = 42 ∧ peekChar s = 47) := by
      rw [hch, hs.peek hda 47 (by decide), hfr]; exact hp
    have hn2 : ¬(s.ch = 47 ∧ peekChar s = 42) := by
      rw [hch, hs.peek hda 42 (by decide), hfr]; exact hq
    rw [blockCommentLoop.eq_1, dif_pos ⟨he, by omega⟩, if_neg hn1, if_neg hn2, hch]
    obtain ⟨h1, h2⟩ := ih hb1 hc rest (pushRune acc a) hs1
    refine ⟨?_, h2⟩
    rw [h1, pushRune_enc]


/-- `/*` + text: one `LINE_COMMENT` token whose value is the whole comment; the lexer enters what follows. -/
theorem readBlockComment_run {bs : Bytes} {rs : List Nat} (hb : Spells bs rs) (hc : closesExactly 1 rs = true)
    (rest : Bytes) {s : LState} (hs : Ent s (47 :: 42 :: bs ++ rest)) :
    (readBlockComment s).1.kvq = (tLINE_COMMENT, enc (47 :: 42 :: rs), false) ∧ Ent (readBlockComment s).2 rest := by
  have h1 := hs.dec (p := [47]) dec47
  have hs1 : Ent (readChar s) (42 :: bs ++ rest) := hs.readChar (p := [47]) dec47
  have h2 := hs1.dec (p := [42]) dec42
  have hs2 : Ent (readChar (readChar s)) (bs ++ rest) := hs1.readChar (p := [42]) dec42
  obtain ⟨ha, he⟩ := blockLoop_run 1 rs hb hc rest (pushRune (pushRune [] s.ch) (readChar s).ch) hs2
  unfold readBlockComment
  simp only [kvq_tokAt]
  refine ⟨?_, he⟩
  rw [ha, h1.1, h2.1, pushRune_enc, pushRune_enc, List.append_nil, List.reverse_reverse]

theorem blockComment_tok {bs : Bytes} {rs : List Nat} (hb : Spells bs rs) (hc : closesExactly 1 rs = true)
    (rest : Bytes) {s : LState} (hs : Ent s (47 :: 42 :: bs ++ rest)) :
    (nextToken s).1.kvq = (tLINE_COMMENT, enc (47 :: 42 :: rs), false) ∧ Ent (nextToken s).2 rest := by
  obtain ⟨hch, he, _⟩ := hs.dec (p := [47]) dec47
  have hpk : peekChar s = 42 :=
    (hs.peek (p := [47]) dec47 42 (by decide)).2 (firstRune_cons_ascii 42 _ (by decide))
  have : nextTokenE s = .ok (readBlockComment s) := by
    rw [nextTokenE_live (by rw [hch]; decide) he (by rw [hch]; decide),
      if_neg (by rw [hch]; intro h; exact absurd h.1 (by decide)), if_neg (by rw [hch]; decide),
      if_pos ⟨hch, hpk⟩]
  rw [nextToken_of_E this]
  exact readBlockComment_run hb hc rest hs

/-- does the rune list contain an adjacent `/*` or `*/`? -/
def hasCommentPair : List Nat → Bool
  | a :: b :: rs => (a = 42 && b = 47) || (a = 47 && b = 42) || hasCommentPair (b :: rs)
  | _ => false

/-- the non-nested case: a body without `/*` and `*/` that does not end in `/` (so that body + `*` has no pair),
followed by `*/`. -/
theorem closesExactly_simple (body : List Nat) (h : hasCommentPair (body ++ [42]) = false) :
    closesExactly 1 (body ++ [42, 47]) = true := by
  induction body with
  | nil => simp [closesExactly]
  | cons a t ih =>
    cases t with
    | nil =>
      simp [hasCommentPair] at h
      simp [closesExactly, h]
    | cons b t =>
      simp only [List.cons_append, hasCommentPair, Bool.or_eq_false_iff, Bool.and_eq_false_iff,
        decide_eq_false_iff_not] at h
      have ih' := ih h.2
      simp only [List.cons_append] at ih' ⊢
      rw [closesExactly, if_neg (by omega), if_neg (by omega)]
      exact ih'

/-! ## gaps -/

/-- one gap item, as bytes: a white-space rune; `--body\n`; `#body\n` (bodies without newline and NUL);
`/*text` where `text` closes the comment exactly at its end (nesting allowed). -/
inductive GapItem : Bytes → Prop
  | ws {p : Bytes} {r : Nat} : Dec p r → isWs r = true → GapItem p
  | dash {body : Bytes} {rs : List Nat} : Spells body rs → lineBodyOk rs → GapItem (45 :: 45 :: body ++ [10])
  | hash {body : Bytes} {rs : List Nat} : Spells body rs → lineBodyOk rs → GapItem (35 :: body ++ [10])
  | block {text : Bytes} {rs : List Nat} : Spells text rs → closesExactly 1 rs = true → GapItem (47 :: 42 :: text)

/-- a gap: any sequence of gap items. -/
inductive Gap : Bytes → Prop
  | nil : Gap []
  | cons {i g : Bytes} : GapItem i → Gap g → Gap (i ++ g)

theorem isTrivia_lineComment : isTriviaKind tLINE_COMMENT = true := by decide

theorem kind_of_kvq {t : Tok} {k : Nat} {v : Bytes} {q : Bool} (h : t.kvq = (k, v, q)) : t.kind = k :=
  congrArg (·.1) h

/-- one gap item contributes nothing to what the parser sees. -/
theorem gapItem_trivia {i : Bytes} (hi : GapItem i) (t : Bytes) {s : LState} (hs : Ent s (i ++ t)) :
    ∃ s', Ent s' t ∧ pumpedFrom s = pumpedFrom s' := by
  cases hi with
  | @ws p r hd hw =>
    refine ⟨readChar s, hs.readChar hd, pumpedFrom_ws ?_⟩
    rw [(hs.dec hd).1]; exact hw
  | @dash body rs hb hok =>
    have hs' : Ent s (45 :: 45 :: body ++ 10 :: t) := by simpa using hs
    obtain ⟨hk, he⟩ := lineComment_tok hb hok t hs'
    refine ⟨readChar (nextToken s).2, he.readChar (p := [10]) dec10, ?_⟩
    rw [pumpedFrom_trivia (by rw [kind_of_kvq hk]; exact isTrivia_lineComment)]
    exact pumpedFrom_ws (by rw [(he.dec (p := [10]) dec10).1]; decide)
  | @hash body rs hb hok =>
    have hs' : Ent s (35 :: body ++ 10 :: t) := by simpa using hs
    obtain ⟨hk, he⟩ := hashComment_tok hb hok t hs'
    refine ⟨readChar (nextToken s).2, he.readChar (p := [10]) dec10, ?_⟩
    rw [pumpedFrom_trivia (by rw [kind_of_kvq hk]; exact isTrivia_lineComment)]
    exact pumpedFrom_ws (by rw [(he.dec (p := [10]) dec10).1]; decide)
  | @block text rs hb hc =>
    have hs' : Ent s (47 :: 42 :: text ++ t) := by simpa using hs
    obtain ⟨hk, he⟩ := blockComment_tok hb hc t hs'
    exact ⟨(nextToken s).2, he, pumpedFrom_trivia (by rw [kind_of_kvq hk]; exact isTrivia_lineComment)⟩

/-- a whole gap contributes nothing: from a state that enters `g ++ rest` the parser sees exactly what it
sees from a state that enters `rest`. -/
theorem gap_trivia {g : Bytes} (hg : Gap g) (rest : Bytes) {s x : LState} (hs : Ent s (g ++ rest)) (hx : Ent x rest) :
    pumpedFrom s = pumpedFrom x := by
  induction hg generalizing s with
  | nil => exact pumpedFrom_core (hs.coreEq hx)
  | cons hi _ ih =>
    rw [List.append_assoc] at hs
    obtain ⟨s', hs', he⟩ := gapItem_trivia hi _ hs
    rw [he]
    exact ih hs'

theorem Gap.append {a b : Bytes} (ha : Gap a) (hb : Gap b) : Gap (a ++ b) := by
  induction ha with
  | nil => exact hb
  | cons hi _ ih => rw [List.append_assoc]; exact Gap.cons hi ih

theorem Gap.item {i : Bytes} (hi : GapItem i) : Gap i := by
  have := Gap.cons hi Gap.nil
  rwa [List.append_nil] at this

/-- a run of white-space runes is a gap. -/
theorem Gap.ofWs {w : Bytes} {ws : List Nat} (hw : Spells w ws) (hall : ∀ r ∈ ws, isWs r = true) : Gap w := by
  induction hw with
  | nil => exact Gap.nil
  | cons hd _ ih =>
    exact Gap.cons (GapItem.ws hd (hall _ (List.mem_cons_self ..))) (ih (fun x hx => hall x (List.mem_cons_of_mem _ hx)))

/-- the stream after one non-EOF token. -/
theorem lexFrom_step {s x : LState} {k : Nat} {v : Bytes} {q : Bool} {rest : Bytes}
    (hk : (nextToken s).1.kvq = (k, v, q)) (hne : k ≠ tEOF) (he : Ent (nextToken s).2 rest) (hx : Ent x rest) :
    (lexFrom s).map Tok.kvq = (k, v, q) :: (lexFrom x).map Tok.kvq := by
  rw [lexFrom_cons (by rw [kind_of_kvq hk]; exact hne), List.map_cons, hk, lexFrom_core (he.coreEq hx)]

end DC.Lexer
