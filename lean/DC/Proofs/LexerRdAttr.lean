import Lean.Meta.Tactic.Simp.RegisterCommand
/-! simp set for the `runL`-correspondence lemmas of `DC.Proofs.LexerRd*` -/
register_simp_attr rd_pure
