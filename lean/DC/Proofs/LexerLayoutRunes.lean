import DC.Proofs.LexerLayoutPos

/-!
# Byte strings that the lexer reads as a known sequence of runes

* `decodeRune_encodeRune`: `utf8.DecodeRune ∘ utf8.AppendRune` is the identity on valid runes.
* `Dec p r`: the bytes `p` decode to the single rune `r` whatever follows them; `Spells bs rs`: `bs` is a
  concatenation of such pieces, read by the lexer as the runes `rs`. Every valid UTF-8 text spells its runes
  (`spells_enc`), every ASCII byte string spells its bytes (`spells_ascii`).
* `Ent s bs` ("`s` enters `bs`"): `s` is the state the lexer is in after `readChar` delivered the first rune of
  `bs`: the current character is that rune, the undelivered bytes are the rest of `bs`; EOF iff `bs = []`.
  `New(b)` enters `b`. Only the reader part (`LState.core`) is constrained.
* `peekChar_iff`: comparing `peekChar` with an ASCII character is comparing the next `readChar` with it.
-/
namespace DC.Lexer
open DC.Utf8 DC.Gen.Tokens

/-- a Unicode scalar value (what `utf8.AppendRune` writes unchanged). -/
def ValidRune (r : Nat) : Prop := r < 0x110000 ∧ ¬(0xD800 ≤ r ∧ r ≤ 0xDFFF)

instance (r : Nat) : Decidable (ValidRune r) := by unfold ValidRune; infer_instance

theorem decodeRune_encodeRune (r : Nat) (h : ValidRune r) (t : Bytes) :
    decodeRune (encodeRune r ++ t) = (r, (encodeRune r).length) := by
  unfold ValidRune at h
  unfold encodeRune
  split
  · simp [decodeRune]
    rw [if_pos (by omega)]
    congr 1; omega
  · split
    · simp [decodeRune, inRange]
      rw [if_neg (by omega), if_neg (by omega), if_pos (by omega), if_pos (by omega)]
      congr 1; omega
    · rw [if_neg (by omega)]
      split
      · simp [decodeRune, inRange]
        rw [if_neg (by omega), if_neg (by omega), if_neg (by omega), if_pos (by omega)]
        rw [if_neg (by split <;> split <;> omega), if_neg (by omega)]
        congr 1; omega
      · simp [decodeRune, inRange]
        rw [if_neg (by omega), if_neg (by omega), if_neg (by omega), if_neg (by omega), if_pos (by omega)]
        rw [if_neg (by split <;> split <;> omega), if_neg (by omega), if_neg (by omega)]
        congr 1; omega

theorem decodeRune_ascii (b : UInt8) (t : Bytes) (h : b.toNat < 128) : decodeRune (b :: t) = (b.toNat, 1) := by
  simp [decodeRune, h]

/-- a first byte ≥ 0x80 never decodes to an ASCII rune. -/
theorem decodeRune_ge (b : UInt8) (t : Bytes) (h : 128 ≤ b.toNat) : 128 ≤ (decodeRune (b :: t)).1 := by
  unfold decodeRune
  simp only [inRange, runeError]
  repeat' split
  all_goals simp at *
  all_goals repeat' split
  all_goals (try simp at *)
  all_goals omega

/-! ## pieces -/

/-- `p` is read as the one rune `r`, whatever follows. -/
def Dec (p : Bytes) (r : Nat) : Prop := p ≠ [] ∧ ∀ t, decodeRune (p ++ t) = (r, p.length)

theorem dec_encodeRune {r : Nat} (h : ValidRune r) : Dec (encodeRune r) r :=
  ⟨encodeRune_ne_nil r, decodeRune_encodeRune r h⟩

theorem dec_ascii {b : UInt8} (h : b.toNat < 128) : Dec [b] b.toNat :=
  ⟨by simp, fun t => decodeRune_ascii b t h⟩

/-- a byte that can never start or continue a rune at this place (`80..C1`, `F5..FF`) is read as U+FFFD, alone. -/
theorem dec_invalid {b : UInt8} (h : (128 ≤ b.toNat ∧ b.toNat < 0xC2) ∨ 0xF5 ≤ b.toNat) : Dec [b] runeError := by
  refine ⟨by simp, fun t => ?_⟩
  simp only [List.cons_append, List.nil_append, List.length_singleton]
  unfold decodeRune
  simp only []
  rcases h with h | h
  · rw [if_neg (by omega), if_pos h.2]
  · rw [if_neg (by omega), if_neg (by omega), if_neg (by omega), if_neg (by omega), if_neg (by omega)]

/-- the UTF-8 encoding of a rune list. -/
def enc : List Nat → Bytes
  | [] => []
  | r :: rs => encodeRune r ++ enc rs

theorem enc_append (a b : List Nat) : enc (a ++ b) = enc a ++ enc b := by
  induction a with
  | nil => rfl
  | cons r a ih => simp [enc, ih]

inductive Spells : Bytes → List Nat → Prop
  | nil : Spells [] []
  | cons {p : Bytes} {r : Nat} {bs : Bytes} {rs : List Nat} : Dec p r → Spells bs rs → Spells (p ++ bs) (r :: rs)

theorem spells_enc {rs : List Nat} (h : ∀ r ∈ rs, ValidRune r) : Spells (enc rs) rs := by
  induction rs with
  | nil => exact Spells.nil
  | cons r rs ih =>
    exact Spells.cons (dec_encodeRune (h r (List.mem_cons_self ..)))
      (ih (fun x hx => h x (List.mem_cons_of_mem _ hx)))

theorem spells_ascii {bs : Bytes} (h : ∀ b ∈ bs, b.toNat < 128) : Spells bs (bs.map UInt8.toNat) := by
  induction bs with
  | nil => exact Spells.nil
  | cons b bs ih =>
    exact Spells.cons (p := [b]) (dec_ascii (h b (List.mem_cons_self ..)))
      (ih (fun x hx => h x (List.mem_cons_of_mem _ hx)))

theorem Spells.append {a b : Bytes} {ra rb : List Nat} (ha : Spells a ra) (hb : Spells b rb) :
    Spells (a ++ b) (ra ++ rb) := by
  induction ha with
  | nil => exact hb
  | cons hd _ ih => rw [List.append_assoc]; exact Spells.cons hd ih

theorem Spells.single {p : Bytes} {r : Nat} (h : Dec p r) : Spells p [r] := by
  have := Spells.cons h Spells.nil
  rwa [List.append_nil] at this

theorem encodeRune_ascii (b : UInt8) (h : b.toNat < 128) : encodeRune b.toNat = [b] := by
  unfold encodeRune
  rw [if_pos h]
  simp

theorem enc_ascii {bs : Bytes} (h : ∀ b ∈ bs, b.toNat < 128) : enc (bs.map UInt8.toNat) = bs := by
  induction bs with
  | nil => rfl
  | cons b bs ih =>
    simp only [List.map_cons, enc]
    rw [encodeRune_ascii b (h b (List.mem_cons_self ..)), ih (fun x hx => h x (List.mem_cons_of_mem _ hx))]
    rfl

/-! ## entering a byte string -/

/-- the reader part of the state after `readChar` has been called on a live state whose undelivered bytes
are `bs`. -/
def coreEnter (bs : Bytes) : Core :=
  if bs.isEmpty then ([], 0, true) else (bs.drop (decodeRune bs).2, (decodeRune bs).1, false)

/-- the first rune of `bs` as the lexer sees it (`0` when there is none). -/
def firstRune (bs : Bytes) : Nat := (coreEnter bs).2.1

/-- `s` stands on the first rune of `bs` (or at EOF if `bs = []`), the rest of `bs` is undelivered. -/
def Ent (s : LState) (bs : Bytes) : Prop := s.core = coreEnter bs

theorem readChar_core (s : LState) (h : s.eof = false) : Ent (readChar s) s.rest := by
  unfold Ent LState.core coreEnter readChar
  rw [h]
  simp only [Bool.false_eq_true, if_false]
  cases hr : s.rest with
  | nil => rfl
  | cons b t => rfl

theorem ent_new (b : Bytes) : Ent (new b) b := readChar_core _ rfl

theorem ent_stateAt (b : Bytes) : Ent (stateAt b) b := ent_new b

theorem coreEnter_nil : coreEnter [] = ([], 0, true) := rfl

theorem coreEnter_dec {p : Bytes} {r : Nat} (h : Dec p r) (t : Bytes) : coreEnter (p ++ t) = (t, r, false) := by
  unfold coreEnter
  have hne : (p ++ t).isEmpty = false := by
    cases p with
    | nil => exact absurd rfl h.1
    | cons a p => rfl
  rw [hne, h.2 t]
  simp

theorem firstRune_dec {p : Bytes} {r : Nat} (h : Dec p r) (t : Bytes) : firstRune (p ++ t) = r := by
  unfold firstRune; rw [coreEnter_dec h]

theorem firstRune_nil : firstRune [] = 0 := rfl

theorem firstRune_cons_ascii (b : UInt8) (t : Bytes) (h : b.toNat < 128) : firstRune (b :: t) = b.toNat :=
  firstRune_dec (dec_ascii h) t

theorem Ent.ch {s : LState} {bs : Bytes} (h : Ent s bs) : s.ch = firstRune bs := by
  unfold Ent LState.core at h
  unfold firstRune
  rw [← h]

theorem Ent.nil {s : LState} (h : Ent s []) : s.eof = true ∧ s.ch = 0 := by
  unfold Ent LState.core at h
  rw [coreEnter_nil] at h
  simp only [Prod.mk.injEq] at h
  exact ⟨h.2.2, h.2.1⟩

theorem Ent.dec {s : LState} {p t : Bytes} {r : Nat} (h : Ent s (p ++ t)) (hd : Dec p r) :
    s.ch = r ∧ s.eof = false ∧ s.rest = t := by
  unfold Ent LState.core at h
  rw [coreEnter_dec hd] at h
  simp only [Prod.mk.injEq] at h
  exact ⟨h.2.1, h.2.2, h.1⟩

theorem Ent.readChar {s : LState} {p t : Bytes} {r : Nat} (h : Ent s (p ++ t)) (hd : Dec p r) :
    Ent (readChar s) t := by
  obtain ⟨_, he, hr⟩ := h.dec hd
  rw [← hr]
  exact readChar_core s he

/-- a live state: EOF only if nothing is left. -/
theorem Ent.eof_iff {s : LState} {bs : Bytes} (h : Ent s bs) : s.eof = true ↔ bs = [] := by
  unfold Ent LState.core coreEnter at h
  cases bs with
  | nil => simp at h; simp [h]
  | cons b t => simp at h; simp [h]

theorem Ent.coreEq {a b : LState} {bs : Bytes} (ha : Ent a bs) (hb : Ent b bs) : CoreEq a b :=
  coreEq_iff.2 (ha.trans hb.symm)

theorem Ent.of_coreEq {a b : LState} {bs : Bytes} (ha : Ent a bs) (h : CoreEq a b) : Ent b bs :=
  (coreEq_iff.1 h).symm.trans ha

/-! ## `peekChar` against an ASCII character -/

theorem peekChar_iff (s : LState) (c : Nat) (hc : c < 128) : peekChar s = c ↔ (readChar s).ch = c := by
  unfold peekChar DC.Lexer.readChar
  cases he : s.eof with
  | true => simp
  | false =>
    simp only [Bool.false_eq_true, if_false]
    cases hr : s.rest with
    | nil => simp
    | cons b t =>
      simp only [List.isEmpty_cons, Bool.false_eq_true, if_false]
      by_cases hb : b.toNat < 128
      · rw [decodeRune_ascii b [] hb, decodeRune_ascii b t hb]
      · have h1 := decodeRune_ge b [] (by omega)
        have h2 := decodeRune_ge b t (by omega)
        constructor <;> intro h <;> omega

/-- for a state that enters `p ++ t`: `peekChar` sees the first rune of `t` if that is what is asked for. -/
theorem Ent.peek {s : LState} {p t : Bytes} {r : Nat} (h : Ent s (p ++ t)) (hd : Dec p r) (c : Nat) (hc : c < 128) :
    peekChar s = c ↔ firstRune t = c := by
  rw [peekChar_iff s c hc, (h.readChar hd).ch]

end DC.Lexer
