import DC.Model.ExplainExpr

/-!
# the first word of every line the model prints is its kind word
-/
namespace DC.Proofs.ExplainExpr
open DC DC.Spec.Tree DC.Model.ExplainExpr

theorem word_no_space (k : Kind) : ∀ x ∈ k.word, (x != sp) = true := by
  cases k with
  | unsupported w => show ∀ x ∈ b "?", (x != sp) = true; decide
  | _ => decide

theorem word_head (k : Kind) : k.word.head? ≠ some sp ∧ k.word ≠ [] := by
  cases k with
  | unsupported w => show (b "?").head? ≠ some sp ∧ b "?" ≠ []; decide
  | _ => decide

/-- what follows the kind word on a line is empty or starts with a space -/
theorem tail_head (r : Option Bytes) (c : Bool) (n : Nat) :
    ∀ y, (restText r ++ (if c then suffix (showDec n) else [])).head? = some y →
      (y != sp) = false := by
  intro y hy
  cases r with
  | some r => simp [restText] at hy; subst hy; decide
  | none =>
    cases c with
    | false => simp [restText] at hy
    | true =>
      simp [restText, suffix, tag] at hy
      subst hy; decide

/-- **the first word of a printed line is the kind word of its item** -/
theorem kindOf_toLine (i : Item) : kindOf i.toLine = i.kind.word := by
  obtain ⟨d, k, r, c⟩ := i
  have hw := word_head k
  have e : Item.toLine ⟨d, k, r, c⟩ = List.replicate d sp ++
      (k.word ++ (restText r ++
        (if c.isSome then suffix (showDec (c.getD 0)) else []))) := by
    simp [Item.toLine, line, Item.label, List.append_assoc]
  have hh : (k.word ++ (restText r ++
      (if c.isSome then suffix (showDec (c.getD 0)) else []))).head? ≠ some sp := by
    cases hk : k.word with
    | nil => exact absurd hk hw.2
    | cons x xs =>
      have := hw.1
      rw [hk] at this
      simpa using this
  unfold kindOf
  rw [e, dropWhile_replicate_append sp d _ hh]
  exact (takeWhile_append_of_all (fun x => x != sp) k.word _ (word_no_space k) (tail_head r c.isSome (c.getD 0))).1

/-- the four kind words of the expression core are node kinds of ClickHouse's own output
(`DC.Gen.NodeKinds.nodeKinds`: the first words of the golden files, regenerated on every check) -/
theorem word_known (k : Kind) (h : ∀ w, k ≠ .unsupported w) : nodeKindBytes.contains k.word = true := by
  cases k with
  | function => decide +kernel
  | identifier => decide +kernel
  | literal => decide +kernel
  | expressionList => decide +kernel
  | unsupported w => exact absurd rfl (h w)

end DC.Proofs.ExplainExpr
